(* CreateSplitFacts.v — C02 composed with C04: `pna create --split N` followed by `pna extract` of the part set.

   create.rs create_archive_with_split hands the entries built by create_entry (the C01 pipeline: build_job) to
   commons.rs write_split_archive_writer, which cuts every entry with EntryPart::split / split_to_parts and
   starts a new part file whenever the next piece does not fit (Model/Split.v write_split).  extract.rs reads
   x.part1.pna, x.part2.pna, ... through read_next_archive (Model/Archive.v read_parts).

   C02 (CreateTransportFacts.create_archive_extract) speaks of ONE archive file; C04 (RecutFacts.split_then_decode,
   SplitFacts.parts_bounded) speaks of the parts of `writable` entries and gives entries that AGREE with the
   originals (same header, PHSF, extras, metadata, xattrs, concatenated data).  The links made here:
     built_writable        an entry built by the C01 pipeline from a wf_job job is `writable`, provided its name is
                           not empty, its private chunks are ancillary and — the one thing wf_job does not say —
                           the PHSF string of an ENCRYPTED entry has PHC shape (phc_job; the strict recogniser of
                           C14, through which C04's read-back theorem goes, checks that shape);
                           built_writable_needs_phc: without it the built entry is NOT writable;
     read_recut            entry_same + decode ==> the same LOGICAL entry: an entry that agrees with a built entry
                           up to the cut of its data reads (name, kind, content, mode, mtime, xattrs) as the xentry
                           the job carries, with EVERY read-buffer sequence that drains its data;
     ser_pfile_len         a part file's byte length is Split.file_size (so the bound of C04 is a bound in bytes).
   Result: transport_split_lossless (any jobs), create_split_extract (the tree of C02), create_split_extract_kdf (the
   premise phc_job discharged by a law of the KDF: it verifies PHC strings only), create_split_extract_real
   (AES-256 / Camellia-256 models), create_solid_split_extract (--solid --split), split_premises and
   split_round_trip_ex (premises satisfiable; the chain evaluated in the kernel).
   Open: the statement without phc_job, i.e. for an encrypted entry whose PHSF string is not PHC-shaped (never written by
   the real KDF).  It needs C04's read-back (WfSplitFacts.split_read_back) for chunk sequences the strict recogniser
   rejects for that reason alone; the splitter itself never looks at a PHSF chunk. *)
From PNA Require Import Base Crc32 Name Codec Chunk Archive Entry Flatten Cbc Ctr Pipeline Aes Camellia Wf
  BaseFacts NameFacts CodecFacts ChunkFacts ArchiveFacts EntryFacts FlattenFacts CbcFacts CtrFacts StreamFacts PipelineFacts
  WfFacts WfWriterFacts WfAgreeFacts WfSplitFacts WfPipelineFacts AesFacts CamelliaFacts PipelineRealFacts PipelineRun RecutFacts.
From PNA Require Split SplitFacts.
From PNA Require Import Fs Extract ExtractFacts CreateExtractFacts CreateTransportFacts.
Require Import ZArith ZifyN ZifyNat ZifyBool Lia Permutation.
Open Scope N_scope.

(* ================================================================================================= *)
(* 0. the one premise C02 does not have                                                               *)
(* ================================================================================================= *)
(* the PHSF string of an encrypted entry is a PHC string (what argon2 / pbkdf2 `PasswordHash::to_string` prints);
   entries that are not files are never encrypted (eff_cfg), nor are entries of an unencrypted configuration *)
Definition phc_job (j : job) : Prop :=
  Pipeline.encrypted (eff_cfg (j_cfg j) (sp_kind (j_spec j))) = true -> phsf_shape (c_phsf (j_ctx j)) = true.

Lemma phc_job_unfolded j :
  phc_job j <->
  (Pipeline.encrypted (eff_cfg (j_cfg j) (sp_kind (j_spec j))) = true -> phsf_shape (c_phsf (j_ctx j)) = true).
Proof. reflexivity. Qed.

(* a PHC-shaped string, to borrow the lemmas stated for strict_ctx *)
Definition phc_sample : bytes := lit "$argon2id$v=19$m=8,t=1,p=1$AQIDBAUGBwgJCgsMDQ4PEA".
Definition with_sample (ctx : cctx) : cctx := {| c_key := c_key ctx; c_iv := c_iv ctx; c_phsf := phc_sample |}.

Lemma join_nonempty sep c p : c <> [] -> join sep (c :: p) <> [].
Proof. intros H. cbn [join]. destruct p; [exact H|]. destruct c; [congruence|discriminate]. Qed.

Lemma path_str_nonempty p : p <> [] -> Forall normal_component p -> path_str p <> [].
Proof.
  destruct p as [|c p]; [congruence|]. intros _ H. inversion H as [|? ? (Hc & _) _]; subst.
  unfold path_str. apply join_nonempty. exact Hc.
Qed.

(* ================================================================================================= *)
(* 1. part files: Split.file_size is the length in bytes                                              *)
(* ================================================================================================= *)
Lemma ser_chunks_to_c_len f : Forall (fun c => length (fst c) = 4%nat) f ->
  len (ser_chunks (map to_c f)) = Split.bytes_len f.
Proof.
  induction 1 as [|c f Hc _ IH]; [reflexivity|]. cbn [map Split.bytes_len]. rewrite ser_chunks_cons, len_app, IH.
  unfold len at 1. rewrite ser_chunk_length by exact Hc. unfold Split.chunk_len, Split.MIN_CHUNK, to_c, len. cbn [cdata mk]. lia.
Qed.

Lemma ser_pfile_len f : Forall (fun c => length (fst c) = 4%nat) f -> len (ser_pfile f) = Split.file_size f.
Proof.
  intro H. unfold ser_pfile, Split.file_size, Split.PNA_HEADER_LEN. rewrite len_app, ser_chunks_to_c_len by exact H. reflexivity.
Qed.

Lemma assemble_nonlast_types (P : Split.chunk -> Prop) : forall bds n,
  (forall k, P (Split.ahed_chunk k)) -> P Split.anxt_chunk -> P Split.aend_chunk -> Forall P (concat bds) ->
  Forall (Forall P) (SplitFacts.assemble_nonlast n bds).
Proof.
  induction bds as [|b bds IH]; intros n H1 H2 H3 H; cbn [SplitFacts.assemble_nonlast]; [constructor|].
  cbn [concat] in H. apply Forall_app in H. destruct H as (Hb & Hr). constructor; [|apply IH; assumption].
  constructor; [apply H1|]. apply Forall_app. split; [exact Hb|]. constructor; [exact H2|]. constructor; [exact H3|constructor].
Qed.

Lemma assemble_types (P : Split.chunk -> Prop) bds lastb :
  (forall k, P (Split.ahed_chunk k)) -> P Split.anxt_chunk -> P Split.aend_chunk -> Forall P (concat bds ++ lastb) ->
  Forall (Forall P) (SplitFacts.assemble bds lastb).
Proof.
  intros H1 H2 H3 H. apply Forall_app in H. destruct H as (Hb & Hl). unfold SplitFacts.assemble. apply Forall_app. split.
  - apply assemble_nonlast_types; assumption.
  - constructor; [|constructor]. constructor; [apply H1|]. apply Forall_app. split; [exact Hl|]. constructor; [exact H3|constructor].
Qed.

(* the parts of a successful split of body chunks (4-byte types): at most `max` bytes each, counted in the file *)
Theorem split_parts_sizes max es parts :
  Split.write_split max es = Ok parts -> Forall body_chunk (map to_c (concat es)) ->
  Forall (fun f => Split.file_size f <= max /\ len (ser_pfile f) = Split.file_size f) parts.
Proof.
  intros W B.
  assert (M : 52 <= max).
  { destruct (N.lt_ge_cases max 52) as [L|G]; [|exact G]. rewrite (SplitFacts.below_minimum_rejected max es L) in W. discriminate. }
  pose proof (SplitFacts.parts_bounded max es parts M W) as PB.
  destruct (write_split_refines _ _ _ W) as (bds & lastb & EQ & _ & CR).
  pose proof (crefines_body_chunks _ _ CR B) as B'.
  assert (T : Forall (Forall (fun c => length (fst c) = 4%nat)) parts).
  { rewrite EQ. apply assemble_types; try reflexivity.
    apply Forall_forall. intros c Hc. rewrite Forall_forall in B'. specialize (B' (to_c c) (in_map to_c _ _ Hc)).
    destruct B' as (((L & _) & _) & _). exact L. }
  rewrite Forall_forall in PB, T. apply Forall_forall. intros f Hf. split; [exact (PB f Hf)|].
  apply ser_pfile_len. exact (T f Hf).
Qed.

(* ================================================================================================= *)
(* 2. the bridges                                                                                     *)
(* ================================================================================================= *)
Lemma Forall2_weaken {A B} (P Q : A -> B -> Prop) : (forall a b, P a b -> Q a b) ->
  forall l1 l2, Forall2 P l1 l2 -> Forall2 Q l1 l2.
Proof. intros H l1 l2. induction 1; constructor; auto. Qed.

Lemma agree_normals : forall (bs : list normal_entry) xs, Forall2 entry_same (map RNormal bs) xs ->
  exists ns, xs = map RNormal ns /\ Forall2 normal_same bs ns.
Proof.
  induction bs as [|b bs IH]; intros xs H; inversion H as [|? y ? ys Hy Hr]; subst.
  - exists []. split; [reflexivity|constructor].
  - destruct (IH ys Hr) as (ns & -> & F). destruct y as [n|s]; cbn [entry_same] in Hy; [|contradiction].
    exists (n :: ns). split; [reflexivity|]. constructor; [exact Hy|exact F].
Qed.

(* (CreateTransportFacts.create_kinds, outside its section) *)
Lemma created_kinds c t : forall order, Forall (fun e => e_kind e <= 3) (create_from_tree c order t).
Proof.
  induction order as [|p r IH]; [constructor|]. cbn [create_from_tree].
  destruct (tget t p) as [n|]; [|exact IH]. destruct (collected c n); [|exact IH].
  constructor; [destruct n; cbn [entry_of e_kind]; lia|exact IH].
Qed.

Section CreateSplit.
Variables E D : encryption -> bytes -> bytes -> bytes.
Variable compress : compression -> N -> list bytes -> list bytes.
Variable decompress : compression -> bytes -> res bytes.
Variable verify : bytes -> bytes -> res bytes.
Hypothesis D_len : forall a k c, len16 c -> len16 (D a k c).
Hypothesis DE : forall a k b, len16 b -> D a k (E a k b) = b.
Hypothesis E_len : forall a k b, len16 b -> len16 (E a k b).
Hypothesis compress_law : forall c lvl ws, decompress c (concat (compress c lvl ws)) = Ok (concat ws).
Hypothesis compress_det : forall c lvl (ws ws' : list bytes), concat ws = concat ws' ->
  concat (compress c lvl ws) = concat (compress c lvl ws').

Notation build_job := (build_job E compress).
Notation wf_job := (wf_job E compress verify).
Notation decode_normal := (decode_normal E D decompress verify).
Notation read_entry_x := (read_entry_x E D decompress verify).
Notation read_entries_x := (read_entries_x E D decompress verify).

(* the chunk lists handed to the split writer: one EntryPart per built entry *)
Notation split_input jobs := (map (fun j => map of_c (ser_normal (build_job j))) jobs).

(* 2a. entries built by the C01 pipeline are writable *)
Lemma built_writable pw j : wf_job pw j -> sp_name (j_spec j) <> [] ->
  Forall extra_ok (sp_extra (j_spec j)) -> phc_job j -> writable_normal (build_job j).
Proof.
  intros (WS & WC & WW & WF) NE EX PH.
  destruct WS as (S1 & S2 & S3 & S4 & S5 & S6 & S7 & S8 & S9). destruct WC as (K & _ & _).
  unfold fits in WF. destruct WF as (F1 & F2 & _ & _ & F6).
  destruct j as [cfg ctx sp wcuts]. unfold phc_job, PipelineFacts.build_job in *. cbn [j_cfg j_ctx j_spec j_wcuts] in *.
  set (cfg' := eff_cfg cfg (sp_kind sp)) in *.
  assert (SC : strict_ctx (with_sample ctx)) by (split; [exact K|split; reflexivity]).
  unfold writable_normal, Pipeline.build_normal in *. cbv zeta in *. fold cfg' in F2 |- *.
  cbn [n_hdr n_phsf n_extra n_data n_meta n_xattrs m_raw_size m_compressed m_ctime m_mtime m_atime m_perm
       f_major f_minor f_name f_enc f_mode] in *.
  split; [reflexivity|]. split; [reflexivity|]. split; [apply valid_name_sanitised; assumption|]. split; [exact F1|].
  split.
  { unfold phsf_part in *. unfold Pipeline.encrypted in *. destruct (g_enc cfg'); cbn [phsf_ok Wf.encrypted opt_all] in *.
    - reflexivity.
    - split; [reflexivity|]. split; [apply PH; reflexivity|exact F2].
    - split; [reflexivity|]. split; [apply PH; reflexivity|exact F2]. }
  split; [exact EX|]. split; [reflexivity|].
  split.
  { exact (data_len_built E compress E_len cfg' (with_sample ctx) (eff_wcuts (sp_kind sp) wcuts)
             (flat_sink (data_pieces E compress cfg' ctx (eff_wcuts (sp_kind sp) wcuts))) SC (flat_sink_sum_len _)). }
  split.
  { destruct (sp_kind sp) eqn:KD; cbn [opt_all]; try exact I. cbn [eff_wcuts] in WW. rewrite WW. exact S3. }
  split; [exact S4|]. split; [exact S5|]. split; [exact S6|]. split; [exact S7|].
  rewrite Forall_forall in S8, F6. apply Forall_forall. intros x Hx. split; [exact (S8 x Hx)|exact (F6 x Hx)].
Qed.

(* 2b. entry_same + decode ==> the same logical entry *)
Lemma read_recut pw rb j e n : wf_job pw j -> carries j e -> e_kind e <= 3 ->
  normal_same (build_job j) n -> drains (n_data n) (rb n) -> read_entry_x pw rb n = Ok e.
Proof.
  intros WJ [a Ha] Hk NS DR. unfold CreateTransportFacts.read_entry_x.
  assert (D1 : drains (n_data (build_job j)) (rb n)).
  { destruct NS as (_ & _ & _ & Hc & _). eapply drains_concat; [symmetry; exact Hc|exact DR]. }
  rewrite <- (normal_same_decode E D decompress verify (build_job j) n pw (rb n) (rb n) NS D1 DR).
  rewrite (built_decodes E D compress decompress verify D_len DE E_len compress_law pw j (rb n) WJ D1). cbn [bind].
  destruct NS as (Hh & _ & _ & _ & Hm & Hx). f_equal. unfold xentry_of_normal. rewrite <- Hh, <- Hm, <- Hx.
  unfold PipelineFacts.build_job, build_normal. cbv zeta. cbn [n_hdr n_meta n_xattrs f_name f_kind m_perm m_mtime].
  rewrite Ha. cbn [xspec sp_name sp_kind sp_content sp_perm sp_mtime sp_xattrs].
  rewrite (kind_no_of _ Hk), xattr_kv_of. destruct e as [nm k d pm mt xs]. cbn [e_name e_kind e_data e_perm e_mtime e_xattrs].
  f_equal. destruct pm; reflexivity.
Qed.

Lemma read_all_recut pw rb : forall jobs es, Forall2 carries jobs es -> Forall (wf_job pw) jobs ->
  Forall (fun e => e_kind e <= 3) es -> forall ns, Forall2 normal_same (map build_job jobs) ns ->
  (forall n, In n ns -> drains (n_data n) (rb n)) -> read_entries_x pw rb ns = Ok es.
Proof.
  induction 1 as [|j e jobs es Hje _ IH]; intros Hw Hk ns NS DR; cbn [map] in NS; inversion NS as [|? n ? ns' Hn Hr]; subst; [reflexivity|].
  inversion Hw; subst. inversion Hk; subst. cbn [CreateTransportFacts.read_entries_x].
  rewrite (read_recut pw rb j e n) by (auto; apply DR; left; reflexivity). cbn [bind].
  rewrite (IH ltac:(assumption) ltac:(assumption) ns' Hr); [reflexivity|]. intros n' Hn'. apply DR. right. exact Hn'.
Qed.

(* ================================================================================================= *)
(* 3. the container in between, split into parts                                                      *)
(* ================================================================================================= *)
Theorem transport_split_lossless pw jobs es max parts :
  Forall2 carries jobs es -> Forall (wf_job pw) jobs -> Forall (fun e => e_kind e <= 3) es ->
  Forall (fun e => e_name e <> []) es -> Forall phc_job jobs ->
  Split.write_split max (split_input jobs) = Ok parts ->
  Forall (fun f => Split.file_size f <= max /\ len (ser_pfile f) = Split.file_size f) parts /\
  exists raws ns,
    read_parts read_chunk_stream (map ser_pfile parts) = Ok (raws, FinOk) /\
    read_parts read_chunk_slice (map ser_pfile parts) = Ok (raws, FinOk) /\
    parse_all raws = (map RNormal ns, FinOk) /\
    Forall2 normal_same (map build_job jobs) ns /\
    forall rb, (forall n, In n ns -> drains (n_data n) (rb n)) -> read_entries_x pw rb ns = Ok es.
Proof.
  intros Hc Hw Hk Hn Hp W.
  assert (WR : Forall writable (map RNormal (map build_job jobs))).
  { clear W Hk. induction Hc as [|j e jobs es [a Ha] _ IH]; [constructor|].
    inversion Hw; subst. inversion Hn; subst. inversion Hp; subst. cbn [map]. constructor; [|apply IH; assumption].
    cbn [writable]. apply (built_writable pw); try assumption; rewrite Ha; cbn [xspec sp_name sp_extra]; [assumption|constructor]. }
  assert (EQ : split_input jobs = map (fun e => map of_c (ser_entry e)) (map RNormal (map build_job jobs))).
  { rewrite !map_map. reflexivity. }
  rewrite EQ in W. split.
  - apply (split_parts_sizes max _ parts W).
    assert (C : map to_c (concat (map (fun e => map of_c (ser_entry e)) (map RNormal (map build_job jobs))))
                = concat (map ser_entry (map RNormal (map build_job jobs)))).
    { generalize (map RNormal (map build_job jobs)). intro l. induction l as [|x l IH]; [reflexivity|].
      cbn [map concat]. rewrite map_app, map_to_of_c, IH. reflexivity. }
    rewrite C. apply written_body_chunks. exact WR.
  - destruct (split_then_decode E D decompress verify max _ parts WR W) as (xs' & raws & R1 & R2 & P & AG).
    assert (SM : Forall2 entry_same (map RNormal (map build_job jobs)) xs').
    { eapply Forall2_weaken; [|exact AG]. intros x y H. exact (proj1 H). }
    destruct (agree_normals _ _ SM) as (ns & -> & NS).
    exists raws, ns. split; [exact R1|]. split; [exact R2|]. split; [exact P|]. split; [exact NS|].
    intros rb DR. apply (read_all_recut pw rb jobs es); assumption.
Qed.

(* the premise is exactly what `writable` asks beyond wf_job: a built entry that is writable has a PHC-shaped PHSF *)
Lemma built_writable_needs_phc j : writable_normal (build_job j) -> phc_job j.
Proof.
  intros (_ & _ & _ & _ & P & _). unfold phc_job. intro EN. destruct j as [cfg ctx sp wcuts].
  unfold PipelineFacts.build_job, build_normal in P. cbv zeta in P. cbn [j_cfg j_ctx j_spec j_wcuts n_hdr n_phsf f_enc] in *.
  unfold phsf_part in P. rewrite EN in P. cbn [phsf_ok] in P. exact (proj1 (proj2 P)).
Qed.

(* a KDF that only verifies PHC strings (PasswordHash::new parses the string first) gives the premise *)
Lemma phc_of_kdf pw jobs : (forall p w k, verify p w = Ok k -> phsf_shape p = true) ->
  Forall (wf_job pw) jobs -> Forall phc_job jobs.
Proof.
  intros KDF H. eapply Forall_impl; [|exact H]. intros j (_ & (_ & V & _) & _) _. exact (KDF _ _ _ V).
Qed.

(* ================================================================================================= *)
(* 4. C02 with the part set in between                                                                *)
(* ================================================================================================= *)
Lemma create_names_nonempty c t : wf_tree t -> tree_ok t -> forall order,
  Forall (fun e => e_name e <> []) (create_from_tree c order t).
Proof.
  intros WF (_ & TK & _). induction order as [|p r IH]; [constructor|]. cbn [create_from_tree].
  destruct (tget t p) as [n|] eqn:G; [|exact IH]. destruct (collected c n); [|exact IH].
  constructor; [|exact IH]. apply tget_In in G. destruct (TK p n G) as (NE & _).
  unfold wf_tree in WF. rewrite Forall_forall in WF. pose proof (WF (p, n) G) as NC. cbn [fst] in NC.
  destruct n; cbn [entry_of e_name]; apply path_str_nonempty; assumption.
Qed.

Theorem create_split_extract : forall c o out order t pw jobs max parts,
  o_guarded o = true -> wf_tree t -> tree_ok t -> walk_order_ok c o t order ->
  Forall ExtractFacts.plain out -> out <> [] ->
  Forall2 carries jobs (create_from_tree c order t) -> Forall (wf_job pw) jobs -> Forall phc_job jobs ->
  Split.write_split max (split_input jobs) = Ok parts ->
  Forall (fun f => Split.file_size f <= max /\ len (ser_pfile f) = Split.file_size f) parts /\
  exists raws ns es,
    read_parts read_chunk_stream (map ser_pfile parts) = Ok (raws, FinOk) /\
    read_parts read_chunk_slice (map ser_pfile parts) = Ok (raws, FinOk) /\
    parse_all raws = (map RNormal ns, FinOk) /\
    (forall rb, (forall n, In n ns -> drains (n_data n) (rb n)) -> read_entries_x pw rb ns = Ok es) /\
    es = create_from_tree c order t /\
    tree_of c o out order (extract_all o out es (empty_dir out)) = expected c o order t /\
    snd (extract_run o out es (empty_dir out)) = true.
Proof.
  intros c o out order t pw jobs max parts G WF TOK WO OP ON Hc Hw Hp W.
  destruct (transport_split_lossless pw jobs _ max parts Hc Hw (created_kinds c t order)
              (create_names_nonempty c t WF TOK order) Hp W) as (SZ & raws & ns & R1 & R2 & P & _ & RD).
  split; [exact SZ|]. exists raws, ns, (create_from_tree c order t).
  split; [exact R1|]. split; [exact R2|]. split; [exact P|]. split; [exact RD|]. split; [reflexivity|].
  apply create_extract; assumption.
Qed.

(* the same with the premise discharged by a law of the KDF *)
Theorem create_split_extract_kdf : (forall p w k, verify p w = Ok k -> phsf_shape p = true) ->
  forall c o out order t pw jobs max parts,
  o_guarded o = true -> wf_tree t -> tree_ok t -> walk_order_ok c o t order ->
  Forall ExtractFacts.plain out -> out <> [] ->
  Forall2 carries jobs (create_from_tree c order t) -> Forall (wf_job pw) jobs ->
  Split.write_split max (split_input jobs) = Ok parts ->
  Forall (fun f => Split.file_size f <= max /\ len (ser_pfile f) = Split.file_size f) parts /\
  exists raws ns es,
    read_parts read_chunk_stream (map ser_pfile parts) = Ok (raws, FinOk) /\
    read_parts read_chunk_slice (map ser_pfile parts) = Ok (raws, FinOk) /\
    parse_all raws = (map RNormal ns, FinOk) /\
    (forall rb, (forall n, In n ns -> drains (n_data n) (rb n)) -> read_entries_x pw rb ns = Ok es) /\
    es = create_from_tree c order t /\
    tree_of c o out order (extract_all o out es (empty_dir out)) = expected c o order t /\
    snd (extract_run o out es (empty_dir out)) = true.
Proof.
  intros KDF c o out order t pw jobs max parts G WF TOK WO OP ON Hc Hw W.
  apply (create_split_extract c o out order t pw jobs max parts); try assumption. exact (phc_of_kdf pw jobs KDF Hw).
Qed.

(* ================================================================================================= *)
(* 5. --solid --split: one solid entry (SolidEntryBuilder: add_entry of each, build) cut into parts   *)
(* ================================================================================================= *)
Definition phc_ctx (cfg : config) (ctx : cctx) : Prop :=
  Pipeline.encrypted cfg = true -> phsf_shape (c_phsf ctx) = true /\ len (c_phsf ctx) < 2 ^ 32.

Notation solid_of cfg ctx jobs := (build_solid E compress cfg ctx [] (solid_writes (map build_job jobs))).

Lemma built_solid_writable cfg ctx pw inner : wf_ctx verify ctx pw -> phc_ctx cfg ctx ->
  Forall writable_normal inner ->
  writable_solid (build_solid E compress cfg ctx [] (solid_writes inner)).
Proof.
  intros (K & _ & _) PH W.
  assert (PI : forall c0, plain_inner c0 (solid_writes inner)).
  { intros c0 _ _. exists inner. split; [exact W|apply solid_writes_stream]. }
  destruct (Pipeline.encrypted cfg) eqn:EN.
  - destruct (PH EN) as (P1 & P2).
    apply (build_solid_writable E compress E_len); [split; [exact K|split; assumption]|constructor|apply PI].
  - replace (build_solid E compress cfg ctx [] (solid_writes inner))
      with (build_solid E compress cfg (with_sample ctx) [] (solid_writes inner))
      by (unfold build_solid, phsf_part; rewrite EN; reflexivity).
    apply (build_solid_writable E compress E_len); [split; [exact K|split; reflexivity]|constructor|apply PI].
Qed.

Lemma agree_solid s xs : Forall2 entry_same [RSolid s] xs -> exists s', xs = [RSolid s'] /\ solid_same s s'.
Proof.
  intro H. inversion H as [|? y ? ys Hy Hr]; subst. inversion Hr; subst.
  destruct y as [n|s']; cbn [entry_same] in Hy; [contradiction|]. exists s'. split; [reflexivity|exact Hy].
Qed.

Theorem create_solid_split_extract : forall c o out order t pw jobs cfg ctx max parts,
  o_guarded o = true -> wf_tree t -> tree_ok t -> walk_order_ok c o t order ->
  Forall ExtractFacts.plain out -> out <> [] ->
  Forall2 carries jobs (create_from_tree c order t) -> Forall (wf_job pw) jobs -> Forall phc_job jobs ->
  wf_ctx verify ctx pw -> phc_ctx cfg ctx ->
  Split.write_split max [map of_c (ser_solid (solid_of cfg ctx jobs))] = Ok parts ->
  Forall (fun f => Split.file_size f <= max /\ len (ser_pfile f) = Split.file_size f) parts /\
  exists raws s es,
    read_parts read_chunk_stream (map ser_pfile parts) = Ok (raws, FinOk) /\
    read_parts read_chunk_slice (map ser_pfile parts) = Ok (raws, FinOk) /\
    parse_all raws = ([RSolid s], FinOk) /\
    (forall rbufs, drains (so_data s) rbufs ->
       decode_solid E D decompress verify s pw rbufs = Ok (map build_job jobs, FinOk)) /\
    (forall rb, (forall n, In n (map build_job jobs) -> drains (n_data n) (rb n)) ->
       read_entries_x pw rb (map build_job jobs) = Ok es) /\
    es = create_from_tree c order t /\
    tree_of c o out order (extract_all o out es (empty_dir out)) = expected c o order t /\
    snd (extract_run o out es (empty_dir out)) = true.
Proof.
  intros c o out order t pw jobs cfg ctx max parts G WF TOK WO OP ON Hc Hw Hp Hctx PH W.
  set (inner := map build_job jobs) in *. set (s0 := build_solid E compress cfg ctx [] (solid_writes inner)) in *.
  assert (WN : Forall writable_normal inner).
  { pose proof (create_names_nonempty c t WF TOK order) as Hn. clear W s0. unfold inner.
    induction Hc as [|j e jobs es [a Ha] _ IH]; [constructor|].
    inversion Hw; subst. inversion Hn; subst. inversion Hp; subst. cbn [map]. constructor; [|apply IH; assumption].
    apply (built_writable pw); try assumption; rewrite Ha; cbn [xspec sp_name sp_extra]; [assumption|constructor]. }
  assert (WR : Forall writable [RSolid s0]).
  { constructor; [|constructor]. cbn [writable]. apply (built_solid_writable cfg ctx pw); assumption. }
  change [map of_c (ser_solid s0)] with (map (fun e => map of_c (ser_entry e)) [RSolid s0]) in W.
  split.
  - apply (split_parts_sizes max _ parts W). cbn [map concat]. rewrite app_nil_r, map_to_of_c.
    pose proof (written_body_chunks [RSolid s0] WR) as B. cbn [map concat] in B. rewrite app_nil_r in B. exact B.
  - destruct (split_then_decode E D decompress verify max _ parts WR W) as (xs' & raws & R1 & R2 & P & AG).
    assert (SMx : Forall2 entry_same [RSolid s0] xs').
    { eapply Forall2_weaken; [|exact AG]. intros x y H. exact (proj1 H). }
    destruct (agree_solid _ _ SMx) as (s' & -> & SS).
    exists raws, s', (create_from_tree c order t).
    split; [exact R1|]. split; [exact R2|]. split; [exact P|]. split; [|split; [|split; [reflexivity|apply create_extract; assumption]]].
    + intros rbufs DR.
      set (k := S (N.to_nat (len (PipelineFacts.plain compress cfg (solid_writes inner)) + len (concat (so_data s0))))).
      assert (D0 : drains (so_data s0) (repeat 1 k)).
      { split; [apply repeat_pos|]. rewrite len_repeat. unfold k. lia. }
      rewrite <- (solid_same_decode E D decompress verify s0 s' pw (repeat 1 k) rbufs SS D0 DR).
      unfold s0. rewrite (solid_builder_roundtrip E D compress decompress verify D_len DE E_len compress_law compress_det cfg ctx pw [] inner (repeat 1 k)).
      * f_equal. f_equal. unfold inner. rewrite map_map. apply map_ext_in. intros j Hj. rewrite Forall_forall in Hw.
        destruct (Hw j Hj) as (_ & Hcx & _). apply (normalize_build E D compress verify D_len DE E_len _ _ pw). exact Hcx.
      * exact Hctx.
      * apply Forall_forall. intros n Hn. apply in_map_iff in Hn. destruct Hn as (j & <- & Hj).
        rewrite Forall_forall in Hw. destruct (Hw j Hj) as (Hs & Hcx & Hwc & _). apply (build_wf_normal E compress verify _ _ pw); assumption.
      * apply Forall_forall. intros n Hn. apply in_map_iff in Hn. destruct Hn as (j & <- & Hj).
        rewrite Forall_forall in Hw. apply (Hw j Hj).
      * apply repeat_pos.
      * unfold covers. rewrite len_repeat. unfold k. lia.
    + intros rb DR. apply (read_all_recut pw rb jobs _ Hc Hw (created_kinds c t order)); [|exact DR].
      fold inner. clear. induction inner; constructor; [unfold normal_same; repeat split|assumption].
Qed.

End CreateSplit.

(* ---- with the AES-256 / Camellia-256 models: the compressor and KDF laws remain ----------------------------- *)
Section CreateSplitReal.
Variable compress : compression -> N -> list bytes -> list bytes.
Variable decompress : compression -> bytes -> res bytes.
Variable verify : bytes -> bytes -> res bytes.
Hypothesis compress_law : forall c lvl ws, decompress c (concat (compress c lvl ws)) = Ok (concat ws).

Theorem create_split_extract_real : forall c o out order t pw jobs max parts,
  o_guarded o = true -> wf_tree t -> tree_ok t -> walk_order_ok c o t order ->
  Forall ExtractFacts.plain out -> out <> [] ->
  Forall2 carries jobs (create_from_tree c order t) -> Forall (wf_job real_E_of compress verify pw) jobs ->
  Forall phc_job jobs ->
  Split.write_split max (map (fun j => map of_c (ser_normal (build_job real_E_of compress j))) jobs) = Ok parts ->
  Forall (fun f => Split.file_size f <= max /\ len (ser_pfile f) = Split.file_size f) parts /\
  exists raws ns es,
    read_parts read_chunk_stream (map ser_pfile parts) = Ok (raws, FinOk) /\
    read_parts read_chunk_slice (map ser_pfile parts) = Ok (raws, FinOk) /\
    parse_all raws = (map RNormal ns, FinOk) /\
    (forall rb, (forall n, In n ns -> drains (n_data n) (rb n)) ->
       read_entries_x real_E_of real_D_of decompress verify pw rb ns = Ok es) /\
    es = create_from_tree c order t /\
    tree_of c o out order (extract_all o out es (empty_dir out)) = expected c o order t /\
    snd (extract_run o out es (empty_dir out)) = true.
Proof. apply (create_split_extract real_E_of real_D_of compress decompress verify real_D_len real_DE real_E_len compress_law). Qed.
End CreateSplitReal.

(* ================================================================================================= *)
(* 6. the premises are satisfiable: the tree of CreateTransportFacts (a directory, a 33-byte file with  *)
(*    an xattr, a link; AES-256-CBC), cut into 7 parts of at most 150 bytes; as one solid entry into 5   *)
(*    parts of at most 300 bytes                                                                        *)
(* ================================================================================================= *)
Lemma tx_kdf : forall p w k, tx_verify p w = Ok k -> phsf_shape p = true.
Proof.
  intros p w k. unfold tx_verify. destruct (bytes_eqb p tx_phsf) eqn:Ep; cbn [andb]; [|discriminate].
  intros _. apply bytes_eqb_eq in Ep. subst p. vm_compute. reflexivity.
Qed.

Definition tx_split_input : list Split.part :=
  map (fun j => map of_c (ser_normal (build_job real_E_of tx_compress j))) tx_jobs.
Definition tx_solid : solid_entry :=
  build_solid real_E_of tx_compress tx_cfg tx_ctx [] (solid_writes (map (build_job real_E_of tx_compress) tx_jobs)).

Example split_premises : exists parts sparts,
  Forall2 carries tx_jobs (create_from_tree tx_c tx_order tx_tree) /\
  Forall (wf_job real_E_of tx_compress tx_verify tx_pw) tx_jobs /\
  Forall phc_job tx_jobs /\
  (forall p w k, tx_verify p w = Ok k -> phsf_shape p = true) /\
  (forall c lvl ws, tx_decompress c (concat (tx_compress c lvl ws)) = Ok (concat ws)) /\
  wf_tree tx_tree /\ tree_ok tx_tree /\ (forall o, walk_order_ok tx_c o tx_tree tx_order) /\
  Split.write_split 150 tx_split_input = Ok parts /\ length parts = 7%nat /\
  wf_ctx tx_verify tx_ctx tx_pw /\ phc_ctx tx_cfg tx_ctx /\
  Split.write_split 300 [map of_c (ser_solid tx_solid)] = Ok sparts /\ length sparts = 5%nat.
Proof.
  destruct transport_premises as (P1 & P2 & _ & P4 & P5 & P6 & P7 & _).
  destruct (Split.write_split 150 tx_split_input) as [parts| |] eqn:W; [|vm_compute in W; discriminate|vm_compute in W; discriminate].
  destruct (Split.write_split 300 [map of_c (ser_solid tx_solid)]) as [sparts| |] eqn:WS; [|vm_compute in WS; discriminate|vm_compute in WS; discriminate].
  exists parts, sparts.
  split; [exact P1|]. split; [exact P2|].
  split; [exact (phc_of_kdf real_E_of tx_compress tx_verify tx_pw tx_jobs tx_kdf P2)|]. split; [exact tx_kdf|].
  split; [exact P4|]. split; [exact P5|]. split; [exact P6|]. split; [exact P7|].
  split; [reflexivity|]. split; [vm_compute in W; injection W as <-; reflexivity|].
  split; [split; [vm_compute; reflexivity|split; vm_compute; reflexivity]|].
  split; [intros _; split; vm_compute; reflexivity|].
  split; [reflexivity|]. vm_compute in WS. injection WS as <-. reflexivity.
Qed.

(* the whole chain evaluated in the kernel on that tree: create, split at 150 bytes, serialise the 7 part files, read the
   chain, parse, decrypt with 5-byte read buffers: the entries of `create` come back *)
Example split_round_trip_ex : exists parts,
  Split.write_split 150 tx_split_input = Ok parts /\
  map (fun f => len (ser_pfile f)) parts = [142; 145; 150; 118; 131; 112; 91] /\
  (do rf <- read_parts read_chunk_stream (map ser_pfile parts);
   do ns <- normals (fst (parse_all (fst rf)));
   read_entries_x real_E_of real_D_of tx_decompress tx_verify tx_pw (fun _ => repeat 5 100%nat) ns)
  = Ok (create_from_tree tx_c tx_order tx_tree).
Proof.
  destruct (Split.write_split 150 tx_split_input) as [parts| |] eqn:W; [|vm_compute in W; discriminate|vm_compute in W; discriminate].
  exists parts. split; [reflexivity|]. vm_compute in W. injection W as <-. split; vm_compute; reflexivity.
Qed.
