(* RecutFacts.v — C03 at entry and archive level: decoding is independent of data-chunk framing for
   EVERY entry, not only for entries the model writer built.

   1. decode_stream_spec / decode_stream_cut_indep: with read buffers that drain the stream, the reader
      pipeline (FlattenReader -> IV -> CBC or CTR reader -> decompressor) is a FUNCTION OF THE
      CONCATENATION of the data chunks (`decode_spec`), errors included (missing PHSF, short IV, a CBC
      stream that is not a whole number of blocks, bad padding, wrong key length).  No cipher law, no
      length law of the block function, no hypothesis on where the bytes come from.
   2. recut: re-cutting every maximal run of FDAT (SDAT) chunks; parse_normal / parse_solid of re-cut
      chunk lists give entries that agree in everything but the cut of the data, and decode alike.
   3. recut_archive_indep: archives written from entrywise re-cut chunk lists read (stream and slice
      reader) to entries that agree and decode alike; instance with the AES-256 / Camellia-256 models.
   4. split_then_decode: the entries read back from the parts `pna split` writes decode as the originals. *)
From PNA Require Import Base Crc32 Name Codec Chunk Archive Entry Flatten Cbc Ctr Pipeline
  BaseFacts ChunkFacts ArchiveFacts PiecesFacts EntryFacts FlattenFacts CbcFacts CtrFacts StreamFacts PipelineFacts.
From PNA Require Import Wf WfFacts WfWriterFacts WfAgreeFacts WfSplitFacts.
From PNA Require Split SplitFacts.
From PNA Require Import Aes Camellia AesFacts CamelliaFacts PipelineRealFacts PipelineRun.
Require Import ZArith ZifyN ZifyNat ZifyBool Lia.
Open Scope N_scope.

(* ================================================================================================= *)
(* 0. outcomes related up to a relation on the values; draining read sequences                         *)
(* ================================================================================================= *)
Definition res_rel {A B} (R : A -> B -> Prop) (r1 : res A) (r2 : res B) : Prop :=
  match r1, r2 with
  | Ok a, Ok b => R a b
  | Err e1, Err e2 => e1 = e2
  | Panic, Panic => True
  | _, _ => False
  end.

Lemma res_rel_eq {A} (r1 r2 : res A) : res_rel eq r1 r2 <-> r1 = r2.
Proof.
  destruct r1, r2; cbn; split; intro H; try congruence; try contradiction; try discriminate; auto.
Qed.

Lemma res_rel_bind {A B A' B'} (R : A -> B -> Prop) (S : A' -> B' -> Prop) r1 r2 f g :
  res_rel R r1 r2 -> (forall a b, R a b -> res_rel S (f a) (g b)) -> res_rel S (bind r1 f) (bind r2 g).
Proof. destruct r1, r2; cbn; intros H K; try contradiction; auto. Qed.

(* the caller reads with positive buffer sizes and issues more reads than the data has bytes (as
   PipelineFacts.covers: the reads go on until the end has been seen; PipelineRun.reads_for is such a
   sequence) *)
Definition drains (data : list bytes) (rbufs : list N) : Prop :=
  Forall (fun n => 0 < n) rbufs /\ len (concat data) < len rbufs.

Lemma drains_concat d1 d2 rb : concat d1 = concat d2 -> drains d1 rb -> drains d2 rb.
Proof. unfold drains. intros <-. auto. Qed.

(* ================================================================================================= *)
(* 1a. the CBC reader over ANY source: what it still owes its caller                                   *)
(* ================================================================================================= *)
Lemma chunks_cons16 (c : bytes) : c <> [] -> chunks 16 c = firstn 16 c :: chunks 16 (skipn 16 c).
Proof. intro H. apply chunks_step; [lia|exact H]. Qed.

Lemma chunks16_count (c : bytes) : 16 * len (chunks 16 c) <= len c + 15.
Proof.
  remember (length c) as n eqn:Hn. revert c Hn. induction n as [n IH] using lt_wf_ind. intros c Hn.
  destruct c as [|b c]; [cbn; lia|].
  rewrite chunks_cons16 by discriminate. rewrite len_cons.
  specialize (IH (length (skipn 16 (b :: c)))).
  assert (L : (length (skipn 16 (b :: c)) = length (b :: c) - 16)%nat) by apply skipn_length.
  destruct (Nat.le_gt_cases (length (b :: c)) 16) as [Hs|Hs].
  - rewrite skipn_all2 by exact Hs. cbn [chunks chunks_fuel length]. unfold len. cbn [length]. lia.
  - specialize (IH ltac:(lia) _ eq_refl). unfold len in *. lia.
Qed.

Section CBCAny.
Variable D : bytes -> bytes -> bytes.

(* decode the look-ahead block `look` and the remaining 16-byte pieces of the source: a short piece
   is UnexpectedEof (found when it is fetched as look-ahead, before the block in front of it is
   delivered), the last block is unpadded *)
Fixpoint owed_blocks (k prev look : bytes) (rest : list bytes) : res bytes :=
  let p := xor_bytes (D k look) prev in
  match rest with
  | [] => pkcs7_unpad_block p
  | nx :: r => if N.eqb (len nx) 16 then do t <- owed_blocks k look nx r; Ok (p ++ t) else Err UnexpectedEof
  end.
Definition owed (st : cbcr) : res bytes :=
  if r_eof st then Ok (r_rem st)
  else do t <- owed_blocks (r_key st) (r_prev st) (r_look st) (chunks 16 (concat (r_src st))); Ok (r_rem st ++ t).

Definition cinv (st : cbcr) : Prop := r_eof st = false -> len (r_prev st) <= 16 /\ len (r_look st) <= 16.
(* a bound on the number of positive reads until the end is reached *)
Definition pot (st : cbcr) : N :=
  len (r_rem st) + (if r_eof st then 0 else 16 * (1 + len (chunks 16 (concat (r_src st)))) + 1).

Lemma xor_bytes_len_le a b : len (xor_bytes a b) <= len b.
Proof. unfold len. rewrite xor_bytes_length. lia. Qed.

Lemma ftake_nil_iff {A} n (l : list A) : ftake n l = [] -> n = 0 \/ l = [].
Proof.
  intro H. assert (L : len (ftake n l) = 0) by (rewrite H; reflexivity). rewrite len_ftake in L.
  destruct l; [auto|]. rewrite len_cons in L. lia.
Qed.

Lemma cbcr_loop_owed : forall fuel st want, r_eof st = false -> r_rem st = [] -> cinv st ->
  owed st = (do (st', out) <- cbcr_loop D fuel st want; do t <- owed st'; Ok (out ++ t)) /\
  (forall st' out, cbcr_loop D fuel st want = Ok (st', out) ->
     cinv st' /\ pot st' + len out <= pot st /\ ((0 < fuel)%nat -> 0 < want -> out = [] -> pot st' < pot st)).
Proof.
  induction fuel as [|f IH]; intros st want He Hrem Hinv.
  - cbn [cbcr_loop bind]. split.
    + destruct (owed st); reflexivity.
    + intros st' out [= <- <-]. split; [exact Hinv|]. split; [unfold len; cbn [length]; lia|lia].
  - destruct (Hinv He) as (Lp & Ll). cbn [cbcr_loop].
    set (p := xor_bytes (D (r_key st) (r_look st)) (r_prev st)).
    assert (Hp : len p <= 16).
    { pose proof (xor_bytes_len_le (D (r_key st) (r_look st)) (r_prev st)) as Hx. unfold p. lia. }
    destruct (read_block (r_src st)) as [src' nx] eqn:Erb.
    destruct (read_block_spec _ _ _ Erb) as [Hnx Hsrc'].
    assert (Hown : owed st = do t <- owed_blocks (r_key st) (r_prev st) (r_look st) (chunks 16 (concat (r_src st))); Ok t).
    { unfold owed. rewrite He, Hrem. destruct (owed_blocks _ _ _ _); reflexivity. }
    assert (Hpot : pot st = 16 * (1 + len (chunks 16 (concat (r_src st)))) + 1).
    { unfold pot. rewrite He, Hrem. reflexivity. }
    destruct (concat (r_src st)) as [|c0 ct0] eqn:Ect.
    + (* the source is exhausted: `look` is the last block *)
      cbn [firstn] in Hnx. subst nx. change (len (@nil byte)) with 0. change (0 =? 0) with true. cbn [negb andb orb].
      cbn [chunks chunks_fuel length owed_blocks] in Hown. fold p in Hown.
      change (len (chunks 16 (@nil byte))) with 0 in Hpot.
      destruct (pkcs7_unpad_block p) as [blk| |] eqn:Eu; cbn [bind] in *.
      * pose proof (unpad_len _ _ Eu) as Hb. split.
        -- rewrite Hown. unfold owed. cbn [r_eof r_rem]. rewrite Hrem. cbn [app bind]. rewrite ftake_fdrop. reflexivity.
        -- intros st' out [= <- <-]. split; [unfold cinv; cbn [r_eof]; discriminate|].
           rewrite Hpot. unfold pot. cbn [r_eof r_rem]. rewrite Hrem. cbn [app]. rewrite len_fdrop, len_ftake. split; lia.
      * split; [exact Hown|discriminate].
      * split; [exact Hown|discriminate].
    + (* a further piece follows *)
      rewrite <- Ect in *.
      assert (Hne : concat (r_src st) <> []) by (rewrite Ect; discriminate). clear Ect c0 ct0.
      rewrite (chunks_cons16 _ Hne), <- Hnx, <- Hsrc' in Hown, Hpot. cbn [owed_blocks] in Hown. fold p in Hown.
      assert (Hnz : (len nx =? 0) = false).
      { apply N.eqb_neq. subst nx. destruct (concat (r_src st)); [congruence|]. cbn [firstn]. rewrite len_cons. lia. }
      rewrite Hnz. cbn [negb andb orb]. rewrite len_cons in Hpot.
      destruct (len nx =? 16) eqn:E16; cbn [negb bind].
      2:{ split; [exact Hown|discriminate]. }
      apply N.eqb_eq in E16.
      set (w := N.min (N.min 16 want) (len p)).
      destruct (N.leb_spec want w) as [Hle|Hgt]; cbn [orb bind].
      * (* the caller's buffer ends inside this block *)
        split.
        -- rewrite Hown. unfold owed. cbn [r_eof r_key r_prev r_look r_src r_rem]. rewrite Hrem. cbn [app].
           destruct (owed_blocks (r_key st) (r_look st) nx (chunks 16 (concat src'))); cbn [bind]; try reflexivity.
           rewrite app_assoc, ftake_fdrop. reflexivity.
        -- intros st' out [= <- <-]. split; [unfold cinv; cbn [r_eof r_prev r_look]; intros _; lia|].
           rewrite Hpot. unfold pot. cbn [r_eof r_rem r_src]. rewrite Hrem. cbn [app]. rewrite len_fdrop, len_ftake.
           unfold w in *. split; lia.
      * (* go round *)
        assert (Hw : ftake w p = p) by (apply ftake_all; unfold w; lia).
        set (st1 := {| r_key := r_key st; r_src := src'; r_prev := r_look st; r_look := nx; r_rem := r_rem st; r_eof := false |}).
        destruct (IH st1 (want - w)) as (IHo & IHp);
          [reflexivity | exact Hrem | unfold cinv; cbn [r_eof r_prev r_look st1]; intros _; lia |].
        assert (Hown1 : owed st1 = do t <- owed_blocks (r_key st) (r_look st) nx (chunks 16 (concat src')); Ok t).
        { unfold owed. cbn [r_eof r_key r_prev r_look r_src r_rem st1]. rewrite Hrem.
          destruct (owed_blocks _ _ _ _); reflexivity. }
        assert (Hpot1 : pot st1 = 16 * (1 + len (chunks 16 (concat src'))) + 1).
        { unfold pot. cbn [r_eof r_rem r_src st1]. rewrite Hrem. reflexivity. }
        split.
        -- rewrite Hown, Hw. rewrite Hown1 in IHo.
           destruct (owed_blocks (r_key st) (r_look st) nx (chunks 16 (concat src'))) as [t| |]; cbn [bind] in *;
             (destruct (cbcr_loop D f st1 (want - w)) as [[st2 more]| |]; cbn [bind] in *; [|congruence|congruence]);
             (destruct (owed st2); cbn [bind] in *; [|congruence|congruence]); try discriminate.
           injection IHo as ->. rewrite app_assoc. reflexivity.
        -- intros st' out Hr.
           destruct (cbcr_loop D f st1 (want - w)) as [[st2 more]| |] eqn:El; cbn [bind] in Hr; try discriminate.
           injection Hr as <- <-. destruct (IHp st2 more eq_refl) as (I2 & P2 & _).
           split; [exact I2|]. rewrite Hw, len_app, Hpot. rewrite Hpot1 in P2. split; [lia|].
           intros _ _ Ho. apply app_eq_nil in Ho. destruct Ho as [Hpn _]. lia.
Qed.

(* one read: what the reader owed = what it delivered ++ what it owes afterwards (errors included),
   and a read into a non-empty buffer makes progress unless everything has been delivered *)
Lemma cbcr_read_owed st n : cinv st ->
  owed st = (do (st', out) <- cbcr_read D st n; do t <- owed st'; Ok (out ++ t)) /\
  (forall st' out, cbcr_read D st n = Ok (st', out) ->
     cinv st' /\ pot st' <= pot st /\ (0 < n -> 0 < pot st -> pot st' < pot st)).
Proof.
  intros Hinv. unfold cbcr_read. destruct (N.eqb_spec n 0) as [->|Hn].
  - cbn [bind app]. split; [destruct (owed st); reflexivity|]. intros st' out [= <- <-]. split; [exact Hinv|]. split; lia.
  - set (l := N.min (len (r_rem st)) n).
    set (st0 := {| r_key := r_key st; r_src := r_src st; r_prev := r_prev st; r_look := r_look st;
                   r_rem := fdrop l (r_rem st); r_eof := r_eof st |}).
    assert (Hsplit : owed st = do t <- owed st0; Ok (ftake l (r_rem st) ++ t)).
    { unfold owed. cbn [r_eof r_key r_prev r_look r_src r_rem st0]. destruct (r_eof st); cbn [bind].
      - rewrite ftake_fdrop. reflexivity.
      - destruct (owed_blocks _ _ _ _); cbn [bind]; try reflexivity. rewrite app_assoc, ftake_fdrop. reflexivity. }
    assert (Hpot0 : pot st = len (ftake l (r_rem st)) + pot st0).
    { unfold pot. cbn [r_eof r_rem r_src st0]. rewrite len_fdrop, len_ftake. unfold l. lia. }
    assert (Hinv0 : cinv st0) by exact Hinv.
    destruct (N.leb_spec n l) as [Hle|Hgt].
    + cbn [bind]. split; [exact Hsplit|]. intros st' out [= <- <-]. split; [exact Hinv0|].
      rewrite Hpot0, len_ftake. unfold l in *. split; lia.
    + destruct (r_eof st) eqn:He.
      * cbn [bind]. split; [exact Hsplit|]. intros st' out [= <- <-]. split; [exact Hinv0|].
        rewrite Hpot0. split; [lia|]. intros _ Hp.
        unfold pot in *. cbn [r_eof r_rem st0] in *. rewrite He in *. rewrite len_fdrop, len_ftake in *. unfold l in *. lia.
      * assert (Hl : l = len (r_rem st)) by (unfold l; lia).
        assert (Hrem0 : r_rem st0 = []) by (cbn [r_rem st0]; apply fdrop_all; lia).
        destruct (cbcr_loop_owed (N.to_nat ((n - l + 15) / 16)) st0 (n - l)) as (Lo & Lp); [first [exact He|reflexivity]|exact Hrem0|exact Hinv0|].
        assert (Hfuel : (0 < N.to_nat ((n - l + 15) / 16))%nat).
        { assert (1 <= (n - l + 15) / 16); [|lia]. replace (n - l + 15) with ((n - l - 1) + 1 * 16) by lia.
          rewrite N.div_add by lia. lia. }
        split.
        -- rewrite Hsplit, Lo.
           destruct (cbcr_loop D _ st0 (n - l)) as [[st1 more]| |]; cbn [bind]; try reflexivity.
           destruct (owed st1); cbn [bind]; try reflexivity. rewrite app_assoc. reflexivity.
        -- intros st' out Hr.
           destruct (cbcr_loop D _ st0 (n - l)) as [[st1 more]| |] eqn:El; cbn [bind] in Hr; try discriminate.
           injection Hr as <- <-. destruct (Lp st1 more eq_refl) as (I1 & P1 & S1). split; [exact I1|].
           rewrite Hpot0. split; [lia|]. intros _ _.
           destruct more as [|b more]; [specialize (S1 Hfuel ltac:(lia) eq_refl); lia|]. rewrite len_cons in P1. lia.
Qed.

(* a draining sequence of reads delivers exactly what the reader owed, or fails with the error owed *)
Lemma cbcr_reads_owed : forall ns st, cinv st -> Forall (fun n => 0 < n) ns -> pot st <= len ns ->
  (do outs <- cbcr_reads D st ns; Ok (concat outs)) = owed st.
Proof.
  induction ns as [|n r IH]; intros st Hinv Hpos Hpot.
  - cbn [cbcr_reads bind concat]. change (len (@nil N)) with 0 in Hpot. unfold pot, owed in *.
    destruct (r_eof st); [|lia]. f_equal. destruct (r_rem st); [reflexivity|]. rewrite len_cons in Hpot. lia.
  - inversion Hpos as [|? ? Hn Hr]; subst. cbn [cbcr_reads].
    destruct (cbcr_read_owed st n Hinv) as (Ho & Hp). rewrite Ho.
    destruct (cbcr_read D st n) as [[st' out]| |]; cbn [bind]; try reflexivity.
    destruct (Hp st' out eq_refl) as (I' & P' & S'). rewrite len_cons in Hpot.
    rewrite <- (IH st' I' Hr) by (destruct (N.eq_dec (pot st) 0); [lia|specialize (S' Hn ltac:(lia)); lia]).
    destruct (cbcr_reads D st' r); reflexivity.
Qed.

(* what a CBC reader constructed over the bytes `c` (the data after the IV) delivers *)
Definition cbc_spec (key iv c : bytes) : res bytes :=
  let blk := firstn 16 c in
  if negb (N.eqb (len blk) 16) then Err UnexpectedEof
  else if negb (key_iv_ok key iv) then Err InvalidData
  else owed_blocks key iv blk (chunks 16 (skipn 16 c)).

Theorem cbc_reader_spec key iv src ns : Forall (fun n => 0 < n) ns -> len (concat src) + 16 <= len ns ->
  (do st <- cbcr_new key iv src; do outs <- cbcr_reads D st ns; Ok (concat outs)) = cbc_spec key iv (concat src).
Proof.
  intros Hpos Hlen. unfold cbcr_new, cbc_spec. destruct (read_block src) as [s1 blk] eqn:Erb.
  destruct (read_block_spec _ _ _ Erb) as [Hblk Hs1]. rewrite <- Hblk, <- Hs1.
  destruct (N.eqb_spec (len blk) 16) as [E16|E16]; cbn [negb]; [|reflexivity].
  destruct (key_iv_ok key iv) eqn:Hok; cbn [negb]; [|reflexivity]. cbn [bind].
  rewrite cbcr_reads_owed.
  - unfold owed. cbn [r_eof r_key r_prev r_look r_src r_rem app]. destruct (owed_blocks _ _ _ _); reflexivity.
  - unfold cinv. cbn [r_eof r_prev r_look]. intros _. unfold key_iv_ok in Hok. apply andb_prop in Hok.
    destruct Hok as [_ Hiv]. apply N.eqb_eq in Hiv. lia.
  - exact Hpos.
  - unfold pot. cbn [r_eof r_rem r_src]. change (len (@nil byte)) with 0.
    pose proof (chunks16_count (concat s1)) as Hc. rewrite Hs1 in *.
    assert (len (skipn 16 (concat src)) = len (concat src) - 16) by (unfold len; rewrite skipn_length; lia).
    assert (16 <= len (concat src)).
    { rewrite Hblk in E16. unfold len in *. rewrite firstn_length in E16. lia. }
    lia.
Qed.
End CBCAny.

(* on a whole number of blocks with a block function that keeps the block length this is the `stream`
   of CbcFacts (the plaintext the round-trip theorems speak about) *)
Lemma owed_blocks_dec_all D k : forall rest prev look, Forall len16 rest ->
  owed_blocks D k prev look rest = dec_all D k prev look rest.
Proof.
  induction rest as [|nx r IH]; intros prev look H; cbn [owed_blocks dec_all]; [reflexivity|].
  inversion H as [|? ? Hn Hr]; subst. unfold len16 in Hn. unfold len. rewrite Hn. cbn [N.of_nat N.eqb Pos.eqb Pos.of_succ_nat Pos.succ].
  rewrite IH by exact Hr. reflexivity.
Qed.

(* ================================================================================================= *)
(* 1b. the whole reader pipeline as a function of the concatenated data                                 *)
(* ================================================================================================= *)
Section Decode.
Variables E D : encryption -> bytes -> bytes -> bytes.
Variable decompress : compression -> bytes -> res bytes.
Variable verify : bytes -> bytes -> res bytes.

Notation decode_stream := (decode_stream E D decompress verify).
Notation decode_normal := (decode_normal E D decompress verify).
Notation decode_solid := (decode_solid E D decompress verify).

(* decrypt_reader over the bytes s of the data chunks: the first 16 bytes are the IV *)
Definition decrypt_spec (a : encryption) (mode : cipher_mode) (phsf : option bytes) (pw : bytes) (s : bytes) : res bytes :=
  match phsf with
  | None => Err InvalidData
  | Some p =>
    do key <- verify p pw;
    let iv := firstn 16 s in
    if negb (N.eqb (len iv) 16) then Err UnexpectedEof else
    match mode with
    | MCbc => cbc_spec (D a) key iv (skipn 16 s)
    | MCtr => if key_iv_ok key iv then Ok (ctr_xor (E a) key (of_be iv) 0 (skipn 16 s)) else Err InvalidData
    end
  end.
Definition decode_spec (comp : compression) (enc : encryption) (mode : cipher_mode)
           (phsf : option bytes) (pw : bytes) (s : bytes) : res bytes :=
  do got <- match enc with ENo => Ok s | a => decrypt_spec a mode phsf pw s end;
  match comp with CNo => Ok got | c => decompress c got end.

Lemma decrypt_any a mode phsf pw data rbufs : drains data rbufs ->
  match phsf with
  | None => Err InvalidData
  | Some s =>
    do key <- verify s pw;
    let (src, iv) := read_block data in
    if negb (N.eqb (len iv) 16) then Err UnexpectedEof else
    match mode with
    | MCbc => do st <- cbcr_new key iv src; do outs <- cbcr_reads (D a) st rbufs; Ok (concat outs)
    | MCtr => do st <- ctrr_new key iv src; Ok (concat (ctrr_reads (E a) st rbufs))
    end
  end = decrypt_spec a mode phsf pw (concat data).
Proof.
  intros (Hpos & Hlen). unfold decrypt_spec. destruct phsf as [p|]; [|reflexivity].
  destruct (verify p pw) as [key| |]; cbn [bind]; try reflexivity.
  destruct (read_block data) as [src iv] eqn:Erb. destruct (read_block_spec _ _ _ Erb) as [Hiv Hsrc].
  rewrite <- Hiv, <- Hsrc. destruct (N.eqb_spec (len iv) 16) as [E16|E16]; cbn [negb]; [|reflexivity].
  assert (Hl : len (concat src) + 16 <= len (concat data)).
  { rewrite Hsrc. rewrite Hiv in E16. unfold len in *. rewrite firstn_length in E16. rewrite skipn_length. lia. }
  destruct mode.
  - apply cbc_reader_spec; [exact Hpos|lia].
  - unfold ctrr_new. destruct (key_iv_ok key iv); cbn [bind]; [|reflexivity]. f_equal.
    rewrite ctrr_reads_eq.
    destruct (ctrr_seq_spec (E a) rbufs {| cr_key := key; cr_iv := of_be iv; cr_pos := 0; cr_src := src |}) as [A _].
    cbn [cr_key cr_iv cr_pos cr_src] in A. rewrite A. f_equal.
    apply flat_reads_complete; [exact Hpos|]. apply flat_reads_reach_end; [exact Hpos|lia].
Qed.

(* 1. the reader pipeline over ANY data chunks, read with ANY draining buffer sequence, is decode_spec
   of their concatenation: the same value or the same error *)
Theorem decode_stream_spec comp enc mode phsf pw data rbufs : drains data rbufs ->
  decode_stream comp enc mode phsf pw data rbufs = decode_spec comp enc mode phsf pw (concat data).
Proof.
  intros Hd. unfold Pipeline.decode_stream, decode_spec. f_equal.
  destruct enc.
  - f_equal. destruct Hd as (Hpos & Hlen). apply flat_reads_complete; [exact Hpos|].
    apply flat_reads_reach_end; assumption.
  - exact (decrypt_any EAes mode phsf pw data rbufs Hd).
  - exact (decrypt_any ECamellia mode phsf pw data rbufs Hd).
Qed.

Theorem decode_stream_cut_indep comp enc mode phsf pw data1 data2 rbufs1 rbufs2 :
  concat data1 = concat data2 -> drains data1 rbufs1 -> drains data2 rbufs2 ->
  decode_stream comp enc mode phsf pw data1 rbufs1 = decode_stream comp enc mode phsf pw data2 rbufs2.
Proof. intros Hc H1 H2. rewrite !decode_stream_spec by assumption. rewrite Hc. reflexivity. Qed.

End Decode.

(* ================================================================================================= *)
(* 2. re-cutting the data chunks of an entry                                                           *)
(* ================================================================================================= *)
(* prepend the payload d to a chunk list in which the runs of t-chunks are already fused *)
Definition pre (t d : bytes) (l : list chunk) : list chunk :=
  match d with
  | [] => l
  | _ => match l with
         | c' :: r' => if ty_is c' t then mk t (d ++ cdata c') :: r' else mk t d :: l
         | [] => [mk t d]
         end
  end.
(* every maximal run of chunks of type t fused into one chunk (none when the run carries no byte) *)
Fixpoint fuse (t : bytes) (cs : list chunk) : list chunk :=
  match cs with
  | [] => []
  | c :: r => if ty_is c t then pre t (cdata c) (fuse t r) else c :: fuse t r
  end.
(* y is a re-cut of x: the same chunks, except that each maximal run of chunks of type t is replaced by
   a run of chunks of type t with the same concatenated payload — any number of chunks, empty ones
   included, cut anywhere *)
Definition recut (t : bytes) (x y : list chunk) : Prop := fuse t x = fuse t y.

Lemma ty_is_mk t d : ty_is (mk t d) t = true.
Proof. unfold ty_is. cbn [cty mk]. apply bytes_eqb_eq. reflexivity. Qed.
Lemma ty_is_true c t : ty_is c t = true -> c = mk t (cdata c).
Proof. unfold ty_is. intro H. apply bytes_eqb_eq in H. destruct c as [ty d]. cbn in *. subst. reflexivity. Qed.

Lemma fuse_mk t d r : fuse t (mk t d :: r) = pre t d (fuse t r).
Proof. cbn [fuse]. rewrite ty_is_mk. reflexivity. Qed.
Lemma fuse_other t c r : ty_is c t = false -> fuse t (c :: r) = c :: fuse t r.
Proof. intro H. cbn [fuse]. rewrite H. reflexivity. Qed.

Lemma pre_pre t a b l : pre t a (pre t b l) = pre t (a ++ b) l.
Proof.
  destruct b as [|b0 b]; [rewrite app_nil_r; reflexivity|].
  destruct a as [|a0 a]; [reflexivity|].
  cbn [pre app]. destruct l as [|c' r'].
  - rewrite ty_is_mk. reflexivity.
  - destruct (ty_is c' t) eqn:Ec; rewrite ty_is_mk; cbn [cdata mk]; [rewrite <- app_assoc|]; reflexivity.
Qed.

Lemma fuse_run t ds x : fuse t (map (mk t) ds ++ x) = pre t (concat ds) (fuse t x).
Proof.
  induction ds as [|d ds IH]; [reflexivity|]. cbn [map app concat]. rewrite fuse_mk, IH, pre_pre. reflexivity.
Qed.

Lemma recut_refl t x : recut t x x.
Proof. reflexivity. Qed.
Lemma recut_sym t x y : recut t x y -> recut t y x.
Proof. unfold recut. congruence. Qed.
Lemma recut_trans t x y z : recut t x y -> recut t y z -> recut t x z.
Proof. unfold recut. congruence. Qed.
(* the rules that generate the relation *)
Lemma recut_nil t : recut t [] [].
Proof. reflexivity. Qed.
Lemma recut_keep t c x y : recut t x y -> recut t (c :: x) (c :: y).
Proof. unfold recut. intro H. cbn [fuse]. rewrite H. reflexivity. Qed.
Lemma recut_run t ds1 ds2 x y : concat ds1 = concat ds2 -> recut t x y ->
  recut t (map (mk t) ds1 ++ x) (map (mk t) ds2 ++ y).
Proof. unfold recut. intros Hc H. rewrite !fuse_run, Hc, H. reflexivity. Qed.
(* special cases: cutting one chunk in two, dropping or inserting an empty chunk *)
Lemma recut_cut t a b x y : recut t (mk t b :: x) y -> recut t (mk t (a ++ b) :: x) (mk t a :: y).
Proof. unfold recut. intro H. rewrite !fuse_mk, <- H, fuse_mk, pre_pre. reflexivity. Qed.
Lemma recut_empty t x y : recut t x y -> recut t (mk t [] :: x) y.
Proof. unfold recut. intro H. rewrite fuse_mk. exact H. Qed.
Lemma recut_app t a a' b b' : recut t b b' -> a = a' -> recut t (a ++ b) (a' ++ b').
Proof. intros H <-. induction a as [|c a IH]; [exact H|]. cbn [app]. apply recut_keep. exact IH. Qed.

(* fuse is a canonical form: every chunk list is a re-cut of its fused form, which is a fixed point *)
Lemma fuse_cons_t t c r : ty_is c t = true -> fuse t (c :: r) = pre t (cdata c) (fuse t r).
Proof. intro H. cbn [fuse]. rewrite H. reflexivity. Qed.
Lemma fuse_pre t d l : fuse t (pre t d l) = pre t d (fuse t l).
Proof.
  destruct d as [|d0 d]; [reflexivity|]. destruct l as [|c' r'].
  - change (pre t (d0 :: d) []) with [mk t (d0 :: d)]. apply fuse_mk.
  - destruct (ty_is c' t) eqn:Ec.
    + replace (pre t (d0 :: d) (c' :: r')) with (mk t ((d0 :: d) ++ cdata c') :: r') by (cbn [pre]; rewrite Ec; reflexivity).
      rewrite fuse_mk, (fuse_cons_t t c' r' Ec), pre_pre. reflexivity.
    + replace (pre t (d0 :: d) (c' :: r')) with (mk t (d0 :: d) :: c' :: r') by (cbn [pre]; rewrite Ec; reflexivity).
      rewrite fuse_mk. reflexivity.
Qed.
Lemma fuse_idem t x : fuse t (fuse t x) = fuse t x.
Proof.
  induction x as [|c r IH]; [reflexivity|]. cbn [fuse]. destruct (ty_is c t) eqn:Ec.
  - rewrite fuse_pre, IH. reflexivity.
  - rewrite (fuse_other t c _ Ec), IH. reflexivity.
Qed.
Lemma recut_fuse t x : recut t x (fuse t x).
Proof. unfold recut. symmetry. apply fuse_idem. Qed.

(* ---- a chunk loop with an accumulator does not see where the runs of t-chunks are cut --------------- *)
Lemma res_rel_refl {A} (R : A -> A -> Prop) : (forall a, R a a) -> forall r, res_rel R r r.
Proof. intros H [a|e|]; cbn; auto. Qed.
Lemma res_rel_sym {A} (R : A -> A -> Prop) : (forall a b, R a b -> R b a) -> forall r1 r2, res_rel R r1 r2 -> res_rel R r2 r1.
Proof. intros H [a|e|] [b|e'|]; cbn; auto. Qed.
Lemma res_rel_trans {A} (R : A -> A -> Prop) : (forall a b c, R a b -> R b c -> R a c) ->
  forall r1 r2 r3, res_rel R r1 r2 -> res_rel R r2 r3 -> res_rel R r1 r3.
Proof. intros H [a|e|] [b|e'|] [c|e''|]; cbn; eauto; try contradiction; congruence. Qed.

Section ChunkLoop.
Variable S : Type.
Variable stop : chunk -> bool.
Variable step : chunk -> S -> res S.
Variable R : S -> S -> Prop.
Variable t : bytes.
Variable upd : bytes -> S -> S.
Fixpoint gloop (cs : list chunk) (s : S) : res S :=
  match cs with
  | [] => Ok s
  | c :: r => if stop c then Ok s else do s1 <- step c s; gloop r s1
  end.
Hypothesis R_refl : forall s, R s s.
Hypothesis R_sym : forall s s', R s s' -> R s' s.
Hypothesis R_trans : forall a b c, R a b -> R b c -> R a c.
Hypothesis step_rel : forall c s s', R s s' -> res_rel R (step c s) (step c s').
Hypothesis step_t : forall c s, ty_is c t = true -> stop c = false /\ step c s = Ok (upd (cdata c) s).
Hypothesis upd_app : forall a b s, R (upd (a ++ b) s) (upd b (upd a s)).
Hypothesis upd_nil : forall s, R (upd [] s) s.

Lemma gloop_rel : forall cs s s', R s s' -> res_rel R (gloop cs s) (gloop cs s').
Proof.
  induction cs as [|c r IH]; intros s s' H; cbn [gloop]; [exact H|].
  destruct (stop c); [exact H|]. apply (res_rel_bind R R); [apply step_rel; exact H|]. intros a b Hab. apply IH. exact Hab.
Qed.
Lemma gloop_mk d r s : gloop (mk t d :: r) s = gloop r (upd d s).
Proof. cbn [gloop]. destruct (step_t (mk t d) s (ty_is_mk t d)) as [-> ->]. reflexivity. Qed.
Lemma gloop_pre d l s : res_rel R (gloop (pre t d l) s) (gloop l (upd d s)).
Proof.
  destruct d as [|d0 d]; [apply gloop_rel, R_sym, upd_nil|]. cbn [pre]. destruct l as [|c' r'].
  - rewrite gloop_mk. apply (res_rel_refl R R_refl).
  - destruct (ty_is c' t) eqn:Ec.
    + rewrite (ty_is_true _ _ Ec) at 2. rewrite !gloop_mk. apply gloop_rel, upd_app.
    + rewrite gloop_mk. apply (res_rel_refl R R_refl).
Qed.
Lemma gloop_fuse : forall x s s', R s s' -> res_rel R (gloop x s) (gloop (fuse t x) s').
Proof.
  induction x as [|c r IH]; intros s s' H; [exact H|]. cbn [fuse]. destruct (ty_is c t) eqn:Ec.
  - rewrite (ty_is_true _ _ Ec) at 1. rewrite gloop_mk.
    apply (res_rel_trans R R_trans _ (gloop (fuse t r) (upd (cdata c) s'))).
    + apply IH. pose proof (step_rel c s s' H) as Hs. destruct (step_t c s Ec) as [_ E1]. destruct (step_t c s' Ec) as [_ E2]. rewrite E1, E2 in Hs. exact Hs.
    + apply (res_rel_sym R R_sym). apply gloop_pre.
  - cbn [gloop]. destruct (stop c); [exact H|]. apply (res_rel_bind R R); [apply step_rel; exact H|]. intros a b Hab. apply IH. exact Hab.
Qed.
Theorem gloop_recut x y s s' : recut t x y -> R s s' -> res_rel R (gloop x s) (gloop y s').
Proof.
  intros Hr H. apply (res_rel_trans R R_trans _ (gloop (fuse t x) s)).
  - apply gloop_fuse, R_refl.
  - rewrite Hr. apply (res_rel_sym R R_sym). apply gloop_fuse, R_sym, H.
Qed.
End ChunkLoop.

(* ---- normal entries ----------------------------------------------------------------------------------- *)
Definition pstop (c : chunk) : bool := ty_is c FEND.
Definition pstep (c : chunk) (a : nacc) : res nacc :=
  let d := cdata c in
  if ty_is c FHED then do h <- fhed_of_bytes d; Ok (upd_info h a)
  else if ty_is c PHSF then do s <- utf8_string d; Ok (upd_phsf s a)
  else if ty_is c FDAT then Ok (upd_data [d] a)
  else if ty_is c fSIZ then Ok (upd_size (fsiz_of_bytes d) a)
  else if ty_is c cTIM then do t <- time_of_bytes d; Ok (upd_c t a)
  else if ty_is c mTIM then do t <- time_of_bytes d; Ok (upd_m t a)
  else if ty_is c aTIM then do t <- time_of_bytes d; Ok (upd_a t a)
  else if ty_is c fPRM then do p <- perm_of_bytes d; Ok (upd_perm p a)
  else if ty_is c xATR then do x <- xattr_of_bytes d; Ok (upd_x [x] a)
  else Ok (upd_extra [c] a).

Lemma parse_normal_loop_gloop : forall cs a, parse_normal_loop cs a = gloop nacc pstop pstep cs a.
Proof.
  induction cs as [|c r IH]; intros a; [reflexivity|]. cbn [parse_normal_loop gloop]. unfold pstop, pstep.
  destruct (ty_is c FEND); [reflexivity|].
  destruct (ty_is c FHED); [destruct (fhed_of_bytes (cdata c)); cbn [bind]; [apply IH|reflexivity|reflexivity]|].
  destruct (ty_is c PHSF); [destruct (utf8_string (cdata c)); cbn [bind]; [apply IH|reflexivity|reflexivity]|].
  destruct (ty_is c FDAT); [cbn [bind]; apply IH|].
  destruct (ty_is c fSIZ); [cbn [bind]; apply IH|].
  destruct (ty_is c cTIM); [destruct (time_of_bytes (cdata c)); cbn [bind]; [apply IH|reflexivity|reflexivity]|].
  destruct (ty_is c mTIM); [destruct (time_of_bytes (cdata c)); cbn [bind]; [apply IH|reflexivity|reflexivity]|].
  destruct (ty_is c aTIM); [destruct (time_of_bytes (cdata c)); cbn [bind]; [apply IH|reflexivity|reflexivity]|].
  destruct (ty_is c fPRM); [destruct (perm_of_bytes (cdata c)); cbn [bind]; [apply IH|reflexivity|reflexivity]|].
  destruct (ty_is c xATR); [destruct (xattr_of_bytes (cdata c)); cbn [bind]; [apply IH|reflexivity|reflexivity]|].
  cbn [bind]. apply IH.
Qed.

(* accumulators that agree in everything but where the data is cut *)
Definition nrel (a a' : nacc) : Prop :=
  k_info a = k_info a' /\ k_phsf a = k_phsf a' /\ k_extra a = k_extra a' /\ concat (k_data a) = concat (k_data a') /\
  k_csize a = k_csize a' /\ k_size a = k_size a' /\ k_c a = k_c a' /\ k_m a = k_m a' /\ k_a a = k_a a' /\
  k_perm a = k_perm a' /\ k_x a = k_x a'.
Lemma nrel_refl a : nrel a a.
Proof. unfold nrel. repeat split; reflexivity. Qed.
Lemma nrel_sym a b : nrel a b -> nrel b a.
Proof. unfold nrel. intros (H1 & H2 & H3 & H4 & H5 & H6 & H7 & H8 & H9 & H10 & H11). repeat split; congruence. Qed.
Lemma nrel_trans a b c : nrel a b -> nrel b c -> nrel a c.
Proof.
  unfold nrel. intros (H1 & H2 & H3 & H4 & H5 & H6 & H7 & H8 & H9 & H10 & H11) (G1 & G2 & G3 & G4 & G5 & G6 & G7 & G8 & G9 & G10 & G11).
  repeat split; congruence.
Qed.

Ltac nacc_fields := cbn [k_info k_phsf k_extra k_data k_csize k_size k_c k_m k_a k_perm k_x].
Ltac nrel_split := unfold nrel; nacc_fields; repeat split; try reflexivity; try assumption.

Lemma pstep_rel c a a' : nrel a a' -> res_rel nrel (pstep c a) (pstep c a').
Proof.
  destruct a as [i p e d cs sz tc tm ta pm xs], a' as [i' p' e' d' cs' sz' tc' tm' ta' pm' xs'].
  unfold nrel. nacc_fields. intros (<- & <- & <- & Hd & <- & <- & <- & <- & <- & <- & <-).
  unfold pstep, upd_info, upd_phsf, upd_data, upd_size, upd_c, upd_m, upd_a, upd_perm, upd_x, upd_extra. nacc_fields.
  destruct (ty_is c FHED); [destruct (fhed_of_bytes (cdata c)); cbn [bind res_rel]; auto; nrel_split|].
  destruct (ty_is c PHSF); [destruct (utf8_string (cdata c)); cbn [bind res_rel]; auto; nrel_split|].
  destruct (ty_is c FDAT); [cbn [res_rel]; nrel_split; rewrite !concat_app, Hd; reflexivity|].
  destruct (ty_is c fSIZ); [cbn [res_rel]; nrel_split|].
  destruct (ty_is c cTIM); [destruct (time_of_bytes (cdata c)); cbn [bind res_rel]; auto; nrel_split|].
  destruct (ty_is c mTIM); [destruct (time_of_bytes (cdata c)); cbn [bind res_rel]; auto; nrel_split|].
  destruct (ty_is c aTIM); [destruct (time_of_bytes (cdata c)); cbn [bind res_rel]; auto; nrel_split|].
  destruct (ty_is c fPRM); [destruct (perm_of_bytes (cdata c)); cbn [bind res_rel]; auto; nrel_split|].
  destruct (ty_is c xATR); [destruct (xattr_of_bytes (cdata c)); cbn [bind res_rel]; auto; nrel_split|].
  cbn [res_rel]. nrel_split.
Qed.

Lemma pstep_fdat c a : ty_is c FDAT = true -> pstop c = false /\ pstep c a = Ok (upd_data [cdata c] a).
Proof.
  intro H. rewrite (ty_is_true _ _ H). unfold pstop, pstep. cbn [cdata mk].
  change (ty_is (mk FDAT (cdata c)) FEND) with false. change (ty_is (mk FDAT (cdata c)) FHED) with false.
  change (ty_is (mk FDAT (cdata c)) PHSF) with false. change (ty_is (mk FDAT (cdata c)) FDAT) with true. split; reflexivity.
Qed.

Lemma sum_len_one d : sum_len [d] = len d.
Proof. reflexivity. Qed.

(* the chunk loop of TryFrom<RawEntry> for NormalEntry on a re-cut chunk list *)
Theorem parse_normal_loop_recut x y a a' : recut FDAT x y -> nrel a a' ->
  res_rel nrel (parse_normal_loop x a) (parse_normal_loop y a').
Proof.
  intros Hr Ha. rewrite !parse_normal_loop_gloop.
  apply (gloop_recut nacc pstop pstep nrel FDAT (fun d a => upd_data [d] a)); try assumption.
  - exact nrel_refl.
  - exact nrel_sym.
  - exact nrel_trans.
  - exact pstep_rel.
  - exact (fun c s H => pstep_fdat c s H).
  - intros d1 d2 s. unfold upd_data. nrel_split.
    + rewrite !concat_app. cbn [concat]. rewrite !app_nil_r, app_assoc. reflexivity.
    + rewrite !sum_len_one, len_app. lia.
  - intros s. unfold upd_data. nrel_split.
    + rewrite concat_app. cbn [concat]. rewrite !app_nil_r. reflexivity.
    + rewrite sum_len_one. change (len (@nil byte)) with 0. lia.
Qed.

(* entries that agree in everything but where the data is cut *)
Definition normal_same (e e' : normal_entry) : Prop :=
  n_hdr e = n_hdr e' /\ n_phsf e = n_phsf e' /\ n_extra e = n_extra e' /\
  concat (n_data e) = concat (n_data e') /\ n_meta e = n_meta e' /\ n_xattrs e = n_xattrs e'.
Definition solid_same (s s' : solid_entry) : Prop :=
  so_hdr s = so_hdr s' /\ so_phsf s = so_phsf s' /\ concat (so_data s) = concat (so_data s') /\ so_extra s = so_extra s'.

Lemma parse_normal_of_loop cs : parse_normal cs =
  match cs with
  | c :: _ => if negb (ty_is c FHED) then Err InvalidData else
    do a <- parse_normal_loop cs nacc0;
    match k_info a with
    | None => Err InvalidData
    | Some h => if negb (N.eqb (f_major h) 0 && N.eqb (f_minor h) 0) then Err Unsupported else
      Ok {| n_hdr := h; n_phsf := k_phsf a; n_extra := k_extra a; n_data := k_data a;
            n_meta := {| m_raw_size := k_size a; m_compressed := k_csize a; m_ctime := k_c a;
                         m_mtime := k_m a; m_atime := k_a a; m_perm := k_perm a |};
            n_xattrs := k_x a |}
    end
  | [] => Err InvalidData
  end.
Proof. reflexivity. Qed.

Lemma finish_normal_rel a a' : nrel a a' ->
  res_rel normal_same
    (match k_info a with
     | None => Err InvalidData
     | Some h => if negb (N.eqb (f_major h) 0 && N.eqb (f_minor h) 0) then Err Unsupported else
       Ok {| n_hdr := h; n_phsf := k_phsf a; n_extra := k_extra a; n_data := k_data a;
             n_meta := {| m_raw_size := k_size a; m_compressed := k_csize a; m_ctime := k_c a;
                          m_mtime := k_m a; m_atime := k_a a; m_perm := k_perm a |};
             n_xattrs := k_x a |}
     end)
    (match k_info a' with
     | None => Err InvalidData
     | Some h => if negb (N.eqb (f_major h) 0 && N.eqb (f_minor h) 0) then Err Unsupported else
       Ok {| n_hdr := h; n_phsf := k_phsf a'; n_extra := k_extra a'; n_data := k_data a';
             n_meta := {| m_raw_size := k_size a'; m_compressed := k_csize a'; m_ctime := k_c a';
                          m_mtime := k_m a'; m_atime := k_a a'; m_perm := k_perm a' |};
             n_xattrs := k_x a' |}
     end).
Proof.
  intros (H1 & H2 & H3 & H4 & H5 & H6 & H7 & H8 & H9 & H10 & H11). rewrite <- H1.
  destruct (k_info a) as [h|]; [|reflexivity]. destruct (negb _); [reflexivity|].
  cbn [res_rel]. unfold normal_same. cbn [n_hdr n_phsf n_extra n_data n_meta n_xattrs].
  rewrite H2, H3, H5, H6, H7, H8, H9, H10, H11. repeat split. exact H4.
Qed.

(* 2a. the entry parser on re-cut chunk lists with the same first chunk: the same error, or entries that agree *)
Theorem parse_normal_recut_head h x y : recut FDAT x y ->
  res_rel normal_same (parse_normal (h :: x)) (parse_normal (h :: y)).
Proof.
  intro Hr. rewrite !parse_normal_of_loop. destruct (negb (ty_is h FHED)); [reflexivity|].
  apply (res_rel_bind nrel normal_same).
  - apply parse_normal_loop_recut; [apply recut_keep; exact Hr|apply nrel_refl].
  - intros a a'. apply finish_normal_rel.
Qed.

(* ... and on any two chunk lists that are re-cuts of one another, when both parse *)
Theorem parse_normal_recut cs1 cs2 e1 e2 : recut FDAT cs1 cs2 ->
  parse_normal cs1 = Ok e1 -> parse_normal cs2 = Ok e2 -> normal_same e1 e2.
Proof.
  intros Hr. rewrite !parse_normal_of_loop.
  destruct cs1 as [|c1 r1]; [discriminate|]. destruct cs2 as [|c2 r2]; [discriminate|].
  destruct (negb (ty_is c1 FHED)); [discriminate|]. destruct (negb (ty_is c2 FHED)); [discriminate|].
  pose proof (parse_normal_loop_recut _ _ nacc0 nacc0 Hr (nrel_refl _)) as Hl.
  revert Hl.
  destruct (parse_normal_loop (c1 :: r1) nacc0) as [a1| |]; cbn [bind]; try discriminate.
  destruct (parse_normal_loop (c2 :: r2) nacc0) as [a2| |]; cbn [bind]; try discriminate.
  cbn [res_rel]. intro Hl. pose proof (finish_normal_rel _ _ Hl) as Hf. intros E1 E2. rewrite E1, E2 in Hf. exact Hf.
Qed.

(* ---- solid entries ------------------------------------------------------------------------------------- *)
Definition soacc := (option shed * option bytes * list bytes * list chunk)%type.
Definition sstop (c : chunk) : bool := ty_is c SEND.
Definition sstep (c : chunk) (s : soacc) : res soacc :=
  let '(i, p, d, x) := s in
  if ty_is c SHED then do h <- shed_of_bytes (cdata c); Ok (Some h, p, d, x)
  else if ty_is c SDAT then Ok (i, p, d ++ [cdata c], x)
  else if ty_is c PHSF then do u <- utf8_string (cdata c); Ok (i, Some u, d, x)
  else Ok (i, p, d, x ++ [c]).
Definition srel (s s' : soacc) : Prop :=
  let '(i, p, d, x) := s in let '(i', p', d', x') := s' in i = i' /\ p = p' /\ concat d = concat d' /\ x = x'.

Lemma parse_solid_loop_gloop : forall cs i p d x,
  parse_solid_loop cs i p d x = gloop soacc sstop sstep cs (i, p, d, x).
Proof.
  induction cs as [|c r IH]; intros i p d x; [reflexivity|]. cbn [parse_solid_loop gloop]. unfold sstop, sstep.
  destruct (ty_is c SEND); [reflexivity|].
  destruct (ty_is c SHED); [destruct (shed_of_bytes (cdata c)); cbn [bind]; [apply IH|reflexivity|reflexivity]|].
  destruct (ty_is c SDAT); [cbn [bind]; apply IH|].
  destruct (ty_is c PHSF); [destruct (utf8_string (cdata c)); cbn [bind]; [apply IH|reflexivity|reflexivity]|].
  cbn [bind]. apply IH.
Qed.

Lemma srel_refl s : srel s s.
Proof. destruct s as [[[i p] d] x]. cbn. repeat split. Qed.
Lemma srel_sym a b : srel a b -> srel b a.
Proof. destruct a as [[[i p] d] x], b as [[[i' p'] d'] x']. cbn. intros (-> & -> & H & ->). repeat split. congruence. Qed.
Lemma srel_trans a b c : srel a b -> srel b c -> srel a c.
Proof.
  destruct a as [[[i p] d] x], b as [[[i' p'] d'] x'], c as [[[i2 p2] d2] x2]. cbn.
  intros (-> & -> & H & ->) (-> & -> & H' & ->). repeat split. congruence.
Qed.
Lemma sstep_rel c a a' : srel a a' -> res_rel srel (sstep c a) (sstep c a').
Proof.
  destruct a as [[[i p] d] x], a' as [[[i' p'] d'] x']. cbn [srel]. intros (<- & <- & H & <-). unfold sstep.
  destruct (ty_is c SHED); [destruct (shed_of_bytes (cdata c)); cbn [bind res_rel srel]; auto|].
  destruct (ty_is c SDAT); [cbn [res_rel srel]; repeat split; rewrite !concat_app, H; reflexivity|].
  destruct (ty_is c PHSF); [destruct (utf8_string (cdata c)); cbn [bind res_rel srel]; auto|].
  cbn [res_rel srel]. auto.
Qed.
Lemma sstep_sdat c s : ty_is c SDAT = true ->
  sstop c = false /\ sstep c s = Ok (let '(i, p, d, x) := s in (i, p, d ++ [cdata c], x)).
Proof.
  intro H. rewrite (ty_is_true _ _ H). destruct s as [[[i p] d] x]. unfold sstop, sstep. cbn [cdata mk].
  change (ty_is (mk SDAT (cdata c)) SEND) with false. change (ty_is (mk SDAT (cdata c)) SHED) with false.
  change (ty_is (mk SDAT (cdata c)) SDAT) with true. split; reflexivity.
Qed.

Theorem parse_solid_loop_recut x y i p d d' e : recut SDAT x y -> concat d = concat d' ->
  res_rel srel (parse_solid_loop x i p d e) (parse_solid_loop y i p d' e).
Proof.
  intros Hr Hd. rewrite !parse_solid_loop_gloop.
  apply (gloop_recut soacc sstop sstep srel SDAT (fun b s => let '(i, p, d, x) := s in (i, p, d ++ [b], x))); try assumption.
  - exact srel_refl.
  - exact srel_sym.
  - exact srel_trans.
  - exact sstep_rel.
  - exact (fun c s H => sstep_sdat c s H).
  - intros a b [[[i0 p0] d0] x0]. cbn [srel]. repeat split.
    rewrite !concat_app. cbn [concat]. rewrite !app_nil_r, app_assoc. reflexivity.
  - intros [[[i0 p0] d0] x0]. cbn [srel]. repeat split. rewrite concat_app. cbn [concat]. rewrite !app_nil_r. reflexivity.
  - cbn [srel]. repeat split. exact Hd.
Qed.

Lemma parse_solid_of_loop cs : parse_solid cs =
  match cs with
  | c :: _ => if negb (ty_is c SHED) then Err InvalidData else
    do r <- parse_solid_loop cs None None [] [];
    let '(info, phsf, data, extra) := r in
    match info with
    | None => Err InvalidData
    | Some h => Ok {| so_hdr := h; so_phsf := phsf; so_data := data; so_extra := extra |}
    end
  | [] => Err InvalidData
  end.
Proof.
  destruct cs as [|c r]; [reflexivity|]. unfold parse_solid. destruct (negb (ty_is c SHED)); [reflexivity|].
  destruct (parse_solid_loop (c :: r) None None [] []) as [[[[i p] d] x]| |]; reflexivity.
Qed.

Lemma finish_solid_rel (a a' : soacc) : srel a a' ->
  res_rel solid_same
    (let '(info, phsf, data, extra) := a in
     match info with None => Err InvalidData | Some h => Ok {| so_hdr := h; so_phsf := phsf; so_data := data; so_extra := extra |} end)
    (let '(info, phsf, data, extra) := a' in
     match info with None => Err InvalidData | Some h => Ok {| so_hdr := h; so_phsf := phsf; so_data := data; so_extra := extra |} end).
Proof.
  destruct a as [[[i p] d] x], a' as [[[i' p'] d'] x']. cbn [srel]. intros (<- & <- & H & <-).
  destruct i; [|reflexivity]. cbn [res_rel]. unfold solid_same. cbn [so_hdr so_phsf so_data so_extra]. auto.
Qed.

Theorem parse_solid_recut_head h x y : recut SDAT x y ->
  res_rel solid_same (parse_solid (h :: x)) (parse_solid (h :: y)).
Proof.
  intro Hr. rewrite !parse_solid_of_loop. destruct (negb (ty_is h SHED)); [reflexivity|].
  apply (res_rel_bind srel solid_same).
  - apply parse_solid_loop_recut; [apply recut_keep; exact Hr|reflexivity].
  - intros a a'. apply finish_solid_rel.
Qed.

Theorem parse_solid_recut cs1 cs2 e1 e2 : recut SDAT cs1 cs2 ->
  parse_solid cs1 = Ok e1 -> parse_solid cs2 = Ok e2 -> solid_same e1 e2.
Proof.
  intros Hr. rewrite !parse_solid_of_loop.
  destruct cs1 as [|c1 r1]; [discriminate|]. destruct cs2 as [|c2 r2]; [discriminate|].
  destruct (negb (ty_is c1 SHED)); [discriminate|]. destruct (negb (ty_is c2 SHED)); [discriminate|].
  pose proof (parse_solid_loop_recut _ _ None None (@nil bytes) (@nil bytes) [] Hr eq_refl) as Hl.
  revert Hl.
  destruct (parse_solid_loop (c1 :: r1) None None [] []) as [a1| |]; cbn [bind]; try discriminate.
  destruct (parse_solid_loop (c2 :: r2) None None [] []) as [a2| |]; cbn [bind]; try discriminate.
  cbn [res_rel]. intro Hl. pose proof (finish_solid_rel _ _ Hl) as Hf. intros E1 E2. rewrite E1, E2 in Hf. exact Hf.
Qed.

(* ---- decoding ----------------------------------------------------------------------------------------- *)
Section DecodeEntries.
Variables E D : encryption -> bytes -> bytes -> bytes.
Variable decompress : compression -> bytes -> res bytes.
Variable verify : bytes -> bytes -> res bytes.
Notation decode_normal := (decode_normal E D decompress verify).
Notation decode_solid := (decode_solid E D decompress verify).

(* entries that agree in everything but the cut of their data decode alike *)
Theorem normal_same_decode e1 e2 pw rb1 rb2 : normal_same e1 e2 ->
  drains (n_data e1) rb1 -> drains (n_data e2) rb2 -> decode_normal e1 pw rb1 = decode_normal e2 pw rb2.
Proof.
  intros (Hh & Hp & _ & Hd & _) D1 D2. unfold Pipeline.decode_normal. rewrite Hh, Hp.
  apply decode_stream_cut_indep; assumption.
Qed.
Theorem solid_same_decode s1 s2 pw rb1 rb2 : solid_same s1 s2 ->
  drains (so_data s1) rb1 -> drains (so_data s2) rb2 -> decode_solid s1 pw rb1 = decode_solid s2 pw rb2.
Proof.
  intros (Hh & Hp & Hd & _) D1 D2. unfold Pipeline.decode_solid. rewrite Hh, Hp.
  rewrite (decode_stream_cut_indep E D decompress verify _ _ _ _ _ (so_data s1) (so_data s2) rb1 rb2) by assumption.
  reflexivity.
Qed.

(* 2. NormalEntry / SolidEntry parsed from re-cut chunk lists: all fields but the cut of the data agree, and the
   decoded content (or the error) is the same *)
Theorem decode_normal_recut cs1 cs2 e1 e2 pw rb1 rb2 :
  parse_normal cs1 = Ok e1 -> parse_normal cs2 = Ok e2 -> recut FDAT cs1 cs2 ->
  drains (n_data e1) rb1 -> drains (n_data e2) rb2 ->
  n_hdr e1 = n_hdr e2 /\ n_phsf e1 = n_phsf e2 /\ n_extra e1 = n_extra e2 /\ n_meta e1 = n_meta e2 /\
  n_xattrs e1 = n_xattrs e2 /\ concat (n_data e1) = concat (n_data e2) /\
  decode_normal e1 pw rb1 = decode_normal e2 pw rb2.
Proof.
  intros P1 P2 Hr D1 D2. pose proof (parse_normal_recut _ _ _ _ Hr P1 P2) as Hs.
  pose proof (normal_same_decode e1 e2 pw rb1 rb2 Hs D1 D2) as Hd.
  destruct Hs as (H1 & H2 & H3 & H4 & H5 & H6). repeat split; assumption.
Qed.
Theorem decode_solid_recut cs1 cs2 s1 s2 pw rb1 rb2 :
  parse_solid cs1 = Ok s1 -> parse_solid cs2 = Ok s2 -> recut SDAT cs1 cs2 ->
  drains (so_data s1) rb1 -> drains (so_data s2) rb2 ->
  so_hdr s1 = so_hdr s2 /\ so_phsf s1 = so_phsf s2 /\ so_extra s1 = so_extra s2 /\
  concat (so_data s1) = concat (so_data s2) /\
  decode_solid s1 pw rb1 = decode_solid s2 pw rb2.
Proof.
  intros P1 P2 Hr D1 D2. pose proof (parse_solid_recut _ _ _ _ Hr P1 P2) as Hs.
  pose proof (solid_same_decode s1 s2 pw rb1 rb2 Hs D1 D2) as Hd.
  destruct Hs as (H1 & H2 & H3 & H4). repeat split; assumption.
Qed.
End DecodeEntries.

(* ================================================================================================= *)
(* 3. archives                                                                                         *)
(* ================================================================================================= *)
(* the data chunks of an entry: SDAT for a solid entry (first chunk SHED), FDAT otherwise *)
Definition data_type (h : chunk) : bytes := if ty_is h SHED then SDAT else FDAT.
(* a raw entry re-cut: the first chunk (FHED / SHED) stays, the runs of data chunks behind it are re-cut *)
Definition recut_entry (x y : list chunk) : Prop :=
  match x, y with
  | h :: x', h' :: y' => h = h' /\ recut (data_type h) x' y'
  | [], [] => True
  | _, _ => False
  end.

Lemma recut_entry_refl x : recut_entry x x.
Proof. destruct x; cbn; auto using recut_refl. Qed.
Lemma recut_entry_sym x y : recut_entry x y -> recut_entry y x.
Proof. destruct x, y; cbn; auto. intros (-> & H). split; [reflexivity|apply recut_sym; exact H]. Qed.

(* TryFrom<RawEntry> for ReadEntry *)
Theorem parse_entry_recut x y : recut_entry x y -> res_rel entry_same (parse_entry x) (parse_entry y).
Proof.
  destruct x as [|h x], y as [|h' y]; cbn [recut_entry]; try contradiction; [reflexivity|].
  intros (<- & Hr). unfold parse_entry, data_type in *. destruct (ty_is h SHED).
  - apply (res_rel_bind solid_same entry_same); [apply parse_solid_recut_head; exact Hr|]. intros a b H. exact H.
  - destruct (ty_is h FHED); [|reflexivity].
    apply (res_rel_bind normal_same entry_same); [apply parse_normal_recut_head; exact Hr|]. intros a b H. exact H.
Qed.

Lemma parse_all_recut : forall xs ys, Forall2 recut_entry xs ys ->
  Forall2 entry_same (fst (parse_all xs)) (fst (parse_all ys)) /\ snd (parse_all xs) = snd (parse_all ys).
Proof.
  induction 1 as [|x y xs ys Hxy _ IH]; [split; [constructor|reflexivity]|]. cbn [parse_all].
  pose proof (parse_entry_recut x y Hxy) as Hp.
  destruct (parse_entry x) as [p| |], (parse_entry y) as [q| |]; cbn [res_rel] in Hp; try contradiction.
  - destruct (parse_all xs) as [ps f], (parse_all ys) as [qs g]. cbn [fst snd] in *. destruct IH as [A B].
    split; [constructor; assumption|exact B].
  - subst. split; [constructor|reflexivity].
  - split; [constructor|reflexivity].
Qed.

Lemma entries_written rd num xs : (forall bs, rd bs = read_chunk_stream bs) -> num < 2 ^ 32 -> Forall wf_entry xs ->
  entries rd (write_raw_archive num xs) = Ok (parse_all xs).
Proof.
  intros Hrd Hn Hw. unfold entries. rewrite (raw_entries_ext rd read_chunk_stream Hrd).
  rewrite read_written by assumption. cbn [bind]. destruct (parse_all xs) as [ps pe]. destruct pe; reflexivity.
Qed.

Section ArchiveLevel.
Variables E D : encryption -> bytes -> bytes -> bytes.
Variable decompress : compression -> bytes -> res bytes.
Variable verify : bytes -> bytes -> res bytes.
Notation decode_normal := (decode_normal E D decompress verify).
Notation decode_solid := (decode_solid E D decompress verify).

(* what a caller gets out of an entry: the content of a normal entry, the inner entries of a solid one *)
Definition entry_data (e : read_entry) : list bytes := match e with RNormal n => n_data n | RSolid s => so_data s end.
Definition decode_entry (e : read_entry) (pw : bytes) (rbufs : list N) : res (bytes + list normal_entry * fin) :=
  match e with
  | RNormal n => do b <- decode_normal n pw rbufs; Ok (inl b)
  | RSolid s => do r <- decode_solid s pw rbufs; Ok (inr r)
  end.

Theorem entry_same_decode x y pw rb1 rb2 : entry_same x y ->
  drains (entry_data x) rb1 -> drains (entry_data y) rb2 -> decode_entry x pw rb1 = decode_entry y pw rb2.
Proof.
  destruct x as [n|s], y as [n'|s']; cbn [entry_same]; try contradiction; intros H D1 D2; cbn [decode_entry entry_data] in *.
  - rewrite (normal_same_decode E D decompress verify n n' pw rb1 rb2) by assumption. reflexivity.
  - rewrite (solid_same_decode E D decompress verify s s' pw rb1 rb2) by assumption. reflexivity.
Qed.

(* two entry lists: the same names, kinds, metadata, extra chunks entry by entry, and every entry decodes to the same
   content — or fails with the same error — whatever draining read buffers are used on either side *)
Definition entries_agree (es1 es2 : list read_entry) : Prop :=
  Forall2 (fun x y => entry_same x y /\
             forall pw rb1 rb2, drains (entry_data x) rb1 -> drains (entry_data y) rb2 ->
                                decode_entry x pw rb1 = decode_entry y pw rb2) es1 es2.

Lemma entries_agree_of_same es1 es2 : Forall2 entry_same es1 es2 -> entries_agree es1 es2.
Proof.
  induction 1 as [|x y es1 es2 H _ IH]; constructor; [|exact IH]. split; [exact H|].
  intros pw rb1 rb2. apply entry_same_decode. exact H.
Qed.

(* 3. archives whose entries are re-cuts of one another, read by the stream reader and by the slice reader *)
Theorem recut_archive_indep num xs ys : num < 2 ^ 32 ->
  Forall2 recut_entry xs ys -> Forall wf_entry xs -> Forall wf_entry ys ->
  let a1 := write_raw_archive num xs in let a2 := write_raw_archive num ys in
  exists es1 es2 f,
    entries read_chunk_stream a1 = Ok (es1, f) /\ entries read_chunk_stream a2 = Ok (es2, f) /\
    entries read_chunk_slice a1 = Ok (es1, f) /\ entries read_chunk_slice a2 = Ok (es2, f) /\
    entries_agree es1 es2 /\
    res_rel entries_agree (read_archive a1) (read_archive a2).
Proof.
  intros Hn Hr W1 W2 a1 a2. destruct (parse_all_recut xs ys Hr) as [A B].
  exists (fst (parse_all xs)), (fst (parse_all ys)), (snd (parse_all xs)).
  assert (E1 : forall rd, (forall bs, rd bs = read_chunk_stream bs) -> entries rd a1 = Ok (fst (parse_all xs), snd (parse_all xs))).
  { intros rd Hrd. unfold a1. rewrite (entries_written rd) by assumption. destruct (parse_all xs); reflexivity. }
  assert (E2 : forall rd, (forall bs, rd bs = read_chunk_stream bs) -> entries rd a2 = Ok (fst (parse_all ys), snd (parse_all xs))).
  { intros rd Hrd. unfold a2. rewrite (entries_written rd) by assumption. rewrite B. destruct (parse_all ys); reflexivity. }
  pose proof (entries_agree_of_same _ _ A) as Hag.
  refine (conj _ (conj _ (conj _ (conj _ (conj _ _))))).
  - apply E1. reflexivity.
  - apply E2. reflexivity.
  - apply E1. exact read_chunk_slice_eq.
  - apply E2. exact read_chunk_slice_eq.
  - exact Hag.
  - unfold read_archive. rewrite (E1 _ (fun _ => eq_refl)), (E2 _ (fun _ => eq_refl)). cbn [bind].
    destruct (snd (parse_all xs)); cbn [res_rel]; auto.
Qed.
End ArchiveLevel.

(* ================================================================================================= *)
(* 4. pna split: the splitter cuts data chunks only                                                    *)
(* ================================================================================================= *)
(* WfSplitFacts.crefines (some FDAT/SDAT chunks cut in pieces) is a re-cut, provided the only stream-typed chunks
   are the entry's own data chunks (a stream-typed chunk foreign to its entry — SDAT inside FHED..FEND — is cut by
   the splitter too: the known finding SplitFacts.foreign_stream_chunk_recut_refuted) *)
Theorem crefines_recut x y : crefines x y ->
  forall t, (forall c, In c x -> stream_type (cty c) = true -> cty c = t) -> recut t x y.
Proof.
  induction 1 as [|c x y _ IH|t0 a b x y T _ IH]; intros t Hf.
  - apply recut_nil.
  - apply recut_keep. apply IH. intros c' Hin. apply Hf. right. exact Hin.
  - assert (Ht : t0 = t) by (apply (Hf (mk t0 (a ++ b))); [left; reflexivity|exact T]). subst t0.
    apply recut_cut. apply IH. intros c' [<-|Hin]; [reflexivity|]. apply Hf. right. exact Hin.
Qed.

Theorem write_split_recut max es parts t :
  Split.write_split max es = Ok parts ->
  (forall c, In c (map to_c (concat es)) -> stream_type (cty c) = true -> cty c = t) ->
  exists bds lastb, parts = SplitFacts.assemble bds lastb /\
                    recut t (map to_c (concat es)) (map to_c (concat bds ++ lastb)).
Proof.
  intros W Hf. destruct (write_split_refines _ _ _ W) as (bds & lastb & -> & _ & CR).
  exists bds, lastb. split; [reflexivity|]. exact (crefines_recut _ _ CR t Hf).
Qed.

Lemma entry_same_refl x : entry_same x x.
Proof. destruct x; cbn; repeat split. Qed.
Lemma entry_same_trans x y z : entry_same x y -> entry_same y z -> entry_same x z.
Proof.
  destruct x, y, z; cbn; try contradiction.
  - intros (A1 & A2 & A3 & A4 & A5 & A6) (B1 & B2 & B3 & B4 & B5 & B6). repeat split; congruence.
  - intros (A1 & A2 & A3 & A4) (B1 & B2 & B3 & B4). repeat split; congruence.
Qed.
Lemma entry_same_normalize e : entry_same e (normalize_entry e).
Proof.
  destruct e as [n|s]; cbn [normalize_entry]; [|apply entry_same_refl].
  cbn [entry_same normalize n_hdr n_phsf n_extra n_data n_meta n_xattrs]. repeat split.
  symmetry. exact (cutN_concat CMAX (n_data n) CMAX_pos).
Qed.
Lemma Forall2_entry_same_normalize : forall ents xs, Forall2 entry_same (map normalize_entry ents) xs -> Forall2 entry_same ents xs.
Proof.
  induction ents as [|e ents IH]; intros xs H; inversion H; subst; constructor.
  - eapply entry_same_trans; [apply entry_same_normalize|eassumption].
  - apply IH. assumption.
Qed.

Section SplitDecode.
Variables E D : encryption -> bytes -> bytes -> bytes.
Variable decompress : compression -> bytes -> res bytes.
Variable verify : bytes -> bytes -> res bytes.

(* 4. what `pna split` does to the entries of an archive: the parts written by write_split, read back by the
   part-chaining reader (stream or slice), give entries that agree with the originals and decode to the same contents *)
Theorem split_then_decode max ents parts : Forall writable ents ->
  Split.write_split max (map (fun e => map of_c (ser_entry e)) ents) = Ok parts ->
  exists xs' raws,
    read_parts read_chunk_stream (map ser_pfile parts) = Ok (raws, FinOk) /\
    read_parts read_chunk_slice (map ser_pfile parts) = Ok (raws, FinOk) /\
    parse_all raws = (xs', FinOk) /\
    entries_agree E D decompress verify ents xs'.
Proof.
  intros W H. destruct (split_read_back _ _ _ W H) as (xs' & raws & S & R & P).
  exists xs', raws. split; [exact R|]. split; [rewrite stream_slice_agree_parts; exact R|]. split; [exact P|].
  apply entries_agree_of_same. apply Forall2_entry_same_normalize. exact S.
Qed.
End SplitDecode.

(* ================================================================================================= *)
(* 5. with the writer of C01: an archive the library wrote, re-cut in any way, still decodes to what   *)
(*    was written (this is where the cipher and compressor laws come in)                               *)
(* ================================================================================================= *)
Lemma repeat_pos k : Forall (fun n => 0 < n) (repeat 1 k).
Proof. induction k; cbn; constructor; [lia|assumption]. Qed.
Lemma len_repeat {A} (x : A) k : len (repeat x k) = N.of_nat k.
Proof. unfold len. rewrite repeat_length. reflexivity. Qed.

Section Written.
Variables E D : encryption -> bytes -> bytes -> bytes.
Variable compress : compression -> N -> list bytes -> list bytes.
Variable decompress : compression -> bytes -> res bytes.
Variable verify : bytes -> bytes -> res bytes.
Hypothesis D_len : forall a k c, len16 c -> len16 (D a k c).
Hypothesis DE : forall a k b, len16 b -> D a k (E a k b) = b.
Hypothesis E_len : forall a k b, len16 b -> len16 (E a k b).
Hypothesis compress_law : forall c lvl ws, decompress c (concat (compress c lvl ws)) = Ok (concat ws).
Hypothesis compress_det : forall c lvl (ws ws' : list bytes), concat ws = concat ws' ->
  concat (compress c lvl ws) = concat (compress c lvl ws').

(* a built entry decodes to its content with EVERY draining buffer sequence (the roundtrip theorem asks for
   more reads than the plain stream has bytes; the data is never shorter than that, but this needs no counting:
   both are decode_spec of the same bytes) *)
Lemma built_decodes pw j rb : wf_job E compress verify pw j -> drains (n_data (build_job E compress j)) rb ->
  decode_normal E D decompress verify (build_job E compress j) pw rb = Ok (sp_content (j_spec j)).
Proof.
  intros (Hs & Hc & Hw & Hf) Hd.
  set (k := S (N.to_nat (len (plain compress (eff_cfg (j_cfg j) (sp_kind (j_spec j))) (eff_wcuts (sp_kind (j_spec j)) (j_wcuts j)))
                         + len (concat (n_data (build_job E compress j)))))).
  assert (D0 : drains (n_data (build_job E compress j)) (repeat 1 k)).
  { split; [apply repeat_pos|]. rewrite len_repeat. unfold k. lia. }
  rewrite (normal_same_decode E D decompress verify _ (build_job E compress j) pw rb (repeat 1 k)); try assumption.
  - unfold build_job. apply (entry_roundtrip E D compress decompress verify D_len DE E_len compress_law); try assumption.
    + apply repeat_pos.
    + unfold covers. rewrite len_repeat. unfold k. lia.
  - unfold normal_same. repeat split.
Qed.

Theorem recut_of_written pw jobs ys :
  Forall (wf_job E compress verify pw) jobs ->
  Forall2 recut_entry (map ser_normal (map (build_job E compress) jobs)) ys -> Forall wf_entry ys ->
  exists es,
    read_archive (write_raw_archive 0 ys) = Ok es /\
    entries read_chunk_slice (write_raw_archive 0 ys) = Ok (es, FinOk) /\
    Forall2 (fun j e => exists n, e = RNormal n /\ normal_same (build_job E compress j) n /\
               forall rb, drains (n_data n) rb ->
                 decode_normal E D decompress verify n pw rb = Ok (sp_content (j_spec j))) jobs es.
Proof.
  intros Hj Hr W2.
  assert (W1 : Forall wf_entry (map ser_normal (map (build_job E compress) jobs))).
  { apply Forall_forall. intros cs Hcs. apply in_map_iff in Hcs. destruct Hcs as (e & <- & He).
    apply in_map_iff in He. destruct He as (j & <- & Hin). rewrite Forall_forall in Hj.
    destruct (Hj j Hin) as (Hs & Hc & Hw & Hf).
    apply (ser_normal_wf_entry compress decompress compress_law compress_det); [|exact Hf].
    apply (build_wf_normal E compress verify _ _ pw); assumption. }
  destruct (recut_archive_indep E D decompress verify 0 _ ys ltac:(lia) Hr W1 W2) as (es1 & es2 & f & R1 & R2 & _ & S2 & Ag & _).
  pose proof (archive_roundtrip E D compress decompress verify D_len DE E_len compress_law compress_det pw jobs Hj) as RT.
  unfold write_archive, read_archive in RT. rewrite R1 in RT. cbn [bind] in RT.
  destruct f; try discriminate. injection RT as ->.
  exists es2. split; [unfold read_archive; rewrite R2; reflexivity|]. split; [exact S2|].
  clear R1 R2 S2 Hr W1 W2. revert es2 Ag. induction jobs as [|j jobs IH]; intros es2 Ag; inversion Ag; subst; constructor.
  - match goal with H : entry_same _ ?y /\ _ |- _ => destruct H as (Hs & Hd); destruct y as [n|s]; cbn [entry_same] in Hs; [|contradiction] end.
    exists n. split; [reflexivity|]. split; [exact Hs|]. intros rb Hrb.
    inversion Hj as [|? ? Hj1 _]; subst.
    assert (D1 : drains (n_data (build_job E compress j)) rb).
    { destruct Hs as (_ & _ & _ & Hc & _). eapply drains_concat; [symmetry; exact Hc|exact Hrb]. }
    specialize (Hd pw rb rb D1 Hrb). cbn [decode_entry] in Hd.
    rewrite (built_decodes pw j rb Hj1 D1) in Hd. cbn [bind] in Hd.
    destruct (decode_normal E D decompress verify n pw rb); cbn [bind] in Hd; congruence.
  - apply IH; [inversion Hj; assumption|assumption].
Qed.
End Written.

(* ================================================================================================= *)
(* 6. the instances with the AES-256 / Camellia-256 models the pipeline area is run with               *)
(* ================================================================================================= *)
Section Real.
Variable compress : compression -> N -> list bytes -> list bytes.
Variable decompress : compression -> bytes -> res bytes.
Variable verify : bytes -> bytes -> res bytes.

Theorem decode_stream_cut_indep_real comp enc mode phsf pw data1 data2 rbufs1 rbufs2 :
  concat data1 = concat data2 -> drains data1 rbufs1 -> drains data2 rbufs2 ->
  decode_stream real_E_of real_D_of decompress verify comp enc mode phsf pw data1 rbufs1 =
  decode_stream real_E_of real_D_of decompress verify comp enc mode phsf pw data2 rbufs2.
Proof. apply decode_stream_cut_indep. Qed.

Theorem recut_archive_indep_real num xs ys : num < 2 ^ 32 ->
  Forall2 recut_entry xs ys -> Forall wf_entry xs -> Forall wf_entry ys ->
  let a1 := write_raw_archive num xs in let a2 := write_raw_archive num ys in
  exists es1 es2 f,
    entries read_chunk_stream a1 = Ok (es1, f) /\ entries read_chunk_stream a2 = Ok (es2, f) /\
    entries read_chunk_slice a1 = Ok (es1, f) /\ entries read_chunk_slice a2 = Ok (es2, f) /\
    entries_agree real_E_of real_D_of decompress verify es1 es2 /\
    res_rel (entries_agree real_E_of real_D_of decompress verify) (read_archive a1) (read_archive a2).
Proof. apply recut_archive_indep. Qed.

Hypothesis compress_law : forall c lvl ws, decompress c (concat (compress c lvl ws)) = Ok (concat ws).
Hypothesis compress_det : forall c lvl (ws ws' : list bytes), concat ws = concat ws' ->
  concat (compress c lvl ws) = concat (compress c lvl ws').

Theorem recut_of_written_real pw jobs ys :
  Forall (wf_job real_E_of compress verify pw) jobs ->
  Forall2 recut_entry (map ser_normal (map (build_job real_E_of compress) jobs)) ys -> Forall wf_entry ys ->
  exists es,
    read_archive (write_raw_archive 0 ys) = Ok es /\
    entries read_chunk_slice (write_raw_archive 0 ys) = Ok (es, FinOk) /\
    Forall2 (fun j e => exists n, e = RNormal n /\ normal_same (build_job real_E_of compress j) n /\
               forall rb, drains (n_data n) rb ->
                 decode_normal real_E_of real_D_of decompress verify n pw rb = Ok (sp_content (j_spec j))) jobs es.
Proof. apply (recut_of_written real_E_of real_D_of compress decompress verify real_D_len real_DE real_E_len compress_law compress_det). Qed.
End Real.

(* the read sequence the case interpreter of the pipeline area uses (PipelineRun.reads_for: the caller's read-until-zero
   loop with cyclic buffer sizes, as the finite list of reads it amounts to) drains: the decode cases of the
   correspondence run are instances of the theorems above *)
Lemma cycle_to_spec cyc : cyc <> [] -> Forall (fun n => 0 < n) cyc -> forall fuel cur, Forall (fun n => 0 < n) cur ->
  length (cycle_to fuel cur cyc) = fuel /\ Forall (fun n => 0 < n) (cycle_to fuel cur cyc).
Proof.
  intros Hne Hc. induction fuel as [|f IH]; intros cur Hcur; [split; [reflexivity|constructor]|].
  cbn [cycle_to]. destruct cur as [|s r].
  - destruct cyc as [|s r]; [congruence|]. inversion Hc as [|? ? Hs Hr]; subst.
    destruct (IH r Hr) as [A B]. split; [cbn [length]; rewrite A; reflexivity|constructor; assumption].
  - inversion Hcur as [|? ? Hs Hr]; subst.
    destruct (IH r Hr) as [A B]. split; [cbn [length]; rewrite A; reflexivity|constructor; assumption].
Qed.
Theorem reads_for_drains sizes data : sizes <> [] -> Forall (fun n => 0 < n) sizes -> drains data (reads_for sizes data).
Proof.
  intros Hne Hp. unfold reads_for. destruct (cycle_to_spec sizes Hne Hp (S (S (length (concat data)))) sizes Hp) as [A B].
  split; [exact B|]. unfold len. rewrite A. lia.
Qed.

(* hence what the case interpreter prints as the content of an entry does not depend on the framing of its data nor on
   the buffer sizes of the case *)
Theorem content_of_framing_indep vt dt s1 s2 e1 e2 : normal_same e1 e2 ->
  s1 <> [] -> Forall (fun n => 0 < n) s1 -> s2 <> [] -> Forall (fun n => 0 < n) s2 ->
  content_of vt dt s1 e1 = content_of vt dt s2 e2.
Proof.
  intros Hs N1 P1 N2 P2. unfold content_of. apply normal_same_decode; [exact Hs| |]; apply reads_for_drains; assumption.
Qed.

(* ================================================================================================= *)
(* 7. the premises are satisfiable: a 33-byte file, AES-256-CBC, store; its 64 data bytes (IV + 48)      *)
(*    re-cut into chunks of 1, 0, 7, 16, 20, 20 bytes (inside the IV, empty, inside cipher blocks)       *)
(* ================================================================================================= *)
Lemma repeat_pos' n k : 0 < n -> Forall (fun m => 0 < m) (repeat n k).
Proof. intro H. induction k; cbn; constructor; assumption. Qed.

(* cut a byte string into pieces of the given sizes (the rest, if any, is the last piece) *)
Fixpoint cut_sizes (sizes : list nat) (b : bytes) : list bytes :=
  match sizes with
  | [] => match b with [] => [] | _ => [b] end
  | n :: r => firstn n b :: cut_sizes r (skipn n b)
  end.
(* re-cut every run of t-chunks with the same sizes *)
Definition recut_with (t : bytes) (sizes : list nat) (cs : list chunk) : list chunk :=
  concat (map (fun c => if ty_is c t then map (mk t) (cut_sizes sizes (cdata c)) else [c]) (fuse t cs)).

(* a decidable form of ArchiveFacts.wf_entry *)
Definition wf_chunkb (c : chunk) : bool := Nat.eqb (length (cty c)) 4 && N.ltb (len (cdata c)) (2 ^ 32).
Definition wf_entryb (cs : list chunk) : bool :=
  match rev cs with
  | [] => false
  | l :: b => is_end l && forallb wf_chunkb cs && forallb (fun c => negb (is_term c)) b
  end.
Lemma wf_entryb_sound cs : wf_entryb cs = true -> wf_entry cs.
Proof.
  unfold wf_entryb. destruct (rev cs) as [|l b] eqn:Er; [discriminate|]. intro H.
  apply andb_prop in H. destruct H as [H H3]. apply andb_prop in H. destruct H as [H1 H2].
  assert (Ecs : cs = rev b ++ [l]) by (rewrite <- (rev_involutive cs), Er; reflexivity).
  exists (rev b), l. split; [exact Ecs|]. split; [exact H1|]. split.
  - apply Forall_forall. intros c Hc. rewrite forallb_forall in H2. specialize (H2 c Hc).
    unfold wf_chunkb in H2. apply andb_prop in H2. destruct H2 as [A B]. split; [apply Nat.eqb_eq; exact A|apply N.ltb_lt; exact B].
  - apply Forall_forall. intros c Hc. rewrite forallb_forall in H3. apply in_rev in Hc. specialize (H3 c Hc).
    apply negb_true_iff. exact H3.
Qed.

Definition rx_pw : bytes := lit "pw".
Definition rx_key : bytes := firstn 32 (rx_pw ++ repeat x00 32).
Definition rx_iv : bytes := map n2b [16; 17; 18; 19; 20; 21; 22; 23; 24; 25; 26; 27; 28; 29; 30; 31].
Definition rx_content : bytes :=
  map n2b [1; 2; 3; 4; 5; 6; 7; 8; 9; 10; 11; 12; 13; 14; 15; 16; 17; 18; 19; 20; 21; 22; 23; 24; 25; 26; 27; 28; 29; 30; 31; 32; 33].
Definition rx_cfg : config := {| g_comp := CNo; g_level := 0; g_enc := EAes; g_mode := MCbc |}.
Definition rx_ctx : cctx := {| c_key := rx_key; c_iv := rx_iv; c_phsf := hex rx_pw |}.
Definition rx_spec : spec :=
  {| sp_kind := KFile; sp_name := lit "a.txt"; sp_content := rx_content; sp_ctime := None; sp_mtime := Some 1700000000;
     sp_atime := None; sp_perm := None; sp_xattrs := []; sp_extra := [mk (T "zzXy") [x01]] |}.
(* the entry as EntryBuilder makes it (written as 10 + 23 bytes), its chunks, and the re-cut chunks *)
Definition rx_entry : normal_entry := build_normal real_E_of id_compress rx_cfg rx_ctx rx_spec [firstn 10 rx_content; skipn 10 rx_content].
Definition rx_chunks : list chunk := ser_normal rx_entry.
Definition rx_recut : list chunk := recut_with FDAT [1; 0; 7; 16; 20; 20]%nat rx_chunks.
Definition rx_decode (cs : list chunk) (rbufs : list N) : res bytes :=
  do e <- parse_normal cs; decode_normal real_E_of real_D_of id_decompress toy_verify e rx_pw rbufs.

Example rx_shape :
  map (fun c => length (cdata c)) (filter (fun c => ty_is c FDAT) rx_chunks) = [16; 16; 16; 16]%nat /\
  map (fun c => length (cdata c)) (filter (fun c => ty_is c FDAT) rx_recut) = [1; 0; 7; 16; 20; 20]%nat /\
  length rx_content = 33%nat /\ wf_entryb rx_chunks = true /\ wf_entryb rx_recut = true.
Proof. vm_compute. repeat split. Qed.
Example rx_is_recut : recut FDAT rx_chunks rx_recut.
Proof. unfold recut. vm_compute. reflexivity. Qed.
Lemma recut_entry_intro x y : x <> [] -> y <> [] -> hd (mk [] []) x = hd (mk [] []) y ->
  recut (data_type (hd (mk [] []) x)) (tl x) (tl y) -> recut_entry x y.
Proof. destruct x, y; try congruence. cbn. auto. Qed.
Example rx_is_recut_entry : recut_entry rx_chunks rx_recut.
Proof.
  apply recut_entry_intro.
  - vm_compute. discriminate.
  - vm_compute. discriminate.
  - vm_compute. reflexivity.
  - unfold recut. vm_compute. reflexivity.
Qed.
Example rx_premises : exists e1 e2,
  parse_normal rx_chunks = Ok e1 /\ parse_normal rx_recut = Ok e2 /\ recut FDAT rx_chunks rx_recut /\
  drains (n_data e1) (repeat 7 70) /\ drains (n_data e2) (repeat 16 70) /\ n_data e1 <> n_data e2.
Proof.
  destruct (parse_normal rx_chunks) as [e1| |] eqn:P1; [|vm_compute in P1; discriminate|vm_compute in P1; discriminate].
  destruct (parse_normal rx_recut) as [e2| |] eqn:P2; [|vm_compute in P2; discriminate|vm_compute in P2; discriminate].
  exists e1, e2. split; [reflexivity|]. split; [reflexivity|]. split; [exact rx_is_recut|].
  vm_compute in P1. vm_compute in P2. injection P1 as <-. injection P2 as <-.
  split; [split; [apply (repeat_pos' 7 70); lia|vm_compute; reflexivity]|].
  split; [split; [apply (repeat_pos' 16 70); lia|vm_compute; reflexivity]|]. vm_compute. discriminate.
Qed.
Example rx_decodes :
  rx_decode rx_chunks (repeat 7 70) = Ok rx_content /\ rx_decode rx_recut (repeat 16 70) = Ok rx_content.
Proof. split; vm_compute; reflexivity. Qed.
Example rx_truncated_same_error :
  let data := concat (n_data rx_entry) in
  decode_stream real_E_of real_D_of id_decompress toy_verify CNo EAes MCbc (Some (hex rx_pw)) rx_pw [firstn 63 data] (repeat 4096 70) = Err UnexpectedEof /\
  decode_stream real_E_of real_D_of id_decompress toy_verify CNo EAes MCbc (Some (hex rx_pw)) rx_pw (cut_sizes [1; 0; 7; 16; 20]%nat (firstn 63 data)) (repeat 5 70) = Err UnexpectedEof.
Proof. split; vm_compute; reflexivity. Qed.
Example rx_archive_premises :
  Forall2 recut_entry [rx_chunks] [rx_recut] /\ Forall wf_entry [rx_chunks] /\ Forall wf_entry [rx_recut] /\
  write_raw_archive 0 [rx_chunks] <> write_raw_archive 0 [rx_recut].
Proof.
  split; [constructor; [exact rx_is_recut_entry|constructor]|].
  split; [constructor; [apply wf_entryb_sound; vm_compute; reflexivity|constructor]|].
  split; [constructor; [apply wf_entryb_sound; vm_compute; reflexivity|constructor]|].
  vm_compute. discriminate.
Qed.

(* split_then_decode: its premises are met by the three example entries of WfWriterFacts split at 120 bytes *)
Example rx_split_premises : exists parts,
  Forall writable [RNormal ex_plain; RNormal ex_enc; RSolid ex_solid] /\
  Split.write_split 120 (map (fun e => map of_c (ser_entry e)) [RNormal ex_plain; RNormal ex_enc; RSolid ex_solid]) = Ok parts /\
  length parts = 12%nat.
Proof. destruct split_wf_ex as (parts & H1 & H2 & _). exists parts. split; [exact ex_writable|]. split; assumption. Qed.
