(* PhcCreateFacts.v — the PHC-shape premises of the create theorems (phc_job, phc_ctx of CreateSplitFacts.v /
   CreateWfFacts.v), discharged for the cipher contexts the writer makes: a job / solid context whose PHSF string was
   printed by the writer (Kdf.writer_context with the executable PHC printer: u32 parameters, a 16-byte salt) satisfies
   them (Proofs/PhcShapeFacts.v), so C14_create_output_wf, C14_create_solid_output_wf and C02_create_split_extract hold
   with `the PHSF comes from a writer context` in place of `the PHSF has PHC shape`.
   The connecting definition between Kdf.ctx (what get_writer_context returns) and Pipeline.cctx (what the entry
   builders consume) is cctx_of. *)
From PNA Require Import Base Crc32 Name Codec Chunk Archive Entry Flatten Cbc Ctr Pipeline Aes Camellia Wf Kdf
  BaseFacts NameFacts CodecFacts ChunkFacts ArchiveFacts EntryFacts FlattenFacts CbcFacts CtrFacts StreamFacts PipelineFacts
  WfFacts WfWriterFacts WfAgreeFacts WfSplitFacts WfPipelineFacts WfRewriteFacts AesFacts CamelliaFacts PipelineRealFacts PipelineRun RecutFacts.
From PNA Require Split SplitFacts.
From PNA Require Import Fs Extract ExtractFacts CreateExtractFacts CreateTransportFacts CreateSplitFacts CreateWfFacts.
From PNA Require Import KdfFacts PhcFacts PhcShapeFacts.
Open Scope N_scope.

(* what get_writer_context hands to the entry builders *)
Definition cctx_of (c : ctx bytes) : cctx := {| c_key := ctx_key c; c_iv := ctx_iv c; c_phsf := ctx_phsf c |}.

Definition writer_job (j : job) : Prop :=
  Pipeline.encrypted (eff_cfg (j_cfg j) (sp_kind (j_spec j))) = true -> writer_phsf (c_phsf (j_ctx j)).
Definition writer_ctx (cfg : config) (ctx : cctx) : Prop :=
  Pipeline.encrypted cfg = true -> writer_phsf (c_phsf ctx).

Lemma writer_job_phc j : writer_job j -> phc_job j.
Proof. intros W E. exact (proj1 (writer_phsf_shape _ (W E))). Qed.
Lemma writer_ctx_phc cfg ctx : writer_ctx cfg ctx -> phc_ctx cfg ctx.
Proof. intros W E. exact (writer_phsf_shape _ (W E)). Qed.

(* a job / solid context built on a writer context (any KDF whose parameter rules refuse non-u32 values) *)
Lemma cctx_of_writer (kdf : bytes -> option N -> list (bytes * bytes) -> bytes -> bytes -> bytes)
      (kdf_valid : bytes -> option N -> list (bytes * bytes) -> bytes -> option bytes -> bool) :
  (forall h salt, kdf_valid (alg_name h) (alg_version h) (alg_params h) salt None = true -> fits_u32 h = true) ->
  forall m h pw tape c t', writer_context bytes kdf kdf_valid phc_print_x m h pw tape = Ok (c, t') ->
  writer_phsf (c_phsf (cctx_of c)) /\ len (c_iv (cctx_of c)) = 16.
Proof.
  intros U m h pw tape c t' W. split; [exact (writer_context_phsf bytes kdf kdf_valid U _ _ _ _ _ _ W)|].
  destruct (writer_context_inv _ _ _ _ _ _ _ _ _ _ W) as (LT & _ & _ & _ & IV & _). cbn [cctx_of c_iv]. rewrite IV.
  unfold len. rewrite firstn_length, skipn_length. unfold SALT_LEN, IV_LEN in *. lia.
Qed.

Section Create.
Variable E : encryption -> bytes -> bytes -> bytes.
Variable compress : compression -> N -> list bytes -> list bytes.
Variable verify : bytes -> bytes -> res bytes.
Hypothesis E_len : forall a k b, len16 b -> len16 (E a k b).

Theorem create_output_wf_writer : forall c order t pw jobs,
  wf_tree t -> tree_ok t ->
  Forall2 carries jobs (create_from_tree c order t) -> Forall (wf_job E compress verify pw) jobs -> Forall writer_job jobs ->
  let a := write_archive (map (build_job E compress) jobs) in
  let es := map (fun j => RNormal (build_job E compress j)) jobs in
  wf_archive a = true /\ strict_decode a = Ok es /\
  entries read_chunk_stream a = Ok (es, FinOk) /\ entries read_chunk_slice a = Ok (es, FinOk).
Proof.
  intros c order t pw jobs WF TOK Hc Hw Hp.
  apply (create_output_wf E compress verify E_len c order t pw jobs); try assumption.
  eapply Forall_impl; [exact writer_job_phc | exact Hp].
Qed.

Theorem create_solid_output_wf_writer : forall c order t pw jobs cfg ctx,
  wf_tree t -> tree_ok t ->
  Forall2 carries jobs (create_from_tree c order t) -> Forall (wf_job E compress verify pw) jobs -> Forall writer_job jobs ->
  key_iv_ok (c_key ctx) (c_iv ctx) = true -> writer_ctx cfg ctx ->
  let a := write_raw_archive 0 [solid_archive_chunks E compress cfg ctx (solid_writes (map (build_job E compress) jobs))] in
  let es := [RSolid (streamed_solid E compress cfg ctx (solid_writes (map (build_job E compress) jobs)))] in
  wf_archive a = true /\ strict_decode a = Ok es /\
  entries read_chunk_stream a = Ok (es, FinOk) /\ entries read_chunk_slice a = Ok (es, FinOk) /\
  inner_entries (solid_plain_stream (map (build_job E compress) jobs)) = SOk (map (fun j => RNormal (build_job E compress j)) jobs).
Proof.
  intros c order t pw jobs cfg ctx WF TOK Hc Hw Hp K PH.
  apply (create_solid_output_wf E compress verify E_len c order t pw jobs cfg ctx); try assumption.
  - eapply Forall_impl; [exact writer_job_phc | exact Hp].
  - exact (writer_ctx_phc _ _ PH).
Qed.
End Create.

(* C02: create --split, transport, extract — with writer-made contexts *)
Theorem create_split_extract_writer :
  forall (E D : encryption -> bytes -> bytes -> bytes) (compress : compression -> N -> list bytes -> list bytes)
         (decompress : compression -> bytes -> res bytes) (verify : bytes -> bytes -> res bytes),
  (forall a k c, len16 c -> len16 (D a k c)) -> (forall a k b, len16 b -> D a k (E a k b) = b) ->
  (forall a k b, len16 b -> len16 (E a k b)) ->
  (forall c lvl ws, decompress c (concat (compress c lvl ws)) = Ok (concat ws)) ->
  forall c o out order t pw jobs max parts,
  o_guarded o = true -> wf_tree t -> tree_ok t -> walk_order_ok c o t order ->
  Forall ExtractFacts.plain out -> out <> [] ->
  Forall2 carries jobs (create_from_tree c order t) -> Forall (wf_job E compress verify pw) jobs ->
  Forall writer_job jobs ->
  Split.write_split max (map (fun j => map of_c (ser_normal (build_job E compress j))) jobs) = Ok parts ->
  Forall (fun f => Split.file_size f <= max /\ len (ser_pfile f) = Split.file_size f) parts /\
  exists raws ns es,
    read_parts read_chunk_stream (map ser_pfile parts) = Ok (raws, FinOk) /\
    read_parts read_chunk_slice (map ser_pfile parts) = Ok (raws, FinOk) /\
    parse_all raws = (map RNormal ns, FinOk) /\
    (forall rb, (forall n, In n ns -> drains (n_data n) (rb n)) ->
       read_entries_x E D decompress verify pw rb ns = Ok es) /\
    es = create_from_tree c order t /\
    tree_of c o out order (extract_all o out es (empty_dir out)) = expected c o order t /\
    snd (extract_run o out es (empty_dir out)) = true.
Proof.
  intros E D compress decompress verify DL DE EL CL c o out order t pw jobs max parts G WF TOK WO OP ON Hc Hw Hp W.
  apply (create_split_extract E D compress decompress verify DL DE EL CL c o out order t pw jobs max parts); try assumption.
  eapply Forall_impl; [exact writer_job_phc | exact Hp].
Qed.
