(* StreamFacts.v — the stream layer of C01 / C03: collects FlattenFacts, CbcFacts, CtrFacts,
   proves the laws of the toy cipher (so the Section hypotheses are satisfiable and the model
   that is RUN against the implementation is an instance of the model that is PROVED about),
   and states the layer's end-to-end corollaries. *)
From PNA Require Export Base Flatten Cbc Ctr BaseFacts FlattenFacts CbcFacts CtrFacts.
Require Import ZArith ZifyN ZifyNat ZifyBool Lia.
Open Scope N_scope.

(* ---- the toy cipher satisfies the cipher laws ------------------------------------------------------ *)
Lemma toy_key_len k : len16 (toy_key k).
Proof. unfold len16, toy_key. rewrite firstn_length, app_length, repeat_length. lia. Qed.
Lemma rotl1_length l : length (rotl1 l) = length l.
Proof. destruct l; cbn; [reflexivity|]. rewrite app_length. cbn. lia. Qed.
Lemma rotr1_length l : length (rotr1 l) = length l.
Proof.
  destruct l as [|x l]; [reflexivity|]. unfold rotr1.
  pose proof (app_removelast_last x00 (l := x :: l) ltac:(discriminate)) as H.
  apply (f_equal (@length byte)) in H. rewrite app_length in H. cbn [length] in *. lia.
Qed.
Lemma rotr1_rotl1 l : rotr1 (rotl1 l) = l.
Proof.
  destruct l as [|x r]; [reflexivity|]. unfold rotl1, rotr1.
  destruct (r ++ [x]) eqn:E; [apply app_eq_nil in E; destruct E; discriminate|].
  rewrite <- E, last_last, removelast_last. reflexivity.
Qed.
Lemma toy_E_len : forall k b, len16 b -> len16 (toy_E k b).
Proof.
  intros k b H. unfold len16, toy_E in *. rewrite xor_bytes_length, rotl1_length, (toy_key_len k). lia.
Qed.
Lemma toy_D_len : forall k c, len16 c -> len16 (toy_D k c).
Proof.
  intros k c H. unfold len16, toy_D in *. rewrite rotr1_length, xor_bytes_length, (toy_key_len k). lia.
Qed.
Lemma toy_DE : forall k b, len16 b -> toy_D k (toy_E k b) = b.
Proof.
  intros k b H. unfold toy_D, toy_E. rewrite xor_bytes_invol; [apply rotr1_rotl1|].
  rewrite rotl1_length, (toy_key_len k). unfold len16 in H. lia.
Qed.

(* ---- the theorems instantiated with the toy cipher: every hypothesis is discharged ------------------ *)
Example toy_cbc_roundtrip : forall key iv ws s0 s' calls chunks ns,
  cbcw_new key iv = Ok s0 -> cbcw_writes toy_E s0 ws = (s', calls) ->
  concat chunks = concat (concat (map snd calls)) ++ concat (cbcw_finish toy_E s') ->
  exists st, cbcr_new key iv chunks = Ok st /\
             cbcr_read_seq toy_D st ns = Ok (deliver (concat ws) ns).
Proof. exact (cbc_roundtrip toy_E toy_D toy_D_len toy_DE toy_E_len). Qed.

Example toy_cbcw_blocks : forall key iv ws s0 s' calls,
  cbcw_new key iv = Ok s0 -> cbcw_writes toy_E s0 ws = (s', calls) ->
  Forall len16 (concat (map snd calls) ++ cbcw_finish toy_E s').
Proof.
  intros key iv ws s0 s' calls H1 H2.
  exact (proj2 (proj2 (cbcw_spec toy_E key iv ws s0 s' calls H1 H2)) toy_E_len).
Qed.

(* a concrete run: 25 bytes written as 10 + 0 + 15, ciphertext cut into chunks of 7, 0, 20, 5 bytes
   (inside blocks), read with a 10-byte buffer (the witness of the repaired defects D2 and D4) *)
Definition ex_key : bytes := repeat x2a 32.
Definition ex_iv : bytes := repeat x07 16.
Definition ex_pt : bytes := map n2b [1;2;3;4;5;6;7;8;9;10;11;12;13;14;15;16;17;18;19;20;21;22;23;24;25].
Definition ex_writes : list bytes := [firstn 10 ex_pt; []; skipn 10 ex_pt].
Definition ex_ct : bytes :=
  match cbcw_new ex_key ex_iv with
  | Ok s0 => let (s', calls) := cbcw_writes toy_E s0 ex_writes in
             concat (concat (map snd calls)) ++ concat (cbcw_finish toy_E s')
  | _ => []
  end.
Definition ex_chunks : list bytes := [firstn 7 ex_ct; []; firstn 20 (skipn 7 ex_ct); skipn 27 ex_ct].
Example ex_premises : cbcw_new ex_key ex_iv <> Panic /\ length ex_ct = 32%nat /\ concat ex_chunks = ex_ct.
Proof. vm_compute. repeat split; discriminate. Qed.
Example ex_reads :
  match cbcr_new ex_key ex_iv ex_chunks with
  | Ok st => cbcr_read_seq toy_D st [10; 10; 10; 10] = Ok [firstn 10 ex_pt; firstn 10 (skipn 10 ex_pt); skipn 20 ex_pt; []]
  | _ => False
  end.
Proof. vm_compute. reflexivity. Qed.
(* the same through CTR *)
Example ex_ctr :
  match ctrw_new ex_key ex_iv with
  | Ok s0 => let (_, calls) := ctrw_writes toy_E s0 ex_writes in
             let ct := concat (concat (map snd calls)) in
             match ctrr_new ex_key ex_iv [firstn 7 ct; []; skipn 7 ct] with
             | Ok st => concat (ctrr_read_seq toy_E st [10; 10; 10; 10; 10]) = ex_pt
             | _ => False
             end
  | _ => False
  end.
Proof. vm_compute. reflexivity. Qed.

(* ---- corollaries in the shape C01 / C03 use ---------------------------------------------------------- *)
Section Laws.
Variables E D : bytes -> bytes -> bytes.
Hypothesis D_len : forall k c, len16 c -> len16 (D k c).
Hypothesis E_len : forall k b, len16 b -> len16 (E k b).
Hypothesis DE : forall k b, len16 b -> D k (E k b) = b.

(* C01, stream layer: whatever the caller's slicing of its writes and whatever its read buffer
   sizes (positive, reading until an empty read), CBC read-after-write returns the written bytes *)
Theorem cbc_roundtrip_until_empty : forall key iv ws s0 s' calls chunks ns,
  cbcw_new key iv = Ok s0 -> cbcw_writes E s0 ws = (s', calls) ->
  concat chunks = concat (concat (map snd calls)) ++ concat (cbcw_finish E s') ->
  Forall (fun n => 0 < n) ns ->
  exists st outs, cbcr_new key iv chunks = Ok st /\ cbcr_read_seq D st ns = Ok outs /\
    Forall2 (fun out n => len out <= n) outs ns /\
    (exists rest, concat ws = concat outs ++ rest) /\
    (In [] outs -> concat outs = concat ws).
Proof.
  intros key iv ws s0 s' calls chs ns H1 H2 H3 Hpos.
  destruct (cbc_roundtrip E D D_len DE E_len key iv ws s0 s' calls chs ns H1 H2 H3) as (st & Hn & Hr).
  exists st, (deliver (concat ws) ns). split; [exact Hn|]. split; [exact Hr|]. split; [apply deliver_lens|]. split.
  - exists (fdrop (fold_right N.add 0 ns) (concat ws)). rewrite deliver_concat. symmetry. apply ftake_fdrop.
  - apply deliver_complete. exact Hpos.
Qed.

(* C03, stream layer: two different cuts of the same CBC ciphertext, read with two different
   buffer-size sequences, decode to the same bytes *)
Theorem cbc_cut_indep : forall key iv m c1 c2 ns1 ns2,
  key_iv_ok key iv = true ->
  concat c1 = cbc_enc E key iv (pkcs7 m) -> concat c2 = concat c1 ->
  exists st1 st2, cbcr_new key iv c1 = Ok st1 /\ cbcr_new key iv c2 = Ok st2 /\
    cbcr_read_seq D st1 ns1 = Ok (deliver m ns1) /\ cbcr_read_seq D st2 ns2 = Ok (deliver m ns2).
Proof.
  intros key iv m c1 c2 ns1 ns2 Hok H1 H2. rewrite H1 in H2.
  destruct (cbcr_new_spec E D D_len DE E_len key iv m c1 Hok H1) as (st1 & A1 & B1 & C1).
  destruct (cbcr_new_spec E D D_len DE E_len key iv m c2 Hok H2) as (st2 & A2 & B2 & C2).
  exists st1, st2. repeat split; try assumption; apply (cbcr_seq_spec D D_len); assumption.
Qed.
End Laws.

(* C03, stream layer, CTR: two cuts of the same ciphertext read (until an empty read) to the same bytes *)
Theorem ctr_cut_indep : forall (E : bytes -> bytes -> bytes) key iv c1 c2 ns1 ns2 st1 st2,
  ctrr_new key iv c1 = Ok st1 -> ctrr_new key iv c2 = Ok st2 -> concat c1 = concat c2 ->
  Forall (fun n => 0 < n) ns1 -> Forall (fun n => 0 < n) ns2 ->
  In [] (ctrr_read_seq E st1 ns1) -> In [] (ctrr_read_seq E st2 ns2) ->
  concat (ctrr_read_seq E st1 ns1) = concat (ctrr_read_seq E st2 ns2).
Proof.
  intros E key iv c1 c2 ns1 ns2 st1 st2 H1 H2 Hc P1 P2 I1 I2. unfold ctrr_new in *.
  destruct (key_iv_ok key iv); [|discriminate]. inversion H1; subst. inversion H2; subst. clear H1 H2.
  destruct (ctrr_seq_spec E ns1 {| cr_key := key; cr_iv := of_be iv; cr_pos := 0; cr_src := c1 |}) as [A1 B1].
  destruct (ctrr_seq_spec E ns2 {| cr_key := key; cr_iv := of_be iv; cr_pos := 0; cr_src := c2 |}) as [A2 B2].
  cbn [cr_key cr_iv cr_pos cr_src] in *.
  apply (in_nil_map_length _ _ B1) in I1. apply (in_nil_map_length _ _ B2) in I2.
  rewrite A1, A2, (flat_reads_complete ns1 c1 P1 I1), (flat_reads_complete ns2 c2 P2 I2), Hc. reflexivity.
Qed.
