(* SinkFacts.v — a chunk's length field is 32 bits wide; every writer cuts what it is given so that the field is
   exact.  For EVERY bound cmax > 0 and writes / payloads of EVERY length (PiecesFacts, PipelineFacts §sinks):
     ChunkStreamWriter::write (Archive::write_file, SolidArchive; since fix 45407aa2)   Pipeline.chunk_sink_at
     FlattenWriter<u32::MAX>::write (EntryBuilder, SolidEntryBuilder)                   Pipeline.flat_sink_at
     into_chunks / chunks_write_in (`data_chunk.chunks(u32::MAX as usize)`)             Entry.data_chunks_at
   emit payloads of at most cmax bytes whose concatenation is what was written; a write of at most cmax bytes is one
   chunk (the empty write: one empty chunk for the stream writer, nothing for the other two), so nothing changes for
   the archives that could be written before.  With the code's bound CMAX = u32::MAX the big-endian length field of
   every emitted chunk, read back, is the payload's length (length_field_exact); with the writer of before the fix it
   is not, for every write of 2^32 bytes or more (chunk_sink_orig_length_field_wrong). *)
From PNA Require Import Base Crc32 Name Codec Chunk Archive Entry Flatten Cbc Ctr Pipeline Wf.
From PNA Require Import BaseFacts NameFacts CodecFacts Crc32Facts ChunkFacts ArchiveFacts PiecesFacts EntryFacts CbcFacts CtrFacts
  FlattenFacts StreamFacts PipelineFacts WfFacts WfWriterFacts WfAgreeFacts WfPipelineFacts.
Require Import ZArith ZifyN ZifyNat ZifyBool Lia.
Open Scope N_scope.

(* the length field of a serialised chunk, read back *)
Definition length_field (c : chunk) : N := of_be (firstn 4 (ser_chunk c)).

Lemma length_field_be32 c : firstn 4 (ser_chunk c) = be32 (len (cdata c)).
Proof.
  unfold ser_chunk. set (l := be32 (len (cdata c))). set (r := cty c ++ cdata c ++ be32 (chunk_crc c)).
  assert (L : length l = 4%nat) by apply be32_length.
  rewrite <- L. rewrite firstn_app, Nat.sub_diag, firstn_all. cbn [firstn]. apply app_nil_r.
Qed.
Theorem length_field_exact c : len (cdata c) < 2 ^ 32 -> length_field c = len (cdata c).
Proof. intros H. unfold length_field. rewrite length_field_be32. apply of_be_be32. exact H. Qed.
Theorem length_field_wrong c : 2 ^ 32 <= len (cdata c) -> length_field c <> len (cdata c).
Proof.
  intros H. unfold length_field. rewrite length_field_be32.
  pose proof (of_be_lt_len (be32 (len (cdata c))) 4 (be32_length _)) as B. change (256 ^ N.of_nat 4) with (2 ^ 32) in B. lia.
Qed.
Lemma wf_chunk_length_field c : wf_chunk c -> length_field c = len (cdata c).
Proof. intros (_ & H). apply length_field_exact. exact H. Qed.

(* ---- the three cutters, for every bound ------------------------------------------------------------------- *)
Theorem data_chunks_at_bounded cmax t d : 0 < cmax ->
  Forall (fun c => cty c = t /\ cdata c <> [] /\ len (cdata c) <= cmax) (data_chunks_at cmax t d).
Proof.
  intros K. unfold data_chunks_at. apply Forall_forall. intros c Hc. apply in_map_iff in Hc. destruct Hc as (p & <- & Hp).
  pose proof (pieces_bounded cmax d K) as B. rewrite Forall_forall in B. destruct (B p Hp). cbn [mk cty cdata]. auto.
Qed.
Theorem data_chunks_at_concat cmax t d : 0 < cmax -> concat (map cdata (data_chunks_at cmax t d)) = d.
Proof.
  intros K. unfold data_chunks_at. rewrite map_map. cbn [mk cdata]. rewrite map_id. apply pieces_concat. exact K.
Qed.
Theorem data_chunks_at_nil cmax t : data_chunks_at cmax t [] = [].
Proof. reflexivity. Qed.
Theorem data_chunks_at_small cmax t d : d <> [] -> len d <= cmax -> data_chunks_at cmax t d = [mk t d].
Proof. intros NE H. unfold data_chunks_at. rewrite pieces_small by assumption. reflexivity. Qed.

(* with the code's bound: every length field is exact, for payloads and writes of every length *)
Theorem data_chunks_length_fields t d : Forall (fun c => length_field c = len (cdata c)) (data_chunks t d).
Proof.
  eapply Forall_impl; [|exact (data_chunks_at_bounded CMAX t d CMAX_pos)]. intros c (_ & _ & H).
  apply length_field_exact. apply CMAX_lt. exact H.
Qed.
Theorem chunk_sink_length_fields t ps : Forall (fun c => length_field c = len (cdata c)) (map (mk t) (chunk_sink ps)).
Proof.
  apply Forall_forall. intros c Hc. apply in_map_iff in Hc. destruct Hc as (q & <- & Hq).
  pose proof (chunk_sink_bounded ps) as B. rewrite Forall_forall in B. apply length_field_exact. exact (B q Hq).
Qed.
Theorem flat_sink_length_fields t ps : Forall (fun c => length_field c = len (cdata c)) (map (mk t) (flat_sink ps)).
Proof.
  apply Forall_forall. intros c Hc. apply in_map_iff in Hc. destruct Hc as (q & <- & Hq).
  pose proof (flat_sink_bounded ps) as B. rewrite Forall_forall in B. apply length_field_exact. exact (proj2 (B q Hq)).
Qed.

(* the writer before 45407aa2: one chunk per write; for EVERY write of 2^32 bytes or more the chunk's length field is
   not the payload's length (it is the length modulo 2^32: the reader then takes the rest of the payload for chunks) *)
Theorem chunk_sink_orig_length_field_wrong t p : 2 ^ 32 <= len p ->
  exists c, In c (map (mk t) (chunk_sink_orig [p])) /\ length_field c <> len (cdata c).
Proof. intros H. exists (mk t p). split; [left; reflexivity|]. apply length_field_wrong. exact H. Qed.
(* ... while the repaired writer, on the same write, emits chunks with exact length fields that carry the write *)
Theorem chunk_sink_repaired t p :
  Forall (fun c => length_field c = len (cdata c)) (map (mk t) (chunk_sink [p])) /\
  concat (chunk_sink [p]) = p /\ chunk_sink [p] <> [].
Proof.
  split; [apply chunk_sink_length_fields|]. split; [rewrite chunk_sink_concat; cbn [concat]; apply app_nil_r|].
  intro Z. pose proof (chunk_sink_at_length CMAX [p] CMAX_pos) as L. unfold chunk_sink in Z. rewrite Z in L. cbn in L. lia.
Qed.

(* ---- whole entries: every chunk the streaming writers emit declares its payload's length exactly --------------- *)
Section Writers.
Variable E : encryption -> bytes -> bytes -> bytes.
Variable compress : compression -> N -> list bytes -> list bytes.
Hypothesis E_len : forall a k b, len16 b -> len16 (E a k b).

Lemma accepted_length_fields cs x : accepted_as cs x -> Forall (fun c => length_field c = len (cdata c)) cs.
Proof. intros (B & _). eapply Forall_impl; [|exact B]. intros c ((W & _) & _). apply wf_chunk_length_field. exact W. Qed.

Theorem stream_file_length_fields cfg ctx sp wcuts : writable_spec sp -> strict_ctx ctx ->
  Forall (fun c => length_field c = len (cdata c)) (stream_file_chunks E compress cfg ctx sp wcuts).
Proof. intros WS SC. exact (accepted_length_fields _ _ (stream_file_accepted E compress E_len cfg ctx sp wcuts WS SC)). Qed.
Theorem solid_archive_length_fields cfg ctx swcuts : strict_ctx ctx -> plain_inner cfg swcuts ->
  Forall (fun c => length_field c = len (cdata c)) (solid_archive_chunks E compress cfg ctx swcuts).
Proof. intros SC PI. exact (accepted_length_fields _ _ (solid_archive_accepted E compress E_len cfg ctx swcuts SC PI)). Qed.
Theorem job_length_fields j : job_ok j -> Forall (fun c => length_field c = len (cdata c)) (job_chunks E compress j).
Proof. intros J. exact (accepted_length_fields _ _ (job_accepted E compress E_len j J)). Qed.
End Writers.

Lemma job_ok_unfolded j : job_ok j <->
  match j with
  | JBuild cfg ctx sp wcuts => writable_spec sp /\ strict_ctx ctx /\ len (concat wcuts) < 2 ^ 128
  | JStream cfg ctx sp wcuts => writable_spec sp /\ strict_ctx ctx
  | JSolid cfg ctx extra swcuts => strict_ctx ctx /\ Forall sextra_ok extra /\ plain_inner cfg swcuts
  | JSolidStream cfg ctx swcuts => strict_ctx ctx /\ plain_inner cfg swcuts
  end.
Proof. destruct j; apply iff_refl. Qed.

(* what `fits` asks of an entry: nothing about its data payloads *)
Lemma fits_unfolded e : fits e <->
  6 + len (f_name (n_hdr e)) < 2 ^ 32 /\ opt_all (fun s => len s < 2 ^ 32) (n_phsf e) /\
  Forall wf_chunk (n_extra e) /\ Forall (fun c => is_term c = false) (n_extra e) /\
  Forall (fun x => 8 + len (x_name x) + len (x_value x) < 2 ^ 32) (n_xattrs e).
Proof. apply iff_refl. Qed.
(* the normal form of re-serialisation: payloads cut at u32::MAX; for payloads below 2^32 bytes only the empty ones go *)
Lemma normalize_data e : n_data (normalize e) = cutN CMAX (n_data e).
Proof. reflexivity. Qed.
Lemma normalize_data_small e : Forall (fun d => len d < 2 ^ 32) (n_data e) -> n_data (normalize e) = filter nonempty (n_data e).
Proof. intros H. rewrite (normalize_small e H). reflexivity. Qed.
