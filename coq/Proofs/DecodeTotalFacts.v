(* DecodeTotalFacts.v — C07 for the decode pipeline (entry/read.rs decrypt_reader + decompress_reader over a
   FlattenReader; cipher/block/read.rs; cipher/stream/read.rs; entry.rs NormalEntry::reader, SolidEntry::entries):
   whatever the data chunks, the PHSF, the password, the cipher functions and the sequence of read-buffer sizes,
   the reader pipeline of Model/Pipeline.v never returns Panic, provided the two external primitives (key
   derivation, decompressor) do not; and the entry iterator over a decoded solid stream never runs out of fuel.
   No law about the cipher is needed: D and E are arbitrary functions here (hostile data under any key). *)
From PNA Require Import Base Crc32 Name Codec Chunk Archive Entry Flatten Cbc Ctr Pipeline ChunkFacts EntryFacts.
Require Import List NArith Arith Lia Bool.
Import ListNotations.
Open Scope N_scope.

Lemma pkcs7_unpad_block_np blk : pkcs7_unpad_block blk <> Panic.
Proof.
  unfold pkcs7_unpad_block.
  destruct (N.eqb _ 0 || N.ltb 16 _); [discriminate|].
  destruct (forallb _ _); discriminate.
Qed.

Section Total.
Variable D : bytes -> bytes -> bytes.

Lemma cbcr_loop_np : forall fuel st want, cbcr_loop D fuel st want <> Panic.
Proof.
  induction fuel as [|f IH]; intros st want; cbn [cbcr_loop]; [discriminate|].
  destruct (read_block (r_src st)) as [src' nx].
  destruct (negb (N.eqb (len nx) 0) && negb (N.eqb (len nx) 16)); [discriminate|].
  destruct (N.eqb (len nx) 0) eqn:Heof.
  - pose proof (pkcs7_unpad_block_np (xor_bytes (D (r_key st) (r_look st)) (r_prev st))) as Hp.
    destruct (pkcs7_unpad_block _) as [blk|e|]; cbn [bind]; [|discriminate|contradiction].
    cbn [orb]. discriminate.
  - cbn [bind orb].
    match goal with |- (if ?c then _ else _) <> _ => destruct c end; [discriminate|].
    match goal with |- context [cbcr_loop D f ?s ?w] => pose proof (IH s w) as Hr; destruct (cbcr_loop D f s w) as [[st2 more]|e|] end;
      cbn [bind]; [discriminate|discriminate|contradiction].
Qed.

Lemma cbcr_read_np st n : cbcr_read D st n <> Panic.
Proof.
  unfold cbcr_read. destruct (N.eqb n 0); [discriminate|].
  destruct (N.leb n _); [discriminate|]. destruct (r_eof st); [discriminate|].
  match goal with |- context [cbcr_loop D ?f ?s ?w] => pose proof (cbcr_loop_np f s w) as Hr; destruct (cbcr_loop D f s w) as [[st1 more]|e|] end;
    cbn [bind]; [discriminate|discriminate|contradiction].
Qed.

Lemma cbcr_reads_np : forall ns st, cbcr_reads D st ns <> Panic.
Proof.
  induction ns as [|n r IH]; intros st; cbn [cbcr_reads]; [discriminate|].
  pose proof (cbcr_read_np st n) as Hr. destruct (cbcr_read D st n) as [[st' out]|e|]; cbn [bind]; [|discriminate|contradiction].
  pose proof (IH st') as Hi. destruct (cbcr_reads D st' r); cbn [bind]; [discriminate|discriminate|contradiction].
Qed.
End Total.

Lemma cbcr_new_np key iv src : cbcr_new key iv src <> Panic.
Proof.
  unfold cbcr_new. destruct (read_block src) as [s1 blk].
  destruct (negb (N.eqb (len blk) 16)); [discriminate|]. destruct (negb (key_iv_ok key iv)); discriminate.
Qed.
Lemma ctrr_new_np key iv src : ctrr_new key iv src <> Panic.
Proof. unfold ctrr_new. destruct (key_iv_ok key iv); discriminate. Qed.

Section Pipe.
Variables E D : encryption -> bytes -> bytes -> bytes.
Variable decompress : compression -> bytes -> res bytes.
Variable verify : bytes -> bytes -> res bytes.
Hypothesis verify_np : forall s pw, verify s pw <> Panic.
Hypothesis decompress_np : forall c bs, decompress c bs <> Panic.

(* decrypt_reader + decompress_reader: any chunk data, any PHSF, any password, any buffer sizes *)
Theorem decode_stream_no_panic comp enc mode phsf pw data rbufs :
  decode_stream E D decompress verify comp enc mode phsf pw data rbufs <> Panic.
Proof.
  unfold decode_stream.
  assert (Hfin : forall got : bytes, match comp with CNo => Ok got | c => decompress c got end <> Panic).
  { intros got. destruct comp; try discriminate; apply decompress_np. }
  match goal with |- bind ?g _ <> _ => assert (Hg : g <> Panic); [|destruct g as [got|e|]; cbn [bind]; [apply Hfin|discriminate|contradiction]] end.
  destruct enc; [discriminate| |];
    (destruct phsf as [s|]; [|discriminate];
     pose proof (verify_np s pw) as Hv; destruct (verify s pw) as [key|e|]; cbn [bind]; [|discriminate|contradiction];
     destruct (read_block data) as [src iv]; destruct (negb (N.eqb (len iv) 16)); [discriminate|];
     destruct mode;
     [ pose proof (cbcr_new_np key iv src) as Hn; destruct (cbcr_new key iv src) as [st|e|]; cbn [bind]; [|discriminate|contradiction];
       match goal with |- context [cbcr_reads ?d st rbufs] => pose proof (cbcr_reads_np d rbufs st) as Hr; destruct (cbcr_reads d st rbufs) end;
       cbn [bind]; [discriminate|discriminate|contradiction]
     | pose proof (ctrr_new_np key iv src) as Hn; destruct (ctrr_new key iv src) as [st|e|]; cbn [bind]; [discriminate|discriminate|contradiction] ]).
Qed.

(* NormalEntry::reader read to any extent *)
Theorem decode_normal_no_panic e pw rbufs : decode_normal E D decompress verify e pw rbufs <> Panic.
Proof. apply decode_stream_no_panic. Qed.

(* SolidEntry::entries: the decode and the iterator over the decoded stream (fuel S (length st) suffices:
   the iterator terminates on every decoded stream, well-formed or not) *)
Theorem decode_solid_no_panic e pw rbufs :
  decode_solid E D decompress verify e pw rbufs <> Panic /\
  forall es f, decode_solid E D decompress verify e pw rbufs = Ok (es, f) -> f <> FinPanic.
Proof.
  unfold decode_solid.
  pose proof (decode_stream_no_panic (s_comp (so_hdr e)) (s_enc (so_hdr e)) (s_mode (so_hdr e)) (so_phsf e) pw (so_data e) rbufs) as Hd.
  destruct (decode_stream _ _ _ _ _ _ _ _ _ _ _) as [st|k|]; cbn [bind]; [|split; [discriminate|intros; discriminate]|contradiction].
  pose proof (inner_entries_loop_np (S (length st)) st (Nat.lt_succ_diag_r (length st))) as Hl.
  remember (inner_entries_loop (S (length st)) st) as r eqn:Hr. clear Hr.
  split; [discriminate|]. intros es f H. injection H as H1. subst r. exact Hl.
Qed.

(* SolidEntry::entries ends without error only if the decoded stream is, byte for byte, a sequence of well-formed
   chunks with matching CRCs (C12 / C16: what a wrong key makes of a stored CTR stream is read as a clean list of
   entries only if the garbage is such a sequence; otherwise the iterator reports an error — fix 66ed01cc) *)
Theorem decode_solid_ok_shape e pw rbufs es :
  decode_solid E D decompress verify e pw rbufs = Ok (es, FinOk) ->
  exists st cs, decode_stream E D decompress verify (s_comp (so_hdr e)) (s_enc (so_hdr e)) (s_mode (so_hdr e)) (so_phsf e) pw (so_data e) rbufs = Ok st
                /\ st = ser_chunks cs /\ Forall ChunkFacts.wf_chunk cs.
Proof.
  unfold decode_solid.
  destruct (decode_stream _ _ _ _ _ _ _ _ _ _ _) as [st|k|]; cbn [bind]; [|discriminate|discriminate].
  remember (inner_entries_loop (S (length st)) st) as r eqn:Hr.
  intros H. injection H as H. rewrite H in Hr. symmetry in Hr. apply inner_loop_ok_shape in Hr. destruct Hr as (cs & Hs & Hf).
  exists st, cs. repeat split; assumption.
Qed.
End Pipe.

(* the stand-ins the model is run with satisfy the two premises *)
Lemma toy_verify_np s pw : toy_verify s pw <> Panic.
Proof. unfold toy_verify. destruct (bytes_eqb _ _); discriminate. Qed.
Lemma id_decompress_np c bs : id_decompress c bs <> Panic.
Proof. discriminate. Qed.
