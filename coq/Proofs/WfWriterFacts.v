(* WfWriterFacts.v — C14 writer_wf at the entry/archive layer, in general:
   every list of `writable` entries, serialised by the chunk-level writer model
   (Archive.write_raw_archive of Entry.ser_entry), is accepted by the strict recogniser of Wf.v and
   strictly decoded to the entries themselves (up to the dropped empty FDAT payloads, exactly as
   EntryFacts.parse_ser_* relate them).  `writable` lists what the strict recogniser genuinely
   needs; it is satisfiable (examples at the end) and the conditions are not vacuous (negative
   examples). *)
From PNA Require Import Base Crc32 Name Codec Chunk Archive Entry Wf.
From PNA Require Import BaseFacts NameFacts CodecFacts Crc32Facts ChunkFacts ArchiveFacts PiecesFacts EntryFacts WfFacts.
Require Import ZArith ZifyN ZifyNat ZifyBool.
Open Scope N_scope.

(* ================================================================================================= *)
(* 1. phase 1 of the recogniser on serialised chunks                                                  *)
(* ================================================================================================= *)
Definition strict_chunk (c : chunk) : Prop := wf_chunk c /\ valid_type (cty c) = true.

Lemma ser_chunk_not_nil c rest : ser_chunk c ++ rest <> [].
Proof.
  intro E. apply (f_equal (@length byte)) in E. rewrite app_length in E.
  pose proof (ser_chunk_length_ge c). cbn [length] in E. lia.
Qed.

Lemma read_strict_ser c rest : strict_chunk c -> read_strict_chunk (ser_chunk c ++ rest) = SOk (c, rest).
Proof.
  intros (W & V). unfold read_strict_chunk.
  destruct (ser_chunk c ++ rest) as [|b l] eqn:E; [exfalso; exact (ser_chunk_not_nil _ _ E)|].
  rewrite <- E, (read_chunk_ser _ W), V. reflexivity.
Qed.

Lemma read_strict_inv bs c r : read_strict_chunk bs = SOk (c, r) -> strict_chunk c /\ bs = ser_chunk c ++ r.
Proof.
  unfold read_strict_chunk. destruct bs as [|b l]; [discriminate|].
  destruct (read_chunk_stream (b :: l)) as [[c' r']|e|] eqn:R; [|destruct e; discriminate|discriminate].
  destruct (valid_type (cty c')) eqn:V; [|discriminate].
  intro H; inversion H; subst. destruct (read_chunk_ok_inv _ _ _ R) as (W & E).
  split; [split; assumption|exact E].
Qed.

(* a chunk of an archive body: strictly readable and none of the archive-level markers *)
Definition body_chunk (c : chunk) : Prop :=
  strict_chunk c /\ ty_is c AEND = false /\ ty_is c AHED = false /\ ty_is c ANXT = false.

Lemma wf_chunk_lit t d : length t = 4%nat -> len d < 2 ^ 32 -> wf_chunk (mk t d).
Proof. intros; split; assumption. Qed.

Lemma strict_chunk_aend : strict_chunk (mk AEND []).
Proof. split; [exact wf_chunk_aend|reflexivity]. Qed.
Lemma strict_chunk_anxt : strict_chunk (mk ANXT []).
Proof. split; [apply wf_chunk_lit; [reflexivity|cbn; lia]|reflexivity]. Qed.
Lemma strict_chunk_hdr num : strict_chunk (hdr_chunk num).
Proof. split; [apply wf_chunk_hdr|reflexivity]. Qed.

Lemma part_chunks_loop_ser : forall cs f tail,
  Forall strict_chunk cs -> Forall (fun c => ty_is c AEND = false) cs ->
  part_chunks_loop (length cs + f) (ser_chunks cs ++ tail) = sdo r <- part_chunks_loop f tail; SOk (cs ++ r).
Proof.
  induction cs as [|c cs IH]; intros f tail HS A.
  - cbn [ser_chunks map concat app length Nat.add]. destruct (part_chunks_loop f tail); reflexivity.
  - cbn [length Nat.add]. rewrite ser_chunks_cons, <- app_assoc. cbn [part_chunks_loop].
    inversion HS; subst. inversion A; subst.
    rewrite read_strict_ser by assumption. cbn [sbind]. rewrite H3.
    rewrite IH by assumption. destruct (part_chunks_loop f tail); reflexivity.
Qed.

Lemma part_chunks_loop_end fuel : part_chunks_loop (S fuel) finalize = SOk [mk AEND []].
Proof.
  cbn [part_chunks_loop]. rewrite finalize_eq, (read_strict_ser _ _ strict_chunk_aend). reflexivity.
Qed.

Lemma length_ser_chunks_ge cs : (length cs <= length (ser_chunks cs))%nat.
Proof.
  induction cs as [|c cs IH]; [cbn; lia|]. rewrite ser_chunks_cons, app_length. cbn [length].
  pose proof (ser_chunk_length_ge c). lia.
Qed.

(* the chunks of a part file: signature, then strict chunks up to AEND *)
Lemma part_chunks_ser cs :
  Forall strict_chunk cs -> Forall (fun c => ty_is c AEND = false) cs ->
  part_chunks (sig ++ ser_chunks cs ++ finalize) = SOk (cs ++ [mk AEND []]).
Proof.
  intros HS A. unfold part_chunks. rewrite (take_app 8 sig) by reflexivity.
  change (bytes_eqb sig sig) with true. cbv iota.
  pose proof (length_ser_chunks_ge cs) as L.
  replace (S (length (ser_chunks cs ++ finalize))) with (length cs + S (length (ser_chunks cs ++ finalize) - length cs))%nat
    by (rewrite app_length; lia).
  rewrite part_chunks_loop_ser by assumption. rewrite part_chunks_loop_end. reflexivity.
Qed.

(* ================================================================================================= *)
(* 2. AHED and the body scan                                                                          *)
(* ================================================================================================= *)
Lemma ahed_ok_hdr num : ahed_ok (hdr_chunk num) = true.
Proof. reflexivity. Qed.

Lemma hdr_number num : num < 2 ^ 32 -> of_be (skipn 4 (cdata (hdr_chunk num))) = num.
Proof. intro H. cbn [hdr_chunk mk cdata ahed_to_bytes a_number app skipn]. apply of_be_be32. exact H. Qed.

Lemma body_scan_last b : Forall (fun c => ty_is c AHED = false /\ ty_is c ANXT = false) b ->
  body_scan (b ++ [mk AEND []]) = SOk (b, false).
Proof.
  induction 1 as [|c b (H1 & H2) _ IH]; [reflexivity|].
  cbn [app body_scan]. destruct (b ++ [mk AEND []]) as [|e r] eqn:E; [destruct b; discriminate|].
  rewrite H1, H2, IH. reflexivity.
Qed.

Lemma body_scan_next b : Forall (fun c => ty_is c AHED = false /\ ty_is c ANXT = false) b ->
  body_scan (b ++ [mk ANXT []; mk AEND []]) = SOk (b, true).
Proof.
  induction 1 as [|c b (H1 & H2) _ IH]; [reflexivity|].
  cbn [app body_scan]. destruct (b ++ [mk ANXT []; mk AEND []]) as [|e r] eqn:E; [destruct b; discriminate|].
  rewrite H1, H2, IH. reflexivity.
Qed.

(* ================================================================================================= *)
(* 3. the entry state machine on one delimited entry                                                  *)
(* ================================================================================================= *)
Definition closer (h : chunk) : bytes := if ty_is h FHED then FEND else SEND.

Section GrammarFacts.
Variable so : bool.
Variable ent : chunk -> list chunk -> chunk -> sres read_entry.

Lemma entries_sm_open body : forall h acc e rest,
  Forall (fun c => ty_is c (closer h) = false) body -> ty_is e (closer h) = true ->
  entries_sm so ent (body ++ e :: rest) (Some (h, acc)) =
  sdo x <- ent h (rev acc ++ body) e; sdo es <- entries_sm so ent rest None; SOk (x :: es).
Proof.
  induction body as [|c body IH]; intros h acc e rest F E; cbn [app entries_sm]; unfold closer in *.
  - rewrite E, app_nil_r. reflexivity.
  - inversion F; subst. rewrite H1. rewrite IH by assumption. cbn [rev]. rewrite <- app_assoc. reflexivity.
Qed.

Lemma entries_sm_entry h body e rest :
  ty_is h FHED || (so && ty_is h SHED) = true ->
  Forall (fun c => ty_is c (closer h) = false) body -> ty_is e (closer h) = true ->
  entries_sm so ent (h :: body ++ e :: rest) None =
  sdo x <- ent h body e; sdo es <- entries_sm so ent rest None; SOk (x :: es).
Proof. intros O F E. cbn [entries_sm]. rewrite O. rewrite entries_sm_open by assumption. reflexivity. Qed.
End GrammarFacts.

(* ================================================================================================= *)
(* 4. the strict loop over the segments of ser_normal                                                 *)
(* ================================================================================================= *)
Lemma strict_loop_app enc a : forall b acc,
  strict_loop enc (a ++ b) acc = sdo acc' <- strict_loop enc a acc; strict_loop enc b acc'.
Proof.
  induction a as [|c a IH]; intros b acc; [reflexivity|]. cbn [app strict_loop].
  destruct (strict_step enc c acc); cbn [sbind]; [apply IH|reflexivity].
Qed.

Lemma noncritical_not t c : ty_is_critical t = true -> ty_is_critical (cty c) = false -> ty_is c t = false.
Proof. intros T C. destruct (ty_is c t) eqn:E; [|reflexivity]. apply ty_is_eq in E. congruence. Qed.

(* an unknown chunk the writer may carry inside a file entry *)
Definition extra_ok (c : chunk) : Prop :=
  strict_chunk c /\ ty_is_critical (cty c) = false /\ is_known c = false.
(* the same inside a solid entry *)
Definition sextra_ok (c : chunk) : Prop := strict_chunk c /\ ty_is_critical (cty c) = false.

Definition phsf_ok (enc : encryption) (p : option bytes) : Prop :=
  match p with
  | Some s => encrypted enc = true /\ phsf_shape s = true /\ len s < 2 ^ 32
  | None => encrypted enc = false
  end.

Section StrictSegments.
Variable enc : encryption.

Lemma sl_extra ex : Forall extra_ok ex -> forall a, strict_loop enc ex a = SOk (upd_extra ex a).
Proof.
  induction 1 as [|c ex (_ & C & K) _ IH]; intros a; [rewrite upd_extra_nil; reflexivity|].
  cbn [strict_loop]. unfold strict_step at 1.
  destruct (is_known_false c K) as (-> & -> & -> & -> & -> & -> & -> & -> & -> & ->). rewrite C.
  cbn [sbind]. rewrite IH. f_equal. unfold upd_extra. cbn [k_info k_phsf k_extra k_data k_csize k_size k_c k_m k_a k_perm k_x].
  rewrite <- app_assoc. reflexivity.
Qed.

Lemma fsiz_strict n : n < 2 ^ 128 ->
  Nat.leb (length (fsiz_to_bytes n)) 16 = true /\
  match fsiz_to_bytes n with b :: _ => N.eqb (b2n b) 0 | [] => false end = false /\
  of_be (fsiz_to_bytes n) = n.
Proof.
  intro H. destruct (fsiz_minimal_to n) as (L & Z). split; [apply Nat.leb_le; exact L|]. split.
  - destruct (fsiz_to_bytes n) as [|b l]; [reflexivity|]. cbn in Z. apply N.eqb_neq. exact Z.
  - pose proof (fsiz_inv n H) as I. unfold fsiz_of_bytes in I. rewrite lastn_all in I by exact L. exact I.
Qed.

Lemma sl_size o a : opt_all (fun n => n < 2 ^ 128) o -> k_size a = None ->
  strict_loop enc (opt_chunk fSIZ fsiz_to_bytes o) a = SOk (opt_upd upd_size o a).
Proof.
  destruct o as [n|]; cbn [opt_all opt_chunk opt_upd]; [|reflexivity]. intros H K.
  cbn [strict_loop]. unfold strict_step. tysimp. cbv zeta. cbn [cdata mk]. rewrite K.
  destruct (fsiz_strict n H) as (-> & -> & ->). reflexivity.
Qed.

Lemma sl_phsf o a : phsf_ok enc o -> k_phsf a = None -> k_data a = [] ->
  strict_loop enc (opt_chunk PHSF (fun s => s) o) a = SOk (opt_upd upd_phsf o a).
Proof.
  destruct o as [s|]; cbn [phsf_ok opt_chunk opt_upd]; [|reflexivity]. intros (E & P & _) K D.
  cbn [strict_loop]. unfold strict_step. tysimp. cbv zeta. cbn [cdata mk]. unfold phsf_step.
  assert (negb (is_nil (k_data a)) = false) as -> by (rewrite D; reflexivity).
  rewrite E, K, P. reflexivity.
Qed.

Lemma sl_fdat_list ds : forall a, (encrypted enc = true -> is_some (k_phsf a) = true) ->
  strict_loop enc (map (mk FDAT) ds) a = SOk (upd_data ds a).
Proof.
  induction ds as [|d ds IH]; intros a P; [rewrite upd_data_nil; reflexivity|].
  cbn [map]. cbn [strict_loop]. unfold strict_step at 1. tysimp. cbv zeta. cbn [cdata mk].
  assert (encrypted enc && negb (is_some (k_phsf a)) = false) as ->.
  { destruct (encrypted enc); [rewrite P by reflexivity|]; reflexivity. }
  cbn [sbind]. rewrite IH by exact P. f_equal.
  unfold upd_data. cbn [k_info k_phsf k_extra k_data k_csize k_size k_c k_m k_a k_perm k_x].
  rewrite <- app_assoc, sum_len_cons, N.add_assoc. reflexivity.
Qed.
Lemma sl_data ds : forall a, (encrypted enc = true -> is_some (k_phsf a) = true) ->
  strict_loop enc (concat (map (data_chunks FDAT) ds)) a = SOk (upd_data (cut_data ds) a).
Proof. intros a P. rewrite data_chunks_cut. apply sl_fdat_list. exact P. Qed.

Lemma time_strict t : t < 2 ^ 64 -> Nat.eqb (length (time_to_bytes t)) 8 = true /\ of_be (time_to_bytes t) = t.
Proof.
  intro H. unfold time_to_bytes, be64. rewrite be_length. split; [reflexivity|].
  apply of_be_be. exact H.
Qed.

Lemma sl_ctime o a : opt_all (fun t => t < 2 ^ 64) o -> k_c a = None ->
  strict_loop enc (opt_chunk cTIM time_to_bytes o) a = SOk (opt_upd upd_c o a).
Proof.
  destruct o as [t|]; cbn [opt_all opt_chunk opt_upd]; [|reflexivity]. intros H K.
  cbn [strict_loop]. unfold strict_step. tysimp. cbv zeta. cbn [cdata mk]. rewrite K.
  destruct (time_strict t H) as (-> & ->). reflexivity.
Qed.
Lemma sl_mtime o a : opt_all (fun t => t < 2 ^ 64) o -> k_m a = None ->
  strict_loop enc (opt_chunk mTIM time_to_bytes o) a = SOk (opt_upd upd_m o a).
Proof.
  destruct o as [t|]; cbn [opt_all opt_chunk opt_upd]; [|reflexivity]. intros H K.
  cbn [strict_loop]. unfold strict_step. tysimp. cbv zeta. cbn [cdata mk]. rewrite K.
  destruct (time_strict t H) as (-> & ->). reflexivity.
Qed.
Lemma sl_atime o a : opt_all (fun t => t < 2 ^ 64) o -> k_a a = None ->
  strict_loop enc (opt_chunk aTIM time_to_bytes o) a = SOk (opt_upd upd_a o a).
Proof.
  destruct o as [t|]; cbn [opt_all opt_chunk opt_upd]; [|reflexivity]. intros H K.
  cbn [strict_loop]. unfold strict_step. tysimp. cbv zeta. cbn [cdata mk]. rewrite K.
  destruct (time_strict t H) as (-> & ->). reflexivity.
Qed.

Lemma bytes_eqb_refl' a : bytes_eqb a a = true.
Proof. apply bytes_eqb_eq. reflexivity. Qed.

Lemma sl_perm o a : opt_all wf_perm o -> k_perm a = None ->
  strict_loop enc (opt_chunk fPRM perm_to_bytes o) a = SOk (opt_upd upd_perm o a).
Proof.
  destruct o as [p|]; cbn [opt_all opt_chunk opt_upd]; [|reflexivity]. intros H K.
  cbn [strict_loop]. unfold strict_step. tysimp. cbv zeta. cbn [cdata mk]. rewrite K.
  rewrite perm_inv by exact H. rewrite bytes_eqb_refl'. reflexivity.
Qed.

Lemma sl_xattrs xs : Forall wf_xattr xs -> forall a,
  strict_loop enc (map (fun x => mk xATR (xattr_to_bytes x)) xs) a = SOk (upd_x xs a).
Proof.
  induction 1 as [|x xs Hx _ IH]; intros a; [rewrite upd_x_nil; reflexivity|].
  cbn [map strict_loop]. unfold strict_step at 1. tysimp. cbv zeta. cbn [cdata mk].
  rewrite xattr_inv by exact Hx. rewrite bytes_eqb_refl'. cbn [sbind].
  rewrite IH. f_equal. unfold upd_x. cbn [k_info k_phsf k_extra k_data k_csize k_size k_c k_m k_a k_perm k_x].
  rewrite <- app_assoc. reflexivity.
Qed.
End StrictSegments.

(* ================================================================================================= *)
(* 5. writable file entries                                                                           *)
(* ================================================================================================= *)
(* what the strict recogniser needs of a file entry handed to the chunk-level writer *)
Definition writable_normal (e : normal_entry) : Prop :=
  let h := n_hdr e in let m := n_meta e in
  f_major h = 0 /\ f_minor h = 0 /\ valid_name (f_name h) = true /\ 6 + len (f_name h) < 2 ^ 32 /\
  phsf_ok (f_enc h) (n_phsf e) /\
  Forall extra_ok (n_extra e) /\
  m_compressed m = sum_len (n_data e) /\
  data_len_ok (f_enc h) (f_mode h) (sum_len (n_data e)) = true /\
  opt_all (fun n => n < 2 ^ 128) (m_raw_size m) /\
  opt_all (fun t => t < 2 ^ 64) (m_ctime m) /\ opt_all (fun t => t < 2 ^ 64) (m_mtime m) /\
  opt_all (fun t => t < 2 ^ 64) (m_atime m) /\
  opt_all wf_perm (m_perm m) /\
  Forall (fun x => wf_xattr x /\ 8 + len (x_name x) + len (x_value x) < 2 ^ 32) (n_xattrs e).

Definition normal_body (e : normal_entry) : list chunk :=
  let m := n_meta e in
  n_extra e
  ++ opt_chunk fSIZ fsiz_to_bytes (m_raw_size m)
  ++ opt_chunk PHSF (fun s => s) (n_phsf e)
  ++ concat (map (data_chunks FDAT) (n_data e))
  ++ opt_chunk cTIM time_to_bytes (m_ctime m)
  ++ opt_chunk mTIM time_to_bytes (m_mtime m)
  ++ opt_chunk aTIM time_to_bytes (m_atime m)
  ++ opt_chunk fPRM perm_to_bytes (m_perm m)
  ++ map (fun x => mk xATR (xattr_to_bytes x)) (n_xattrs e).

Lemma ser_normal_body e :
  ser_normal e = mk FHED (fhed_to_bytes (n_hdr e)) :: normal_body e ++ [mk FEND []].
Proof. unfold ser_normal, normal_body. cbv zeta. cbn [app]. rewrite <- !app_assoc. reflexivity. Qed.

Lemma strict_fhed_ser h : f_major h = 0 -> f_minor h = 0 -> valid_name (f_name h) = true ->
  strict_fhed (fhed_to_bytes h) = SOk h.
Proof.
  intros MJ MN V. destruct h as [mj mn k c e m n]. cbn [f_major f_minor f_name] in *. subst mj mn.
  unfold strict_fhed, fhed_to_bytes. cbn [f_minor f_kind f_comp f_enc f_mode f_name app].
  rewrite !b2n_n2b_small by (first [apply kind_lt|apply comp_lt|apply enc_lt|apply mode_lt|lia]).
  change (0 =? 0) with true. cbn [andb]. rewrite kind_inv, comp_inv, enc_inv, mode_inv, V. reflexivity.
Qed.

Lemma strict_normal_ser e : writable_normal e ->
  strict_normal (mk FHED (fhed_to_bytes (n_hdr e))) (normal_body e) (mk FEND []) = SOk (normalize e).
Proof.
  intros (H1 & H2 & H3 & _ & H4 & H5 & H6 & H7 & H8 & H9 & H10 & H11 & H12 & H13).
  assert (Forall wf_xattr (n_xattrs e)) as HX.
  { apply Forall_forall. intros x Hx. rewrite Forall_forall in H13. exact (proj1 (H13 x Hx)). }
  clear H13.
  destruct e as [h ph ex ds [sz cz tc tm ta pm] xs].
  cbn [n_hdr n_phsf n_extra n_data n_meta n_xattrs m_raw_size m_compressed m_ctime m_mtime m_atime m_perm] in *.
  unfold strict_normal, normal_body. cbn [cdata mk]. rewrite strict_fhed_ser by assumption. cbn [sbind].
  cbn [n_hdr n_phsf n_extra n_data n_meta n_xattrs m_raw_size m_compressed m_ctime m_mtime m_atime m_perm].
  cbv zeta.
  destruct sz, ph, tc, tm, ta, pm; cbn [opt_all phsf_ok] in *;
  repeat (rewrite strict_loop_app;
    first [ rewrite sl_extra by assumption
          | rewrite sl_size by (cbn [opt_all]; first [assumption|reflexivity|exact I])
          | rewrite sl_phsf by (cbn [phsf_ok]; first [assumption|reflexivity])
          | rewrite sl_data by
             (cbn [opt_upd upd_info upd_phsf upd_extra upd_data upd_size upd_c upd_m upd_a upd_perm upd_x
                   k_info k_phsf k_extra k_data k_csize k_size k_c k_m k_a k_perm k_x is_some];
              first [reflexivity | intro; congruence])
          | rewrite sl_ctime by (cbn [opt_all]; first [assumption|reflexivity|exact I])
          | rewrite sl_mtime by (cbn [opt_all]; first [assumption|reflexivity|exact I])
          | rewrite sl_atime by (cbn [opt_all]; first [assumption|reflexivity|exact I])
          | rewrite sl_perm by (cbn [opt_all]; first [assumption|reflexivity|exact I]) ];
    cbn [sbind]);
  rewrite sl_xattrs by assumption; cbn [sbind];
  cbn [opt_upd upd_info upd_phsf upd_extra upd_data upd_size upd_c upd_m upd_a upd_perm upd_x
       k_info k_phsf k_extra k_data k_csize k_size k_c k_m k_a k_perm k_x app is_some is_nil negb];
  rewrite N.add_0_l, sum_len_cut_data, H7;
  try (destruct H4 as (-> & _ & _)); try rewrite H4; cbn [andb negb];
  unfold normalize; cbn [n_hdr n_phsf n_extra n_data n_meta n_xattrs]; rewrite H6; reflexivity.
Qed.

(* ---- the chunks of a written file entry are strict body chunks, the body has no FEND/SEND ---------- *)
Definition entry_chunk (c : chunk) : Prop := body_chunk c /\ ty_is c FEND = false /\ ty_is c SEND = false.

Lemma lit_entry_chunk t d : length t = 4%nat -> valid_type t = true ->
  bytes_eqb t AEND = false -> bytes_eqb t AHED = false -> bytes_eqb t ANXT = false ->
  bytes_eqb t FEND = false -> bytes_eqb t SEND = false ->
  len d < 2 ^ 32 -> entry_chunk (mk t d).
Proof. intros L V A1 A2 A3 A4 A5 D. repeat split; assumption. Qed.

Lemma extra_entry_chunk c : sextra_ok c -> entry_chunk c.
Proof.
  intros (S & C). unfold entry_chunk, body_chunk.
  rewrite !(noncritical_not _ c) by (try exact C; reflexivity). repeat split; try reflexivity; apply S.
Qed.

Lemma Forall_opt_chunk {A} (P : chunk -> Prop) t (f : A -> bytes) o :
  opt_all (fun v => P (mk t (f v))) o -> Forall P (opt_chunk t f o).
Proof. destruct o; cbn [opt_all opt_chunk]; intro H; [constructor; [exact H|constructor]|constructor]. Qed.

Lemma opt_all_impl {A} (P Q : A -> Prop) o : (forall v, P v -> Q v) -> opt_all P o -> opt_all Q o.
Proof. destruct o; cbn [opt_all]; auto. Qed.

Lemma len_be w n : len (be w n) = N.of_nat w.
Proof. unfold len. rewrite be_length. reflexivity. Qed.

Lemma perm_bytes_len p : wf_perm p -> len (perm_to_bytes p) < 2 ^ 32.
Proof.
  intros (_ & _ & _ & U & G & _). unfold perm_to_bytes, be64, be16. rewrite !len_app, !len_be.
  change (len [n2b (len (p_uname p))]) with 1. change (len [n2b (len (p_gname p))]) with 1.
  change (2 ^ 32) with 4294967296. lia.
Qed.

Lemma xattr_bytes_len x : len (xattr_to_bytes x) = 8 + len (x_name x) + len (x_value x).
Proof. unfold xattr_to_bytes, be32. rewrite !len_app, !len_be. lia. Qed.

Lemma fhed_bytes_len h : len (fhed_to_bytes h) = 6 + len (f_name h).
Proof. unfold fhed_to_bytes. rewrite len_app. reflexivity. Qed.

Lemma fsiz_bytes_len n : len (fsiz_to_bytes n) < 2 ^ 32.
Proof.
  pose proof (fsiz_to_bytes_length n). unfold len. change (2 ^ 32) with 4294967296. lia.
Qed.

Lemma normal_body_chunks e : writable_normal e -> Forall entry_chunk (normal_body e).
Proof.
  intros (_ & _ & _ & _ & H4 & H5 & _ & _ & H8 & H9 & H10 & H11 & H12 & H13).
  unfold normal_body. cbv zeta. repeat (apply Forall_app; split).
  - apply Forall_forall. intros c Hc. rewrite Forall_forall in H5. destruct (H5 c Hc) as (S & C & _).
    apply extra_entry_chunk. split; assumption.
  - apply Forall_opt_chunk. destruct (m_raw_size (n_meta e)); cbn [opt_all]; [|exact I].
    apply lit_entry_chunk; try reflexivity. apply fsiz_bytes_len.
  - apply Forall_opt_chunk. destruct (n_phsf e); cbn [opt_all phsf_ok] in *; [|exact I].
    apply lit_entry_chunk; try reflexivity. apply H4.
  - rewrite data_chunks_cut. apply Forall_forall. intros c Hc. apply in_map_iff in Hc. destruct Hc as (p & <- & Hp).
    pose proof (cutN_bounded CMAX (n_data e) CMAX_pos) as B. rewrite Forall_forall in B. destruct (B p Hp) as (_ & Lp).
    apply lit_entry_chunk; try reflexivity. apply CMAX_lt. exact Lp.
  - apply Forall_opt_chunk. destruct (m_ctime (n_meta e)); cbn [opt_all]; [|exact I].
    apply lit_entry_chunk; reflexivity.
  - apply Forall_opt_chunk. destruct (m_mtime (n_meta e)); cbn [opt_all]; [|exact I].
    apply lit_entry_chunk; reflexivity.
  - apply Forall_opt_chunk. destruct (m_atime (n_meta e)); cbn [opt_all]; [|exact I].
    apply lit_entry_chunk; reflexivity.
  - apply Forall_opt_chunk. destruct (m_perm (n_meta e)); cbn [opt_all] in *; [|exact I].
    apply lit_entry_chunk; try reflexivity. apply perm_bytes_len. exact H12.
  - apply Forall_forall. intros c Hc. apply in_map_iff in Hc. destruct Hc as (x & <- & Hx).
    rewrite Forall_forall in H13. destruct (H13 x Hx) as (_ & L).
    apply lit_entry_chunk; try reflexivity. rewrite xattr_bytes_len. exact L.
Qed.

Lemma fhed_body_chunk e : writable_normal e -> body_chunk (mk FHED (fhed_to_bytes (n_hdr e))).
Proof.
  intros (_ & _ & _ & L & _). repeat split; try reflexivity. cbn [cdata mk]. rewrite fhed_bytes_len. exact L.
Qed.

Lemma fend_body_chunk : body_chunk (mk FEND []).
Proof. repeat split; reflexivity. Qed.
Lemma send_body_chunk : body_chunk (mk SEND []).
Proof. repeat split; reflexivity. Qed.

Lemma ser_normal_chunks e : writable_normal e -> Forall body_chunk (ser_normal e).
Proof.
  intro W. rewrite ser_normal_body. constructor; [apply fhed_body_chunk; exact W|].
  apply Forall_app. split; [|constructor; [exact fend_body_chunk|constructor]].
  eapply Forall_impl; [|apply normal_body_chunks; exact W]. intros c H. apply H.
Qed.

(* one written file entry in front of a chunk sequence, for either flavour of the grammar *)
Lemma entries_sm_normal so e rest : writable_normal e ->
  entries_sm so normal_only (ser_normal e ++ rest) None =
  sdo es <- entries_sm so normal_only rest None; SOk (RNormal (normalize e) :: es).
Proof.
  intro W. rewrite ser_normal_body. cbn [app]. rewrite <- app_assoc. cbn [app].
  rewrite entries_sm_entry.
  - unfold normal_only at 1. rewrite strict_normal_ser by exact W. reflexivity.
  - reflexivity.
  - eapply Forall_impl; [|apply normal_body_chunks; exact W]. intros c H. apply H.
  - reflexivity.
Qed.

Lemma entries_sm_normal_any e rest : writable_normal e ->
  entries_sm true any_entry (ser_normal e ++ rest) None =
  sdo es <- entries_sm true any_entry rest None; SOk (RNormal (normalize e) :: es).
Proof.
  intro W. rewrite ser_normal_body. cbn [app]. rewrite <- app_assoc. cbn [app].
  rewrite entries_sm_entry.
  - unfold any_entry at 1. change (ty_is (mk FHED (fhed_to_bytes (n_hdr e))) FHED) with true. cbv iota.
    unfold normal_only. rewrite strict_normal_ser by exact W. reflexivity.
  - reflexivity.
  - eapply Forall_impl; [|apply normal_body_chunks; exact W]. intros c H. apply H.
  - reflexivity.
Qed.

(* ================================================================================================= *)
(* 6. writable solid entries                                                                          *)
(* ================================================================================================= *)
Definition writable_solid (s : solid_entry) : Prop :=
  let h := so_hdr s in
  s_major h = 0 /\ s_minor h = 0 /\ phsf_ok (s_enc h) (so_phsf s) /\
  Forall sextra_ok (so_extra s) /\ Forall (fun d => len d < 2 ^ 32) (so_data s) /\
  data_len_ok (s_enc h) (s_mode h) (sum_len (so_data s)) = true /\
  (plain_solid h = true -> sok (inner_entries (concat (so_data s))) = true).

Definition solid_body (s : solid_entry) : list chunk :=
  so_extra s ++ opt_chunk PHSF (fun s => s) (so_phsf s) ++ map (mk SDAT) (so_data s).

Lemma ser_solid_body s : ser_solid s = mk SHED (shed_to_bytes (so_hdr s)) :: solid_body s ++ [mk SEND []].
Proof. unfold ser_solid, solid_body. cbn [app]. rewrite <- !app_assoc. reflexivity. Qed.

Lemma strict_shed_ser h : s_major h = 0 -> s_minor h = 0 -> strict_shed (shed_to_bytes h) = SOk h.
Proof.
  intros MJ MN. destruct h as [mj mn c e m]. cbn [s_major s_minor] in *. subst mj mn.
  unfold strict_shed, shed_to_bytes. cbn [s_major s_minor s_comp s_enc s_mode].
  rewrite !b2n_n2b_small by (first [apply comp_lt|apply enc_lt|apply mode_lt|lia]).
  change (0 =? 0) with true. cbn [andb]. rewrite comp_inv, enc_inv, mode_inv. reflexivity.
Qed.

Lemma solid_loop_app enc a : forall b acc,
  solid_loop enc (a ++ b) acc = sdo acc' <- solid_loop enc a acc; solid_loop enc b acc'.
Proof.
  induction a as [|c a IH]; intros b acc; [reflexivity|]. cbn [app solid_loop].
  destruct (solid_step enc c acc); cbn [sbind]; [apply IH|reflexivity].
Qed.

Section SolidSegments.
Variable enc : encryption.

Lemma ql_extra ex : Forall sextra_ok ex -> forall a,
  solid_loop enc ex a = SOk {| q_phsf := q_phsf a; q_data := q_data a; q_len := q_len a; q_extra := q_extra a ++ ex |}.
Proof.
  induction 1 as [|c ex (_ & C) _ IH]; intros a; [rewrite app_nil_r; destruct a; reflexivity|].
  cbn [solid_loop]. unfold solid_step at 1.
  rewrite !(noncritical_not _ c) by (try exact C; reflexivity). rewrite C. cbn [sbind].
  rewrite IH. cbn [q_phsf q_data q_len q_extra]. rewrite <- app_assoc. reflexivity.
Qed.

Lemma ql_phsf o a : phsf_ok enc o -> q_phsf a = None -> q_data a = [] ->
  solid_loop enc (opt_chunk PHSF (fun s => s) o) a =
  SOk {| q_phsf := match o with Some s => Some s | None => q_phsf a end; q_data := q_data a; q_len := q_len a; q_extra := q_extra a |}.
Proof.
  destruct o as [s|]; cbn [phsf_ok opt_chunk]; [|destruct a; reflexivity]. intros (E & P & _) K D.
  cbn [solid_loop]. unfold solid_step. tysimp. cbv zeta. cbn [cdata mk]. unfold phsf_step.
  assert (negb (is_nil (q_data a)) = false) as -> by (rewrite D; reflexivity).
  rewrite E, K, P. reflexivity.
Qed.

Lemma ql_data ds : forall a, (encrypted enc = true -> is_some (q_phsf a) = true) ->
  solid_loop enc (map (mk SDAT) ds) a =
  SOk {| q_phsf := q_phsf a; q_data := q_data a ++ ds; q_len := q_len a + sum_len ds; q_extra := q_extra a |}.
Proof.
  induction ds as [|d ds IH]; intros a P.
  - cbn [map solid_loop]. rewrite app_nil_r, sum_len_nil, N.add_0_r. destruct a; reflexivity.
  - cbn [map solid_loop]. unfold solid_step at 1. tysimp. cbv zeta. cbn [cdata mk].
    assert (encrypted enc && negb (is_some (q_phsf a)) = false) as ->.
    { destruct (encrypted enc); [rewrite P by reflexivity|]; reflexivity. }
    cbn [sbind]. rewrite IH by exact P. cbn [q_phsf q_data q_len q_extra].
    rewrite <- app_assoc, sum_len_cons, N.add_assoc. reflexivity.
Qed.
End SolidSegments.

Lemma strict_solid_ser s : writable_solid s ->
  strict_solid (mk SHED (shed_to_bytes (so_hdr s))) (solid_body s) (mk SEND []) = SOk s.
Proof.
  intros (H1 & H2 & H3 & H4 & _ & H5 & H6).
  destruct s as [h ph ds ex]. cbn [so_hdr so_phsf so_data so_extra] in *.
  unfold strict_solid, solid_body. cbn [cdata mk so_hdr so_phsf so_data so_extra].
  rewrite strict_shed_ser by assumption. cbn [sbind].
  rewrite solid_loop_app, ql_extra by assumption. cbn [sbind q_phsf q_data q_len q_extra app].
  rewrite solid_loop_app, ql_phsf by (first [assumption|reflexivity]). cbn [sbind q_phsf q_data q_len q_extra].
  rewrite ql_data.
  2:{ cbn [q_phsf]. destruct ph; cbn [phsf_ok is_some] in *; [reflexivity|congruence]. }
  cbn [sbind q_phsf q_data q_len q_extra app is_nil negb]. rewrite N.add_0_l, H5. cbn [negb].
  assert (encrypted (s_enc h) && negb (is_some (match ph with Some s => Some s | None => None end)) = false) as ->.
  { destruct ph; cbn [phsf_ok is_some negb] in *; [apply andb_false_r|rewrite H3; reflexivity]. }
  destruct (plain_solid h) eqn:PS.
  - specialize (H6 eq_refl). destruct (inner_entries (concat ds)); [|discriminate]. cbn [andb negb].
    destruct ph; reflexivity.
  - cbn [andb]. destruct ph; reflexivity.
Qed.

Lemma solid_body_chunks s : writable_solid s -> Forall entry_chunk (solid_body s).
Proof.
  intros (_ & _ & H3 & H4 & HD & _). unfold solid_body. repeat (apply Forall_app; split).
  - eapply Forall_impl; [|exact H4]. intros c H. apply extra_entry_chunk. exact H.
  - apply Forall_opt_chunk. destruct (so_phsf s); cbn [opt_all phsf_ok] in *; [|exact I].
    apply lit_entry_chunk; try reflexivity. apply H3.
  - apply Forall_forall. intros c Hc. apply in_map_iff in Hc. destruct Hc as (d & <- & Hd).
    rewrite Forall_forall in HD. apply lit_entry_chunk; try reflexivity. exact (HD d Hd).
Qed.

Lemma shed_body_chunk s : body_chunk (mk SHED (shed_to_bytes (so_hdr s))).
Proof. repeat split; reflexivity. Qed.

Lemma ser_solid_chunks s : writable_solid s -> Forall body_chunk (ser_solid s).
Proof.
  intro W. rewrite ser_solid_body. constructor; [apply shed_body_chunk|].
  apply Forall_app. split; [|constructor; [exact send_body_chunk|constructor]].
  eapply Forall_impl; [|apply solid_body_chunks; exact W]. intros c H. apply H.
Qed.

Lemma entries_sm_solid_any s rest : writable_solid s ->
  entries_sm true any_entry (ser_solid s ++ rest) None =
  sdo es <- entries_sm true any_entry rest None; SOk (RSolid s :: es).
Proof.
  intro W. rewrite ser_solid_body. cbn [app]. rewrite <- app_assoc. cbn [app].
  rewrite entries_sm_entry.
  - unfold any_entry at 1. change (ty_is (mk SHED (shed_to_bytes (so_hdr s))) FHED) with false. cbv iota.
    rewrite strict_solid_ser by exact W. reflexivity.
  - reflexivity.
  - eapply Forall_impl; [|apply solid_body_chunks; exact W]. intros c H. apply H.
  - reflexivity.
Qed.

(* ================================================================================================= *)
(* 7. writable entries, the written archive                                                           *)
(* ================================================================================================= *)
Definition writable (e : read_entry) : Prop :=
  match e with RNormal n => writable_normal n | RSolid s => writable_solid s end.

Lemma ser_entry_chunks e : writable e -> Forall body_chunk (ser_entry e).
Proof. destruct e; [apply ser_normal_chunks|apply ser_solid_chunks]. Qed.

Lemma entries_of_written es : Forall writable es ->
  entries_of (concat (map ser_entry es)) = SOk (map normalize_entry es).
Proof.
  unfold entries_of. induction 1 as [|e es W _ IH]; [reflexivity|]. cbn [map concat].
  destruct e as [n|s]; cbn [ser_entry normalize_entry writable] in *.
  - rewrite entries_sm_normal_any by exact W. rewrite IH. reflexivity.
  - rewrite entries_sm_solid_any by exact W. rewrite IH. reflexivity.
Qed.

Lemma Forall_concat {A} (P : A -> Prop) ls : Forall (Forall P) ls -> Forall P (concat ls).
Proof. induction 1; [constructor|]. cbn [concat]. apply Forall_app. split; assumption. Qed.

Lemma written_body_chunks es : Forall writable es -> Forall body_chunk (concat (map ser_entry es)).
Proof.
  intro W. apply Forall_concat. apply Forall_forall. intros cs Hc. apply in_map_iff in Hc.
  destruct Hc as (e & <- & He). rewrite Forall_forall in W. apply ser_entry_chunks. exact (W e He).
Qed.

(* one written part: its number, its body, no successor *)
Lemma part_body_written num ess : num < 2 ^ 32 -> Forall body_chunk (concat ess) ->
  part_body num (write_raw_archive num ess) = SOk (concat ess, false).
Proof.
  intros N B. unfold part_body. rewrite write_raw_archive_eq, write_header_eq, ser_entries_concat.
  rewrite <- app_assoc.
  replace (ser_chunk (hdr_chunk num) ++ ser_chunks (concat ess) ++ finalize)
    with (ser_chunks (hdr_chunk num :: concat ess) ++ finalize) by (rewrite ser_chunks_cons, <- app_assoc; reflexivity).
  rewrite part_chunks_ser.
  - cbn [sbind app]. rewrite ahed_ok_hdr. cbn [negb]. rewrite hdr_number by exact N. rewrite N.eqb_refl. cbn [negb].
    apply body_scan_last. eapply Forall_impl; [|exact B]. intros c (_ & _ & H1 & H2). split; assumption.
  - constructor; [apply strict_chunk_hdr|]. eapply Forall_impl; [|exact B]. intros c H. apply H.
  - constructor; [reflexivity|]. eapply Forall_impl; [|exact B]. intros c H. apply H.
Qed.

(* C14 writer_wf, entry/archive layer *)
Theorem writer_strict es : Forall writable es ->
  strict_parts [write_raw_archive 0 (map ser_entry es)] = SOk (map normalize_entry es).
Proof.
  intro W. unfold strict_parts. cbn [bodies]. rewrite part_body_written.
  - cbn [sbind]. apply entries_of_written. exact W.
  - reflexivity.
  - apply written_body_chunks. exact W.
Qed.

Theorem writer_wf es : Forall writable es ->
  wf_archive (write_raw_archive 0 (map ser_entry es)) = true /\
  strict_decode (write_raw_archive 0 (map ser_entry es)) = Ok (map normalize_entry es).
Proof.
  intro W. unfold wf_archive, wf_parts, strict_decode. rewrite writer_strict by exact W. split; reflexivity.
Qed.

(* a part with a number n > 0 is a well-formed part file on its own *)
Theorem writer_wf_part num es : num < 2 ^ 32 -> Forall writable es ->
  wf_part num (write_raw_archive num (map ser_entry es)) = true.
Proof.
  intros N W. unfold wf_part. rewrite part_body_written; [reflexivity|exact N|apply written_body_chunks; exact W].
Qed.

(* ---- the inner stream of a plain solid entry written from writable file entries is accepted ---------- *)
Lemma stream_chunks_ser cs : forall f, Forall strict_chunk cs ->
  stream_chunks (length cs + S f) (ser_chunks cs) = SOk cs.
Proof.
  induction cs as [|c cs IH]; intros f HS; [reflexivity|]. inversion HS; subst.
  cbn [length Nat.add]. rewrite ser_chunks_cons. cbn [stream_chunks].
  destruct (ser_chunk c ++ ser_chunks cs) as [|b l] eqn:E; [exfalso; exact (ser_chunk_not_nil _ _ E)|].
  rewrite <- E, read_strict_ser by assumption. cbn [sbind]. rewrite IH by assumption. reflexivity.
Qed.

Lemma inner_entries_written ns : Forall writable_normal ns ->
  inner_entries (ser_chunks (concat (map ser_normal ns))) = SOk (map (fun n => RNormal (normalize n)) ns).
Proof.
  intro W. unfold inner_entries.
  pose proof (length_ser_chunks_ge (concat (map ser_normal ns))) as L.
  replace (S (length (ser_chunks (concat (map ser_normal ns)))))
    with (length (concat (map ser_normal ns)) + S (length (ser_chunks (concat (map ser_normal ns))) - length (concat (map ser_normal ns))))%nat by lia.
  rewrite stream_chunks_ser.
  - cbn [sbind]. clear L. induction W as [|n ns Wn _ IH]; [reflexivity|]. cbn [map concat].
    rewrite entries_sm_normal by exact Wn. rewrite IH. reflexivity.
  - apply Forall_concat. apply Forall_forall. intros cs Hc. apply in_map_iff in Hc. destruct Hc as (n & <- & Hn).
    rewrite Forall_forall in W. eapply Forall_impl; [|apply ser_normal_chunks; exact (W n Hn)]. intros c H. apply H.
Qed.

(* ================================================================================================= *)
(* 8. `writable` is satisfiable and not vacuous                                                       *)
(* ================================================================================================= *)
Example ex_plain_writable : writable_normal ex_plain.
Proof.
  unfold writable_normal, ex_plain. cbv zeta.
  cbn [n_hdr n_phsf n_extra n_data n_meta n_xattrs m_raw_size m_compressed m_ctime m_mtime m_atime m_perm
       f_major f_minor f_name f_enc f_mode opt_all phsf_ok].
  repeat split; try reflexivity; repeat constructor; try reflexivity; try (vm_compute; discriminate).
Qed.

Example ex_enc_writable : writable_normal ex_enc.
Proof.
  unfold writable_normal, ex_enc. cbv zeta.
  cbn [n_hdr n_phsf n_extra n_data n_meta n_xattrs m_raw_size m_compressed m_ctime m_mtime m_atime m_perm
       f_major f_minor f_name f_enc f_mode opt_all phsf_ok].
  repeat split; try reflexivity; repeat constructor; try reflexivity; try (vm_compute; discriminate).
Qed.

Example ex_solid_writable : writable_solid ex_solid.
Proof.
  unfold writable_solid, ex_solid. cbv zeta. cbn [so_hdr so_phsf so_data so_extra s_major s_minor s_enc s_mode phsf_ok].
  repeat split; try reflexivity; repeat constructor; try reflexivity.
Qed.

Example ex_writable : Forall writable [RNormal ex_plain; RNormal ex_enc; RSolid ex_solid].
Proof.
  constructor; [exact ex_plain_writable|]. constructor; [exact ex_enc_writable|].
  constructor; [exact ex_solid_writable|constructor].
Qed.

(* the conditions are needed: an unknown critical chunk among the extras, an encrypted entry without
   PHSF, a CBC data stream that is not whole blocks and an unsanitised name are each rejected *)
Example not_writable_rejected :
  wf_archive (write_raw_archive 0 [ser_normal (with_extra_chunks ex_enc [mk (lit "QQQQ") []])]) = false /\
  wf_archive (write_raw_archive 0 [ser_normal
     {| n_hdr := n_hdr ex_enc; n_phsf := None; n_extra := []; n_data := n_data ex_enc; n_meta := n_meta ex_enc; n_xattrs := [] |}]) = false /\
  wf_archive (write_raw_archive 0 [ser_normal
     {| n_hdr := n_hdr ex_enc; n_phsf := n_phsf ex_enc; n_extra := []; n_data := [repeat x07 16; repeat x09 31];
        n_meta := n_meta ex_enc; n_xattrs := [] |}]) = false /\
  wf_archive (write_raw_archive 0 [ser_normal
     {| n_hdr := {| f_major := 0; f_minor := 0; f_kind := KFile; f_comp := CNo; f_enc := ENo; f_mode := MCbc; f_name := lit "../x" |};
        n_phsf := None; n_extra := []; n_data := []; n_meta := n_meta ex_plain; n_xattrs := [] |}]) = false.
Proof. vm_compute. repeat split. Qed.
