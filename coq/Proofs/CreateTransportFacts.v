(* CreateTransportFacts.v — C02 through the container: the logical entry list of Model/Extract.v
   (xentry: stored name, kind, data, mode, mtime, xattrs) is carried by the library pipeline of
   Model/Pipeline.v (C01) without loss, for every configuration, cipher context, write slicing and
   read-buffer policy.  The section hypothesis `transport_lossless` of the earlier Props/C02.v becomes
   the theorem of that name here; composed with CreateExtractFacts.create_extract it gives
   `create_archive_extract`.

   The two models' entry types do not line up field by field:
     carried and compared   name, kind, content / link target, fPRM mode, mTIM seconds, xattrs;
     in the container only   cTIM, aTIM, owner (uid, uname, gid, gname) — Extract.v's extractor does not
                             observe them (chown and atime are outside the file-system model); they are
                             the free record `aux` below, arbitrary per entry;
     never produced here     private extra chunks (sp_extra = []; --keep-acl is outside the model).
   `wf_job` (PipelineFacts) is the format's own range: UTF-8 sanitised name, sizes below the width of
   their length fields, a cipher context that fits the password (wf_ctx). *)
From PNA Require Import Base Crc32 Name Codec Chunk Archive Entry Flatten Cbc Ctr Pipeline Aes Camellia
  BaseFacts NameFacts CodecFacts ChunkFacts ArchiveFacts EntryFacts CbcFacts PipelineFacts AesFacts CamelliaFacts.
From PNA Require Import Fs Extract ExtractFacts CreateExtractFacts.
Require Import ZArith ZifyN ZifyNat ZifyBool Permutation.
Open Scope N_scope.

(* ---- the mapping between the two entry types ------------------------------------------------------- *)
Record aux := { a_ctime : option N; a_atime : option N; a_uid : N; a_uname : bytes; a_gid : N; a_gname : bytes }.

Definition kind_of (k : N) : data_kind :=
  if N.eqb k 0 then KFile else if N.eqb k 1 then KDir else if N.eqb k 2 then KSymlink else KHardlink.
Definition kind_no (k : data_kind) : N :=
  match k with KFile => 0 | KDir => 1 | KSymlink => 2 | KHardlink => 3 end.

Definition xattr_of (kv : bytes * bytes) : xattr := {| x_name := fst kv; x_value := snd kv |}.
Definition xattr_kv (x : xattr) : bytes * bytes := (x_name x, x_value x).

(* what create_entry + apply_metadata hand to EntryBuilder for the logical entry e *)
Definition xspec (a : aux) (e : xentry) : spec :=
  {| sp_kind := kind_of (e_kind e); sp_name := e_name e; sp_content := e_data e;
     sp_ctime := a_ctime a; sp_mtime := e_mtime e; sp_atime := a_atime a;
     sp_perm := option_map (fun m => {| p_uid := a_uid a; p_uname := a_uname a; p_gid := a_gid a;
                                        p_gname := a_gname a; p_mode := m |}) (e_perm e);
     sp_xattrs := map xattr_of (e_xattrs e);
     sp_extra := [] |}.

(* what extract_entry reads of a decoded entry: header().path(), data_kind(), the reader's bytes,
   metadata().permission().permissions(), metadata().modified(), xattrs() *)
Definition xentry_of_normal (content : bytes) (n : normal_entry) : xentry :=
  mk_xentry (f_name (n_hdr n)) (kind_no (f_kind (n_hdr n))) content
            (option_map p_mode (m_perm (n_meta n))) (m_mtime (n_meta n)) (map xattr_kv (n_xattrs n)).

Definition carries (j : job) (e : xentry) : Prop := exists a, j_spec j = xspec a e.

Lemma kind_no_of k : k <= 3 -> kind_no (kind_of k) = k.
Proof.
  intros H. unfold kind_of.
  destruct (N.eqb k 0) eqn:E0; [apply N.eqb_eq in E0; subst; reflexivity|].
  destruct (N.eqb k 1) eqn:E1; [apply N.eqb_eq in E1; subst; reflexivity|].
  destruct (N.eqb k 2) eqn:E2; [apply N.eqb_eq in E2; subst; reflexivity|].
  apply N.eqb_neq in E0, E1, E2. cbn [kind_no]. lia.
Qed.

Lemma xattr_kv_of l : map xattr_kv (map xattr_of l) = l.
Proof. induction l as [|[k v] l IH]; [reflexivity|]. cbn [map]. rewrite IH. reflexivity. Qed.

Fixpoint normals (rs : list read_entry) : res (list normal_entry) :=
  match rs with
  | [] => Ok []
  | RNormal n :: r => do ns <- normals r; Ok (n :: ns)
  | RSolid _ :: _ => Err Unsupported
  end.

Lemma normals_map {A} (g : A -> normal_entry) l : normals (map (fun x => RNormal (g x)) l) = Ok (map g l).
Proof. induction l as [|x l IH]; [reflexivity|]. cbn [map normals]. rewrite IH. reflexivity. Qed.

Section Transport.
Variables E D : encryption -> bytes -> bytes -> bytes.
Variable compress : compression -> N -> list bytes -> list bytes.
Variable decompress : compression -> bytes -> res bytes.
Variable verify : bytes -> bytes -> res bytes.
Hypothesis D_len : forall a k c, len16 c -> len16 (D a k c).
Hypothesis DE : forall a k b, len16 b -> D a k (E a k b) = b.
Hypothesis E_len : forall a k b, len16 b -> len16 (E a k b).
Hypothesis compress_law : forall c lvl ws, decompress c (concat (compress c lvl ws)) = Ok (concat ws).
Hypothesis compress_det : forall c lvl (ws ws' : list bytes), concat ws = concat ws' ->
  concat (compress c lvl ws) = concat (compress c lvl ws').

Notation build_job := (build_job E compress).
Notation wf_job := (wf_job E compress verify).
Notation decode_normal := (decode_normal E D decompress verify).

(* the reader: every entry's content is pulled with the buffer sizes `rb` chooses for it *)
Definition read_entry_x (pw : bytes) (rb : normal_entry -> list N) (n : normal_entry) : res xentry :=
  do content <- decode_normal n pw (rb n); Ok (xentry_of_normal content n).
Fixpoint read_entries_x (pw : bytes) (rb : normal_entry -> list N) (ns : list normal_entry) : res (list xentry) :=
  match ns with
  | [] => Ok []
  | n :: r => do e <- read_entry_x pw rb n; do es <- read_entries_x pw rb r; Ok (e :: es)
  end.
(* run_process_archive over a non-solid archive: entries(), then the reader of each *)
Definition entries_of (pw : bytes) (rb : normal_entry -> list N) (bs : bytes) : res (list xentry) :=
  do rs <- read_archive bs; do ns <- normals rs; read_entries_x pw rb ns.

(* io::copy / read_to_string: positive buffers, as many reads as it takes to see the end *)
Definition reads_to_end (rb : normal_entry -> list N) (j : job) : Prop :=
  Forall (fun n => 0 < n) (rb (build_job j)) /\
  covers compress (eff_cfg (j_cfg j) (sp_kind (j_spec j))) (eff_wcuts (sp_kind (j_spec j)) (j_wcuts j)) (rb (build_job j)).

Lemma read_built pw rb j e : wf_job pw j -> carries j e -> e_kind e <= 3 -> reads_to_end rb j ->
  read_entry_x pw rb (build_job j) = Ok e.
Proof.
  intros (Hs & Hc & Hw & _) [a Ha] Hk [Hp Hcov]. unfold read_entry_x.
  unfold PipelineFacts.build_job in *.
  rewrite (entry_roundtrip E D compress decompress verify D_len DE E_len compress_law) by assumption. cbn [bind].
  f_equal. unfold xentry_of_normal, build_normal. cbv zeta. cbn [n_hdr n_meta n_xattrs f_name f_kind m_perm m_mtime].
  rewrite Ha. cbn [xspec sp_name sp_kind sp_content sp_perm sp_mtime sp_xattrs].
  rewrite (kind_no_of _ Hk), xattr_kv_of. destruct e as [nm k d pm mt xs]. cbn [e_name e_kind e_data e_perm e_mtime e_xattrs].
  f_equal. destruct pm; reflexivity.
Qed.

Lemma read_all_built pw rb : forall jobs es,
  Forall2 carries jobs es -> Forall (wf_job pw) jobs -> Forall (fun e => e_kind e <= 3) es ->
  (forall j, In j jobs -> reads_to_end rb j) ->
  read_entries_x pw rb (map build_job jobs) = Ok es.
Proof.
  induction 1 as [|j e jobs es Hje _ IH]; intros Hw Hk Hr; [reflexivity|].
  inversion Hw; subst. inversion Hk; subst. cbn [map read_entries_x].
  rewrite (read_built pw rb j e) by (auto; apply Hr; left; reflexivity). cbn [bind].
  rewrite IH; [reflexivity|assumption|assumption|]. intros j' Hj'. apply Hr. right. exact Hj'.
Qed.

(* C01 as C02 needs it: what `extract` reads is what `create` wrote *)
Theorem transport_lossless pw rb jobs es :
  Forall2 carries jobs es -> Forall (wf_job pw) jobs -> Forall (fun e => e_kind e <= 3) es ->
  (forall j, In j jobs -> reads_to_end rb j) ->
  entries_of pw rb (write_archive (map build_job jobs)) = Ok es.
Proof.
  intros Hc Hw Hk Hr. unfold entries_of.
  rewrite (archive_roundtrip E D compress decompress verify D_len DE E_len compress_law compress_det pw jobs Hw). cbn [bind].
  rewrite (normals_map build_job). cbn [bind]. apply read_all_built; assumption.
Qed.

(* --solid: the inner entries of the solid entry that SolidArchive::add_entry wrote *)
Theorem transport_lossless_solid pw rb cfg ctx jobs es rbufs :
  Forall2 carries jobs es -> Forall (wf_job pw) jobs -> Forall (fun e => e_kind e <= 3) es ->
  (forall j, In j jobs -> reads_to_end rb j) ->
  wf_ctx verify ctx pw -> Forall (fun n => 0 < n) rbufs ->
  covers compress cfg (solid_writes (map build_job jobs)) rbufs ->
  exists s, parse_solid (solid_archive_chunks E compress cfg ctx (solid_writes (map build_job jobs))) = Ok s /\
    exists ns, decode_solid E D decompress verify s pw rbufs = Ok (ns, FinOk) /\ read_entries_x pw rb ns = Ok es.
Proof.
  intros Hc Hw Hk Hr Hctx Hp Hcov.
  assert (Wn : Forall wf_normal (map build_job jobs)).
  { apply Forall_forall. intros n Hn. apply in_map_iff in Hn. destruct Hn as (j & <- & Hj).
    rewrite Forall_forall in Hw. destruct (Hw j Hj) as (Hs & Hcx & Hwc & _). apply (build_wf_normal E compress verify _ _ pw); assumption. }
  assert (Fn : Forall fits (map build_job jobs)).
  { apply Forall_forall. intros n Hn. apply in_map_iff in Hn. destruct Hn as (j & <- & Hj).
    rewrite Forall_forall in Hw. apply (Hw j Hj). }
  destruct (solid_archive_add_entry_roundtrip E D compress decompress verify D_len DE E_len compress_law compress_det
              cfg ctx pw (map build_job jobs) rbufs Hctx Wn Fn Hp Hcov) as (s & Hs & Hd).
  exists s. split; [exact Hs|]. exists (map build_job jobs). split.
  - rewrite Hd. f_equal. f_equal. rewrite map_map. apply map_ext_in. intros j Hj. rewrite Forall_forall in Hw.
    destruct (Hw j Hj) as (_ & Hcx & _). apply (normalize_build E D compress verify D_len DE E_len _ _ pw). exact Hcx.
  - apply read_all_built; assumption.
Qed.

Lemma create_kinds c t : forall order, Forall (fun e => e_kind e <= 3) (create_from_tree c order t).
Proof.
  induction order as [|p r IH]; [constructor|]. cbn [create_from_tree].
  destruct (tget t p) as [n|]; [|exact IH]. destruct (collected c n); [|exact IH].
  constructor; [destruct n; cbn [entry_of e_kind]; lia|exact IH].
Qed.

(* ================================================================================================= *)
(* C02 with the container in between                                                                    *)
(* ================================================================================================= *)
Theorem create_archive_extract : forall c o out order t pw rb jobs,
  o_guarded o = true -> wf_tree t -> tree_ok t -> walk_order_ok c o t order ->
  Forall ExtractFacts.plain out -> out <> [] ->
  Forall2 carries jobs (create_from_tree c order t) -> Forall (wf_job pw) jobs ->
  (forall j, In j jobs -> reads_to_end rb j) ->
  exists es, entries_of pw rb (write_archive (map build_job jobs)) = Ok es /\
    es = create_from_tree c order t /\
    tree_of c o out order (extract_all o out es (empty_dir out)) = expected c o order t /\
    snd (extract_run o out es (empty_dir out)) = true.
Proof.
  intros c o out order t pw rb jobs G WF TOK WO OP ON Hc Hw Hr.
  exists (create_from_tree c order t). split; [|split; [reflexivity|apply create_extract; assumption]].
  apply transport_lossless; try assumption. apply create_kinds.
Qed.

Theorem create_solid_archive_extract : forall c o out order t pw rb jobs cfg ctx rbufs,
  o_guarded o = true -> wf_tree t -> tree_ok t -> walk_order_ok c o t order ->
  Forall ExtractFacts.plain out -> out <> [] ->
  Forall2 carries jobs (create_from_tree c order t) -> Forall (wf_job pw) jobs ->
  (forall j, In j jobs -> reads_to_end rb j) ->
  wf_ctx verify ctx pw -> Forall (fun n => 0 < n) rbufs ->
  covers compress cfg (solid_writes (map build_job jobs)) rbufs ->
  exists s ns es, parse_solid (solid_archive_chunks E compress cfg ctx (solid_writes (map build_job jobs))) = Ok s /\
    decode_solid E D decompress verify s pw rbufs = Ok (ns, FinOk) /\ read_entries_x pw rb ns = Ok es /\
    es = create_from_tree c order t /\
    tree_of c o out order (extract_all o out es (empty_dir out)) = expected c o order t /\
    snd (extract_run o out es (empty_dir out)) = true.
Proof.
  intros c o out order t pw rb jobs cfg ctx rbufs G WF TOK WO OP ON Hc Hw Hr Hctx Hp Hcov.
  destruct (transport_lossless_solid pw rb cfg ctx jobs _ rbufs Hc Hw (create_kinds c t order) Hr Hctx Hp Hcov)
    as (s & Hs & ns & Hd & He).
  exists s, ns, (create_from_tree c order t). split; [exact Hs|]. split; [exact Hd|]. split; [exact He|].
  split; [reflexivity|apply create_extract; assumption].
Qed.

End Transport.

(* ---- with the AES-256 / Camellia-256 models: only the compressor and KDF laws remain ---------------------- *)
Section TransportReal.
Variable compress : compression -> N -> list bytes -> list bytes.
Variable decompress : compression -> bytes -> res bytes.
Variable verify : bytes -> bytes -> res bytes.
Hypothesis compress_law : forall c lvl ws, decompress c (concat (compress c lvl ws)) = Ok (concat ws).
Hypothesis compress_det : forall c lvl (ws ws' : list bytes), concat ws = concat ws' ->
  concat (compress c lvl ws) = concat (compress c lvl ws').

Theorem create_archive_extract_real : forall c o out order t pw rb jobs,
  o_guarded o = true -> wf_tree t -> tree_ok t -> walk_order_ok c o t order ->
  Forall ExtractFacts.plain out -> out <> [] ->
  Forall2 carries jobs (create_from_tree c order t) -> Forall (wf_job real_E_of compress verify pw) jobs ->
  (forall j, In j jobs -> reads_to_end real_E_of compress rb j) ->
  exists es, entries_of real_E_of real_D_of decompress verify pw rb (write_archive (map (build_job real_E_of compress) jobs)) = Ok es /\
    es = create_from_tree c order t /\
    tree_of c o out order (extract_all o out es (empty_dir out)) = expected c o order t /\
    snd (extract_run o out es (empty_dir out)) = true.
Proof. apply (create_archive_extract real_E_of real_D_of compress decompress verify real_D_len real_DE real_E_len compress_law compress_det). Qed.
End TransportReal.

(* ---- the format's ranges, read off the tree: wf_spec of every entry `create` builds -------------------------- *)
(* what the container cannot hold is outside: names that are not UTF-8 (EntryName::from_lossy would replace bytes),
   modes above 16 bits, times above 64 bits, attribute names or values of 4 GiB, owner names above 255 bytes *)
Definition aux_ok (a : aux) : Prop :=
  opt_all (fun t => t < 2 ^ 64) (a_ctime a) /\ opt_all (fun t => t < 2 ^ 64) (a_atime a) /\
  a_uid a < 2 ^ 64 /\ a_gid a < 2 ^ 64 /\ len (a_uname a) <= 255 /\ len (a_gname a) <= 255 /\
  utf8_valid (a_uname a) = true /\ utf8_valid (a_gname a) = true.
Definition node_fits (n : tnode) : Prop :=
  match n with
  | TFile d m mt xs => len d < 2 ^ 128 /\ m < 2 ^ 16 /\ mt < 2 ^ 64 /\
      Forall (fun kv => len (fst kv) < 2 ^ 32 /\ len (snd kv) < 2 ^ 32 /\ utf8_valid (fst kv) = true) xs
  | TDir m => m < 2 ^ 16
  | TLink tg => len (normalize_reference tg) < 2 ^ 128
  end.

Lemma create_spec_wf a c p n :
  Forall normal_component p -> forallb utf8_valid p = true -> aux_ok a -> node_fits n ->
  wf_spec (xspec a (entry_of c p n)).
Proof.
  intros Hn Hu (A1 & A2 & A3 & A4 & A5 & A6 & A7 & A8) Hf.
  assert (N1 : utf8_valid (path_str p) = true) by (unfold path_str, slash1; rewrite utf8_valid_join; exact Hu).
  assert (N2 : sanitize_name (path_str p) = path_str p) by (apply sanitize_fixed; exact Hn).
  assert (P : forall m, m < 2 ^ 16 -> wf_perm {| p_uid := a_uid a; p_uname := a_uname a; p_gid := a_gid a; p_gname := a_gname a; p_mode := m |}).
  { intros m Hm. unfold wf_perm. cbn [p_uid p_gid p_mode p_uname p_gname]. repeat split; assumption. }
  unfold wf_spec. destruct n as [d m mt xs|m|tg]; cbn [entry_of xspec e_name e_kind e_data e_perm e_mtime e_xattrs
    sp_name sp_content sp_ctime sp_mtime sp_atime sp_perm sp_xattrs sp_extra node_fits] in *.
  - destruct Hf as (F1 & F2 & F3 & F4).
    split; [exact N1|]. split; [exact N2|]. split; [exact F1|]. split; [exact A1|].
    split; [destruct (c_keep_time c); cbn [opt_all]; [exact F3|exact I]|]. split; [exact A2|].
    split; [destruct (c_keep_perm c); cbn [option_map opt_all]; [apply P; exact F2|exact I]|].
    split; [|constructor]. destruct (c_keep_xattr c); [|constructor].
    apply Forall_forall. intros x Hx. apply in_map_iff in Hx. destruct Hx as (kv & <- & Hkv).
    rewrite Forall_forall in F4. exact (F4 kv Hkv).
  - split; [exact N1|]. split; [exact N2|]. split; [vm_compute; reflexivity|]. split; [exact A1|].
    split; [exact I|]. split; [exact A2|].
    split; [destruct (c_keep_perm c); cbn [option_map opt_all]; [apply P; exact Hf|exact I]|].
    split; constructor.
  - split; [exact N1|]. split; [exact N2|]. split; [exact Hf|]. split; [exact A1|].
    split; [exact I|]. split; [exact A2|].
    split; [destruct (c_keep_perm c); cbn [option_map opt_all]; [apply P; vm_compute; reflexivity|exact I]|].
    split; constructor.
Qed.

(* ---- the premises are satisfiable: a small tree through AES-256-CBC ------------------------------------------ *)
Lemma carries_map cfg ctx a (w : xentry -> list bytes) es :
  Forall2 carries (map (fun e => {| j_cfg := cfg; j_ctx := ctx; j_spec := xspec a e; j_wcuts := w e |}) es) es.
Proof. induction es as [|e es IH]; cbn [map]; constructor; [exists a; reflexivity|exact IH]. Qed.

Definition tx_tree : tree :=
  [ ([lit "d"], TDir 448);
    ([lit "d"; lit "a.txt"], TFile (lit "thirty-three bytes of content.../") 384 1700000001 [(lit "user.k", [x00; xff])]);
    ([lit "d"; lit "l"], TLink (lit "./a.txt")) ].
Definition tx_order := map fst tx_tree.
Definition tx_c := mk_copts true true true true.
Definition tx_key : bytes := map n2b (map N.of_nat (seq 0 32)).
Definition tx_iv : bytes := map n2b (map N.of_nat (seq 240 16)).
Definition tx_phsf : bytes := lit "$argon2id$v=19$m=8,t=1,p=1$c2FsdHNhbHRzYWx0".
Definition tx_pw : bytes := lit "correct horse".
Definition tx_ctx : cctx := {| c_key := tx_key; c_iv := tx_iv; c_phsf := tx_phsf |}.
Definition tx_verify (phsf pw : bytes) : res bytes :=
  if bytes_eqb phsf tx_phsf && bytes_eqb pw tx_pw then Ok tx_key else Err InvalidData.
Definition tx_compress (_ : compression) (_ : N) (ws : list bytes) : list bytes := ws.
Definition tx_decompress (_ : compression) (b : bytes) : res bytes := Ok b.
Definition tx_cfg : config := {| g_comp := CNo; g_level := 0; g_enc := EAes; g_mode := MCbc |}.
Definition tx_aux : aux := {| a_ctime := Some 1600000000; a_atime := None; a_uid := 1000; a_uname := lit "user";
                              a_gid := 100; a_gname := lit "grp" |}.
(* every content written in two calls: the first 10 bytes, then the rest *)
Definition tx_jobs : list job :=
  map (fun e => {| j_cfg := tx_cfg; j_ctx := tx_ctx; j_spec := xspec tx_aux e;
                   j_wcuts := [firstn 10 (e_data e); skipn 10 (e_data e)] |}) (create_from_tree tx_c tx_order tx_tree).
Definition tx_rb (_ : normal_entry) : list N := concat (repeat [7; 16; 1] 20).

Ltac leaves := repeat (apply Forall_cons || apply Forall_nil || match goal with |- _ /\ _ => split end);
  try (vm_compute; reflexivity); try (vm_compute; discriminate); try exact I.

Ltac fits_tac :=
  match goal with |- fits ?b => let e := fresh "e" in set (e := b); vm_compute in e; subst e end;
  cbv [fits opt_all wf_chunk n_hdr n_phsf n_extra n_data n_xattrs f_name]; leaves.
Ltac one_job :=
  split; [cbv [wf_spec opt_all wf_perm wf_xattr j_spec sp_name sp_content sp_ctime sp_mtime sp_atime sp_perm sp_xattrs sp_extra]; leaves
         |split; [cbv [wf_ctx]; leaves|split; [vm_compute; reflexivity|fits_tac]]].

Example transport_premises :
  Forall2 carries tx_jobs (create_from_tree tx_c tx_order tx_tree) /\
  Forall (wf_job real_E_of tx_compress tx_verify tx_pw) tx_jobs /\
  (forall j, In j tx_jobs -> reads_to_end real_E_of tx_compress tx_rb j) /\
  (forall c lvl ws, tx_decompress c (concat (tx_compress c lvl ws)) = Ok (concat ws)) /\
  wf_tree tx_tree /\ tree_ok tx_tree /\ (forall o, walk_order_ok tx_c o tx_tree tx_order) /\
  entries_of real_E_of real_D_of tx_decompress tx_verify tx_pw tx_rb
    (write_archive (map (build_job real_E_of tx_compress) tx_jobs)) = Ok (create_from_tree tx_c tx_order tx_tree).
Proof.
  split; [apply carries_map|]. split.
  { set (js := tx_jobs). vm_compute in js. subst js.
    repeat (apply Forall_cons; [one_job|]). apply Forall_nil. }
  split.
  { intros j Hj. set (js := tx_jobs) in Hj. vm_compute in js. subst js.
    repeat (destruct Hj as [<-|Hj]; [split; [unfold tx_rb; cbn [repeat concat app]; leaves|vm_compute; reflexivity]|]).
    contradiction. }
  split; [reflexivity|]. split; [apply wf_treeb_sound; vm_compute; reflexivity|].
  split; [apply tree_okb_sound; vm_compute; reflexivity|].
  split; [intros o; split; [apply Permutation_refl|intros _ _; apply parents_firstb_ok; vm_compute; reflexivity]|].
  vm_compute. reflexivity.
Qed.
