(* CreateExtractFacts.v — C02 at full strength: `pna create` followed by `pna extract` into an empty
   directory reproduces the tree, for EVERY tree, every admissible walk order and every option vector.

   The statement is about Model/Extract.v: create_from_tree (collect_items + create_entry +
   apply_metadata) feeding extract_run (run_extract_archive_reader + extract_entry, the repaired code)
   on the abstract file system of Model/Fs.v.  `expected` (Extract.v) is defined from the tree and the
   options alone — it never runs the extractor — so the theorem is not circular.

   Shape of the proof: every call the extractor makes is on a literal path below `out` all of whose
   proper ancestors are directories (the tree has no file or link above another node), so resolution is
   literal and succeeds (walk_dirs of ConfineFacts + its follow variant here), every call has an explicit
   result, and one entry has the frame property `post`: only the destination and its vacant ancestors
   change, old inodes keep their content.  `Sim` describes the state after a prefix of the walk. *)
From PNA Require Import Base Name Fs Extract BaseFacts NameFacts ExtractFacts ConfineFacts.
Require Import ZArith ZifyN ZifyNat ZifyBool Permutation.
Open Scope N_scope.

(* ---- prefixes ------------------------------------------------------------------------------------ *)
Lemma bytes_eqb_refl x : bytes_eqb x x = true.
Proof. apply bytes_eqb_eq. reflexivity. Qed.

Lemma is_prefix_app_l x : forall a b, is_prefix (x ++ a) (x ++ b) = is_prefix a b.
Proof. induction x as [|y x IH]; intros a b; [reflexivity|]. cbn [app is_prefix]. rewrite bytes_eqb_refl. apply IH. Qed.

Lemma is_prefix_ex a p : is_prefix a p = true <-> exists b, p = a ++ b.
Proof. apply is_prefix_under. Qed.

Lemma is_prefix_refl a : is_prefix a a = true.
Proof. apply is_prefix_ex. exists []. rewrite app_nil_r. reflexivity. Qed.

Lemma is_prefix_false a p b : is_prefix a p = false -> p <> a ++ b.
Proof. intros H E. assert (is_prefix a p = true) by (apply is_prefix_ex; eauto). congruence. Qed.

Definition strictly_below (a p : path) : Prop := exists b, b <> [] /\ p = a ++ b.

Lemma app_inv_nil {A} (a b : list A) : a = a ++ b -> b = [].
Proof. intros E. rewrite <- (app_nil_r a) in E at 1. apply app_inv_head in E. auto. Qed.

(* a prefix of x ++ p is a prefix of x, or x followed by a prefix of p *)
Lemma prefix_split {A} (x p a b : list A) : x ++ p = a ++ b ->
  (exists r, x = a ++ r /\ b = r ++ p) \/ (exists r, a = x ++ r /\ p = r ++ b).
Proof.
  intros E. apply app_eq_app in E. destruct E as [l [[E1 E2]|[E1 E2]]].
  - left. exists l. auto.
  - right. exists l. auto.
Qed.

(* ---- literal resolution that succeeds --------------------------------------------------------------- *)
Definition dirs_above (m : list (path * dnode)) (p : path) : Prop :=
  forall a b, p = a ++ b -> a <> [] -> b <> [] -> exists md, nget m a = Some (DDir md).

Lemma walk_dirs_fl m : forall comps fuel cur,
  Forall plain comps ->
  (forall a b, comps = a ++ b -> a <> [] -> b <> [] -> exists md, nget m (cur ++ a) = Some (DDir md)) ->
  (forall t, nget m (cur ++ comps) <> Some (DLink t)) ->
  (length comps < fuel)%nat -> walk fuel m cur comps true = Some (cur ++ comps).
Proof.
  induction comps as [|c rest IH]; intros fuel cur P D L Hf.
  - destruct fuel; [inversion Hf|]. cbn. rewrite app_nil_r. reflexivity.
  - destruct fuel as [|fu]; [inversion Hf|]. cbn [walk]. inversion P as [|? ? [Hd Hdd] Pr]; subst. rewrite Hd, Hdd.
    replace (cur ++ c :: rest) with ((cur ++ [c]) ++ rest) in * by (rewrite <- app_assoc; reflexivity).
    destruct rest as [|c2 rest'].
    + rewrite app_nil_r in *. destruct (nget m (cur ++ [c])) as [[i|md|t]|] eqn:E; try reflexivity.
      * destruct fu; [cbn in Hf; lia|]. reflexivity.
      * exfalso. exact (L t eq_refl).
    + destruct (D [c] (c2 :: rest')) as [md E]; [reflexivity|discriminate|discriminate|]. rewrite E.
      apply IH; [exact Pr| |exact L|cbn [length] in *; lia].
      intros a b E2 Ha Hb. rewrite <- app_assoc. apply (D (c :: a) b); [cbn [app]; rewrite E2; reflexivity|discriminate|exact Hb].
Qed.

Lemma resolve_nf f p : Forall plain p -> dirs_above (names f) p -> resolve f p false = Some p.
Proof.
  intros P D. unfold resolve. change (Some p) with (Some ([] ++ p)).
  apply walk_dirs; [exact P|exact D|unfold walk_fuel; lia].
Qed.

Lemma resolve_fl f p : Forall plain p -> dirs_above (names f) p -> nolink (names f) p -> resolve f p true = Some p.
Proof.
  intros P D L. unfold resolve. change (Some p) with (Some ([] ++ p)).
  apply walk_dirs_fl; [exact P|exact D|exact L|unfold walk_fuel; lia].
Qed.

Lemma dirs_above_prefix m a b : dirs_above m (a ++ b) -> dirs_above m a.
Proof.
  intros D a1 a2 -> H1 H2. apply (D a1 (a2 ++ b)); [rewrite app_assoc; reflexivity|exact H1|].
  intros E. apply app_eq_nil in E. tauto.
Qed.

Lemma nolink_none m p : nget m p = None -> nolink m p.
Proof. intros E t. rewrite E. discriminate. Qed.
Lemma nolink_dir m p md : nget m p = Some (DDir md) -> nolink m p.
Proof. intros E t. rewrite E. discriminate. Qed.
Lemma nolink_file m p i : nget m p = Some (DFile i) -> nolink m p.
Proof. intros E t. rewrite E. discriminate. Qed.

(* ---- the calls, on such a path ------------------------------------------------------------------------ *)
Lemma lstat_lit f p : Forall plain p -> dirs_above (names f) p -> lstat f p = nget (names f) p.
Proof. intros P D. unfold lstat. rewrite resolve_nf by assumption. reflexivity. Qed.

Lemma stat_lit f p : Forall plain p -> dirs_above (names f) p -> nolink (names f) p -> stat f p = nget (names f) p.
Proof. intros P D L. unfold stat. rewrite resolve_fl by assumption. reflexivity. Qed.

Lemma mkdir_vacant f q : Forall plain q -> dirs_above (names f) q -> nget (names f) q = None ->
  mkdir f q = (with_names f (nset (names f) q (DDir default_dir_mode)), true).
Proof. intros P D E. unfold mkdir. rewrite resolve_nf by assumption. rewrite E. reflexivity. Qed.

(* create_dir_all: the vacant components become directories, nothing else changes *)
Definition on_way (pre rest q : path) : Prop := exists a b, rest = a ++ b /\ a <> [] /\ q = pre ++ a.

Lemma cda_spec : forall rest pre f,
  Forall plain (pre ++ rest) ->
  (forall a b, pre = a ++ b -> a <> [] -> exists md, nget (names f) a = Some (DDir md)) ->
  (forall a b, rest = a ++ b -> a <> [] ->
     nget (names f) (pre ++ a) = None \/ exists md, nget (names f) (pre ++ a) = Some (DDir md)) ->
  exists f', cda f pre rest = (f', true) /\ inodes f' = inodes f /\ next f' = next f /\
    (forall q, nget (names f) q <> None -> nget (names f') q = nget (names f) q) /\
    (forall q, nget (names f) q = None -> on_way pre rest q -> nget (names f') q = Some (DDir default_dir_mode)) /\
    (forall q, nget (names f) q = None -> ~ on_way pre rest q -> nget (names f') q = None).
Proof.
  induction rest as [|c r IH]; intros pre f P Dp Dr.
  - exists f. cbn [cda]. repeat split; auto.
    + intros q _ (a & b & E & Ha & _). symmetry in E. apply app_eq_nil in E. tauto.
  - cbn [cda]. set (q0 := pre ++ [c]).
    assert (E0 : pre ++ c :: r = q0 ++ r) by (unfold q0; rewrite <- app_assoc; reflexivity).
    assert (P0 : Forall plain q0) by (rewrite E0 in P; apply Forall_app in P; tauto).
    assert (D0 : dirs_above (names f) q0).
    { intros a b E Ha Hb. destruct b as [|x b] using rev_ind; [contradiction|]. clear IHb.
      unfold q0 in E. rewrite app_assoc in E. apply app_inj_tail in E. destruct E as [E _].
      apply (Dp a b); [exact E|exact Ha]. }
    assert (Hon : forall f1, (forall a b, q0 = a ++ b -> a <> [] -> exists md, nget (names f1) a = Some (DDir md)) ->
                  (forall q, q <> q0 -> nget (names f1) q = nget (names f) q) ->
                  forall a b, r = a ++ b -> a <> [] ->
                  nget (names f1) (q0 ++ a) = None \/ exists md, nget (names f1) (q0 ++ a) = Some (DDir md)).
    { intros f1 _ Hsame a b E Ha. rewrite Hsame.
      - unfold q0. rewrite <- app_assoc. apply (Dr (c :: a) b); [cbn [app]; rewrite E; reflexivity|discriminate].
      - apply not_eq_sym. apply app_neq_strict. exact Ha. }
    assert (Hc0 : nget (names f) q0 = None \/ exists md, nget (names f) q0 = Some (DDir md))
      by (apply (Dr [c] r); [reflexivity|discriminate]).
    destruct Hc0 as [En|[md Ed]].
    + (* vacant: mkdir *)
      assert (Hd : is_dir f q0 = false).
      { unfold is_dir. rewrite stat_lit; [rewrite En; reflexivity|exact P0|exact D0|apply nolink_none; exact En]. }
      rewrite Hd, (mkdir_vacant f q0 P0 D0 En).
      set (f1 := with_names f (nset (names f) q0 (DDir default_dir_mode))).
      assert (H1 : forall a b, q0 = a ++ b -> a <> [] -> exists md, nget (names f1) a = Some (DDir md)).
      { intros a b E Ha. destruct b as [|x b] using rev_ind.
        - rewrite app_nil_r in E. subst a. exists default_dir_mode. apply nget_nset_same.
        - clear IHb. unfold q0 in E. rewrite app_assoc in E. apply app_inj_tail in E. destruct E as [E _].
          destruct (Dp a b E Ha) as [md H]. exists md. unfold f1. cbn [names with_names].
          rewrite nget_nset_other; [exact H|]. unfold q0. rewrite E. rewrite <- app_assoc.
          apply not_eq_sym. apply app_neq_strict. destruct b; discriminate. }
      assert (H2 : forall q, q <> q0 -> nget (names f1) q = nget (names f) q).
      { intros q Hq. unfold f1. cbn [names with_names]. apply nget_nset_other. auto. }
      destruct (IH q0 f1) as (f' & Hc & Hi & Hn & K1 & K2 & K3); [rewrite <- E0; exact P|exact H1|exact (Hon f1 H1 H2)|].
      exists f'. split; [exact Hc|]. split; [rewrite Hi; reflexivity|]. split; [rewrite Hn; reflexivity|].
      split; [|split].
      * intros q Hq. rewrite K1; [apply H2; intros ->; contradiction|].
        rewrite H2; [exact Hq|intros ->; contradiction].
      * intros q Hq (a & b & E & Ha & ->). destruct a as [|c' a]; [contradiction|]. cbn [app] in E. injection E as <- E.
        destruct a as [|c2 a].
        -- fold q0. rewrite K1; unfold f1; cbn [names with_names]; rewrite nget_nset_same; [reflexivity|discriminate].
        -- assert (Eq : pre ++ c :: c2 :: a = q0 ++ c2 :: a) by (unfold q0; rewrite <- app_assoc; reflexivity).
           rewrite Eq in *. apply K2.
           ++ rewrite H2; [exact Hq|]. apply not_eq_sym. apply app_neq_strict. discriminate.
           ++ exists (c2 :: a), b. repeat split; [exact E|discriminate].
      * intros q Hq Hno. destruct (path_eqb q q0) eqn:Eq.
        -- apply path_eqb_eq in Eq. subst q. exfalso. apply Hno. exists [c], r. repeat split. discriminate.
        -- apply neq_sym_path in Eq. apply K3; [rewrite H2; assumption|].
           intros (a & b & E & Ha & ->). apply Hno. exists (c :: a), b. repeat split; [cbn [app]; rewrite E; reflexivity|discriminate|].
           unfold q0. rewrite <- app_assoc. reflexivity.
    + (* already a directory *)
      assert (Hd : is_dir f q0 = true).
      { unfold is_dir. rewrite stat_lit; [rewrite Ed; reflexivity|exact P0|exact D0|eapply nolink_dir; exact Ed]. }
      rewrite Hd.
      assert (H1 : forall a b, q0 = a ++ b -> a <> [] -> exists md, nget (names f) a = Some (DDir md)).
      { intros a b E Ha. destruct b as [|x b] using rev_ind.
        - rewrite app_nil_r in E. subst a. eauto.
        - clear IHb. unfold q0 in E. rewrite app_assoc in E. apply app_inj_tail in E. destruct E as [E _]. exact (Dp a b E Ha). }
      destruct (IH q0 f) as (f' & Hc & Hi & Hn & K1 & K2 & K3); [rewrite <- E0; exact P|exact H1|exact (Hon f H1 (fun _ _ => eq_refl))|].
      exists f'. split; [exact Hc|]. split; [exact Hi|]. split; [exact Hn|]. split; [exact K1|]. split.
      * intros q Hq (a & b & E & Ha & ->). destruct a as [|c' a]; [contradiction|]. cbn [app] in E. injection E as <- E.
        destruct a as [|c2 a]; [fold q0 in Hq; rewrite Ed in Hq; discriminate|].
        assert (Eq : pre ++ c :: c2 :: a = q0 ++ c2 :: a) by (unfold q0; rewrite <- app_assoc; reflexivity).
        rewrite Eq in *. apply K2; [exact Hq|]. exists (c2 :: a), b. repeat split; [exact E|discriminate].
      * intros q Hq Hno. apply K3; [exact Hq|].
        intros (a & b & E & Ha & ->). apply Hno. exists (c :: a), b. repeat split; [cbn [app]; rewrite E; reflexivity|discriminate|].
        unfold q0. rewrite <- app_assoc. reflexivity.
Qed.

(* ---- paths whose bound proper ancestors are directories ------------------------------------------------ *)
Definition clear_way (m : list (path * dnode)) (P : path) : Prop :=
  forall a b, P = a ++ b -> a <> [] -> b <> [] -> nget m a = None \/ exists md, nget m a = Some (DDir md).

Lemma clear_ancs m P : clear_way m P -> ancs m P.
Proof. intros C a b E Ha Hb t. destruct (C a b E Ha Hb) as [H|[md H]]; rewrite H; discriminate. Qed.

Lemma clear_way_prefix m a b : clear_way m (a ++ b) -> clear_way m a.
Proof.
  intros C a1 a2 -> H1 H2. apply (C a1 (a2 ++ b)); [rewrite app_assoc; reflexivity|exact H1|].
  intros E. apply app_eq_nil in E. tauto.
Qed.

Lemma is_link_clear f q : Forall plain q -> ancs (names f) q -> nolink (names f) q -> is_link f q = false.
Proof.
  intros P A L. unfold is_link, lstat. destruct (resolve f q false) as [c0|] eqn:R; [|reflexivity].
  apply res_nf in R; try assumption. subst c0.
  destruct (nget (names f) q) as [[i|md|t]|] eqn:E; try reflexivity. exfalso. exact (L t E).
Qed.

Lemma lexists_clear f q : Forall plain q -> ancs (names f) q -> nget (names f) q = None -> lexists f q = false.
Proof.
  intros P A E. unfold lexists, lstat. destruct (resolve f q false) as [c0|] eqn:R; [|reflexivity].
  apply res_nf in R; try assumption. subst c0. rewrite E. reflexivity.
Qed.

Lemma no_link_anc_clear f : forall rest pre, Forall plain (pre ++ rest) -> clear_way (names f) (pre ++ rest) ->
  no_link_anc f pre rest = true.
Proof.
  induction rest as [|c r IH]; intros pre P C; [reflexivity|]. destruct r as [|c2 r]; [reflexivity|].
  rewrite no_link_anc_step.
  assert (E : pre ++ c :: c2 :: r = (pre ++ [c]) ++ c2 :: r) by (rewrite <- app_assoc; reflexivity).
  rewrite E in P, C.
  rewrite is_link_clear.
  - apply IH; assumption.
  - apply Forall_app in P. tauto.
  - apply clear_ancs. eapply clear_way_prefix. exact C.
  - intros t. destruct (C (pre ++ [c]) (c2 :: r) eq_refl) as [H|[md H]]; try (rewrite H; discriminate); try discriminate.
    destruct pre; discriminate.
Qed.

(* ---- a regular file at a literal path: the inode-level calls ---------------------------------------------- *)
Definition file_st (f : fs) (P : path) (i : N) (n : inode) : Prop :=
  dirs_above (names f) P /\ nget (names f) P = Some (DFile i) /\ iget (inodes f) i = Some n.
Definition upd (f f' : fs) (i : N) : Prop :=
  names f' = names f /\ next f' = next f /\ forall j, j <> i -> iget (inodes f') j = iget (inodes f) j.

Lemma upd_refl f i : upd f f i.
Proof. repeat split. Qed.
Lemma upd_trans f g h i : upd f g i -> upd g h i -> upd f h i.
Proof.
  intros (A1 & A2 & A3) (B1 & B2 & B3). split; [congruence|]. split; [congruence|].
  intros j Hj. rewrite B3, A3 by exact Hj. reflexivity.
Qed.

Lemma file_st_set f P i n n' :
  file_st f P i n -> file_st {| names := names f; inodes := iset (inodes f) i n'; next := next f |} P i n' /\
                     upd f {| names := names f; inodes := iset (inodes f) i n'; next := next f |} i.
Proof.
  intros (D & E & _). split; [split; [exact D|split; [exact E|apply iget_iset_same]]|].
  split; [reflexivity|]. split; [reflexivity|]. intros j Hj. cbn [inodes]. apply iget_iset_other. auto.
Qed.

Lemma update_inode_lit f P i n g : Forall plain P -> file_st f P i n ->
  update_inode f P g = ({| names := names f; inodes := iset (inodes f) i (g n); next := next f |}, true).
Proof.
  intros HP (D & E & I). unfold update_inode. rewrite resolve_fl; [|exact HP|exact D|eapply nolink_file; exact E].
  rewrite E, I. reflexivity.
Qed.

Lemma chmod_file_lit f P i n md : Forall plain P -> file_st f P i n ->
  chmod f P md = ({| names := names f;
                     inodes := iset (inodes f) i (mk_inode (i_content n) md (i_stamp n) (i_mtime n) (i_xattrs n));
                     next := next f |}, true).
Proof.
  intros HP (D & E & I). unfold chmod. rewrite resolve_fl; [|exact HP|exact D|eapply nolink_file; exact E].
  rewrite E, I. reflexivity.
Qed.

Lemma lset_xattrs_file_lit f P i n x xs : Forall plain P -> file_st f P i n ->
  lset_xattrs f P (x :: xs) =
    ({| names := names f;
        inodes := iset (inodes f) i (mk_inode (i_content n) (i_mode n) (i_stamp n) (i_mtime n) (xattr_merge (i_xattrs n) (x :: xs)));
        next := next f |}, true).
Proof.
  intros HP (D & E & I). unfold lset_xattrs. rewrite resolve_nf; [|exact HP|exact D].
  rewrite E, I. reflexivity.
Qed.

Lemma is_link_file f P i n : Forall plain P -> file_st f P i n -> is_link f P = false.
Proof. intros HP (D & E & _). unfold is_link. rewrite lstat_lit by assumption. rewrite E. reflexivity. Qed.

(* ---- the attribute table ------------------------------------------------------------------------------------ *)
Require Import Sorted.
Definition key_lt (a b : bytes * bytes) : Prop := bytes_ltb (fst a) (fst b) = true.
(* the attributes of a file as a table: names strictly increasing (so distinct), the way Fs.v keeps them *)
Definition xtable (xs : list (bytes * bytes)) : Prop := StronglySorted key_lt xs.

Lemma bytes_ltb_irrefl a : bytes_ltb a a = false.
Proof.
  induction a as [|x a IH]; [reflexivity|]. cbn [bytes_ltb].
  rewrite N.ltb_irrefl. exact IH.
Qed.

Lemma bytes_ltb_asym a : forall b, bytes_ltb a b = true -> bytes_ltb b a = false.
Proof.
  induction a as [|x a IH]; intros [|y b]; cbn [bytes_ltb]; try discriminate; try reflexivity.
  destruct (N.ltb (b2n x) (b2n y)) eqn:E1; destruct (N.ltb (b2n y) (b2n x)) eqn:E2; try discriminate; try reflexivity.
  - apply N.ltb_lt in E1. apply N.ltb_lt in E2. lia.
  - apply IH.
Qed.

Lemma xattr_put_last k v : forall acc, Forall (fun a => key_lt a (k, v)) acc -> xattr_put k v acc = acc ++ [(k, v)].
Proof.
  induction acc as [|[k' v'] acc IH]; intros H; [reflexivity|]. inversion H as [|? ? H1 H2]; subst.
  unfold key_lt in H1. cbn [fst] in H1. cbn [xattr_put app].
  assert (E1 : bytes_eqb k k' = false).
  { destruct (bytes_eqb k k') eqn:E; [|reflexivity]. apply bytes_eqb_eq in E. subst k'. rewrite bytes_ltb_irrefl in H1. discriminate. }
  rewrite E1, (bytes_ltb_asym _ _ H1), IH by exact H2. reflexivity.
Qed.

Lemma StronglySorted_app_inv {A} (R : A -> A -> Prop) : forall l x r, StronglySorted R (l ++ x :: r) ->
  Forall (fun a => R a x) l /\ StronglySorted R ((l ++ [x]) ++ r).
Proof.
  intros l x r H. split; [|rewrite <- app_assoc; exact H].
  induction l as [|y l IH]; [constructor|]. cbn [app] in H. apply StronglySorted_inv in H. destruct H as [H1 H2].
  constructor; [|apply IH; exact H1]. rewrite Forall_forall in H2. apply H2. apply in_or_app. right. left. reflexivity.
Qed.

Lemma xattr_merge_sorted : forall xs acc, xtable (acc ++ xs) -> xattr_merge acc xs = acc ++ xs.
Proof.
  unfold xattr_merge. induction xs as [|[k v] xs IH]; intros acc H; cbn [fold_left]; [rewrite app_nil_r; reflexivity|].
  apply StronglySorted_app_inv in H. destruct H as [H1 H2]. cbn [fst snd].
  rewrite xattr_put_last by exact H1. rewrite IH by exact H2. rewrite <- app_assoc. reflexivity.
Qed.

Lemma xattr_merge_nil xs : xtable xs -> xattr_merge [] xs = xs.
Proof. intros H. apply (xattr_merge_sorted xs []). exact H. Qed.

(* ---- link targets ------------------------------------------------------------------------------------------- *)
Lemma has_root_false_fields b l : b <> slash -> exists x r, fields slash (b :: l) = (b :: x) :: r.
Proof.
  intros Hb. rewrite fields_cons_other by exact Hb.
  destruct (fields slash l) as [|x r] eqn:E; [exfalso; exact (fields_not_nil slash l E)|]. eauto.
Qed.

Lemma join_cons_nonnil sep b x r : join sep ((b :: x) :: r) <> [].
Proof. destruct r; cbn [join app]; discriminate. Qed.

Lemma nr_nonnil s : s <> [] -> normalize_reference s <> [].
Proof.
  intros Hs. unfold normalize_reference. cbv zeta. destruct (has_root s) eqn:R; [discriminate|]. cbn [app].
  destruct s as [|b l]; [contradiction|]. cbn [has_root] in R.
  assert (Hb : b <> slash) by (intros ->; rewrite byte_eqb_refl in R; discriminate).
  destruct (has_root_false_fields b l Hb) as (x & r & E). unfold segments. rewrite E. cbn [filter is_empty negb].
  destruct (is_dot (b :: x)); cbn [app]; apply join_cons_nonnil.
Qed.

Lemma utf8_valid_nr s : utf8_valid s = true -> utf8_valid (normalize_reference s) = true.
Proof.
  rewrite (utf8_valid_segments s). intros H. unfold normalize_reference. cbv zeta.
  set (segs := filter (fun c => negb (is_empty c)) (segments s)).
  assert (Hs : forallb utf8_valid segs = true) by (apply forallb_filter; exact H).
  match goal with |- context [join [slash] ?k] => set (keep := k) end.
  assert (Hk : forallb utf8_valid keep = true).
  { subst keep. destruct segs as [|c0 r]; [reflexivity|]. cbn [forallb] in Hs. apply andb_true_iff in Hs. destruct Hs as [Hc Hr].
    rewrite forallb_app, (forallb_filter _ _ _ Hr), andb_true_r.
    destruct (is_dot c0); [destruct (has_root s)|]; cbn [forallb]; rewrite ?Hc; reflexivity. }
  destruct (has_root s); cbn [app].
  - change (slash :: join [slash] keep) with ([] ++ slash :: join [slash] keep).
    rewrite utf8_valid_split_ascii by exact slash_ascii. rewrite utf8_valid_join, Hk. reflexivity.
  - rewrite utf8_valid_join. exact Hk.
Qed.

(* ---- the premises about the tree and the walk order --------------------------------------------------------- *)
(* per node: a file's attributes form a table; a link target is a non-empty UTF-8 string (symlink(2) refuses the
   empty one, create_entry stores the target through EntryReference::from_lossy, extract_entry reads it back with
   read_to_string) *)
Definition node_wf (n : tnode) : Prop :=
  match n with
  | TFile _ _ _ xs => xtable xs
  | TDir _ => True
  | TLink tg => tg <> [] /\ utf8_valid tg = true
  end.

(* the list is a tree: every path once, none empty (the walked root itself is not an item: collect_items skips the
   empty entry name), and only directories have something below them *)
Definition tree_ok (t : tree) : Prop :=
  NoDup (map fst t) /\
  (forall p n, In (p, n) t -> p <> [] /\ node_wf n) /\
  (forall p q n m, In (p, n) t -> In (q, m) t -> strictly_below p q -> exists md, n = TDir md).

(* nothing is listed before a path that lies above it: the walker yields a directory before its contents *)
Definition parents_first (order : list path) : Prop :=
  forall l1 p l2 q, order = l1 ++ p :: l2 -> In q l1 -> ~ strictly_below p q.

(* needed only when directory entries exist and may not be written over *)
Definition walk_order_ok (c : copts) (o : xopts) (t : tree) (order : list path) : Prop :=
  Permutation (map fst t) order /\
  (c_keep_dir c = true -> o_overwrite o = false -> parents_first order).

(* the two premises with their definitions unfolded (for readers of Props/C02.v) *)
Lemma premises_unfolded : forall c o t order,
  (tree_ok t <->
     NoDup (map fst t) /\
     (forall p n, In (p, n) t -> p <> [] /\
        match n with
        | TFile _ _ _ xs => StronglySorted (fun a b => bytes_ltb (fst a) (fst b) = true) xs
        | TDir _ => True
        | TLink tg => tg <> [] /\ utf8_valid tg = true
        end) /\
     (forall p q n m, In (p, n) t -> In (q, m) t -> (exists b, b <> [] /\ q = p ++ b) -> exists md, n = TDir md)) /\
  (walk_order_ok c o t order <->
     Permutation (map fst t) order /\
     (c_keep_dir c = true -> o_overwrite o = false ->
      forall l1 p l2 q, order = l1 ++ p :: l2 -> In q l1 -> ~ (exists b, b <> [] /\ q = p ++ b))).
Proof. intros c o t order. split; split; intros H; exact H. Qed.

(* ================================================================================================= *)
Section CE.
Variable out : path.
Hypothesis out_plain : Forall plain out.
Hypothesis out_nonnil : out <> [].
Variable c : copts.
Variable o : xopts.
Hypothesis guarded : o_guarded o = true.

(* what the snapshot must find at out/p for the tree node n *)
Definition node_ok (f : fs) (p : path) (n : tnode) : Prop :=
  match n with
  | TFile d m mt xs =>
    exists i ino, nget (names f) (out ++ p) = Some (DFile i) /\ iget (inodes f) i = Some ino /\
      i_content ino = d /\ (kept_perm c o = true -> i_mode ino = mode_bits m) /\
      (kept_time c o = true -> i_mtime ino = Some mt) /\ (kept_xattr c o = true -> i_xattrs ino = xs)
  | TDir m => exists md, nget (names f) (out ++ p) = Some (DDir md) /\
                         (c_keep_dir c && kept_perm c o = true -> md = mode_bits m)
  | TLink tg => nget (names f) (out ++ p) = Some (DLink (normalize_reference (normalize_reference tg)))
  end.

(* the frame of one entry: only the destination and its vacant ancestors change, old inodes keep their content *)
Definition post (f f' : fs) (p : path) : Prop :=
  (forall q, is_prefix q (out ++ p) = false -> nget (names f') q = nget (names f) q) /\
  (forall a b, out ++ p = a ++ b -> b <> [] ->
     (nget (names f) a <> None -> nget (names f') a = nget (names f) a) /\
     (a <> [] -> exists md, nget (names f') a = Some (DDir md))) /\
  (forall i, i < next f -> iget (inodes f') i = iget (inodes f) i) /\
  next f <= next f' /\
  (forall i, nget (names f') (out ++ p) = Some (DFile i) -> i < next f').

Lemma entry_name p n : e_name (entry_of c p n) = path_str p.
Proof. destruct n; reflexivity. Qed.

Lemma outp_nonnil p : out ++ p <> [].
Proof. intros E. apply app_eq_nil in E. tauto. Qed.

(* parents first: create_dir_all of the destination's directory *)
Lemma prelude f p : Forall plain p -> p <> [] -> clear_way (names f) (out ++ p) ->
  exists f1, create_dir_all f (removelast (out ++ p)) = (f1, true) /\ inodes f1 = inodes f /\ next f1 = next f /\
    dirs_above (names f1) (out ++ p) /\
    (forall q, nget (names f) q <> None -> nget (names f1) q = nget (names f) q) /\
    (forall q, is_prefix q (out ++ p) = false -> nget (names f1) q = nget (names f) q) /\
    nget (names f1) (out ++ p) = nget (names f) (out ++ p).
Proof.
  intros Pp Hp C.
  assert (HP : Forall plain (out ++ p)) by (apply Forall_app; split; assumption).
  assert (EP : exists P0 x, out ++ p = (out ++ P0) ++ [x]).
  { destruct (exists_last Hp) as (p0 & x & ->). exists p0, x. apply app_assoc. }
  destruct EP as (p0 & x & EP). rewrite EP in *. rewrite removelast_last. set (P0 := out ++ p0) in *.
  destruct (cda_spec P0 [] f) as (f1 & Hc & Hi & Hn & K1 & K2 & K3).
  - cbn [app]. apply Forall_app in HP. tauto.
  - intros a b E Ha. destruct a; [contradiction|discriminate].
  - intros a b E Ha. cbn [app]. apply (C a (b ++ [x])); [rewrite E, app_assoc; reflexivity|exact Ha|].
    intro E2. apply app_eq_nil in E2. destruct E2; discriminate.
  - exists f1. unfold create_dir_all. split; [exact Hc|]. split; [exact Hi|]. split; [exact Hn|].
    assert (Kpre : forall q, is_prefix q (P0 ++ [x]) = false -> nget (names f1) q = nget (names f) q).
    { intros q Hq. destruct (nget (names f) q) eqn:E; [rewrite <- E; apply K1; rewrite E; discriminate|].
      apply K3; [exact E|]. intros (a & b & E2 & Ha & ->). cbn [app] in Hq.
      eapply is_prefix_false in Hq. apply Hq. rewrite E2, <- app_assoc. reflexivity. }
    split; [|split; [exact K1|split; [exact Kpre|]]].
    + intros a b E Ha Hb. destruct b as [|y b] using rev_ind; [contradiction|]. clear IHb.
      rewrite app_assoc in E. apply app_inj_tail in E. destruct E as [E _].
      destruct (C a (b ++ [x])) as [Hv|[md Hd]]; [rewrite E, app_assoc; reflexivity|exact Ha| |..].
      * intro E2. apply app_eq_nil in E2. destruct E2; discriminate.
      * exists default_dir_mode. apply K2; [exact Hv|]. exists a, b. cbn [app]. auto.
      * exists md. rewrite K1; [exact Hd|rewrite Hd; discriminate].
    + destruct (nget (names f) (P0 ++ [x])) eqn:E; [rewrite <- E; apply K1; rewrite E; discriminate|].
      apply K3; [exact E|]. intros (a & b & E2 & Ha & E3). cbn [app] in E3. subst a.
      apply (f_equal (@length bytes)) in E2. rewrite !app_length in E2. cbn [length] in E2. lia.
Qed.

(* the checks in front of the calls all pass *)
Lemma checks_pass f p : Forall plain p -> p <> [] -> clear_way (names f) (out ++ p) ->
  nil_b p = false /\ no_link_anc f out p = true /\
  (nolink (names f) (out ++ p) -> is_link f (out ++ p) = false) /\
  (nget (names f) (out ++ p) = None -> lexists f (out ++ p) = false).
Proof.
  intros Pp Hp C. assert (HP : Forall plain (out ++ p)) by (apply Forall_app; split; assumption).
  split; [destruct p; [contradiction|reflexivity]|]. split; [apply no_link_anc_clear; assumption|].
  split; [intros L; apply is_link_clear; [exact HP|apply clear_ancs; exact C|exact L]|].
  intros E. apply lexists_clear; [exact HP|apply clear_ancs; exact C|exact E].
Qed.

(* from the state after the parents were made to the frame of the whole entry *)
Lemma post_intro f f1 f' p :
  inodes f1 = inodes f -> next f1 = next f -> dirs_above (names f1) (out ++ p) ->
  (forall q, nget (names f) q <> None -> nget (names f1) q = nget (names f) q) ->
  (forall q, is_prefix q (out ++ p) = false -> nget (names f1) q = nget (names f) q) ->
  (forall q, q <> out ++ p -> nget (names f') q = nget (names f1) q) ->
  (forall i, i < next f -> iget (inodes f') i = iget (inodes f1) i) ->
  next f <= next f' ->
  (forall i, nget (names f') (out ++ p) = Some (DFile i) -> i < next f') ->
  post f f' p.
Proof.
  intros Hi Hn D K1 Kpre Hq Hino Hnx Hfr. split; [|split; [|split; [|split]]]; try assumption.
  - intros q Hp. rewrite Hq; [apply Kpre; exact Hp|]. intros ->. rewrite is_prefix_refl in Hp. discriminate.
  - intros a b E Hb.
    assert (Ha : a <> out ++ p) by (rewrite E; apply app_neq_strict; exact Hb).
    split.
    + intros Hbound. rewrite Hq by exact Ha. apply K1. exact Hbound.
    + intros Hne. rewrite Hq by exact Ha. apply (D a b E Hne Hb).
  - intros i Hlt. rewrite Hino by exact Hlt. rewrite Hi. reflexivity.
Qed.

(* ---- the metadata stages on a file just written ------------------------------------------------------------ *)
Lemma stage_time e f P i n : Forall plain P -> file_st f P i n ->
  exists f' n', (if o_keep_time o then match e_mtime e with Some t => set_mtime f P t | None => (f, true) end else (f, true)) = (f', true)
    /\ file_st f' P i n' /\ upd f f' i /\ i_content n' = i_content n /\ i_mode n' = i_mode n /\ i_xattrs n' = i_xattrs n
    /\ i_mtime n' = (if o_keep_time o then match e_mtime e with Some t => Some t | None => i_mtime n end else i_mtime n).
Proof.
  intros HP S. destruct (o_keep_time o); [|exists f, n; repeat split; try apply S; apply upd_refl].
  destruct (e_mtime e) as [t|]; [|exists f, n; repeat split; try apply S; apply upd_refl].
  unfold set_mtime. rewrite (update_inode_lit f P i n _ HP S).
  eexists. eexists. split; [reflexivity|]. destruct (file_st_set f P i n (mk_inode (i_content n) (i_mode n) (i_stamp n) (Some t) (i_xattrs n)) S) as [S' U].
  split; [exact S'|]. split; [exact U|]. repeat split.
Qed.

Lemma stage_perm e f P i n : Forall plain P -> file_st f P i n ->
  exists n', file_st (apply_perm o e f P) P i n' /\ upd f (apply_perm o e f P) i /\
    i_content n' = i_content n /\ i_mtime n' = i_mtime n /\ i_xattrs n' = i_xattrs n /\
    i_mode n' = (if o_keep_perm o then match e_perm e with Some m => m mod 4096 | None => i_mode n end else i_mode n).
Proof.
  intros HP S. unfold apply_perm. destruct (o_keep_perm o); [|exists n; repeat split; try apply S].
  destruct (e_perm e) as [m|]; [|exists n; repeat split; try apply S].
  rewrite (is_link_file f P i n HP S), andb_false_r. rewrite (chmod_file_lit f P i n _ HP S). cbn [fst].
  destruct (file_st_set f P i n (mk_inode (i_content n) (m mod 4096) (i_stamp n) (i_mtime n) (i_xattrs n)) S) as [S' U].
  eexists. split; [exact S'|]. split; [exact U|]. repeat split.
Qed.

Lemma xattr_merge_nil_r old : xattr_merge old [] = old.
Proof. reflexivity. Qed.

Lemma if_same_x {A} (b : bool) (x : A) : (if b then x else x) = x.
Proof. destruct b; reflexivity. Qed.

Lemma stage_xattr e f P i n : Forall plain P -> file_st f P i n ->
  exists f' n', (if o_keep_xattr o then lset_xattrs f P (e_xattrs e) else (f, true)) = (f', true)
    /\ file_st f' P i n' /\ upd f f' i /\ i_content n' = i_content n /\ i_mode n' = i_mode n /\ i_mtime n' = i_mtime n
    /\ i_xattrs n' = (if o_keep_xattr o then xattr_merge (i_xattrs n) (e_xattrs e) else i_xattrs n).
Proof.
  intros HP S. destruct (o_keep_xattr o); [|exists f, n; repeat split; try apply S; apply upd_refl].
  destruct (e_xattrs e) as [|x xs]; [exists f, n; repeat split; try apply S; apply upd_refl|].
  rewrite (lset_xattrs_file_lit f P i n x xs HP S).
  eexists. eexists. split; [reflexivity|].
  destruct (file_st_set f P i n (mk_inode (i_content n) (i_mode n) (i_stamp n) (i_mtime n) (xattr_merge (i_xattrs n) (x :: xs))) S) as [S' U].
  split; [exact S'|]. split; [exact U|]. repeat split.
Qed.

Lemma normal_plain_all p : Forall normal_component p -> Forall plain p.
Proof. intros H. eapply Forall_impl; [|exact H]. apply normal_plain. Qed.

Ltac open_entry Hn Hp C Hvac :=
  unfold extract_entry; cbv zeta; rewrite entry_name, (name_roundtrip _ Hn), guarded; cbn [andb];
  let K := fresh "K" in
  pose proof (checks_pass _ _ (normal_plain_all _ Hn) Hp C) as K;
  destruct K as (K1 & K2 & K3 & K4);
  rewrite K1, K2; cbn [andb negb].

(* ---- a regular file ------------------------------------------------------------------------------------------ *)
Lemma file_entry f p d m mt xs :
  Forall normal_component p -> p <> [] -> xtable xs ->
  clear_way (names f) (out ++ p) -> nget (names f) (out ++ p) = None ->
  exists f', extract_entry o out (entry_of c p (TFile d m mt xs)) f = (f', true) /\ post f f' p /\
             node_ok f' p (TFile d m mt xs).
Proof.
  intros Hn Hp Hx C Hvac. pose proof (normal_plain_all _ Hn) as Pp.
  assert (HP : Forall plain (out ++ p)) by (apply Forall_app; split; assumption).
  open_entry Hn Hp C Hvac. rewrite (K4 Hvac), andb_false_r, (K3 (nolink_none _ _ Hvac)). cbn [andthen].
  destruct (prelude f p Pp Hp C) as (f1 & Hc & Hi & Hnx & D1 & Q1 & Q2 & Q3). rewrite Hc. cbn [andthen].
  set (e := entry_of c p (TFile d m mt xs)).
  change (N.eqb (e_kind e) 0) with true. cbv iota.
  rewrite Hvac in Q3.
  unfold create_file. rewrite resolve_fl; [|exact HP|exact D1|apply nolink_none; exact Q3]. rewrite Q3. cbn [andthen].
  set (ino0 := mk_inode (e_data e) default_file_mode (next f1) None []).
  set (f2 := {| names := nset (names f1) (out ++ p) (DFile (next f1)); inodes := iset (inodes f1) (next f1) ino0; next := next f1 + 1 |}).
  assert (S2 : file_st f2 (out ++ p) (next f1) ino0).
  { split; [|split].
    - intros a b E Ha Hb. destruct (D1 a b E Ha Hb) as [md H]. exists md. cbn [names f2].
      rewrite nget_nset_other; [exact H|]. rewrite E. apply not_eq_sym. apply app_neq_strict. exact Hb.
    - apply nget_nset_same.
    - apply iget_iset_same. }
  destruct (stage_time e f2 (out ++ p) _ _ HP S2) as (f3 & n3 & E3 & S3 & U3 & C3 & M3 & X3 & T3). rewrite E3. cbn [andthen].
  (* extended attributes, then owner + mode *)
  destruct (stage_xattr e f3 (out ++ p) _ _ HP S3) as (f4 & n4 & E4 & S4 & U4 & C4 & M4 & T4 & X4).
  rewrite E4. cbn [andthen].
  destruct (stage_perm e f4 (out ++ p) _ _ HP S4) as (n5 & S5 & U5 & C5 & T5 & X5 & M5).
  set (f5 := apply_perm o e f4 (out ++ p)) in *.
  exists f5. split; [reflexivity|].
  pose proof (upd_trans _ _ _ _ (upd_trans _ _ _ _ U3 U4) U5) as (UN & UX & UI).
  split.
  - eapply (post_intro f f1 f5 p); try eassumption.
    + intros q Hq. rewrite UN. cbn [names f2]. apply nget_nset_other. auto.
    + intros i Hlt. rewrite UI by lia. cbn [inodes f2]. apply iget_iset_other. lia.
    + rewrite UX. cbn [next f2]. lia.
    + intros i. rewrite UN. cbn [names f2]. rewrite nget_nset_same. intros [= <-]. rewrite UX. cbn [next f2]. lia.
  - destruct S5 as (_ & N5 & I5). exists (next f1), n5. split; [exact N5|]. split; [exact I5|].
    split; [rewrite C5, C4, C3; reflexivity|].
    unfold kept_perm, kept_time, kept_xattr. split; [|split].
    + intros H. apply andb_true_iff in H. destruct H as [H1 H2]. rewrite M5, H2. subst e. cbn [entry_of e_perm]. rewrite H1. reflexivity.
    + intros H. apply andb_true_iff in H. destruct H as [H1 H2]. rewrite T5, T4, T3, H2. subst e. cbn [entry_of e_mtime]. rewrite H1. reflexivity.
    + intros H. apply andb_true_iff in H. destruct H as [H1 H2]. rewrite X5, X4, X3, H2. subst e ino0. cbn [entry_of e_xattrs i_xattrs]. rewrite H1.
      apply xattr_merge_nil. exact Hx.
Qed.

(* ---- a symbolic link --------------------------------------------------------------------------------------------- *)
Lemma link_entry f p tg :
  Forall normal_component p -> p <> [] -> tg <> [] -> utf8_valid tg = true ->
  clear_way (names f) (out ++ p) -> nget (names f) (out ++ p) = None ->
  exists f', extract_entry o out (entry_of c p (TLink tg)) f = (f', true) /\ post f f' p /\ node_ok f' p (TLink tg).
Proof.
  intros Hn Hp Ht Hu C Hvac. pose proof (normal_plain_all _ Hn) as Pp.
  assert (HP : Forall plain (out ++ p)) by (apply Forall_app; split; assumption).
  open_entry Hn Hp C Hvac. rewrite (K4 Hvac), andb_false_r, (K3 (nolink_none _ _ Hvac)). cbn [andthen].
  destruct (prelude f p Pp Hp C) as (f1 & Hc & Hi & Hnx & D1 & Q1 & Q2 & Q3). rewrite Hc. cbn [andthen].
  set (e := entry_of c p (TLink tg)).
  change (N.eqb (e_kind e) 0) with false. change (N.eqb (e_kind e) 1) with false. change (N.eqb (e_kind e) 2) with true.
  change (e_data e) with (normalize_reference tg). rewrite (utf8_valid_nr _ Hu). cbn [negb]. cbv iota.
  rewrite Hvac in Q3.
  assert (Hex : exists_ f1 (out ++ p) = false).
  { unfold exists_. rewrite stat_lit; [rewrite Q3; reflexivity|exact HP|exact D1|apply nolink_none; exact Q3]. }
  unfold replace_existing. rewrite Hex, andb_false_r. cbn [andthen].
  unfold symlink. rewrite resolve_nf by assumption. rewrite Q3.
  pose proof (nr_nonnil _ (nr_nonnil _ Ht)) as Hnn.
  destruct (normalize_reference (normalize_reference tg)) as [|b0 tl0] eqn:Etg; [contradiction|]. rewrite <- Etg. cbn [andthen].
  set (f2 := with_names f1 (nset (names f1) (out ++ p) (DLink (normalize_reference (normalize_reference tg))))).
  assert (D2 : dirs_above (names f2) (out ++ p)).
  { intros a b E Ha Hb. destruct (D1 a b E Ha Hb) as [md H]. exists md. cbn [names f2 with_names].
    rewrite nget_nset_other; [exact H|]. rewrite E. apply not_eq_sym. apply app_neq_strict. exact Hb. }
  assert (L2 : is_link f2 (out ++ p) = true).
  { unfold is_link. rewrite lstat_lit by assumption. cbn [names f2 with_names]. rewrite nget_nset_same. reflexivity. }
  assert (EP : apply_perm o e f2 (out ++ p) = f2).
  { unfold apply_perm. destruct (o_keep_perm o); [|reflexivity]. destruct (e_perm e); [|reflexivity].
    rewrite guarded, L2. reflexivity. }
  change (e_xattrs e) with (@nil (bytes * bytes)). cbn [lset_xattrs]. rewrite if_same_x. cbn [andthen]. rewrite EP.
  exists f2. split; [reflexivity|]. split.
  - eapply (post_intro f f1 f2 p); try eassumption.
    + intros q Hq. cbn [names f2 with_names]. apply nget_nset_other. auto.
    + intros i _. reflexivity.
    + cbn [next f2 with_names]. lia.
    + intros i. cbn [names f2 with_names]. rewrite nget_nset_same. discriminate.
  - cbn [node_ok names f2 with_names]. apply nget_nset_same.
Qed.

(* ---- a directory (only with --keep-dir) ---------------------------------------------------------------------------- *)
Lemma chmod_dir_lit f P md0 mode : Forall plain P -> dirs_above (names f) P -> nget (names f) P = Some (DDir md0) ->
  chmod f P mode = (with_names f (nset (names f) P (DDir mode)), true).
Proof.
  intros HP D E. unfold chmod. rewrite resolve_fl; [|exact HP|exact D|eapply nolink_dir; exact E]. rewrite E. reflexivity.
Qed.

Lemma dir_entry f p m :
  Forall normal_component p -> p <> [] ->
  clear_way (names f) (out ++ p) ->
  (nget (names f) (out ++ p) = None \/ (o_overwrite o = true /\ exists md, nget (names f) (out ++ p) = Some (DDir md))) ->
  exists f', extract_entry o out (entry_of c p (TDir m)) f = (f', true) /\ post f f' p /\ node_ok f' p (TDir m).
Proof.
  intros Hn Hp C Hdst. pose proof (normal_plain_all _ Hn) as Pp.
  assert (HP : Forall plain (out ++ p)) by (apply Forall_app; split; assumption).
  assert (Hcl : nget (names f) (out ++ p) = None \/ exists md, nget (names f) (out ++ p) = Some (DDir md))
    by (destruct Hdst as [H|[_ H]]; auto).
  open_entry Hn Hp C Hdst.
  assert (Hlx : negb (o_overwrite o) && lexists f (out ++ p) = false).
  { destruct Hdst as [H|[H _]]; [rewrite (K4 H); apply andb_false_r|rewrite H; reflexivity]. }
  rewrite Hlx.
  assert (Hnl : nolink (names f) (out ++ p)) by (destruct Hcl as [H|[md H]]; [apply nolink_none; exact H|eapply nolink_dir; exact H]).
  rewrite (K3 Hnl). cbn [andthen].
  destruct (prelude f p Pp Hp C) as (f1 & Hc & Hi & Hnx & D1 & Q1 & Q2 & Q3). rewrite Hc. cbn [andthen].
  set (e := entry_of c p (TDir m)).
  change (N.eqb (e_kind e) 0) with false. change (N.eqb (e_kind e) 1) with true. cbv iota.
  rewrite <- Q3 in Hcl.
  destruct (cda_spec (out ++ p) [] f1) as (f2 & Hc2 & Hi2 & Hn2 & J1 & J2 & J3).
  { exact HP. }
  { intros a b E Ha. destruct a; [contradiction|discriminate]. }
  { intros a b E Ha. cbn [app]. destruct b as [|y b].
    - rewrite app_nil_r in E. subst a. exact Hcl.
    - right. apply (D1 a (y :: b) E Ha). discriminate. }
  unfold create_dir_all. rewrite Hc2. cbn [andthen].
  assert (Hd2 : exists md2, nget (names f2) (out ++ p) = Some (DDir md2)).
  { destruct Hcl as [H|[md H]].
    - exists default_dir_mode. apply J2; [exact H|]. exists (out ++ p), []. rewrite app_nil_r. repeat split. apply outp_nonnil.
    - exists md. rewrite J1; [exact H|rewrite H; discriminate]. }
  assert (Hq2 : forall q, q <> out ++ p -> nget (names f2) q = nget (names f1) q).
  { intros q Hq. destruct (nget (names f1) q) eqn:E; [rewrite <- E; apply J1; rewrite E; discriminate|].
    apply J3; [exact E|]. intros (a & b & E2 & Ha & ->). cbn [app] in *. destruct b as [|y b].
    - rewrite app_nil_r in E2. auto.
    - destruct (D1 a (y :: b) E2 Ha) as [md H]; [discriminate|]. rewrite H in E. discriminate. }
  assert (D2 : dirs_above (names f2) (out ++ p)).
  { intros a b E Ha Hb. destruct (D1 a b E Ha Hb) as [md H]. exists md. rewrite Hq2; [exact H|].
    rewrite E. apply app_neq_strict. exact Hb. }
  destruct Hd2 as [md2 Hd2].
  assert (L2 : is_link f2 (out ++ p) = false).
  { unfold is_link. rewrite lstat_lit by assumption. rewrite Hd2. reflexivity. }
  change (e_xattrs e) with (@nil (bytes * bytes)). cbn [lset_xattrs]. rewrite if_same_x. cbn [andthen].
  exists (apply_perm o e f2 (out ++ p)). split; [reflexivity|].
  assert (EP : (apply_perm o e f2 (out ++ p) = f2 /\ (o_keep_perm o && c_keep_perm c = false)) \/
               (apply_perm o e f2 (out ++ p) = with_names f2 (nset (names f2) (out ++ p) (DDir (m mod 4096))))).
  { unfold apply_perm. destruct (o_keep_perm o); [|left; split; reflexivity]. subst e. cbn [entry_of e_perm].
    destruct (c_keep_perm c); [|left; split; reflexivity]. right.
    rewrite L2, andb_false_r. rewrite (chmod_dir_lit f2 (out ++ p) md2 _ HP D2 Hd2). reflexivity. }
  destruct EP as [[EP Hk]|EP]; rewrite EP.
  - split.
    + eapply (post_intro f f1 f2 p); try eassumption.
      * intros i _. rewrite Hi2. reflexivity.
      * lia.
      * intros i. rewrite Hd2. discriminate.
    + exists md2. split; [exact Hd2|]. unfold kept_perm. intros H. exfalso.
      rewrite andb_true_iff in H. destruct H as [_ H]. rewrite andb_comm in H. congruence.
  - split.
    + eapply (post_intro f f1 _ p); try eassumption.
      * intros q Hq. cbn [names with_names]. rewrite nget_nset_other by auto. apply Hq2. exact Hq.
      * intros i _. cbn [inodes with_names]. rewrite Hi2. reflexivity.
      * cbn [next with_names]. lia.
      * intros i. cbn [names with_names]. rewrite nget_nset_same. discriminate.
    + exists (m mod 4096). split; [cbn [names with_names]; apply nget_nset_same|]. intros _. reflexivity.
Qed.

(* ---- the state after a prefix of the walk ----------------------------------------------------------------------- *)
Variable t : tree.
Hypothesis WF : wf_tree t.
Hypothesis TOK : tree_ok t.

Lemma In_tget p n : In (p, n) t -> tget t p = Some n.
Proof.
  destruct TOK as (ND & _). clear TOK WF. unfold tget. induction t as [|[q m] t' IH]; intros H; [contradiction|].
  cbn [find fst]. cbn [map fst] in ND. inversion ND as [|? ? Hq ND']; subst.
  destruct H as [H|H].
  - injection H as -> ->. rewrite path_eqb_refl. reflexivity.
  - destruct (path_eqb q p) eqn:E.
    + apply path_eqb_eq in E. subst q. exfalso. apply Hq. apply in_map_iff. exists (p, n). auto.
    + apply IH; assumption.
Qed.

Lemma tget_normal p n : tget t p = Some n -> Forall normal_component p.
Proof. intros H. apply tget_In in H. unfold wf_tree in WF. rewrite Forall_forall in WF. exact (WF _ H). Qed.

Lemma tget_ok p n : tget t p = Some n -> p <> [] /\ node_wf n.
Proof. intros H. apply tget_In in H. destruct TOK as (_ & K & _). exact (K _ _ H). Qed.

Lemma tget_shape p q n m : tget t p = Some n -> tget t q = Some m -> strictly_below p q -> exists md, n = TDir md.
Proof. intros H1 H2. apply tget_In in H1. apply tget_In in H2. destruct TOK as (_ & _ & K). exact (K _ _ _ _ H1 H2). Qed.

Record Sim (f : fs) (done : list path) : Prop := {
  S_chain : forall a b, out = a ++ b -> exists md, nget (names f) a = Some (DDir md);
  S_bound : forall r, r <> [] -> nget (names f) (out ++ r) <> None -> exists p, In p done /\ is_prefix r p = true;
  S_anc : forall p a b, In p done -> p = a ++ b -> b <> [] -> exists md, nget (names f) (out ++ a) = Some (DDir md);
  S_node : forall p n, In p done -> tget t p = Some n -> node_ok f p n;
  S_fresh : fresh f }.

Lemma node_ok_bound f p n : node_ok f p n -> nget (names f) (out ++ p) <> None.
Proof.
  destruct n; cbn [node_ok].
  - intros (i & ino & H & _). rewrite H. discriminate.
  - intros (md & H & _). rewrite H. discriminate.
  - intros H. rewrite H. discriminate.
Qed.

(* what the state offers to the next item *)
Lemma pre_of_sim f done p n :
  Sim f done -> (forall q, In q done -> exists m, tget t q = Some m) -> tget t p = Some n -> ~ In p done ->
  clear_way (names f) (out ++ p) /\
  (nget (names f) (out ++ p) = None \/
   ((exists q, In q done /\ strictly_below p q) /\ exists md, nget (names f) (out ++ p) = Some (DDir md))).
Proof.
  intros S Hd Hp Hni. split.
  - intros a b E Ha Hb. apply prefix_split in E. destruct E as [(r & E1 & E2)|(r & E1 & E2)].
    + right. apply (S_chain f done S a r E1).
    + subst a. destruct r as [|x r0].
      * right. rewrite app_nil_r. apply (S_chain f done S out []). rewrite app_nil_r. reflexivity.
      * set (r := x :: r0) in *. destruct (nget (names f) (out ++ r)) eqn:En; [|left; reflexivity]. right. rewrite <- En.
        destruct (S_bound f done S r ltac:(discriminate)) as (p' & Hin & Hpre); [rewrite En; discriminate|].
        apply is_prefix_ex in Hpre. destruct Hpre as [b' ->]. destruct b' as [|y b'].
        -- rewrite app_nil_r in Hin. destruct (Hd _ Hin) as [m Hm].
           destruct (tget_shape r p m n Hm Hp) as [md ->]; [exists b; auto|].
           destruct (S_node f done S r _ Hin Hm) as (md' & H & _). eauto.
        -- apply (S_anc f done S (r ++ y :: b') r (y :: b') Hin eq_refl). discriminate.
  - destruct (nget (names f) (out ++ p)) eqn:En; [|left; reflexivity]. right.
    destruct (tget_ok p n Hp) as [Hne _].
    destruct (S_bound f done S p Hne) as (p' & Hin & Hpre); [rewrite En; discriminate|].
    apply is_prefix_ex in Hpre. destruct Hpre as [b' ->]. destruct b' as [|y b'].
    + rewrite app_nil_r in Hin. contradiction.
    + split; [exists (p ++ y :: b'); split; [exact Hin|exists (y :: b'); split; [discriminate|reflexivity]]|].
      rewrite <- En. apply (S_anc f done S (p ++ y :: b') p (y :: b') Hin eq_refl). discriminate.
Qed.

Lemma post_keeps f f' p q : post f f' p -> q <> out ++ p -> nget (names f) q <> None ->
  nget (names f') q = nget (names f) q.
Proof.
  intros (F1 & F2 & _) Hq Hb. destruct (is_prefix q (out ++ p)) eqn:E; [|apply F1; exact E].
  apply is_prefix_ex in E. destruct E as [b E]. destruct b as [|y b]; [rewrite app_nil_r in E; congruence|].
  apply (F2 q (y :: b) E); [discriminate|exact Hb].
Qed.

Lemma Sim_step f f' done p n :
  Sim f done -> (forall q, In q done -> exists m, tget t q = Some m) -> tget t p = Some n -> ~ In p done ->
  post f f' p -> node_ok f' p n -> Sim f' (done ++ [p]).
Proof.
  intros S Hd Hp Hni PO NO. destruct (tget_ok p n Hp) as [Hne _].
  pose proof PO as (F1 & F2 & F3 & F4 & F5).
  constructor.
  - intros a b E. destruct (S_chain f done S a b E) as [md H]. exists md. rewrite <- H.
    apply (F2 a (b ++ p)); [rewrite E, app_assoc; reflexivity| |rewrite H; discriminate].
    intros E2. apply app_eq_nil in E2. tauto.
  - intros r Hr Hb. destruct (is_prefix r p) eqn:E.
    + exists p. split; [apply in_or_app; right; left; reflexivity|exact E].
    + rewrite F1 in Hb by (rewrite is_prefix_app_l; exact E).
      destruct (S_bound f done S r Hr Hb) as (p' & Hin & Hpre). exists p'. split; [apply in_or_app; left; exact Hin|exact Hpre].
  - intros p' a b Hin E Hb. apply in_app_or in Hin. destruct Hin as [Hin|[<-|[]]].
    + destruct (S_anc f done S p' a b Hin E Hb) as [md H].
      destruct (path_eqb (out ++ a) (out ++ p)) eqn:Eq.
      * apply path_eqb_eq in Eq. apply app_inv_head in Eq. subst a.
        destruct (Hd _ Hin) as [m Hm]. destruct (tget_shape p p' n m Hp Hm) as [md' ->]; [exists b; auto|].
        destruct NO as (md2 & H2 & _). eauto.
      * exists md. rewrite <- H. apply (post_keeps f f' p); [exact PO|apply neq_sym_path; exact Eq|rewrite H; discriminate].
    + apply (F2 (out ++ a) b); [rewrite E, app_assoc; reflexivity|exact Hb|]. intros E2. apply app_eq_nil in E2. tauto.
  - intros p' n' Hin Hp'. apply in_app_or in Hin. destruct Hin as [Hin|[<-|[]]].
    + pose proof (S_node f done S p' n' Hin Hp') as N0.
      assert (Hq : out ++ p' <> out ++ p) by (intros E; apply app_inv_head in E; subst p'; contradiction).
      pose proof (post_keeps f f' p _ PO Hq (node_ok_bound _ _ _ N0)) as Hk.
      destruct n'; cbn [node_ok] in *.
      * destruct N0 as (i & ino & H1 & H2 & H3). exists i, ino. rewrite Hk. split; [exact H1|]. split; [|exact H3].
        rewrite F3; [exact H2|]. apply (S_fresh f done S _ _ H1).
      * rewrite Hk. exact N0.
      * rewrite Hk. exact N0.
    + rewrite Hp in Hp'. injection Hp' as <-. exact NO.
  - intros q i H. destruct (path_eqb q (out ++ p)) eqn:Eq.
    + apply path_eqb_eq in Eq. subst q. apply F5. exact H.
    + apply neq_sym_path in Eq. destruct (is_prefix q (out ++ p)) eqn:E.
      * apply is_prefix_ex in E. destruct E as [b E]. destruct b as [|y b]; [rewrite app_nil_r in E; congruence|].
        destruct q as [|x q].
        -- destruct (S_chain f done S [] out eq_refl) as [md H0].
           rewrite (proj1 (F2 [] (y :: b) E ltac:(discriminate))) in H by (rewrite H0; discriminate). congruence.
        -- destruct (proj2 (F2 (x :: q) (y :: b) E ltac:(discriminate))) as [md H0]; [discriminate|]. congruence.
      * rewrite F1 in H by exact E. pose proof (S_fresh f done S _ _ H). lia.
Qed.

(* ---- the whole walk -------------------------------------------------------------------------------------------------- *)
Lemma kept_tget p : kept c t p = true -> exists n, tget t p = Some n.
Proof. unfold kept. destruct (tget t p); [eauto|discriminate]. Qed.

Lemma filter_snoc {A} (g : A -> bool) l x : filter g (l ++ [x]) = filter g l ++ (if g x then [x] else []).
Proof. rewrite filter_app. reflexivity. Qed.

Lemma run_sim : forall rest l1 f ok0,
  NoDup (l1 ++ rest) -> (forall p, In p (l1 ++ rest) -> exists n, tget t p = Some n) ->
  (c_keep_dir c = true -> o_overwrite o = false -> parents_first (l1 ++ rest)) ->
  Sim f (filter (kept c t) l1) ->
  exists f', extract_each o out (create_from_tree c rest t) f ok0 = (f', ok0) /\
             Sim f' (filter (kept c t) (l1 ++ rest)).
Proof.
  induction rest as [|p r IH]; intros l1 f ok0 ND Hin PF S.
  - exists f. rewrite app_nil_r. split; [reflexivity|exact S].
  - assert (E : l1 ++ p :: r = (l1 ++ [p]) ++ r) by (rewrite <- app_assoc; reflexivity).
    destruct (Hin p) as [n Hp]; [apply in_or_app; right; left; reflexivity|].
    cbn [create_from_tree]. rewrite Hp.
    assert (Hk : kept c t p = collected c n) by (unfold kept; rewrite Hp; reflexivity).
    destruct (collected c n) eqn:Hc.
    + assert (Hd : forall q, In q (filter (kept c t) l1) -> exists m, tget t q = Some m).
      { intros q Hq. apply filter_In in Hq. apply kept_tget. tauto. }
      assert (Hni : ~ In p (filter (kept c t) l1)).
      { intros Hq. apply filter_In in Hq. apply NoDup_remove_2 in ND. apply ND. apply in_or_app. left. tauto. }
      destruct (pre_of_sim f _ p n S Hd Hp Hni) as [C Hdst].
      destruct (tget_ok p n Hp) as [Hne Hwf]. pose proof (tget_normal p n Hp) as Hnc.
      assert (Hvac : (forall md, n <> TDir md) -> nget (names f) (out ++ p) = None).
      { intros Hnd. destruct Hdst as [H|[(q & Hq & Hb) _]]; [exact H|]. exfalso.
        destruct (Hd q Hq) as [m' Hm']. destruct (tget_shape p q _ _ Hp Hm' Hb) as [md H]. exact (Hnd md H). }
      assert (Hstep : exists f1, extract_entry o out (entry_of c p n) f = (f1, true) /\ post f f1 p /\ node_ok f1 p n).
      { destruct n as [d m mt xs|m|tg].
        - apply file_entry; try assumption. apply Hvac. discriminate.
        - apply dir_entry; try assumption. destruct Hdst as [H|[(q & Hq & Hb) H]]; [left; exact H|]. right. split; [|exact H].
          destruct (o_overwrite o) eqn:Eo; [reflexivity|]. exfalso.
          apply (PF Hc eq_refl l1 p r q eq_refl); [apply filter_In in Hq; tauto|exact Hb].
        - destruct Hwf as [Ht Hu]. apply link_entry; try assumption. apply Hvac. discriminate. }
      destruct Hstep as (f1 & He & PO & NO).
      cbn [extract_each]. rewrite He. rewrite andb_true_r.
      destruct (IH (l1 ++ [p]) f1 ok0) as (f' & Hr & S'); [rewrite <- E; exact ND|rewrite <- E; exact Hin|rewrite <- E; exact PF| |].
      * rewrite filter_snoc, Hk. apply (Sim_step f f1 _ p n); assumption.
      * exists f'. split; [exact Hr|rewrite E; exact S'].
    + destruct (IH (l1 ++ [p]) f ok0) as (f' & Hr & S'); [rewrite <- E; exact ND|rewrite <- E; exact Hin|rewrite <- E; exact PF| |].
      * rewrite filter_snoc, Hk, app_nil_r. exact S.
      * exists f'. split; [exact Hr|rewrite E; exact S'].
Qed.

(* create never emits hard links *)
Lemma create_no_hardlinks : forall order, Forall (fun e => is_hardlink e = false) (create_from_tree c order t).
Proof.
  induction order as [|p r IH]; [constructor|]. cbn [create_from_tree].
  destruct (tget t p) as [n|]; [|exact IH]. destruct (collected c n); [|exact IH].
  constructor; [destruct n; reflexivity|exact IH].
Qed.

Lemma filter_none {A} (g : A -> bool) l : Forall (fun x => g x = false) l -> filter g l = [].
Proof. induction 1 as [|x l Hx _ IH]; [reflexivity|]. cbn [filter]. rewrite Hx. exact IH. Qed.

Lemma filter_all_neg {A} (g : A -> bool) l : Forall (fun x => g x = false) l -> filter (fun x => negb (g x)) l = l.
Proof. induction 1 as [|x l Hx _ IH]; [reflexivity|]. cbn [filter]. rewrite Hx, IH. reflexivity. Qed.

(* ---- the empty output directory ------------------------------------------------------------------------------------- *)
Lemma dir_chain_inv : forall rest pre q v, nget (dir_chain pre rest) q = Some v ->
  exists a b, rest = a ++ b /\ a <> [] /\ q = pre ++ a /\ v = DDir default_dir_mode.
Proof.
  induction rest as [|x r IH]; intros pre q v; cbn [dir_chain nget]; [discriminate|].
  destruct (path_eqb (pre ++ [x]) q) eqn:E.
  - apply path_eqb_eq in E. intros [= <-]. exists [x], r. repeat split; [discriminate|auto].
  - intros H. destruct (IH _ _ _ H) as (a & b & -> & Ha & -> & ->). exists (x :: a), b.
    repeat split; [discriminate|rewrite <- app_assoc; reflexivity].
Qed.

Lemma dir_chain_get : forall rest pre a b, rest = a ++ b -> a <> [] ->
  nget (dir_chain pre rest) (pre ++ a) = Some (DDir default_dir_mode).
Proof.
  induction rest as [|x r IH]; intros pre a b E Ha; [symmetry in E; apply app_eq_nil in E; tauto|].
  destruct a as [|y a]; [contradiction|]. cbn [app] in E. injection E as <- E. cbn [dir_chain nget].
  destruct a as [|z a].
  - rewrite path_eqb_refl. reflexivity.
  - rewrite path_eqb_neq.
    + replace (pre ++ x :: z :: a) with ((pre ++ [x]) ++ z :: a) by (rewrite <- app_assoc; reflexivity).
      apply (IH _ _ b); [exact E|discriminate].
    + replace (pre ++ x :: z :: a) with ((pre ++ [x]) ++ z :: a) by (rewrite <- app_assoc; reflexivity).
      apply app_neq_strict. discriminate.
Qed.

Lemma empty_dir_sim : Sim (empty_dir out) [].
Proof.
  constructor.
  - intros a b E. exists default_dir_mode. cbn [empty_dir names nget]. destruct a as [|x a]; [reflexivity|].
    cbn [path_eqb]. apply (dir_chain_get out [] (x :: a) b E). discriminate.
  - intros r Hr Hb. exfalso. apply Hb. cbn [empty_dir names nget].
    destruct (out ++ r) as [|x q] eqn:Eo; [apply app_eq_nil in Eo; tauto|]. cbn [path_eqb]. rewrite <- Eo.
    destruct (nget (dir_chain [] out) (out ++ r)) eqn:En; [|reflexivity].
    apply dir_chain_inv in En. destruct En as (a & b & E1 & _ & E2 & _). cbn [app] in E2. subst a.
    apply (f_equal (@length bytes)) in E1. rewrite !app_length in E1. destruct r; [contradiction|cbn [length] in E1; lia].
  - intros p a b [].
  - intros p n [].
  - intros q i. cbn [empty_dir names nget]. destruct (path_eqb [] q); [discriminate|].
    intros H. apply dir_chain_inv in H. destruct H as (_ & _ & _ & _ & _ & H). discriminate.
Qed.

(* ---- reading the result ------------------------------------------------------------------------------------------------ *)
Lemma flat_map_ext_in {A B} (g h : A -> list B) l : (forall x, In x l -> g x = h x) -> flat_map g l = flat_map h l.
Proof.
  induction l as [|x l IH]; intros H; [reflexivity|]. cbn [flat_map]. rewrite (H x) by (left; reflexivity).
  rewrite IH; [reflexivity|]. intros y Hy. apply H. right. exact Hy.
Qed.

Lemma read_back f order :
  NoDup order -> (forall p, In p order -> exists n, tget t p = Some n) ->
  (forall p n, In (p, n) t -> In p order) ->
  Sim f (filter (kept c t) order) ->
  tree_of c o out order f = expected c o order t.
Proof.
  intros ND Hin Hcov S. unfold tree_of, expected. apply flat_map_ext_in. intros p Hp.
  destruct (Hin p Hp) as [n Hn]. rewrite Hn.
  assert (Hdone : collected c n = true -> In p (filter (kept c t) order)).
  { intros H. apply filter_In. split; [exact Hp|]. unfold kept. rewrite Hn. exact H. }
  unfold enode_of, observe.
  destruct n as [d m mt xs|m|tg].
  - destruct (S_node f _ S p _ (Hdone eq_refl) Hn) as (i & ino & H1 & H2 & H3 & H4 & H5 & H6). rewrite H1, H2.
    cbn [expected_node]. rewrite H3.
    destruct (kept_perm c o); [rewrite (H4 eq_refl)|]; (destruct (kept_time c o); [rewrite (H5 eq_refl)|]);
      (destruct (kept_xattr c o); [rewrite (H6 eq_refl)|]); reflexivity.
  - cbn [expected_node]. destruct (c_keep_dir c) eqn:Kd.
    + destruct (S_node f _ S p _ (Hdone Kd) Hn) as (md & H1 & H2). rewrite H1. rewrite Kd in H2. cbn [orb andb] in *.
      destruct (kept_perm c o); [rewrite (H2 eq_refl)|]; reflexivity.
    + cbn [orb andb]. destruct (has_kept_below t p) eqn:Hb.
      * unfold has_kept_below in Hb. apply existsb_exists in Hb. destruct Hb as ([q nq] & Hq & Hb). cbn [fst snd] in Hb.
        apply andb_true_iff in Hb. destruct Hb as [Hb Hnd]. apply andb_true_iff in Hb. destruct Hb as [Hpre Hneq].
        apply is_prefix_ex in Hpre. destruct Hpre as [b ->].
        assert (Hbn : b <> []) by (intros ->; rewrite app_nil_r, path_eqb_refl in Hneq; discriminate).
        assert (Hqd : In (p ++ b) (filter (kept c t) order)).
        { apply filter_In. split; [apply (Hcov _ _ Hq)|]. unfold kept. rewrite (In_tget _ _ Hq). destruct nq; [reflexivity|discriminate|reflexivity]. }
        destruct (S_anc f _ S (p ++ b) p b Hqd eq_refl Hbn) as [md H]. rewrite H. reflexivity.
      * destruct (nget (names f) (out ++ p)) as [v|] eqn:En; [|reflexivity]. exfalso.
        destruct (tget_ok p _ Hn) as [Hne _].
        destruct (S_bound f _ S p Hne) as (q & Hq & Hpre); [rewrite En; discriminate|].
        apply filter_In in Hq. destruct Hq as [Hqo Hqk]. unfold kept in Hqk.
        destruct (tget t q) as [nq|] eqn:Hnq; [|discriminate].
        apply is_prefix_ex in Hpre. destruct Hpre as [b ->]. destruct b as [|y b].
        -- rewrite app_nil_r in Hnq. rewrite Hn in Hnq. injection Hnq as <-. cbn [collected] in Hqk. congruence.
        -- assert (existsb (fun e => is_prefix p (fst e) && negb (path_eqb p (fst e))
                                     && match snd e with TDir _ => false | _ => true end) t = true) as Hex.
           { apply existsb_exists. exists (p ++ y :: b, nq). split; [apply tget_In; exact Hnq|]. cbn [fst snd].
             rewrite (proj2 (is_prefix_ex p (p ++ y :: b))) by eauto.
             rewrite path_eqb_neq by (apply app_neq_strict; discriminate). cbn [negb andb].
             destruct nq; [reflexivity| |reflexivity]. cbn [collected] in Hqk. congruence. }
           unfold has_kept_below in Hb. congruence.
  - rewrite (S_node f _ S p _ (Hdone eq_refl) Hn). reflexivity.
Qed.

End CE.

(* ================================================================================================= *)
(* C02: create, then extract into an empty directory                                                    *)
(* ================================================================================================= *)
Theorem create_extract : forall c o out order t,
  o_guarded o = true -> wf_tree t -> tree_ok t -> walk_order_ok c o t order ->
  Forall plain out -> out <> [] ->
  tree_of c o out order (extract_all o out (create_from_tree c order t) (empty_dir out)) = expected c o order t /\
  snd (extract_run o out (create_from_tree c order t) (empty_dir out)) = true.
Proof.
  intros c o out order t G WF TOK [Perm PF] OP ON.
  assert (ND : NoDup order) by (eapply Permutation_NoDup; [exact Perm|exact (proj1 TOK)]).
  assert (Hin : forall p, In p order -> exists n, tget t p = Some n).
  { intros p Hp. apply (Permutation_in _ (Permutation_sym Perm)) in Hp. apply in_map_iff in Hp.
    destruct Hp as ([q n] & <- & H). exists n. apply (In_tget t TOK). exact H. }
  assert (Hcov : forall p n, In (p, n) t -> In p order).
  { intros p n H. apply (Permutation_in _ Perm). apply in_map_iff. exists (p, n). auto. }
  destruct (run_sim out OP ON c o G t WF TOK order [] (empty_dir out) true) as (f' & Hr & S);
    [exact ND|exact Hin|exact PF|apply empty_dir_sim; assumption|].
  cbn [app] in S. unfold extract_all, extract_run.
  rewrite (filter_all_neg is_hardlink), (filter_none is_hardlink) by apply create_no_hardlinks.
  rewrite Hr. cbn [extract_until fst snd]. split; [|reflexivity].
  apply (read_back out c o t TOK); assumption.
Qed.

(* ---- the premises are decidable on concrete trees ----------------------------------------------------------- *)
Definition normal_componentb (x : bytes) : bool := normal_seg x && negb (existsb (byte_eqb slash) x).
Definition wf_treeb (t : tree) : bool := forallb (fun e => forallb normal_componentb (fst e)) t.

Fixpoint nodupb (l : list path) : bool :=
  match l with [] => true | p :: r => negb (existsb (path_eqb p) r) && nodupb r end.

Fixpoint xtableb (xs : list (bytes * bytes)) : bool :=
  match xs with [] => true | a :: r => forallb (fun b => bytes_ltb (fst a) (fst b)) r && xtableb r end.

Definition node_wfb (n : tnode) : bool :=
  match n with
  | TFile _ _ _ xs => xtableb xs
  | TDir _ => true
  | TLink tg => negb (nil_b tg) && utf8_valid tg
  end.

Definition strictly_belowb (a p : path) : bool := is_prefix a p && negb (path_eqb a p).
Definition is_tdir (n : tnode) : bool := match n with TDir _ => true | _ => false end.

Definition tree_okb (t : tree) : bool :=
  nodupb (map fst t) &&
  forallb (fun e => negb (nil_b (fst e)) && node_wfb (snd e)) t &&
  forallb (fun e1 => forallb (fun e2 => implb (strictly_belowb (fst e1) (fst e2)) (is_tdir (snd e1))) t) t.

Fixpoint parents_firstb (seen order : list path) : bool :=
  match order with
  | [] => true
  | p :: r => negb (existsb (strictly_belowb p) seen) && parents_firstb (p :: seen) r
  end.

Lemma normal_componentb_sound x : normal_componentb x = true -> normal_component x.
Proof.
  unfold normal_componentb. rewrite andb_true_iff, negb_true_iff. intros [H1 H2].
  apply normal_seg_true in H1. destruct H1 as (A & B & C). repeat split; try assumption.
  intros Hin. assert (existsb (byte_eqb slash) x = true) as H; [|congruence].
  apply existsb_exists. exists slash. split; [exact Hin|apply byte_eqb_refl].
Qed.

Lemma wf_treeb_sound t : wf_treeb t = true -> wf_tree t.
Proof.
  unfold wf_treeb, wf_tree. rewrite forallb_forall. intros H. apply Forall_forall. intros e He.
  specialize (H e He). rewrite forallb_forall in H. apply Forall_forall. intros x Hx. apply normal_componentb_sound. auto.
Qed.

Lemma nodupb_sound l : nodupb l = true -> NoDup l.
Proof.
  induction l as [|p r IH]; cbn [nodupb]; [constructor|]. rewrite andb_true_iff, negb_true_iff. intros [H1 H2].
  constructor; [|apply IH; exact H2]. intros Hin.
  assert (existsb (path_eqb p) r = true) as H; [|congruence]. apply existsb_exists. exists p. split; [exact Hin|apply path_eqb_refl].
Qed.

Lemma xtableb_sound xs : xtableb xs = true -> xtable xs.
Proof.
  induction xs as [|a r IH]; cbn [xtableb]; [constructor|]. rewrite andb_true_iff. intros [H1 H2].
  constructor; [apply IH; exact H2|]. rewrite forallb_forall in H1. apply Forall_forall. exact H1.
Qed.

Lemma node_wfb_sound n : node_wfb n = true -> node_wf n.
Proof.
  destruct n as [d m mt xs|m|tg]; cbn [node_wfb node_wf]; [apply xtableb_sound|auto|].
  rewrite andb_true_iff, negb_true_iff. intros [H1 H2]. split; [intros ->; discriminate|exact H2].
Qed.

Lemma strictly_belowb_iff a p : strictly_belowb a p = true <-> strictly_below a p.
Proof.
  unfold strictly_belowb, strictly_below. rewrite andb_true_iff, negb_true_iff. split.
  - intros [H1 H2]. apply is_prefix_ex in H1. destruct H1 as [b ->]. exists b. split; [|reflexivity].
    intros ->. rewrite app_nil_r, path_eqb_refl in H2. discriminate.
  - intros (b & Hb & ->). split; [apply is_prefix_ex; eauto|]. apply path_eqb_neq. apply app_neq_strict. exact Hb.
Qed.

Lemma tree_okb_sound t : tree_okb t = true -> tree_ok t.
Proof.
  unfold tree_okb, tree_ok. rewrite !andb_true_iff. intros [[H1 H2] H3]. split; [apply nodupb_sound; exact H1|]. split.
  - intros p n Hin. rewrite forallb_forall in H2. specialize (H2 _ Hin). cbn [fst snd] in H2.
    rewrite andb_true_iff, negb_true_iff in H2. destruct H2 as [A B]. split; [intros ->; discriminate|apply node_wfb_sound; exact B].
  - intros p q n m Hp Hq Hb. rewrite forallb_forall in H3. specialize (H3 _ Hp). rewrite forallb_forall in H3. specialize (H3 _ Hq).
    cbn [fst snd] in H3. rewrite (proj2 (strictly_belowb_iff p q) Hb) in H3. cbn [implb] in H3.
    destruct n; try discriminate. eauto.
Qed.

Lemma parents_firstb_sound : forall order seen, parents_firstb seen order = true ->
  forall l1 p l2 q, order = l1 ++ p :: l2 -> In q (seen ++ l1) -> ~ strictly_below p q.
Proof.
  induction order as [|x r IH]; intros seen H l1 p l2 q E Hq; [destruct l1; discriminate|].
  cbn [parents_firstb] in H. rewrite andb_true_iff, negb_true_iff in H. destruct H as [H1 H2].
  destruct l1 as [|y l1]; cbn [app] in E; injection E as <- E.
  - rewrite app_nil_r in Hq. intros Hb. apply strictly_belowb_iff in Hb.
    assert (existsb (strictly_belowb x) seen = true) as H; [|congruence]. apply existsb_exists. eauto.
  - apply (IH (x :: seen) H2 l1 p l2 q E). apply in_app_or in Hq. cbn [app In].
    destruct Hq as [Hq|[Hq|Hq]]; [right; apply in_or_app; left; exact Hq|left; exact Hq|right; apply in_or_app; right; exact Hq].
Qed.

Lemma parents_firstb_ok order : parents_firstb [] order = true -> parents_first order.
Proof. intros H l1 p l2 q E Hq. apply (parents_firstb_sound order [] H l1 p l2 q E). exact Hq. Qed.

(* the tree of ExtractFacts (nested and empty directories, an empty file, attributes, links to a file, a directory
   and nothing) meets every premise, for every option vector *)
Example create_extract_premises : forall c o,
  wf_tree ex_tree /\ tree_ok ex_tree /\ walk_order_ok c o ex_tree ex_order /\ Forall plain ex_out /\ ex_out <> [].
Proof.
  intros c o. split; [exact wf_ex_tree|]. split; [apply tree_okb_sound; vm_compute; reflexivity|].
  split; [split; [apply Permutation_refl|intros _ _; apply parents_firstb_ok; vm_compute; reflexivity]|].
  split; [repeat constructor; vm_compute; reflexivity|discriminate].
Qed.

(* ---- the premises that are not about well-formedness are needed ------------------------------------------------ *)
(* o_guarded: the extractor before the C09 repairs applied a link entry's own mode (lrwxrwxrwx, stored by
   --keep-permission) with chmod, which follows the link: the file it points to comes out with mode 0777 *)
Definition t_link_mode : tree := [ ([lit "f"], TFile (lit "x") 384 1 []); ([lit "l"], TLink (lit "f")) ].
Definition c_perm := mk_copts false true false false.
Definition x_perm_unguarded := mk_xopts false true false false false.
Definition x_perm_guarded := mk_xopts false true false false true.
Example create_extract_unguarded_refuted :
  wf_tree t_link_mode /\ tree_ok t_link_mode /\ walk_order_ok c_perm x_perm_unguarded t_link_mode (map fst t_link_mode) /\
  tree_of c_perm x_perm_unguarded ex_out (map fst t_link_mode)
    (extract_all x_perm_unguarded ex_out (create_from_tree c_perm (map fst t_link_mode) t_link_mode) (empty_dir ex_out))
  <> expected c_perm x_perm_unguarded (map fst t_link_mode) t_link_mode /\
  tree_of c_perm x_perm_guarded ex_out (map fst t_link_mode)
    (extract_all x_perm_guarded ex_out (create_from_tree c_perm (map fst t_link_mode) t_link_mode) (empty_dir ex_out))
  = expected c_perm x_perm_guarded (map fst t_link_mode) t_link_mode.
Proof.
  split; [apply wf_treeb_sound; vm_compute; reflexivity|]. split; [apply tree_okb_sound; vm_compute; reflexivity|].
  split; [split; [apply Permutation_refl|discriminate]|]. split; [vm_compute; discriminate|vm_compute; reflexivity].
Qed.

(* parents_first: with --keep-dir and without --overwrite a directory entry that comes after something below it
   finds the directory already there and fails (AlreadyExists); with --overwrite the same order is fine *)
Definition t_dir_late : tree := [ ([lit "d"; lit "f"], TFile (lit "x") 420 1 []); ([lit "d"], TDir 448) ].
Definition c_dir := mk_copts true true false false.
Example parents_first_needed :
  wf_tree t_dir_late /\ tree_ok t_dir_late /\ Permutation (map fst t_dir_late) (map fst t_dir_late) /\
  snd (extract_run x_perm_guarded ex_out (create_from_tree c_dir (map fst t_dir_late) t_dir_late) (empty_dir ex_out)) = false /\
  snd (extract_run (mk_xopts true true false false true) ex_out (create_from_tree c_dir (map fst t_dir_late) t_dir_late) (empty_dir ex_out)) = true.
Proof.
  split; [apply wf_treeb_sound; vm_compute; reflexivity|]. split; [apply tree_okb_sound; vm_compute; reflexivity|].
  split; [apply Permutation_refl|]. split; vm_compute; reflexivity.
Qed.
