(* PartsFacts.v — multipart archives at byte level (Model/Archive.v read_parts / read_next_archive):
   a chain of part files as the split writer lays them out (header k, entry chunks, ANXT + AEND except
   in the last part) reads back as the entries cut out of the concatenated chunk stream; a chain damaged
   at any byte of any part (cut: C06, one altered byte: C05) yields exactly the entries completed by the
   chunks before the damage and ends with the error of the chunk that was hit; a part whose number is not
   its predecessor's + 1 and a missing part are reported; and, for ALL inputs, a read can end Ok only
   behind an AEND chunk that no ANXT precedes.  stdlib only, no axioms. *)
From PNA Require Import Base Crc32 Codec Chunk Archive BaseFacts Crc32Facts CodecFacts ChunkFacts ArchiveFacts OffsetFacts.
Require Import ZArith ZifyN ZifyNat ZifyBool.
Open Scope N_scope.

Notation rds := read_chunk_stream.
Notation fo := (fun b : bytes => S (length b)).

Definition mk_hdr (num : N) : ahed := {| a_major := 0; a_minor := 0; a_number := num |}.

(* ================================================================================================= *)
(* 1. vocabulary                                                                                       *)
(* ================================================================================================= *)
(* chunks of entries: anything but the two archive markers *)
Definition clean (cs : list chunk) : Prop := Forall (fun c => ty_is c ANXT = false /\ ty_is c AEND = false) cs.
Definition body_ok (cs : list chunk) : Prop := Forall wf_chunk cs /\ clean cs.

(* cut a chunk sequence behind every FEND / SEND: (complete entries, chunks of the entry still open);
   `buf` = chunks of the open entry carried in *)
Fixpoint scan (buf cs : list chunk) : list (list chunk) * list chunk :=
  match cs with
  | [] => ([], buf)
  | c :: r => if is_end c then let (es, b) := scan [] r in ((buf ++ [c]) :: es, b) else scan (buf ++ [c]) r
  end.

(* the chunks of `cs` that lie wholly within the first n bytes of its serialisation *)
Fixpoint chunks_before (cs : list chunk) (n : nat) : list chunk :=
  match cs with
  | [] => []
  | c :: r => let L := length (ser_chunk c) in
              if (L <=? n)%nat then c :: chunks_before r (n - L) else []
  end.

(* the chunk that contains byte n: (chunk, chunks after it, offset inside it) *)
Fixpoint hit (cs : list chunk) (n : nat) : option (chunk * list chunk * nat) :=
  match cs with
  | [] => None
  | c :: r => if (n <? length (ser_chunk c))%nat then Some (c, r, n) else hit r (n - length (ser_chunk c))
  end.

(* a part file: header with the part number, entry chunks, and the end marker, preceded by ANXT unless it
   is the last part (write_header / add_entry_part* / split_to_next_archive | finalize) *)
Definition markers (last : bool) : list chunk := if last then [mk AEND []] else [mk ANXT []; mk AEND []].
Definition part_chunks (num : N) (body : list chunk) (last : bool) : list chunk :=
  hdr_chunk num :: body ++ markers last.
Definition part_bytes (num : N) (body : list chunk) (last : bool) : bytes :=
  write_header num ++ ser_chunks (body ++ markers last).

Definition is_nil {A} (l : list A) : bool := match l with [] => true | _ => false end.
(* parts that all announce a successor *)
Fixpoint chain_nl (n0 : N) (bodies : list (list chunk)) : list bytes :=
  match bodies with
  | [] => []
  | b :: r => part_bytes n0 b false :: chain_nl (n0 + 1) r
  end.
(* a complete chain: the last part, and only it, carries no ANXT *)
Fixpoint chain (n0 : N) (bodies : list (list chunk)) : list bytes :=
  match bodies with
  | [] => []
  | b :: r => part_bytes n0 b (is_nil r) :: chain (n0 + 1) r
  end.

Lemma part_bytes_writer num body last :
  part_bytes num body last =
  write_header num ++ fst (add_chunks body) ++ (if last then finalize else next_marker ++ finalize).
Proof.
  unfold part_bytes. rewrite ser_chunks_app, add_chunks_fst. destruct last; cbn [markers];
    rewrite ?ser_chunks_cons, ser_chunks_nil, ?app_nil_r; reflexivity.
Qed.

Lemma part_bytes_chunks num body last : part_bytes num body last = sig ++ ser_chunks (part_chunks num body last).
Proof. unfold part_bytes, part_chunks. rewrite write_header_eq, ser_chunks_cons, <- app_assoc. reflexivity. Qed.

Lemma single_part_is_archive num es : part_bytes num (concat es) true = write_raw_archive num es.
Proof.
  rewrite part_bytes_writer, write_raw_archive_eq, add_chunks_fst, ser_entries_concat. reflexivity.
Qed.

Lemma chain_app n0 pre b post :
  chain n0 (pre ++ b :: post) = chain_nl n0 pre ++ part_bytes (n0 + len pre) b (is_nil post) :: chain (n0 + len pre + 1) post.
Proof.
  revert n0. induction pre as [|x pre IH]; intros n0; cbn [app chain chain_nl].
  - change (len []) with 0. rewrite N.add_0_r. reflexivity.
  - rewrite IH. destruct (pre ++ b :: post) eqn:E; [destruct pre; discriminate E|]. cbn [is_nil].
    rewrite len_cons. replace (n0 + (1 + len pre)) with (n0 + 1 + len pre) by lia. reflexivity.
Qed.

Lemma chain_nl_app n0 a b : chain_nl n0 (a ++ b) = chain_nl n0 a ++ chain_nl (n0 + len a) b.
Proof.
  revert n0. induction a as [|x a IH]; intros n0; cbn [app chain_nl].
  - change (len []) with 0. rewrite N.add_0_r. reflexivity.
  - rewrite IH, len_cons. replace (n0 + (1 + len a)) with (n0 + 1 + len a) by lia. reflexivity.
Qed.

Lemma chain_nl_length bodies : forall n0, length (chain_nl n0 bodies) = length bodies.
Proof. induction bodies as [|b r IH]; intros n0; cbn [chain_nl length]; [reflexivity|]. rewrite IH. reflexivity. Qed.

(* ---- scan ------------------------------------------------------------------------------------------------ *)
Lemma scan_end buf c r : is_end c = true -> scan buf (c :: r) = ((buf ++ [c]) :: fst (scan [] r), snd (scan [] r)).
Proof. intros H. cbn [scan]. rewrite H. destruct (scan [] r). reflexivity. Qed.

Lemma scan_plain buf c r : is_end c = false -> scan buf (c :: r) = scan (buf ++ [c]) r.
Proof. intros H. cbn [scan]. rewrite H. reflexivity. Qed.

Lemma scan_app a : forall buf b,
  scan buf (a ++ b) = (fst (scan buf a) ++ fst (scan (snd (scan buf a)) b), snd (scan (snd (scan buf a)) b)).
Proof.
  induction a as [|c a IH]; intros buf b; cbn [app].
  - cbn [scan fst snd app]. destruct (scan buf b). reflexivity.
  - destruct (is_end c) eqn:E.
    + rewrite !scan_end by exact E. cbn [fst snd]. rewrite IH. reflexivity.
    + rewrite !scan_plain by exact E. apply IH.
Qed.

Lemma scan_noend cs : forall buf, Forall (fun c => is_end c = false) cs -> scan buf cs = ([], buf ++ cs).
Proof.
  induction cs as [|c cs IH]; intros buf H; [rewrite app_nil_r; reflexivity|].
  inversion H; subst. rewrite scan_plain by assumption. rewrite IH by assumption. rewrite <- app_assoc. reflexivity.
Qed.

Lemma is_term_is_end c : is_term c = false -> is_end c = false.
Proof. intros H. apply is_term_false in H. apply H. Qed.

Lemma scan_entry e r buf : wf_entry e -> scan buf (e ++ r) = ((buf ++ e) :: fst (scan [] r), snd (scan [] r)).
Proof.
  intros He. apply wf_entry_inv in He. destruct He as (body & last & -> & He & _ & _ & Hn).
  rewrite <- app_assoc, scan_app.
  rewrite scan_noend by (eapply Forall_impl; [|exact Hn]; exact is_term_is_end).
  cbn [fst snd app]. rewrite scan_end by exact He. cbn [fst snd]. rewrite <- app_assoc. reflexivity.
Qed.

Lemma scan_entries es : Forall wf_entry es -> scan [] (concat es) = (es, []).
Proof.
  induction 1 as [|e es He _ IH]; [reflexivity|]. cbn [concat]. rewrite scan_entry by exact He.
  rewrite IH. reflexivity.
Qed.

(* number of leading entries that consist of the first m chunks *)
Fixpoint complete_chunks (es : list (list chunk)) (m : nat) : nat :=
  match es with
  | [] => 0
  | e :: r => if (length e <=? m)%nat then S (complete_chunks r (m - length e)) else 0
  end.

Lemma app_prefix_split {A} (a b d r : list A) : a ++ b = d ++ r -> (length a <= length d)%nat ->
  exists d', d = a ++ d' /\ b = d' ++ r.
Proof.
  revert d. induction a as [|x a IH]; intros d E L; cbn [app] in *; [exists d; auto|].
  destruct d as [|y d]; [cbn [length] in L; lia|]. cbn [app] in E. injection E as -> E.
  destruct (IH d E) as (d' & -> & ->); [cbn [length] in L; lia|]. exists d'. auto.
Qed.

Lemma app_prefix_short {A} (a b d r : list A) : a ++ b = d ++ r -> (length d < length a)%nat ->
  exists t, a = d ++ t /\ t <> [].
Proof.
  intros E L. symmetry in E. destruct (app_prefix_split d r a b E) as (t & -> & _); [lia|].
  exists t. split; [reflexivity|]. intros ->. rewrite app_nil_r in L. lia.
Qed.

(* the entries completed by a prefix (in chunks) of the chunk stream of well-formed entries *)
Lemma scan_prefix es : Forall wf_entry es -> forall d r, concat es = d ++ r ->
  fst (scan [] d) = firstn (complete_chunks es (length d)) es.
Proof.
  induction 1 as [|e es He Hw IH]; intros d r E; cbn [concat complete_chunks] in *.
  - symmetry in E. apply app_eq_nil in E. destruct E as [-> _]. reflexivity.
  - destruct (Nat.leb_spec (length e) (length d)) as [L|L].
    + destruct (app_prefix_split e (concat es) d r E L) as (d' & -> & E').
      rewrite scan_entry by exact He. cbn [fst firstn app]. rewrite (IH d' r E').
      rewrite app_length. replace (length e + length d' - length e)%nat with (length d') by lia. reflexivity.
    + destruct (app_prefix_short e (concat es) d r E L) as (t & Et & Ht).
      apply wf_entry_inv in He. destruct He as (body & last & -> & _ & _ & _ & Hn).
      assert (Hd : exists t', body = d ++ t').
      { destruct (app_prefix_split d t body [last]) as (t' & -> & _); [symmetry; exact Et| |eauto].
        apply (f_equal (@length _)) in Et. rewrite !app_length in Et. cbn [length] in Et.
        destruct t; [contradiction|]. cbn [length] in Et. lia. }
      destruct Hd as (t' & ->). apply Forall_app in Hn. destruct Hn as [Hn _].
      rewrite scan_noend by (eapply Forall_impl; [|exact Hn]; exact is_term_is_end). reflexivity.
Qed.

(* ---- chunks_before / hit ------------------------------------------------------------------------------------ *)
Lemma chunks_before_zero cs : chunks_before cs 0 = [].
Proof. destruct cs as [|c cs]; [reflexivity|]. cbn [chunks_before]. pose proof (ser_chunk_length_ge c). destruct (Nat.leb_spec (length (ser_chunk c)) 0); [lia|reflexivity]. Qed.

Lemma chunks_before_prefix cs : forall n, exists r, cs = chunks_before cs n ++ r.
Proof.
  induction cs as [|c cs IH]; intros n; cbn [chunks_before]; [exists []; reflexivity|].
  cbv zeta. destruct (_ <=? _)%nat; [|exists (c :: cs); reflexivity].
  destruct (IH (n - length (ser_chunk c))%nat) as [r E]. exists r. cbn [app]. rewrite <- E. reflexivity.
Qed.

Lemma chunks_before_app_l a b : forall n, (n < length (ser_chunks a))%nat -> chunks_before (a ++ b) n = chunks_before a n.
Proof.
  induction a as [|c a IH]; intros n H; [cbn in H; lia|]. cbn [app chunks_before]. cbv zeta.
  rewrite ser_chunks_cons, app_length in H.
  destruct (Nat.leb_spec (length (ser_chunk c)) n); [|reflexivity]. rewrite IH by lia. reflexivity.
Qed.

Lemma chunks_before_all a b : forall n, (length (ser_chunks a) <= n)%nat ->
  chunks_before (a ++ b) n = a ++ chunks_before b (n - length (ser_chunks a)).
Proof.
  induction a as [|c a IH]; intros n H; cbn [app].
  - rewrite ser_chunks_nil. cbn [length]. rewrite Nat.sub_0_r. reflexivity.
  - rewrite ser_chunks_cons, app_length in *. cbn [chunks_before]. cbv zeta.
    destruct (Nat.leb_spec (length (ser_chunk c)) n); [|lia]. rewrite IH by lia.
    replace (n - length (ser_chunk c) - length (ser_chunks a))%nat with (n - (length (ser_chunk c) + length (ser_chunks a)))%nat by lia.
    reflexivity.
Qed.

Lemma hit_some cs : forall n, (n < length (ser_chunks cs))%nat -> exists c after i, hit cs n = Some (c, after, i).
Proof.
  induction cs as [|c cs IH]; intros n H; [cbn in H; lia|]. cbn [hit].
  rewrite ser_chunks_cons, app_length in H.
  destruct (Nat.ltb_spec n (length (ser_chunk c))); [eauto|]. apply IH. lia.
Qed.

Lemma hit_inv cs : forall n c after i, hit cs n = Some (c, after, i) ->
  cs = chunks_before cs n ++ c :: after /\ (i < length (ser_chunk c))%nat /\
  n = (length (ser_chunks (chunks_before cs n)) + i)%nat.
Proof.
  induction cs as [|x cs IH]; intros n c after i H; [discriminate H|]. cbn [hit chunks_before] in *. cbv zeta.
  destruct (Nat.ltb_spec n (length (ser_chunk x))) as [L|L].
  - injection H as <- <- <-. destruct (Nat.leb_spec (length (ser_chunk x)) n); [lia|].
    rewrite ser_chunks_nil. cbn [app length]. auto.
  - destruct (Nat.leb_spec (length (ser_chunk x)) n); [|lia].
    destruct (IH _ _ _ _ H) as (E & Hi & Hn). split; [cbn [app]; rewrite <- E; reflexivity|]. split; [exact Hi|].
    rewrite ser_chunks_cons, app_length. lia.
Qed.

(* ================================================================================================= *)
(* 2. the reader on chunk runs with an open entry carried in the buffer                                *)
(* ================================================================================================= *)
Definition st (rest : bytes) (buf : list chunk) (nxt : bool) (h : ahed) : rstate :=
  {| r_rest := rest; r_buf := buf; r_next := nxt; r_hdr := h |}.

Lemma st_eta s : s = st (r_rest s) (r_buf s) (r_next s) (r_hdr s).
Proof. destruct s; reflexivity. Qed.

(* an entry chunk that does not close the entry moves from the input to the buffer *)
Lemma absorb_chunk c R buf nxt h : wf_chunk c -> is_term c = false ->
  next_raw_item rds (st (ser_chunk c ++ R) buf nxt h) = next_raw_item rds (st R (buf ++ [c]) nxt h).
Proof.
  intros Hc Ht. unfold next_raw_item, st. cbn [r_rest r_buf r_next r_hdr next_item_loop].
  rewrite read_chunk_ser by exact Hc. cbn [bind]. destruct (is_term_false c Ht) as (-> & -> & ->).
  rewrite (next_item_loop_fuel rds read_chunk_shorter read_chunk_no_panic _ (S (length R))); [reflexivity| |lia].
  rewrite app_length. pose proof (ser_chunk_length_ge c). lia.
Qed.

Lemma end_chunk_item c R buf nxt h : wf_chunk c -> is_end c = true ->
  next_raw_item rds (st (ser_chunk c ++ R) buf nxt h) = Ok (Some (buf ++ [c]), st R [] nxt h).
Proof.
  intros Hc He. unfold next_raw_item, st. cbn [r_rest r_buf r_next r_hdr next_item_loop].
  rewrite read_chunk_ser by exact Hc. cbn [bind]. unfold is_end in He. rewrite He. reflexivity.
Qed.

Lemma marker_flags :
  is_end (mk AEND []) = false /\ ty_is (mk AEND []) ANXT = false /\ ty_is (mk AEND []) AEND = true /\
  is_end (mk ANXT []) = false /\ ty_is (mk ANXT []) ANXT = true /\ wf_chunk (mk ANXT []).
Proof. repeat split; vm_compute; reflexivity. Qed.

Lemma aend_item R buf nxt h :
  next_raw_item rds (st (ser_chunk (mk AEND []) ++ R) buf nxt h) = Ok (None, st R buf nxt h).
Proof.
  unfold next_raw_item, st. cbn [r_rest r_buf r_next r_hdr next_item_loop].
  rewrite read_chunk_ser by exact wf_chunk_aend. cbn [bind].
  destruct marker_flags as (E1 & E2 & E3 & _). unfold is_end in E1. rewrite E1, E2, E3. reflexivity.
Qed.

Lemma anxt_item R buf nxt h :
  next_raw_item rds (st (ser_chunk (mk ANXT []) ++ R) buf nxt h) = next_raw_item rds (st R buf true h).
Proof.
  unfold next_raw_item, st. cbn [r_rest r_buf r_next r_hdr next_item_loop].
  destruct marker_flags as (_ & _ & _ & E1 & E2 & W).
  rewrite read_chunk_ser by exact W. cbn [bind]. unfold is_end in E1. rewrite E1, E2.
  rewrite (next_item_loop_fuel rds read_chunk_shorter read_chunk_no_panic _ (S (length R))); [reflexivity| |lia].
  rewrite app_length. pose proof (ser_chunk_length_ge (mk ANXT [])). lia.
Qed.

Lemma markers_item last R buf nxt h :
  next_raw_item rds (st (ser_chunks (markers last) ++ R) buf nxt h) = Ok (None, st R buf (nxt || negb last) h).
Proof.
  destruct last; cbn [markers negb]; rewrite !ser_chunks_cons, ser_chunks_nil, ?app_nil_r, <- ?app_assoc.
  - rewrite orb_false_r. apply aend_item.
  - rewrite anxt_item, aend_item, orb_true_r. reflexivity.
Qed.

(* two states on which the next item is the same run the same, up to the state reported with an error *)
Lemma loop_transfer_ok s1 s2 fuel es s' : next_raw_item rds s1 = next_raw_item rds s2 ->
  raw_entries_loop rds fuel s2 = (es, FinOk, s') -> raw_entries_loop rds fuel s1 = (es, FinOk, s').
Proof.
  intros H. destruct fuel as [|f]; cbn [raw_entries_loop]; [discriminate|]. rewrite H.
  destruct (next_raw_item rds s2) as [[[e|] s0]|e|]; try discriminate; auto.
Qed.

Lemma loop_transfer_err s1 s2 fuel es e s' : next_raw_item rds s1 = next_raw_item rds s2 ->
  raw_entries_loop rds fuel s2 = (es, FinErr e, s') -> exists s'', raw_entries_loop rds fuel s1 = (es, FinErr e, s'').
Proof.
  intros H. destruct fuel as [|f]; cbn [raw_entries_loop]; [discriminate|]. rewrite H.
  destruct (next_raw_item rds s2) as [[[x|] s0]|k|]; try discriminate; eauto.
  intros [= <- <- <-]. eauto.
Qed.

Lemma clean_not_term c : ty_is c ANXT = false /\ ty_is c AEND = false -> is_end c = false -> is_term c = false.
Proof. intros [H1 H2] H3. unfold is_term. unfold is_end in H3. rewrite H3, H1, H2. reflexivity. Qed.

(* an undamaged part body followed by its markers *)
Lemma body_good last junk h : forall cs buf nxt fuel, body_ok cs ->
  (length (ser_chunks (cs ++ markers last) ++ junk) < fuel)%nat ->
  raw_entries_loop rds fuel (st (ser_chunks (cs ++ markers last) ++ junk) buf nxt h) =
  (fst (scan buf cs), FinOk, st junk (snd (scan buf cs)) (nxt || negb last) h).
Proof.
  induction cs as [|c cs IH]; intros buf nxt fuel [Hw Hc] Hf.
  - cbn [app] in *. destruct fuel as [|fuel]; [lia|]. cbn [raw_entries_loop]. rewrite markers_item. reflexivity.
  - inversion Hw as [|? ? Hwc Hw']; subst. inversion Hc as [|? ? Hcc Hc']; subst.
    cbn [app] in *. rewrite ser_chunks_cons, <- app_assoc in *. rewrite app_length in Hf.
    pose proof (ser_chunk_length_ge c) as Lc.
    destruct (is_end c) eqn:He.
    + destruct fuel as [|fuel]; [lia|]. cbn [raw_entries_loop]. rewrite end_chunk_item by assumption.
      rewrite IH by (try split; try assumption; lia). rewrite scan_end by exact He. reflexivity.
    + apply (loop_transfer_ok _ _ _ _ _ (absorb_chunk c _ buf nxt h Hwc (clean_not_term c Hcc He))).
      rewrite IH by (try split; try assumption; lia). rewrite scan_plain by exact He. reflexivity.
Qed.

(* ---- generic damage: `dmg bs n` leaves the part before offset n untouched ------------------------------------ *)
Section Damage.
Variable dmg : bytes -> nat -> bytes.
Hypothesis dmg_app_r : forall A B n, (length A <= n)%nat -> dmg (A ++ B) n = A ++ dmg B (n - length A).

(* the reader delivers what the chunks before the damage complete, then calls the chunk parser on the
   damaged chunk; whatever error that call gives ends the iteration *)
Lemma body_bad last junk h e : forall cs buf nxt fuel n c after i, body_ok cs ->
  hit (cs ++ markers last) n = Some (c, after, i) ->
  rds (dmg (ser_chunk c ++ ser_chunks after ++ junk) i) = Err e ->
  (length (dmg (ser_chunks (cs ++ markers last) ++ junk) n) < fuel)%nat ->
  exists s', raw_entries_loop rds fuel (st (dmg (ser_chunks (cs ++ markers last) ++ junk) n) buf nxt h) =
             (fst (scan buf (chunks_before cs n)), FinErr e, s').
Proof.
  induction cs as [|x cs IH]; intros buf nxt fuel n c after i [Hw Hc] Hh He Hf.
  - (* the damage is in the markers *)
    cbn [app chunks_before scan fst] in *. destruct fuel as [|fuel]; [lia|]. cbn [raw_entries_loop].
    assert (E : next_raw_item rds (st (dmg (ser_chunks (markers last) ++ junk) n) buf nxt h) = Err e).
    { destruct last; cbn [markers hit] in Hh |- *.
      - destruct (Nat.ltb_spec n (length (ser_chunk (mk AEND [])))) as [L|L]; [|discriminate Hh].
        injection Hh as <- <- <-. rewrite ser_chunks_nil in He.
        rewrite ser_chunks_cons, ser_chunks_nil, app_nil_r.
        unfold next_raw_item, st. cbn [r_rest r_buf r_next r_hdr next_item_loop]. cbn [app] in He. rewrite He. reflexivity.
      - destruct (Nat.ltb_spec n (length (ser_chunk (mk ANXT [])))) as [L|L].
        + injection Hh as <- <- <-. rewrite ser_chunks_cons, <- app_assoc.
          unfold next_raw_item, st. cbn [r_rest r_buf r_next r_hdr next_item_loop]. rewrite He. reflexivity.
        + destruct (Nat.ltb_spec (n - length (ser_chunk (mk ANXT []))) (length (ser_chunk (mk AEND [])))) as [L2|L2]; [|discriminate Hh].
          injection Hh as <- <- <-. rewrite ser_chunks_nil in He. cbn [app] in He.
          rewrite !ser_chunks_cons, ser_chunks_nil, app_nil_r, <- app_assoc.
          rewrite dmg_app_r by exact L. rewrite anxt_item.
          assert (L12 : length (ser_chunk (mk ANXT [])) = 12%nat) by (vm_compute; reflexivity).
          rewrite L12 in *.
          unfold next_raw_item, st. cbn [r_rest r_buf r_next r_hdr next_item_loop]. rewrite He. reflexivity. }
    rewrite E. eauto.
  - inversion Hw as [|? ? Hwx Hw']; subst. inversion Hc as [|? ? Hcx Hc']; subst.
    cbn [app hit chunks_before] in *. cbv zeta. rewrite ser_chunks_cons, <- app_assoc in *.
    destruct (Nat.ltb_spec n (length (ser_chunk x))) as [L|L].
    + (* the damage is in this chunk *)
      injection Hh as <- <- <-. destruct (Nat.leb_spec (length (ser_chunk x)) n); [lia|].
      cbn [scan fst]. destruct fuel as [|fuel]; [lia|]. cbn [raw_entries_loop].
      assert (E : next_raw_item rds (st (dmg (ser_chunk x ++ ser_chunks (cs ++ markers last) ++ junk) n) buf nxt h) = Err e).
      { unfold next_raw_item, st. cbn [r_rest r_buf r_next r_hdr next_item_loop]. rewrite He. reflexivity. }
      rewrite E. eauto.
    + destruct (Nat.leb_spec (length (ser_chunk x)) n); [|lia].
      rewrite dmg_app_r in * by exact L. rewrite app_length in Hf. pose proof (ser_chunk_length_ge x) as Lx.
      destruct (is_end x) eqn:Ee.
      * destruct fuel as [|fuel]; [lia|]. cbn [raw_entries_loop]. rewrite end_chunk_item by assumption.
        destruct (IH [] nxt fuel _ _ _ _ (conj Hw' Hc') Hh He) as [s' Es']; [lia|].
        rewrite Es'. rewrite scan_end by exact Ee. eauto.
      * destruct (IH (buf ++ [x]) nxt fuel _ _ _ _ (conj Hw' Hc') Hh He) as [s' Es']; [lia|].
        destruct (loop_transfer_err _ _ _ _ _ _ (absorb_chunk x _ buf nxt h Hwx (clean_not_term x Hcx Ee)) Es') as [s'' Es''].
        rewrite Es''. rewrite scan_plain by exact Ee. eauto.
Qed.
End Damage.

(* ================================================================================================= *)
(* 3. part chains                                                                                      *)
(* ================================================================================================= *)
(* what read_parts_loop does once a part has ended Ok with a successor announced *)
Definition continue_with (s : rstate) (parts : list bytes) : list (list chunk) * fin :=
  match parts with
  | [] => ([], FinErr NotFound)
  | p :: ps =>
    match read_next_archive rds s p with
    | Ok s2 => read_parts_loop rds s2 fo ps (fo p)
    | Err k => ([], FinErr k)
    | Panic => ([], FinPanic)
    end
  end.

Lemma rpl_err s parts cur es e s' : raw_entries_loop rds cur s = (es, FinErr e, s') ->
  read_parts_loop rds s fo parts cur = (es, FinErr e).
Proof. intros H. destruct parts; cbn [read_parts_loop]; rewrite H; reflexivity. Qed.

Lemma rpl_last s parts cur es s' : raw_entries_loop rds cur s = (es, FinOk, s') -> r_next s' = false ->
  read_parts_loop rds s fo parts cur = (es, FinOk).
Proof. intros H Hn. destruct parts; cbn [read_parts_loop]; rewrite H, Hn; reflexivity. Qed.

Lemma rpl_next s parts cur es s' : raw_entries_loop rds cur s = (es, FinOk, s') -> r_next s' = true ->
  read_parts_loop rds s fo parts cur = (es ++ fst (continue_with s' parts), snd (continue_with s' parts)).
Proof.
  intros H Hn. destruct parts as [|p ps]; cbn [read_parts_loop continue_with]; rewrite H, Hn.
  - cbn [fst snd]. rewrite app_nil_r. reflexivity.
  - destruct (read_next_archive rds s' p) as [s2|k|]; cbn [fst snd]; rewrite ?app_nil_r; try reflexivity.
    destruct (read_parts_loop rds s2 fo ps (S (length p))). reflexivity.
Qed.

Lemma next_written s m R : a_number (r_hdr s) + 1 = m -> m < 2 ^ 32 ->
  read_next_archive rds s (write_header m ++ R) = Ok (st R (r_buf s) false (mk_hdr m)).
Proof.
  intros E Hm. unfold read_next_archive. rewrite open_written by exact Hm. cbn [bind r_hdr a_number].
  rewrite E. destruct (N.ltb_spec m (2 ^ 32)); [|lia]. rewrite N.eqb_refl. reflexivity.
Qed.

Lemma next_mismatch s m R : a_number (r_hdr s) + 1 <> m -> m < 2 ^ 32 ->
  read_next_archive rds s (write_header m ++ R) = Err InvalidData.
Proof.
  intros E Hm. unfold read_next_archive. rewrite open_written by exact Hm. cbn [bind r_hdr a_number].
  destruct (N.eqb_spec (a_number (r_hdr s) + 1) m); [contradiction|]. rewrite andb_false_r. reflexivity.
Qed.

Lemma continue_written s m b lf ps : a_number (r_hdr s) + 1 = m -> m < 2 ^ 32 ->
  continue_with s (part_bytes m b lf :: ps) =
  read_parts_loop rds (st (ser_chunks (b ++ markers lf)) (r_buf s) false (mk_hdr m)) fo ps (S (length (part_bytes m b lf))).
Proof. intros E Hm. cbn [continue_with]. unfold part_bytes at 1. rewrite next_written by assumption. reflexivity. Qed.

Lemma continue_mismatch s m b lf ps : a_number (r_hdr s) + 1 <> m -> m < 2 ^ 32 ->
  continue_with s (part_bytes m b lf :: ps) = ([], FinErr InvalidData).
Proof. intros E Hm. cbn [continue_with]. unfold part_bytes at 1. rewrite next_mismatch by assumption. reflexivity. Qed.

Lemma part_bytes_length num b last : length (part_bytes num b last) = (28 + length (ser_chunks (b ++ markers last)))%nat.
Proof. unfold part_bytes. rewrite app_length, write_header_length. reflexivity. Qed.

(* reading through a run of undamaged parts that all announce a successor: the entries are those cut out
   of the concatenated chunk stream, the open entry travels in the buffer, and the reader asks for the next
   part with the number of the last one read *)
Lemma chain_loop_prefix : forall pre b n0 buf cur X, Forall body_ok (b :: pre) -> n0 + len pre < 2 ^ 32 ->
  (length (ser_chunks (b ++ markers false)) < cur)%nat ->
  let sc := scan buf (b ++ concat pre) in
  let s_end := st [] (snd sc) true (mk_hdr (n0 + len pre)) in
  read_parts_loop rds (st (ser_chunks (b ++ markers false)) buf false (mk_hdr n0)) fo (chain_nl (n0 + 1) pre ++ X) cur =
  (fst sc ++ fst (continue_with s_end X), snd (continue_with s_end X)).
Proof.
  induction pre as [|b' pre IH]; intros b n0 buf cur X Hb Hn Hc; cbv zeta.
  - inversion Hb as [|? ? Hb0 _]; subst. cbn [chain_nl app concat].
    rewrite (rpl_next _ _ _ (fst (scan buf b)) (st [] (snd (scan buf b)) true (mk_hdr n0))).
    + rewrite app_nil_r. change (len []) with 0. rewrite N.add_0_r. reflexivity.
    + rewrite <- (app_nil_r (ser_chunks _)). rewrite body_good by (try exact Hb0; rewrite app_nil_r; exact Hc). reflexivity.
    + reflexivity.
  - inversion Hb as [|? ? Hb0 Hb']; subst. cbn [chain_nl app concat].
    rewrite len_cons in Hn |- *.
    rewrite (rpl_next _ _ _ (fst (scan buf b)) (st [] (snd (scan buf b)) true (mk_hdr n0))).
    + rewrite continue_written by (cbn [r_hdr st mk_hdr a_number]; lia).
      cbn [r_buf st]. rewrite IH; [| exact Hb' | lia | rewrite part_bytes_length; lia].
      cbn [fst snd]. rewrite (scan_app b). cbn [fst snd]. rewrite <- app_assoc.
      replace (n0 + 1 + len pre) with (n0 + (1 + len pre)) by lia. reflexivity.
    + rewrite <- (app_nil_r (ser_chunks _)). rewrite body_good by (try exact Hb0; rewrite app_nil_r; exact Hc). reflexivity.
    + reflexivity.
Qed.

(* the first part is opened by read_parts itself *)
Lemma read_parts_first num b last rest_parts : num < 2 ^ 32 ->
  read_parts rds (part_bytes num b last :: rest_parts) =
  Ok (read_parts_loop rds (st (ser_chunks (b ++ markers last)) [] false (mk_hdr num)) fo rest_parts
        (S (length (part_bytes num b last)))).
Proof. intros Hn. cbn [read_parts]. unfold part_bytes at 1. rewrite open_written by exact Hn. reflexivity. Qed.

(* ---- complete chains ------------------------------------------------------------------------------------- *)
Lemma last_part_loop b buf num cur later : body_ok b -> (length (ser_chunks (b ++ markers true)) < cur)%nat ->
  read_parts_loop rds (st (ser_chunks (b ++ markers true)) buf false (mk_hdr num)) fo later cur = (fst (scan buf b), FinOk).
Proof.
  intros Hb Hc. apply (rpl_last _ _ _ _ (st [] (snd (scan buf b)) false (mk_hdr num))); [|reflexivity].
  rewrite <- (app_nil_r (ser_chunks _)). rewrite body_good by (try exact Hb; rewrite app_nil_r; exact Hc). reflexivity.
Qed.

(* a complete chain reads back: every part is consumed, the result is the chunk stream cut at FEND / SEND *)
Theorem chain_read pre b n0 : Forall body_ok (pre ++ [b]) -> n0 + len pre < 2 ^ 32 ->
  read_parts rds (chain n0 (pre ++ [b])) = Ok (fst (scan [] (concat (pre ++ [b]))), FinOk).
Proof.
  intros Hb Hn. rewrite chain_app. cbn [chain is_nil].
  apply Forall_app in Hb. destruct Hb as [Hpre Hb]. inversion Hb as [|? ? Hb0 _]; subst.
  rewrite concat_app. cbn [concat]. rewrite app_nil_r.
  destruct pre as [|b0 pre].
  - cbn [chain_nl app concat]. change (len []) with 0. rewrite N.add_0_r in *.
    rewrite read_parts_first by exact Hn. rewrite last_part_loop; [reflexivity|exact Hb0|].
    rewrite part_bytes_length. lia.
  - inversion Hpre as [|? ? Hb00 Hpre']; subst. cbn [chain_nl app concat]. rewrite len_cons in *.
    rewrite read_parts_first by lia.
    rewrite (chain_loop_prefix pre b0 n0 [] _ [part_bytes (n0 + (1 + len pre)) b true]);
      [|constructor; assumption|lia|rewrite part_bytes_length; lia].
    rewrite continue_written by (cbn [r_hdr st mk_hdr a_number]; lia). cbn [r_buf st].
    rewrite last_part_loop; [|exact Hb0|rewrite part_bytes_length; lia].
    cbn [fst snd]. rewrite (scan_app (b0 ++ concat pre)). cbn [fst snd]. reflexivity.
Qed.

(* in terms of entries: any way of distributing the chunk stream of well-formed entries over part files
   (cuts between chunks, entries may straddle parts) reads back as exactly those entries *)
Lemma body_ok_of_entries es bodies : Forall wf_entry es -> concat bodies = concat es -> Forall body_ok bodies.
Proof.
  intros Hw E.
  assert (H : Forall (fun c => wf_chunk c /\ ty_is c ANXT = false /\ ty_is c AEND = false) (concat es)).
  { clear E bodies. induction Hw as [|e es He _ IH]; [constructor|]. cbn [concat]. apply Forall_app. split; [|exact IH].
    apply wf_entry_inv in He. destruct He as (body & last & -> & He & Hwb & Hwl & Hn).
    apply Forall_app. split.
    - clear -Hwb Hn. induction Hwb as [|c body Hc _ IHb]; [constructor|]. inversion Hn; subst.
      constructor; [|apply IHb; assumption]. split; [exact Hc|]. apply is_term_false in H1. tauto.
    - constructor; [|constructor]. split; [exact Hwl|].
      unfold is_end in He. apply orb_true_iff in He. unfold ty_is in *.
      destruct He as [He|He]; apply bytes_eqb_eq in He; rewrite He; split; reflexivity. }
  rewrite <- E in H. clear E Hw es.
  induction bodies as [|b bodies IH]; [constructor|]. cbn [concat] in H. apply Forall_app in H. destruct H as [H1 H2].
  constructor; [|apply IH; exact H2]. split.
  - eapply Forall_impl; [|exact H1]. intros c Hc. apply Hc.
  - eapply Forall_impl; [|exact H1]. intros c Hc. apply Hc.
Qed.

Theorem chain_read_entries es pre b n0 : Forall wf_entry es -> concat (pre ++ [b]) = concat es -> n0 + len pre < 2 ^ 32 ->
  read_parts rds (chain n0 (pre ++ [b])) = Ok (es, FinOk).
Proof.
  intros Hw E Hn. rewrite chain_read; [|apply (body_ok_of_entries es); assumption|exact Hn].
  rewrite E, scan_entries by exact Hw. reflexivity.
Qed.

(* a part that is announced but not there *)
Theorem chain_missing_part pre b n0 : Forall body_ok (b :: pre) -> n0 + len pre < 2 ^ 32 ->
  read_parts rds (chain_nl n0 (b :: pre)) = Ok (fst (scan [] (concat (b :: pre))), FinErr NotFound).
Proof.
  intros Hb Hn. cbn [chain_nl concat]. rewrite read_parts_first by lia.
  rewrite <- (app_nil_r (chain_nl (n0 + 1) pre)).
  rewrite chain_loop_prefix; [|exact Hb|exact Hn|rewrite part_bytes_length; lia].
  cbn [continue_with fst snd]. rewrite app_nil_r. reflexivity.
Qed.

(* the number check of read_next_archive: a part whose number is not its predecessor's + 1 (swapped,
   duplicated or foreign part) ends the read with InvalidData; the parts before it are delivered *)
Theorem chain_number_mismatch pre b n0 m bk lf later : Forall body_ok (b :: pre) -> n0 + len pre < 2 ^ 32 ->
  m < 2 ^ 32 -> m <> n0 + len pre + 1 ->
  read_parts rds (chain_nl n0 (b :: pre) ++ part_bytes m bk lf :: later) =
  Ok (fst (scan [] (concat (b :: pre))), FinErr InvalidData).
Proof.
  intros Hb Hn Hm Hne. cbn [chain_nl concat app]. rewrite read_parts_first by lia.
  rewrite chain_loop_prefix; [|exact Hb|exact Hn|rewrite part_bytes_length; lia].
  rewrite continue_mismatch by (cbn [r_hdr st mk_hdr a_number]; lia || exact Hm).
  cbn [fst snd]. rewrite app_nil_r. reflexivity.
Qed.

(* the first part is opened without any check of its number (Archive::read_header): a chain that starts
   with a later part is read as if it were complete *)
Theorem first_part_number_unchecked b num : body_ok b -> num < 2 ^ 32 ->
  read_parts rds [part_bytes num b true] = Ok (fst (scan [] b), FinOk).
Proof.
  intros Hb Hn. rewrite read_parts_first by exact Hn. rewrite last_part_loop; [reflexivity|exact Hb|].
  rewrite part_bytes_length. lia.
Qed.

(* ================================================================================================= *)
(* 4. a chain damaged at one byte of one part                                                          *)
(* ================================================================================================= *)
Lemma hdr_chunk_length num : length (ser_chunk (hdr_chunk num)) = 20%nat.
Proof.
  pose proof (write_header_length num) as L. rewrite write_header_eq, app_length in L.
  change (length sig) with 8%nat in L. lia.
Qed.

Lemma hit_part_hdr num bk lf n : (8 <= n < 28)%nat ->
  hit (part_chunks num bk lf) (n - 8) = Some (hdr_chunk num, bk ++ markers lf, (n - 8)%nat).
Proof.
  intros H. unfold part_chunks. cbn [hit]. rewrite hdr_chunk_length.
  destruct (Nat.ltb_spec (n - 8) 20); [reflexivity|lia].
Qed.

Lemma hit_part_body num bk lf n : (28 <= n)%nat ->
  hit (part_chunks num bk lf) (n - 8) = hit (bk ++ markers lf) (n - 28).
Proof.
  intros H. unfold part_chunks. cbn [hit]. rewrite hdr_chunk_length.
  destruct (Nat.ltb_spec (n - 8) 20); [lia|]. f_equal. lia.
Qed.

Section DamagedChain.
Variable dmg : bytes -> nat -> bytes.
Hypothesis dmg_app_r : forall A B n, (length A <= n)%nat -> dmg (A ++ B) n = A ++ dmg B (n - length A).

(* the damaged part fails with `e`: inside the signature the open fails; behind it, the chunk parser
   called on the chunk that contains byte n (with everything that follows it in the part) fails *)
Definition fails_at (num : N) (body : list chunk) (lf : bool) (n : nat) (e : ekind) : Prop :=
  if (n <? 8)%nat then forall buf, open_archive rds buf (dmg (part_bytes num body lf) n) = Err e
  else match hit (part_chunks num body lf) (n - 8) with
       | Some (c, after, i) => rds (dmg (ser_chunk c ++ ser_chunks after) i) = Err e
       | None => False
       end.

Lemma fails_open num bk lf n e buf : (n < 28)%nat -> fails_at num bk lf n e ->
  open_archive rds buf (dmg (part_bytes num bk lf) n) = Err e.
Proof.
  intros Hn Hf. unfold fails_at in Hf. destruct (Nat.ltb_spec n 8) as [L|L]; [apply Hf|].
  rewrite hit_part_hdr in Hf by lia.
  rewrite part_bytes_chunks. unfold part_chunks. rewrite ser_chunks_cons.
  rewrite dmg_app_r by (change (length sig) with 8%nat; exact L). change (length sig) with 8%nat.
  unfold open_archive, read_header. rewrite read_sig_app. cbn [bind]. rewrite Hf. reflexivity.
Qed.

Lemma damaged_part_loop num bk lf n e buf later cur : body_ok bk -> (28 <= n)%nat -> fails_at num bk lf n e ->
  (length (dmg (ser_chunks (bk ++ markers lf)) (n - 28)) < cur)%nat ->
  read_parts_loop rds (st (dmg (ser_chunks (bk ++ markers lf)) (n - 28)) buf false (mk_hdr num)) fo later cur =
  (fst (scan buf (chunks_before bk (n - 28))), FinErr e).
Proof.
  intros Hb Hn Hf Hc. unfold fails_at in Hf. destruct (Nat.ltb_spec n 8) as [L|L]; [lia|].
  rewrite hit_part_body in Hf by exact Hn.
  destruct (hit (bk ++ markers lf) (n - 28)) as [[[c after] i]|] eqn:Hh; [|contradiction].
  rewrite <- (app_nil_r (ser_chunks (bk ++ markers lf))) in Hc |- *.
  destruct (body_bad dmg dmg_app_r lf [] (mk_hdr num) e bk buf false cur (n - 28)%nat c after i Hb Hh) as [s' Es'];
    [rewrite app_nil_r; exact Hf|exact Hc|].
  apply (rpl_err _ _ _ _ _ _ Es').
Qed.

Lemma dmg_part_behind_header num bk lf n : (28 <= n)%nat ->
  dmg (part_bytes num bk lf) n = write_header num ++ dmg (ser_chunks (bk ++ markers lf)) (n - 28).
Proof.
  intros Hn. unfold part_bytes. rewrite dmg_app_r by (rewrite write_header_length; exact Hn).
  rewrite write_header_length. reflexivity.
Qed.

Lemma continue_damaged s m bk lf n e later : a_number (r_hdr s) + 1 = m -> m < 2 ^ 32 -> body_ok bk ->
  fails_at m bk lf n e ->
  continue_with s (dmg (part_bytes m bk lf) n :: later) =
  (fst (scan (r_buf s) (chunks_before bk (n - 28))), FinErr e).
Proof.
  intros E Hm Hb Hf. cbn [continue_with]. destruct (Nat.lt_ge_cases n 28) as [L|L].
  - unfold read_next_archive. rewrite (fails_open m bk lf n e (r_buf s) L Hf). cbn [bind].
    replace (n - 28)%nat with 0%nat by lia. rewrite chunks_before_zero. reflexivity.
  - rewrite dmg_part_behind_header by exact L. rewrite next_written by assumption.
    apply (damaged_part_loop m bk lf n e); try assumption. rewrite app_length. lia.
Qed.

(* `damaged chain`: parts before the damaged one are read completely; in the damaged part the reader
   delivers what the chunks before the damage complete and stops with the error of the chunk that was hit.
   Whatever follows the damaged part is never looked at. *)
Theorem chain_damaged pre bk lf later n0 n e : Forall body_ok pre -> body_ok bk -> n0 + len pre < 2 ^ 32 ->
  fails_at (n0 + len pre) bk lf n e ->
  read_parts rds (chain_nl n0 pre ++ dmg (part_bytes (n0 + len pre) bk lf) n :: later) =
  if is_nil pre && (n <? 28)%nat then Err e
  else Ok (fst (scan [] (concat pre ++ chunks_before bk (n - 28))), FinErr e).
Proof.
  intros Hpre Hb Hn Hf. destruct pre as [|b pre].
  - cbn [chain_nl app concat is_nil andb]. change (len []) with 0 in *. rewrite N.add_0_r in *.
    cbn [read_parts]. destruct (Nat.ltb_spec n 28) as [L|L].
    + rewrite (fails_open n0 bk lf n e [] L Hf). reflexivity.
    + rewrite dmg_part_behind_header by exact L. rewrite open_written by exact Hn. cbn [bind].
      fold (st (dmg (ser_chunks (bk ++ markers lf)) (n - 28)) [] false (mk_hdr n0)).
      rewrite (damaged_part_loop n0 bk lf n e); try assumption; [reflexivity|]. rewrite app_length. lia.
  - cbn [is_nil andb]. inversion Hpre as [|? ? Hb0 Hpre']; subst. rewrite len_cons in *.
    cbn [chain_nl app concat]. rewrite read_parts_first by lia.
    rewrite chain_loop_prefix; [|constructor; assumption|lia|rewrite part_bytes_length; lia].
    rewrite (continue_damaged _ (n0 + (1 + len pre)) bk lf n e) by (try assumption; cbn [r_hdr st mk_hdr a_number]; lia).
    cbn [fst snd r_buf st]. rewrite (scan_app (b ++ concat pre)). cbn [fst snd]. reflexivity.
Qed.
End DamagedChain.

(* ---- the damage can only be reported at a byte of the part ---------------------------------------------------- *)
Lemma part_chunks_wf num bk lf : body_ok bk -> Forall wf_chunk (part_chunks num bk lf).
Proof.
  intros [Hw _]. unfold part_chunks. constructor; [apply wf_chunk_hdr|]. apply Forall_app. split; [exact Hw|].
  destruct lf; cbn [markers]; repeat constructor; try exact wf_chunk_aend; apply marker_flags.
Qed.

Lemma part_hit_some num bk lf n : body_ok bk -> (8 <= n < length (part_bytes num bk lf))%nat ->
  exists c after i, hit (part_chunks num bk lf) (n - 8) = Some (c, after, i) /\ wf_chunk c /\ (i < length (ser_chunk c))%nat.
Proof.
  intros Hb [H8 Hn]. rewrite part_bytes_chunks, app_length in Hn. change (length sig) with 8%nat in Hn.
  destruct (hit_some (part_chunks num bk lf) (n - 8)%nat) as (c & after & i & Hh); [lia|].
  exists c, after, i. split; [exact Hh|]. apply hit_inv in Hh. destruct Hh as (E & Hi & _). split; [|exact Hi].
  pose proof (part_chunks_wf num bk lf Hb) as Hw. rewrite E in Hw. apply Forall_app in Hw. destruct Hw as [_ Hw].
  inversion Hw; assumption.
Qed.

(* ================================================================================================= *)
(* 5. truncation (C06)                                                                                 *)
(* ================================================================================================= *)
Definition cut (bs : bytes) (n : nat) : bytes := firstn n bs.

Lemma cut_app_r A B n : (length A <= n)%nat -> cut (A ++ B) n = A ++ cut B (n - length A).
Proof. intros H. apply firstn_app_r. exact H. Qed.

Lemma cut_fails num bk lf n : body_ok bk -> (n < length (part_bytes num bk lf))%nat ->
  fails_at cut num bk lf n UnexpectedEof.
Proof.
  intros Hb Hn. unfold fails_at. destruct (Nat.ltb_spec n 8) as [L|L].
  - intros buf. unfold open_archive, read_header, read_sig, cut.
    rewrite take_short by (rewrite firstn_length; lia). reflexivity.
  - destruct (part_hit_some num bk lf n Hb (conj L Hn)) as (c & after & i & -> & Hc & Hi).
    apply trunc_chunk; auto.
Qed.

(* `truncation_multipart`: a chain cut at ANY byte of ANY part (the last one or not; nothing after the cut
   exists) never ends Ok and never panics: the read ends with UnexpectedEof after exactly the entries that
   the delivered chunks complete *)
Theorem truncation_multipart pre bk lf n0 n : Forall body_ok pre -> body_ok bk -> n0 + len pre < 2 ^ 32 ->
  (n < length (part_bytes (n0 + len pre) bk lf))%nat ->
  read_parts rds (chain_nl n0 pre ++ [firstn n (part_bytes (n0 + len pre) bk lf)]) =
  if is_nil pre && (n <? 28)%nat then Err UnexpectedEof
  else Ok (fst (scan [] (concat pre ++ chunks_before bk (n - 28))), FinErr UnexpectedEof).
Proof.
  intros Hpre Hb Hn Hlt. apply (chain_damaged cut cut_app_r pre bk lf [] n0 n UnexpectedEof); try assumption.
  apply cut_fails; assumption.
Qed.

(* the same in terms of entries: the chunk stream of well-formed entries `es` distributed over the parts *)
Theorem truncation_multipart_entries es pre bk post n0 n :
  Forall wf_entry es -> concat (pre ++ bk :: post) = concat es -> n0 + len pre < 2 ^ 32 ->
  let p := part_bytes (n0 + len pre) bk (is_nil post) in
  (n < length p)%nat ->
  let delivered := (length (concat pre) + length (chunks_before bk (n - 28)))%nat in
  read_parts rds (firstn (length pre) (chain n0 (pre ++ bk :: post)) ++ [firstn n p]) =
  if is_nil pre && (n <? 28)%nat then Err UnexpectedEof
  else Ok (firstn (complete_chunks es delivered) es, FinErr UnexpectedEof).
Proof.
  intros Hw E Hn p Hlt delivered.
  pose proof (body_ok_of_entries es _ Hw E) as Hb. apply Forall_app in Hb. destruct Hb as [Hpre Hb].
  inversion Hb as [|? ? Hbk _]; subst.
  rewrite chain_app, firstn_app_l by (rewrite chain_nl_length; lia).
  rewrite firstn_all2 by (rewrite chain_nl_length; lia).
  unfold p. rewrite truncation_multipart by assumption.
  destruct (is_nil pre && (n <? 28)%nat); [reflexivity|].
  destruct (chunks_before_prefix bk (n - 28)) as [r Er].
  rewrite (scan_prefix es Hw (concat pre ++ chunks_before bk (n - 28)) (r ++ concat post)).
  - unfold delivered. rewrite app_length. reflexivity.
  - rewrite <- E, concat_app. cbn [concat]. rewrite Er at 1. rewrite <- !app_assoc. reflexivity.
Qed.

(* ================================================================================================= *)
(* 6. one altered byte (C05)                                                                           *)
(* ================================================================================================= *)
Definition flip (m : N) (bs : bytes) (n : nat) : bytes := xor_at bs n m.

Lemma flip_app_r m A B n : (length A <= n)%nat -> flip m (A ++ B) n = A ++ flip m B (n - length A).
Proof. intros H. apply xor_at_app_r. exact H. Qed.

(* offset n of a part file lies in the 4-byte length field of one of its chunks *)
Definition part_len_field (num : N) (bk : list chunk) (lf : bool) (n : nat) : bool :=
  (8 <=? n)%nat && in_len_field (part_chunks num bk lf) (n - 8).

Lemma hit_len_field cs : forall n c a i, hit cs n = Some (c, a, i) -> in_len_field cs n = (i <? 4)%nat.
Proof.
  induction cs as [|x cs IH]; intros n c a i H; [discriminate H|]. cbn [hit in_len_field] in *.
  destruct (n <? length (ser_chunk x))%nat; [injection H as <- <- <-; reflexivity|]. eapply IH. exact H.
Qed.

Lemma flip_fails m num bk lf n : 0 < m < 256 -> body_ok bk -> (n < length (part_bytes num bk lf))%nat ->
  part_len_field num bk lf n = false -> fails_at (flip m) num bk lf n InvalidData.
Proof.
  intros Hm Hb Hn Hf. unfold fails_at. destruct (Nat.ltb_spec n 8) as [L|L].
  - intros buf. rewrite part_bytes_chunks. unfold open_archive, read_header, read_sig, flip.
    rewrite xor_at_app_l by exact L. rewrite take_app by (rewrite xor_at_length; reflexivity). cbn [bind].
    destruct (bytes_eqb (xor_at sig n m) sig) eqn:E; [|reflexivity].
    apply bytes_eqb_eq in E. exfalso. revert E. apply xor_at_neq; [exact L|exact Hm].
  - destruct (part_hit_some num bk lf n Hb (conj L Hn)) as (c & after & i & Hh & Hc & Hi). rewrite Hh.
    unfold part_len_field in Hf. destruct (Nat.leb_spec 8 n); [|lia]. cbn [andb] in Hf.
    rewrite (hit_len_field _ _ _ _ _ Hh) in Hf. apply Nat.ltb_ge in Hf.
    apply read_chunk_altered; [exact Hc|lia|exact Hm].
Qed.

(* one altered byte anywhere in any part of a chain, outside the chunk length fields: the read ends with
   InvalidData — never Ok — after exactly the entries completed by the chunks before the altered one,
   whatever parts follow *)
Theorem alter_multipart pre bk lf later n0 n m : Forall body_ok pre -> body_ok bk -> n0 + len pre < 2 ^ 32 ->
  0 < m < 256 -> (n < length (part_bytes (n0 + len pre) bk lf))%nat ->
  part_len_field (n0 + len pre) bk lf n = false ->
  read_parts rds (chain_nl n0 pre ++ xor_at (part_bytes (n0 + len pre) bk lf) n m :: later) =
  if is_nil pre && (n <? 28)%nat then Err InvalidData
  else Ok (fst (scan [] (concat pre ++ chunks_before bk (n - 28))), FinErr InvalidData).
Proof.
  intros Hpre Hb Hn Hm Hlt Hf.
  apply (chain_damaged (flip m) (flip_app_r m) pre bk lf later n0 n InvalidData); try assumption.
  apply flip_fails; assumption.
Qed.

(* a byte of a length field: the stream is re-framed; the chunk parser can only succeed if the four bytes
   that now stand in the CRC position equal the CRC of the re-framed payload.  The new length is known
   (the altered field), so this is ONE equation between two 32-bit values *)
Definition len_coincidence (c : chunk) (rest : bytes) (i : nat) (m : N) : Prop :=
  crc_coincidence c rest (of_be (xor_at (be32 (len (cdata c))) i m)).

Lemma read_chunk_altered_len_err c i m rest : wf_chunk c -> (i < 4)%nat -> 0 < m < 256 ->
  ~ len_coincidence c rest i m ->
  exists e, (e = UnexpectedEof \/ e = InvalidData) /\ rds (xor_at (ser_chunk c ++ rest) i m) = Err e.
Proof.
  intros Hc Hi Hm Hno.
  destruct (read_chunk_cases (xor_at (ser_chunk c ++ rest) i m)) as [(c' & r' & E)|[E|E]]; [|eauto|eauto].
  exfalso. apply Hno. unfold len_coincidence.
  destruct (read_chunk_altered_len c i m rest c' r' Hc Hi Hm E) as (Hco & _).
  replace (of_be (xor_at (be32 (len (cdata c))) i m)) with (len (cdata c')); [exact Hco|].
  apply read_chunk_ok_inv in E. destruct E as [[Ht' Hd'] E].
  rewrite !ser_chunk_app in E. rewrite xor_at_app_l in E by (rewrite be32_length; exact Hi).
  apply app_inv_len in E; [|rewrite xor_at_length, !be32_length; reflexivity]. destruct E as [-> _].
  symmetry. apply of_be_be32. exact Hd'.
Qed.

Theorem alter_multipart_len_field pre bk lf later n0 n m c after i :
  Forall body_ok pre -> body_ok bk -> n0 + len pre < 2 ^ 32 -> 0 < m < 256 -> (8 <= n)%nat ->
  hit (part_chunks (n0 + len pre) bk lf) (n - 8) = Some (c, after, i) -> (i < 4)%nat ->
  ~ len_coincidence c (ser_chunks after) i m ->
  exists e, (e = UnexpectedEof \/ e = InvalidData) /\
    read_parts rds (chain_nl n0 pre ++ xor_at (part_bytes (n0 + len pre) bk lf) n m :: later) =
    if is_nil pre && (n <? 28)%nat then Err e
    else Ok (fst (scan [] (concat pre ++ chunks_before bk (n - 28))), FinErr e).
Proof.
  intros Hpre Hb Hn Hm H8 Hh Hi Hno.
  assert (Hc : wf_chunk c).
  { pose proof (part_chunks_wf (n0 + len pre) bk lf Hb) as Hw. apply hit_inv in Hh. destruct Hh as (E & _ & _).
    rewrite E in Hw. apply Forall_app in Hw. destruct Hw as [_ Hw]. inversion Hw; assumption. }
  destruct (read_chunk_altered_len_err c i m (ser_chunks after) Hc Hi Hm Hno) as (e & He & Hr).
  exists e. split; [exact He|].
  apply (chain_damaged (flip m) (flip_app_r m) pre bk lf later n0 n e); try assumption.
  unfold fails_at. destruct (Nat.ltb_spec n 8); [lia|]. rewrite Hh. exact Hr.
Qed.

(* ================================================================================================= *)
(* 7. for ALL inputs: a read ends Ok only behind an AEND chunk that no ANXT precedes                   *)
(* ================================================================================================= *)
Lemma next_item_ok_inv : forall fuel bs acc nxt o b n' r, next_item_loop rds fuel bs acc nxt = Ok (o, b, n', r) ->
  exists cs c, bs = ser_chunks cs ++ ser_chunk c ++ r /\ Forall wf_chunk cs /\ wf_chunk c /\
    Forall (fun x => ty_is x AEND = false) cs /\ n' = nxt || has_anxt cs /\
    match o with
    | Some _ => is_end c = true
    | None => ty_is c ANXT = false /\ ty_is c AEND = true
    end.
Proof.
  induction fuel as [|fuel IH]; intros bs acc nxt o b n' r H; [discriminate H|]. cbn [next_item_loop] in H.
  destruct (rds bs) as [[c r1]|e|] eqn:E; cbn [bind] in H; try discriminate H.
  apply read_chunk_ok_inv in E. destruct E as [Hc ->].
  destruct (ty_is c FEND || ty_is c SEND) eqn:Ee.
  { injection H as <- <- <- <-. exists [], c. rewrite ser_chunks_nil. cbn [app has_anxt existsb].
    rewrite orb_false_r. split; [reflexivity|]. split; [constructor|]. split; [exact Hc|]. split; [constructor|].
    split; [reflexivity|exact Ee]. }
  destruct (ty_is c ANXT) eqn:En.
  { destruct (IH _ _ _ _ _ _ _ H) as (cs & c' & -> & Hw & Hc' & Ha & -> & Ho).
    exists (c :: cs), c'. rewrite ser_chunks_cons, <- app_assoc. cbn [has_anxt existsb]. rewrite En.
    split; [reflexivity|]. split; [constructor; assumption|]. split; [exact Hc'|].
    split; [constructor; [apply (ty_eq_neq c ANXT AEND En); reflexivity|exact Ha]|].
    split; [fold (has_anxt cs); cbn [orb]; rewrite orb_true_r; reflexivity|exact Ho]. }
  destruct (ty_is c AEND) eqn:Ea.
  { injection H as <- <- <- <-. exists [], c. rewrite ser_chunks_nil. cbn [app has_anxt existsb].
    rewrite orb_false_r. split; [reflexivity|]. split; [constructor|]. split; [exact Hc|]. split; [constructor|].
    split; [reflexivity|]. split; [exact En|exact Ea]. }
  destruct (IH _ _ _ _ _ _ _ H) as (cs & c' & -> & Hw & Hc' & Ha & -> & Ho).
  exists (c :: cs), c'. rewrite ser_chunks_cons, <- app_assoc. cbn [has_anxt existsb]. rewrite En. cbn [orb].
  split; [reflexivity|]. split; [constructor; assumption|]. split; [exact Hc'|].
  split; [constructor; assumption|]. split; [reflexivity|exact Ho].
Qed.

Lemma has_anxt_app a b : has_anxt (a ++ b) = has_anxt a || has_anxt b.
Proof. apply existsb_app. Qed.

Lemma raw_loop_ok_inv : forall fuel s es s', raw_entries_loop rds fuel s = (es, FinOk, s') ->
  exists cs a, r_rest s = ser_chunks cs ++ ser_chunk a ++ r_rest s' /\ Forall wf_chunk cs /\ wf_chunk a /\
    Forall (fun x => ty_is x AEND = false) cs /\ ty_is a AEND = true /\ r_next s' = r_next s || has_anxt cs.
Proof.
  induction fuel as [|fuel IH]; intros s es s' H; [discriminate H|]. cbn [raw_entries_loop] in H.
  unfold next_raw_item in H.
  destruct (next_item_loop rds (S (length (r_rest s))) (r_rest s) (r_buf s) (r_next s)) as [[[[o b] n'] r]| |] eqn:E;
    cbn [bind] in H; try discriminate H.
  apply next_item_ok_inv in E. destruct E as (cs0 & c0 & E0 & Hw0 & Hc0 & Ha0 & -> & Ho).
  destruct o as [e|].
  - destruct (raw_entries_loop rds fuel _) as [[es1 f1] s1] eqn:E1. injection H as <- -> ->.
    destruct (IH _ _ _ E1) as (cs1 & a & Er & Hw1 & Hwa & Ha1 & Haa & Hn). cbn [r_rest r_next] in Er, Hn.
    exists (cs0 ++ c0 :: cs1), a. rewrite E0, Er, ser_chunks_app, ser_chunks_cons, <- !app_assoc.
    split; [reflexivity|]. split; [apply Forall_app; split; [exact Hw0|constructor; assumption]|]. split; [exact Hwa|].
    split; [apply Forall_app; split; [exact Ha0|constructor; [apply is_end_not_aend; exact Ho|exact Ha1]]|].
    split; [exact Haa|]. rewrite Hn, has_anxt_app. cbn [has_anxt existsb]. fold (has_anxt cs1).
    replace (ty_is c0 ANXT) with false; [cbn [orb]; rewrite orb_assoc; reflexivity|].
    symmetry. unfold is_end in Ho. apply orb_true_iff in Ho.
    destruct Ho as [Ho|Ho]; [apply (ty_eq_neq c0 FEND ANXT Ho)|apply (ty_eq_neq c0 SEND ANXT Ho)]; reflexivity.
  - injection H as <- <-. cbn [r_rest r_next]. exists cs0, c0. destruct Ho as [_ Ho].
    split; [exact E0|]. split; [exact Hw0|]. split; [exact Hc0|]. split; [exact Ha0|]. split; [exact Ho|reflexivity].
Qed.

Lemma open_archive_ok_inv buf p s : open_archive rds buf p = Ok s ->
  exists h, p = sig ++ ser_chunk h ++ r_rest s /\ wf_chunk h /\ ty_is h AHED = true /\ r_next s = false.
Proof.
  unfold open_archive. destruct (read_header rds p) as [[hd r]| |] eqn:E; cbn [bind]; try discriminate.
  intros [= <-]. cbn [r_rest r_next]. apply read_header_ok_inv in E. destruct E as (c & -> & Hc & Ht & _ & _).
  exists c. auto.
Qed.

(* a part that ends a read Ok: header chunk, chunks none of which is ANXT or AEND, then AEND *)
Definition ends_ok (p : bytes) : Prop :=
  exists h cs a trailing, p = sig ++ ser_chunk h ++ ser_chunks cs ++ ser_chunk a ++ trailing /\
    ty_is h AHED = true /\ Forall wf_chunk (h :: cs ++ [a]) /\
    Forall (fun x => ty_is x AEND = false /\ ty_is x ANXT = false) cs /\ ty_is a AEND = true.

Lemma has_anxt_false cs : has_anxt cs = false -> Forall (fun x => ty_is x ANXT = false) cs.
Proof.
  induction cs as [|c cs IH]; [constructor|]. cbn [has_anxt existsb]. intros H. apply orb_false_iff in H.
  destruct H as [H1 H2]. constructor; [exact H1|apply IH; exact H2].
Qed.

Lemma rpl_ok_inv : forall parts s cur es, read_parts_loop rds s fo parts cur = (es, FinOk) -> r_next s = false ->
  (exists cs a trailing, r_rest s = ser_chunks cs ++ ser_chunk a ++ trailing /\ Forall wf_chunk (cs ++ [a]) /\
     Forall (fun x => ty_is x AEND = false /\ ty_is x ANXT = false) cs /\ ty_is a AEND = true) \/
  (exists k p, nth_error parts k = Some p /\ ends_ok p).
Proof.
  induction parts as [|p ps IH]; intros s cur es H Hn; cbn [read_parts_loop] in H;
    destruct (raw_entries_loop rds cur s) as [[es0 f] s'] eqn:E; destruct f; try discriminate H;
    apply raw_loop_ok_inv in E; destruct E as (cs & a & Er & Hw & Hwa & Ha & Haa & Hx); rewrite Hn in Hx; cbn [orb] in Hx.
  - destruct (r_next s') eqn:N; [discriminate H|]. left. exists cs, a, (r_rest s').
    split; [exact Er|]. split; [apply Forall_app; split; [exact Hw|constructor; [exact Hwa|constructor]]|].
    split; [|exact Haa]. symmetry in Hx. apply has_anxt_false in Hx.
    clear -Ha Hx. induction Ha; inversion Hx; subst; constructor; auto.
  - destruct (r_next s') eqn:N.
    + destruct (read_next_archive rds s' p) as [s2| |] eqn:E2; try discriminate H.
      destruct (read_parts_loop rds s2 fo ps (S (length p))) as [es2 e2] eqn:E3. injection H as _ ->.
      unfold read_next_archive in E2.
      destruct (open_archive rds (r_buf s') p) as [s3| |] eqn:E4; cbn [bind] in E2; try discriminate E2.
      destruct (_ && _) in E2; [|discriminate E2]. injection E2 as ->.
      apply open_archive_ok_inv in E4. destruct E4 as (h & Ep & Hh & Hht & N2).
      destruct (IH _ _ _ E3 N2) as [(cs2 & a2 & tr & Er2 & Hw2 & Hc2 & Ha2)|(k & p' & Hk & Hp')].
      * right. exists 0%nat, p. split; [reflexivity|]. exists h, cs2, a2, tr. rewrite Ep, Er2.
        split; [reflexivity|]. split; [exact Hht|]. split; [constructor; assumption|]. split; assumption.
      * right. exists (S k), p'. split; [exact Hk|exact Hp'].
    + left. injection H as _. exists cs, a, (r_rest s').
      split; [exact Er|]. split; [apply Forall_app; split; [exact Hw|constructor; [exact Hwa|constructor]]|].
      split; [|exact Haa]. symmetry in Hx. apply has_anxt_false in Hx.
      clear -Ha Hx. induction Ha; inversion Hx; subst; constructor; auto.
Qed.

(* `ok_only_at_aend`: whatever byte strings are handed to the reader as parts, if the read ends Ok then
   the part at which it stopped consists of a header chunk, chunks none of which is ANXT or AEND, and an
   AEND chunk (anything behind it is not looked at) — so no proper prefix of a part, and no part that
   announces a successor, can end a read successfully *)
Theorem read_parts_ok_inv ps es : read_parts rds ps = Ok (es, FinOk) ->
  exists k p, nth_error ps k = Some p /\ ends_ok p.
Proof.
  destruct ps as [|p ps]; cbn [read_parts]; [discriminate|].
  destruct (open_archive rds [] p) as [s| |] eqn:E; cbn [bind]; try discriminate. intros [= H].
  apply open_archive_ok_inv in E. destruct E as (h & Ep & Hh & Hht & N).
  destruct (rpl_ok_inv _ _ _ _ H N) as [(cs & a & tr & Er & Hw & Hc & Ha)|(k & p' & Hk & Hp')].
  - exists 0%nat, p. split; [reflexivity|]. exists h, cs, a, tr. rewrite Ep, Er.
    split; [reflexivity|]. split; [exact Hht|]. split; [constructor; assumption|]. split; assumption.
  - exists (S k), p'. split; [exact Hk|exact Hp'].
Qed.

(* ---- examples: a three-part chain with an entry straddling two boundaries ------------------------------------- *)
Definition exp_b0 : list chunk := [mk FHED (lit "a"); mk FDAT [x01; x02; x03]; mk FEND []; mk FHED (lit "b"); mk FDAT [x04]].
Definition exp_b1 : list chunk := [mk FDAT [x05; x06]].
Definition exp_b2 : list chunk := [mk FDAT [x07]; mk FEND []; mk SHED (lit "s"); mk SEND []].
Definition exp_chain : list bytes := chain 0 [exp_b0; exp_b1; exp_b2].
Definition exp_e1 : list chunk := [mk FHED (lit "a"); mk FDAT [x01; x02; x03]; mk FEND []].
Definition exp_e2 : list chunk := [mk FHED (lit "b"); mk FDAT [x04]; mk FDAT [x05; x06]; mk FDAT [x07]; mk FEND []].
Definition exp_e3 : list chunk := [mk SHED (lit "s"); mk SEND []].

Example exp_wf : Forall body_ok [exp_b0; exp_b1; exp_b2] /\ Forall wf_entry [exp_e1; exp_e2; exp_e3] /\
  concat [exp_b0; exp_b1; exp_b2] = concat [exp_e1; exp_e2; exp_e3].
Proof.
  split; [|split; [|reflexivity]].
  - repeat constructor; vm_compute; reflexivity.
  - repeat constructor.
    + exists [mk FHED (lit "a"); mk FDAT [x01; x02; x03]], (mk FEND []). repeat split; repeat constructor; vm_compute; reflexivity.
    + exists [mk FHED (lit "b"); mk FDAT [x04]; mk FDAT [x05; x06]; mk FDAT [x07]], (mk FEND []).
      repeat split; repeat constructor; vm_compute; reflexivity.
    + exists [mk SHED (lit "s")], (mk SEND []). repeat split; repeat constructor; vm_compute; reflexivity.
Qed.

Example exp_read : read_parts rds exp_chain = Ok ([exp_e1; exp_e2; exp_e3], FinOk).
Proof. vm_compute. reflexivity. Qed.

(* cut inside part 1 (behind its only chunk, inside ANXT): entry 1 only, the open entry is not delivered *)
Example exp_cut : read_parts rds (firstn 1 exp_chain ++ [firstn 45 (nth 1 exp_chain [])]) = Ok ([exp_e1], FinErr UnexpectedEof).
Proof. vm_compute. reflexivity. Qed.

(* cut inside the header of part 2 *)
Example exp_cut_hdr : read_parts rds (firstn 2 exp_chain ++ [firstn 20 (nth 2 exp_chain [])]) = Ok ([exp_e1], FinErr UnexpectedEof).
Proof. vm_compute. reflexivity. Qed.

(* altered data byte in part 2: entries 1 and 2 (completed in part 2 before the altered chunk), then InvalidData *)
Example exp_alter : part_len_field 2 exp_b2 true 65 = false /\
  read_parts rds (firstn 2 exp_chain ++ [xor_at (nth 2 exp_chain []) 65 1]) = Ok ([exp_e1; exp_e2], FinErr InvalidData).
Proof. split; vm_compute; reflexivity. Qed.

(* parts 1 and 2 swapped; part 1 given twice *)
Example exp_swapped : read_parts rds [nth 0 exp_chain []; nth 2 exp_chain []; nth 1 exp_chain []] = Ok ([exp_e1], FinErr InvalidData).
Proof. vm_compute. reflexivity. Qed.
Example exp_duplicated : read_parts rds [nth 0 exp_chain []; nth 1 exp_chain []; nth 1 exp_chain []; nth 2 exp_chain []] = Ok ([exp_e1], FinErr InvalidData).
Proof. vm_compute. reflexivity. Qed.
(* the last part alone: accepted, its leading chunks form a (malformed) raw entry *)
Example exp_last_alone : read_parts rds [nth 2 exp_chain []] = Ok ([[mk FDAT [x07]; mk FEND []]; exp_e3], FinOk).
Proof. vm_compute. reflexivity. Qed.

(* a length byte: byte 31 of part 0 is the low byte of the length field of its first chunk (1 -> 9); the
   re-framed chunk fails its CRC, the coincidence premise is checked by computation *)
Example exp_alter_len : exists c after,
  hit (part_chunks 0 exp_b0 false) (31 - 8) = Some (c, after, 3%nat) /\ ~ len_coincidence c (ser_chunks after) 3 8 /\
  read_parts rds (xor_at (nth 0 exp_chain []) 31 8 :: skipn 1 exp_chain) = Ok ([], FinErr InvalidData).
Proof.
  eexists _, _. split; [vm_compute; reflexivity|]. split; [|vm_compute; reflexivity].
  intros (_ & _ & H). vm_compute in H. discriminate H.
Qed.

(* ---- the case interpreter's cut / alteration of a chain (ArchiveRun.cut_parts, alter_parts) are the chains of
   the theorems above ---------------------------------------------------------------------------------------- *)
From PNA Require ArchiveRun.

Lemma nth_app_exact {A} (a : list A) x l d : nth (length a) (a ++ x :: l) d = x.
Proof. rewrite app_nth2 by apply Nat.le_refl. rewrite Nat.sub_diag. reflexivity. Qed.

Lemma cut_parts_chain n0 pre p later n :
  ArchiveRun.cut_parts (chain_nl n0 pre ++ p :: later) (length pre) n = chain_nl n0 pre ++ [firstn n p].
Proof.
  unfold ArchiveRun.cut_parts. rewrite <- (chain_nl_length pre n0) at 1 2.
  rewrite nth_app_exact, firstn_app_l, firstn_all by apply Nat.le_refl. reflexivity.
Qed.

Lemma alter_parts_chain n0 pre p later n m :
  ArchiveRun.alter_parts (chain_nl n0 pre ++ p :: later) (length pre) n m = chain_nl n0 pre ++ xor_at p n m :: later.
Proof.
  unfold ArchiveRun.alter_parts. rewrite <- (chain_nl_length pre n0) at 1 2 3.
  rewrite nth_app_exact, firstn_app_l, firstn_all by apply Nat.le_refl.
  replace (skipn (S (length (chain_nl n0 pre))) (chain_nl n0 pre ++ p :: later)) with later; [reflexivity|].
  rewrite skipn_app, skipn_all2 by lia.
  replace (S (length (chain_nl n0 pre)) - length (chain_nl n0 pre))%nat with 1%nat by lia. reflexivity.
Qed.
