(* CodecFacts.v — inverse and stability laws of the library's metadata codecs (C15). *)
From PNA Require Import Base Name Codec BaseFacts NameFacts.
Require Import ZArith ZifyN ZifyNat ZifyBool.
Open Scope N_scope.

Ltac enum_stable :=
  repeat match goal with
  | |- context [N.eqb ?n ?c] => destruct (N.eqb_spec n c) as [->|]; [intros [= <-]; reflexivity|]
  end; discriminate.

(* ---- enums: exhaustive over the type, and over all 256 byte values ------------- *)
Lemma kind_inv k : kind_of_n (kind_to_n k) = Some k. Proof. destruct k; reflexivity. Qed.
Lemma comp_inv k : comp_of_n (comp_to_n k) = Some k. Proof. destruct k; reflexivity. Qed.
Lemma enc_inv k : enc_of_n (enc_to_n k) = Some k. Proof. destruct k; reflexivity. Qed.
Lemma mode_inv k : mode_of_n (mode_to_n k) = Some k. Proof. destruct k; reflexivity. Qed.

Lemma kind_stable n k : kind_of_n n = Some k -> kind_to_n k = n.
Proof. unfold kind_of_n. enum_stable. Qed.
Lemma comp_stable n k : comp_of_n n = Some k -> comp_to_n k = n.
Proof. unfold comp_of_n. enum_stable. Qed.
Lemma enc_stable n k : enc_of_n n = Some k -> enc_to_n k = n.
Proof. unfold enc_of_n. enum_stable. Qed.
Lemma mode_stable n k : mode_of_n n = Some k -> mode_to_n k = n.
Proof. unfold mode_of_n. enum_stable. Qed.

Lemma kind_lt k : kind_to_n k < 256. Proof. destruct k; cbn; lia. Qed.
Lemma comp_lt k : comp_to_n k < 256. Proof. destruct k; cbn; lia. Qed.
Lemma enc_lt k : enc_to_n k < 256. Proof. destruct k; cbn; lia. Qed.
Lemma mode_lt k : mode_to_n k < 256. Proof. destruct k; cbn; lia. Qed.

(* ---- take -------------------------------------------------------------------------- *)
Lemma take_app n a b : length a = n -> take n (a ++ b) = Ok (a, b).
Proof.
  intros <-. unfold take. rewrite app_length.
  replace (Nat.leb (length a) (length a + length b)) with true by (symmetry; apply Nat.leb_le; lia).
  rewrite firstn_app, Nat.sub_diag, firstn_all, skipn_app, Nat.sub_diag, skipn_all. cbn. rewrite app_nil_r. reflexivity.
Qed.

Lemma takeN_app a b : takeN (len a) (a ++ b) = Ok (a, b).
Proof.
  unfold takeN. rewrite len_app.
  replace (N.leb (len a) (len a + len b)) with true by (symmetry; apply N.leb_le; lia).
  unfold len. rewrite Nat2N.id.
  rewrite firstn_app, Nat.sub_diag, firstn_all, skipn_app, Nat.sub_diag, skipn_all. cbn. rewrite app_nil_r. reflexivity.
Qed.

(* ---- AHED ----------------------------------------------------------------------------- *)
Definition wf_ahed h := a_major h < 256 /\ a_minor h < 256 /\ a_number h < 2 ^ 32.

Lemma ahed_inv h : wf_ahed h -> ahed_of_bytes (ahed_to_bytes h) = Ok h.
Proof.
  intros (H1 & H2 & H3). destruct h as [ma mi nu]; cbn [a_major a_minor a_number] in *.
  unfold ahed_to_bytes, be32. cbn [be app a_major a_minor a_number ahed_of_bytes].
  rewrite !b2n_n2b_small by assumption.
  change [n2b (nu / 256 ^ N.of_nat 3); n2b (nu / 256 ^ N.of_nat 2); n2b (nu / 256 ^ N.of_nat 1); n2b (nu / 256 ^ N.of_nat 0)]
    with (be 4 nu).
  rewrite of_be_be by exact H3. reflexivity.
Qed.

Lemma ahed_dec_wf bs h : ahed_of_bytes bs = Ok h -> wf_ahed h.
Proof.
  unfold ahed_of_bytes. do 9 (destruct bs as [|? bs]; try discriminate). intros [= <-].
  unfold wf_ahed; cbn [a_major a_minor a_number]. repeat split; try apply b2n_lt.
  match goal with |- of_be ?l < _ => pose proof (of_be_lt l) as H end. exact H.
Qed.

Lemma ahed_stable bs h : ahed_of_bytes bs = Ok h -> ahed_of_bytes (ahed_to_bytes h) = Ok h.
Proof. intros H. apply ahed_inv. eapply ahed_dec_wf. exact H. Qed.

(* ---- SHED ------------------------------------------------------------------------------- *)
Lemma shed_inv h : s_major h < 256 -> s_minor h < 256 -> shed_of_bytes (shed_to_bytes h) = Ok h.
Proof.
  intros H1 H2. destruct h as [ma mi c e m]; cbn [s_major s_minor] in *.
  unfold shed_to_bytes, shed_of_bytes. cbn [s_major s_minor s_comp s_enc s_mode].
  rewrite !b2n_n2b_small by (assumption || apply comp_lt || apply enc_lt || apply mode_lt).
  rewrite comp_inv, enc_inv, mode_inv. reflexivity.
Qed.

(* ---- timestamps --------------------------------------------------------------------------- *)
Lemma time_inv secs : secs < 2 ^ 64 -> time_of_bytes (time_to_bytes secs) = Ok secs.
Proof.
  intros H. unfold time_of_bytes, time_to_bytes, be64. rewrite be_length. cbn [Nat.eqb].
  rewrite of_be_be by exact H. reflexivity.
Qed.

Lemma time_stable bs secs : time_of_bytes bs = Ok secs -> time_to_bytes secs = bs.
Proof.
  unfold time_of_bytes, time_to_bytes, be64. destruct (Nat.eqb_spec (length bs) 8) as [E|]; [|discriminate].
  intros [= <-]. rewrite <- E. apply be_of_be.
Qed.

(* ---- xATR ------------------------------------------------------------------------------------- *)
Definition wf_xattr x := len (x_name x) < 2 ^ 32 /\ len (x_value x) < 2 ^ 32 /\ utf8_valid (x_name x) = true.

Lemma xattr_inv x : wf_xattr x -> xattr_of_bytes (xattr_to_bytes x) = Ok x.
Proof.
  intros (H1 & H2 & H3). destruct x as [nm v]; cbn [x_name x_value] in *.
  unfold xattr_to_bytes, xattr_of_bytes; cbn [x_name x_value].
  rewrite take_app by apply be_length. cbn [bind].
  unfold be32. rewrite of_be_be by exact H1. rewrite takeN_app. cbn [bind]. rewrite H3. cbn [negb].
  rewrite take_app by apply be_length. cbn [bind].
  rewrite of_be_be by exact H2. rewrite <- (app_nil_r v) at 2. rewrite takeN_app. reflexivity.
Qed.

(* ---- take, inverted -------------------------------------------------------------------------------- *)
Lemma take_ok n bs a r : take n bs = Ok (a, r) -> bs = a ++ r /\ length a = n.
Proof.
  unfold take. destruct (Nat.leb_spec n (length bs)) as [Hle|]; [|discriminate]. intros [= <- <-].
  split; [symmetry; apply firstn_skipn | apply firstn_length_le; exact Hle].
Qed.

Lemma takeN_ok n bs a r : takeN n bs = Ok (a, r) -> bs = a ++ r /\ len a = n.
Proof.
  unfold takeN. destruct (N.leb_spec n (len bs)) as [Hle|]; [|discriminate]. intros [= <- <-].
  split; [symmetry; apply firstn_skipn|]. unfold len in *. rewrite firstn_length_le by lia. lia.
Qed.

Lemma take_all n a : length a = n -> take n a = Ok (a, []).
Proof. intros H. rewrite <- (app_nil_r a) at 1. apply take_app. exact H. Qed.

Lemma of_be_single x : of_be [x] = b2n x.
Proof. unfold of_be. cbn [fold_left]. lia. Qed.

Lemma of_be_lt_len l k : length l = k -> of_be l < 256 ^ N.of_nat k.
Proof. intros <-. apply of_be_lt. Qed.

(* ---- FHED -------------------------------------------------------------------------------------------- *)
(* the encoder writes `minor` twice, so only headers with major = minor survive; the name must be
   what the parser would produce: valid UTF-8 and already sanitised *)
Definition wf_fhed h :=
  f_major h = f_minor h /\ f_minor h < 256 /\ utf8_valid (f_name h) = true /\ sanitize_name (f_name h) = f_name h.

Lemma fhed_inv h : wf_fhed h -> fhed_of_bytes (fhed_to_bytes h) = Ok h.
Proof.
  intros (H1 & H2 & H3 & H4). destruct h as [ma mi k c e m nm]; cbn [f_major f_minor f_name] in *. subst ma.
  unfold fhed_to_bytes, fhed_of_bytes. cbn [f_minor f_kind f_comp f_enc f_mode f_name app].
  rewrite !b2n_n2b_small by (assumption || apply kind_lt || apply comp_lt || apply enc_lt || apply mode_lt).
  rewrite kind_inv, comp_inv, enc_inv, mode_inv. cbn [opt_res bind].
  rewrite name_of_bytes_fixed by assumption. reflexivity.
Qed.

Lemma fhed_dec_wf bs h : fhed_of_bytes bs = Ok h ->
  f_major h < 256 /\ f_minor h < 256 /\ utf8_valid (f_name h) = true /\ sanitize_name (f_name h) = f_name h.
Proof.
  unfold fhed_of_bytes. do 6 (destruct bs as [|? bs]; try discriminate).
  destruct (kind_of_n _); [|discriminate]. destruct (comp_of_n _); [|discriminate].
  destruct (enc_of_n _); [|discriminate]. destruct (mode_of_n _); [|discriminate]. cbn [opt_res bind].
  destruct (name_of_bytes bs) as [n| |] eqn:En; try discriminate. cbn [bind]. intros [= <-].
  cbn [f_major f_minor f_name]. apply name_of_bytes_ok in En. destruct En as (Hu & Hs & _).
  repeat split; try apply b2n_lt; assumption.
Qed.

Lemma fhed_stable bs h : fhed_of_bytes bs = Ok h -> f_major h = f_minor h ->
  fhed_of_bytes (fhed_to_bytes h) = Ok h.
Proof.
  intros H Hm. apply fhed_inv. destruct (fhed_dec_wf _ _ H) as (_ & H2 & H3 & H4).
  unfold wf_fhed. auto.
Qed.

(* without the premise major = minor: re-encoding forgets the major version, nothing else *)
Lemma fhed_stable_gen bs h : fhed_of_bytes bs = Ok h ->
  fhed_of_bytes (fhed_to_bytes h) =
  Ok {| f_major := f_minor h; f_minor := f_minor h; f_kind := f_kind h; f_comp := f_comp h;
        f_enc := f_enc h; f_mode := f_mode h; f_name := f_name h |}.
Proof.
  intros H. destruct (fhed_dec_wf _ _ H) as (_ & H2 & H3 & H4).
  rewrite <- (fhed_inv {| f_major := f_minor h; f_minor := f_minor h; f_kind := f_kind h; f_comp := f_comp h;
        f_enc := f_enc h; f_mode := f_mode h; f_name := f_name h |}) by (unfold wf_fhed; cbn; auto).
  reflexivity.
Qed.

(* exact bytes, when the stored name was already in sanitised form *)
Lemma fhed_stable_bytes b0 b1 b2 b3 b4 b5 name h :
  fhed_of_bytes (b0 :: b1 :: b2 :: b3 :: b4 :: b5 :: name) = Ok h -> b0 = b1 -> sanitize_name name = name ->
  fhed_to_bytes h = b0 :: b1 :: b2 :: b3 :: b4 :: b5 :: name.
Proof.
  unfold fhed_of_bytes. intros H -> Hs.
  destruct (kind_of_n _) eqn:Ek; [|discriminate]. destruct (comp_of_n _) eqn:Ec; [|discriminate].
  destruct (enc_of_n _) eqn:Ee; [|discriminate]. destruct (mode_of_n _) eqn:Em; [|discriminate].
  cbn [opt_res bind] in H.
  destruct (name_of_bytes name) as [n| |] eqn:En; try discriminate. cbn [bind] in H. injection H as <-.
  apply name_of_bytes_ok in En. destruct En as (_ & _ & ->).
  unfold fhed_to_bytes. cbn [f_minor f_kind f_comp f_enc f_mode f_name app].
  rewrite (kind_stable _ _ Ek), (comp_stable _ _ Ec), (enc_stable _ _ Ee), (mode_stable _ _ Em), !n2b_b2n, Hs.
  reflexivity.
Qed.

Lemma fhed_major_refuted : exists bs h,
  fhed_of_bytes bs = Ok h /\ fhed_of_bytes (fhed_to_bytes h) <> Ok h.
Proof.
  exists [x01; x00; x00; x00; x00; x00; x61].
  exists {| f_major := 1; f_minor := 0; f_kind := KFile; f_comp := CNo; f_enc := ENo; f_mode := MCbc; f_name := [x61] |}.
  split; [vm_compute; reflexivity|]. vm_compute. discriminate.
Qed.

Example fhed_inv_ex :
  wf_fhed {| f_major := 0; f_minor := 0; f_kind := KSymlink; f_comp := CXz; f_enc := ECamellia; f_mode := MCtr;
             f_name := lit "dir/caf" ++ [xc3; xa9] |}.
Proof. vm_compute. repeat split; reflexivity. Qed.

Example fhed_stable_ex :
  let bs := [x00; x00; x01; x02; x01; x01] ++ lit "/a/../b/" in
  exists h, fhed_of_bytes bs = Ok h /\ f_major h = f_minor h /\ f_name h = lit "a/b".
Proof. eexists. vm_compute. repeat split; reflexivity. Qed.

(* ---- SHED, exact bytes --------------------------------------------------------------------------------- *)
Lemma shed_stable bs h : shed_of_bytes bs = Ok h -> shed_to_bytes h = bs.
Proof.
  unfold shed_of_bytes. do 6 (destruct bs as [|? bs]; try discriminate).
  destruct (comp_of_n _) eqn:Ec; [|discriminate]. destruct (enc_of_n _) eqn:Ee; [|discriminate].
  destruct (mode_of_n _) eqn:Em; [|discriminate]. cbn [opt_res bind]. intros [= <-].
  unfold shed_to_bytes. cbn [s_major s_minor s_comp s_enc s_mode].
  rewrite (comp_stable _ _ Ec), (enc_stable _ _ Ee), (mode_stable _ _ Em), !n2b_b2n. reflexivity.
Qed.

Example shed_stable_ex : exists h, shed_of_bytes [x07; x09; x04; x02; x01] = Ok h /\ s_comp h = CXz.
Proof. eexists. vm_compute. split; reflexivity. Qed.

(* ---- fPRM ------------------------------------------------------------------------------------------------- *)
(* the domain of the format: u64 ids, u16 mode, names of at most 255 bytes (one length byte), UTF-8 *)
Definition wf_perm p :=
  p_uid p < 2 ^ 64 /\ p_gid p < 2 ^ 64 /\ p_mode p < 2 ^ 16 /\
  len (p_uname p) <= 255 /\ len (p_gname p) <= 255 /\
  utf8_valid (p_uname p) = true /\ utf8_valid (p_gname p) = true.

Lemma perm_inv p : wf_perm p -> perm_of_bytes (perm_to_bytes p) = Ok p.
Proof.
  intros (H1 & H2 & H3 & H4 & H5 & H6 & H7).
  destruct p as [uid un gid gn m]; cbn [p_uid p_uname p_gid p_gname p_mode] in *.
  unfold perm_to_bytes, perm_of_bytes; cbn [p_uid p_uname p_gid p_gname p_mode].
  unfold be64, be16.
  rewrite take_app by apply be_length. cbn [bind].
  rewrite take_app by reflexivity. cbn [bind].
  rewrite of_be_single, b2n_n2b_small by lia. rewrite takeN_app. cbn [bind]. rewrite H6. cbn [negb].
  rewrite take_app by apply be_length. cbn [bind].
  rewrite take_app by reflexivity. cbn [bind].
  rewrite of_be_single, b2n_n2b_small by lia. rewrite takeN_app. cbn [bind]. rewrite H7. cbn [negb].
  rewrite take_all by apply be_length. cbn [bind].
  rewrite !of_be_be by assumption. reflexivity.
Qed.

(* what a successful decode tells: the value is in the domain, and the input starts with its encoding *)
Lemma perm_dec bs p : perm_of_bytes bs = Ok p -> wf_perm p /\ exists rest, bs = perm_to_bytes p ++ rest.
Proof.
  unfold perm_of_bytes.
  destruct (take 8 bs) as [[uid r1]| |] eqn:E1; try discriminate; cbn [bind].
  destruct (take 1 r1) as [[ul r2]| |] eqn:E2; try discriminate; cbn [bind].
  destruct (takeN (of_be ul) r2) as [[un r3]| |] eqn:E3; try discriminate; cbn [bind].
  destruct (utf8_valid un) eqn:Eu; [|discriminate]; cbn [negb].
  destruct (take 8 r3) as [[gid r4]| |] eqn:E4; try discriminate; cbn [bind].
  destruct (take 1 r4) as [[gl r5]| |] eqn:E5; try discriminate; cbn [bind].
  destruct (takeN (of_be gl) r5) as [[gn r6]| |] eqn:E6; try discriminate; cbn [bind].
  destruct (utf8_valid gn) eqn:Eg; [|discriminate]; cbn [negb].
  destruct (take 2 r6) as [[m r7]| |] eqn:E7; try discriminate; cbn [bind].
  intros [= <-].
  apply take_ok in E1, E2, E4, E5, E7. apply takeN_ok in E3, E6.
  destruct E1 as [-> L1], E2 as [-> L2], E3 as [-> L3], E4 as [-> L4], E5 as [-> L5], E6 as [-> L6], E7 as [-> L7].
  destruct ul as [|u [|? ?]]; try discriminate L2. destruct gl as [|g [|? ?]]; try discriminate L5.
  rewrite of_be_single in L3, L6.
  split.
  - unfold wf_perm; cbn [p_uid p_uname p_gid p_gname p_mode].
    pose proof (b2n_lt u). pose proof (b2n_lt g).
    pose proof (of_be_lt_len _ _ L1) as B1. pose proof (of_be_lt_len _ _ L4) as B4. pose proof (of_be_lt_len _ _ L7) as B7.
    change (256 ^ N.of_nat 8) with (2 ^ 64) in B1, B4. change (256 ^ N.of_nat 2) with (2 ^ 16) in B7.
    repeat split; try assumption; lia.
  - exists r7. unfold perm_to_bytes; cbn [p_uid p_uname p_gid p_gname p_mode].
    unfold be64, be16. rewrite L3, L6, !n2b_b2n.
    rewrite <- L1 at 1. rewrite <- L4 at 1. rewrite <- L7 at 1. rewrite !be_of_be.
    rewrite <- !app_assoc. reflexivity.
Qed.

Lemma perm_dec_wf bs p : perm_of_bytes bs = Ok p -> wf_perm p.
Proof. intros H. apply (perm_dec _ _ H). Qed.

Lemma perm_stable bs p : perm_of_bytes bs = Ok p -> perm_of_bytes (perm_to_bytes p) = Ok p.
Proof. intros H. apply perm_inv. eapply perm_dec_wf. exact H. Qed.

(* decoding ignores trailing bytes, so the bytes come back only as a prefix of the input *)
Lemma perm_stable_prefix bs p : perm_of_bytes bs = Ok p -> exists rest, bs = perm_to_bytes p ++ rest.
Proof. intros H. apply (perm_dec _ _ H). Qed.

(* D22: the length byte is `len as u8`; a 256-byte user name is written with length 0 and the
   chunk decodes, without an error, to a different value *)
Definition long_name_perm : perm :=
  {| p_uid := 1000; p_uname := repeat x75 256; p_gid := 100; p_gname := lit "g"; p_mode := 420 |}.

Lemma perm_refuted_long_name :
  len (p_uname long_name_perm) = 256 /\ utf8_valid (p_uname long_name_perm) = true /\
  perm_of_bytes (perm_to_bytes long_name_perm) =
    Ok {| p_uid := 1000; p_uname := []; p_gid := 0x7575757575757575; p_gname := repeat x75 117; p_mode := 0x7575 |} /\
  perm_of_bytes (perm_to_bytes long_name_perm) <> Ok long_name_perm.
Proof.
  split; [vm_compute; reflexivity|]. split; [vm_compute; reflexivity|].
  assert (E : perm_of_bytes (perm_to_bytes long_name_perm) =
    Ok {| p_uid := 1000; p_uname := []; p_gid := 0x7575757575757575; p_gname := repeat x75 117; p_mode := 0x7575 |})
    by (vm_compute; reflexivity).
  split; [exact E|]. rewrite E. unfold long_name_perm. intros H. discriminate H.
Qed.

Example perm_inv_ex :
  wf_perm {| p_uid := 1000; p_uname := lit "user1"; p_gid := 100; p_gname := lit "group1"; p_mode := 420 |}.
Proof. vm_compute. repeat split; (reflexivity || discriminate). Qed.

Example perm_stable_ex : exists p,
  perm_of_bytes (be64 7 ++ [x01] ++ lit "u" ++ be64 8 ++ [x00] ++ be16 493 ++ lit "trailing") = Ok p /\ p_mode p = 493.
Proof. eexists. vm_compute. split; reflexivity. Qed.

(* ---- xATR, stability ----------------------------------------------------------------------------------------- *)
Lemma xattr_dec bs x : xattr_of_bytes bs = Ok x -> wf_xattr x /\ exists rest, bs = xattr_to_bytes x ++ rest.
Proof.
  unfold xattr_of_bytes.
  destruct (take 4 bs) as [[l r1]| |] eqn:E1; try discriminate; cbn [bind].
  destruct (takeN (of_be l) r1) as [[nm r2]| |] eqn:E2; try discriminate; cbn [bind].
  destruct (utf8_valid nm) eqn:Eu; [|discriminate]; cbn [negb].
  destruct (take 4 r2) as [[l2 r3]| |] eqn:E3; try discriminate; cbn [bind].
  destruct (takeN (of_be l2) r3) as [[v r4]| |] eqn:E4; try discriminate; cbn [bind].
  intros [= <-].
  apply take_ok in E1, E3. apply takeN_ok in E2, E4.
  destruct E1 as [-> L1], E2 as [-> L2], E3 as [-> L3], E4 as [-> L4].
  split.
  - unfold wf_xattr; cbn [x_name x_value].
    pose proof (of_be_lt_len _ _ L1) as B1. pose proof (of_be_lt_len _ _ L3) as B3.
    change (256 ^ N.of_nat 4) with (2 ^ 32) in B1, B3.
    repeat split; try assumption; lia.
  - exists r4. unfold xattr_to_bytes; cbn [x_name x_value]. unfold be32. rewrite L2, L4.
    rewrite <- L1 at 1. rewrite <- L3 at 1. rewrite !be_of_be. rewrite <- !app_assoc. reflexivity.
Qed.

Lemma xattr_dec_wf bs x : xattr_of_bytes bs = Ok x -> wf_xattr x.
Proof. intros H. apply (xattr_dec _ _ H). Qed.

Lemma xattr_stable bs x : xattr_of_bytes bs = Ok x -> xattr_of_bytes (xattr_to_bytes x) = Ok x.
Proof. intros H. apply xattr_inv. eapply xattr_dec_wf. exact H. Qed.

Lemma xattr_stable_prefix bs x : xattr_of_bytes bs = Ok x -> exists rest, bs = xattr_to_bytes x ++ rest.
Proof. intros H. apply (xattr_dec _ _ H). Qed.

Example xattr_stable_ex : exists x,
  xattr_of_bytes (be32 9 ++ lit "user.test" ++ be32 2 ++ [x00; xff] ++ lit "junk") = Ok x /\ x_value x = [x00; xff].
Proof. eexists. vm_compute. split; reflexivity. Qed.

(* ---- fSIZ: minimal big-endian u128 --------------------------------------------------------------------------- *)
Lemma of_be_drop_zeros l : of_be (drop_zeros l) = of_be l.
Proof.
  induction l as [|a l IH]; [reflexivity|]. cbn [drop_zeros].
  destruct (N.eqb_spec (b2n a) 0) as [E|]; [|reflexivity].
  rewrite IH, of_be_cons, E. lia.
Qed.

Lemma drop_zeros_length l : (length (drop_zeros l) <= length l)%nat.
Proof.
  induction l as [|a l IH]; [cbn; lia|]. cbn [drop_zeros].
  destruct (N.eqb (b2n a) 0); cbn [length]; lia.
Qed.

Lemma lastn_all {A} n (l : list A) : (length l <= n)%nat -> lastn n l = l.
Proof. intros H. unfold lastn. replace (length l - n)%nat with 0%nat by lia. reflexivity. Qed.

Lemma lastn_length {A} n (l : list A) : (length (lastn n l) <= n)%nat.
Proof. unfold lastn. rewrite skipn_length. lia. Qed.

Lemma fsiz_to_bytes_length n : (length (fsiz_to_bytes n) <= 16)%nat.
Proof.
  unfold fsiz_to_bytes, be128. pose proof (drop_zeros_length (be 16 n)) as H. rewrite be_length in H. exact H.
Qed.

Lemma fsiz_of_to_mod n : fsiz_of_bytes (fsiz_to_bytes n) = n mod 2 ^ 128.
Proof.
  unfold fsiz_of_bytes. rewrite lastn_all by apply fsiz_to_bytes_length.
  unfold fsiz_to_bytes, be128. rewrite of_be_drop_zeros, of_be_be_mod. reflexivity.
Qed.

Lemma fsiz_inv n : n < 2 ^ 128 -> fsiz_of_bytes (fsiz_to_bytes n) = n.
Proof. intros H. rewrite fsiz_of_to_mod. apply N.mod_small. exact H. Qed.

Lemma fsiz_of_bytes_lt bs : fsiz_of_bytes bs < 2 ^ 128.
Proof.
  unfold fsiz_of_bytes. pose proof (of_be_lt (lastn 16 bs)) as H. pose proof (lastn_length 16 bs) as L.
  assert (256 ^ len (lastn 16 bs) <= 256 ^ 16) by (apply N.pow_le_mono_r; unfold len; lia).
  change (2 ^ 128) with (256 ^ 16). lia.
Qed.

Lemma fsiz_stable bs :
  fsiz_to_bytes (fsiz_of_bytes (fsiz_to_bytes (fsiz_of_bytes bs))) = fsiz_to_bytes (fsiz_of_bytes bs).
Proof. rewrite fsiz_inv by apply fsiz_of_bytes_lt. reflexivity. Qed.

(* the stronger statement: fsiz_to_bytes produces THE minimal big-endian form *)
Definition no_leading_zero (bs : bytes) : Prop := match bs with b :: _ => b2n b <> 0 | [] => True end.
Definition minimal_be128 (bs : bytes) : Prop := (length bs <= 16)%nat /\ no_leading_zero bs.

Lemma drop_zeros_nlz l : no_leading_zero (drop_zeros l).
Proof.
  induction l as [|a l IH]; [exact I|]. cbn [drop_zeros].
  destruct (N.eqb_spec (b2n a) 0) as [|E]; [exact IH|exact E].
Qed.

Lemma drop_zeros_id l : no_leading_zero l -> drop_zeros l = l.
Proof.
  destruct l as [|a l]; [reflexivity|]. cbn [no_leading_zero drop_zeros]. intros H.
  destruct (N.eqb_spec (b2n a) 0); [contradiction|reflexivity].
Qed.

Lemma drop_zeros_pad k l : drop_zeros (repeat x00 k ++ l) = drop_zeros l.
Proof. induction k as [|k IH]; [reflexivity|]. cbn [repeat app drop_zeros]. exact IH. Qed.

Lemma be_pad k l : be (k + length l) (of_be l) = repeat x00 k ++ l.
Proof.
  induction k as [|k IH]; [apply be_of_be|].
  cbn [Nat.add be repeat app]. rewrite IH. f_equal.
  pose proof (of_be_lt l) as H.
  assert (256 ^ len l <= 256 ^ N.of_nat (k + length l)) by (apply N.pow_le_mono_r; unfold len; lia).
  rewrite N.div_small by lia. reflexivity.
Qed.

Lemma fsiz_minimal_to n : minimal_be128 (fsiz_to_bytes n).
Proof. split; [apply fsiz_to_bytes_length | apply drop_zeros_nlz]. Qed.

Lemma fsiz_minimal_stable bs : minimal_be128 bs -> fsiz_to_bytes (fsiz_of_bytes bs) = bs.
Proof.
  intros [L Z]. unfold fsiz_of_bytes, fsiz_to_bytes, be128. rewrite lastn_all by exact L.
  replace 16%nat with ((16 - length bs) + length bs)%nat at 1 by lia.
  rewrite be_pad, drop_zeros_pad. apply drop_zeros_id. exact Z.
Qed.

Lemma fsiz_minimal :
  (forall n, minimal_be128 (fsiz_to_bytes n) /\ fsiz_of_bytes (fsiz_to_bytes n) = n mod 2 ^ 128) /\
  (forall bs, minimal_be128 bs -> fsiz_to_bytes (fsiz_of_bytes bs) = bs).
Proof. split; [intros n; split; [apply fsiz_minimal_to | apply fsiz_of_to_mod] | exact fsiz_minimal_stable]. Qed.

Example fsiz_ex : fsiz_to_bytes 0 = [] /\ fsiz_to_bytes 65536 = [x01; x00; x00] /\
  fsiz_of_bytes (repeat xff 17) = 2 ^ 128 - 1 /\ minimal_be128 [x01; x00; x00].
Proof. vm_compute. repeat split; (reflexivity || discriminate || lia). Qed.

(* ---- chunk-type property bits --------------------------------------------------------------------------------- *)
(* a fact about a single byte may be proved by evaluating it on all 256 values *)
Definition all_bytes : list byte := map (fun n => n2b (N.of_nat n)) (seq 0 256).

Lemma all_bytes_complete b : In b all_bytes.
Proof.
  unfold all_bytes. apply in_map_iff. exists (N.to_nat (b2n b)). split.
  - rewrite N2Nat.id. apply n2b_b2n.
  - apply in_seq. pose proof (b2n_lt b). lia.
Qed.

Lemma byte_forall (P : byte -> bool) : forallb P all_bytes = true -> forall b, P b = true.
Proof. intros H b. rewrite forallb_forall in H. apply H, all_bytes_complete. Qed.

(* bit 5 is the test the code performs: `byte & 32 != 0` *)
Lemma bit5_land b : bit5 b = negb (N.eqb (N.land (b2n b) 32) 0).
Proof.
  apply Bool.eqb_prop. revert b. apply byte_forall. vm_compute. reflexivity.
Qed.

Lemma bit5_range b : bit5 b = N.leb 32 (b2n b mod 64).
Proof.
  apply Bool.eqb_prop. revert b. apply byte_forall. vm_compute. reflexivity.
Qed.

(* for an ASCII letter, bit 5 is the case bit *)
Lemma alpha_bit5_lower b : is_alpha b = true -> bit5 b = is_lower b.
Proof.
  intros H. apply Bool.eqb_prop. revert b H.
  assert (A : forall b, implb (is_alpha b) (Bool.eqb (bit5 b) (is_lower b)) = true)
    by (apply byte_forall; vm_compute; reflexivity).
  intros b H. specialize (A b). rewrite H in A. exact A.
Qed.

Lemma alpha_bit5_upper b : is_alpha b = true -> negb (bit5 b) = is_upper b.
Proof.
  intros H. apply Bool.eqb_prop. revert b H.
  assert (A : forall b, implb (is_alpha b) (Bool.eqb (negb (bit5 b)) (is_upper b)) = true)
    by (apply byte_forall; vm_compute; reflexivity).
  intros b H. specialize (A b). rewrite H in A. exact A.
Qed.

(* the four property bits of a chunk type made of ASCII letters (every type the library defines or accepts
   through ChunkType::private) are the cases of its four letters *)
Lemma chunk_type_bits a b c d :
  let ty := [a; b; c; d] in
  (ty_is_critical ty = negb (bit5 a) /\ ty_is_private ty = bit5 b /\
   ty_is_reserved ty = bit5 c /\ ty_is_safe_to_copy ty = bit5 d) /\
  (forallb is_alpha ty = true ->
   ty_is_critical ty = is_upper a /\ ty_is_private ty = is_lower b /\
   ty_is_reserved ty = is_lower c /\ ty_is_safe_to_copy ty = is_lower d).
Proof.
  cbv zeta. split; [repeat split|].
  cbn [forallb]. rewrite !andb_true_iff. intros (Ha & Hb & Hc & Hd & _).
  unfold ty_is_critical, ty_is_private, ty_is_reserved, ty_is_safe_to_copy. cbn [nth].
  rewrite alpha_bit5_upper, !alpha_bit5_lower by assumption. repeat split.
Qed.

(* a type accepted by ChunkType::private is private and does not have the reserved bit *)
Lemma private_check_bits ty : ty_private_check ty = 0 -> length ty = 4%nat ->
  ty_is_private ty = true /\ ty_is_reserved ty = false.
Proof.
  intros H L. destruct ty as [|a [|b [|c [|d [|? ?]]]]]; try discriminate L.
  unfold ty_private_check in H. cbn [nth] in H.
  destruct (forallb is_alpha [a; b; c; d]) eqn:Ea; [|discriminate H]. cbn [negb] in H.
  destruct (is_lower b) eqn:Eb; [|discriminate H]. destruct (is_upper c) eqn:Ec; [|discriminate H].
  cbn [forallb] in Ea. rewrite !andb_true_iff in Ea. destruct Ea as (Ha & Hb & Hc & Hd & _).
  unfold ty_is_private, ty_is_reserved. cbn [nth].
  rewrite alpha_bit5_lower by assumption. split; [exact Eb|].
  rewrite <- (negb_involutive (bit5 c)), alpha_bit5_upper, Ec by assumption. reflexivity.
Qed.

(* and conversely the check refuses exactly the others *)
Lemma private_check_codes ty : length ty = 4%nat ->
  ty_private_check ty = 0 <->
  forallb is_alpha ty = true /\ ty_is_private ty = true /\ ty_is_reserved ty = false.
Proof.
  intros L. split.
  - intros H. pose proof (private_check_bits ty H L) as [H1 H2]. repeat split; try assumption.
    unfold ty_private_check in H. destruct (forallb is_alpha ty); [reflexivity|discriminate H].
  - intros (Ha & Hp & Hr). destruct ty as [|a [|b [|c [|d [|? ?]]]]]; try discriminate L.
    unfold ty_private_check. rewrite Ha. cbn [negb nth].
    cbn [forallb] in Ha. rewrite !andb_true_iff in Ha. destruct Ha as (_ & Hb & Hc & _).
    unfold ty_is_private, ty_is_reserved in *. cbn [nth] in *.
    rewrite alpha_bit5_lower in Hp by assumption. rewrite Hp. cbn [negb].
    rewrite <- alpha_bit5_upper, Hr by assumption. reflexivity.
Qed.

Example private_check_ex : ty_private_check (lit "myTy") = 0 /\ length (lit "myTy") = 4%nat.
Proof. vm_compute. split; reflexivity. Qed.
Example alpha_ex : is_alpha x61 = true /\ is_alpha x5a = true.
Proof. vm_compute. split; reflexivity. Qed.
