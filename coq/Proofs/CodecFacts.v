(* CodecFacts.v — inverse and stability laws of the library's metadata codecs (C15). *)
From PNA Require Import Base Name Codec BaseFacts.
Require Import ZArith ZifyN ZifyNat ZifyBool.
Open Scope N_scope.

Ltac enum_stable :=
  repeat match goal with
  | |- context [N.eqb ?n ?c] => destruct (N.eqb_spec n c) as [->|]; [intros [= <-]; reflexivity|]
  end; discriminate.

(* ---- enums: exhaustive over the type, and over all 256 byte values ------------- *)
Lemma kind_inv k : kind_of_n (kind_to_n k) = Some k. Proof. destruct k; reflexivity. Qed.
Lemma comp_inv k : comp_of_n (comp_to_n k) = Some k. Proof. destruct k; reflexivity. Qed.
Lemma enc_inv k : enc_of_n (enc_to_n k) = Some k. Proof. destruct k; reflexivity. Qed.
Lemma mode_inv k : mode_of_n (mode_to_n k) = Some k. Proof. destruct k; reflexivity. Qed.

Lemma kind_stable n k : kind_of_n n = Some k -> kind_to_n k = n.
Proof. unfold kind_of_n. enum_stable. Qed.
Lemma comp_stable n k : comp_of_n n = Some k -> comp_to_n k = n.
Proof. unfold comp_of_n. enum_stable. Qed.
Lemma enc_stable n k : enc_of_n n = Some k -> enc_to_n k = n.
Proof. unfold enc_of_n. enum_stable. Qed.
Lemma mode_stable n k : mode_of_n n = Some k -> mode_to_n k = n.
Proof. unfold mode_of_n. enum_stable. Qed.

Lemma kind_lt k : kind_to_n k < 256. Proof. destruct k; cbn; lia. Qed.
Lemma comp_lt k : comp_to_n k < 256. Proof. destruct k; cbn; lia. Qed.
Lemma enc_lt k : enc_to_n k < 256. Proof. destruct k; cbn; lia. Qed.
Lemma mode_lt k : mode_to_n k < 256. Proof. destruct k; cbn; lia. Qed.

(* ---- take -------------------------------------------------------------------------- *)
Lemma take_app n a b : length a = n -> take n (a ++ b) = Ok (a, b).
Proof.
  intros <-. unfold take. rewrite app_length.
  replace (Nat.leb (length a) (length a + length b)) with true by (symmetry; apply Nat.leb_le; lia).
  rewrite firstn_app, Nat.sub_diag, firstn_all, skipn_app, Nat.sub_diag, skipn_all. cbn. rewrite app_nil_r. reflexivity.
Qed.

Lemma takeN_app a b : takeN (len a) (a ++ b) = Ok (a, b).
Proof.
  unfold takeN. rewrite len_app.
  replace (N.leb (len a) (len a + len b)) with true by (symmetry; apply N.leb_le; lia).
  unfold len. rewrite Nat2N.id.
  rewrite firstn_app, Nat.sub_diag, firstn_all, skipn_app, Nat.sub_diag, skipn_all. cbn. rewrite app_nil_r. reflexivity.
Qed.

(* ---- AHED ----------------------------------------------------------------------------- *)
Definition wf_ahed h := a_major h < 256 /\ a_minor h < 256 /\ a_number h < 2 ^ 32.

Lemma ahed_inv h : wf_ahed h -> ahed_of_bytes (ahed_to_bytes h) = Ok h.
Proof.
  intros (H1 & H2 & H3). destruct h as [ma mi nu]; cbn [a_major a_minor a_number] in *.
  unfold ahed_to_bytes, be32. cbn [be app a_major a_minor a_number ahed_of_bytes].
  rewrite !b2n_n2b_small by assumption.
  change [n2b (nu / 256 ^ N.of_nat 3); n2b (nu / 256 ^ N.of_nat 2); n2b (nu / 256 ^ N.of_nat 1); n2b (nu / 256 ^ N.of_nat 0)]
    with (be 4 nu).
  rewrite of_be_be by exact H3. reflexivity.
Qed.

Lemma ahed_dec_wf bs h : ahed_of_bytes bs = Ok h -> wf_ahed h.
Proof.
  unfold ahed_of_bytes. do 9 (destruct bs as [|? bs]; try discriminate). intros [= <-].
  unfold wf_ahed; cbn [a_major a_minor a_number]. repeat split; try apply b2n_lt.
  match goal with |- of_be ?l < _ => pose proof (of_be_lt l) as H end. exact H.
Qed.

Lemma ahed_stable bs h : ahed_of_bytes bs = Ok h -> ahed_of_bytes (ahed_to_bytes h) = Ok h.
Proof. intros H. apply ahed_inv. eapply ahed_dec_wf. exact H. Qed.

(* ---- SHED ------------------------------------------------------------------------------- *)
Lemma shed_inv h : s_major h < 256 -> s_minor h < 256 -> shed_of_bytes (shed_to_bytes h) = Ok h.
Proof.
  intros H1 H2. destruct h as [ma mi c e m]; cbn [s_major s_minor] in *.
  unfold shed_to_bytes, shed_of_bytes. cbn [s_major s_minor s_comp s_enc s_mode].
  rewrite !b2n_n2b_small by (assumption || apply comp_lt || apply enc_lt || apply mode_lt).
  rewrite comp_inv, enc_inv, mode_inv. reflexivity.
Qed.

(* ---- timestamps --------------------------------------------------------------------------- *)
Lemma time_inv secs : secs < 2 ^ 64 -> time_of_bytes (time_to_bytes secs) = Ok secs.
Proof.
  intros H. unfold time_of_bytes, time_to_bytes, be64. rewrite be_length. cbn [Nat.eqb].
  rewrite of_be_be by exact H. reflexivity.
Qed.

Lemma time_stable bs secs : time_of_bytes bs = Ok secs -> time_to_bytes secs = bs.
Proof.
  unfold time_of_bytes, time_to_bytes, be64. destruct (Nat.eqb_spec (length bs) 8) as [E|]; [|discriminate].
  intros [= <-]. rewrite <- E. apply be_of_be.
Qed.

(* ---- xATR ------------------------------------------------------------------------------------- *)
Definition wf_xattr x := len (x_name x) < 2 ^ 32 /\ len (x_value x) < 2 ^ 32 /\ utf8_valid (x_name x) = true.

Lemma xattr_inv x : wf_xattr x -> xattr_of_bytes (xattr_to_bytes x) = Ok x.
Proof.
  intros (H1 & H2 & H3). destruct x as [nm v]; cbn [x_name x_value] in *.
  unfold xattr_to_bytes, xattr_of_bytes; cbn [x_name x_value].
  rewrite take_app by apply be_length. cbn [bind].
  unfold be32. rewrite of_be_be by exact H1. rewrite takeN_app. cbn [bind]. rewrite H3. cbn [negb].
  rewrite take_app by apply be_length. cbn [bind].
  rewrite of_be_be by exact H2. rewrite <- (app_nil_r v) at 2. rewrite takeN_app. reflexivity.
Qed.
