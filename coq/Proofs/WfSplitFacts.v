(* WfSplitFacts.v — C14 split_wf: every successful `write_split max es` (Model/Split.v) of a chunk
   sequence the strict recogniser accepts — in particular of the serialisation of `writable`
   entries — yields part files that the strict recogniser accepts as a part chain (wf_parts).
   The splitter only cuts FDAT/SDAT payloads in two; `crefines` is that relation, established for
   the writer here (SplitFacts has it only up to `merge`, which also drops empty stream chunks and
   is too coarse for the recogniser), and acceptance by the strict grammar is preserved by it. *)
From PNA Require Import Base Crc32 Name Codec Chunk Archive Entry Wf.
From PNA Require Import BaseFacts NameFacts CodecFacts Crc32Facts ChunkFacts ArchiveFacts EntryFacts WfFacts
  WfWriterFacts WfAgreeFacts.
From PNA Require Split SplitFacts.
Require Import ZArith ZifyN ZifyNat ZifyBool.
Open Scope N_scope.

(* the chunk of the split model as a chunk of the archive model, a part file as bytes *)
Definition to_c (c : Split.chunk) : chunk := mk (fst c) (snd c).
Definition of_c (c : chunk) : Split.chunk := (cty c, cdata c).
Definition ser_pfile (f : Split.pfile) : bytes := sig ++ ser_chunks (map to_c f).

Lemma to_of_c c : to_c (of_c c) = c.
Proof. destruct c; reflexivity. Qed.
Lemma map_to_of_c cs : map to_c (map of_c cs) = cs.
Proof. induction cs as [|c cs IH]; [reflexivity|]. cbn [map]. rewrite to_of_c, IH. reflexivity. Qed.

Definition stream_type (t : bytes) : bool := bytes_eqb t FDAT || bytes_eqb t SDAT.

(* y is x with some FDAT/SDAT chunks cut in pieces *)
Inductive crefines : list chunk -> list chunk -> Prop :=
  | cr_nil : crefines [] []
  | cr_keep c x y : crefines x y -> crefines (c :: x) (c :: y)
  | cr_cut t a b x y : stream_type t = true -> crefines (mk t b :: x) y -> crefines (mk t (a ++ b) :: x) (mk t a :: y).

Lemma crefines_refl x : crefines x x.
Proof. induction x; constructor; assumption. Qed.

Lemma crefines_app a a' : crefines a a' -> forall b b', crefines b b' -> crefines (a ++ b) (a' ++ b').
Proof.
  induction 1 as [|c x y _ IH|t a b x y T _ IH]; intros u u' U; cbn [app].
  - exact U.
  - apply cr_keep. apply IH. exact U.
  - apply cr_cut; [exact T|]. exact (IH _ _ U).
Qed.

(* ================================================================================================= *)
(* 1. the splitter refines                                                                            *)
(* ================================================================================================= *)
Lemma split_loop_refines max : forall p total f rest,
  Split.split_loop max total p = (f, rest) ->
  forall y, crefines (map to_c rest) y -> crefines (map to_c p) (map to_c f ++ y).
Proof.
  induction p as [|c r IH]; intros total f rest; cbn [Split.split_loop].
  - intros [= <- <-] y H. exact H.
  - destruct (N.ltb max (total + Split.chunk_len c)).
    + destruct (Split.is_stream c && N.ltb (total + Split.MIN_CHUNK) max) eqn:CUT.
      * intros [= <- <-] y H. destruct c as [t d]. cbn [map to_c fst snd app] in *.
        apply andb_prop in CUT. destruct CUT as (ST & _).
        rewrite <- (firstn_skipn (N.to_nat (max - total - Split.MIN_CHUNK)) d) at 1.
        apply cr_cut; [exact ST|exact H].
      * intros [= <- <-] y H. exact H.
    + destruct (Split.split_loop max (total + Split.chunk_len c) r) as [f' rest'] eqn:E.
      intros [= <- <-] y H. cbn [map app]. apply cr_keep. exact (IH _ _ _ E y H).
Qed.

Lemma stp_refines : forall fuel p s max ps,
  Split.split_to_parts_fuel fuel p s max = Split.Fin (Ok ps) -> crefines (map to_c p) (map to_c (concat ps)).
Proof.
  induction fuel as [|f IH]; intros p s max ps H; cbn [Split.split_to_parts_fuel] in H; [discriminate|].
  destruct (Split.split s p) as [w o] eqn:E. destruct o as [rest|].
  - destruct (N.eqb s max && N.eqb (Split.bytes_len w) 0); [discriminate|].
    destruct (Split.split_to_parts_fuel f rest max max) as [[ps'| |]|] eqn:R; try discriminate.
    inversion H; subst; clear H. cbn [concat]. rewrite map_app.
    apply SplitFacts.split_some in E. destruct E as (_ & E).
    exact (split_loop_refines _ _ _ _ _ E _ (IH _ _ _ _ R)).
  - inversion H; subst; clear H. apply SplitFacts.split_none in E. destruct E as (-> & _).
    cbn [concat]. rewrite app_nil_r. apply crefines_refl.
Qed.

Lemma we_refines B fuel : forall es st st' x,
  SplitFacts.shape st x -> Split.write_entries_fuel fuel B st es = Split.Fin (Ok st') ->
  exists y, SplitFacts.shape st' (x ++ y) /\ crefines (map to_c (concat es)) (map to_c y).
Proof.
  induction es as [|e r IH]; intros st st' x Sx H; cbn [Split.write_entries_fuel] in H.
  - inversion H; subst. exists []. rewrite app_nil_r. split; [exact Sx|constructor].
  - destruct (N.ltb B (Split.ws_written st)); [discriminate|].
    destruct (Split.split_to_parts_fuel fuel e (B - Split.ws_written st) B) as [[ps| |]|] eqn:S; try discriminate.
    destruct (Split.add_pieces B st ps) as [st1| |] eqn:A; try discriminate.
    pose proof (SplitFacts.add_pieces_shape B ps st st1 x Sx A) as S1.
    destruct (IH st1 st' _ S1 H) as (y & Sy & My).
    exists (concat ps ++ y). split; [rewrite app_assoc; exact Sy|].
    cbn [concat]. rewrite !map_app. apply crefines_app; [exact (stp_refines _ _ _ _ _ S)|exact My].
Qed.

(* what write_split returns: numbered parts whose bodies together refine the input *)
Theorem write_split_refines max es parts :
  Split.write_split max es = Ok parts ->
  exists bds lastb, parts = SplitFacts.assemble bds lastb /\ len bds < 2 ^ 32 /\
                    crefines (map to_c (concat es)) (map to_c (concat bds ++ lastb)).
Proof.
  intros H. apply SplitFacts.write_split_ok_inv in H. destruct H as (Hm & st & W & ->).
  destruct (we_refines _ _ es _ _ [] SplitFacts.init_shape W) as (y & (bds & S1 & S2 & S3) & My).
  pose proof (SplitFacts.we_num _ _ _ _ _ W) as NU.
  exists bds, (Split.ws_cur st). split; [|split].
  - unfold SplitFacts.assemble, Split.close_part. rewrite S1, S2. reflexivity.
  - rewrite <- S2. unfold Split.U32_MAX in NU. cbn [Split.init_wstate Split.ws_num] in NU.
    change (2 ^ 32) with 4294967296. lia.
  - cbn [app] in S3. rewrite S3. exact My.
Qed.

(* ================================================================================================= *)
(* 2. the strict loops do not see where the data chunks are cut                                       *)
(* ================================================================================================= *)
Definition data_rel (d d' : list bytes) : Prop := concat d = concat d' /\ is_nil d = is_nil d'.
Definition nacc_rel (a a' : nacc) : Prop :=
  k_info a = k_info a' /\ k_phsf a = k_phsf a' /\ k_extra a = k_extra a' /\ data_rel (k_data a) (k_data a') /\
  k_csize a = k_csize a' /\ k_size a = k_size a' /\ k_c a = k_c a' /\ k_m a = k_m a' /\ k_a a = k_a a' /\
  k_perm a = k_perm a' /\ k_x a = k_x a'.
Definition sacc_rel (a a' : sacc) : Prop :=
  q_phsf a = q_phsf a' /\ data_rel (q_data a) (q_data a') /\ q_len a = q_len a' /\ q_extra a = q_extra a'.

Lemma data_rel_refl d : data_rel d d. Proof. split; reflexivity. Qed.
Lemma data_rel_trans a b c : data_rel a b -> data_rel b c -> data_rel a c.
Proof. intros (A1 & A2) (B1 & B2). split; congruence. Qed.
Lemma data_rel_snoc d d' x : data_rel d d' -> data_rel (d ++ [x]) (d' ++ [x]).
Proof. intros (C & _). split; [rewrite !concat_app, C; reflexivity|destruct d, d'; reflexivity]. Qed.
Lemma data_rel_cut d d' a b : data_rel d d' -> data_rel (d ++ [a ++ b]) ((d' ++ [a]) ++ [b]).
Proof.
  intros (C & _). split; [|destruct d, d'; reflexivity].
  rewrite !concat_app, C. cbn [concat]. rewrite !app_nil_r, <- app_assoc. reflexivity.
Qed.

Lemma nacc_rel_refl a : nacc_rel a a.
Proof. unfold nacc_rel. repeat split; reflexivity. Qed.
Lemma nacc_rel_trans a b c : nacc_rel a b -> nacc_rel b c -> nacc_rel a c.
Proof.
  unfold nacc_rel. intros (A1 & A2 & A3 & A4 & A5 & A6 & A7 & A8 & A9 & A10 & A11) (B1 & B2 & B3 & B4 & B5 & B6 & B7 & B8 & B9 & B10 & B11).
  destruct A4, B4. repeat split; congruence.
Qed.
Lemma sacc_rel_refl a : sacc_rel a a.
Proof. unfold sacc_rel. repeat split; reflexivity. Qed.
Lemma sacc_rel_trans a b c : sacc_rel a b -> sacc_rel b c -> sacc_rel a c.
Proof.
  unfold sacc_rel. intros (A1 & A2 & A3 & A4) (B1 & B2 & B3 & B4).
  destruct A2, B2. repeat split; congruence.
Qed.

Ltac nrel :=
  unfold nacc_rel; cbn [k_info k_phsf k_extra k_data k_csize k_size k_c k_m k_a k_perm k_x];
  split; [try reflexivity|split; [try reflexivity|split; [try reflexivity|
  split; [try assumption; try apply data_rel_refl|repeat split; try reflexivity]]]].

Lemma strict_step_rel enc c a a' r : nacc_rel a a' -> strict_step enc c a = SOk r ->
  exists r', strict_step enc c a' = SOk r' /\ nacc_rel r r'.
Proof.
  destruct a as [i p e d cs sz tc tm ta pm xs], a' as [i' p' e' d' cs' sz' tc' tm' ta' pm' xs'].
  unfold nacc_rel. cbn [k_info k_phsf k_extra k_data k_csize k_size k_c k_m k_a k_perm k_x].
  intros (<- & <- & <- & DR & <- & <- & <- & <- & <- & <- & <-). pose proof DR as (DC & DN).
  unfold strict_step. cbn [k_info k_phsf k_extra k_data k_csize k_size k_c k_m k_a k_perm k_x].
  destruct (ty_is c FEND); [discriminate|]. destruct (ty_is c FHED); [discriminate|].
  destruct (ty_is c PHSF).
  { unfold phsf_step. rewrite <- DN. destruct (negb (encrypted enc)); [discriminate|]. destruct p; [discriminate|].
    destruct (negb (is_nil d)); [discriminate|]. destruct (phsf_shape (cdata c)); [|discriminate]. cbn [sbind].
    intros [= <-]. eexists; split; [reflexivity|nrel]. }
  destruct (ty_is c FDAT).
  { destruct (encrypted enc && negb (is_some p)); [discriminate|]. intros [= <-].
    eexists; split; [reflexivity|nrel]. apply data_rel_snoc. exact DR. }
  destruct (ty_is c fSIZ).
  { match goal with |- context [if ?b then SNo RMeta else _] => destruct b end; [discriminate|].
    intros [= <-]. eexists; split; [reflexivity|nrel]. }
  destruct (ty_is c cTIM).
  { match goal with |- context [if ?b then SNo RMeta else _] => destruct b end; [discriminate|].
    intros [= <-]. eexists; split; [reflexivity|nrel]. }
  destruct (ty_is c mTIM).
  { match goal with |- context [if ?b then SNo RMeta else _] => destruct b end; [discriminate|].
    intros [= <-]. eexists; split; [reflexivity|nrel]. }
  destruct (ty_is c aTIM).
  { match goal with |- context [if ?b then SNo RMeta else _] => destruct b end; [discriminate|].
    intros [= <-]. eexists; split; [reflexivity|nrel]. }
  destruct (ty_is c fPRM).
  { destruct (is_some pm); [discriminate|]. destruct (perm_of_bytes (cdata c)) as [q| |]; try discriminate.
    destruct (bytes_eqb (perm_to_bytes q) (cdata c)); [|discriminate].
    intros [= <-]. eexists; split; [reflexivity|nrel]. }
  destruct (ty_is c xATR).
  { destruct (xattr_of_bytes (cdata c)) as [q| |]; try discriminate.
    destruct (bytes_eqb (xattr_to_bytes q) (cdata c)); [|discriminate].
    intros [= <-]. eexists; split; [reflexivity|nrel]. }
  destruct (ty_is_critical (cty c)); [discriminate|].
  intros [= <-]. eexists; split; [reflexivity|nrel].
Qed.

Lemma strict_loop_rel enc l : forall a a' r, nacc_rel a a' -> strict_loop enc l a = SOk r ->
  exists r', strict_loop enc l a' = SOk r' /\ nacc_rel r r'.
Proof.
  induction l as [|c l IH]; intros a a' r R; cbn [strict_loop].
  - intros [= <-]. exists a'. split; [reflexivity|exact R].
  - destruct (strict_step enc c a) as [a1|] eqn:S; cbn [sbind]; [|discriminate]. intro H.
    destruct (strict_step_rel _ _ _ _ _ R S) as (a1' & S' & R1). rewrite S'. cbn [sbind]. exact (IH _ _ _ R1 H).
Qed.

Lemma stream_type_cases t : stream_type t = true -> t = FDAT \/ t = SDAT.
Proof. unfold stream_type. intro H. apply orb_prop in H. destruct H as [H|H]; apply bytes_eqb_eq in H; auto. Qed.

Lemma strict_cut_step enc t a b s r : stream_type t = true ->
  strict_step enc (mk t (a ++ b)) s = SOk r ->
  exists r', strict_loop enc [mk t a; mk t b] s = SOk r' /\ nacc_rel r r'.
Proof.
  intros T. destruct (stream_type_cases _ T) as [->| ->].
  - cbn [strict_loop]. unfold strict_step. tysimp. cbv zeta. cbn [cdata mk].
    destruct (encrypted enc && negb (is_some (k_phsf s))) eqn:E; [discriminate|]. intros [= <-].
    cbn [sbind k_info k_phsf k_extra k_data k_csize k_size k_c k_m k_a k_perm k_x]. rewrite E. cbn [sbind].
    eexists; split; [reflexivity|]. nrel; [apply data_rel_cut, data_rel_refl|].
    rewrite len_app. lia.
  - unfold strict_step. tysimp. change (ty_is_critical (cty (mk SDAT (a ++ b)))) with true. cbv iota. discriminate.
Qed.

Lemma strict_loop_refines enc x y : crefines x y -> forall s s' r, nacc_rel s s' ->
  strict_loop enc x s = SOk r -> exists r', strict_loop enc y s' = SOk r' /\ nacc_rel r r'.
Proof.
  induction 1 as [|c x y _ IH|t a b x y T _ IH]; intros s s' r R.
  - cbn [strict_loop]. intros [= <-]. exists s'. split; [reflexivity|exact R].
  - cbn [strict_loop]. destruct (strict_step enc c s) as [s1|] eqn:S; cbn [sbind]; [|discriminate]. intro H.
    destruct (strict_step_rel _ _ _ _ _ R S) as (s1' & S' & R1). rewrite S'. cbn [sbind]. exact (IH _ _ _ R1 H).
  - cbn [strict_loop]. destruct (strict_step enc (mk t (a ++ b)) s) as [s1|] eqn:S; cbn [sbind]; [|discriminate]. intro H.
    destruct (strict_step_rel _ _ _ _ _ R S) as (s1' & S' & R1).
    destruct (strict_cut_step _ _ _ _ _ _ T S') as (s1'' & C & R2). cbn [strict_loop] in C.
    destruct (strict_step enc (mk t a) s') as [s2|] eqn:SA; cbn [sbind] in C; [|discriminate].
    destruct (strict_step enc (mk t b) s2) as [s3|] eqn:SB; cbn [sbind] in C; [|discriminate].
    inversion C; subst s3; clear C.
    destruct (strict_loop_rel _ _ _ _ _ (nacc_rel_trans _ _ _ R1 R2) H) as (r1 & H1 & Rr).
    assert (strict_loop enc (mk t b :: x) s2 = SOk r1) as L by (cbn [strict_loop]; rewrite SB; exact H1).
    destruct (IH s2 s2 r1 (nacc_rel_refl _) L) as (r' & L' & Rr'). cbn [sbind]. rewrite L'.
    exists r'. split; [reflexivity|exact (nacc_rel_trans _ _ _ Rr Rr')].
Qed.

(* the same for the loop of a solid entry *)
Ltac srel :=
  unfold sacc_rel; cbn [q_phsf q_data q_len q_extra];
  split; [try reflexivity|split; [try assumption; try apply data_rel_refl|split; try reflexivity]].

Lemma solid_step_rel enc c a a' r : sacc_rel a a' -> solid_step enc c a = SOk r ->
  exists r', solid_step enc c a' = SOk r' /\ sacc_rel r r'.
Proof.
  destruct a as [p d l e], a' as [p' d' l' e']. unfold sacc_rel. cbn [q_phsf q_data q_len q_extra].
  intros (<- & DR & <- & <-). pose proof DR as (DC & DN).
  unfold solid_step. cbn [q_phsf q_data q_len q_extra].
  destruct (ty_is c SEND); [discriminate|]. destruct (ty_is c SHED); [discriminate|].
  destruct (ty_is c SDAT).
  { destruct (encrypted enc && negb (is_some p)); [discriminate|]. intros [= <-].
    eexists; split; [reflexivity|srel]. apply data_rel_snoc. exact DR. }
  destruct (ty_is c PHSF).
  { unfold phsf_step. rewrite <- DN. destruct (negb (encrypted enc)); [discriminate|]. destruct p; [discriminate|].
    destruct (negb (is_nil d)); [discriminate|]. destruct (phsf_shape (cdata c)); [|discriminate]. cbn [sbind].
    intros [= <-]. eexists; split; [reflexivity|srel]. }
  destruct (ty_is_critical (cty c)); [discriminate|].
  intros [= <-]. eexists; split; [reflexivity|srel].
Qed.

Lemma solid_loop_rel enc l : forall a a' r, sacc_rel a a' -> solid_loop enc l a = SOk r ->
  exists r', solid_loop enc l a' = SOk r' /\ sacc_rel r r'.
Proof.
  induction l as [|c l IH]; intros a a' r R; cbn [solid_loop].
  - intros [= <-]. exists a'. split; [reflexivity|exact R].
  - destruct (solid_step enc c a) as [a1|] eqn:S; cbn [sbind]; [|discriminate]. intro H.
    destruct (solid_step_rel _ _ _ _ _ R S) as (a1' & S' & R1). rewrite S'. cbn [sbind]. exact (IH _ _ _ R1 H).
Qed.

Lemma solid_cut_step enc t a b s r : stream_type t = true ->
  solid_step enc (mk t (a ++ b)) s = SOk r ->
  exists r', solid_loop enc [mk t a; mk t b] s = SOk r' /\ sacc_rel r r'.
Proof.
  intros T. destruct (stream_type_cases _ T) as [->| ->].
  - unfold solid_step. tysimp. change (ty_is_critical (cty (mk FDAT (a ++ b)))) with true. cbv iota. discriminate.
  - cbn [solid_loop]. unfold solid_step. tysimp. cbv zeta. cbn [cdata mk].
    destruct (encrypted enc && negb (is_some (q_phsf s))) eqn:E; [discriminate|]. intros [= <-].
    cbn [sbind q_phsf q_data q_len q_extra]. rewrite E. cbn [sbind].
    eexists; split; [reflexivity|]. srel; [apply data_rel_cut, data_rel_refl|].
    rewrite len_app. lia.
Qed.

Lemma solid_loop_refines enc x y : crefines x y -> forall s s' r, sacc_rel s s' ->
  solid_loop enc x s = SOk r -> exists r', solid_loop enc y s' = SOk r' /\ sacc_rel r r'.
Proof.
  induction 1 as [|c x y _ IH|t a b x y T _ IH]; intros s s' r R.
  - cbn [solid_loop]. intros [= <-]. exists s'. split; [reflexivity|exact R].
  - cbn [solid_loop]. destruct (solid_step enc c s) as [s1|] eqn:S; cbn [sbind]; [|discriminate]. intro H.
    destruct (solid_step_rel _ _ _ _ _ R S) as (s1' & S' & R1). rewrite S'. cbn [sbind]. exact (IH _ _ _ R1 H).
  - cbn [solid_loop]. destruct (solid_step enc (mk t (a ++ b)) s) as [s1|] eqn:S; cbn [sbind]; [|discriminate]. intro H.
    destruct (solid_step_rel _ _ _ _ _ R S) as (s1' & S' & R1).
    destruct (solid_cut_step _ _ _ _ _ _ T S') as (s1'' & C & R2). cbn [solid_loop] in C.
    destruct (solid_step enc (mk t a) s') as [s2|] eqn:SA; cbn [sbind] in C; [|discriminate].
    destruct (solid_step enc (mk t b) s2) as [s3|] eqn:SB; cbn [sbind] in C; [|discriminate].
    inversion C; subst s3; clear C.
    destruct (solid_loop_rel _ _ _ _ _ (sacc_rel_trans _ _ _ R1 R2) H) as (r1 & H1 & Rr).
    assert (solid_loop enc (mk t b :: x) s2 = SOk r1) as L by (cbn [solid_loop]; rewrite SB; exact H1).
    destruct (IH s2 s2 r1 (sacc_rel_refl _) L) as (r' & L' & Rr'). cbn [sbind]. rewrite L'.
    exists r'. split; [reflexivity|exact (sacc_rel_trans _ _ _ Rr Rr')].
Qed.

(* ================================================================================================= *)
(* 3. one entry, the entry sequence                                                                   *)
(* ================================================================================================= *)
(* the same entry up to where its data stream is cut into chunks *)
Definition entry_same (x x' : read_entry) : Prop :=
  match x, x' with
  | RNormal n, RNormal n' =>
    n_hdr n = n_hdr n' /\ n_phsf n = n_phsf n' /\ n_extra n = n_extra n' /\
    concat (n_data n) = concat (n_data n') /\ n_meta n = n_meta n' /\ n_xattrs n = n_xattrs n'
  | RSolid s, RSolid s' =>
    so_hdr s = so_hdr s' /\ so_phsf s = so_phsf s' /\ concat (so_data s) = concat (so_data s') /\
    so_extra s = so_extra s'
  | _, _ => False
  end.

Lemma any_entry_refines h body body' e x : crefines body body' -> any_entry h body e = SOk x ->
  exists x', any_entry h body' e = SOk x' /\ entry_same x x'.
Proof.
  intro CR. unfold any_entry. destruct (ty_is h FHED).
  - unfold normal_only, strict_normal. destruct (strict_fhed (cdata h)) as [hd|]; cbn [sbind]; [|discriminate].
    match goal with |- context [strict_loop ?en body ?a0] => destruct (strict_loop en body a0) as [a|] eqn:SL; cbn [sbind]; [|discriminate];
      destruct (strict_loop_refines en _ _ CR _ _ _ (nacc_rel_refl a0) SL) as (a' & SL' & R) end.
    rewrite SL'. cbn [sbind]. destruct R as (R1 & R2 & R3 & (R4 & _) & R5 & R6 & R7 & R8 & R9 & R10 & R11).
    rewrite <- R2, <- R5. destruct (negb (is_nil (cdata e))); [discriminate|].
    destruct (encrypted (f_enc hd) && negb (is_some (k_phsf a))); [discriminate|].
    destruct (negb (data_len_ok (f_enc hd) (f_mode hd) (k_csize a))); [discriminate|].
    cbn [sbind]. intros [= <-]. eexists. split; [reflexivity|]. cbn [entry_same n_hdr n_phsf n_extra n_data n_meta n_xattrs].
    rewrite <- R3, <- R6, <- R7, <- R8, <- R9, <- R10, <- R11. repeat split; try reflexivity. exact R4.
  - destruct (strict_solid h body e) as [s|] eqn:SS; cbn [sbind]; [|discriminate]. intros [= <-].
    revert SS. unfold strict_solid. destruct (strict_shed (cdata h)) as [hd|]; cbn [sbind]; [|discriminate].
    match goal with |- context [solid_loop ?en body ?a0] => destruct (solid_loop en body a0) as [a|] eqn:SL; cbn [sbind]; [|discriminate];
      destruct (solid_loop_refines en _ _ CR _ _ _ (sacc_rel_refl a0) SL) as (a' & SL' & R) end.
    rewrite SL'. cbn [sbind]. destruct R as (R1 & (R2 & _) & R3 & R4).
    rewrite <- R1, <- R2, <- R3. destruct (negb (is_nil (cdata e))); [discriminate|].
    destruct (encrypted (s_enc hd) && negb (is_some (q_phsf a))); [discriminate|].
    destruct (negb (data_len_ok (s_enc hd) (s_mode hd) (q_len a))); [discriminate|].
    match goal with |- context [if ?b then SNo RInner else _] => destruct b end; [discriminate|].
    intros [= <-]. eexists. split; [reflexivity|]. cbn [entry_same so_hdr so_phsf so_data so_extra].
    rewrite <- R4. repeat split; try reflexivity. exact R2.
Qed.

Lemma crefines_split_at X Y : crefines X Y -> forall body e rest,
  X = body ++ e :: rest -> stream_type (cty e) = false ->
  exists body' rest', Y = body' ++ e :: rest' /\ crefines body body' /\ crefines rest rest'.
Proof.
  induction 1 as [|c x y CR IH|t a b x y T CR IH]; intros body e rest E NS.
  - destruct body; discriminate.
  - destruct body as [|c0 body]; cbn [app] in E; inversion E; subst.
    + exists [], y. split; [reflexivity|]. split; [constructor|exact CR].
    + destruct (IH body e rest eq_refl NS) as (body' & rest' & -> & C1 & C2).
      exists (c0 :: body'), rest'. split; [reflexivity|]. split; [apply cr_keep; exact C1|exact C2].
  - destruct body as [|c0 body]; cbn [app] in E; inversion E; subst.
    + cbn [cty mk] in NS. congruence.
    + destruct (IH (mk t b :: body) e rest eq_refl NS) as (body' & rest' & -> & C1 & C2).
      exists (mk t a :: body'), rest'. split; [reflexivity|]. split; [apply cr_cut; assumption|exact C2].
Qed.

Lemma opener_not_stream h : opener h -> stream_type (cty h) = false.
Proof. intros [H|H]; apply ty_is_eq in H; rewrite H; reflexivity. Qed.
Lemma closer_not_stream h e : ty_is e (closer h) = true -> stream_type (cty e) = false.
Proof. unfold closer. destruct (ty_is h FHED); intro H; apply ty_is_eq in H; rewrite H; reflexivity. Qed.

Lemma groups_refine groups es : Forall2 group_of groups es -> forall Y, crefines (concat groups) Y ->
  exists groups' es', Y = concat groups' /\ Forall2 group_of groups' es' /\ Forall2 entry_same es es'.
Proof.
  induction 1 as [|g x groups es G _ IH]; intros Y CR.
  - inversion CR; subst. exists [], []. split; [reflexivity|]. split; constructor.
  - destruct G as (h & body & e & -> & OP & CL & A). cbn [concat app] in CR. rewrite <- app_assoc in CR. cbn [app] in CR.
    inversion CR as [|c0 x0 Y1 CR1|t a b x0 Y1 T CR1]; subst.
    2:{ pose proof (opener_not_stream _ OP) as NS. cbn [cty mk] in NS. congruence. }
    destruct (crefines_split_at _ _ CR1 body e (concat groups) eq_refl (closer_not_stream _ _ CL)) as (body' & rest' & -> & C1 & C2).
    destruct (IH _ C2) as (groups' & es' & -> & F & S).
    destruct (any_entry_refines _ _ _ _ _ C1 A) as (x' & A' & SX).
    exists ((h :: body' ++ [e]) :: groups'), (x' :: es'). split; [|split].
    + cbn [concat app]. rewrite <- app_assoc. reflexivity.
    + constructor; [|exact F]. exists h, body', e. repeat split; assumption.
    + constructor; assumption.
Qed.

Lemma entries_of_groups groups es : Forall2 group_of groups es -> entries_of (concat groups) = SOk es.
Proof.
  unfold entries_of. induction 1 as [|g x groups es G _ IH]; [reflexivity|].
  destruct G as (h & body & e & -> & OP & CL & A). cbn [concat app]. rewrite <- app_assoc. cbn [app].
  rewrite entries_sm_entry.
  - rewrite A. cbn [sbind]. rewrite IH. reflexivity.
  - destruct OP as [-> | ->]; [reflexivity|apply orb_true_r].
  - pose proof (any_entry_no_end _ _ _ _ A) as NE. eapply Forall_impl; [|exact NE].
    intros c Hc. unfold is_end in Hc. apply orb_false_elim in Hc. destruct Hc as (H1 & H2).
    unfold closer. destruct (ty_is h FHED); assumption.
  - exact CL.
Qed.

Theorem entries_of_refines x y es : entries_of x = SOk es -> crefines x y ->
  exists es', entries_of y = SOk es' /\ Forall2 entry_same es es'.
Proof.
  intros E CR. destruct (entries_sm_groups x None es E) as (groups & -> & F).
  destruct (groups_refine _ _ F _ CR) as (groups' & es' & -> & F' & S).
  exists es'. split; [exact (entries_of_groups _ _ F')|exact S].
Qed.

(* refinement keeps the chunks strict body chunks *)
Lemma body_chunk_piece t a b : body_chunk (mk t (a ++ b)) -> body_chunk (mk t a) /\ body_chunk (mk t b).
Proof.
  intros (((L & D) & V) & A1 & A2 & A3). cbn [cty cdata mk] in *. rewrite len_app in D.
  split; (split; [split; [split; [exact L|cbn [cdata mk]; lia]|exact V]|]); repeat split; assumption.
Qed.

Lemma crefines_body_chunks x y : crefines x y -> Forall body_chunk x -> Forall body_chunk y.
Proof.
  induction 1 as [|c x y _ IH|t a b x y T _ IH]; intro F.
  - constructor.
  - inversion F; subst. constructor; [assumption|apply IH; assumption].
  - inversion F; subst. destruct (body_chunk_piece _ _ _ H1) as (Ba & Bb).
    constructor; [exact Ba|]. apply IH. constructor; assumption.
Qed.

(* ================================================================================================= *)
(* 4. the assembled part files                                                                        *)
(* ================================================================================================= *)
Lemma part_body_assembled n b (last : bool) : n < 2 ^ 32 -> Forall body_chunk (map to_c b) ->
  part_body n (ser_pfile (Split.ahed_chunk n :: b ++ (if last then [Split.aend_chunk] else [Split.anxt_chunk; Split.aend_chunk])))
  = SOk (map to_c b, negb last).
Proof.
  intros N B. unfold part_body, ser_pfile. cbn [map]. rewrite map_app.
  change (to_c (Split.ahed_chunk n)) with (hdr_chunk n).
  assert (Forall strict_chunk (map to_c b)) as SB by (eapply Forall_impl; [|exact B]; intros c H; apply H).
  assert (Forall (fun c => ty_is c AEND = false) (map to_c b)) as AB by (eapply Forall_impl; [|exact B]; intros c H; apply H).
  assert (Forall (fun c => ty_is c AHED = false /\ ty_is c ANXT = false) (map to_c b)) as HB
    by (eapply Forall_impl; [|exact B]; intros c (_ & _ & H1 & H2); split; assumption).
  destruct last; cbn [map negb].
  - change (to_c Split.aend_chunk) with (mk AEND []).
    replace (ser_chunks (hdr_chunk n :: map to_c b ++ [mk AEND []])) with (ser_chunks (hdr_chunk n :: map to_c b) ++ finalize)
      by (rewrite !ser_chunks_cons, ser_chunks_snoc, <- app_assoc; reflexivity).
    rewrite part_chunks_ser.
    + cbn [sbind app]. rewrite ahed_ok_hdr. cbn [negb]. rewrite hdr_number by exact N. rewrite N.eqb_refl. cbn [negb].
      apply body_scan_last. exact HB.
    + constructor; [apply strict_chunk_hdr|exact SB].
    + constructor; [reflexivity|exact AB].
  - change (to_c Split.aend_chunk) with (mk AEND []). change (to_c Split.anxt_chunk) with (mk ANXT []).
    replace (ser_chunks (hdr_chunk n :: map to_c b ++ [mk ANXT []; mk AEND []]))
      with (ser_chunks (hdr_chunk n :: map to_c b ++ [mk ANXT []]) ++ finalize).
    2:{ rewrite !ser_chunks_cons, !ser_chunks_app, !ser_chunks_cons, ser_chunks_nil, app_nil_r, <- !app_assoc. reflexivity. }
    rewrite part_chunks_ser.
    + cbn [sbind app]. rewrite ahed_ok_hdr. cbn [negb]. rewrite hdr_number by exact N. rewrite N.eqb_refl. cbn [negb].
      rewrite <- app_assoc. cbn [app]. apply body_scan_next. exact HB.
    + constructor; [apply strict_chunk_hdr|]. apply Forall_app. split; [exact SB|]. constructor; [exact strict_chunk_anxt|constructor].
    + constructor; [reflexivity|]. apply Forall_app. split; [exact AB|]. constructor; [reflexivity|constructor].
Qed.

Lemma bodies_assemble : forall bds n lastb, n + len bds < 2 ^ 32 ->
  Forall body_chunk (map to_c (concat bds ++ lastb)) ->
  bodies n (map ser_pfile (SplitFacts.assemble_nonlast n bds ++ [Split.ahed_chunk (n + len bds) :: lastb ++ [Split.aend_chunk]]))
  = SOk (map to_c (concat bds ++ lastb)).
Proof.
  induction bds as [|b bds IH]; intros n lastb N B.
  - cbn [SplitFacts.assemble_nonlast app map concat]. change (len (@nil (list Split.chunk))) with 0 in *. rewrite N.add_0_r in *.
    rewrite bodies_cons. rewrite (part_body_assembled n lastb true) by assumption. reflexivity.
  - cbn [SplitFacts.assemble_nonlast app map concat]. rewrite len_cons in N.
    cbn [concat] in B. rewrite <- app_assoc, map_app in B. apply Forall_app in B. destruct B as (B1 & B2).
    rewrite bodies_cons. rewrite (part_body_assembled n b false) by (try assumption; lia). cbn [sbind negb].
    replace (n + len (b :: bds)) with ((n + 1) + len bds) by (rewrite len_cons; lia).
    destruct (map ser_pfile (SplitFacts.assemble_nonlast (n + 1) bds ++
                [Split.ahed_chunk (n + 1 + len bds) :: lastb ++ [Split.aend_chunk]])) as [|q qs] eqn:E.
    { apply (f_equal (@length bytes)) in E. rewrite map_length, app_length in E. cbn [length] in E. lia. }
    rewrite <- E. rewrite IH by (try assumption; lia). cbn [sbind]. rewrite <- app_assoc, !map_app. reflexivity.
Qed.

(* C14 split_wf: the parts of a successful split of an accepted chunk sequence are accepted as a
   part chain, and strictly decode to the same entries up to where the data streams are cut *)
Theorem split_wf_chunks max es parts xs :
  Split.write_split max es = Ok parts ->
  Forall body_chunk (map to_c (concat es)) -> entries_of (map to_c (concat es)) = SOk xs ->
  exists xs', strict_parts (map ser_pfile parts) = SOk xs' /\ Forall2 entry_same xs xs'.
Proof.
  intros W B E. destruct (write_split_refines _ _ _ W) as (bds & lastb & -> & L & CR).
  destruct (entries_of_refines _ _ _ E CR) as (xs' & E' & S).
  exists xs'. split; [|exact S]. unfold strict_parts, SplitFacts.assemble.
  pose proof (bodies_assemble bds 0 lastb) as BA. rewrite N.add_0_l in BA.
  rewrite BA by (try exact (crefines_body_chunks _ _ CR B); lia).
  cbn [sbind]. exact E'.
Qed.

Theorem split_wf max ents parts : Forall writable ents ->
  Split.write_split max (map (fun e => map of_c (ser_entry e)) ents) = Ok parts ->
  wf_parts (map ser_pfile parts) = true /\
  exists xs', strict_parts (map ser_pfile parts) = SOk xs' /\ Forall2 entry_same (map normalize_entry ents) xs'.
Proof.
  intros W H.
  assert (map to_c (concat (map (fun e => map of_c (ser_entry e)) ents)) = concat (map ser_entry ents)) as EQ.
  { clear. induction ents as [|e ents IH]; [reflexivity|]. cbn [map concat]. rewrite map_app, map_to_of_c, IH. reflexivity. }
  destruct (split_wf_chunks max _ parts (map normalize_entry ents) H) as (xs' & S & F).
  - rewrite EQ. apply written_body_chunks. exact W.
  - rewrite EQ. apply entries_of_written. exact W.
  - split; [unfold wf_parts; rewrite S; reflexivity|]. exists xs'. split; assumption.
Qed.

(* and the library's part-chaining reader reads them back to the same entries *)
Corollary split_read_back max ents parts : Forall writable ents ->
  Split.write_split max (map (fun e => map of_c (ser_entry e)) ents) = Ok parts ->
  exists xs' raws, Forall2 entry_same (map normalize_entry ents) xs' /\
    read_parts rds (map ser_pfile parts) = Ok (raws, FinOk) /\ parse_all raws = (xs', FinOk).
Proof.
  intros W H. destruct (split_wf _ _ _ W H) as (_ & xs' & S & F).
  destruct (strict_agrees_parts _ _ S) as (raws & R & P). exists xs', raws. repeat split; assumption.
Qed.

(* the premises are satisfiable: the three example entries split into 12 parts of at most 120 bytes *)
Example split_wf_ex : exists parts,
  Split.write_split 120 (map (fun e => map of_c (ser_entry e)) [RNormal ex_plain; RNormal ex_enc; RSolid ex_solid]) = Ok parts /\
  length parts = 12%nat /\ wf_parts (map ser_pfile parts) = true.
Proof.
  destruct (Split.write_split 120 (map (fun e => map of_c (ser_entry e)) [RNormal ex_plain; RNormal ex_enc; RSolid ex_solid]))
    as [parts| |] eqn:E; [|vm_compute in E; discriminate|vm_compute in E; discriminate].
  exists parts. split; [reflexivity|]. split.
  - revert E. vm_compute. intros [= <-]. reflexivity.
  - exact (proj1 (split_wf _ _ _ ex_writable E)).
Qed.
