(* ConfineFacts.v — C09, on-disk half, at full strength: the model of the REPAIRED extractor
   (Model/Extract.v, o_guarded = true) is confined to the output directory for EVERY archive —
   file, directory, symbolic-link and hard-link entries, any names, targets and sources, any order,
   any options — and for every initial file system that satisfies `Inv` below, in particular one whose
   output directory already holds symbolic links (to anywhere) and hard links (among themselves).

   The invariant over the entry list (no "no links under out" clause, unlike ExtractFacts.J):
     dirchain   `out` and every directory on the way to it are directories (out is not reached through a link);
     tree_under below `out` only directories have children (the name map is a tree there, as in any real
                file system; without it a link could hide below a vacant path and surface after mkdir);
     sep        no inode has a name inside and a name outside `out` (File::create truncates an existing
                file in place: an inode shared with the outside would be written through);
     fresh      the allocator's next inode number is above every inode in use.
   Every one of the four is necessary in the model: see the `*_needed` witnesses at the end.

   Inside one entry the argument is: ensure_no_symlink_ancestor (no_link_anc) establishes that no proper
   ancestor of the destination below `out` is a symbolic link IN THE CURRENT STATE — whoever planted it
   (ancs_of_check, through the tree shape: an lstat that fails cannot hide a link); then every call
   resolves the destination to its literal path (walk_guard_nofollow/_follow of ExtractFacts), and every
   call on a literal path at/below `out` keeps the invariant and the outside; links appear only at the
   destination itself, which is never its own proper ancestor, so the ancestor fact survives the
   sequence of calls of the entry. *)
From PNA Require Import Base Name Fs Extract BaseFacts NameFacts ExtractFacts.
Require Import ZArith ZifyN ZifyNat ZifyBool.
Open Scope N_scope.

(* ---- more about walk ---------------------------------------------------------------------- *)
(* a guarded walk that succeeds went through directories only *)
Lemma walk_guard_dirs fuel m fl : forall comps cur c',
  guard_from m cur comps -> walk fuel m cur comps fl = Some c' ->
  forall a b, comps = a ++ b -> a <> [] -> b <> [] -> exists md, nget m (cur ++ a) = Some (DDir md).
Proof.
  induction fuel as [|fu IH]; intros comps cur c' G W a b E Ha Hb; [discriminate|].
  destruct comps as [|c rest]; [destruct a; [contradiction|discriminate]|].
  cbn [walk] in W. destruct G as ((Hd & Hdd) & Hl & G). rewrite Hd, Hdd in W.
  destruct a as [|c0 a]; [contradiction|]. cbn [app] in E. injection E as Ec Er. subst c0.
  assert (Hr : rest <> []).
  { subst rest. destruct a; [exact Hb|discriminate]. }
  destruct (nget m (cur ++ [c])) as [[i|md|t]|] eqn:En.
  - destruct rest; [contradiction|discriminate].
  - destruct a as [|c1 a].
    + exists md. exact En.
    + replace (cur ++ c :: c1 :: a) with ((cur ++ [c]) ++ c1 :: a) by (rewrite <- app_assoc; reflexivity).
      eapply IH; [exact G|exact W|exact Er|discriminate|exact Hb].
  - exfalso. apply (Hl Hr t). exact En.
  - destruct rest; [contradiction|discriminate].
Qed.

(* a walk through existing directories succeeds at the literal path (enough fuel: one step per component) *)
Lemma walk_dirs m : forall comps fuel cur,
  Forall plain comps ->
  (forall a b, comps = a ++ b -> a <> [] -> b <> [] -> exists md, nget m (cur ++ a) = Some (DDir md)) ->
  (length comps < fuel)%nat -> walk fuel m cur comps false = Some (cur ++ comps).
Proof.
  induction comps as [|c rest IH]; intros fuel cur P D Hf.
  - destruct fuel; [inversion Hf|]. cbn. rewrite app_nil_r. reflexivity.
  - destruct fuel as [|fu]; [inversion Hf|]. cbn [walk]. inversion P as [|? ? [Hd Hdd] Pr]; subst. rewrite Hd, Hdd.
    replace (cur ++ c :: rest) with ((cur ++ [c]) ++ rest) by (rewrite <- app_assoc; reflexivity).
    destruct rest as [|c2 rest'].
    + rewrite app_nil_r. destruct (nget m (cur ++ [c])) as [[i|md|t]|]; try reflexivity.
      destruct fu; [cbn in Hf; lia|]. reflexivity.
    + destruct (D [c] (c2 :: rest')) as [md E]; [reflexivity|discriminate|discriminate|]. rewrite E.
      apply IH; [exact Pr| |cbn [length] in *; lia].
      intros a b E2 Ha Hb. rewrite <- app_assoc. apply (D (c :: a) b); [cbn [app]; rewrite E2; reflexivity|discriminate|exact Hb].
Qed.

Lemma snoc_neq {A} (p : list A) c : p <> p ++ [c].
Proof. intros E. apply (f_equal (@length A)) in E. rewrite app_length in E. cbn in E. lia. Qed.

Lemma app_neq_strict {A} (a b : list A) : b <> [] -> a <> a ++ b.
Proof. intros Hb E. apply (f_equal (@length A)) in E. rewrite app_length in E. destruct b; [contradiction|cbn in E; lia]. Qed.

(* ---- strict ancestors that are not links ------------------------------------------------------ *)
Definition ancs (m : list (path * dnode)) (p : path) : Prop :=
  forall a b, p = a ++ b -> a <> [] -> b <> [] -> nolink m a.
Definition cleanp (m : list (path * dnode)) (p : path) : Prop :=
  forall a b, p = a ++ b -> a <> [] -> nolink m a.

Lemma ancs_guard m p : Forall plain p -> ancs m p -> guard_from m [] p.
Proof. intros P A. apply guard_from_intro; [exact P|]. intros a b E Ha Hb. cbn [app]. exact (A a b E Ha Hb). Qed.

Lemma cleanp_ancs m p : cleanp m p -> ancs m p.
Proof. intros C a b E Ha _. exact (C a b E Ha). Qed.

Lemma cleanp_nolink m p : cleanp m p -> p <> [] -> nolink m p.
Proof. intros C Hp. apply (C p []); [rewrite app_nil_r; reflexivity|exact Hp]. Qed.

Lemma ancs_clean_prefix m a b : ancs m (a ++ b) -> b <> [] -> cleanp m a.
Proof.
  intros A Hb a1 a2 -> Ha1. apply (A a1 (a2 ++ b)); [rewrite app_assoc; reflexivity|exact Ha1|].
  intros E. apply app_eq_nil in E. tauto.
Qed.

Lemma cleanp_prefix m a b : cleanp m (a ++ b) -> cleanp m a.
Proof. intros C a1 a2 -> Ha1. apply (C a1 (a2 ++ b)); [rewrite app_assoc; reflexivity|exact Ha1]. Qed.

Lemma ancs_nolink_clean m p : ancs m p -> nolink m p -> cleanp m p.
Proof.
  intros A L a b E Ha. destruct b as [|x b].
  - rewrite app_nil_r in E. subst a. exact L.
  - apply (A a (x :: b)); [exact E|exact Ha|discriminate].
Qed.

Lemma cleanp_snoc_ancs m q c : cleanp m q -> ancs m (q ++ [c]).
Proof.
  intros C a b E Ha Hb. induction b as [|y b _] using rev_ind; [contradiction|].
  rewrite app_assoc in E. apply app_inj_tail in E. destruct E as [E _]. exact (C a b E Ha).
Qed.

Lemma cleanp_snoc m q c : cleanp m q -> nolink m (q ++ [c]) -> cleanp m (q ++ [c]).
Proof. intros C L. apply ancs_nolink_clean; [apply cleanp_snoc_ancs; exact C|exact L]. Qed.

(* resolution under the ancestor fact *)
Lemma res_nf f p c : Forall plain p -> ancs (names f) p -> resolve f p false = Some c -> c = p.
Proof. intros P A R. unfold resolve in R. apply walk_guard_nofollow in R; [exact R|apply ancs_guard; assumption]. Qed.

Lemma res_fl f p c : Forall plain p -> cleanp (names f) p -> resolve f p true = Some c -> c = p.
Proof.
  intros P C R. unfold resolve in R. apply walk_guard_follow in R; [exact R|apply ancs_guard; [exact P|apply cleanp_ancs; exact C]|].
  intros Hp. cbn [app]. apply cleanp_nolink; assumption.
Qed.

Lemma res_parent f p fl c : Forall plain p -> ancs (names f) p -> resolve f p fl = Some c ->
  forall q x, p = q ++ [x] -> q <> [] -> exists md, nget (names f) q = Some (DDir md).
Proof.
  intros P A R q x E Hq. unfold resolve in R.
  apply (walk_guard_dirs _ _ _ p [] c (ancs_guard _ _ P A) R q [x] E Hq). discriminate.
Qed.

Lemma Forall_removelast {A} (Q : A -> Prop) (l : list A) : Forall Q l -> Forall Q (removelast l).
Proof.
  intros H. destruct l as [|x l]; [exact H|].
  rewrite (app_removelast_last x (l := x :: l)) in H by discriminate. apply Forall_app in H. tauto.
Qed.

(* ---- the invariant ------------------------------------------------------------------------- *)
Section Confine2.
Variable out : path.
Hypothesis out_plain : Forall plain out.
Hypothesis out_nonnil : out <> [].

Definition tree_under (m : list (path * dnode)) : Prop :=
  forall q c, under out q -> nget m (q ++ [c]) <> None -> exists md, nget m q = Some (DDir md).

Definition NI (m : list (path * dnode)) : Prop := dirchain out m /\ tree_under m /\ sep out m.
Definition Inv (f : fs) : Prop := NI (names f) /\ fresh f.

Lemma out_prefix_not_strict rel r : out = (out ++ rel) ++ r -> rel = [].
Proof.
  intros E. rewrite <- app_assoc in E. rewrite <- (app_nil_r out) in E at 1. apply app_inv_head in E.
  symmetry in E. apply app_eq_nil in E. tauto.
Qed.

Lemma under_prefix_out p r : under out p -> out = p ++ r -> p = out.
Proof. intros [rel ->] E. apply out_prefix_not_strict in E. subst. apply app_nil_r. Qed.

Lemma under_nonnil p : under out p -> p <> [].
Proof. intros [rel ->]. intros E. apply app_eq_nil in E. exact (out_nonnil (proj1 E)). Qed.

Lemma out_is_dir m : dirchain out m -> exists md, nget m out = Some (DDir md).
Proof. intros DC. apply (DC out []); [rewrite app_nil_r; reflexivity|exact out_nonnil]. Qed.

Lemma dirchain_clean m : dirchain out m -> cleanp m out.
Proof. intros DC a b E Ha t. destruct (DC a b E Ha) as [md ->]. discriminate. Qed.

Lemma tree_anc m : tree_under m -> forall b a, b <> [] -> nget m (out ++ a ++ b) <> None ->
  exists md, nget m (out ++ a) = Some (DDir md).
Proof.
  intros T. induction b as [|x b IH] using rev_ind; intros a Hb Hn; [contradiction|].
  assert (D : exists md, nget m (out ++ a ++ b) = Some (DDir md)).
  { apply (T (out ++ a ++ b) x); [exists (a ++ b); reflexivity|]. rewrite <- !app_assoc. exact Hn. }
  destruct b as [|y b]; [rewrite app_nil_r in D; exact D|].
  apply IH; [discriminate|]. destruct D as [md ->]. discriminate.
Qed.

Lemma all_dirs m p : dirchain out m -> tree_under m -> under out p -> nget m p <> None ->
  forall a b, p = a ++ b -> a <> [] -> b <> [] -> exists md, nget m a = Some (DDir md).
Proof.
  intros DC T [rel ->] Hn a b E Ha Hb. apply app_eq_app in E. destruct E as [l [[E1 E2]|[E1 E2]]].
  - eapply DC; eauto.
  - subst a rel. apply tree_anc with b; assumption.
Qed.

(* lstat of a bound path at/below out succeeds at the literal path: a failing lstat cannot hide a link *)
Lemma lstat_literal f p : Inv f -> Forall plain p -> under out p -> nget (names f) p <> None ->
  resolve f p false = Some p.
Proof.
  intros ((DC & T & _) & _) P U Hn. unfold resolve. change (Some p) with (Some ([] ++ p)).
  apply walk_dirs; [exact P| |unfold walk_fuel; lia].
  intros a b E Ha Hb. cbn [app]. eapply all_dirs; eauto.
Qed.

Lemma is_link_nolink f p : Inv f -> Forall plain p -> under out p -> is_link f p = false -> nolink (names f) p.
Proof.
  intros I P U L t E. unfold is_link, lstat in L.
  rewrite (lstat_literal f p I P U) in L by (rewrite E; discriminate).
  rewrite E in L. discriminate.
Qed.

Lemma no_link_anc_step f pre c c2 r :
  no_link_anc f pre (c :: c2 :: r) = if is_link f (pre ++ [c]) then false else no_link_anc f (pre ++ [c]) (c2 :: r).
Proof. reflexivity. Qed.

(* ensure_no_symlink_ancestor: what the check establishes, whoever planted the links *)
Lemma check_ancs f : Inv f -> forall rest a, Forall plain (a ++ rest) -> cleanp (names f) (out ++ a) ->
  no_link_anc f (out ++ a) rest = true -> ancs (names f) (out ++ a ++ rest).
Proof.
  intros I. induction rest as [|c r IH]; intros a P C H.
  - rewrite app_nil_r. apply cleanp_ancs. exact C.
  - destruct r as [|c2 r].
    + rewrite app_assoc. apply cleanp_snoc_ancs. exact C.
    + rewrite no_link_anc_step in H. destruct (is_link f ((out ++ a) ++ [c])) eqn:L; [discriminate|].
      rewrite <- app_assoc in L. apply is_link_nolink in L; [|exact I| |apply under_app].
      2:{ apply Forall_app. split; [exact out_plain|]. apply Forall_app in P. destruct P as [Pa Pr].
          apply Forall_app. split; [exact Pa|]. inversion Pr; subst. constructor; [assumption|constructor]. }
      specialize (IH (a ++ [c])). rewrite <- !app_assoc in IH. cbn [app] in IH. apply IH.
      * exact P.
      * rewrite (app_assoc out a [c]). apply cleanp_snoc; [exact C|]. rewrite <- app_assoc. exact L.
      * rewrite <- app_assoc in H. exact H.
Qed.

Lemma ancs_of_check f comps : Inv f -> Forall plain comps -> no_link_anc f out comps = true ->
  ancs (names f) (out ++ comps).
Proof.
  intros I P H. pose proof (check_ancs f I comps [] P) as L. rewrite app_nil_r in L. cbn [app] in L.
  apply L; [|exact H]. apply dirchain_clean. exact (proj1 (proj1 I)).
Qed.

(* the check is exact about links: it passes only if no proper ancestor is one *)
Theorem check_sound f comps c : Inv f -> Forall plain comps -> no_link_anc f out comps = true ->
  resolve f (out ++ comps) false = Some c -> c = out ++ comps.
Proof.
  intros I P H R. eapply res_nf; [|apply ancs_of_check; eassumption|exact R].
  apply Forall_app. split; assumption.
Qed.

(* ---- transformations of the name map --------------------------------------------------------- *)
Lemma NI_set m p v : NI m -> under out p ->
  (p = out -> exists md, v = DDir md) ->
  (forall q c, p = q ++ [c] -> under out q -> exists md, nget m q = Some (DDir md)) ->
  ((forall md, v <> DDir md) -> forall c, nget m (p ++ [c]) = None) ->
  (forall i, v = DFile i -> forall q, nget m q = Some (DFile i) -> under out q) ->
  NI (nset m p v).
Proof.
  intros (DC & T & SP) U Ho Hpar Hch Hf. split; [|split].
  - intros q r E Hq. destruct (path_eqb p q) eqn:Epq.
    + apply path_eqb_eq in Epq. subst q. rewrite nget_nset_same.
      destruct (Ho (under_prefix_out p r U E)) as [md ->]. eauto.
    + rewrite nget_nset_other by (apply neq_sym_path; exact Epq). eapply DC; eauto.
  - intros q c Uq Hn. destruct (path_eqb p q) eqn:Epq.
    + apply path_eqb_eq in Epq. subst q. rewrite nget_nset_same. destruct v as [i|md|t]; [|eauto|].
      * exfalso. apply Hn. rewrite nget_nset_other by apply snoc_neq. apply Hch. discriminate.
      * exfalso. apply Hn. rewrite nget_nset_other by apply snoc_neq. apply Hch. discriminate.
    + rewrite nget_nset_other by (apply neq_sym_path; exact Epq).
      destruct (path_eqb p (q ++ [c])) eqn:Epc.
      * apply path_eqb_eq in Epc. exact (Hpar q c Epc Uq).
      * rewrite nget_nset_other in Hn by (apply neq_sym_path; exact Epc). exact (T q c Uq Hn).
  - intros a b i Ea Eb Ua. destruct (path_eqb p b) eqn:Epb; [apply path_eqb_eq in Epb; subst b; exact U|].
    rewrite nget_nset_other in Eb by (apply neq_sym_path; exact Epb).
    destruct (path_eqb p a) eqn:Epa.
    + apply path_eqb_eq in Epa. subst a. rewrite nget_nset_same in Ea. injection Ea as ->. eapply Hf; eauto.
    + rewrite nget_nset_other in Ea by (apply neq_sym_path; exact Epa). eapply SP; eauto.
Qed.

(* a vacant path at/below out whose parent is a directory *)
Lemma NI_set_vacant m p v : NI m -> under out p -> nget m p = None ->
  (forall q c, p = q ++ [c] -> q <> [] -> exists md, nget m q = Some (DDir md)) ->
  (forall i, v = DFile i -> forall q, nget m q = Some (DFile i) -> under out q) ->
  NI (nset m p v).
Proof.
  intros N U E Hpar Hf. apply NI_set; try assumption.
  - intros ->. destruct (out_is_dir m (proj1 N)) as [md H]. rewrite H in E. discriminate.
  - intros q c Eq Uq. apply (Hpar q c Eq). apply under_nonnil. exact Uq.
  - intros _ c. destruct (nget m (p ++ [c])) eqn:Ec; [|reflexivity].
    destruct (proj1 (proj2 N) p c U) as [md H]; [rewrite Ec; discriminate|]. rewrite H in E. discriminate.
Qed.

Lemma nget_ndel_sub m p q v : nget (ndel m p) q = Some v -> nget m q = Some v /\ q <> p.
Proof.
  intros H. destruct (path_eqb p q) eqn:E.
  - apply path_eqb_eq in E. subst q. rewrite nget_ndel_same in H. discriminate.
  - apply neq_sym_path in E. rewrite nget_ndel_other in H by exact E. split; [exact H|]. intros ->. apply E. reflexivity.
Qed.

Lemma NI_del m p : NI m -> (forall md, nget m p <> Some (DDir md)) -> NI (ndel m p).
Proof.
  intros (DC & T & SP) Hp. split; [|split].
  - intros q r E Hq. destruct (DC q r E Hq) as [md H]. exists md. rewrite nget_ndel_other; [exact H|].
    intros ->. exact (Hp md H).
  - intros q c Uq Hn. destruct (nget (ndel m p) (q ++ [c])) as [v|] eqn:Ec; [|contradiction].
    apply nget_ndel_sub in Ec. destruct Ec as [Ec _].
    destruct (T q c Uq) as [md H]; [rewrite Ec; discriminate|]. exists md. rewrite nget_ndel_other; [exact H|].
    intros ->. exact (Hp md H).
  - intros a b i Ea Eb Ua. apply nget_ndel_sub in Ea. apply nget_ndel_sub in Eb. eapply SP; [exact (proj1 Ea)|exact (proj1 Eb)|exact Ua].
Qed.

Lemma nget_ndel_tree_sub m p q v : nget (ndel_tree m p) q = Some v -> nget m q = Some v /\ is_prefix p q = false.
Proof. rewrite nget_ndel_tree. destruct (is_prefix p q); [discriminate|]. intros H. split; [exact H|reflexivity]. Qed.

Lemma is_prefix_snoc p q c : is_prefix p (q ++ [c]) = false -> is_prefix p q = false.
Proof.
  intros H. destruct (is_prefix p q) eqn:E; [|reflexivity]. apply is_prefix_under in E. destruct E as [rel ->].
  assert (is_prefix p ((p ++ rel) ++ [c]) = true) as H2 by (apply is_prefix_under; exists (rel ++ [c]); rewrite app_assoc; reflexivity).
  congruence.
Qed.

Lemma NI_del_tree m rel : NI m -> rel <> [] -> NI (ndel_tree m (out ++ rel)).
Proof.
  intros (DC & T & SP) Hrel. split; [|split].
  - intros q r E Hq. destruct (DC q r E Hq) as [md H]. exists md. rewrite nget_ndel_tree.
    destruct (is_prefix (out ++ rel) q) eqn:Ep; [|exact H]. exfalso. apply is_prefix_under in Ep. destruct Ep as [x ->].
    rewrite <- app_assoc in E. apply out_prefix_not_strict in E. exact (Hrel E).
  - intros q c Uq Hn. destruct (nget (ndel_tree m (out ++ rel)) (q ++ [c])) as [v|] eqn:Ec; [|contradiction].
    apply nget_ndel_tree_sub in Ec. destruct Ec as [Ec Ep].
    destruct (T q c Uq) as [md H]; [rewrite Ec; discriminate|]. exists md. rewrite nget_ndel_tree.
    rewrite (is_prefix_snoc _ _ _ Ep). exact H.
  - intros a b i Ea Eb Ua. apply nget_ndel_tree_sub in Ea. apply nget_ndel_tree_sub in Eb.
    eapply SP; [exact (proj1 Ea)|exact (proj1 Eb)|exact Ua].
Qed.

(* ---- relations between states ---------------------------------------------------------------- *)
Definition good2 (f f' : fs) : Prop := Inv f' /\ same_outside out f f'.
Definition keeps (f f' : fs) : Prop := forall q, nolink (names f) q -> nolink (names f') q.
Definition keeps_but (p : path) (f f' : fs) : Prop := forall q, q <> p -> nolink (names f) q -> nolink (names f') q.
Definition stepN (f f' : fs) : Prop := good2 f f' /\ keeps f f'.
Definition step (p : path) (f f' : fs) : Prop := good2 f f' /\ keeps_but p f f'.

Lemma good2_refl f : Inv f -> good2 f f.
Proof. intros I. split; [exact I|apply same_outside_refl]. Qed.
Lemma good2_trans f g h : good2 f g -> good2 g h -> good2 f h.
Proof. intros [_ S1] [I2 S2]. split; [exact I2|eapply same_outside_trans; eassumption]. Qed.
Lemma stepN_refl f : Inv f -> stepN f f.
Proof. intros I. split; [apply good2_refl; exact I|intros q H; exact H]. Qed.
Lemma stepN_trans f g h : stepN f g -> stepN g h -> stepN f h.
Proof. intros [G1 K1] [G2 K2]. split; [eapply good2_trans; eassumption|intros q H; apply K2, K1, H]. Qed.
Lemma stepN_step p f g : stepN f g -> step p f g.
Proof. intros [G K]. split; [exact G|intros q _ H; apply K, H]. Qed.
Lemma step_trans p f g h : step p f g -> step p g h -> step p f h.
Proof. intros [G1 K1] [G2 K2]. split; [eapply good2_trans; eassumption|intros q Hq H; apply K2; [exact Hq|apply K1; assumption]]. Qed.

Lemma keeps_ancs f g p : keeps f g -> ancs (names f) p -> ancs (names g) p.
Proof. intros K A a b E Ha Hb. apply K. exact (A a b E Ha Hb). Qed.
Lemma keeps_cleanp f g p : keeps f g -> cleanp (names f) p -> cleanp (names g) p.
Proof. intros K C a b E Ha. apply K. exact (C a b E Ha). Qed.
Lemma keeps_but_ancs f g p : keeps_but p f g -> ancs (names f) p -> ancs (names g) p.
Proof.
  intros K A a b E Ha Hb. apply K; [|exact (A a b E Ha Hb)]. subst p. apply app_neq_strict. exact Hb.
Qed.

(* a change of the name map only *)
Lemma good2_names f m' : Inv f -> NI m' ->
  (forall q i, nget m' q = Some (DFile i) -> i < next f) ->
  (forall q, ~ under out q -> nget m' q = nget (names f) q) ->
  good2 f (with_names f m').
Proof.
  intros I N F O. split; [split; [exact N|exact F]|]. split; [exact O|reflexivity].
Qed.

Lemma stepN_del f p : Inv f -> under out p -> (forall md, nget (names f) p <> Some (DDir md)) ->
  stepN f (with_names f (ndel (names f) p)).
Proof.
  intros I U Hp. split.
  - apply good2_names; [exact I|apply NI_del; [exact (proj1 I)|exact Hp]| |].
    + intros q i H. apply nget_ndel_sub in H. exact (proj2 I q i (proj1 H)).
    + intros q Hq. apply nget_ndel_other. intros ->. exact (Hq U).
  - intros q H t E. cbn [names with_names] in E. apply nget_ndel_sub in E. exact (H t (proj1 E)).
Qed.

Lemma stepN_del_tree f rel : Inv f -> rel <> [] -> stepN f (with_names f (ndel_tree (names f) (out ++ rel))).
Proof.
  intros I Hrel. split.
  - apply good2_names; [exact I|apply NI_del_tree; [exact (proj1 I)|exact Hrel]| |].
    + intros q i H. apply nget_ndel_tree_sub in H. exact (proj2 I q i (proj1 H)).
    + intros q Hq. rewrite nget_ndel_tree. destruct (is_prefix (out ++ rel) q) eqn:E; [|reflexivity].
      exfalso. apply Hq. apply is_prefix_under in E. eapply under_trans; [apply under_app|exact E].
  - intros q H t E. cbn [names with_names] in E. apply nget_ndel_tree_sub in E. exact (H t (proj1 E)).
Qed.

Lemma good2_set_vacant f p v : Inv f -> under out p -> nget (names f) p = None ->
  (forall q c, p = q ++ [c] -> q <> [] -> exists md, nget (names f) q = Some (DDir md)) ->
  (forall i, v = DFile i -> i < next f /\ forall q, nget (names f) q = Some (DFile i) -> under out q) ->
  good2 f (with_names f (nset (names f) p v)).
Proof.
  intros I U E Hpar Hf. apply good2_names; [exact I| | |].
  - apply NI_set_vacant; try assumption; [exact (proj1 I)|]. intros i Hv. exact (proj2 (Hf i Hv)).
  - intros q i. destruct (path_eqb p q) eqn:Epq.
    + apply path_eqb_eq in Epq. subst q. rewrite nget_nset_same. intros [= Hv]. exact (proj1 (Hf i Hv)).
    + rewrite nget_nset_other by (apply neq_sym_path; exact Epq). apply (proj2 I).
  - intros q Hq. apply nget_nset_other. intros ->. exact (Hq U).
Qed.

Lemma keeps_set f f' p v : names f' = nset (names f) p v -> (forall t, v <> DLink t) -> keeps f f'.
Proof.
  intros En Hv q H t E. rewrite En in E. destruct (path_eqb p q) eqn:Epq.
  - apply path_eqb_eq in Epq. subst q. rewrite nget_nset_same in E. injection E as E. exact (Hv t E).
  - rewrite nget_nset_other in E by (apply neq_sym_path; exact Epq). exact (H t E).
Qed.

Lemma keeps_but_set f f' p v : names f' = nset (names f) p v -> keeps_but p f f'.
Proof.
  intros En q Hq H t E. rewrite En in E. rewrite nget_nset_other in E by (intros ->; apply Hq; reflexivity). exact (H t E).
Qed.

(* writing the inode of a file all of whose names are at/below out *)
Lemma stepN_write_inode f i n nx : Inv f -> (forall q, nget (names f) q = Some (DFile i) -> under out q) ->
  next f <= nx -> stepN f {| names := names f; inodes := iset (inodes f) i n; next := nx |}.
Proof.
  intros (N & F) Hi Hnx. split; [split; [split|split]|]; unfold fresh in *; cbn [names inodes next] in *.
  - exact N.
  - intros q j E. specialize (F q j E). lia.
  - intros; reflexivity.
  - intros q j Hq E. destruct (N.eqb i j) eqn:Eij.
    + apply N.eqb_eq in Eij. subst j. exfalso. exact (Hq (Hi q E)).
    + rewrite iget_iset_other; [reflexivity|]. intros ->. rewrite N.eqb_refl in Eij. discriminate.
  - intros q H. exact H.
Qed.

Lemma named_under f p i : Inv f -> under out p -> nget (names f) p = Some (DFile i) ->
  forall q, nget (names f) q = Some (DFile i) -> under out q.
Proof. intros ((_ & _ & SP) & _) U E q Eq. exact (SP p q i E Eq U). Qed.

(* ---- the individual calls, on a literal path at/below out whose proper ancestors are not links ---- *)
Lemma O_unlink f p f' ok : Inv f -> Forall plain p -> under out p -> ancs (names f) p ->
  unlink f p = (f', ok) -> stepN f f' /\ (ok = true -> nget (names f') p = None).
Proof.
  intros I P U A. unfold unlink. destruct (resolve f p false) as [c|] eqn:R.
  2:{ intros [= <- <-]. split; [apply stepN_refl; exact I|discriminate]. }
  apply res_nf in R; try assumption. subst c.
  destruct (nget (names f) p) as [[i|md|t]|] eqn:E; intros [= <- <-];
    try (split; [apply stepN_refl; exact I|discriminate]).
  - split; [apply stepN_del; try assumption; rewrite E; discriminate|]. intros _. apply nget_ndel_same.
  - split; [apply stepN_del; try assumption; rewrite E; discriminate|]. intros _. apply nget_ndel_same.
Qed.

Lemma O_remove_dir_all f rel f' ok : Inv f -> Forall plain (out ++ rel) -> rel <> [] -> ancs (names f) (out ++ rel) ->
  remove_dir_all f (out ++ rel) = (f', ok) -> stepN f f'.
Proof.
  intros I P Hrel A. unfold remove_dir_all. destruct (resolve f (out ++ rel) false) as [c|] eqn:R.
  2:{ intros [= <- <-]. apply stepN_refl; exact I. }
  apply res_nf in R; try assumption. subst c.
  destruct (nget (names f) (out ++ rel)) as [[i|md|t]|] eqn:E; intros [= <- <-]; try (apply stepN_refl; exact I).
  - apply stepN_del_tree; assumption.
  - apply stepN_del; [exact I|apply under_app|rewrite E; discriminate].
Qed.

Lemma O_remove f rel f' ok : Inv f -> Forall plain (out ++ rel) -> rel <> [] -> ancs (names f) (out ++ rel) ->
  remove f (out ++ rel) = (f', ok) -> stepN f f'.
Proof.
  intros I P Hrel A. unfold remove. destruct (is_dir f (out ++ rel)).
  - apply O_remove_dir_all; assumption.
  - intros H. apply O_unlink in H; try assumption; [exact (proj1 H)|apply under_app].
Qed.

Lemma O_replace_existing o f rel f' ok : Inv f -> Forall plain (out ++ rel) -> rel <> [] -> ancs (names f) (out ++ rel) ->
  replace_existing o f (out ++ rel) = (f', ok) -> stepN f f'.
Proof.
  intros I P Hrel A. unfold replace_existing. destruct (o_overwrite o && exists_ f (out ++ rel)).
  - apply O_remove; assumption.
  - intros [= <- <-]. apply stepN_refl; exact I.
Qed.

(* a vacant path in the zone (on the way to out, or at/below it) is at/below out *)
Lemma zone_vacant f p : Inv f -> okpath out p -> p <> [] -> nget (names f) p = None -> under out p.
Proof.
  intros ((DC & _) & _) [_ [[r Hr]|U]] Hp E; [|exact U].
  destruct (DC p r Hr Hp) as [md H]. rewrite H in E. discriminate.
Qed.

Lemma O_mkdir f p f' ok : Inv f -> okpath out p -> p <> [] -> ancs (names f) p -> mkdir f p = (f', ok) -> stepN f f'.
Proof.
  intros I OK Hp A. unfold mkdir. destruct (resolve f p false) as [c|] eqn:R.
  2:{ intros [= <- <-]. apply stepN_refl; exact I. }
  pose proof (res_parent f p false c (proj1 OK) A R) as Hpar.
  apply res_nf in R; [|exact (proj1 OK)|exact A]. subst c.
  destruct (nget (names f) p) eqn:E; intros [= <- <-]; [apply stepN_refl; exact I|].
  split.
  - apply good2_set_vacant; try assumption; [eapply zone_vacant; eassumption|discriminate].
  - eapply keeps_set; [reflexivity|discriminate].
Qed.

Lemma O_cda : forall rest pre f f' ok,
  Inv f -> okpath out (pre ++ rest) -> cleanp (names f) (pre ++ rest) -> cda f pre rest = (f', ok) -> stepN f f'.
Proof.
  induction rest as [|c r IH]; intros pre f f' ok I OK C; cbn [cda].
  - intros [= <- <-]. apply stepN_refl. exact I.
  - assert (E' : pre ++ c :: r = (pre ++ [c]) ++ r) by (rewrite <- app_assoc; reflexivity).
    rewrite E' in OK, C.
    assert (OKq : okpath out (pre ++ [c])) by (eapply okpath_prefix; [exact out_plain|exact OK|reflexivity]).
    destruct (is_dir f (pre ++ [c])).
    + intros H. eapply IH; eauto.
    + destruct (mkdir f (pre ++ [c])) as [f1 ok1] eqn:M.
      assert (S1 : stepN f f1).
      { eapply O_mkdir; [exact I|exact OKq|destruct pre; discriminate| |exact M].
        apply cleanp_ancs. eapply cleanp_prefix. exact C. }
      destruct ok1.
      * intros H. eapply stepN_trans; [exact S1|]. eapply IH; [exact (proj1 (proj1 S1))|exact OK| |exact H].
        eapply keeps_cleanp; [exact (proj2 S1)|exact C].
      * intros [= <- <-]. exact S1.
Qed.

Lemma O_create_dir_all f p f' ok : Inv f -> okpath out p -> cleanp (names f) p ->
  create_dir_all f p = (f', ok) -> stepN f f'.
Proof. intros I OK C. unfold create_dir_all. apply O_cda; assumption. Qed.

Lemma O_create_file f p data f' ok : Inv f -> Forall plain p -> under out p -> cleanp (names f) p ->
  create_file f p data = (f', ok) -> stepN f f'.
Proof.
  intros I P U C. unfold create_file. destruct (resolve f p true) as [c|] eqn:R.
  2:{ intros [= <- <-]. apply stepN_refl; exact I. }
  pose proof (res_parent f p true c P (cleanp_ancs _ _ C) R) as Hpar.
  apply res_fl in R; try assumption. subst c.
  destruct (nget (names f) p) as [[i|md|t]|] eqn:E.
  - destruct (iget (inodes f) i); intros [= <- <-]; [|apply stepN_refl; exact I].
    apply stepN_write_inode; [exact I|eapply named_under; eassumption|lia].
  - intros [= <- <-]. apply stepN_refl; exact I.
  - intros [= <- <-]. apply stepN_refl; exact I.
  - intros [= <- <-]. destruct I as (N & F). split; [split; [split|split]|]; unfold fresh in *; cbn [names inodes next] in *.
    + apply NI_set_vacant; try assumption. intros i [= <-] q Eq. specialize (F q _ Eq). lia.
    + intros q i. destruct (path_eqb p q) eqn:Epq.
      * apply path_eqb_eq in Epq. subst q. rewrite nget_nset_same. intros [= <-]. lia.
      * rewrite nget_nset_other by (apply neq_sym_path; exact Epq). intros Eq. specialize (F q i Eq). lia.
    + intros q Hq. apply nget_nset_other. intros ->. exact (Hq U).
    + intros q i Hq Eq. specialize (F q i Eq). rewrite iget_iset_other; [reflexivity|lia].
    + eapply keeps_set; [reflexivity|discriminate].
Qed.

Lemma O_update_inode f p g f' ok : Inv f -> Forall plain p -> under out p -> cleanp (names f) p ->
  update_inode f p g = (f', ok) -> stepN f f'.
Proof.
  intros I P U C. unfold update_inode. destruct (resolve f p true) as [c|] eqn:R.
  2:{ intros [= <- <-]. apply stepN_refl; exact I. }
  apply res_fl in R; try assumption. subst c.
  destruct (nget (names f) p) as [[i|md|t]|] eqn:E; try (intros [= <- <-]; apply stepN_refl; exact I).
  destruct (iget (inodes f) i); intros [= <- <-]; [|apply stepN_refl; exact I].
  apply stepN_write_inode; [exact I|eapply named_under; eassumption|lia].
Qed.

(* lsetxattr: needs the ancestors only, the destination itself may be anything *)
Lemma O_lset_xattrs f p xs f' ok : Inv f -> Forall plain p -> under out p -> ancs (names f) p ->
  lset_xattrs f p xs = (f', ok) -> stepN f f'.
Proof.
  intros I P U A. unfold lset_xattrs. destruct xs as [|x xs]; [intros [= <- <-]; apply stepN_refl; exact I|].
  destruct (resolve f p false) as [c|] eqn:R.
  2:{ intros [= <- <-]. apply stepN_refl; exact I. }
  apply res_nf in R; try assumption. subst c.
  destruct (nget (names f) p) as [[i|md|t]|] eqn:E; try (intros [= <- <-]; apply stepN_refl; exact I).
  destruct (iget (inodes f) i); intros [= <- <-]; [|apply stepN_refl; exact I].
  apply stepN_write_inode; [exact I|eapply named_under; eassumption|lia].
Qed.

Lemma O_chmod f p mode f' ok : Inv f -> Forall plain p -> under out p -> cleanp (names f) p ->
  chmod f p mode = (f', ok) -> stepN f f'.
Proof.
  intros I P U C. unfold chmod. destruct (resolve f p true) as [c|] eqn:R.
  2:{ intros [= <- <-]. apply stepN_refl; exact I. }
  pose proof (res_parent f p true c P (cleanp_ancs _ _ C) R) as Hpar.
  apply res_fl in R; try assumption. subst c.
  destruct (nget (names f) p) as [[i|md|t]|] eqn:E; try (intros [= <- <-]; apply stepN_refl; exact I).
  - destruct (iget (inodes f) i); intros [= <- <-]; [|apply stepN_refl; exact I].
    apply stepN_write_inode; [exact I|eapply named_under; eassumption|lia].
  - intros [= <- <-]. split.
    + apply good2_names; [exact I| | |].
      * apply NI_set; [exact (proj1 I)|exact U|eauto| |intros H; exfalso; exact (H mode eq_refl)|discriminate].
        intros q c Eq Uq. apply (Hpar q c Eq). apply under_nonnil. exact Uq.
      * intros q i. destruct (path_eqb p q) eqn:Epq.
        -- apply path_eqb_eq in Epq. subst q. rewrite nget_nset_same. discriminate.
        -- rewrite nget_nset_other by (apply neq_sym_path; exact Epq). apply (proj2 I).
      * intros q Hq. apply nget_nset_other. intros ->. exact (Hq U).
    + eapply keeps_set; [reflexivity|discriminate].
Qed.

Lemma O_symlink f t p f' ok : Inv f -> Forall plain p -> under out p -> ancs (names f) p ->
  symlink f t p = (f', ok) -> step p f f'.
Proof.
  intros I P U A. unfold symlink. destruct t as [|b t]; [intros [= <- <-]; apply stepN_step, stepN_refl; exact I|].
  destruct (resolve f p false) as [c|] eqn:R.
  2:{ intros [= <- <-]. apply stepN_step, stepN_refl; exact I. }
  pose proof (res_parent f p false c P A R) as Hpar.
  apply res_nf in R; try assumption. subst c.
  destruct (nget (names f) p) eqn:E; intros [= <- <-]; [apply stepN_step, stepN_refl; exact I|].
  split.
  - apply good2_set_vacant; try assumption. discriminate.
  - eapply keeps_but_set. reflexivity.
Qed.

(* link(2): the source, too, is a literal path at/below out *)
Lemma O_hard_link f s p f' ok : Inv f -> Forall plain p -> under out p -> ancs (names f) p ->
  Forall plain s -> under out s -> ancs (names f) s ->
  hard_link f s p = (f', ok) -> step p f f'.
Proof.
  intros I P U A Ps Us As. unfold hard_link.
  destruct (resolve f s false) as [cs|] eqn:Rs.
  2:{ intros [= <- <-]. apply stepN_step, stepN_refl; exact I. }
  destruct (resolve f p false) as [cd|] eqn:R.
  2:{ intros [= <- <-]. apply stepN_step, stepN_refl; exact I. }
  pose proof (res_parent f p false cd P A R) as Hpar.
  apply res_nf in R; try assumption. subst cd. apply res_nf in Rs; try assumption. subst cs.
  destruct (nget (names f) s) as [[i|md|t]|] eqn:Es; destruct (nget (names f) p) eqn:E; intros [= <- <-];
    try (apply stepN_step, stepN_refl; exact I).
  - split; [|eapply keeps_but_set; reflexivity].
    apply good2_set_vacant; try assumption. intros j [= <-]. split; [exact (proj2 I s i Es)|].
    eapply named_under; eassumption.
  - split; [|eapply keeps_but_set; reflexivity].
    apply good2_set_vacant; try assumption. discriminate.
Qed.

(* ---- one entry --------------------------------------------------------------------------------- *)
Lemma andthen_elim (P Q : fs -> Prop) r k f' ok :
  (forall f1 ok1, r = (f1, ok1) -> P f1) -> (forall f1, P f1 -> Q f1) ->
  (forall f1, P f1 -> forall f2 ok2, k f1 = (f2, ok2) -> Q f2) ->
  andthen r k = (f', ok) -> Q f'.
Proof.
  intros Hr HPQ Hk. unfold andthen. destruct r as [f1 ok1]. pose proof (Hr f1 ok1 eq_refl) as H1. destruct ok1.
  - intros H. eapply Hk; eauto.
  - intros [= <- <-]. apply HPQ. exact H1.
Qed.

Lemma andthen_elim2 (P Q : fs -> Prop) r k f' ok :
  (forall f1, r = (f1, false) -> Q f1) -> (forall f1, r = (f1, true) -> P f1) ->
  (forall f1, P f1 -> forall f2 ok2, k f1 = (f2, ok2) -> Q f2) ->
  andthen r k = (f', ok) -> Q f'.
Proof.
  intros Hf Ht Hk. unfold andthen. destruct r as [f1 ok1]. destruct ok1.
  - intros H. eapply Hk; [apply Ht; reflexivity|exact H].
  - intros [= <- <-]. apply Hf. reflexivity.
Qed.

Lemma ancs_removelast m p : ancs m p -> cleanp m (removelast p).
Proof.
  intros A. destruct p as [|x p']; [intros a b E Ha; destruct a; [contradiction|discriminate]|].
  remember (removelast (x :: p')) as q eqn:Eq.
  assert (E : x :: p' = q ++ [last (x :: p') x]) by (subst q; apply app_removelast_last; discriminate).
  rewrite E in A. eapply ancs_clean_prefix; [exact A|discriminate].
Qed.

(* resolve_link_source yields ordinary components only *)
Lemma lex_resolve_plain : forall segs cur s, Forall plain cur -> lex_resolve cur segs = Some s -> Forall plain s.
Proof.
  induction segs as [|c r IH]; intros cur s P; cbn [lex_resolve].
  - intros [= <-]. exact P.
  - destruct (is_empty c || is_dot c) eqn:E1; [apply IH; exact P|].
    destruct (is_dotdot c) eqn:E2.
    + destruct cur as [|x cur]; [discriminate|]. apply IH. apply Forall_removelast. exact P.
    + apply IH. apply Forall_app. split; [exact P|]. constructor; [|constructor].
      apply orb_false_iff in E1. split; [tauto|exact E2].
Qed.

Lemma link_source_plain comps src s : Forall plain comps -> link_source comps src = Some s -> Forall plain s.
Proof.
  intros P. unfold link_source. destruct (has_root src); [discriminate|].
  apply lex_resolve_plain. apply Forall_removelast. exact P.
Qed.

Lemma entry_good o e f f' ok : o_guarded o = true -> Inv f -> extract_entry o out e f = (f', ok) -> good2 f f'.
Proof.
  intros Hg I. unfold extract_entry. rewrite Hg. cbn [andb].
  pose proof (name_comps_plain (e_name e)) as Pc. set (comps := name_comps (e_name e)) in *.
  assert (P : Forall plain (out ++ comps)) by (apply Forall_app; split; assumption).
  assert (U : under out (out ++ comps)) by apply under_app.
  set (p := out ++ comps) in *.
  destruct (nil_b comps && negb (N.eqb (e_kind e) 1)) eqn:E0; [intros [= <- <-]; apply good2_refl; exact I|].
  destruct (no_link_anc f out comps) eqn:EA; cbn [negb]; [|intros [= <- <-]; apply good2_refl; exact I].
  destruct (negb (o_overwrite o) && lexists f p); [intros [= <- <-]; apply good2_refl; exact I|].
  pose proof (ancs_of_check f comps I Pc EA) as A. fold p in A.
  apply (andthen_elim2 (fun g => stepN f g /\ nolink (names g) p) (good2 f)).
  - intros f1 H. destruct (is_link f p); [|discriminate]. apply O_unlink in H; try assumption. exact (proj1 (proj1 H)).
  - intros f1 H. destruct (is_link f p) eqn:L.
    + apply O_unlink in H; try assumption. destruct H as [S Hn]. split; [exact S|].
      intros t E. rewrite (Hn eq_refl) in E. discriminate.
    + injection H as <-. split; [apply stepN_refl; exact I|apply is_link_nolink; assumption].
  - intros f1 [S1 L1] f2 ok2.
    assert (A1 : ancs (names f1) p) by (eapply keeps_ancs; [exact (proj2 S1)|exact A]).
    apply (andthen_elim (fun g => stepN f g /\ nolink (names g) p) (good2 f)).
    + intros g okg H.
      assert (S : stepN f1 g).
      { eapply O_create_dir_all; [exact (proj1 (proj1 S1))| | |exact H].
        - destruct (removelast_prefix p) as [b Hb].
          eapply okpath_prefix; [exact out_plain|apply okpath_out_app; [exact out_plain|exact Pc]|exact Hb].
        - apply ancs_removelast. exact A1. }
      split; [eapply stepN_trans; eassumption|apply (proj2 S); exact L1].
    + intros g [S _]. exact (proj1 S).
    + intros g [S2 L2] g' ok'.
      pose proof (proj1 (proj1 S2)) as I2.
      assert (A2 : ancs (names g) p) by (eapply keeps_ancs; [exact (proj2 S2)|exact A]).
      assert (C2 : cleanp (names g) p) by (apply ancs_nolink_clean; assumption).
      apply (andthen_elim (fun h => step p f h /\ (e_kind e = 0 -> nolink (names h) p)) (good2 f)).
      * intros h okh.
        assert (FromN : forall h0, stepN g h0 -> step p f h0 /\ (e_kind e = 0 -> nolink (names h0) p)).
        { intros h0 S. split; [apply stepN_step; eapply stepN_trans; eassumption|intros _; apply (proj2 S); exact L2]. }
        assert (FromS : e_kind e <> 0 -> forall h0, step p g h0 -> step p f h0 /\ (e_kind e = 0 -> nolink (names h0) p)).
        { intros K h0 S. split; [eapply step_trans; [apply stepN_step; exact S2|exact S]|intros K0; contradiction]. }
        destruct (N.eqb (e_kind e) 0) eqn:K0.
        -- (* a file *)
           intros H. apply FromN. revert H. apply (andthen_elim (stepN g) (stepN g)).
           ++ intros h1 ok1 H. eapply O_create_file; [exact I2|exact P|exact U|exact C2|exact H].
           ++ auto.
           ++ intros h1 S3 h2 ok2'. apply (andthen_elim (stepN g) (stepN g)).
              ** intros h3 ok3. destruct (o_keep_time o); [|intros [= <- <-]; exact S3].
                 destruct (e_mtime e) as [t|]; [|intros [= <- <-]; exact S3].
                 intros H. eapply stepN_trans; [exact S3|]. unfold set_mtime in H.
                 eapply O_update_inode; [exact (proj1 (proj1 S3))|exact P|exact U| |exact H].
                 eapply keeps_cleanp; [exact (proj2 S3)|exact C2].
              ** auto.
              ** intros h3 S4 h4 ok4 [= <- <-]. exact S4.
        -- apply N.eqb_neq in K0. destruct (N.eqb (e_kind e) 1) eqn:K1.
           ++ (* a directory *)
              intros H. apply FromN. eapply O_create_dir_all; [exact I2| |exact C2|exact H].
              apply okpath_out_app; assumption.
           ++ assert (Hc : comps <> []).
              { cbn [negb] in E0. rewrite andb_true_r in E0. destruct comps; [discriminate|discriminate]. }
              destruct (negb (utf8_valid (e_data e))); [intros [= <- <-]; apply FromN, stepN_refl; exact I2|].
              destruct (N.eqb (e_kind e) 2).
              ** (* a symbolic link: to anywhere *)
                 intros H. apply (FromS K0). revert H. apply (andthen_elim (stepN g) (step p g)).
                 --- intros h1 ok1 H. eapply O_replace_existing; eauto.
                 --- apply stepN_step.
                 --- intros h1 S3 h2 ok2' H. eapply step_trans; [apply stepN_step; exact S3|].
                     eapply O_symlink; [exact (proj1 (proj1 S3))|exact P|exact U| |exact H].
                     eapply keeps_ancs; [exact (proj2 S3)|exact A2].
              ** (* a hard link: the source is resolved lexically below out and checked like the destination *)
                 destruct (link_source comps (normalize_reference (e_data e))) as [s|] eqn:LS;
                   [|intros [= <- <-]; apply FromN, stepN_refl; exact I2].
                 destruct (no_link_anc g out s) eqn:EAs; [|intros [= <- <-]; apply FromN, stepN_refl; exact I2].
                 assert (Ps : Forall plain s) by (eapply link_source_plain; [exact Pc|exact LS]).
                 pose proof (ancs_of_check g s I2 Ps EAs) as As.
                 intros H. apply (FromS K0). revert H. apply (andthen_elim (stepN g) (step p g)).
                 --- intros h1 ok1 H. eapply O_replace_existing; eauto.
                 --- apply stepN_step.
                 --- intros h1 S3 h2 ok2' H. eapply step_trans; [apply stepN_step; exact S3|].
                     eapply O_hard_link; [exact (proj1 (proj1 S3))|exact P|exact U| | |apply under_app| |exact H].
                     +++ eapply keeps_ancs; [exact (proj2 S3)|exact A2].
                     +++ apply Forall_app. split; assumption.
                     +++ eapply keeps_ancs; [exact (proj2 S3)|exact As].
      * intros h [S _]. exact (proj1 S).
      * intros h [S3 L3] h' okh'.
        pose proof (proj1 (proj1 S3)) as I3.
        assert (A3 : ancs (names h) p) by (eapply keeps_but_ancs; [exact (proj2 S3)|exact A]).
        (* extended attributes first, then owner + mode *)
        apply (andthen_elim (stepN h) (good2 f)).
        -- intros hx okx. destruct (o_keep_xattr o); [|intros [= <- <-]; apply stepN_refl; exact I3].
           intros H. eapply O_lset_xattrs; [exact I3|exact P|exact U|exact A3|exact H].
        -- intros hx Sx. eapply good2_trans; [exact (proj1 S3)|exact (proj1 Sx)].
        -- intros hx Sx hy oky [= <- <-].
           pose proof (proj1 (proj1 Sx)) as Ix.
           assert (Ax : ancs (names hx) p) by (eapply keeps_ancs; [exact (proj2 Sx)|exact A3]).
           assert (S4 : stepN hx (apply_perm o e hx p)).
           { unfold apply_perm. destruct (o_keep_perm o); [|apply stepN_refl; exact Ix].
             destruct (e_perm e) as [m|]; [|apply stepN_refl; exact Ix]. rewrite Hg. cbn [andb].
             destruct (is_link hx p) eqn:L; [apply stepN_refl; exact Ix|].
             destruct (chmod hx p (m mod 4096)) as [h1 ok1] eqn:C. cbn [fst].
             eapply O_chmod; [exact Ix|exact P|exact U| |exact C].
             apply ancs_nolink_clean; [exact Ax|apply is_link_nolink; assumption]. }
           eapply good2_trans; [exact (proj1 S3)|]. eapply good2_trans; [exact (proj1 Sx)|exact (proj1 S4)].
Qed.

(* ---- the whole archive -------------------------------------------------------------------------- *)
Lemma each_good o : forall es f ok0 f' ok,
  o_guarded o = true -> Inv f -> extract_each o out es f ok0 = (f', ok) -> good2 f f'.
Proof.
  induction es as [|e r IH]; intros f ok0 f' ok Hg I; cbn [extract_each].
  - intros [= <- <-]. apply good2_refl. exact I.
  - destruct (extract_entry o out e f) as [f1 ok1] eqn:E.
    pose proof (entry_good o e f f1 ok1 Hg I E) as G1.
    intros H. eapply good2_trans; [exact G1|]. eapply IH; [exact Hg|exact (proj1 G1)|exact H].
Qed.

Lemma until_good o : forall es f f' ok,
  o_guarded o = true -> Inv f -> extract_until o out es f = (f', ok) -> good2 f f'.
Proof.
  induction es as [|e r IH]; intros f f' ok Hg I; cbn [extract_until].
  - intros [= <- <-]. apply good2_refl. exact I.
  - destruct (extract_entry o out e f) as [f1 ok1] eqn:E.
    pose proof (entry_good o e f f1 ok1 Hg I E) as G1.
    destruct ok1; [|intros [= <- <-]; exact G1].
    intros H. eapply good2_trans; [exact G1|]. eapply IH; [exact Hg|exact (proj1 G1)|exact H].
Qed.

Lemma run_good o arch f0 : o_guarded o = true -> Inv f0 -> good2 f0 (extract_all o out arch f0).
Proof.
  intros Hg I. unfold extract_all, extract_run.
  destruct (extract_each o out (filter (fun e => negb (is_hardlink e)) arch) f0 true) as [f1 ok1] eqn:E1.
  pose proof (each_good o _ f0 true f1 ok1 Hg I E1) as G1.
  destruct ok1; cbn [fst]; [|exact G1].
  destruct (extract_until o out (filter is_hardlink arch) f1) as [f2 ok2] eqn:E2. cbn [fst].
  eapply good2_trans; [exact G1|]. exact (until_good o _ f1 f2 ok2 Hg (proj1 G1) E2).
Qed.

(* C09, on-disk half: nothing outside the output directory is created, changed or removed *)
Theorem extract_confined o arch f0 : o_guarded o = true -> Inv f0 ->
  forall p, mutated f0 (extract_all o out arch f0) p -> under out p.
Proof.
  intros Hg I p M. destruct (is_prefix out p) eqn:E; [apply is_prefix_under; exact E|]. exfalso.
  assert (Hp : ~ under out p) by (intros U; apply is_prefix_under in U; congruence).
  apply M. symmetry. apply (same_outside_observe out); [|exact Hp]. exact (proj2 (run_good o arch f0 Hg I)).
Qed.

(* the invariant survives: a second extraction into the same directory is confined as well *)
Theorem extract_keeps_inv o arch f0 : o_guarded o = true -> Inv f0 -> Inv (extract_all o out arch f0).
Proof. intros Hg I. exact (proj1 (run_good o arch f0 Hg I)). Qed.

(* no outside inode becomes reachable from inside: every name a regular file has after the extraction
   lies on the same side of `out` as all its other names (every link(2) made points to a node below out) *)
Theorem hardlinks_stay_inside o arch f0 : o_guarded o = true -> Inv f0 ->
  forall p q i, nget (names (extract_all o out arch f0)) p = Some (DFile i) ->
                nget (names (extract_all o out arch f0)) q = Some (DFile i) -> under out p -> under out q.
Proof. intros Hg I. exact (proj2 (proj2 (proj1 (extract_keeps_inv o arch f0 Hg I)))). Qed.

(* the link(2) call itself: the source the repaired code passes resolves to its literal path below out,
   in the state of the check and in every later state of the entry (only removals happen in between) *)
Theorem hardlink_source_literal f comps src s : Inv f -> Forall plain comps ->
  link_source comps src = Some s -> no_link_anc f out s = true ->
  forall f', keeps f f' -> forall c, resolve f' (out ++ s) false = Some c -> c = out ++ s.
Proof.
  intros I Pc LS EA f' K c R. pose proof (link_source_plain comps src s Pc LS) as Ps.
  eapply res_nf; [|eapply keeps_ancs; [exact K|apply ancs_of_check; eassumption]|exact R].
  apply Forall_app. split; assumption.
Qed.

Theorem out_dir_survives o arch f0 : o_guarded o = true -> Inv f0 ->
  exists md, nget (names (extract_all o out arch f0)) out = Some (DDir md).
Proof. intros Hg I. apply out_is_dir. exact (proj1 (proj1 (extract_keeps_inv o arch f0 Hg I))). Qed.

End Confine2.

(* ---- the invariant is decidable on concrete states ------------------------------------------------ *)
Definition dirchainb (out : path) (m : list (path * dnode)) : bool :=
  forallb (fun k => match nget m (firstn k out) with Some (DDir _) => true | _ => false end) (seq 1 (length out)).
Definition tree_underb (out : path) (m : list (path * dnode)) : bool :=
  forallb (fun e => nil_b (fst e) || negb (is_prefix out (removelast (fst e)))
                    || match nget m (removelast (fst e)) with Some (DDir _) => true | _ => false end) m.
Definition sepb (out : path) (m : list (path * dnode)) : bool :=
  forallb (fun e1 => forallb (fun e2 =>
    match snd e1, snd e2 with
    | DFile i, DFile j => if N.eqb i j then implb (is_prefix out (fst e1)) (is_prefix out (fst e2)) else true
    | _, _ => true
    end) m) m.
Definition freshb (f : fs) : bool :=
  forallb (fun e => match snd e with DFile i => N.ltb i (next f) | _ => true end) (names f).
Definition invb (out : path) (f : fs) : bool :=
  dirchainb out (names f) && tree_underb out (names f) && sepb out (names f) && freshb f.

Lemma firstn_length_app {A} (q r : list A) : firstn (length q) (q ++ r) = q.
Proof. induction q as [|x q IH]; [destruct r; reflexivity|]. cbn. rewrite IH. reflexivity. Qed.

Lemma invb_sound out f : invb out f = true -> Inv out f.
Proof.
  unfold invb. rewrite !andb_true_iff. intros [[[HD HT] HS] HF]. split; [split; [|split]|].
  - intros q r E Hq. unfold dirchainb in HD. rewrite forallb_forall in HD.
    specialize (HD (length q)). assert (Hfq : firstn (length q) out = q) by (rewrite E; apply firstn_length_app).
    rewrite Hfq in HD.
    destruct (nget (names f) q) as [[i|md|t]|]; try (exists md; reflexivity); exfalso;
      (assert (In (length q) (seq 1 (length out))) as Hin
         by (apply in_seq; subst out; rewrite app_length; destruct q; [contradiction|cbn; lia]));
      specialize (HD Hin); discriminate.
  - intros q c U Hn. unfold tree_underb in HT. rewrite forallb_forall in HT.
    destruct (nget (names f) (q ++ [c])) as [v|] eqn:E; [|contradiction]. apply nget_In in E.
    specialize (HT _ E). cbn [fst] in HT. rewrite removelast_last in HT.
    apply is_prefix_under in U. rewrite U in HT. cbn [negb orb] in HT.
    assert (nil_b (q ++ [c]) = false) as Hnil by (destruct q; reflexivity). rewrite Hnil in HT. cbn [orb] in HT.
    destruct (nget (names f) q) as [[i|md|t]|]; try discriminate. exists md. reflexivity.
  - intros p q i Ep Eq U. unfold sepb in HS. rewrite forallb_forall in HS.
    apply nget_In in Ep. apply nget_In in Eq. specialize (HS _ Ep). rewrite forallb_forall in HS. specialize (HS _ Eq).
    cbn [fst snd] in HS. rewrite N.eqb_refl in HS. apply is_prefix_under in U. rewrite U in HS. cbn [implb] in HS.
    apply is_prefix_under. exact HS.
  - intros p i E. unfold freshb in HF. rewrite forallb_forall in HF. apply nget_In in E. specialize (HF _ E).
    cbn [snd] in HF. apply N.ltb_lt. exact HF.
Qed.

(* ---- a concrete hostile setting -------------------------------------------------------------------- *)
(* the output directory already holds links planted by someone else: to an outside directory (relative
   and absolute), to an outside file, a dangling one; a file with a second name inside; a subdirectory *)
Definition w_fs1 : fs :=
  {| names := [ ([lit "S"; lit "out"; lit "predir"; lit "f"], DFile 4);
                ([lit "S"; lit "out"; lit "predir"], DDir 488);
                ([lit "S"; lit "out"; lit "pre2"], DFile 2);
                ([lit "S"; lit "out"; lit "pre"], DFile 2);
                ([lit "S"; lit "out"; lit "predang"], DLink (lit "../elsewhere/nothing"));
                ([lit "S"; lit "out"; lit "prefl"], DLink (lit "../elsewhere/victim"));
                ([lit "S"; lit "out"; lit "preabs"], DLink (lit "/S/elsewhere"));
                ([lit "S"; lit "out"; lit "prelink"], DLink (lit "../elsewhere"));
                ([lit "S"; lit "elsewhere"; lit "victim"], DFile 3);
                ([lit "S"; lit "elsewhere"], DDir 493); ([lit "S"; lit "out"], DDir 493);
                ([lit "S"; lit "outside_secret"], DFile 1); ([lit "S"], DDir 493); ([], DDir 493) ];
     inodes := [ (1, mk_inode (lit "secret") 420 1 None []); (2, mk_inode (lit "old") 416 2 None []);
                 (3, mk_inode (lit "victim") 384 3 None []); (4, mk_inode (lit "oldf") 420 4 None []) ];
     next := 5 |}.

(* absolute and dot-dot names, a symbolic link with a mode (W3), a link planted for the next archive,
   a file over a pre-existing dangling link, a hard link to an earlier entry *)
Definition w_hostile_ok : list xentry :=
  [ mk_xentry (lit "/abs") 0 (lit "1") None None [];
    mk_xentry (lit "../../x") 0 (lit "2") (Some 384) None [];
    mk_xentry (lit "l") 2 (lit "../elsewhere/victim") (Some 511) None [];
    mk_xentry (lit "t/link") 2 (lit "/S/elsewhere") None None [];
    mk_xentry (lit "predang") 0 (lit "3") None None [];
    mk_xentry (lit "prefl") 1 [] (Some 448) None [];
    mk_xentry (lit "sub/hl") 3 (lit "../x") None None [];
    mk_xentry (lit "hl2") 3 (lit "pre") None None [] ].
(* beneath the link an earlier entry planted; beneath pre-existing links (one and two levels); hard links
   whose source climbs out, is absolute, or passes through a link *)
Definition w_beneath_planted : list xentry :=
  [ mk_xentry (lit "t/link") 2 (lit "/S/elsewhere") None None []; mk_xentry (lit "t/link/x") 0 (lit "pwn") None None [] ].
Definition w_beneath_pre : list xentry := [ mk_xentry (lit "prelink/x") 0 (lit "pwn") None None [] ].
Definition w_beneath_pre2 : list xentry := [ mk_xentry (lit "preabs/sub/y") 1 [] (Some 511) None [] ].
Definition w_hl_dotdot : list xentry := [ mk_xentry (lit "sub/hl") 3 (lit "../../outside_secret") None None [] ].
Definition w_hl_abs : list xentry := [ mk_xentry (lit "hl") 3 (lit "/S/outside_secret") None None [] ].
Definition w_hl_through : list xentry := [ mk_xentry (lit "hl") 3 (lit "prelink/victim") None None [] ].
Definition over_opts : xopts := mk_xopts true true true true true.

Definition refused (o : xopts) (arch : list xentry) : bool :=
  negb (snd (extract_run o w_out arch w_fs1)) &&
  forallb (fun p => negb (mutatedb w_fs1 (extract_all o w_out arch w_fs1) p))
          [ [lit "S"; lit "elsewhere"]; [lit "S"; lit "elsewhere"; lit "x"]; [lit "S"; lit "elsewhere"; lit "victim"];
            [lit "S"; lit "elsewhere"; lit "sub"]; [lit "S"; lit "outside_secret"] ] &&
  match nget (names (extract_all o w_out arch w_fs1)) [lit "S"; lit "out"; lit "sub"; lit "hl"],
        nget (names (extract_all o w_out arch w_fs1)) [lit "S"; lit "out"; lit "hl"] with
  | None, None => true | _, _ => false end.

Example confinement_premises_full :
  Forall plain w_out /\ w_out <> [] /\ o_guarded over_opts = true /\ Inv w_out w_fs1 /\
  (* the hostile archive that the repaired code accepts: everything lands below out *)
  snd (extract_run over_opts w_out w_hostile_ok w_fs1) = true /\
  (exists i n, observe (extract_all over_opts w_out w_hostile_ok w_fs1) [lit "S"; lit "out"; lit "x"] = OFile i n /\
               nget (names (extract_all over_opts w_out w_hostile_ok w_fs1)) [lit "S"; lit "out"; lit "sub"; lit "hl"] = Some (DFile i)) /\
  observe (extract_all over_opts w_out w_hostile_ok w_fs1) [lit "S"; lit "out"; lit "l"] = OLink (lit "../elsewhere/victim") /\
  observe (extract_all over_opts w_out w_hostile_ok w_fs1) [lit "S"; lit "out"; lit "prefl"] = ODir 448 /\
  (exists i n, observe (extract_all over_opts w_out w_hostile_ok w_fs1) [lit "S"; lit "out"; lit "predang"] = OFile i n) /\
  observe (extract_all over_opts w_out w_hostile_ok w_fs1) [lit "S"; lit "elsewhere"; lit "victim"]
    = observe w_fs1 [lit "S"; lit "elsewhere"; lit "victim"] /\
  (* the ones it refuses, with and without --overwrite *)
  forallb (fun a => refused over_opts a && refused guarded_opts a)
    [ w_beneath_planted; w_beneath_pre; w_beneath_pre2; w_hl_dotdot; w_hl_abs; w_hl_through ] = true.
Proof.
  split; [repeat constructor; vm_compute; reflexivity|]. split; [discriminate|]. split; [reflexivity|].
  split; [apply invb_sound; vm_compute; reflexivity|].
  split; [vm_compute; reflexivity|].
  split; [eexists; eexists; split; vm_compute; reflexivity|].
  split; [vm_compute; reflexivity|]. split; [vm_compute; reflexivity|].
  split; [eexists; eexists; vm_compute; reflexivity|].
  split; vm_compute; reflexivity.
Qed.

(* ---- every clause of the invariant is needed (in the model) ------------------------------------------ *)
Definition escapes (o : xopts) (arch : list xentry) (f0 : fs) : Prop :=
  exists p, mutated f0 (extract_all o w_out arch f0) p /\ ~ under w_out p.

(* sep: a file in `out` shares its inode with a file outside; --overwrite truncates it in place *)
Definition fs_shared : fs :=
  {| names := [ ([lit "S"; lit "out"; lit "f"], DFile 1); ([lit "S"; lit "out"], DDir 493);
                ([lit "S"; lit "outside_secret"], DFile 1); ([lit "S"], DDir 493); ([], DDir 493) ];
     inodes := [ (1, mk_inode (lit "secret") 420 1 None []) ]; next := 2 |}.
Example sep_needed :
  dirchainb w_out (names fs_shared) && tree_underb w_out (names fs_shared) && freshb fs_shared = true /\
  escapes over_opts [ mk_xentry (lit "f") 0 (lit "new") None None [] ] fs_shared.
Proof.
  split; [vm_compute; reflexivity|]. exists [lit "S"; lit "outside_secret"]. split.
  - unfold mutated. vm_compute. discriminate.
  - intros [rel H]. vm_compute in H. discriminate.
Qed.

(* tree_under: a name map that is not a tree hides a link below a vacant path; mkdir uncovers it *)
Definition fs_not_tree : fs :=
  {| names := [ ([lit "S"; lit "out"; lit "a"; lit "b"], DLink (lit "/S/elsewhere"));
                ([lit "S"; lit "elsewhere"], DDir 493); ([lit "S"; lit "out"], DDir 493); ([lit "S"], DDir 493); ([], DDir 493) ];
     inodes := []; next := 1 |}.
Example tree_needed :
  dirchainb w_out (names fs_not_tree) && sepb w_out (names fs_not_tree) && freshb fs_not_tree = true /\
  escapes guarded_opts [ mk_xentry (lit "a/b/x") 0 (lit "pwn") None None [] ] fs_not_tree.
Proof.
  split; [vm_compute; reflexivity|]. exists [lit "S"; lit "elsewhere"; lit "x"]. split.
  - unfold mutated. vm_compute. discriminate.
  - intros [rel H]. vm_compute in H. discriminate.
Qed.

(* fresh: an allocator that hands out an inode number in use overwrites that inode *)
Definition fs_stale_next : fs :=
  {| names := [ ([lit "S"; lit "out"], DDir 493); ([lit "S"; lit "outside_secret"], DFile 1); ([lit "S"], DDir 493); ([], DDir 493) ];
     inodes := [ (1, mk_inode (lit "secret") 420 1 None []) ]; next := 1 |}.
Example fresh_needed :
  dirchainb w_out (names fs_stale_next) && tree_underb w_out (names fs_stale_next) && sepb w_out (names fs_stale_next) = true /\
  escapes guarded_opts [ mk_xentry (lit "new") 0 (lit "pwn") None None [] ] fs_stale_next.
Proof.
  split; [vm_compute; reflexivity|]. exists [lit "S"; lit "outside_secret"]. split.
  - unfold mutated. vm_compute. discriminate.
  - intros [rel H]. vm_compute in H. discriminate.
Qed.

(* dirchain: an output directory that is itself a symbolic link is somewhere else *)
Definition fs_out_is_link : fs :=
  {| names := [ ([lit "S"; lit "out"], DLink (lit "elsewhere")); ([lit "S"; lit "elsewhere"], DDir 493);
                ([lit "S"], DDir 493); ([], DDir 493) ];
     inodes := []; next := 1 |}.
Example dirchain_needed :
  tree_underb w_out (names fs_out_is_link) && sepb w_out (names fs_out_is_link) && freshb fs_out_is_link = true /\
  escapes guarded_opts [ mk_xentry (lit "x") 0 (lit "data") None None [] ] fs_out_is_link.
Proof.
  split; [vm_compute; reflexivity|]. exists [lit "S"; lit "elsewhere"; lit "x"]. split.
  - unfold mutated. vm_compute. discriminate.
  - intros [rel H]. vm_compute in H. discriminate.
Qed.

(* ---- the statements with the premises spelled out (Props/C09.v) --------------------------------------- *)
Theorem extract_confined_explicit : forall out, Forall plain out -> out <> [] ->
  forall o arch f0, o_guarded o = true ->
  dirchain out (names f0) -> tree_under out (names f0) -> sep out (names f0) -> fresh f0 ->
  forall p, mutated f0 (extract_all o out arch f0) p -> under out p.
Proof. intros out P Hn o arch f0 Hg D T S F. apply extract_confined; try assumption. repeat split; assumption. Qed.

Theorem hardlinks_stay_inside_explicit : forall out, Forall plain out -> out <> [] ->
  forall o arch f0, o_guarded o = true ->
  dirchain out (names f0) -> tree_under out (names f0) -> sep out (names f0) -> fresh f0 ->
  forall p q i, nget (names (extract_all o out arch f0)) p = Some (DFile i) ->
                nget (names (extract_all o out arch f0)) q = Some (DFile i) -> under out p -> under out q.
Proof. intros out P Hn o arch f0 Hg D T S F. apply hardlinks_stay_inside; try assumption. repeat split; assumption. Qed.

(* W3 for extended attributes: xattr::set does not follow the link; a symbolic-link entry that carries user.*
   attributes fails with EPERM after the link is made, and what the link points to is untouched *)
Definition w_xattr_link : list xentry :=
  [ mk_xentry (lit "lx") 2 (lit "../elsewhere/victim") None None [(lit "user.k", lit "v")] ].
Example xattr_not_through_link :
  snd (extract_run over_opts w_out w_xattr_link w_fs1) = false /\
  observe (extract_all over_opts w_out w_xattr_link w_fs1) [lit "S"; lit "out"; lit "lx"] = OLink (lit "../elsewhere/victim") /\
  observe (extract_all over_opts w_out w_xattr_link w_fs1) [lit "S"; lit "elsewhere"; lit "victim"]
    = observe w_fs1 [lit "S"; lit "elsewhere"; lit "victim"].
Proof. repeat split; vm_compute; reflexivity. Qed.
