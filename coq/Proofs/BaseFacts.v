(* BaseFacts.v — facts about Base.v used by every area. *)
From PNA Require Import Base.
Require Import ZArith ZifyN ZifyNat ZifyBool.
Ltac Zify.zify_post_hook ::= Z.div_mod_to_equations.
Open Scope N_scope.

Lemma b2n_lt b : b2n b < 256.
Proof. unfold b2n. pose proof (Byte.to_N_bounded b). lia. Qed.

Lemma n2b_b2n b : n2b (b2n b) = b.
Proof.
  unfold n2b, b2n. rewrite N.mod_small by (pose proof (Byte.to_N_bounded b); lia).
  rewrite Byte.of_to_N. reflexivity.
Qed.

Lemma b2n_n2b n : b2n (n2b n) = n mod 256.
Proof.
  unfold n2b, b2n. destruct (Byte.of_N (n mod 256)) as [b|] eqn:E.
  - apply Byte.to_of_N in E. exact E.
  - apply Byte.of_N_None_iff in E. lia.
Qed.

Lemma b2n_n2b_small n : n < 256 -> b2n (n2b n) = n.
Proof. intros H. rewrite b2n_n2b. apply N.mod_small. exact H. Qed.

Lemma b2n_inj a b : b2n a = b2n b -> a = b.
Proof. intros H. rewrite <- (n2b_b2n a), <- (n2b_b2n b), H. reflexivity. Qed.

Lemma byte_eqb_eq a b : byte_eqb a b = true <-> a = b.
Proof.
  unfold byte_eqb. rewrite N.eqb_eq. split; [apply b2n_inj | intros ->; reflexivity].
Qed.

Lemma byte_eqb_refl a : byte_eqb a a = true.
Proof. apply byte_eqb_eq. reflexivity. Qed.

Lemma bytes_eqb_eq a : forall b, bytes_eqb a b = true <-> a = b.
Proof.
  induction a as [|x a IH]; intros [|y b]; cbn [bytes_eqb]; try (split; [discriminate|discriminate]); [tauto|].
  rewrite andb_true_iff, byte_eqb_eq, IH. split; [intros [-> ->]; reflexivity | intros H; inversion H; auto].
Qed.

Lemma len_app {A} (a b : list A) : len (a ++ b) = len a + len b.
Proof. unfold len. rewrite app_length. lia. Qed.

Lemma len_cons {A} (x : A) l : len (x :: l) = 1 + len l.
Proof. unfold len. cbn [length]. lia. Qed.

(* ---- big-endian ----------------------------------------------------------- *)
Lemma be_length w n : length (be w n) = w.
Proof. induction w as [|w IH]; cbn [be length]; [reflexivity | rewrite IH; reflexivity]. Qed.

Lemma of_be_acc l : forall acc,
  fold_left (fun a b => a * 256 + b2n b) l acc = acc * 256 ^ len l + of_be l.
Proof.
  unfold of_be. induction l as [|x l IH]; intros acc.
  - cbn [fold_left]. unfold len; cbn [length]. change (256 ^ N.of_nat 0) with 1. lia.
  - cbn [fold_left]. rewrite IH, (IH (0 * 256 + b2n x)), len_cons, N.pow_add_r.
    change (256 ^ 1) with 256. lia.
Qed.

Lemma of_be_app a b : of_be (a ++ b) = of_be a * 256 ^ len b + of_be b.
Proof. unfold of_be at 1. rewrite fold_left_app. fold (of_be a). apply of_be_acc. Qed.

Lemma of_be_cons x l : of_be (x :: l) = b2n x * 256 ^ len l + of_be l.
Proof. change (x :: l) with ([x] ++ l). rewrite of_be_app. unfold of_be at 1. cbn [fold_left]. lia. Qed.

Lemma of_be_lt l : of_be l < 256 ^ len l.
Proof.
  induction l as [|x l IH].
  - unfold of_be, len; cbn. lia.
  - rewrite of_be_cons, len_cons, N.pow_add_r. pose proof (b2n_lt x).
    change (256 ^ 1) with 256. nia.
Qed.

Lemma of_be_be_mod w : forall n, of_be (be w n) = n mod 256 ^ N.of_nat w.
Proof.
  induction w as [|w IH]; intros n.
  - cbn [be]. unfold of_be; cbn [fold_left]. change (256 ^ N.of_nat 0) with 1. rewrite N.mod_1_r. reflexivity.
  - cbn [be]. rewrite of_be_cons. unfold len. rewrite be_length, IH, b2n_n2b.
    replace (N.of_nat (S w)) with (N.of_nat w + 1) by lia.
    rewrite N.pow_add_r. change (256 ^ 1) with 256.
    assert (Hp : 256 ^ N.of_nat w <> 0) by (apply N.pow_nonzero; lia).
    rewrite (N.mod_mul_r n (256 ^ N.of_nat w) 256) by lia. lia.
Qed.

Lemma of_be_be w n : n < 256 ^ N.of_nat w -> of_be (be w n) = n.
Proof. intros H. rewrite of_be_be_mod. apply N.mod_small. exact H. Qed.

Lemma split_mod (B a : N) : B <> 0 ->
  (a mod (B * 256)) mod B = a mod B /\ (a mod (B * 256)) / B = (a / B) mod 256.
Proof.
  intros HB. rewrite (N.mod_mul_r a B 256) by lia.
  pose proof (N.mod_lt a B HB) as Hr.
  split.
  - rewrite (N.mul_comm B), N.mod_add by exact HB. apply N.mod_small. exact Hr.
  - rewrite (N.mul_comm B), N.div_add by exact HB. rewrite (N.div_small _ _ Hr). reflexivity.
Qed.

Lemma be_mod_ext w : forall a b, a mod 256 ^ N.of_nat w = b mod 256 ^ N.of_nat w -> be w a = be w b.
Proof.
  induction w as [|w IHw]; intros a b H; cbn [be]; [reflexivity|].
  replace (N.of_nat (S w)) with (N.of_nat w + 1) in H by lia.
  rewrite N.pow_add_r in H. change (256 ^ 1) with 256 in H.
  assert (Hp : 256 ^ N.of_nat w <> 0) by (apply N.pow_nonzero; lia).
  destruct (split_mod _ a Hp) as [Ha1 Ha2]. destruct (split_mod _ b Hp) as [Hb1 Hb2].
  rewrite H in Ha1, Ha2. f_equal.
  - apply b2n_inj. rewrite !b2n_n2b. rewrite <- Ha2, <- Hb2. reflexivity.
  - apply IHw. rewrite <- Ha1, <- Hb1. reflexivity.
Qed.

Lemma be_of_be l : be (length l) (of_be l) = l.
Proof.
  induction l as [|x l IH]; [reflexivity|].
  cbn [length be]. rewrite of_be_cons.
  assert (Hp : 256 ^ len l <> 0) by (apply N.pow_nonzero; lia).
  pose proof (of_be_lt l) as Hl.
  fold (len l). f_equal.
  - rewrite N.div_add_l by exact Hp. rewrite (N.div_small (of_be l)) by exact Hl. rewrite N.add_0_r. apply n2b_b2n.
  - transitivity (be (length l) (of_be l)); [|exact IH]. apply be_mod_ext. fold (len l).
    rewrite N.add_comm, N.mod_add by exact Hp. reflexivity.
Qed.
