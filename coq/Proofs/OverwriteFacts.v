(* OverwriteFacts.v — facts about Model/Overwrite.v (C20).
   Main results:
     no_clobber          with overwrite off, every node that existed before the run is the same after it
     conflict_reported   with overwrite off, an occupied output path gives a non-zero exit status
     no_stray            with overwrite off, whatever is new after the run sits at an output path or is a directory
                         above one (nothing is created through a symbolic link)
     unrepaired_clobbers the code before the fix (only the archive path tested, parts opened with
                         File::create) replaces an existing part file and exits 0            (D23)
     follow_guard_writes_through   a Path::exists guard lets a dangling link through: its target is created
   Outside the proof: the operating system's own semantics of open/rename/mkdir (modelled by put/unset on a
   finite map), concurrent processes, and that the step lists in Overwrite.v are what the Rust code does
   (tied by the correspondence runs of props/C20.py). *)
From PNA Require Import Base BaseFacts Overwrite.
Require Import ZArith ZifyN ZifyNat ZifyBool.

(* ---- equality tests ------------------------------------------------------------------- *)
Lemma path_eqb_eq a : forall b, path_eqb a b = true <-> a = b.
Proof.
  induction a as [|x a IH]; intros [|y b]; cbn [path_eqb]; split; intro H; try reflexivity; try discriminate.
  - apply andb_true_iff in H. destruct H as [H1 H2]. apply bytes_eqb_eq in H1. apply IH in H2. now subst.
  - injection H as -> ->. apply andb_true_iff. split; [now apply bytes_eqb_eq | now apply IH].
Qed.
Lemma path_eqb_refl a : path_eqb a a = true.
Proof. now apply path_eqb_eq. Qed.
Lemma path_eqb_neq a b : a <> b -> path_eqb a b = false.
Proof. intro H. destruct (path_eqb a b) eqn:E; [apply path_eqb_eq in E; contradiction | reflexivity]. Qed.

(* ---- node after put / unset ------------------------------------------------------------ *)
Lemma node_put_other s p n q : p <> q -> node (put s p n) q = node s q.
Proof.
  intro H. destruct q as [|c q]; [reflexivity|].
  cbn [node put lookup]. now rewrite (path_eqb_neq _ _ H).
Qed.
Lemma node_put_same s p n : p <> [] -> node (put s p n) p = Some n.
Proof.
  intro H. destruct p as [|c p]; [contradiction|].
  cbn [node put lookup]. now rewrite path_eqb_refl.
Qed.
Lemma lookup_unset_other s p q : p <> q -> lookup (unset s p) q = lookup s q.
Proof.
  intro H. induction s as [|[r n] s IH]; [reflexivity|].
  cbn [unset lookup]. destruct (path_eqb r p) eqn:E.
  - apply path_eqb_eq in E. subst r. now rewrite (path_eqb_neq _ _ H).
  - cbn [lookup]. now rewrite IH.
Qed.
Lemma node_unset_other s p q : p <> q -> node (unset s p) q = node s q.
Proof. intro H. destruct q; [reflexivity|]. cbn [node]. now apply lookup_unset_other. Qed.

(* ---- extension: everything that existed is still there, unchanged ------------------------ *)
Definition ext (s s' : fs) : Prop := forall q, node s q <> None -> node s' q = node s q.

Lemma ext_refl s : ext s s.
Proof. now intros q _. Qed.
Lemma ext_trans s1 s2 s3 : ext s1 s2 -> ext s2 s3 -> ext s1 s3.
Proof.
  intros H12 H23 q Hq. rewrite <- (H12 q Hq). apply H23. now rewrite (H12 q Hq).
Qed.
Lemma ext_none s s' p : ext s s' -> node s' p = None -> node s p = None.
Proof.
  intros He Hn. destruct (node s p) eqn:E; [|reflexivity].
  assert (H : node s p <> None) by (rewrite E; discriminate).
  apply He in H. rewrite Hn, E in H. discriminate.
Qed.
Lemma ext_some s s' p : ext s s' -> node s p <> None -> node s' p <> None.
Proof. intros He H. now rewrite (He p H). Qed.

(* writing at a path that was free in s, on top of any extension of s, is still an extension of s *)
Lemma ext_put_fresh s s1 p n : node s p = None -> ext s s1 -> ext s (put s1 p n).
Proof.
  intros Hp He q Hq.
  assert (p <> q) by (intros ->; contradiction).
  rewrite node_put_other by assumption. now apply He.
Qed.

(* ---- create_dir_all ---------------------------------------------------------------------- *)
Lemma mkdirs_from_ext rest : forall s pre s', mkdirs_from s pre rest = Some s' -> ext s s'.
Proof.
  induction rest as [|c r IH]; intros s pre s' H; cbn [mkdirs_from] in H.
  - injection H as <-. apply ext_refl.
  - destruct (lookup s (pre ++ [c])) as [[x| |t]|] eqn:E; try discriminate.
    + now apply IH in H.
    + apply IH in H. eapply ext_trans; [|exact H].
      apply ext_put_fresh; [|apply ext_refl].
      destruct (pre ++ [c]) eqn:Eq; [now destruct pre | exact E].
Qed.
(* it only ever adds directories *)
Lemma mkdirs_from_nodes rest : forall s pre s', mkdirs_from s pre rest = Some s' ->
  forall q, node s' q = node s q \/ node s' q = Some Dir.
Proof.
  induction rest as [|c r IH]; intros s pre s' H q; cbn [mkdirs_from] in H.
  - injection H as <-. now left.
  - destruct (lookup s (pre ++ [c])) as [[x| |t]|] eqn:E; try discriminate.
    + now apply IH with (q := q) in H.
    + apply IH with (q := q) in H. destruct H as [H|H]; [|now right].
      rewrite H. destruct q as [|d q]; [now left|].
      cbn [node put lookup]. destruct (path_eqb (pre ++ [c]) (d :: q)); [now right | now left].
Qed.
Lemma mkdirs_ext s p s' : mkdirs s p = Some s' -> ext s s'.
Proof. apply mkdirs_from_ext. Qed.
Lemma mkdirs_nodes s p s' : mkdirs s p = Some s' -> forall q, node s' q = node s q \/ node s' q = Some Dir.
Proof. apply mkdirs_from_nodes. Qed.

(* ---- File::create after a passed lexists test ------------------------------------------- *)
Lemma trunc_create_ext s s1 s2 p :
  node s p = None -> ext s s1 -> (forall q, node s1 q = node s q \/ node s1 q = Some Dir) ->
  trunc_create s1 p = Some s2 -> ext s s2.
Proof.
  intros Hp He Hn H. unfold trunc_create in H.
  destruct (is_dir s1 (parent p)); [|discriminate].
  destruct (Hn p) as [Hq|Hq]; rewrite Hq in H.
  - rewrite Hp in H. injection H as <-. now apply ext_put_fresh.
  - discriminate.
Qed.

(* ---- O_EXCL ------------------------------------------------------------------------------ *)
Lemma create_new_some s p s' : create_new s p = Some s' -> node s p = None /\ s' = put s p (File new_content).
Proof.
  unfold create_new. destruct (is_dir s (parent p)); [|discriminate].
  destruct (node s p); [discriminate|]. intro H. injection H as <-. now split.
Qed.
Lemma create_new_ext s p s' : create_new s p = Some s' -> ext s s'.
Proof.
  intro H. apply create_new_some in H. destruct H as [Hn ->].
  apply ext_put_fresh; [assumption | apply ext_refl].
Qed.

Lemma write_parts_ext parts : forall s, ext s (fst (write_parts false s parts)).
Proof.
  induction parts as [|p r IH]; intro s; cbn [write_parts create_part].
  - apply ext_refl.
  - destruct (create_new s p) as [s1|] eqn:E; [|apply ext_refl].
    eapply ext_trans; [exact (create_new_ext _ _ _ E) | apply IH].
Qed.
(* a part path that is occupied stops the writer *)
Lemma write_parts_conflict parts : forall s p, In p parts -> node s p <> None ->
  snd (write_parts false s parts) = false.
Proof.
  induction parts as [|p0 r IH]; intros s p Hin Hp; [contradiction|].
  cbn [write_parts create_part]. destruct (create_new s p0) as [s1|] eqn:E; [|reflexivity].
  pose proof (create_new_ext _ _ _ E) as He. apply create_new_some in E. destruct E as [Hn _].
  destruct Hin as [->|Hin]; [contradiction|].
  apply IH with (p := p); [assumption | now apply (ext_some _ _ _ He)].
Qed.

Lemma run_parts_ext s head parts : ext s (fst (run_parts false s head parts)).
Proof.
  unfold run_parts. pose proof (write_parts_ext parts s) as He.
  destruct (write_parts false s parts) as [s1 ok] eqn:Ew. cbn [fst] in He.
  destruct ok; [|exact He].
  unfold finish_parts. destruct parts as [|p1 [|p2 r]]; try exact He.
  destruct (path_eqb p1 head) eqn:Eph; [exact He|].
  cbn [negb andb]. destruct (lexists s1 head) eqn:El; [exact He|].
  (* one part, archive path free: the part written by this run is renamed *)
  cbn [write_parts create_part] in Ew.
  destruct (create_new s p1) as [s1'|] eqn:Ec; [|discriminate].
  injection Ew as ->. apply create_new_some in Ec. destruct Ec as [Hp1 ->].
  unfold rename.
  assert (Hh1 : node (put s p1 (File new_content)) head = None).
  { unfold lexists in El. destruct (node (put s p1 (File new_content)) head); [discriminate | reflexivity]. }
  rewrite Hh1.
  destruct (node (put s p1 (File new_content)) p1) as [n|]; [|exact He].
  destruct (is_dir (put s p1 (File new_content)) (parent head)); [|exact He].
  cbn [fst]. intros q Hq.
  assert (Hqp : p1 <> q) by (intros ->; contradiction).
  assert (Hqh : head <> q).
  { intros ->. apply Hq. now apply (ext_none _ _ _ He). }
  rewrite node_put_other by assumption. rewrite node_unset_other by assumption. now apply He.
Qed.

Lemma run_single_ext mk p s : ext s (fst (run_single mk false p s)).
Proof.
  unfold run_single. cbn [negb andb]. destruct (lexists s p) eqn:El; [apply ext_refl|].
  assert (Hp : node s p = None) by (unfold lexists in El; destruct (node s p); [discriminate | reflexivity]).
  destruct mk.
  - destruct (mkdirs s (parent p)) as [s1|] eqn:Em; [|apply ext_refl].
    destruct (trunc_create s1 p) as [s2|] eqn:Et; cbn [fst].
    + eapply trunc_create_ext; eauto using mkdirs_ext, mkdirs_nodes.
    + now apply mkdirs_ext in Em.
  - destruct (trunc_create s p) as [s2|] eqn:Et; cbn [fst]; [|apply ext_refl].
    eapply trunc_create_ext; eauto using ext_refl.
Qed.

Lemma run_create_split_ext head parts s : ext s (fst (run_create_split false head parts s)).
Proof.
  unfold run_create_split. cbn [negb andb]. destruct (lexists s head); [apply ext_refl|].
  destruct (mkdirs s (parent head)) as [s1|] eqn:Em; [|apply ext_refl].
  eapply ext_trans; [exact (mkdirs_ext _ _ _ Em) | apply run_parts_ext].
Qed.
Lemma run_split_ext head parts s : ext s (fst (run_split false head parts s)).
Proof.
  unfold run_split. destruct (mkdirs s (parent head)) as [s1|] eqn:Em; [|apply ext_refl].
  pose proof (mkdirs_ext _ _ _ Em) as He.
  destruct parts as [|p1 r]; [exact He|].
  cbn [negb andb]. destruct (exists_follow s1 p1); [exact He|].
  eapply ext_trans; [exact He | apply run_parts_ext].
Qed.

Lemma extract_one_ext s k p : ext s (fst (extract_one false s k p)).
Proof.
  unfold extract_one. destruct (sym_anc s p); [apply ext_refl|].
  cbn [negb andb]. destruct (lexists s p) eqn:El; [apply ext_refl|].
  assert (Hp : node s p = None) by (unfold lexists in El; destruct (node s p); [discriminate | reflexivity]).
  rewrite Hp. destruct (mkdirs s (parent p)) as [s1|] eqn:Em; [|apply ext_refl].
  pose proof (mkdirs_ext _ _ _ Em) as He. pose proof (mkdirs_nodes _ _ _ Em) as Hn.
  destruct k.
  - destruct (trunc_create s1 p) as [s2|] eqn:Et; cbn [fst]; [|exact He].
    eapply trunc_create_ext; eauto.
  - destruct (mkdirs s1 p) as [s2|] eqn:Em2; cbn [fst]; [|exact He].
    eapply ext_trans; [exact He | exact (mkdirs_ext _ _ _ Em2)].
  - destruct (node s1 p) eqn:En; cbn [fst]; [exact He|].
    now apply ext_put_fresh.
Qed.
Lemma extract_all_ext os : forall s err, ext s (fst (extract_all false s os err)).
Proof.
  induction os as [|[k p] r IH]; intros s err; cbn [extract_all]; [apply ext_refl|].
  pose proof (extract_one_ext s k p) as He. destruct (extract_one false s k p) as [s1 e]. cbn [fst] in He.
  eapply ext_trans; [exact He | apply IH].
Qed.
Lemma extract_all_err os : forall s, snd (extract_all false s os true) = true.
Proof.
  induction os as [|[k p] r IH]; intro s; cbn [extract_all]; [reflexivity|].
  destruct (extract_one false s k p) as [s1 e]. cbn [orb]. apply IH.
Qed.
Lemma extract_all_conflict os : forall s err k p, In (k, p) os -> node s p <> None ->
  snd (extract_all false s os err) = true.
Proof.
  induction os as [|[k0 p0] r IH]; intros s err k p Hin Hp; [contradiction|].
  cbn [extract_all]. destruct Hin as [Heq|Hin].
  - injection Heq as -> ->.
    assert (He : extract_one false s k p = (s, true)).
    { unfold extract_one. destruct (sym_anc s p); [reflexivity|].
      cbn [negb andb]. unfold lexists. destruct (node s p); [reflexivity | contradiction]. }
    rewrite He. rewrite orb_true_r. apply extract_all_err.
  - pose proof (extract_one_ext s k0 p0) as He. destruct (extract_one false s k0 p0) as [s1 e]. cbn [fst] in He.
    apply IH with (k := k) (p := p); [assumption | now apply (ext_some _ _ _ He)].
Qed.
Lemma run_extract_ext os s : ext s (fst (run_extract false os s)).
Proof.
  unfold run_extract. pose proof (extract_all_ext os s false) as He.
  destruct (extract_all false s os false) as [s1 e]. exact He.
Qed.

(* ---- the two theorems ------------------------------------------------------------------- *)
Theorem no_clobber : forall c fs0, overwrite c = false ->
  forall p, existed fs0 p -> node (fst (run c fs0)) p = node fs0 p.
Proof.
  intros [k ow os] fs0 How. cbn [overwrite] in How. subst ow.
  change (ext fs0 (fst (run {| kind := k; overwrite := false; outs := os |} fs0))).
  unfold run. cbn [kind overwrite outs].
  destruct k; try (destruct os as [|[o p] [|x r]]; try apply ext_refl; apply run_single_ext).
  - destruct os as [|[o p] r]; [apply ext_refl | apply run_create_split_ext].
  - destruct os as [|[o p] r]; [apply ext_refl | apply run_split_ext].
  - apply run_extract_ext.
  - apply run_extract_ext.
Qed.

Lemma one_neq_zero : (1 : N) <> 0.
Proof. discriminate. Qed.

Lemma run_single_conflict mk p s : node s p <> None -> snd (run_single mk false p s) <> 0.
Proof.
  intro H. unfold run_single. cbn [negb andb]. unfold lexists.
  destruct (node s p); [apply one_neq_zero | contradiction].
Qed.
Lemma run_parts_conflict s head parts p : In p parts -> node s p <> None ->
  snd (run_parts false s head parts) <> 0.
Proof.
  intros Hin Hp. unfold run_parts.
  pose proof (write_parts_conflict parts s p Hin Hp) as H.
  destruct (write_parts false s parts) as [s1 ok]. cbn [snd] in H. subst ok. apply one_neq_zero.
Qed.
Lemma run_parts_head_conflict s head p1 : node s head <> None ->
  snd (run_parts false s head [p1]) <> 0.
Proof.
  intro Hh. unfold run_parts. cbn [write_parts create_part].
  destruct (create_new s p1) as [s1|] eqn:E; [|apply one_neq_zero].
  unfold finish_parts.
  destruct (path_eqb p1 head) eqn:Eph.
  { (* the part IS the archive path: create_new has refused it *)
    apply path_eqb_eq in Eph. subst p1. apply create_new_some in E. destruct E as [Hn _]. contradiction. }
  cbn [negb andb].
  pose proof (ext_some _ _ _ (create_new_ext _ _ _ E) Hh) as H1.
  unfold lexists. destruct (node s1 head); [apply one_neq_zero | contradiction].
Qed.

Theorem conflict_reported : forall c fs0, overwrite c = false ->
  (exists p, In p (outputs c) /\ existed fs0 p) -> snd (run c fs0) <> 0.
Proof.
  intros [k ow os] fs0 How [p [Hin Hp]]. cbn [overwrite] in How. subst ow.
  unfold existed in Hp. unfold outputs in Hin. unfold run. cbn [kind overwrite outs] in *.
  destruct k.
  - destruct os as [|[o q] [|x r]]; try apply one_neq_zero.
    cbn in Hin. destruct Hin as [<-|[]]. now apply run_single_conflict.
  - destruct os as [|[o q] [|x r]]; try apply one_neq_zero.
    cbn in Hin. destruct Hin as [<-|[]]. now apply run_single_conflict.
  - destruct os as [|[o q] [|x r]]; try apply one_neq_zero.
    cbn in Hin. destruct Hin as [<-|[]]. now apply run_single_conflict.
  - (* create --split: the archive path, then the parts *)
    destruct os as [|[o head] parts]; [apply one_neq_zero|].
    cbn [map snd] in Hin. unfold run_create_split. cbn [negb andb].
    destruct Hin as [<-|Hin].
    + unfold lexists. destruct (node fs0 head); [apply one_neq_zero | contradiction].
    + destruct (lexists fs0 head); [apply one_neq_zero|].
      destruct (mkdirs fs0 (parent head)) as [s1|] eqn:Em; [|apply one_neq_zero].
      apply run_parts_conflict with (p := p); [assumption|].
      now apply (ext_some _ _ _ (mkdirs_ext _ _ _ Em)).
  - (* split: the parts, and the base name when everything fits one part *)
    destruct os as [|[o head] parts]; [contradiction|].
    unfold run_split. destruct (mkdirs fs0 (parent head)) as [s1|] eqn:Em; [|apply one_neq_zero].
    pose proof (ext_some _ _ _ (mkdirs_ext _ _ _ Em) Hp) as Hp1.
    apply in_app_or in Hin. destruct Hin as [Hin|Hin].
    + destruct (map snd parts) as [|p1 r] eqn:Ep; [contradiction|].
      cbn [negb andb]. destruct (exists_follow s1 p1); [apply one_neq_zero|].
      now apply run_parts_conflict with (p := p).
    + unfold single in Hin. cbn [outs] in Hin.
      destruct parts as [|[o1 p1] [|y r]]; try contradiction.
      destruct Hin as [<-|[]]. cbn [map snd negb andb].
      destruct (exists_follow s1 p1); [apply one_neq_zero|].
      now apply run_parts_head_conflict.
  - apply in_map_iff in Hin. destruct Hin as [[k q] [Heq Hin]]. cbn [snd] in Heq. subst q.
    unfold run_extract. pose proof (extract_all_conflict os fs0 false k p Hin Hp) as H.
    destruct (extract_all false fs0 os false) as [s1 e]. cbn [snd] in *. subst e. apply one_neq_zero.
  - apply in_map_iff in Hin. destruct Hin as [[k q] [Heq Hin]]. cbn [snd] in Heq. subst q.
    unfold run_extract. pose proof (extract_all_conflict os fs0 false k p Hin Hp) as H.
    destruct (extract_all false fs0 os false) as [s1 e]. cbn [snd] in *. subst e. apply one_neq_zero.
Qed.

(* ---- premises are satisfiable; the theorems speak about non-trivial runs ------------------ *)
Definition ex_parts : list (okind * path) :=
  [(OFile, [lit "ar.pna"]); (OFile, [lit "ar.part1.pna"]); (OFile, [lit "ar.part2.pna"]); (OFile, [lit "ar.part3.pna"])].
Definition ex_cmd : cmd := {| kind := CreateSplit; overwrite := false; outs := ex_parts |}.
Definition ex_fs : fs := [([lit "ar.part2.pna"], File (lit "canary")); ([lit "keep"], File (lit "x"))].

(* a conflict at part 2: exit 1, part 1 was written, the canary is intact *)
Example conflict_example :
  overwrite ex_cmd = false /\
  (exists p, In p (outputs ex_cmd) /\ existed ex_fs p) /\
  snd (run ex_cmd ex_fs) = 1 /\
  node (fst (run ex_cmd ex_fs)) [lit "ar.part2.pna"] = Some (File (lit "canary")) /\
  node (fst (run ex_cmd ex_fs)) [lit "ar.part1.pna"] = Some (File new_content).
Proof.
  split; [reflexivity|]. split.
  - exists [lit "ar.part2.pna"]. split; [vm_compute; tauto | vm_compute; discriminate].
  - vm_compute. repeat split.
Qed.
(* no conflict: exit 0, three parts written, the bystander intact *)
Example clean_example :
  let fs0 := [([lit "keep"], File (lit "x"))] in
  snd (run ex_cmd fs0) = 0 /\
  node (fst (run ex_cmd fs0)) [lit "ar.part3.pna"] = Some (File new_content) /\
  node (fst (run ex_cmd fs0)) [lit "keep"] = Some (File (lit "x")).
Proof. vm_compute. repeat split. Qed.

(* ---- the unrepaired code ------------------------------------------------------------------- *)
(* D23: only the archive path is tested; an existing second part is replaced and the run succeeds *)
Lemma unrepaired_clobbers :
  exists head parts fs0 p,
    existed fs0 p /\ In p parts /\
    node (fst (run_create_split_old false head parts fs0)) p <> node fs0 p /\
    snd (run_create_split_old false head parts fs0) = 0.
Proof.
  exists [lit "ar.pna"], [[lit "ar.part1.pna"]; [lit "ar.part2.pna"]; [lit "ar.part3.pna"]], ex_fs, [lit "ar.part2.pna"].
  split; [vm_compute; discriminate|]. split; [vm_compute; tauto|].
  split; [vm_compute; discriminate | vm_compute; reflexivity].
Qed.
(* ... and a single-part result is renamed over an existing archive path that the symlink-following test let through *)
Lemma unrepaired_rename_clobbers :
  exists head parts fs0,
    existed fs0 head /\
    node (fst (run_create_split_old false head parts fs0)) head <> node fs0 head /\
    snd (run_create_split_old false head parts fs0) = 0.
Proof.
  exists [lit "ar.pna"], [[lit "ar.part1.pna"]], [([lit "ar.pna"], Symlink [lit "missing"])].
  split; [vm_compute; discriminate|].
  split; [vm_compute; discriminate | vm_compute; reflexivity].
Qed.
(* the Path::exists guard: a dangling link at the output path passes, File::create makes its target *)
Lemma follow_guard_writes_through :
  exists p fs0 q,
    existed fs0 p /\ ~ existed fs0 q /\ q <> p /\
    existed (fst (run_single_old false p fs0)) q /\ snd (run_single_old false p fs0) = 0.
Proof.
  exists [lit "ar.pna"], [([lit "ar.pna"], Symlink [lit "outside"])], [lit "outside"].
  split; [vm_compute; discriminate|].
  split; [vm_compute; tauto|].
  split; [vm_compute; discriminate|].
  split; [vm_compute; discriminate | vm_compute; reflexivity].
Qed.
(* the repaired single-output command on the same input reports the conflict and creates nothing *)
Lemma repaired_refuses_dangling_link :
  let p := [lit "ar.pna"] in let fs0 := [(p, Symlink [lit "outside"])] in
  run {| kind := Create; overwrite := false; outs := [(OFile, p)] |} fs0 = (fs0, 1).
Proof. vm_compute. reflexivity. Qed.

(* ---- nothing appears anywhere else ---------------------------------------------------------- *)
(* with overwrite off, whatever exists after the run and did not before sits at an output path or is a
   directory above one: in particular nothing is created through a symbolic link *)
Definition new_ok (os : list path) (s s' : fs) : Prop :=
  forall q, node s q = None -> node s' q <> None -> exists p, In p os /\ is_prefix q p = true.

Lemma is_prefix_app a : forall b, is_prefix a (a ++ b) = true.
Proof. induction a as [|x a IH]; intro b; cbn; [reflexivity|]. rewrite IH. rewrite andb_true_r. now apply bytes_eqb_eq. Qed.
Lemma is_prefix_refl a : is_prefix a a = true.
Proof. rewrite <- (app_nil_r a) at 2. apply is_prefix_app. Qed.
Lemma is_prefix_trans a : forall b c, is_prefix a b = true -> is_prefix b c = true -> is_prefix a c = true.
Proof.
  induction a as [|x a IH]; intros [|y b] [|z c] H1 H2; cbn in *; try reflexivity; try discriminate.
  apply andb_true_iff in H1. destruct H1 as [H1 H1']. apply andb_true_iff in H2. destruct H2 as [H2 H2'].
  apply bytes_eqb_eq in H1. apply bytes_eqb_eq in H2. subst. apply andb_true_iff. split; [now apply bytes_eqb_eq | eapply IH; eassumption].
Qed.
Lemma is_prefix_parent p : is_prefix (parent p) p = true.
Proof.
  unfold parent. destruct p as [|x p]; [reflexivity|].
  rewrite (app_removelast_last x (l := x :: p)) at 2 by discriminate. apply is_prefix_app.
Qed.

Lemma new_ok_refl os s : new_ok os s s.
Proof. intros q H1 H2. contradiction. Qed.
Lemma new_ok_trans os s1 s2 s3 : new_ok os s1 s2 -> new_ok os s2 s3 -> new_ok os s1 s3.
Proof.
  intros H12 H23 q Hq H3. destruct (node s2 q) eqn:E.
  - apply H12; [assumption | rewrite E; discriminate].
  - now apply H23.
Qed.
Lemma new_ok_put os s p n : (exists o, In o os /\ is_prefix p o = true) -> new_ok os s (put s p n).
Proof.
  intros Ho q Hq H. destruct (path_eqb p q) eqn:E.
  - apply path_eqb_eq in E. now subst q.
  - rewrite node_put_other in H; [contradiction|]. intros ->. now rewrite path_eqb_refl in E.
Qed.

Lemma mkdirs_from_new os rest : forall s pre s',
  (exists o, In o os /\ is_prefix (pre ++ rest) o = true) ->
  mkdirs_from s pre rest = Some s' -> new_ok os s s'.
Proof.
  induction rest as [|c r IH]; intros s pre s' Ho H; cbn [mkdirs_from] in H.
  - injection H as <-. apply new_ok_refl.
  - assert (Ho' : exists o, In o os /\ is_prefix ((pre ++ [c]) ++ r) o = true) by now rewrite <- app_assoc.
    destruct (lookup s (pre ++ [c])) as [[x| |t]|] eqn:E; try discriminate.
    + eapply IH; eassumption.
    + eapply new_ok_trans; [|eapply IH; eassumption].
      apply new_ok_put. destruct Ho' as [o [Hin Hp]]. exists o. split; [assumption|].
      eapply is_prefix_trans; [apply is_prefix_app | exact Hp].
Qed.
Lemma mkdirs_new os s p s' : (exists o, In o os /\ is_prefix p o = true) -> mkdirs s p = Some s' -> new_ok os s s'.
Proof. intros Ho H. eapply (mkdirs_from_new os p s []); eassumption. Qed.
Lemma mkdirs_parent_new os s p s' : In p os -> mkdirs s (parent p) = Some s' -> new_ok os s s'.
Proof. intros Hin H. eapply mkdirs_new; [|exact H]. exists p. split; [assumption | apply is_prefix_parent]. Qed.

Lemma trunc_create_new os s1 s2 p : In p os -> node s1 p = None \/ node s1 p = Some Dir ->
  trunc_create s1 p = Some s2 -> new_ok os s1 s2.
Proof.
  intros Hin Hn H. unfold trunc_create in H. destruct (is_dir s1 (parent p)); [|discriminate].
  destruct Hn as [Hn|Hn]; rewrite Hn in H; [|discriminate].
  injection H as <-. apply new_ok_put. exists p. split; [assumption | apply is_prefix_refl].
Qed.
Lemma create_new_new os s p s' : In p os -> create_new s p = Some s' -> new_ok os s s'.
Proof.
  intros Hin H. apply create_new_some in H. destruct H as [_ ->].
  apply new_ok_put. exists p. split; [assumption | apply is_prefix_refl].
Qed.
Lemma write_parts_new os parts : forall s, incl parts os -> new_ok os s (fst (write_parts false s parts)).
Proof.
  induction parts as [|p r IH]; intros s Hi; cbn [write_parts create_part]; [apply new_ok_refl|].
  destruct (create_new s p) as [s1|] eqn:E; [|apply new_ok_refl].
  eapply new_ok_trans; [eapply create_new_new; [apply Hi; now left | exact E] | apply IH].
  intros x Hx. apply Hi. now right.
Qed.
Lemma node_unset_none s p q : node s q = None -> node (unset s p) q = None.
Proof.
  destruct q as [|c q]; [discriminate|]. cbn [node]. induction s as [|[r n] s IH]; [reflexivity|].
  cbn [lookup unset]. destruct (path_eqb r (c :: q)) eqn:E; [discriminate|]. intro H.
  destruct (path_eqb r p); [now apply IH|]. cbn [lookup]. rewrite E. now apply IH.
Qed.
Lemma run_parts_new os s head parts : In head os -> incl parts os -> new_ok os s (fst (run_parts false s head parts)).
Proof.
  intros Hh Hi. unfold run_parts. pose proof (write_parts_new os parts s Hi) as Hn.
  destruct (write_parts false s parts) as [s1 ok]. cbn [fst] in Hn. destruct ok; [|exact Hn].
  unfold finish_parts. destruct parts as [|p1 [|p2 r]]; try exact Hn.
  destruct (path_eqb p1 head); [exact Hn|].
  cbn [negb andb]. destruct (lexists s1 head); [exact Hn|].
  destruct (rename s1 p1 head) as [s2|] eqn:Er; cbn [fst]; [|exact Hn].
  eapply new_ok_trans; [exact Hn|].
  unfold rename in Er. destruct (node s1 p1) as [n|]; [|discriminate].
  assert (Hs2 : s2 = put (unset s1 p1) head n).
  { destruct (node s1 head) as [[x| |t]|]; try discriminate;
      (destruct (is_dir s1 (parent head)); [now injection Er as <- | discriminate]). }
  subst s2. intros q Hq H. destruct (path_eqb head q) eqn:E.
  - apply path_eqb_eq in E. subst q. exists head. split; [assumption | apply is_prefix_refl].
  - rewrite node_put_other in H by (intros ->; now rewrite path_eqb_refl in E).
    now rewrite node_unset_none in H.
Qed.

Lemma run_single_new os mk p s : In p os -> new_ok os s (fst (run_single mk false p s)).
Proof.
  intro Hin. unfold run_single. cbn [negb andb]. destruct (lexists s p) eqn:El; [apply new_ok_refl|].
  assert (Hp : node s p = None) by (unfold lexists in El; destruct (node s p); [discriminate | reflexivity]).
  destruct mk.
  - destruct (mkdirs s (parent p)) as [s1|] eqn:Em; [|apply new_ok_refl].
    pose proof (mkdirs_parent_new os _ _ _ Hin Em) as H1.
    destruct (trunc_create s1 p) as [s2|] eqn:Et; cbn [fst]; [|exact H1].
    eapply new_ok_trans; [exact H1|]. eapply trunc_create_new; [exact Hin | | exact Et].
    destruct (mkdirs_nodes _ _ _ Em p) as [H|H]; [left; now rewrite H | now right].
  - destruct (trunc_create s p) as [s2|] eqn:Et; cbn [fst]; [|apply new_ok_refl].
    eapply trunc_create_new; [exact Hin | now left | exact Et].
Qed.
Lemma extract_one_new os s k p : In p os -> new_ok os s (fst (extract_one false s k p)).
Proof.
  intro Hin. unfold extract_one. destruct (sym_anc s p); [apply new_ok_refl|].
  cbn [negb andb]. destruct (lexists s p) eqn:El; [apply new_ok_refl|].
  assert (Hp : node s p = None) by (unfold lexists in El; destruct (node s p); [discriminate | reflexivity]).
  rewrite Hp. destruct (mkdirs s (parent p)) as [s1|] eqn:Em; [|apply new_ok_refl].
  pose proof (mkdirs_parent_new os _ _ _ Hin Em) as H1.
  destruct k.
  - destruct (trunc_create s1 p) as [s2|] eqn:Et; cbn [fst]; [|exact H1].
    eapply new_ok_trans; [exact H1|]. eapply trunc_create_new; [exact Hin | | exact Et].
    destruct (mkdirs_nodes _ _ _ Em p) as [H|H]; [left; now rewrite H | now right].
  - destruct (mkdirs s1 p) as [s2|] eqn:Em2; cbn [fst]; [|exact H1].
    eapply new_ok_trans; [exact H1|]. eapply mkdirs_new; [|exact Em2].
    exists p. split; [assumption | apply is_prefix_refl].
  - destruct (node s1 p) eqn:En; cbn [fst]; [exact H1|].
    eapply new_ok_trans; [exact H1|]. apply new_ok_put. exists p. split; [assumption | apply is_prefix_refl].
Qed.
Lemma extract_all_new os l : forall s err, incl (map snd l) os -> new_ok os s (fst (extract_all false s l err)).
Proof.
  induction l as [|[k p] r IH]; intros s err Hi; cbn [extract_all]; [apply new_ok_refl|].
  pose proof (extract_one_new os s k p (Hi p (or_introl eq_refl))) as H1.
  destruct (extract_one false s k p) as [s1 e]. cbn [fst] in H1.
  eapply new_ok_trans; [exact H1 | apply IH]. intros x Hx. apply Hi. now right.
Qed.

Theorem no_stray : forall c fs0, overwrite c = false ->
  forall q, ~ existed fs0 q -> existed (fst (run c fs0)) q ->
  exists p, In p (map snd (outs c)) /\ is_prefix q p = true.
Proof.
  intros [k ow os] fs0 How q Hq H. cbn [overwrite] in How. subst ow. unfold existed in *.
  assert (Hq' : node fs0 q = None) by (destruct (node fs0 q); [exfalso; apply Hq; discriminate | reflexivity]).
  cbn [outs]. clear Hq. revert q Hq' H.
  change (new_ok (map snd os) fs0 (fst (run {| kind := k; overwrite := false; outs := os |} fs0))).
  unfold run. cbn [kind overwrite outs].
  destruct k; try (destruct os as [|[o p] [|x r]]; try apply new_ok_refl; apply run_single_new; now left).
  - destruct os as [|[o head] parts]; [apply new_ok_refl|]. cbn [map snd].
    unfold run_create_split. cbn [negb andb]. destruct (lexists fs0 head); [apply new_ok_refl|].
    destruct (mkdirs fs0 (parent head)) as [s1|] eqn:Em; [|apply new_ok_refl].
    eapply new_ok_trans; [eapply mkdirs_parent_new; [now left | exact Em]|].
    apply run_parts_new; [now left | intros x Hx; now right].
  - destruct os as [|[o head] parts]; [apply new_ok_refl|]. cbn [map snd].
    unfold run_split. destruct (mkdirs fs0 (parent head)) as [s1|] eqn:Em; [|apply new_ok_refl].
    pose proof (mkdirs_parent_new (head :: map snd parts) _ _ _ (or_introl eq_refl) Em) as H1.
    destruct (map snd parts) as [|p1 r] eqn:Ep; [exact H1|].
    cbn [negb andb]. destruct (exists_follow s1 p1); [exact H1|].
    eapply new_ok_trans; [exact H1|]. apply run_parts_new; [now left | intros x Hx; now right].
  - unfold run_extract. pose proof (extract_all_new (map snd os) os fs0 false (incl_refl _)) as H1.
    destruct (extract_all false fs0 os false) as [s1 e]. exact H1.
  - unfold run_extract. pose proof (extract_all_new (map snd os) os fs0 false (incl_refl _)) as H1.
    destruct (extract_all false fs0 os false) as [s1 e]. exact H1.
Qed.

(* ---- `pna split x.part1.pna --out-dir o` whose whole output is ONE part (fix 067bc08d) -------------------------------
   the part is o/x.part1.pna, the very name the finished archive gets: head = first part.  finish_parts then has nothing
   to do; between 36c3adfe and 067bc08d its existence test saw the part this run had just written and refused the run
   after the output was complete, in a clean directory *)
Lemma mkdirs_from_dir rest : forall s pre s', mkdirs_from s pre rest = Some s' -> node s pre = Some Dir ->
  node s' (pre ++ rest) = Some Dir.
Proof.
  induction rest as [|c r IH]; intros s pre s' H Hd; cbn [mkdirs_from] in H.
  - injection H as <-. rewrite app_nil_r. exact Hd.
  - replace (pre ++ c :: r) with ((pre ++ [c]) ++ r) by (rewrite <- app_assoc; reflexivity).
    assert (Hq : pre ++ [c] <> []) by (destruct pre; discriminate).
    destruct (lookup s (pre ++ [c])) as [[x| |t]|] eqn:L; try discriminate.
    + apply (IH _ _ _ H). destruct (pre ++ [c]) eqn:E; [contradiction|]. cbn [node]. exact L.
    + apply (IH _ _ _ H). apply node_put_same. exact Hq.
Qed.
Lemma path_eqb_length a : forall b, path_eqb a b = true -> length a = length b.
Proof. intros b H. apply path_eqb_eq in H. subst. reflexivity. Qed.
Lemma mkdirs_from_longer rest : forall s pre s' q, mkdirs_from s pre rest = Some s' ->
  (length pre + length rest < length q)%nat -> node s' q = node s q.
Proof.
  induction rest as [|c r IH]; intros s pre s' q H Hl; cbn [mkdirs_from] in H.
  - injection H as <-. reflexivity.
  - assert (Hl' : (length (pre ++ [c]) + length r < length q)%nat) by (rewrite app_length; cbn [length] in *; lia).
    destruct (lookup s (pre ++ [c])) as [[x| |t]|] eqn:L; try discriminate.
    + exact (IH _ _ _ _ H Hl').
    + rewrite (IH _ _ _ _ H Hl'). apply node_put_other. intros E. rewrite E in Hl'. lia.
Qed.
Lemma length_parent p : p <> [] -> (length (parent p) < length p)%nat.
Proof.
  intros H. unfold parent. destruct (@exists_last _ p H) as (l & x & ->). rewrite removelast_last, app_length. cbn. lia.
Qed.

(* a run into a clean place succeeds: nothing at the output path, the output directory can be made => exit 0 and the
   part is there, under the archive's name *)
Theorem split_selfnamed_clean head fs0 : head <> [] -> ~ existed fs0 head ->
  (exists s1, mkdirs fs0 (parent head) = Some s1) ->
  let c := {| kind := Split; overwrite := false; outs := [(OFile, head); (OFile, head)] |} in
  snd (run c fs0) = 0 /\ node (fst (run c fs0)) head = Some (File new_content) /\
  (forall p, existed fs0 p -> node (fst (run c fs0)) p = node fs0 p).
Proof.
  intros NE Hn (s1 & Em) c.
  assert (N0 : node fs0 head = None) by (unfold existed in Hn; destruct (node fs0 head); [exfalso; apply Hn; discriminate|reflexivity]).
  assert (N1 : node s1 head = None).
  { rewrite <- N0. unfold mkdirs in Em. apply (mkdirs_from_longer _ _ _ _ _ Em). cbn [length]. apply length_parent. exact NE. }
  assert (D1 : is_dir s1 (parent head) = true).
  { unfold is_dir. unfold mkdirs in Em. pose proof (mkdirs_from_dir _ _ _ _ Em eq_refl) as Hd. cbn [app] in Hd.
    rewrite Hd. reflexivity. }
  assert (R : run c fs0 = (put s1 head (File new_content), 0)).
  { unfold run, c. cbn [kind overwrite outs map snd]. unfold run_split. rewrite Em. cbn [negb andb].
    unfold exists_follow. rewrite N1. unfold run_parts. cbn [write_parts create_part]. unfold create_new. rewrite D1, N1.
    unfold finish_parts. rewrite path_eqb_refl. reflexivity. }
  split; [rewrite R; reflexivity|]. split; [rewrite R; cbn [fst]; apply node_put_same; exact NE|].
  intros p Hp. apply no_clobber; [reflexivity|exact Hp].
Qed.

(* the same run on the code between 36c3adfe and 067bc08d: no object at any output path, and exit 1 *)
Definition sn_head : path := [lit "o"; lit "x.part1.pna"].
Lemma split_selfnamed_unrepaired :
  sn_head <> [] /\ ~ existed [] sn_head /\ (exists s1, mkdirs [] (parent sn_head) = Some s1) /\
  (forall p, In p (outputs {| kind := Split; overwrite := false; outs := [(OFile, sn_head); (OFile, sn_head)] |}) -> ~ existed [] p) /\
  snd (run_split_orig false sn_head [sn_head] []) = 1 /\
  snd (run_split false sn_head [sn_head] []) = 0.
Proof.
  split; [discriminate|]. split; [intro H; apply H; reflexivity|]. split; [eexists; vm_compute; reflexivity|].
  split; [|split; vm_compute; reflexivity].
  intros p Hp H. cbn in Hp. destruct Hp as [<-|[<-|[]]]; apply H; reflexivity.
Qed.
