(* CtrSinkFacts.v — Model/Sinks.v: the cipher writers over a sink that may take only part of a write.

   StreamCipherWriter::write encrypts the WHOLE buffer (the keystream position advances by buf.len()) and returns
   the count of the writer below.  That is only correct if the writer below takes whole writes:
     (a) ctrw_write_sink_whole / ctrw_write_all_whole / ctrw_write_alls_whole: over a sink with take n = n the
         writer of Sinks.v IS Ctr.ctrw_write (one inner write, count len d), write_all is one call, and a caller
         that write_all's ws delivers ctr_xor k iv pos (concat ws): Ctr.ctrw_writes on the non-empty writes;
     (b) chunk_sink_call_* / flat_sink_call_* / chunk_call_bytes_spec: the two sinks of the crate return len d for
         EVERY d and bound, and what they hand on carries exactly those bytes (as well-formed chunks of the type);
     (c) ctr_over_chunk_sink_spec: the composition is a transport of ctr_xor, which the right key undoes;
     (d) ctrw_write_all_short_then_whole: a sink that takes 0 < t < len d of a write gets the tail encrypted at
         position pos + len d instead of pos + t, and every later byte is off too; the right key reads the data
         back only if the two keystream stretches coincide (ctr_short_sink_reads_back_iff);
         ctr_short_sink_refuted: toy cipher, cap 1, three bytes — delivered <> ctr_xor, the right key misreads;
     (e) the CBC writer hands every block on with write_all: over ANY sink that makes progress the delivered
         stream is the stream of a whole-taking sink, counts and state the same (cbcw_write_sink_copes,
         cbc_short_sink_transport); a sink that takes nothing is a reported error (deliver_all_zero). *)
From PNA Require Import Base Crc32 Codec Chunk Flatten Cbc Ctr Pipeline Sinks.
From PNA Require Import BaseFacts ChunkFacts PiecesFacts FlattenFacts CbcFacts CtrFacts PipelineFacts.
Require Import ZArith ZifyN ZifyNat ZifyBool Lia.
Open Scope N_scope.

Definition takes_whole (take : N -> N) : Prop := forall n, take n = n.
Definition makes_progress (take : N -> N) : Prop := forall n, 0 < n -> 0 < take n.

Lemma take_whole_whole : takes_whole take_whole.
Proof. intro n. reflexivity. Qed.
Lemma accept_whole take n : takes_whole take -> accept take n = n.
Proof. intros H. unfold accept. rewrite H. lia. Qed.
Lemma accept_le take n : accept take n <= n.
Proof. unfold accept. lia. Qed.
Lemma accept_progress take n : makes_progress take -> 0 < n -> 0 < accept take n.
Proof. intros H Hn. unfold accept. specialize (H n Hn). lia. Qed.
Lemma whole_progress take : takes_whole take -> makes_progress take.
Proof. intros H n Hn. rewrite H. exact Hn. Qed.
Lemma take_cap_progress c : 0 < c -> makes_progress (take_cap c).
Proof. intros Hc n Hn. unfold take_cap. lia. Qed.

Lemma len_nil {A} : len (@nil A) = 0.
Proof. reflexivity. Qed.
Lemma len_pos {A} (l : list A) : l <> [] -> 0 < len l.
Proof. destruct l; [contradiction|]. intros _. rewrite len_cons. lia. Qed.
Lemma firstn_len_all {A} (l : list A) : firstn (N.to_nat (len l)) l = l.
Proof. unfold len. rewrite Nat2N.id. apply firstn_all. Qed.
Lemma skipn_len_all {A} (l : list A) : skipn (N.to_nat (len l)) l = [].
Proof. unfold len. rewrite Nat2N.id. apply skipn_all. Qed.

(* ---- write_all on a plain sink ---------------------------------------------------------------------------- *)
Lemma sink_write_all_spec take : makes_progress take -> forall fuel b, (length b <= fuel)%nat ->
  exists ps, sink_write_all take fuel b = Ok ps /\ concat ps = b /\ Forall (fun p => p <> []) ps.
Proof.
  intros Hp. induction fuel as [|f IH]; intros b Hf.
  - destruct b; [|cbn in Hf; lia]. exists []. repeat split. constructor.
  - destruct b as [|x b]; [exists []; repeat split; constructor|].
    cbn [sink_write_all]. set (d := x :: b) in *.
    pose proof (accept_progress take (len d) Hp (len_pos d ltac:(discriminate))) as Ht.
    pose proof (accept_le take (len d)) as Hle.
    destruct (N.eqb_spec (accept take (len d)) 0) as [Z|_]; [lia|].
    destruct (IH (skipn (N.to_nat (accept take (len d))) d)) as (ps & E & C & F).
    { rewrite skipn_length. unfold len in *. cbn [length] in *. lia. }
    rewrite E. cbn [bind]. eexists. split; [reflexivity|]. split.
    + cbn [concat]. rewrite C. apply firstn_skipn.
    + constructor; [|exact F]. intro Z. apply (f_equal (@length byte)) in Z. rewrite firstn_length in Z.
      unfold len in *. cbn [length] in *. lia.
Qed.

Lemma sink_write_all_whole take b : takes_whole take -> b <> [] -> sink_write_all take (length b) b = Ok [b].
Proof.
  intros H Hb. destruct b as [|x b]; [contradiction|]. cbn [length sink_write_all].
  rewrite (accept_whole take _ H). destruct (N.eqb_spec (len (x :: b)) 0) as [Z|_]; [rewrite len_cons in Z; lia|].
  rewrite skipn_len_all, firstn_len_all. destruct (length b); reflexivity.
Qed.

Lemma sink_write_all_zero take fuel b : b <> [] -> accept take (len b) = 0 -> sink_write_all take (S fuel) b = Err OtherErr.
Proof. intros Hb Z. destruct b; [contradiction|]. cbn [sink_write_all]. rewrite Z. reflexivity. Qed.

(* ---- the sinks of the crate take whole writes ------------------------------------------------------------- *)
Lemma chunk_sink_call_count cmax d : fst (chunk_sink_call cmax d) = len d /\ fst (chunk_sink_call cmax d) = accept take_whole (len d).
Proof. rewrite (accept_whole _ _ take_whole_whole). split; reflexivity. Qed.
Lemma chunk_sink_call_carries cmax d : 0 < cmax ->
  concat (snd (chunk_sink_call cmax d)) = d /\ len (concat (snd (chunk_sink_call cmax d))) = fst (chunk_sink_call cmax d) /\
  Forall (fun q => len q <= cmax) (snd (chunk_sink_call cmax d)) /\ snd (chunk_sink_call cmax d) <> [].
Proof.
  intros K. cbn [chunk_sink_call fst snd]. rewrite sink_write_concat by exact K.
  repeat split; [apply sink_write_bounded; exact K|apply sink_write_nonnil; exact K].
Qed.
Lemma chunk_sink_at_calls cmax ps : chunk_sink_at cmax ps = concat (map (fun d => snd (chunk_sink_call cmax d)) ps).
Proof. unfold chunk_sink_at. rewrite flat_map_concat_map. reflexivity. Qed.

Lemma flat_sink_call_count cmax d : fst (flat_sink_call cmax d) = len d /\ fst (flat_sink_call cmax d) = accept take_whole (len d).
Proof. rewrite (accept_whole _ _ take_whole_whole). split; reflexivity. Qed.
Lemma flat_sink_call_carries cmax d : 0 < cmax ->
  concat (snd (flat_sink_call cmax d)) = d /\ len (concat (snd (flat_sink_call cmax d))) = fst (flat_sink_call cmax d) /\
  Forall (fun q => q <> [] /\ len q <= cmax) (snd (flat_sink_call cmax d)).
Proof.
  intros K. cbn [flat_sink_call fst snd]. rewrite pieces_concat by exact K.
  repeat split. apply pieces_bounded. exact K.
Qed.
Lemma flat_sink_at_calls cmax ps : flat_sink_at cmax ps = concat (map (fun d => snd (flat_sink_call cmax d)) ps).
Proof. unfold flat_sink_at. rewrite flat_map_concat_map. reflexivity. Qed.
(* the FlattenWriter model of the first round (Flatten.flatten_write, nat bound) returns the same count *)
Lemma flatten_write_count n s d : snd (flatten_write n s d) = len d.
Proof. reflexivity. Qed.

(* what reaches the writer below a ChunkStreamWriter of a 4-byte type, for the code's bound: well-formed chunks of
   that type (each is read back by read_chunk_stream: ChunkFacts.read_chunk_ser) whose payloads are the write *)
Lemma chunk_call_bytes_spec ty d : length ty = 4%nat ->
  exists cs, chunk_call_bytes ty CMAX d = (len d, ser_chunks cs) /\ cs <> [] /\
    Forall (fun c => wf_chunk c /\ cty c = ty) cs /\ concat (map cdata cs) = d.
Proof.
  intros Hty. exists (map (mk ty) (sink_write CMAX d)). unfold chunk_call_bytes, chunk_sink_call.
  split; [reflexivity|]. split; [|split].
  - pose proof (sink_write_nonnil CMAX d CMAX_pos). destruct (sink_write CMAX d); [contradiction|discriminate].
  - apply Forall_map. eapply Forall_impl; [|exact (sink_write_bounded CMAX d CMAX_pos)].
    intros q Hq. cbn [mk cty cdata]. split; [split; [exact Hty|apply CMAX_lt; exact Hq]|reflexivity].
  - rewrite map_map. cbn [mk cdata]. rewrite map_id. apply sink_write_concat, CMAX_pos.
Qed.

(* ---- the CTR writer ---------------------------------------------------------------------------------------- *)
Section CTRS.
Variable E : bytes -> bytes -> bytes.

Definition adv (s : ctrw) (n : N) : ctrw := {| cw_key := cw_key s; cw_iv := cw_iv s; cw_pos := cw_pos s + n |}.
Definition ks (s : ctrw) (p : N) (d : bytes) : bytes := ctr_xor E (cw_key s) (cw_iv s) p d.

Lemma adv_0 s : adv s 0 = s.
Proof. destruct s. unfold adv. cbn. rewrite N.add_0_r. reflexivity. Qed.
Lemma adv_adv s a b : adv (adv s a) b = adv s (a + b).
Proof. unfold adv. cbn. rewrite N.add_assoc. reflexivity. Qed.

Lemma ctrw_write_eq s d : ctrw_write E s d = (adv s (len d), [ks s (cw_pos s) d], len d).
Proof. reflexivity. Qed.

(* (a) one call: over a whole-taking sink this is Ctr.ctrw_write, for every d (the empty one too) *)
Lemma ctrw_write_sink_whole take s d : takes_whole take ->
  ctrw_write_sink E take s d = (adv s (len d), ks s (cw_pos s) d, len d) /\
  ctrw_write E s d = (fst (fst (ctrw_write_sink E take s d)), [snd (fst (ctrw_write_sink E take s d))], snd (ctrw_write_sink E take s d)).
Proof.
  intros H. unfold ctrw_write_sink. rewrite (accept_whole take _ H).
  replace (N.to_nat (len d)) with (length (ctr_xor E (cw_key s) (cw_iv s) (cw_pos s) d))
    by (rewrite ctr_xor_length; unfold len; lia).
  rewrite firstn_all. split; reflexivity.
Qed.

(* write_all of a non-empty buffer is one call *)
Lemma ctrw_write_all_whole take s d fuel : takes_whole take -> d <> [] ->
  ctrw_write_all E take (S fuel) s d = Ok (adv s (len d), [ks s (cw_pos s) d]) /\
  ctrw_write_all E take (S fuel) s d = Ok (fst (fst (ctrw_write E s d)), snd (fst (ctrw_write E s d))).
Proof.
  intros H Hd. assert (A : ctrw_write_all E take (S fuel) s d = Ok (adv s (len d), [ks s (cw_pos s) d])).
  { destruct d as [|x d]; [contradiction|]. cbn [ctrw_write_all].
    destruct (ctrw_write_sink_whole take s (x :: d) H) as [-> _].
    destruct (N.eqb_spec (len (x :: d)) 0) as [Z|_]; [rewrite len_cons in Z; lia|].
    rewrite skipn_len_all. destruct fuel; reflexivity. }
  split; [exact A|]. rewrite A. reflexivity.
Qed.
Lemma ctrw_write_all_nil take s fuel : ctrw_write_all E take fuel s [] = Ok (s, []).
Proof. destruct fuel; reflexivity. Qed.

(* a caller that hands over ws with write_all: the inner writes are the encrypted non-empty writes, one each *)
Fixpoint enc_at (s : ctrw) (ws : list bytes) : list bytes :=
  match ws with
  | [] => []
  | d :: r => match d with [] => enc_at s r | _ => ks s (cw_pos s) d :: enc_at (adv s (len d)) r end
  end.
Lemma enc_at_concat : forall ws s, concat (enc_at s ws) = ks s (cw_pos s) (concat ws).
Proof.
  induction ws as [|d r IH]; intros s; cbn [enc_at concat]; [reflexivity|].
  destruct d as [|x d]; [cbn [app]; apply IH|]. cbn [concat]. rewrite IH. unfold ks. cbn [adv cw_key cw_iv cw_pos].
  rewrite (ctr_xor_app E). reflexivity.
Qed.
Lemma ctrw_write_alls_whole take : takes_whole take -> forall ws s,
  ctrw_write_alls E take s ws = Ok (adv s (len (concat ws)), enc_at s ws).
Proof.
  intros H. induction ws as [|d r IH]; intros s; cbn [ctrw_write_alls enc_at concat].
  - rewrite len_nil, adv_0. reflexivity.
  - destruct d as [|x d].
    + cbn [length ctrw_write_all bind app]. rewrite IH. reflexivity.
    + cbn [length]. destruct (ctrw_write_all_whole take s (x :: d) (length d) H ltac:(discriminate)) as [-> _].
      cbn [bind]. rewrite IH. cbn [bind]. rewrite adv_adv, <- len_app. reflexivity.
Qed.
(* ... which is Ctr.ctrw_writes (the model the C01 / C16 theorems are about) on the non-empty writes *)
Lemma ctrw_writes_enc_at : forall ws s, Forall (fun d => d <> []) ws ->
  ctrw_writes E s ws = (adv s (len (concat ws)), map (fun o => (len o, [o])) (enc_at s ws)).
Proof.
  induction ws as [|d r IH]; intros s F; cbn [ctrw_writes enc_at concat map].
  - rewrite len_nil, adv_0. reflexivity.
  - inversion F as [|? ? Hd Fr]; subst. destruct d as [|x d]; [contradiction|].
    rewrite ctrw_write_eq, IH by exact Fr. cbn [map]. rewrite adv_adv, len_app. unfold ks. rewrite ctr_xor_len. reflexivity.
Qed.
Theorem ctrw_write_alls_is_ctrw_writes take ws s : takes_whole take -> Forall (fun d => d <> []) ws ->
  exists s' calls, ctrw_writes E s ws = (s', calls) /\
    ctrw_write_alls E take s ws = Ok (s', concat (map snd calls)) /\ map fst calls = map len ws.
Proof.
  intros H F. eexists. eexists. split; [apply ctrw_writes_enc_at; exact F|]. split.
  - rewrite (ctrw_write_alls_whole take H). do 2 f_equal. rewrite map_map. cbn [snd].
    induction (enc_at s ws) as [|o l IHl]; [reflexivity|]. cbn [map concat app]. rewrite <- IHl. reflexivity.
  - destruct (ctrw_writes_spec E ws s _ _ (ctrw_writes_enc_at ws s F)) as (_ & B & _). exact B.
Qed.
Theorem ctrw_write_alls_transport take ws s : takes_whole take ->
  exists s' outs, ctrw_write_alls E take s ws = Ok (s', outs) /\
    concat outs = ctr_xor E (cw_key s) (cw_iv s) (cw_pos s) (concat ws) /\
    cw_key s' = cw_key s /\ cw_iv s' = cw_iv s /\ cw_pos s' = cw_pos s + len (concat ws).
Proof.
  intros H. eexists. eexists. split; [apply (ctrw_write_alls_whole take H)|]. split; [apply enc_at_concat|].
  repeat split.
Qed.

(* with empty writes among ws: write_all makes no call for them, Ctr.ctrw_writes (a `write` per element) hands an
   empty buffer on; the non-empty inner writes are the same *)
Lemma ks_ne s p d : d <> [] -> ne (ks s p d) = true.
Proof. destruct d; [contradiction|]. reflexivity. Qed.
Lemma ctrw_writes_filter : forall ws s,
  fst (ctrw_writes E s ws) = adv s (len (concat ws)) /\
  filter ne (concat (map snd (snd (ctrw_writes E s ws)))) = enc_at s ws.
Proof.
  induction ws as [|d r IH]; intros s; cbn [ctrw_writes enc_at concat map].
  - rewrite len_nil, adv_0. split; reflexivity.
  - rewrite ctrw_write_eq. destruct (ctrw_writes E (adv s (len d)) r) as [s2 rest] eqn:E2.
    destruct (IH (adv s (len d))) as [A B]. rewrite E2 in A, B. cbn [fst snd] in *. cbn [map snd concat app filter].
    split; [rewrite A, adv_adv, len_app; reflexivity|].
    destruct d as [|x d].
    + cbn [ks ctr_xor ne]. rewrite B. unfold len. cbn [length]. change (N.of_nat 0) with 0. rewrite adv_0. reflexivity.
    + rewrite ks_ne by discriminate. rewrite B. reflexivity.
Qed.
Theorem ctrw_write_alls_filter take ws s : takes_whole take ->
  ctrw_write_alls E take s ws = Ok (fst (ctrw_writes E s ws), filter ne (concat (map snd (snd (ctrw_writes E s ws))))).
Proof. intros H. destruct (ctrw_writes_filter ws s) as [-> ->]. apply (ctrw_write_alls_whole take H). Qed.

(* (c) StreamCipherWriter over ChunkStreamWriter, for every bound: a transport of ctr_xor that the same key undoes *)
Theorem ctr_over_chunk_sink_spec cmax ws s : 0 < cmax ->
  exists s' cs, ctr_over_chunk_sink E cmax s ws = Ok (s', cs) /\
    concat cs = ctr_xor E (cw_key s) (cw_iv s) (cw_pos s) (concat ws) /\
    ctr_xor E (cw_key s) (cw_iv s) (cw_pos s) (concat cs) = concat ws /\
    Forall (fun q => len q <= cmax) cs /\ cw_pos s' = cw_pos s + len (concat ws).
Proof.
  intros K. unfold ctr_over_chunk_sink. rewrite (ctrw_write_alls_whole take_whole take_whole_whole). cbn [bind].
  eexists. eexists. split; [reflexivity|].
  assert (C : concat (chunk_sink_at cmax (enc_at s ws)) = ctr_xor E (cw_key s) (cw_iv s) (cw_pos s) (concat ws))
    by (rewrite chunk_sink_at_concat by exact K; apply enc_at_concat).
  split; [exact C|]. split; [rewrite C; apply ctr_xor_invol|]. split; [apply chunk_sink_at_bounded; exact K|reflexivity].
Qed.

(* (d) a sink that takes only t of the first call and the whole re-submitted tail *)
Lemma ctr_xor_firstn_skipn k iv p d t : (t <= length d)%nat ->
  ctr_xor E k iv p d = firstn t (ctr_xor E k iv p d) ++ ctr_xor E k iv (p + N.of_nat t) (skipn t d).
Proof.
  intros Ht. set (a := firstn t d). set (b := skipn t d).
  assert (Hd : d = a ++ b) by (symmetry; apply firstn_skipn).
  assert (La : length a = t) by (unfold a; rewrite firstn_length; lia).
  rewrite Hd. rewrite (ctr_xor_app E). unfold len. rewrite La. f_equal.
  rewrite firstn_app, ctr_xor_length, La, Nat.sub_diag. cbn [firstn]. rewrite app_nil_r.
  rewrite firstn_all2; [reflexivity|]. rewrite ctr_xor_length. lia.
Qed.

Theorem ctrw_write_all_short_then_whole take s d t : 0 < t < len d ->
  take (len d) = t -> take (len d - t) = len d - t ->
  ctrw_write_all E take (length d) s d =
    Ok (adv s (len d + (len d - t)),
        [firstn (N.to_nat t) (ks s (cw_pos s) d); ks s (cw_pos s + len d) (skipn (N.to_nat t) d)]) /\
  ks s (cw_pos s) d = firstn (N.to_nat t) (ks s (cw_pos s) d) ++ ks s (cw_pos s + t) (skipn (N.to_nat t) d).
Proof.
  intros Ht T1 T2. split.
  - destruct d as [|x d]; [unfold len in Ht; cbn [length] in Ht; lia|]. set (dd := x :: d) in *.
    assert (Hl : length dd = S (length d)) by reflexivity. rewrite Hl. cbn [ctrw_write_all]. fold dd.
    unfold ctrw_write_sink at 1. unfold accept. rewrite T1. replace (N.min t (len dd)) with t by lia.
    destruct (N.eqb_spec t 0) as [Z|_]; [lia|].
    set (tl := skipn (N.to_nat t) dd).
    assert (Ltl : len tl = len dd - t) by (unfold tl, len in *; rewrite skipn_length; lia).
    assert (Ntl : tl <> []) by (intro Z; rewrite Z, len_nil in Ltl; lia).
    destruct tl as [|y tl'] eqn:Etl; [contradiction|]. rewrite <- Etl in *.
    destruct (length d) as [|f] eqn:Ld.
    { exfalso. unfold len in *. rewrite Hl in *. lia. }
    cbn [ctrw_write_all]. rewrite Etl. rewrite <- Etl.
    unfold ctrw_write_sink. cbn [cw_key cw_iv cw_pos]. unfold accept. rewrite Ltl, T2.
    replace (N.min (len dd - t) (len dd - t)) with (len tl) by lia.
    destruct (N.eqb_spec (len tl) 0) as [Z|_]; [lia|].
    rewrite skipn_len_all. rewrite ctrw_write_all_nil. cbn [bind].
    replace (N.to_nat (len tl)) with (length (ctr_xor E (cw_key s) (cw_iv s) (cw_pos s + len dd) tl))
      by (rewrite ctr_xor_length; unfold len; lia).
    rewrite firstn_all. unfold adv, ks. cbn [cw_key cw_iv cw_pos]. rewrite <- Ltl, N.add_assoc. reflexivity.
  - unfold ks. rewrite (ctr_xor_firstn_skipn (cw_key s) (cw_iv s) (cw_pos s) d (N.to_nat t)) at 1 by (unfold len in *; lia).
    rewrite N2Nat.id. reflexivity.
Qed.

(* a sink that takes at most c bytes per call (seeded/C16-7: c = 65536) and a write of c+1 .. 2c bytes *)
Corollary ctrw_cap_sink_misplaces c s d : 0 < c < len d -> len d <= 2 * c ->
  ctrw_write_all E (take_cap c) (length d) s d =
    Ok (adv s (len d + (len d - c)),
        [firstn (N.to_nat c) (ks s (cw_pos s) d); ks s (cw_pos s + len d) (skipn (N.to_nat c) d)]) /\
  ks s (cw_pos s) d = firstn (N.to_nat c) (ks s (cw_pos s) d) ++ ks s (cw_pos s + c) (skipn (N.to_nat c) d).
Proof. intros H1 H2. apply ctrw_write_all_short_then_whole; [exact H1| |]; unfold take_cap; lia. Qed.

(* the keystream applied again at the reader's positions: the data come back iff the two stretches coincide *)
Lemma ctr_xor_inj k iv p a b : ctr_xor E k iv p a = ctr_xor E k iv p b -> a = b.
Proof. intros H. apply (f_equal (ctr_xor E k iv p)) in H. rewrite !ctr_xor_invol in H. exact H. Qed.
Theorem ctr_short_sink_reads_back_iff s d t : 0 < t < len d ->
  let delivered := firstn (N.to_nat t) (ks s (cw_pos s) d) ++ ks s (cw_pos s + len d) (skipn (N.to_nat t) d) in
  ks s (cw_pos s) delivered = d <->
  ks s (cw_pos s + len d) (skipn (N.to_nat t) d) = ks s (cw_pos s + t) (skipn (N.to_nat t) d).
Proof.
  intros Ht delivered. unfold delivered, ks.
  pose proof (ctr_xor_firstn_skipn (cw_key s) (cw_iv s) (cw_pos s) d (N.to_nat t) ltac:(unfold len in *; lia)) as S0.
  rewrite N2Nat.id in S0. split.
  - intros H. apply (f_equal (ctr_xor E (cw_key s) (cw_iv s) (cw_pos s))) in H. rewrite ctr_xor_invol in H.
    rewrite S0 in H at 2. apply app_inv_head in H. exact H.
  - intros H. rewrite H, <- S0. apply ctr_xor_invol.
Qed.
End CTRS.

(* ---- the pipeline's CTR branch is the instance ------------------------------------------------------------- *)
(* Pipeline.cwrite (what the C01 / C16 / C14 theorems are about) in CTR mode = the CTR writer of Sinks.v over any
   whole-taking sink, driven with write_all: the same non-empty inner writes (the builders' FlattenWriter drops
   empty ones anyway: flat_sink_at_filter_ne) *)
Theorem cwrite_ctr_is_write_alls (E : encryption -> bytes -> bytes -> bytes) take cfg ctx ws :
  takes_whole take -> g_enc cfg <> ENo -> g_mode cfg = MCtr ->
  exists s', ctrw_write_alls (E (g_enc cfg)) take {| cw_key := c_key ctx; cw_iv := of_be (c_iv ctx); cw_pos := 0 |} ws
             = Ok (s', filter ne (cwrite E cfg ctx ws)).
Proof.
  intros H He Hm. unfold cwrite. rewrite Hm.
  set (s0 := {| cw_key := c_key ctx; cw_iv := of_be (c_iv ctx); cw_pos := 0 |}).
  pose proof (ctrw_write_alls_filter (E (g_enc cfg)) take ws s0 H) as W.
  destruct (g_enc cfg) eqn:Ee; [contradiction| |];
    (destruct (ctrw_writes _ s0 ws) as [s' calls] eqn:Ew; cbn [fst snd] in W; exists s'; exact W).
Qed.
Lemma flat_sink_at_filter_ne cmax ps : flat_sink_at cmax (filter ne ps) = flat_sink_at cmax ps.
Proof.
  unfold flat_sink_at. induction ps as [|p ps IH]; [reflexivity|]. cbn [filter flat_map].
  destruct p as [|x p]; cbn [ne]; [rewrite pieces_nil; exact IH|]. cbn [flat_map]. rewrite IH. reflexivity.
Qed.

(* the concrete witness: toy cipher, key 1..32, iv 0, the sink takes one byte per call, the caller write_all's 3 bytes *)
Definition wit_key : bytes := map (fun i => n2b (N.of_nat i)) (seq 1 32).
Definition wit_s : ctrw := {| cw_key := wit_key; cw_iv := 0; cw_pos := 0 |}.
Definition wit_d : bytes := [x61; x62; x63].
Theorem ctr_short_sink_refuted :
  ctrw_new wit_key (repeat x00 16) = Ok wit_s /\
  exists s' outs, ctrw_write_all toy_E (take_cap 1) (length wit_d) wit_s wit_d = Ok (s', outs) /\
    map len outs = [1; 1; 1] /\ cw_pos s' = 6 /\
    concat outs <> ctr_xor toy_E wit_key 0 0 wit_d /\
    ctr_xor toy_E wit_key 0 0 (concat outs) <> wit_d /\
    (* the same caller over a whole-taking sink *)
    ctrw_write_all toy_E take_whole (length wit_d) wit_s wit_d = Ok ({| cw_key := wit_key; cw_iv := 0; cw_pos := 3 |}, [ctr_xor toy_E wit_key 0 0 wit_d]).
Proof.
  split; [vm_compute; reflexivity|]. eexists. eexists. split; [vm_compute; reflexivity|].
  split; [vm_compute; reflexivity|]. split; [vm_compute; reflexivity|].
  split; [vm_compute; discriminate|]. split; [vm_compute; discriminate|]. vm_compute. reflexivity.
Qed.

(* C16: what the writer hands to the chunk sink, read with the same key and IV, is what was written *)
Theorem ctr_chunk_sink_roundtrip (E : bytes -> bytes -> bytes) key iv ws cmax s0 ns : 0 < cmax -> ctrw_new key iv = Ok s0 ->
  exists s' cs st, ctr_over_chunk_sink E cmax s0 ws = Ok (s', cs) /\ ctrr_new key iv cs = Ok st /\
    (exists rest, concat ws = concat (ctrr_read_seq E st ns) ++ rest) /\
    (Forall (fun n => 0 < n) ns -> In [] (ctrr_read_seq E st ns) -> concat (ctrr_read_seq E st ns) = concat ws).
Proof.
  intros K Hnew. destruct (ctr_over_chunk_sink_spec E cmax ws s0 K) as (s' & cs & Ho & C & _).
  destruct (ctrw_writes E s0 ws) as [s2 calls] eqn:Ew.
  destruct (ctrw_writes_spec E ws s0 s2 calls Ew) as (A & _).
  destruct (ctr_roundtrip E key iv ws s0 s2 calls cs ns Hnew Ew) as (st & Hst & Hpre & _ & Hall).
  { rewrite A, C. reflexivity. }
  exists s', cs, st. split; [exact Ho|]. split; [exact Hst|]. split; [exact Hpre|exact Hall].
Qed.

(* ... and over the one-byte sink of the refutation the right key reads other bytes *)
Theorem ctr_short_sink_right_key_misreads :
  exists s' outs st, ctrw_write_all toy_E (take_cap 1) (length wit_d) wit_s wit_d = Ok (s', outs) /\
    ctrr_new wit_key (repeat x00 16) outs = Ok st /\
    In [] (ctrr_read_seq toy_E st [16; 16; 16; 16]) /\
    len (concat (ctrr_read_seq toy_E st [16; 16; 16; 16])) = len wit_d /\
    concat (ctrr_read_seq toy_E st [16; 16; 16; 16]) <> wit_d.
Proof.
  do 3 eexists. split; [vm_compute; reflexivity|]. split; [vm_compute; reflexivity|].
  split; [vm_compute; tauto|]. split; [vm_compute; reflexivity|]. vm_compute. discriminate.
Qed.

(* ---- (e) the CBC writer: every block leaves through write_all ---------------------------------------------- *)
Section CBCS.
Variable E : bytes -> bytes -> bytes.

Lemma deliver_all_spec take : makes_progress take -> forall outs,
  exists p, deliver_all take outs = Ok p /\ concat p = concat outs.
Proof.
  intros Hp. induction outs as [|b r (q & Eq & Cq)]; [exists []; split; reflexivity|].
  cbn [deliver_all]. destruct (sink_write_all_spec take Hp (length b) b (le_n _)) as (ps & Eb & Cb & _).
  rewrite Eb, Eq. cbn [bind]. eexists. split; [reflexivity|]. rewrite concat_app, Cb, Cq. reflexivity.
Qed.
Lemma deliver_all_whole take : takes_whole take -> forall outs, deliver_all take outs = Ok (filter ne outs).
Proof.
  intros H. induction outs as [|b r IH]; [reflexivity|]. cbn [deliver_all filter]. rewrite IH.
  destruct b as [|x b]; [reflexivity|]. rewrite (sink_write_all_whole take (x :: b) H) by discriminate. reflexivity.
Qed.
(* a sink that takes nothing: the block's write_all fails (WriteZero), and so does the call that made it *)
Lemma deliver_all_zero take b r : b <> [] -> accept take (len b) = 0 -> deliver_all take (b :: r) = Err OtherErr.
Proof.
  intros Hb Z. cbn [deliver_all]. destruct b as [|x b]; [contradiction|]. cbn [length].
  rewrite (sink_write_all_zero take (length b) (x :: b)) by (discriminate || exact Z). reflexivity.
Qed.

Theorem cbcw_write_sink_copes take s d s1 outs c : makes_progress take -> cbcw_write E s d = (s1, outs, c) ->
  exists p, cbcw_write_sink E take s d = Ok (s1, p, c) /\ concat p = concat outs.
Proof.
  intros Hp Hw. unfold cbcw_write_sink. rewrite Hw. destruct (deliver_all_spec take Hp outs) as (p & Ep & Cp).
  rewrite Ep. cbn [bind]. exists p. split; [reflexivity|exact Cp].
Qed.
Theorem cbcw_finish_sink_copes take s : makes_progress take ->
  exists q, cbcw_finish_sink E take s = Ok q /\ concat q = concat (cbcw_finish E s).
Proof. intros Hp. apply deliver_all_spec. exact Hp. Qed.

(* the whole stream: writes, then finish — the bytes a whole-taking sink gets, whatever the sink takes per call *)
Theorem cbc_short_sink_transport take : makes_progress take -> forall ws s s' calls,
  cbcw_writes E s ws = (s', calls) ->
  exists p q, cbcw_writes_sink E take s ws = Ok (s', p) /\ cbcw_finish_sink E take s' = Ok q /\
    concat (p ++ q) = concat (concat (map snd calls)) ++ concat (cbcw_finish E s').
Proof.
  intros Hp. assert (W : forall ws s s' calls, cbcw_writes E s ws = (s', calls) ->
    exists p, cbcw_writes_sink E take s ws = Ok (s', p) /\ concat p = concat (concat (map snd calls))).
  { induction ws as [|d r IH]; intros s s' calls H; cbn [cbcw_writes] in H.
    - inversion H; subst. exists []. split; reflexivity.
    - destruct (cbcw_write E s d) as [[s1 outs] c] eqn:E1. destruct (cbcw_writes E s1 r) as [s2 rest] eqn:E2.
      inversion H; subst. clear H. destruct (cbcw_write_sink_copes take s d s1 outs c Hp E1) as (p1 & Ep1 & Cp1).
      destruct (IH s1 s' rest E2) as (p2 & Ep2 & Cp2). cbn [cbcw_writes_sink]. rewrite Ep1. cbn [bind]. rewrite Ep2. cbn [bind].
      eexists. split; [reflexivity|]. cbn [map snd concat]. rewrite !concat_app, Cp1, Cp2. reflexivity. }
  intros ws s s' calls H. destruct (W ws s s' calls H) as (p & Ep & Cp).
  destruct (cbcw_finish_sink_copes take s' Hp) as (q & Eq & Cq).
  exists p, q. split; [exact Ep|]. split; [exact Eq|]. rewrite concat_app, Cp, Cq. reflexivity.
Qed.
End CBCS.

(* the CBC writer on the refutation's sink (one byte per call): 20 bytes, finish — the ciphertext is the one a
   whole-taking sink gets, delivered bytewise *)
Example cbc_cap1_instance :
  let s0 := {| w_key := wit_key; w_prev := repeat x00 16; w_buf := [] |} in
  let d := map (fun i => n2b (N.of_nat i)) (seq 65 20) in
  exists s1 p q c, cbcw_write_sink toy_E (take_cap 1) s0 d = Ok (s1, p, c) /\ cbcw_finish_sink toy_E (take_cap 1) s1 = Ok q /\
    c = 20 /\ map len (p ++ q) = repeat 1 32 /\
    concat (p ++ q) = concat (snd (fst (cbcw_write toy_E s0 d))) ++ concat (cbcw_finish toy_E (fst (fst (cbcw_write toy_E s0 d)))).
Proof. do 4 eexists. split; [vm_compute; reflexivity|]. split; [vm_compute; reflexivity|]. repeat split. Qed.
