(* SplitFacts.v — facts about Model/Split.v for C04 (splitting respects the size limit, loses
   nothing, and terminates).  stdlib only, no axioms.
   Sections: sizes; the loop of EntryPart::split (bound, measure, merge-preservation, progress);
   split_to_parts (bounds, preservation, termination, acceptance/rejection); the writer loop
   (file sizes, shape of the parts, losslessness, u32 part number); top-level theorems about
   write_split; the unrepaired loop (defect D6) and examples; the reader chain on the parts
   (merge and chunk-type predicates, unique decomposition into entries, read_parts). *)
From PNA Require Import Base Codec Split BaseFacts CodecFacts.
Require Import ZArith ZifyN ZifyNat ZifyBool.
Open Scope N_scope.

(* ---- sizes ------------------------------------------------------------------------ *)
Lemma chunk_len_ge c : 12 <= chunk_len c.
Proof. unfold chunk_len, MIN_CHUNK, len. lia. Qed.

Lemma bytes_len_app a b : bytes_len (a ++ b) = bytes_len a + bytes_len b.
Proof. induction a as [|c a IH]; cbn [app bytes_len]; lia. Qed.

Lemma bytes_len_zero p : bytes_len p = 0 -> p = [].
Proof. destruct p as [|c p]; [reflexivity|]. cbn [bytes_len]. pose proof (chunk_len_ge c). lia. Qed.

Lemma bytes_len_nonempty c p : 12 <= bytes_len (c :: p).
Proof. cbn [bytes_len]. pose proof (chunk_len_ge c). lia. Qed.

Lemma len_firstn {A} (k : N) (l : list A) : k <= len l -> len (firstn (N.to_nat k) l) = k.
Proof. unfold len. rewrite firstn_length. lia. Qed.

Lemma len_skipn {A} (k : N) (l : list A) : len (skipn (N.to_nat k) l) = len l - k.
Proof. unfold len. rewrite skipn_length. lia. Qed.

Lemma part_units_spec p : N.of_nat (part_units p) = bytes_len p.
Proof.
  induction p as [|c p IH]; cbn [part_units bytes_len]; [reflexivity|].
  unfold chunk_len, MIN_CHUNK, len. lia.
Qed.

(* ---- the loop of EntryPart::split -------------------------------------------------- *)
Lemma split_loop_spec max : forall p total f rest,
  total <= max -> split_loop max total p = (f, rest) ->
  total + bytes_len f <= max /\
  bytes_len rest <= bytes_len p /\
  (f <> [] -> bytes_len rest < bytes_len p) /\
  (f = [] -> rest = p).
Proof.
  induction p as [|c r IH]; intros total f rest Ht H; cbn [split_loop] in H.
  - inversion H; subst. cbn [bytes_len]. repeat split; try lia; congruence.
  - destruct (N.ltb max (total + chunk_len c)) eqn:E1.
    + destruct (is_stream c && N.ltb (total + MIN_CHUNK) max) eqn:E2.
      * inversion H; subst; clear H. apply andb_true_iff in E2 as [_ E2].
        apply N.ltb_lt in E1, E2. unfold MIN_CHUNK in *.
        cbn [bytes_len]. unfold chunk_len in *. unfold MIN_CHUNK in *. cbn [snd fst] in *.
        rewrite len_firstn, len_skipn by lia.
        repeat split; try lia. intros X; discriminate X.
      * inversion H; subst; clear H. cbn [bytes_len]. repeat split; try lia. congruence.
    + destruct (split_loop max (total + chunk_len c) r) as [f' rest'] eqn:E.
      inversion H; subst; clear H. apply N.ltb_ge in E1.
      destruct (IH _ _ _ E1 E) as (A & B & C & D).
      cbn [bytes_len]. pose proof (chunk_len_ge c).
      repeat split; try lia. intros X; discriminate X.
Qed.

(* ---- EntryPart::split: size of the first part --------------------------------------- *)
Lemma split_first_bound m p : bytes_len (fst (split m p)) <= m.
Proof.
  unfold split. destruct (N.leb (bytes_len p) m) eqn:E.
  - apply N.leb_le in E. exact E.
  - destruct (split_loop m 0 p) as [f r] eqn:L. cbn [fst].
    destruct (split_loop_spec m p 0 f r ltac:(lia) L) as (A & _). lia.
Qed.

Lemma split_none m p w : split m p = (w, None) -> w = p /\ bytes_len p <= m.
Proof.
  unfold split. destruct (N.leb (bytes_len p) m) eqn:E.
  - intros H; inversion H; subst. apply N.leb_le in E. auto.
  - destruct (split_loop m 0 p); discriminate.
Qed.

Lemma split_some m p w rest : split m p = (w, Some rest) ->
  m < bytes_len p /\ split_loop m 0 p = (w, rest).
Proof.
  unfold split. destruct (N.leb (bytes_len p) m) eqn:E; [discriminate|].
  apply N.leb_gt in E. destruct (split_loop m 0 p) as [f r]. intros H; inversion H; subst. auto.
Qed.

Lemma split_some_spec m p w rest : split m p = (w, Some rest) ->
  bytes_len w <= m /\ m < bytes_len p /\ bytes_len rest <= bytes_len p /\
  (bytes_len w <> 0 -> bytes_len rest < bytes_len p) /\ (bytes_len w = 0 -> rest = p).
Proof.
  intros H. apply split_some in H as [Hm L].
  destruct (split_loop_spec m p 0 w rest ltac:(lia) L) as (A & B & C & D).
  repeat split; try lia.
  - intros X. apply C. intros ->. apply X. reflexivity.
  - intros X. apply D. apply bytes_len_zero. exact X.
Qed.

(* ---- merge: cutting a stream chunk is invisible -------------------------------------- *)
Definition stream_ty (t : bytes) : bool := bytes_eqb t FDAT || bytes_eqb t SDAT.
Lemma is_stream_pair t x : is_stream (t, x) = stream_ty t.
Proof. reflexivity. Qed.

Definition fuse (c : chunk) (m : part) : part :=
  match m with
  | d :: r' => if bytes_eqb (fst d) (fst c) then (fst c, snd c ++ snd d) :: r' else c :: d :: r'
  | [] => [c]
  end.

Lemma merge_cons c r :
  merge (c :: r) = if is_stream c then match snd c with [] => merge r | _ => fuse c (merge r) end
                   else c :: merge r.
Proof.
  cbn [merge]. destruct (is_stream c); [|reflexivity].
  destruct (snd c) eqn:E; [reflexivity|]. unfold fuse. rewrite E. reflexivity.
Qed.

Lemma bytes_eqb_refl a : bytes_eqb a a = true.
Proof. apply bytes_eqb_eq. reflexivity. Qed.

Lemma merge_cut t a b r : stream_ty t = true ->
  merge ((t, a) :: (t, b) :: r) = merge ((t, a ++ b) :: r).
Proof.
  intros Hs. rewrite (merge_cons (t, a)), (merge_cons (t, b)), (merge_cons (t, a ++ b)).
  rewrite !is_stream_pair, Hs. cbn [snd].
  destruct a as [|a0 a]; [reflexivity|].
  destruct b as [|b0 b].
  - rewrite app_nil_r. reflexivity.
  - cbn [app]. destruct (merge r) as [|d r'].
    + cbn [fuse fst snd]. rewrite bytes_eqb_refl. cbn [app]. reflexivity.
    + cbn [fuse fst snd]. destruct (bytes_eqb (fst d) t) eqn:E.
      * cbn [fuse fst snd]. rewrite bytes_eqb_refl. cbn [app]. rewrite <- app_assoc. reflexivity.
      * cbn [fuse fst snd]. rewrite bytes_eqb_refl. cbn [app]. reflexivity.
Qed.

Lemma merge_cons_congr c x y : merge x = merge y -> merge (c :: x) = merge (c :: y).
Proof. intros H. rewrite !merge_cons, H. reflexivity. Qed.

Lemma merge_app_congr a x y : merge x = merge y -> merge (a ++ x) = merge (a ++ y).
Proof. intros H. induction a as [|c a IH]; cbn [app]; [exact H | apply merge_cons_congr, IH]. Qed.

Lemma split_loop_preserves max z : forall p total f rest,
  split_loop max total p = (f, rest) -> merge (f ++ rest ++ z) = merge (p ++ z).
Proof.
  induction p as [|c r IH]; intros total f rest H; cbn [split_loop] in H.
  - inversion H; subst. reflexivity.
  - destruct (N.ltb max (total + chunk_len c)) eqn:E1.
    + destruct (is_stream c && N.ltb (total + MIN_CHUNK) max) eqn:E2.
      * inversion H; subst; clear H. apply andb_true_iff in E2 as [Es _].
        destruct c as [t d]. cbn [fst snd app]. rewrite is_stream_pair in Es.
        rewrite merge_cut by exact Es. rewrite firstn_skipn. reflexivity.
      * inversion H; subst. reflexivity.
    + destruct (split_loop max (total + chunk_len c) r) as [f' rest'] eqn:E.
      inversion H; subst; clear H. cbn [app]. apply merge_cons_congr. eapply IH. exact E.
Qed.

Definition rest_or_nil (o : option part) : part := match o with Some r => r | None => [] end.

Lemma split_preserves_app m p z :
  merge (fst (split m p) ++ rest_or_nil (snd (split m p)) ++ z) = merge (p ++ z).
Proof.
  unfold split. destruct (N.leb (bytes_len p) m).
  - cbn [fst snd rest_or_nil app]. reflexivity.
  - destruct (split_loop m 0 p) as [f r] eqn:L. cbn [fst snd rest_or_nil].
    eapply split_loop_preserves. exact L.
Qed.

Lemma split_preserves m p :
  merge (fst (split m p) ++ rest_or_nil (snd (split m p))) = merge p.
Proof.
  pose proof (split_preserves_app m p []) as H. rewrite !app_nil_r in H. exact H.
Qed.

(* ---- which chunks can be placed at all ------------------------------------------------ *)
Definition is_nil {A} (l : list A) : bool := match l with [] => true | _ => false end.
(* a non-empty stream chunk needs room for 12 bytes of framing and one payload byte, anything
   else must fit whole *)
Definition chunk_fits (B : N) (c : chunk) : bool :=
  if is_stream c && negb (is_nil (snd c)) then N.leb 13 B else N.leb (chunk_len c) B.
Definition part_fits (B : N) (p : part) : bool := forallb (chunk_fits B) p.
Definition indivisible_fit (B : N) (es : list part) : bool := forallb (part_fits B) es.
Definition head_fits (m : N) (p : part) : bool :=
  match p with c :: _ => chunk_fits m c | [] => true end.

Lemma chunk_fits_whole B c : chunk_len c <= B -> chunk_fits B c = true.
Proof.
  unfold chunk_fits, chunk_len, MIN_CHUNK, len. intros H.
  destruct (is_stream c); cbn [andb]; [|apply N.leb_le; exact H].
  destruct (snd c) as [|x d]; cbn [is_nil negb length] in *; apply N.leb_le; lia.
Qed.

Lemma chunk_unfit_big B c : chunk_fits B c = false -> B < chunk_len c.
Proof.
  intros H. destruct (N.lt_ge_cases B (chunk_len c)) as [?|G]; [assumption|].
  rewrite chunk_fits_whole in H by exact G. discriminate.
Qed.

Lemma part_unfit_big B p : part_fits B p = false -> B < bytes_len p.
Proof.
  induction p as [|c p IH]; cbn [part_fits forallb bytes_len]; [discriminate|].
  fold (part_fits B p). intros H. apply andb_false_iff in H as [H|H].
  - apply chunk_unfit_big in H. lia.
  - apply IH in H. pose proof (chunk_len_ge c). lia.
Qed.

Lemma chunk_fits_tail B t d k : stream_ty t = true ->
  chunk_fits B (t, d) = true -> chunk_fits B (t, skipn k d) = true.
Proof.
  intros Hs. unfold chunk_fits. rewrite !is_stream_pair, Hs. cbn [andb snd].
  unfold chunk_len, MIN_CHUNK, len. cbn [snd].
  destruct (skipn k d) as [|y s] eqn:E; destruct d as [|x d']; cbn [is_nil negb length];
    intros H; apply N.leb_le in H; apply N.leb_le; try lia.
  rewrite skipn_nil in E. discriminate.
Qed.

(* a cut needs total + 12 < max <= B, so a chunk that is cut was placeable *)
Lemma cut_implies_fits B max total c :
  max <= B -> is_stream c = true -> total + MIN_CHUNK < max -> chunk_fits B c = true.
Proof.
  unfold chunk_fits, chunk_len, MIN_CHUNK, len. intros Hm Hs Ht. rewrite Hs. cbn [andb].
  destruct (snd c) as [|x d]; cbn [is_nil negb length]; apply N.leb_le; lia.
Qed.

(* ---- progress: a full-budget split places something ------------------------------------ *)
Lemma split_loop_progress m c r f rest :
  chunk_fits m c = true -> split_loop m 0 (c :: r) = (f, rest) -> f <> [].
Proof.
  intros Hf H. cbn [split_loop] in H. rewrite !N.add_0_l in H.
  destruct (N.ltb m (chunk_len c)) eqn:E1.
  - apply N.ltb_lt in E1. unfold chunk_fits in Hf.
    destruct (is_stream c) eqn:Es; cbn [andb] in *.
    + destruct (snd c) as [|x d] eqn:Ed; cbn [is_nil negb] in Hf; apply N.leb_le in Hf; [lia|].
      assert (N.ltb MIN_CHUNK m = true) as X by (apply N.ltb_lt; unfold MIN_CHUNK; lia).
      rewrite X in H. inversion H. discriminate.
    + apply N.leb_le in Hf. lia.
  - destruct (split_loop m (chunk_len c) r). inversion H. discriminate.
Qed.

Lemma split_progress m p w rest :
  split m p = (w, Some rest) -> head_fits m p = true ->
  0 < bytes_len w /\ bytes_len rest < bytes_len p.
Proof.
  intros H Hh. pose proof (split_some_spec _ _ _ _ H) as (A & B & C & D & E).
  apply split_some in H as [Hm L].
  destruct p as [|c r]; [cbn [bytes_len] in Hm; lia|]. cbn [head_fits] in Hh.
  pose proof (split_loop_progress _ _ _ _ _ Hh L) as Hne.
  destruct w as [|x w]; [congruence|]. pose proof (bytes_len_nonempty x w). split; [lia|].
  apply D. lia.
Qed.

Lemma split_loop_fits B max : forall p total f rest,
  split_loop max total p = (f, rest) -> part_fits B p = true -> part_fits B rest = true.
Proof.
  induction p as [|c r IH]; intros total f rest H Hp; cbn [split_loop] in H.
  - inversion H; subst. reflexivity.
  - cbn [part_fits forallb] in Hp. fold (part_fits B r) in Hp. apply andb_true_iff in Hp as [Hc Hr].
    destruct (N.ltb max (total + chunk_len c)) eqn:E1.
    + destruct (is_stream c && N.ltb (total + MIN_CHUNK) max) eqn:E2.
      * inversion H; subst; clear H. apply andb_true_iff in E2 as [Es _].
        cbn [part_fits forallb]. fold (part_fits B r). rewrite Hr, andb_true_r.
        destruct c as [t d]. cbn [fst snd]. apply chunk_fits_tail; [exact Es | exact Hc].
      * inversion H; subst; clear H. cbn [part_fits forallb]. fold (part_fits B r).
        rewrite Hc, Hr. reflexivity.
    + destruct (split_loop max (total + chunk_len c) r) as [f' rest'] eqn:E.
      inversion H; subst; clear H. eapply IH; eauto.
Qed.

Lemma split_loop_unfit B max : max <= B -> forall p total f rest,
  split_loop max total p = (f, rest) -> part_fits B p = false -> part_fits B rest = false.
Proof.
  intros Hm. induction p as [|c r IH]; intros total f rest H Hp; cbn [split_loop] in H.
  - inversion H; subst. exact Hp.
  - cbn [part_fits forallb] in Hp. fold (part_fits B r) in Hp.
    destruct (N.ltb max (total + chunk_len c)) eqn:E1.
    + destruct (is_stream c && N.ltb (total + MIN_CHUNK) max) eqn:E2.
      * inversion H; subst; clear H. apply andb_true_iff in E2 as [Es E2]. apply N.ltb_lt in E2.
        rewrite (cut_implies_fits B max total c Hm Es E2) in Hp. cbn [andb] in Hp.
        cbn [part_fits forallb]. fold (part_fits B r). rewrite Hp. apply andb_false_r.
      * inversion H; subst; clear H. cbn [part_fits forallb]. fold (part_fits B r). exact Hp.
    + destruct (split_loop max (total + chunk_len c) r) as [f' rest'] eqn:E.
      inversion H; subst; clear H. apply N.ltb_ge in E1.
      rewrite chunk_fits_whole in Hp by lia. cbn [andb] in Hp. eapply IH; eauto.
Qed.

(* ---- split_to_parts --------------------------------------------------------------------- *)
Definition nonempty_count (ps : list part) : N :=
  len (filter (fun w => negb (N.eqb (bytes_len w) 0)) ps).

Lemma nonempty_count_cons w ps :
  nonempty_count (w :: ps) = (if N.eqb (bytes_len w) 0 then 0 else 1) + nonempty_count ps.
Proof.
  unfold nonempty_count. cbn [filter]. destruct (N.eqb (bytes_len w) 0); cbn [negb]; [lia|].
  rewrite len_cons. reflexivity.
Qed.

Ltac stp_step H :=
  match type of H with
  | context [split ?s ?p] =>
    let w := fresh "w" in let o := fresh "o" in let E := fresh "E" in
    destruct (split s p) as [w o] eqn:E; destruct o as [rest|]
  end.

Lemma stp_bound : forall fuel p s max ps,
  split_to_parts_fuel fuel p s max = Fin (Ok ps) -> s <= max ->
  Forall (fun w => bytes_len w <= max) ps.
Proof.
  induction fuel as [|f IH]; intros p s max ps H Hs; cbn [split_to_parts_fuel] in H; [discriminate|].
  stp_step H.
  - destruct (N.eqb s max && N.eqb (bytes_len w) 0); [discriminate|].
    destruct (split_to_parts_fuel f rest max max) as [[ps'| |]|] eqn:R; try discriminate.
    inversion H; subst; clear H. constructor.
    + pose proof (split_first_bound s p) as Hb. rewrite E in Hb. cbn [fst] in Hb. lia.
    + eapply IH; [exact R | lia].
  - inversion H; subst; clear H. apply split_none in E as [-> Hb]. constructor; [lia | constructor].
Qed.

Lemma stp_preserves : forall fuel p s max ps,
  split_to_parts_fuel fuel p s max = Fin (Ok ps) ->
  forall z, merge (concat ps ++ z) = merge (p ++ z).
Proof.
  induction fuel as [|f IH]; intros p s max ps H z; cbn [split_to_parts_fuel] in H; [discriminate|].
  stp_step H.
  - destruct (N.eqb s max && N.eqb (bytes_len w) 0); [discriminate|].
    destruct (split_to_parts_fuel f rest max max) as [[ps'| |]|] eqn:R; try discriminate.
    inversion H; subst; clear H. cbn [concat]. rewrite <- app_assoc.
    rewrite (merge_app_congr w _ _ (IH _ _ _ _ R z)).
    pose proof (split_preserves_app s p z) as P. rewrite E in P. cbn [fst snd rest_or_nil] in P. exact P.
  - inversion H; subst; clear H. apply split_none in E as [-> _]. cbn [concat]. rewrite app_nil_r. reflexivity.
Qed.

Lemma stp_count : forall fuel p s max ps,
  split_to_parts_fuel fuel p s max = Fin (Ok ps) -> nonempty_count ps <= bytes_len p.
Proof.
  induction fuel as [|f IH]; intros p s max ps H; cbn [split_to_parts_fuel] in H; [discriminate|].
  stp_step H.
  - destruct (N.eqb s max && N.eqb (bytes_len w) 0); [discriminate|].
    destruct (split_to_parts_fuel f rest max max) as [[ps'| |]|] eqn:R; try discriminate.
    inversion H; subst; clear H. rewrite nonempty_count_cons. apply IH in R.
    pose proof (split_some_spec _ _ _ _ E) as (A & B & C & D & _).
    destruct (N.eqb (bytes_len w) 0) eqn:Z; [lia|]. apply N.eqb_neq in Z. specialize (D Z). lia.
  - inversion H; subst; clear H. apply split_none in E as [-> _]. rewrite nonempty_count_cons.
    unfold nonempty_count. cbn [filter]. unfold len. cbn [length].
    destruct (N.eqb (bytes_len p) 0) eqn:Z; [lia|]. apply N.eqb_neq in Z. lia.
Qed.

(* fuel adequacy = termination of the repaired loop, for every input *)
Lemma stp_terminates : forall fuel p s max,
  bytes_len p + 1 + (if N.eqb s max then 0 else 1) <= N.of_nat fuel ->
  split_to_parts_fuel fuel p s max = Fin (Err InvalidInput) \/
  exists ps, split_to_parts_fuel fuel p s max = Fin (Ok ps).
Proof.
  induction fuel as [|f IH]; intros p s max Hf; [destruct (N.eqb s max); lia|].
  cbn [split_to_parts_fuel]. destruct (split s p) as [w [rest|]] eqn:E; [|right; eauto].
  pose proof (split_some_spec _ _ _ _ E) as (A & B & C & D & _).
  destruct (N.eqb s max) eqn:Es; cbn [andb].
  - destruct (N.eqb (bytes_len w) 0) eqn:Z; [left; reflexivity|]. apply N.eqb_neq in Z. specialize (D Z).
    destruct (IH rest max max) as [R|[ps R]]; [rewrite N.eqb_refl; lia | rewrite R; auto | rewrite R; eauto].
  - destruct (IH rest max max) as [R|[ps R]]; [rewrite N.eqb_refl; lia | rewrite R; auto | rewrite R; eauto].
Qed.

Lemma stp_fits_no_error : forall fuel p s max,
  part_fits max p = true -> split_to_parts_fuel fuel p s max <> Fin (Err InvalidInput).
Proof.
  induction fuel as [|f IH]; intros p s max Hp; cbn [split_to_parts_fuel]; [discriminate|].
  destruct (split s p) as [w [rest|]] eqn:E; [|discriminate].
  pose proof (split_some _ _ _ _ E) as [Hm L].
  pose proof (split_loop_fits max s _ _ _ _ L Hp) as Hr.
  destruct (N.eqb s max && N.eqb (bytes_len w) 0) eqn:C.
  - exfalso. apply andb_true_iff in C as [C1 C2]. apply N.eqb_eq in C1, C2. subst s.
    assert (head_fits max p = true) as Hh.
    { destruct p as [|c r]; [reflexivity|]. cbn [head_fits]. cbn [part_fits forallb] in Hp.
      apply andb_true_iff in Hp as [Hc _]. exact Hc. }
    pose proof (split_progress _ _ _ _ E Hh). lia.
  - specialize (IH rest max max Hr).
    destruct (split_to_parts_fuel f rest max max) as [[ps'| |]|]; try discriminate. exact IH.
Qed.

Lemma stp_unfit_not_ok : forall fuel p s max ps,
  part_fits max p = false -> s <= max -> split_to_parts_fuel fuel p s max <> Fin (Ok ps).
Proof.
  induction fuel as [|f IH]; intros p s max ps Hp Hs; cbn [split_to_parts_fuel]; [discriminate|].
  destruct (split s p) as [w [rest|]] eqn:E.
  - pose proof (split_some _ _ _ _ E) as [Hm L].
    pose proof (split_loop_unfit max s Hs _ _ _ _ L Hp) as Hr.
    destruct (N.eqb s max && N.eqb (bytes_len w) 0); [discriminate|].
    destruct (split_to_parts_fuel f rest max max) as [[ps'| |]|] eqn:R; try discriminate.
    exfalso. eapply (IH rest max max ps'); [exact Hr | lia | exact R].
  - apply split_none in E as [_ Hb]. apply part_unfit_big in Hp. lia.
Qed.

(* ---- shape of a well-formed multipart archive ------------------------------------------- *)
(* parts number n, n+1, ... each closed by ANXT, AEND *)
Fixpoint assemble_nonlast (n : N) (bodies : list (list chunk)) : list pfile :=
  match bodies with
  | [] => []
  | b :: r => (ahed_chunk n :: b ++ [anxt_chunk; aend_chunk]) :: assemble_nonlast (n + 1) r
  end.
(* parts 0 .. len bodies - 1 carry ANXT; the last part, number len bodies, ends with AEND alone *)
Definition assemble (bodies : list (list chunk)) (lastb : list chunk) : list pfile :=
  assemble_nonlast 0 bodies ++ [ahed_chunk (len bodies) :: lastb ++ [aend_chunk]].

Lemma assemble_nonlast_app n a b :
  assemble_nonlast n (a ++ [b]) =
  assemble_nonlast n a ++ [ahed_chunk (n + len a) :: b ++ [anxt_chunk; aend_chunk]].
Proof.
  revert n. induction a as [|x a IH]; intros n; cbn [app assemble_nonlast].
  - unfold len; cbn [length]. rewrite N.add_0_r. reflexivity.
  - rewrite IH, len_cons. replace (n + 1 + len a) with (n + (1 + len a)) by lia. reflexivity.
Qed.

Lemma ahed_chunk_len n : chunk_len (ahed_chunk n) = 20.
Proof.
  unfold chunk_len, ahed_chunk, ahed_to_bytes, MIN_CHUNK, be32. cbn [snd].
  rewrite len_app. unfold len at 2. rewrite be_length. reflexivity.
Qed.

Lemma close_part_size last st :
  file_size (close_part last st) = 40 + bytes_len (ws_cur st) + (if last then 0 else 12).
Proof.
  unfold file_size, close_part, PNA_HEADER_LEN. cbn [bytes_len]. rewrite ahed_chunk_len, bytes_len_app.
  destruct last; cbn [bytes_len]; unfold chunk_len, aend_chunk, anxt_chunk, MIN_CHUNK, len; cbn [snd length]; lia.
Qed.

(* ---- invariants of the writer loop -------------------------------------------------------- *)
Definition wf_state (max B : N) (st : wstate) : Prop :=
  ws_written st = bytes_len (ws_cur st) /\ ws_written st <= B /\
  Forall (fun f => file_size f <= max) (ws_done st).

Definition shape (st : wstate) (flat : list chunk) : Prop :=
  exists bodies, ws_done st = assemble_nonlast 0 bodies /\ ws_num st = len bodies /\
                 concat bodies ++ ws_cur st = flat.

Lemma add_piece_wf max st p st' :
  52 <= max -> wf_state max (max - 52) st -> bytes_len p <= max - 52 ->
  add_piece (max - 52) st p = Ok st' -> wf_state max (max - 52) st'.
Proof.
  intros Hm (W1 & W2 & W3) Hp H. unfold add_piece in H.
  destruct (N.ltb (max - 52) (ws_written st + bytes_len p)) eqn:E.
  - destruct (N.ltb U32_MAX (ws_num st + 1)); [discriminate|]. inversion H; subst; clear H.
    unfold wf_state; cbn [ws_written ws_cur ws_done]. repeat split; [lia|].
    apply Forall_app. split; [exact W3|]. constructor; [|constructor].
    rewrite close_part_size. lia.
  - apply N.ltb_ge in E. inversion H; subst; clear H.
    unfold wf_state; cbn [ws_written ws_cur ws_done]. rewrite bytes_len_app. repeat split; [lia|lia|exact W3].
Qed.

Lemma add_pieces_wf max : forall ps st st',
  52 <= max -> wf_state max (max - 52) st -> Forall (fun w => bytes_len w <= max - 52) ps ->
  add_pieces (max - 52) st ps = Ok st' -> wf_state max (max - 52) st'.
Proof.
  induction ps as [|p ps IH]; intros st st' Hm W F H; cbn [add_pieces] in H.
  - inversion H; subst. exact W.
  - inversion F as [|? ? Fp Fps]; subst.
    destruct (add_piece (max - 52) st p) as [st1| |] eqn:E; cbn [bind] in H; try discriminate.
    apply (IH st1 st' Hm); [eapply add_piece_wf; eauto | exact Fps | exact H].
Qed.

Lemma add_piece_shape B st p st' x :
  shape st x -> add_piece B st p = Ok st' -> shape st' (x ++ p).
Proof.
  intros (bodies & S1 & S2 & S3) H. unfold add_piece in H.
  destruct (N.ltb B (ws_written st + bytes_len p)).
  - destruct (N.ltb U32_MAX (ws_num st + 1)); [discriminate|]. inversion H; subst; clear H.
    exists (bodies ++ [ws_cur st]). cbn [ws_done ws_num ws_cur]. repeat split.
    + rewrite assemble_nonlast_app, S1. unfold close_part. rewrite S2, N.add_0_l. reflexivity.
    + rewrite len_app, S2. unfold len; cbn [length]. lia.
    + rewrite concat_app. cbn [concat]. rewrite app_nil_r. reflexivity.
  - inversion H; subst; clear H. exists bodies. cbn [ws_done ws_num ws_cur]. repeat split; auto.
    rewrite app_assoc. reflexivity.
Qed.

Lemma add_pieces_shape B : forall ps st st' x,
  shape st x -> add_pieces B st ps = Ok st' -> shape st' (x ++ concat ps).
Proof.
  induction ps as [|p ps IH]; intros st st' x S H; cbn [add_pieces] in H.
  - inversion H; subst. cbn [concat]. rewrite app_nil_r. exact S.
  - destruct (add_piece B st p) as [st1| |] eqn:E; cbn [bind] in H; try discriminate.
    cbn [concat]. rewrite app_assoc. eapply IH; [|exact H]. eapply add_piece_shape; eauto.
Qed.

(* the part number only grows when a non-empty piece opens a new part *)
Lemma add_piece_total B st p :
  ws_written st <= B ->
  ws_num st + (if N.eqb (bytes_len p) 0 then 0 else 1) <= U32_MAX ->
  exists st', add_piece B st p = Ok st' /\
              ws_num st' <= ws_num st + (if N.eqb (bytes_len p) 0 then 0 else 1).
Proof.
  intros W H. unfold add_piece. destruct (N.ltb B (ws_written st + bytes_len p)) eqn:E.
  - apply N.ltb_lt in E. destruct (N.eqb (bytes_len p) 0) eqn:Z; [apply N.eqb_eq in Z; lia|].
    destruct (N.ltb U32_MAX (ws_num st + 1)) eqn:O; [apply N.ltb_lt in O; lia|].
    eexists; split; [reflexivity|]. cbn [ws_num]. lia.
  - eexists; split; [reflexivity|]. cbn [ws_num]. destruct (N.eqb (bytes_len p) 0); lia.
Qed.

Lemma add_pieces_total max : forall ps st,
  52 <= max -> wf_state max (max - 52) st -> Forall (fun w => bytes_len w <= max - 52) ps ->
  ws_num st + nonempty_count ps <= U32_MAX ->
  exists st', add_pieces (max - 52) st ps = Ok st' /\ ws_num st' <= ws_num st + nonempty_count ps.
Proof.
  induction ps as [|p ps IH]; intros st Hm W F H; cbn [add_pieces].
  - eexists; split; [reflexivity|]. lia.
  - inversion F as [|? ? Fp Fps]; subst. rewrite nonempty_count_cons in *.
    destruct (add_piece_total (max - 52) st p) as (st1 & E & N1); [apply W | lia |].
    rewrite E; cbn [bind].
    destruct (IH st1 Hm) as (st' & E' & N'); [eapply add_piece_wf; eauto | exact Fps | lia |].
    exists st'. split; [exact E' | lia].
Qed.

(* ---- the entry loop ------------------------------------------------------------------------ *)
Fixpoint total_bytes (es : list part) : N :=
  match es with [] => 0 | e :: r => bytes_len e + total_bytes r end.

Lemma entries_fuel_spec es : N.of_nat (entries_fuel es) = total_bytes es + 2.
Proof.
  induction es as [|e r IH]; cbn [entries_fuel total_bytes]; [reflexivity|].
  rewrite Nat2N.inj_add, IH, part_units_spec. lia.
Qed.

Lemma we_wf max fuel : forall es st st',
  52 <= max -> wf_state max (max - 52) st ->
  write_entries_fuel fuel (max - 52) st es = Fin (Ok st') -> wf_state max (max - 52) st'.
Proof.
  induction es as [|e r IH]; intros st st' Hm W H; cbn [write_entries_fuel] in H.
  - inversion H; subst. exact W.
  - destruct (N.ltb (max - 52) (ws_written st)); [discriminate|].
    destruct (split_to_parts_fuel fuel e (max - 52 - ws_written st) (max - 52)) as [[ps| |]|] eqn:S; try discriminate.
    destruct (add_pieces (max - 52) st ps) as [st1| |] eqn:A; try discriminate.
    eapply IH; [exact Hm | | exact H].
    apply (add_pieces_wf max ps st st1 Hm W); [|exact A].
    eapply stp_bound; [exact S | lia].
Qed.

Lemma we_shape B fuel : forall es st st' x,
  shape st x -> write_entries_fuel fuel B st es = Fin (Ok st') ->
  exists y, shape st' (x ++ y) /\ forall z, merge (y ++ z) = merge (concat es ++ z).
Proof.
  induction es as [|e r IH]; intros st st' x Sx H; cbn [write_entries_fuel] in H.
  - inversion H; subst. exists []. rewrite app_nil_r. split; [exact Sx | reflexivity].
  - destruct (N.ltb B (ws_written st)); [discriminate|].
    destruct (split_to_parts_fuel fuel e (B - ws_written st) B) as [[ps| |]|] eqn:S; try discriminate.
    destruct (add_pieces B st ps) as [st1| |] eqn:A; try discriminate.
    pose proof (add_pieces_shape B ps st st1 x Sx A) as S1.
    destruct (IH st1 st' _ S1 H) as (y & Sy & My).
    exists (concat ps ++ y). split; [rewrite app_assoc; exact Sy|].
    intros z. cbn [concat]. rewrite <- !app_assoc.
    rewrite (stp_preserves _ _ _ _ _ S (y ++ z)). apply merge_app_congr. apply My.
Qed.

(* no input exhausts the fuel, and with fewer than 2^32 bytes of entries nothing panics *)
Lemma we_terminates max fuel : forall es st,
  52 <= max -> wf_state max (max - 52) st ->
  total_bytes es + 2 <= N.of_nat fuel ->
  ws_num st + total_bytes es <= U32_MAX ->
  write_entries_fuel fuel (max - 52) st es = Fin (Err InvalidInput) \/
  exists st', write_entries_fuel fuel (max - 52) st es = Fin (Ok st').
Proof.
  induction es as [|e r IH]; intros st Hm W Hf Ho; cbn [write_entries_fuel].
  - right. eauto.
  - cbn [total_bytes] in Hf, Ho. pose proof W as (W1 & W2 & W3).
    destruct (N.ltb (max - 52) (ws_written st)) eqn:U; [apply N.ltb_lt in U; lia|].
    destruct (stp_terminates fuel e (max - 52 - ws_written st) (max - 52)) as [S|[ps S]].
    { destruct (N.eqb (max - 52 - ws_written st) (max - 52)); lia. }
    + rewrite S. left; reflexivity.
    + rewrite S. pose proof (stp_bound _ _ _ _ _ S ltac:(lia)) as Fb. pose proof (stp_count _ _ _ _ _ S) as Cn.
      destruct (add_pieces_total max ps st Hm W Fb) as (st1 & A & N1); [lia|].
      rewrite A. apply IH; [exact Hm | exact (add_pieces_wf max ps st st1 Hm W Fb A) | lia | lia].
Qed.

(* termination alone needs no size premise *)
Lemma we_never_out_of_fuel B fuel : forall es st,
  total_bytes es + 2 <= N.of_nat fuel -> write_entries_fuel fuel B st es <> OutOfFuel.
Proof.
  induction es as [|e r IH]; intros st Hf; cbn [write_entries_fuel]; [discriminate|].
  cbn [total_bytes] in Hf.
  destruct (N.ltb B (ws_written st)); [discriminate|].
  destruct (stp_terminates fuel e (B - ws_written st) B) as [S|[ps S]].
  { destruct (N.eqb (B - ws_written st) B); lia. }
  - rewrite S. discriminate.
  - rewrite S. destruct (add_pieces B st ps); try discriminate. apply IH. lia.
Qed.

Lemma we_fits_no_error B fuel : forall es st,
  indivisible_fit B es = true -> write_entries_fuel fuel B st es <> Fin (Err InvalidInput).
Proof.
  induction es as [|e r IH]; intros st Hf; cbn [write_entries_fuel]; [discriminate|].
  cbn [indivisible_fit forallb] in Hf. fold (indivisible_fit B r) in Hf. apply andb_true_iff in Hf as [He Hr].
  destruct (N.ltb B (ws_written st)); [discriminate|].
  pose proof (stp_fits_no_error fuel e (B - ws_written st) B He) as S.
  destruct (split_to_parts_fuel fuel e (B - ws_written st) B) as [[ps|k|]|]; try discriminate.
  - destruct (add_pieces B st ps) as [st1|k|] eqn:A; try discriminate.
    + apply IH. exact Hr.
    + (* add_pieces never returns an error *)
      exfalso. clear -A. revert st A. induction ps as [|p ps IHp]; intros st A; cbn [add_pieces] in A; [discriminate|].
      destruct (add_piece B st p) as [s1|k1|] eqn:E; cbn [bind] in A; try discriminate; [eauto|].
      unfold add_piece in E. destruct (N.ltb B (ws_written st + bytes_len p)); [|discriminate].
      destruct (N.ltb U32_MAX (ws_num st + 1)); discriminate.
  - intros X. apply S. destruct k; try discriminate. reflexivity.
Qed.

Lemma we_unfit_not_ok B fuel : forall es st st',
  indivisible_fit B es = false -> write_entries_fuel fuel B st es <> Fin (Ok st').
Proof.
  induction es as [|e r IH]; intros st st' Hf; cbn [write_entries_fuel]; [discriminate|].
  cbn [indivisible_fit forallb] in Hf. fold (indivisible_fit B r) in Hf.
  destruct (N.ltb B (ws_written st)); [discriminate|].
  destruct (split_to_parts_fuel fuel e (B - ws_written st) B) as [[ps|k|]|] eqn:S; try discriminate.
  destruct (part_fits B e) eqn:He.
  - cbn [andb] in Hf. destruct (add_pieces B st ps); try discriminate. apply IH. exact Hf.
  - exfalso. eapply stp_unfit_not_ok; [exact He | | exact S]. lia.
Qed.

(* ---- the result does not depend on the fuel once there is enough -------------------------- *)
Lemma stp_fuel_mono : forall f p s max r,
  split_to_parts_fuel f p s max = Fin r ->
  forall f', (f <= f')%nat -> split_to_parts_fuel f' p s max = Fin r.
Proof.
  induction f as [|f IH]; intros p s max r H f' Hf; cbn [split_to_parts_fuel] in H; [discriminate|].
  destruct f' as [|f']; [lia|]. cbn [split_to_parts_fuel].
  destruct (split s p) as [w [rest|]]; [|exact H].
  destruct (N.eqb s max && N.eqb (bytes_len w) 0); [exact H|].
  destruct (split_to_parts_fuel f rest max max) as [r0|] eqn:R; [|discriminate].
  rewrite (IH _ _ _ _ R f') by lia. exact H.
Qed.

Lemma we_fuel_mono B : forall es f st r,
  write_entries_fuel f B st es = Fin r ->
  forall f', (f <= f')%nat -> write_entries_fuel f' B st es = Fin r.
Proof.
  induction es as [|e es IH]; intros f st r H f' Hf; cbn [write_entries_fuel] in *; [exact H|].
  destruct (N.ltb B (ws_written st)); [exact H|].
  destruct (split_to_parts_fuel f e (B - ws_written st) B) as [r0|] eqn:S; [|discriminate].
  rewrite (stp_fuel_mono _ _ _ _ _ S f' Hf).
  destruct r0 as [ps|k|]; try exact H.
  destruct (add_pieces B st ps); try exact H. eapply IH; eauto.
Qed.

Lemma part_overhead_52 : PART_OVERHEAD = 52.
Proof. reflexivity. Qed.

Lemma ws_fuel_mono max es f r :
  write_split_fuel f max es = Fin r -> forall f', (f <= f')%nat -> write_split_fuel f' max es = Fin r.
Proof.
  unfold write_split_fuel. intros H f' Hf. destruct (N.ltb max PART_OVERHEAD); [exact H|].
  destruct (write_entries_fuel f (max - PART_OVERHEAD) init_wstate es) as [r0|] eqn:W; [|discriminate].
  rewrite (we_fuel_mono _ _ _ _ _ W f' Hf). exact H.
Qed.

Lemma ws_never_out_of_fuel fuel max es :
  (entries_fuel es <= fuel)%nat -> write_split_fuel fuel max es <> OutOfFuel.
Proof.
  intros Hf. unfold write_split_fuel. destruct (N.ltb max PART_OVERHEAD); [discriminate|].
  pose proof (we_never_out_of_fuel (max - PART_OVERHEAD) fuel es init_wstate) as H.
  pose proof (entries_fuel_spec es).
  destruct (write_entries_fuel fuel (max - PART_OVERHEAD) init_wstate es) as [[?|?|]|]; try discriminate.
  exfalso. apply H; [lia | reflexivity].
Qed.

(* fuel adequacy: every run with at least entries_fuel rounds per entry finishes, with the
   result [write_split] names; in particular the OutOfFuel arm of [write_split] is dead *)
Theorem split_to_parts_terminates max es : forall fuel,
  (entries_fuel es <= fuel)%nat -> write_split_fuel fuel max es = Fin (write_split max es).
Proof.
  intros fuel Hf. unfold write_split.
  pose proof (ws_never_out_of_fuel (entries_fuel es) max es (Nat.le_refl _)) as H.
  destruct (write_split_fuel (entries_fuel es) max es) as [r|] eqn:E; [|congruence].
  eapply ws_fuel_mono; eauto.
Qed.

(* ---- what write_split returns -------------------------------------------------------------- *)
Lemma init_wf max : wf_state max (max - 52) init_wstate.
Proof. unfold wf_state, init_wstate; cbn [ws_written ws_cur ws_done bytes_len]. repeat split; [lia | constructor]. Qed.

Lemma init_shape : shape init_wstate [].
Proof. exists []. cbn. repeat split. Qed.

Lemma write_split_ok_inv max es parts :
  write_split max es = Ok parts ->
  52 <= max /\ exists st, write_entries_fuel (entries_fuel es) (max - 52) init_wstate es = Fin (Ok st) /\
                          parts = ws_done st ++ [close_part true st].
Proof.
  unfold write_split, write_split_fuel. rewrite part_overhead_52.
  destruct (N.ltb max 52) eqn:E; [discriminate|]. apply N.ltb_ge in E.
  destruct (write_entries_fuel (entries_fuel es) (max - 52) init_wstate es) as [[st|k|]|]; try discriminate.
  intros H; inversion H; subst. split; [exact E|]. exists st. auto.
Qed.

Theorem parts_bounded max es parts :
  52 <= max -> write_split max es = Ok parts -> Forall (fun f => file_size f <= max) parts.
Proof.
  intros _ H. apply write_split_ok_inv in H as (Hm & st & W & ->).
  pose proof (we_wf max _ es _ _ Hm (init_wf max) W) as (W1 & W2 & W3).
  apply Forall_app. split; [exact W3|]. constructor; [|constructor]. rewrite close_part_size. lia.
Qed.

(* consecutive numbers from 0, ANXT directly before AEND on every part but the last, AEND last,
   and the entry chunks in between carry exactly the original chunks up to stream-chunk cuts *)
Theorem parts_wellformed_lossless max es parts :
  write_split max es = Ok parts ->
  exists bodies lastb, parts = assemble bodies lastb /\
                       merge (concat bodies ++ lastb) = merge (concat es).
Proof.
  intros H. apply write_split_ok_inv in H as (Hm & st & W & ->).
  destruct (we_shape _ _ es _ _ [] init_shape W) as (y & (bodies & S1 & S2 & S3) & My).
  exists bodies, (ws_cur st). split.
  - unfold assemble, close_part. rewrite S1, S2. reflexivity.
  - cbn [app] in S3. rewrite S3. specialize (My []). rewrite !app_nil_r in My. exact My.
Qed.

(* the same, spelled out per part *)
Lemma assemble_nonlast_nth : forall bodies n i f,
  nth_error (assemble_nonlast n bodies) i = Some f ->
  exists b, nth_error bodies i = Some b /\ f = ahed_chunk (n + N.of_nat i) :: b ++ [anxt_chunk; aend_chunk].
Proof.
  induction bodies as [|b r IH]; intros n i f H; cbn [assemble_nonlast] in H.
  - destruct i; discriminate.
  - destruct i as [|i]; cbn [nth_error] in *.
    + inversion H; subst. exists b. rewrite N.add_0_r. auto.
    + apply IH in H as (b' & Hb & ->). exists b'. split; [exact Hb|].
      replace (n + N.of_nat (S i)) with (n + 1 + N.of_nat i) by lia. reflexivity.
Qed.

Lemma assemble_nonlast_length : forall bodies n, length (assemble_nonlast n bodies) = length bodies.
Proof. induction bodies as [|b r IH]; intros n; cbn [assemble_nonlast length]; [reflexivity | rewrite IH; reflexivity]. Qed.

Theorem parts_wellformed bodies lastb :
  length (assemble bodies lastb) = S (length bodies) /\
  forall i f, nth_error (assemble bodies lastb) i = Some f ->
    exists b, f = ahed_chunk (N.of_nat i) :: b ++
                  (if Nat.eqb i (length bodies) then [aend_chunk] else [anxt_chunk; aend_chunk]).
Proof.
  unfold assemble. split.
  - rewrite app_length, assemble_nonlast_length. cbn [length]. lia.
  - intros i f H. destruct (Nat.ltb i (length bodies)) eqn:L.
    + apply Nat.ltb_lt in L. rewrite nth_error_app1 in H by (rewrite assemble_nonlast_length; exact L).
      apply assemble_nonlast_nth in H as (b & _ & ->). exists b. rewrite N.add_0_l.
      replace (Nat.eqb i (length bodies)) with false by (symmetry; apply Nat.eqb_neq; lia). reflexivity.
    + apply Nat.ltb_ge in L. rewrite nth_error_app2 in H by (rewrite assemble_nonlast_length; exact L).
      rewrite assemble_nonlast_length in H.
      destruct (i - length bodies)%nat as [|k] eqn:D; cbn [nth_error] in H; [|destruct k; discriminate].
      inversion H; subst. exists lastb. assert (i = length bodies) as -> by lia.
      rewrite Nat.eqb_refl. unfold len. reflexivity.
Qed.

(* ---- acceptance and rejection ---------------------------------------------------------------- *)
Theorem below_minimum_rejected max es : max < 52 -> write_split max es = Err InvalidInput.
Proof.
  intros H. unfold write_split, write_split_fuel. rewrite part_overhead_52.
  apply N.ltb_lt in H. rewrite H. reflexivity.
Qed.

(* with fewer than 2^32 bytes of entry chunks the u32 part number cannot overflow *)
Lemma write_split_total max es :
  total_bytes es <= U32_MAX ->
  write_split max es = Err InvalidInput \/ exists parts, write_split max es = Ok parts.
Proof.
  intros Ho. destruct (N.lt_ge_cases max 52) as [L|G]; [left; apply below_minimum_rejected; exact L|].
  unfold write_split, write_split_fuel. rewrite part_overhead_52.
  apply N.ltb_ge in G as G'. rewrite G'.
  destruct (we_terminates max (entries_fuel es) es init_wstate G (init_wf max)) as [E|[st E]].
  - rewrite entries_fuel_spec. lia.
  - cbn [init_wstate ws_num]. lia.
  - rewrite E. left; reflexivity.
  - rewrite E. right; eauto.
Qed.

Theorem fitting_max_accepted max es :
  52 <= max -> indivisible_fit (max - 52) es = true -> total_bytes es <= U32_MAX ->
  exists parts, write_split max es = Ok parts.
Proof.
  intros Hm Hf Ho. destruct (write_split_total max es Ho) as [E|E]; [|exact E]. exfalso.
  revert E. unfold write_split, write_split_fuel. rewrite part_overhead_52.
  apply N.ltb_ge in Hm. rewrite Hm.
  pose proof (we_fits_no_error (max - 52) (entries_fuel es) es init_wstate Hf) as H.
  destruct (write_entries_fuel (entries_fuel es) (max - 52) init_wstate es) as [[st|k|]|]; try discriminate.
  intros X. inversion X; subst. apply H. reflexivity.
Qed.

Lemma unfit_never_ok max es parts :
  ~ (52 <= max /\ indivisible_fit (max - 52) es = true) -> write_split max es <> Ok parts.
Proof.
  intros Hn H. apply write_split_ok_inv in H as (Hm & st & W & _).
  destruct (indivisible_fit (max - 52) es) eqn:F; [apply Hn; auto|].
  exact (we_unfit_not_ok _ _ es _ _ F W).
Qed.

Theorem small_max_rejected max es :
  ~ (52 <= max /\ indivisible_fit (max - 52) es = true) -> total_bytes es <= U32_MAX ->
  write_split max es = Err InvalidInput.
Proof.
  intros Hn Ho. destruct (write_split_total max es Ho) as [E|[parts E]]; [exact E|].
  exfalso. exact (unfit_never_ok max es parts Hn E).
Qed.

(* ---- the code before the repair (D6), kept here to document the defect ----------------------- *)
Fixpoint unrepaired_split_to_parts_fuel (fuel : nat) (p : part) (split_size max : N) : outcome (list part) :=
  match fuel with
  | O => OutOfFuel
  | S f =>
    match split split_size p with
    | (w, Some rest) =>
      match unrepaired_split_to_parts_fuel f rest max max with
      | Fin (Ok ps) => Fin (Ok (w :: ps))
      | o => o
      end
    | (w, None) => Fin (Ok [w])
    end
  end.

Fixpoint unrepaired_write_entries_fuel (fuel : nat) (B : N) (st : wstate) (es : list part) : outcome wstate :=
  match es with
  | [] => Fin (Ok st)
  | e :: r =>
    if N.ltb B (ws_written st) then Fin Panic
    else match unrepaired_split_to_parts_fuel fuel e (B - ws_written st) B with
         | OutOfFuel => OutOfFuel
         | Fin (Ok ps) =>
           match add_pieces B st ps with
           | Ok st' => unrepaired_write_entries_fuel fuel B st' r
           | Err k => Fin (Err k)
           | Panic => Fin Panic
           end
         | Fin (Err k) => Fin (Err k)
         | Fin Panic => Fin Panic
         end
  end.

Definition unrepaired_write_split_fuel (fuel : nat) (max : N) (es : list part) : outcome (list pfile) :=
  if N.ltb max PART_OVERHEAD then Fin Panic            (* max_file_size - 52 underflows *)
  else match unrepaired_write_entries_fuel fuel (max - PART_OVERHEAD) init_wstate es with
       | Fin (Ok st) => Fin (Ok (ws_done st ++ [close_part true st]))
       | Fin (Err k) => Fin (Err k)
       | Fin Panic => Fin Panic
       | OutOfFuel => OutOfFuel
       end.

(* the entry of lib/src/entry.rs's unit tests: FHED "test.txt", FDAT "text", FEND (64 bytes) *)
Definition d6_witness : list part :=
  [[(lit "FHED", [x00; x00; x00; x00; x00; x01] ++ lit "test.txt"); (FDAT, lit "text"); (lit "FEND", [])]].

Lemma unrepaired_hangs : forall fuel, unrepaired_write_split_fuel fuel 60 d6_witness = OutOfFuel.
Proof.
  assert (forall fuel, unrepaired_split_to_parts_fuel fuel (hd [] d6_witness) 8 8 = OutOfFuel) as L.
  { induction fuel as [|f IH]; [reflexivity|]. cbn [unrepaired_split_to_parts_fuel].
    change (split 8 (hd [] d6_witness)) with (@nil chunk, Some (hd [] d6_witness)).
    cbv beta iota. rewrite IH. reflexivity. }
  intros fuel. unfold unrepaired_write_split_fuel.
  change (N.ltb 60 PART_OVERHEAD) with false. change (60 - PART_OVERHEAD) with 8. cbv iota.
  unfold d6_witness. cbn [unrepaired_write_entries_fuel init_wstate ws_written].
  change (N.ltb 8 0) with false. change (8 - 0) with 8. cbv iota.
  change [(lit "FHED", [x00; x00; x00; x00; x00; x01] ++ lit "test.txt"); (FDAT, lit "text"); (lit "FEND", [])]
    with (hd [] d6_witness).
  rewrite L. reflexivity.
Qed.

Lemma unrepaired_underflows : forall fuel max es, max < 52 -> unrepaired_write_split_fuel fuel max es = Fin Panic.
Proof.
  intros fuel max es H. unfold unrepaired_write_split_fuel. rewrite part_overhead_52.
  apply N.ltb_lt in H. rewrite H. reflexivity.
Qed.

(* the repaired code on the same inputs *)
Example repaired_rejects_60 : write_split 60 d6_witness = Err InvalidInput.
Proof. vm_compute. reflexivity. Qed.
Example repaired_rejects_77 : write_split 77 d6_witness = Err InvalidInput.
Proof. vm_compute. reflexivity. Qed.
Example repaired_accepts_78 : exists parts, write_split 78 d6_witness = Ok parts /\ length parts = 3%nat.
Proof. eexists. vm_compute. split; reflexivity. Qed.
Example witness_unfit_60 : indivisible_fit (60 - 52) d6_witness = false.
Proof. vm_compute. reflexivity. Qed.
Example witness_fit_78 : 52 <= 78 /\ indivisible_fit (78 - 52) d6_witness = true /\ total_bytes d6_witness <= U32_MAX.
Proof. vm_compute. repeat split; discriminate. Qed.
Example split_cut_example :
  split 39 (hd [] d6_witness) =
  ([(lit "FHED", [x00; x00; x00; x00; x00; x01] ++ lit "test.txt"); (FDAT, lit "t")],
   Some [(FDAT, lit "ext"); (lit "FEND", [])]).
Proof. vm_compute. reflexivity. Qed.
Example head_fits_example : head_fits 39 (hd [] d6_witness) = true.
Proof. vm_compute. reflexivity. Qed.

(* ---- chunk-type predicates and merge --------------------------------------------------------- *)
Definition noterm (x : list chunk) : bool := forallb (fun c => negb (is_end c)) x.
Definition is_mark (c : chunk) : bool := ty_is ANXT c || ty_is AEND c.
Definition clean (x : list chunk) : bool := forallb (fun c => negb (is_mark c)) x.
(* a raw entry as the reader produces it: chunks without FEND/SEND, then one of them *)
Definition entry_ok (e : part) : Prop := exists a t, e = a ++ [t] /\ noterm a = true /\ is_end t = true.

Lemma stream_ty_cases t : stream_ty t = true -> t = FDAT \/ t = SDAT.
Proof. unfold stream_ty. intros H. apply orb_true_iff in H as [H|H]; apply bytes_eqb_eq in H; auto. Qed.

Lemma stream_not_end c : is_stream c = true -> is_end c = false.
Proof. destruct c as [t d]. rewrite is_stream_pair. intros H. apply stream_ty_cases in H as [->| ->]; reflexivity. Qed.

Lemma stream_not_mark c : is_stream c = true -> is_mark c = false.
Proof. destruct c as [t d]. rewrite is_stream_pair. intros H. apply stream_ty_cases in H as [->| ->]; reflexivity. Qed.

Lemma end_not_stream c : is_end c = true -> is_stream c = false.
Proof. intros H. destruct (is_stream c) eqn:E; [|reflexivity]. rewrite stream_not_end in H by exact E. discriminate. Qed.

Section TypePredicate.
  (* a predicate that looks at the chunk type only and is false on stream chunks *)
  Variable P : chunk -> bool.
  Hypothesis P_ty : forall t a b, P (t, a) = P (t, b).
  Hypothesis P_stream : forall c, is_stream c = true -> P c = false.

  Lemma P_same_ty c d : bytes_eqb (fst d) (fst c) = true -> P d = P c.
  Proof. destruct c as [t a], d as [u b]. cbn [fst]. intros H. apply bytes_eqb_eq in H. subst u. apply P_ty. Qed.

  Lemma merge_keeps_P x : forallb (fun c => negb (P c)) (merge x) = forallb (fun c => negb (P c)) x.
  Proof.
    induction x as [|c r IH]; [reflexivity|]. rewrite merge_cons. cbn [forallb].
    destruct (is_stream c) eqn:Es.
    - rewrite (P_stream c Es). cbn [negb andb]. destruct (snd c) as [|y d] eqn:Ed; [exact IH|].
      rewrite <- IH. unfold fuse. destruct (merge r) as [|d0 r'].
      + cbn [forallb]. rewrite (P_stream c Es). reflexivity.
      + destruct (bytes_eqb (fst d0) (fst c)) eqn:E; cbn [forallb].
        * rewrite (P_same_ty c d0 E).
          replace (P (fst c, snd c ++ snd d0)) with (P c) by (destruct c; apply P_ty). reflexivity.
        * rewrite (P_stream c Es). reflexivity.
    - cbn [forallb]. rewrite IH. reflexivity.
  Qed.
End TypePredicate.

Lemma is_end_ty t a b : is_end (t, a) = is_end (t, b).
Proof. reflexivity. Qed.
Lemma is_mark_ty t a b : is_mark (t, a) = is_mark (t, b).
Proof. reflexivity. Qed.

Lemma noterm_merge x : noterm (merge x) = noterm x.
Proof. exact (merge_keeps_P is_end is_end_ty stream_not_end x). Qed.
Lemma clean_merge x : clean (merge x) = clean x.
Proof. exact (merge_keeps_P is_mark is_mark_ty stream_not_mark x). Qed.

(* a non-stream chunk separates what merge can fuse *)
Lemma fuse_app c l1 t l2 :
  is_stream c = true -> is_stream t = false -> fuse c (l1 ++ t :: l2) = fuse c l1 ++ t :: l2.
Proof.
  intros Hc Ht. destruct l1 as [|d l1]; cbn [app fuse].
  - destruct (bytes_eqb (fst t) (fst c)) eqn:E; [|reflexivity]. exfalso.
    apply bytes_eqb_eq in E. unfold is_stream in *. rewrite E in Ht. congruence.
  - destruct (bytes_eqb (fst d) (fst c)); reflexivity.
Qed.

Lemma merge_sep a t b : is_stream t = false -> merge (a ++ t :: b) = merge a ++ t :: merge b.
Proof.
  intros Ht. induction a as [|c a IH]; cbn [app].
  - rewrite merge_cons, Ht. reflexivity.
  - rewrite (merge_cons c (a ++ t :: b)), (merge_cons c a), IH.
    destruct (is_stream c) eqn:Es; [|reflexivity].
    destruct (snd c); [reflexivity|]. apply fuse_app; assumption.
Qed.

Lemma merge_entry a t : is_end t = true -> merge (a ++ [t]) = merge a ++ [t].
Proof. intros H. rewrite merge_sep by (apply end_not_stream; exact H). reflexivity. Qed.

Lemma entry_ok_merge e : entry_ok e -> entry_ok (merge e).
Proof.
  intros (a & t & -> & Ha & Ht). exists (merge a), t. rewrite merge_entry by exact Ht.
  rewrite noterm_merge. auto.
Qed.

Lemma merge_entries es tail :
  Forall entry_ok es -> merge (concat es ++ tail) = concat (map merge es) ++ merge tail.
Proof.
  induction 1 as [|e es (a & t & -> & Ha & Ht) _ IH]; [reflexivity|].
  cbn [concat map]. rewrite merge_entry by exact Ht. rewrite <- !app_assoc. cbn [app].
  rewrite merge_sep by (apply end_not_stream; exact Ht). rewrite IH. reflexivity.
Qed.

(* ---- a chunk sequence has one decomposition into terminated entries ---------------------------- *)
Lemma noterm_app a b : noterm (a ++ b) = noterm a && noterm b.
Proof. apply forallb_app. Qed.

Lemma first_term_unique : forall a a' t t' r r',
  noterm a = true -> noterm a' = true -> is_end t = true -> is_end t' = true ->
  a ++ t :: r = a' ++ t' :: r' -> a = a' /\ t = t' /\ r = r'.
Proof.
  induction a as [|c a IH]; intros [|c' a'] t t' r r' Ha Ha' Ht Ht' H; cbn [app] in H.
  - inversion H; auto.
  - inversion H; subst. cbn [noterm forallb] in Ha'. rewrite Ht in Ha'. discriminate.
  - inversion H; subst. cbn [noterm forallb] in Ha. rewrite Ht' in Ha. discriminate.
  - inversion H; subst. cbn [noterm forallb] in Ha, Ha'.
    apply andb_true_iff in Ha as [_ Ha]. apply andb_true_iff in Ha' as [_ Ha'].
    destruct (IH a' t t' r r' Ha Ha' Ht Ht' H2) as (-> & -> & ->). auto.
Qed.

Lemma decomposition_unique : forall A B ca cb,
  Forall entry_ok A -> Forall entry_ok B -> noterm ca = true -> noterm cb = true ->
  concat A ++ ca = concat B ++ cb -> A = B /\ ca = cb.
Proof.
  induction A as [|e A IH]; intros B ca cb HA HB Ca Cb H.
  - destruct B as [|e' B]; [cbn in H; auto|]. exfalso.
    inversion HB as [|? ? (a & t & -> & _ & Ht) _]; subst.
    cbn [concat app] in H. rewrite <- !app_assoc in H. subst ca.
    rewrite noterm_app in Ca. cbn [app noterm forallb] in Ca. rewrite Ht in Ca.
    cbn [negb andb] in Ca. rewrite andb_false_r in Ca. discriminate.
  - inversion HA as [|? ? (a & t & -> & Ha & Ht) HA']; subst.
    destruct B as [|e' B].
    + exfalso. cbn [concat app] in H. rewrite <- !app_assoc in H. subst cb.
      rewrite noterm_app in Cb. cbn [app noterm forallb] in Cb. rewrite Ht in Cb.
      cbn [negb andb] in Cb. rewrite andb_false_r in Cb. discriminate.
    + inversion HB as [|? ? (a' & t' & -> & Ha' & Ht') HB']; subst.
      cbn [concat] in H. rewrite <- !app_assoc in H. cbn [app] in H.
      destruct (first_term_unique _ _ _ _ _ _ Ha Ha' Ht Ht' H) as (-> & -> & H').
      destruct (IH B ca cb HA' HB' Ca Cb H') as (-> & ->). auto.
Qed.

(* ---- scan ------------------------------------------------------------------------------------------ *)
Lemma scan_spec : forall x buf, noterm buf = true ->
  buf ++ x = concat (fst (scan buf x)) ++ snd (scan buf x) /\
  Forall entry_ok (fst (scan buf x)) /\ noterm (snd (scan buf x)) = true.
Proof.
  induction x as [|c r IH]; intros buf Hb; cbn [scan].
  - cbn [fst snd concat app]. rewrite app_nil_r. auto.
  - destruct (is_end c) eqn:E.
    + destruct (IH [] eq_refl) as (A & B & C). destruct (scan [] r) as [es b]. cbn [fst snd] in *.
      repeat split; [|constructor; [exists buf, c; auto | exact B] | exact C].
      cbn [concat]. rewrite <- !app_assoc. cbn [app]. rewrite <- A. reflexivity.
    + assert (noterm (buf ++ [c]) = true) as Hb'.
      { rewrite noterm_app, Hb. cbn [noterm forallb]. rewrite E. reflexivity. }
      destruct (IH (buf ++ [c]) Hb') as (A & B & C). rewrite <- app_assoc in A. cbn [app] in A. auto.
Qed.

Lemma scan_app : forall a buf b,
  scan buf (a ++ b) = (fst (scan buf a) ++ fst (scan (snd (scan buf a)) b), snd (scan (snd (scan buf a)) b)).
Proof.
  induction a as [|c a IH]; intros buf b; cbn [app scan].
  - cbn [fst snd app]. destruct (scan buf b); reflexivity.
  - destruct (is_end c).
    + rewrite (IH [] b). destruct (scan [] a) as [es bb]. cbn [fst snd app]. reflexivity.
    + apply IH.
Qed.

(* the entries a reader finds in a re-cut sequence are the original entries up to stream cuts *)
Lemma recut_entries es flat :
  Forall entry_ok es -> merge flat = merge (concat es) ->
  map merge (fst (scan [] flat)) = map merge es.
Proof.
  intros Hes Hm. destruct (scan_spec flat [] eq_refl) as (A & B & C). cbn [app] in A.
  pose proof (merge_entries _ (snd (scan [] flat)) B) as M1. rewrite <- A in M1.
  pose proof (merge_entries es [] Hes) as M2. rewrite app_nil_r in M2. rewrite <- Hm, M1 in M2.
  change (merge []) with (@nil chunk) in M2.
  apply decomposition_unique in M2 as [E _]; [exact E | | | |reflexivity].
  - apply Forall_map. eapply Forall_impl; [|exact B]. intros e. apply entry_ok_merge.
  - apply Forall_map. eapply Forall_impl; [|exact Hes]. intros e. apply entry_ok_merge.
  - rewrite noterm_merge. exact C.
Qed.

(* ---- the reader on well-formed parts ------------------------------------------------------------- *)
Lemma read_body_scan : forall b buf next tl, clean b = true ->
  read_body buf next (b ++ tl) =
  match read_body (snd (scan buf b)) next tl with
  | Ok (es, b', n) => Ok (fst (scan buf b) ++ es, b', n)
  | Err k => Err k
  | Panic => Panic
  end.
Proof.
  induction b as [|c r IH]; intros buf next tl Hc; cbn [app scan].
  - cbn [fst snd app]. destruct (read_body buf next tl) as [[[es b'] n]| |]; reflexivity.
  - cbn [clean forallb] in Hc. apply andb_true_iff in Hc as [Hm Hr]. apply negb_true_iff in Hm.
    unfold is_mark in Hm. apply orb_false_iff in Hm as [M1 M2].
    cbn [read_body]. destruct (is_end c).
    + rewrite (IH [] next tl Hr). destruct (scan [] r) as [es0 b0]. cbn [fst snd].
      destruct (read_body b0 next tl) as [[[es b'] n]| |]; reflexivity.
    + rewrite M1, M2. apply IH. exact Hr.
Qed.

Lemma read_body_nonlast b buf : clean b = true ->
  read_body buf false (b ++ [anxt_chunk; aend_chunk]) = Ok (fst (scan buf b), snd (scan buf b), true).
Proof.
  intros H. rewrite read_body_scan by exact H.
  change (read_body (snd (scan buf b)) false [anxt_chunk; aend_chunk])
    with (Ok (@nil part, snd (scan buf b), true)).
  cbv beta iota. rewrite app_nil_r. reflexivity.
Qed.

Lemma read_body_last b buf : clean b = true ->
  read_body buf false (b ++ [aend_chunk]) = Ok (fst (scan buf b), snd (scan buf b), false).
Proof.
  intros H. rewrite read_body_scan by exact H.
  change (read_body (snd (scan buf b)) false [aend_chunk])
    with (Ok (@nil part, snd (scan buf b), false)).
  cbv beta iota. rewrite app_nil_r. reflexivity.
Qed.

Lemma read_ahed n body : n < 2 ^ 32 -> read_part_header (ahed_chunk n :: body) = Ok (n, body).
Proof.
  intros H. unfold read_part_header, ahed_chunk. cbn [ty_is fst snd].
  change (bytes_eqb AHED AHED) with true. cbv iota.
  rewrite ahed_inv by (unfold wf_ahed; cbn [a_major a_minor a_number]; lia). reflexivity.
Qed.

Lemma read_chain_assemble : forall bodies n prev buf lastb,
  Forall (fun b => clean b = true) bodies -> clean lastb = true -> n + len bodies < 2 ^ 32 ->
  (prev = None \/ (prev = Some (n - 1) /\ 0 < n)) ->
  read_chain prev buf (assemble_nonlast n bodies ++ [ahed_chunk (n + len bodies) :: lastb ++ [aend_chunk]]) =
  Ok (fst (scan buf (concat bodies ++ lastb))).
Proof.
  induction bodies as [|b r IH]; intros n prev buf lastb Hb Hl Hn Hp.
  - cbn [assemble_nonlast app concat read_chain]. unfold len in *; cbn [length] in *. rewrite N.add_0_r in *.
    rewrite read_ahed by exact Hn.
    assert ((match prev with None => true | Some p => N.eqb (p + 1) n end) = true) as ->.
    { destruct Hp as [->|[-> Hp]]; [reflexivity|]. apply N.eqb_eq. lia. }
    rewrite read_body_last by exact Hl. reflexivity.
  - inversion Hb as [|? ? Hb1 Hb2]; subst. rewrite len_cons in Hn.
    cbn [assemble_nonlast app concat read_chain].
    rewrite read_ahed by lia.
    assert ((match prev with None => true | Some p => N.eqb (p + 1) n end) = true) as ->.
    { destruct Hp as [->|[-> Hp]]; [reflexivity|]. apply N.eqb_eq. lia. }
    rewrite read_body_nonlast by exact Hb1.
    rewrite len_cons. replace (n + (1 + len r)) with (n + 1 + len r) by lia.
    rewrite (IH (n + 1) (Some n) (snd (scan buf b)) lastb Hb2 Hl);
      [| lia | right; split; [f_equal; lia | lia]].
    rewrite <- app_assoc, (scan_app b buf (concat r ++ lastb)). cbn [fst]. reflexivity.
Qed.

(* ---- the part number stays a u32 ---------------------------------------------------------------- *)
Lemma add_piece_num B st p st' :
  add_piece B st p = Ok st' -> ws_num st <= U32_MAX -> ws_num st' <= U32_MAX.
Proof.
  unfold add_piece. destruct (N.ltb B (ws_written st + bytes_len p)).
  - destruct (N.ltb U32_MAX (ws_num st + 1)) eqn:E; [discriminate|]. apply N.ltb_ge in E.
    intros H _; inversion H; subst; cbn [ws_num]. exact E.
  - intros H Hn; inversion H; subst; cbn [ws_num]. exact Hn.
Qed.

Lemma add_pieces_num B : forall ps st st',
  add_pieces B st ps = Ok st' -> ws_num st <= U32_MAX -> ws_num st' <= U32_MAX.
Proof.
  induction ps as [|p ps IH]; intros st st' H Hn; cbn [add_pieces] in H.
  - inversion H; subst. exact Hn.
  - destruct (add_piece B st p) as [st1| |] eqn:E; cbn [bind] in H; try discriminate.
    eapply IH; [exact H|]. eapply add_piece_num; eauto.
Qed.

Lemma we_num B fuel : forall es st st',
  write_entries_fuel fuel B st es = Fin (Ok st') -> ws_num st <= U32_MAX -> ws_num st' <= U32_MAX.
Proof.
  induction es as [|e r IH]; intros st st' H Hn; cbn [write_entries_fuel] in H.
  - inversion H; subst. exact Hn.
  - destruct (N.ltb B (ws_written st)); [discriminate|].
    destruct (split_to_parts_fuel fuel e (B - ws_written st) B) as [[ps| |]|]; try discriminate.
    destruct (add_pieces B st ps) as [st1| |] eqn:A; try discriminate.
    eapply IH; [exact H|]. eapply add_pieces_num; eauto.
Qed.

Lemma clean_app a b : clean (a ++ b) = clean a && clean b.
Proof. apply forallb_app. Qed.

Lemma clean_concat l : clean (concat l) = true -> Forall (fun b => clean b = true) l.
Proof.
  induction l as [|b l IH]; cbn [concat]; [constructor|].
  rewrite clean_app. intros H. apply andb_true_iff in H as [H1 H2]. constructor; auto.
Qed.

(* Reading the parts in sequence (reader chain: buffer carried over, numbers checked) finds
   exactly the original entries, each up to where its stream chunks are cut. *)
Theorem parts_read_back max es parts :
  write_split max es = Ok parts -> Forall entry_ok es -> clean (concat es) = true ->
  exists es', read_parts parts = Ok es' /\ map merge es' = map merge es.
Proof.
  intros H Hes Hc. apply write_split_ok_inv in H as (Hm & st & W & ->).
  destruct (we_shape _ _ es _ _ [] init_shape W) as (y & (bodies & S1 & S2 & S3) & My).
  assert (ws_num st <= U32_MAX) as Hn.
  { eapply we_num; [exact W|]. cbn [init_wstate ws_num]. unfold U32_MAX. lia. }
  cbn [app] in S3. specialize (My []). rewrite !app_nil_r in My. subst y.
  assert (clean (concat bodies ++ ws_cur st) = true) as Hcl.
  { rewrite <- clean_merge, My, clean_merge. exact Hc. }
  exists (fst (scan [] (concat bodies ++ ws_cur st))). split.
  - unfold read_parts, close_part. rewrite S1, S2.
    rewrite clean_app in Hcl. apply andb_true_iff in Hcl as [C1 C2].
    replace (ahed_chunk (len bodies)) with (ahed_chunk (0 + len bodies)) by (rewrite N.add_0_l; reflexivity).
    apply read_chain_assemble; [apply clean_concat; exact C1 | exact C2 | | left; reflexivity].
    rewrite N.add_0_l, <- S2. change (2 ^ 32) with 4294967296. unfold U32_MAX in Hn. lia.
  - apply recut_entries; assumption.
Qed.

Example read_back_example :
  exists parts, write_split 78 d6_witness = Ok parts /\ read_parts parts = Ok d6_witness.
Proof. eexists. split; vm_compute; reflexivity. Qed.
Example read_back_cut_example :
  exists parts es', write_split 91 d6_witness = Ok parts /\ read_parts parts = Ok es' /\
                    es' <> d6_witness /\ map merge es' = map merge d6_witness.
Proof. do 2 eexists. repeat split; try (vm_compute; reflexivity). vm_compute. discriminate. Qed.

(* ---- finding F-C04-foreign-stream: "up to stream cuts" is visible for a stream-typed chunk that
   is foreign to its entry (SDAT inside FHED..FEND, FDAT inside SHED..SEND): the splitter cuts by
   chunk type alone, the entry parser hands such a chunk out unchanged as an extra chunk ------------- *)
Definition foreign_witness : list part :=
  [[(lit "FHED", [x00; x00; x00; x00; x00; x00; x61]);
    (SDAT, [x01; x02; x03; x04; x05; x06; x07; x08]); (lit "FEND", [])]].

Lemma foreign_stream_chunk_recut_refuted :
  exists parts es', write_split 71 foreign_witness = Ok parts /\ read_parts parts = Ok es' /\
    map (filter (ty_is SDAT)) es' <> map (filter (ty_is SDAT)) foreign_witness /\
    map merge es' = map merge foreign_witness.
Proof. do 2 eexists. repeat split; try (vm_compute; reflexivity). vm_compute. discriminate. Qed.
