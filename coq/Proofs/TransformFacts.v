(* TransformFacts.v — frame, effect, idempotence and shape of the archive-editing commands
   (Model/Transform.v).  Glob matching is the Section variable `sel`. *)
From PNA Require Import Base Codec Chunk CliCodec Transform BaseFacts CliCodecFacts.
Require Import ZArith ZifyN ZifyNat ZifyBool.
Open Scope N_scope.

(* ---- res monad inversion ----------------------------------------------------------------- *)
Lemma bind_ok {A B} (r : res A) (f : A -> res B) b :
  bind r f = Ok b -> exists a, r = Ok a /\ f a = Ok b.
Proof. destruct r; cbn; intros H; try discriminate. eauto. Qed.

Ltac inv_bind H :=
  let a := fresh "v" in let H1 := fresh "Hb" in let H2 := fresh "Hk" in
  apply bind_ok in H; destruct H as (a & H1 & H2).

(* ---- entries of an archive ------------------------------------------------------------------ *)
Lemma entries_app a b : entries (a ++ b) = entries a ++ entries b.
Proof. unfold entries. now rewrite map_app, concat_app. Qed.
Lemma entries_cons it a : entries (it :: a) = item_entries it ++ entries a.
Proof. reflexivity. Qed.
Lemma entries_map_normal es : entries (map Normal es) = es.
Proof. induction es as [|e r IH]; [reflexivity|]. cbn [map]. rewrite entries_cons, IH. reflexivity. Qed.

(* ---- map_entries ----------------------------------------------------------------------------- *)
Definition olist {A} (o : option A) : list A := match o with Some a => [a] | None => [] end.

Lemma map_entries_cons f e r es' :
  map_entries f (e :: r) = Ok es' ->
  exists o r', f e = Ok o /\ map_entries f r = Ok r' /\ es' = olist o ++ r'.
Proof.
  cbn [map_entries]. intros H. inv_bind H. inv_bind Hk. exists v, v0.
  repeat split; auto. destruct v; inversion Hk0; reflexivity.
Qed.

Lemma map_entries_app f l1 : forall l2 r1 r2,
  map_entries f l1 = Ok r1 -> map_entries f l2 = Ok r2 -> map_entries f (l1 ++ l2) = Ok (r1 ++ r2).
Proof.
  induction l1 as [|e l1 IH]; intros l2 r1 r2 H1 H2.
  - cbn in H1. inversion H1. exact H2.
  - apply map_entries_cons in H1. destruct H1 as (o & r' & Hf & Hr & ->).
    cbn [app map_entries]. rewrite Hf. cbn [bind]. rewrite (IH _ _ _ Hr H2). cbn [bind].
    destruct o; reflexivity.
Qed.

(* the entries of the result are the transformer mapped over the entries of the input, in order:
   neither strategy reorders, duplicates or invents entries *)
Lemma transform_item_entries keep pw f it l :
  transform_item keep pw f it = Ok l -> map_entries f (item_entries it) = Ok (entries l).
Proof.
  destruct it as [e|h x es]; cbn [transform_item item_entries].
  - intros H. inv_bind H. cbn [map_entries]. rewrite Hb. cbn [bind].
    destruct v; inversion Hk; reflexivity.
  - destruct (negb (sh_cipher h =? 0) && negb pw); [discriminate|].
    intros H. inv_bind H. rewrite Hb. destruct keep; inversion Hk.
    + cbn. now rewrite app_nil_r.
    + now rewrite entries_map_normal.
Qed.

Theorem transform_entries keep pw f : forall a a',
  transform keep pw f a = Ok a' -> map_entries f (entries a) = Ok (entries a').
Proof.
  induction a as [|it a IH]; intros a' H.
  - inversion H. reflexivity.
  - cbn [transform] in H. inv_bind H. inv_bind Hk. inversion Hk0; subst a'.
    rewrite entries_cons, entries_app.
    apply map_entries_app; [eapply transform_item_entries; eauto | auto].
Qed.

(* ---- attribute-wise facts about the per-command transformers ------------------------------------ *)
(* e' agrees with e on everything except the listed attribute *)
Definition same_but_perm (e e' : lentry) : Prop :=
  le_name e' = le_name e /\ le_kind e' = le_kind e /\ le_hdr e' = le_hdr e /\ le_content e' = le_content e /\
  le_ctime e' = le_ctime e /\ le_mtime e' = le_mtime e /\ le_atime e' = le_atime e /\
  le_xattrs e' = le_xattrs e /\ le_extras e' = le_extras e.
Definition same_but_xattrs (e e' : lentry) : Prop :=
  le_name e' = le_name e /\ le_kind e' = le_kind e /\ le_hdr e' = le_hdr e /\ le_content e' = le_content e /\
  le_ctime e' = le_ctime e /\ le_mtime e' = le_mtime e /\ le_atime e' = le_atime e /\
  le_perm e' = le_perm e /\ le_extras e' = le_extras e.
Definition same_but_extras (e e' : lentry) : Prop :=
  le_name e' = le_name e /\ le_kind e' = le_kind e /\ le_hdr e' = le_hdr e /\ le_content e' = le_content e /\
  le_ctime e' = le_ctime e /\ le_mtime e' = le_mtime e /\ le_atime e' = le_atime e /\
  le_perm e' = le_perm e /\ le_xattrs e' = le_xattrs e.

Lemma chmod_attrs m e :
  same_but_perm e (cmd_chmod m e) /\
  le_perm (cmd_chmod m e) = option_map (fun p => perm_with_mode p (apply_mode m (p_mode p))) (le_perm e).
Proof. unfold same_but_perm. cbn. repeat split. Qed.

Lemma chown_attrs u g e :
  same_but_perm e (cmd_chown u g e) /\
  match le_perm e, le_perm (cmd_chown u g e) with
  | Some p, Some p' =>
    p_mode p' = p_mode p /\
    (p_uid p', p_uname p') = match u with Some un => un | None => (p_uid p, p_uname p) end /\
    (p_gid p', p_gname p') = match g with Some gn => gn | None => (p_gid p, p_gname p) end
  | None, None => True
  | _, _ => False
  end.
Proof.
  unfold same_but_perm. cbn. repeat split.
  destruct (le_perm e) as [p|]; cbn; [|exact I].
  destruct u as [[? ?]|], g as [[? ?]|]; cbn; repeat split.
Qed.

(* -- IndexMap facts -- *)
Definition xnames (m : list xattr) : list bytes := map x_name m.
Definition has_name (k : bytes) (m : list xattr) : bool := existsb (fun x => bytes_eqb k (x_name x)) m.

Lemma bytes_eqb_eq a b : bytes_eqb a b = true <-> a = b.
Proof.
  split; [|intros ->; apply bytes_eqb_refl].
  destruct (list_eq_dec Byte.byte_eq_dec a b) as [E|NE]; [auto|].
  now rewrite (bytes_eqb_neq _ _ NE).
Qed.
Lemma bytes_eqb_false a b : bytes_eqb a b = false <-> a <> b.
Proof.
  split.
  - intros H E. subst. rewrite bytes_eqb_refl in H. discriminate.
  - apply bytes_eqb_neq.
Qed.
Lemma bytes_eqb_sym a b : bytes_eqb a b = bytes_eqb b a.
Proof.
  destruct (bytes_eqb a b) eqn:E.
  - apply bytes_eqb_eq in E. subst. now rewrite bytes_eqb_refl.
  - apply bytes_eqb_false in E. symmetry. apply bytes_eqb_false. congruence.
Qed.

Lemma im_insert_names_in k v m : has_name k m = true -> xnames (im_insert k v m) = xnames m.
Proof.
  induction m as [|x r IH]; cbn; [discriminate|].
  destruct (bytes_eqb k (x_name x)) eqn:E; cbn; [reflexivity|].
  intros H. f_equal. apply IH. exact H.
Qed.
Lemma im_insert_names_out k v m : has_name k m = false -> xnames (im_insert k v m) = xnames m ++ [k].
Proof.
  induction m as [|x r IH]; cbn; [reflexivity|].
  destruct (bytes_eqb k (x_name x)) eqn:E; cbn; [discriminate|].
  intros H. f_equal. apply IH. exact H.
Qed.
Lemma has_name_in k m : has_name k m = true <-> In k (xnames m).
Proof.
  unfold has_name, xnames. rewrite existsb_exists, in_map_iff. split.
  - intros (x & Hi & He). apply bytes_eqb_eq in He. eauto.
  - intros (x & He & Hi). exists x. split; auto. apply bytes_eqb_eq. auto.
Qed.
Lemma NoDup_snoc {A} (l : list A) k : NoDup l -> ~ In k l -> NoDup (l ++ [k]).
Proof.
  induction l as [|a l IH]; cbn; intros H Hn.
  - constructor; [intros []|constructor].
  - inversion H; subst. constructor.
    + rewrite in_app_iff. cbn. intros [?|[?|[]]]; [auto|subst; auto].
    + apply IH; auto.
Qed.
Lemma im_insert_nodup k v m : NoDup (xnames m) -> NoDup (xnames (im_insert k v m)).
Proof.
  intros H. destruct (has_name k m) eqn:E.
  - now rewrite im_insert_names_in.
  - rewrite im_insert_names_out by auto.
    apply NoDup_snoc; auto. intros Hin. apply has_name_in in Hin. congruence.
Qed.

Lemma im_insert_out k v m : has_name k m = false -> im_insert k v m = m ++ [{| x_name := k; x_value := v |}].
Proof.
  induction m as [|x r IH]; cbn; [reflexivity|].
  destruct (bytes_eqb k (x_name x)); cbn; [discriminate|]. intros H. now rewrite IH.
Qed.
Lemma im_insert_idem k v m : im_insert k v (im_insert k v m) = im_insert k v m.
Proof.
  induction m as [|x r IH]; cbn.
  - now rewrite bytes_eqb_refl.
  - destruct (bytes_eqb k (x_name x)) eqn:E; cbn; rewrite E; [reflexivity|now rewrite IH].
Qed.
Lemma im_insert_in k v m : In {| x_name := k; x_value := v |} (im_insert k v m).
Proof.
  induction m as [|x r IH]; cbn; [auto|].
  destruct (bytes_eqb k (x_name x)) eqn:E; cbn; [|auto].
  apply bytes_eqb_eq in E. subst. auto.
Qed.
Lemma im_remove_cons k x m :
  im_remove k (x :: m) = if bytes_eqb k (x_name x) then im_remove k m else x :: im_remove k m.
Proof. unfold im_remove. cbn. destruct (bytes_eqb k (x_name x)); reflexivity. Qed.
Lemma im_remove_insert_same k v m : im_remove k (im_insert k v m) = im_remove k m.
Proof.
  induction m as [|x r IH]; cbn [im_insert].
  - rewrite im_remove_cons. cbn. now rewrite bytes_eqb_refl.
  - destruct (bytes_eqb k (x_name x)) eqn:E; rewrite !im_remove_cons; cbn [x_name]; rewrite E; [reflexivity|now rewrite IH].
Qed.
Lemma im_remove_insert_other r k v m : r <> k ->
  im_remove r (im_insert k v m) = im_insert k v (im_remove r m).
Proof.
  intros NE. assert (Erk : bytes_eqb r k = false) by now apply bytes_eqb_false.
  induction m as [|x m IH]; cbn [im_insert].
  - rewrite im_remove_cons. cbn. now rewrite Erk.
  - destruct (bytes_eqb k (x_name x)) eqn:E; rewrite !im_remove_cons; cbn [x_name].
    + apply bytes_eqb_eq in E. rewrite <- E, Erk. cbn [im_insert]. rewrite <- E, bytes_eqb_refl. reflexivity.
    + destruct (bytes_eqb r (x_name x)); [exact IH|]. cbn [im_insert]. rewrite E. now rewrite IH.
Qed.
Lemma im_remove_idem k m : im_remove k (im_remove k m) = im_remove k m.
Proof.
  unfold im_remove. induction m as [|x r IH]; cbn; [reflexivity|].
  destruct (negb (bytes_eqb k (x_name x))) eqn:E; cbn; [rewrite E|]; now rewrite ?IH.
Qed.
Lemma im_remove_nodup k m : NoDup (xnames m) -> NoDup (xnames (im_remove k m)).
Proof.
  unfold im_remove, xnames. induction m as [|x r IH]; cbn; intros H; [constructor|].
  inversion H; subst. destruct (negb (bytes_eqb k (x_name x))); cbn; [|auto].
  constructor; [|auto]. rewrite in_map_iff in *. intros (y & Hy & Hin). apply filter_In in Hin. apply H2. exists y. tauto.
Qed.
Lemma im_remove_absent k m : ~ In k (xnames (im_remove k m)).
Proof.
  unfold im_remove, xnames. rewrite in_map_iff. intros (x & Hx & Hin). apply filter_In in Hin.
  destruct Hin as [_ Hn]. subst k. rewrite bytes_eqb_refl in Hn. discriminate.
Qed.

Lemma im_fold_nodup l : forall acc, NoDup (xnames acc) ->
  NoDup (xnames (fold_left (fun m x => im_insert (x_name x) (x_value x) m) l acc)).
Proof. induction l as [|x r IH]; cbn; intros acc H; [auto|]. apply IH. now apply im_insert_nodup. Qed.
Lemma im_collect_nodup l : NoDup (xnames (im_collect l)).
Proof. apply im_fold_nodup. constructor. Qed.

Lemma im_fold_fix l : forall acc, NoDup (xnames (acc ++ l)) ->
  fold_left (fun m x => im_insert (x_name x) (x_value x) m) l acc = acc ++ l.
Proof.
  induction l as [|x r IH]; cbn; intros acc H; [now rewrite app_nil_r|].
  assert (Hn : has_name (x_name x) acc = false).
  { destruct (has_name (x_name x) acc) eqn:E; [|reflexivity]. exfalso.
    apply has_name_in in E. unfold xnames in H. rewrite map_app in H. cbn in H.
    apply NoDup_remove_2 in H. apply H. rewrite in_app_iff. auto. }
  rewrite im_insert_out by exact Hn. destruct x as [n v]. cbn.
  rewrite IH; rewrite <- app_assoc; [reflexivity|exact H].
Qed.
(* an attribute list without repeated names is its own IndexMap *)
Lemma im_collect_fix m : NoDup (xnames m) -> im_collect m = m.
Proof. intros H. unfold im_collect. now rewrite im_fold_fix. Qed.

Definition xattr_step (set : option (bytes * bytes)) (remove : option bytes) (m : list xattr) : list xattr :=
  let m := match set with Some (n, v) => im_insert n v m | None => m end in
  match remove with Some n => im_remove n m | None => m end.
Lemma cmd_xattr_step s r e : le_xattrs (cmd_xattr s r e) = xattr_step s r (im_collect (le_xattrs e)).
Proof. destruct s as [[? ?]|], r; reflexivity. Qed.
Lemma xattr_step_nodup s r m : NoDup (xnames m) -> NoDup (xnames (xattr_step s r m)).
Proof.
  intros H. unfold xattr_step. destruct s as [[n v]|], r as [k|]; auto using im_insert_nodup, im_remove_nodup.
Qed.
Lemma xattr_step_idem s r m : xattr_step s r (xattr_step s r m) = xattr_step s r m.
Proof.
  unfold xattr_step. destruct s as [[n v]|], r as [k|].
  - destruct (list_eq_dec Byte.byte_eq_dec k n) as [->|NE].
    + rewrite !im_remove_insert_same. apply im_remove_idem.
    + rewrite (im_remove_insert_other k n v m NE). rewrite im_insert_idem.
      rewrite (im_remove_insert_other k n v _ NE). now rewrite im_remove_idem.
  - apply im_insert_idem.
  - apply im_remove_idem.
  - reflexivity.
Qed.

Lemma xattr_attrs s r e :
  same_but_xattrs e (cmd_xattr s r e) /\ NoDup (xnames (le_xattrs (cmd_xattr s r e))).
Proof.
  split; [unfold same_but_xattrs; destruct s as [[? ?]|], r; cbn; repeat split|].
  rewrite cmd_xattr_step. apply xattr_step_nodup, im_collect_nodup.
Qed.
(* the named attribute has the new value (once), unless the same command also removes it *)
Lemma xattr_set_effect n v r e : r <> Some n ->
  In {| x_name := n; x_value := v |} (le_xattrs (cmd_xattr (Some (n, v)) r e)).
Proof.
  intros NE. rewrite cmd_xattr_step. unfold xattr_step. destruct r as [k|]; [|apply im_insert_in].
  unfold im_remove. apply filter_In. split; [apply im_insert_in|]. cbn.
  apply negb_true_iff, bytes_eqb_false. congruence.
Qed.
Lemma xattr_remove_effect s k e : ~ In k (xnames (le_xattrs (cmd_xattr s (Some k) e))).
Proof. rewrite cmd_xattr_step. unfold xattr_step. apply im_remove_absent. Qed.
(* every attribute the command does not name keeps its value and its relative position *)
Definition unnamed (ks : list bytes) (x : xattr) : bool := negb (mem_bytes (x_name x) ks).
Lemma mem_bytes_in x l : mem_bytes x l = true <-> In x l.
Proof.
  unfold mem_bytes. rewrite existsb_exists. split.
  - intros (y & Hi & He). apply bytes_eqb_eq in He. now subst.
  - intros H. exists x. split; auto. apply bytes_eqb_refl.
Qed.
Lemma filter_unnamed_insert ks k v m : In k ks ->
  filter (unnamed ks) (im_insert k v m) = filter (unnamed ks) m.
Proof.
  intros Hin. assert (Hk : mem_bytes k ks = true) by now apply mem_bytes_in.
  induction m as [|x r IH]; cbn.
  - unfold unnamed. cbn. now rewrite Hk.
  - destruct (bytes_eqb k (x_name x)) eqn:E; cbn; [|now rewrite IH].
    apply bytes_eqb_eq in E. unfold unnamed. cbn. rewrite <- E, Hk. reflexivity.
Qed.
Lemma filter_unnamed_remove ks k m : In k ks ->
  filter (unnamed ks) (im_remove k m) = filter (unnamed ks) m.
Proof.
  intros Hin. assert (Hk : mem_bytes k ks = true) by now apply mem_bytes_in.
  unfold im_remove. induction m as [|x r IH]; cbn; [reflexivity|].
  destruct (bytes_eqb k (x_name x)) eqn:E; cbn.
  - apply bytes_eqb_eq in E. unfold unnamed at 2. rewrite <- E, Hk. cbn. exact IH.
  - destruct (unnamed ks x); now rewrite IH.
Qed.
Definition xattr_named (s : option (bytes * bytes)) (r : option bytes) : list bytes :=
  olist (option_map fst s) ++ olist r.
Lemma xattr_frame s r e :
  filter (unnamed (xattr_named s r)) (le_xattrs (cmd_xattr s r e))
  = filter (unnamed (xattr_named s r)) (im_collect (le_xattrs e)).
Proof.
  rewrite cmd_xattr_step. unfold xattr_step, xattr_named.
  destruct s as [[n v]|], r as [k|]; cbn [option_map fst olist app].
  - rewrite filter_unnamed_remove by (cbn; auto). apply filter_unnamed_insert. cbn; auto.
  - apply filter_unnamed_insert. cbn; auto.
  - apply filter_unnamed_remove. cbn; auto.
  - reflexivity.
Qed.
