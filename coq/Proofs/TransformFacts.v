(* TransformFacts.v — frame, effect, idempotence and shape of the archive-editing commands
   (Model/Transform.v).  Glob matching is the Section variable `sel`. *)
From PNA Require Import Base Codec Chunk CliCodec Transform BaseFacts CliCodecFacts.
Require Import ZArith ZifyN ZifyNat ZifyBool.
Open Scope N_scope.

(* ---- res monad inversion ----------------------------------------------------------------- *)
Lemma bind_ok {A B} (r : res A) (f : A -> res B) b :
  bind r f = Ok b -> exists a, r = Ok a /\ f a = Ok b.
Proof. destruct r; cbn; intros H; try discriminate. eauto. Qed.

Ltac inv_bind H :=
  let a := fresh "v" in let H1 := fresh "Hb" in let H2 := fresh "Hk" in
  apply bind_ok in H; destruct H as (a & H1 & H2).

(* ---- entries of an archive ------------------------------------------------------------------ *)
Lemma entries_app a b : entries (a ++ b) = entries a ++ entries b.
Proof. unfold entries. now rewrite map_app, concat_app. Qed.
Lemma entries_cons it a : entries (it :: a) = item_entries it ++ entries a.
Proof. reflexivity. Qed.
Lemma entries_map_normal es : entries (map Normal es) = es.
Proof. induction es as [|e r IH]; [reflexivity|]. cbn [map]. rewrite entries_cons, IH. reflexivity. Qed.

(* ---- map_entries ----------------------------------------------------------------------------- *)
Definition olist {A} (o : option A) : list A := match o with Some a => [a] | None => [] end.

Lemma map_entries_cons f e r es' :
  map_entries f (e :: r) = Ok es' ->
  exists o r', f e = Ok o /\ map_entries f r = Ok r' /\ es' = olist o ++ r'.
Proof.
  cbn [map_entries]. intros H. inv_bind H. inv_bind Hk. exists v, v0.
  repeat split; auto. destruct v; inversion Hk0; reflexivity.
Qed.

Lemma map_entries_app f l1 : forall l2 r1 r2,
  map_entries f l1 = Ok r1 -> map_entries f l2 = Ok r2 -> map_entries f (l1 ++ l2) = Ok (r1 ++ r2).
Proof.
  induction l1 as [|e l1 IH]; intros l2 r1 r2 H1 H2.
  - cbn in H1. inversion H1. exact H2.
  - apply map_entries_cons in H1. destruct H1 as (o & r' & Hf & Hr & ->).
    cbn [app map_entries]. rewrite Hf. cbn [bind]. rewrite (IH _ _ _ Hr H2). cbn [bind].
    destruct o; reflexivity.
Qed.

(* the entries of the result are the transformer mapped over the entries of the input, in order:
   neither strategy reorders, duplicates or invents entries *)
Lemma transform_item_entries keep pw f it l :
  transform_item keep pw f it = Ok l -> map_entries f (item_entries it) = Ok (entries l).
Proof.
  destruct it as [e|h x es]; cbn [transform_item item_entries].
  - intros H. inv_bind H. cbn [map_entries]. rewrite Hb. cbn [bind].
    destruct v; inversion Hk; reflexivity.
  - destruct (negb (sh_cipher h =? 0) && negb pw); [discriminate|].
    intros H. inv_bind H. rewrite Hb. destruct keep; inversion Hk.
    + cbn. now rewrite app_nil_r.
    + now rewrite entries_map_normal.
Qed.

Theorem transform_entries keep pw f : forall a a',
  transform keep pw f a = Ok a' -> map_entries f (entries a) = Ok (entries a').
Proof.
  induction a as [|it a IH]; intros a' H.
  - inversion H. reflexivity.
  - cbn [transform] in H. inv_bind H. inv_bind Hk. inversion Hk0; subst a'.
    rewrite entries_cons, entries_app.
    apply map_entries_app; [eapply transform_item_entries; eauto | auto].
Qed.

(* ---- attribute-wise facts about the per-command transformers ------------------------------------ *)
(* e' agrees with e on everything except the listed attribute *)
Definition same_but_perm (e e' : lentry) : Prop :=
  le_name e' = le_name e /\ le_kind e' = le_kind e /\ le_hdr e' = le_hdr e /\ le_content e' = le_content e /\
  le_ctime e' = le_ctime e /\ le_mtime e' = le_mtime e /\ le_atime e' = le_atime e /\
  le_xattrs e' = le_xattrs e /\ le_extras e' = le_extras e.
Definition same_but_xattrs (e e' : lentry) : Prop :=
  le_name e' = le_name e /\ le_kind e' = le_kind e /\ le_hdr e' = le_hdr e /\ le_content e' = le_content e /\
  le_ctime e' = le_ctime e /\ le_mtime e' = le_mtime e /\ le_atime e' = le_atime e /\
  le_perm e' = le_perm e /\ le_extras e' = le_extras e.
Definition same_but_extras (e e' : lentry) : Prop :=
  le_name e' = le_name e /\ le_kind e' = le_kind e /\ le_hdr e' = le_hdr e /\ le_content e' = le_content e /\
  le_ctime e' = le_ctime e /\ le_mtime e' = le_mtime e /\ le_atime e' = le_atime e /\
  le_perm e' = le_perm e /\ le_xattrs e' = le_xattrs e.

Lemma chmod_attrs m e :
  same_but_perm e (cmd_chmod m e) /\
  le_perm (cmd_chmod m e) = option_map (fun p => perm_with_mode p (apply_mode m (p_mode p))) (le_perm e).
Proof. unfold same_but_perm. cbn. repeat split. Qed.

Lemma chown_attrs u g e :
  same_but_perm e (cmd_chown u g e) /\
  match le_perm e, le_perm (cmd_chown u g e) with
  | Some p, Some p' =>
    p_mode p' = p_mode p /\
    (p_uid p', p_uname p') = match u with Some un => un | None => (p_uid p, p_uname p) end /\
    (p_gid p', p_gname p') = match g with Some gn => gn | None => (p_gid p, p_gname p) end
  | None, None => True
  | _, _ => False
  end.
Proof.
  unfold same_but_perm. cbn. repeat split.
  destruct (le_perm e) as [p|]; cbn; [|exact I].
  destruct u as [[? ?]|], g as [[? ?]|]; cbn; repeat split.
Qed.

(* -- IndexMap facts -- *)
Definition xnames (m : list xattr) : list bytes := map x_name m.
Definition has_name (k : bytes) (m : list xattr) : bool := existsb (fun x => bytes_eqb k (x_name x)) m.

Lemma bytes_eqb_eq a b : bytes_eqb a b = true <-> a = b.
Proof.
  split; [|intros ->; apply bytes_eqb_refl].
  destruct (list_eq_dec Byte.byte_eq_dec a b) as [E|NE]; [auto|].
  now rewrite (bytes_eqb_neq _ _ NE).
Qed.
Lemma bytes_eqb_false a b : bytes_eqb a b = false <-> a <> b.
Proof.
  split.
  - intros H E. subst. rewrite bytes_eqb_refl in H. discriminate.
  - apply bytes_eqb_neq.
Qed.
Lemma bytes_eqb_sym a b : bytes_eqb a b = bytes_eqb b a.
Proof.
  destruct (bytes_eqb a b) eqn:E.
  - apply bytes_eqb_eq in E. subst. now rewrite bytes_eqb_refl.
  - apply bytes_eqb_false in E. symmetry. apply bytes_eqb_false. congruence.
Qed.

Lemma im_insert_names_in k v m : has_name k m = true -> xnames (im_insert k v m) = xnames m.
Proof.
  induction m as [|x r IH]; cbn; [discriminate|].
  destruct (bytes_eqb k (x_name x)) eqn:E; cbn; [reflexivity|].
  intros H. f_equal. apply IH. exact H.
Qed.
Lemma im_insert_names_out k v m : has_name k m = false -> xnames (im_insert k v m) = xnames m ++ [k].
Proof.
  induction m as [|x r IH]; cbn; [reflexivity|].
  destruct (bytes_eqb k (x_name x)) eqn:E; cbn; [discriminate|].
  intros H. f_equal. apply IH. exact H.
Qed.
Lemma has_name_in k m : has_name k m = true <-> In k (xnames m).
Proof.
  unfold has_name, xnames. rewrite existsb_exists, in_map_iff. split.
  - intros (x & Hi & He). apply bytes_eqb_eq in He. eauto.
  - intros (x & He & Hi). exists x. split; auto. apply bytes_eqb_eq. auto.
Qed.
Lemma NoDup_snoc {A} (l : list A) k : NoDup l -> ~ In k l -> NoDup (l ++ [k]).
Proof.
  induction l as [|a l IH]; cbn; intros H Hn.
  - constructor; [intros []|constructor].
  - inversion H; subst. constructor.
    + rewrite in_app_iff. cbn. intros [?|[?|[]]]; [auto|subst; auto].
    + apply IH; auto.
Qed.
Lemma im_insert_nodup k v m : NoDup (xnames m) -> NoDup (xnames (im_insert k v m)).
Proof.
  intros H. destruct (has_name k m) eqn:E.
  - now rewrite im_insert_names_in.
  - rewrite im_insert_names_out by auto.
    apply NoDup_snoc; auto. intros Hin. apply has_name_in in Hin. congruence.
Qed.

Lemma im_insert_out k v m : has_name k m = false -> im_insert k v m = m ++ [{| x_name := k; x_value := v |}].
Proof.
  induction m as [|x r IH]; cbn; [reflexivity|].
  destruct (bytes_eqb k (x_name x)); cbn; [discriminate|]. intros H. now rewrite IH.
Qed.
Lemma im_insert_idem k v m : im_insert k v (im_insert k v m) = im_insert k v m.
Proof.
  induction m as [|x r IH]; cbn.
  - now rewrite bytes_eqb_refl.
  - destruct (bytes_eqb k (x_name x)) eqn:E; cbn; rewrite E; [reflexivity|now rewrite IH].
Qed.
Lemma im_insert_in k v m : In {| x_name := k; x_value := v |} (im_insert k v m).
Proof.
  induction m as [|x r IH]; cbn; [auto|].
  destruct (bytes_eqb k (x_name x)) eqn:E; cbn; [|auto].
  apply bytes_eqb_eq in E. subst. auto.
Qed.
Lemma im_remove_cons k x m :
  im_remove k (x :: m) = if bytes_eqb k (x_name x) then im_remove k m else x :: im_remove k m.
Proof. unfold im_remove. cbn. destruct (bytes_eqb k (x_name x)); reflexivity. Qed.
Lemma im_remove_insert_same k v m : im_remove k (im_insert k v m) = im_remove k m.
Proof.
  induction m as [|x r IH]; cbn [im_insert].
  - rewrite im_remove_cons. cbn. now rewrite bytes_eqb_refl.
  - destruct (bytes_eqb k (x_name x)) eqn:E; rewrite !im_remove_cons; cbn [x_name]; rewrite E; [reflexivity|now rewrite IH].
Qed.
Lemma im_remove_insert_other r k v m : r <> k ->
  im_remove r (im_insert k v m) = im_insert k v (im_remove r m).
Proof.
  intros NE. assert (Erk : bytes_eqb r k = false) by now apply bytes_eqb_false.
  induction m as [|x m IH]; cbn [im_insert].
  - rewrite im_remove_cons. cbn. now rewrite Erk.
  - destruct (bytes_eqb k (x_name x)) eqn:E; rewrite !im_remove_cons; cbn [x_name].
    + apply bytes_eqb_eq in E. rewrite <- E, Erk. cbn [im_insert]. rewrite <- E, bytes_eqb_refl. reflexivity.
    + destruct (bytes_eqb r (x_name x)); [exact IH|]. cbn [im_insert]. rewrite E. now rewrite IH.
Qed.
Lemma im_remove_idem k m : im_remove k (im_remove k m) = im_remove k m.
Proof.
  unfold im_remove. induction m as [|x r IH]; cbn; [reflexivity|].
  destruct (negb (bytes_eqb k (x_name x))) eqn:E; cbn; [rewrite E|]; now rewrite ?IH.
Qed.
Lemma im_remove_nodup k m : NoDup (xnames m) -> NoDup (xnames (im_remove k m)).
Proof.
  unfold im_remove, xnames. induction m as [|x r IH]; cbn; intros H; [constructor|].
  inversion H; subst. destruct (negb (bytes_eqb k (x_name x))); cbn; [|auto].
  constructor; [|auto]. rewrite in_map_iff in *. intros (y & Hy & Hin). apply filter_In in Hin. apply H2. exists y. tauto.
Qed.
Lemma im_remove_absent k m : ~ In k (xnames (im_remove k m)).
Proof.
  unfold im_remove, xnames. rewrite in_map_iff. intros (x & Hx & Hin). apply filter_In in Hin.
  destruct Hin as [_ Hn]. subst k. rewrite bytes_eqb_refl in Hn. discriminate.
Qed.

Lemma im_fold_nodup l : forall acc, NoDup (xnames acc) ->
  NoDup (xnames (fold_left (fun m x => im_insert (x_name x) (x_value x) m) l acc)).
Proof. induction l as [|x r IH]; cbn; intros acc H; [auto|]. apply IH. now apply im_insert_nodup. Qed.
Lemma im_collect_nodup l : NoDup (xnames (im_collect l)).
Proof. apply im_fold_nodup. constructor. Qed.

Lemma im_fold_fix l : forall acc, NoDup (xnames (acc ++ l)) ->
  fold_left (fun m x => im_insert (x_name x) (x_value x) m) l acc = acc ++ l.
Proof.
  induction l as [|x r IH]; cbn; intros acc H; [now rewrite app_nil_r|].
  assert (Hn : has_name (x_name x) acc = false).
  { destruct (has_name (x_name x) acc) eqn:E; [|reflexivity]. exfalso.
    apply has_name_in in E. unfold xnames in H. rewrite map_app in H. cbn in H.
    apply NoDup_remove_2 in H. apply H. rewrite in_app_iff. auto. }
  rewrite im_insert_out by exact Hn. destruct x as [n v]. cbn.
  rewrite IH; rewrite <- app_assoc; [reflexivity|exact H].
Qed.
(* an attribute list without repeated names is its own IndexMap *)
Lemma im_collect_fix m : NoDup (xnames m) -> im_collect m = m.
Proof. intros H. unfold im_collect. now rewrite im_fold_fix. Qed.

Definition xattr_step (set : option (bytes * bytes)) (remove : option bytes) (m : list xattr) : list xattr :=
  let m := match set with Some (n, v) => im_insert n v m | None => m end in
  match remove with Some n => im_remove n m | None => m end.
Lemma cmd_xattr_step s r e : le_xattrs (cmd_xattr s r e) = xattr_step s r (im_collect (le_xattrs e)).
Proof. destruct s as [[? ?]|], r; reflexivity. Qed.
Lemma xattr_step_nodup s r m : NoDup (xnames m) -> NoDup (xnames (xattr_step s r m)).
Proof.
  intros H. unfold xattr_step. destruct s as [[n v]|], r as [k|]; auto using im_insert_nodup, im_remove_nodup.
Qed.
Lemma xattr_step_idem s r m : xattr_step s r (xattr_step s r m) = xattr_step s r m.
Proof.
  unfold xattr_step. destruct s as [[n v]|], r as [k|].
  - destruct (list_eq_dec Byte.byte_eq_dec k n) as [->|NE].
    + rewrite !im_remove_insert_same. apply im_remove_idem.
    + rewrite (im_remove_insert_other k n v m NE). rewrite im_insert_idem.
      rewrite (im_remove_insert_other k n v _ NE). now rewrite im_remove_idem.
  - apply im_insert_idem.
  - apply im_remove_idem.
  - reflexivity.
Qed.

Lemma xattr_attrs s r e :
  same_but_xattrs e (cmd_xattr s r e) /\ NoDup (xnames (le_xattrs (cmd_xattr s r e))).
Proof.
  split; [unfold same_but_xattrs; destruct s as [[? ?]|], r; cbn; repeat split|].
  rewrite cmd_xattr_step. apply xattr_step_nodup, im_collect_nodup.
Qed.
(* the named attribute has the new value (once), unless the same command also removes it *)
Lemma xattr_set_effect n v r e : r <> Some n ->
  In {| x_name := n; x_value := v |} (le_xattrs (cmd_xattr (Some (n, v)) r e)).
Proof.
  intros NE. rewrite cmd_xattr_step. unfold xattr_step. destruct r as [k|]; [|apply im_insert_in].
  unfold im_remove. apply filter_In. split; [apply im_insert_in|]. cbn.
  apply negb_true_iff, bytes_eqb_false. congruence.
Qed.
Lemma xattr_remove_effect s k e : ~ In k (xnames (le_xattrs (cmd_xattr s (Some k) e))).
Proof. rewrite cmd_xattr_step. unfold xattr_step. apply im_remove_absent. Qed.
(* every attribute the command does not name keeps its value and its relative position *)
Definition unnamed (ks : list bytes) (x : xattr) : bool := negb (mem_bytes (x_name x) ks).
Lemma mem_bytes_in x l : mem_bytes x l = true <-> In x l.
Proof.
  unfold mem_bytes. rewrite existsb_exists. split.
  - intros (y & Hi & He). apply bytes_eqb_eq in He. now subst.
  - intros H. exists x. split; auto. apply bytes_eqb_refl.
Qed.
Lemma filter_unnamed_insert ks k v m : In k ks ->
  filter (unnamed ks) (im_insert k v m) = filter (unnamed ks) m.
Proof.
  intros Hin. assert (Hk : mem_bytes k ks = true) by now apply mem_bytes_in.
  induction m as [|x r IH]; cbn.
  - unfold unnamed. cbn. now rewrite Hk.
  - destruct (bytes_eqb k (x_name x)) eqn:E; cbn; [|now rewrite IH].
    apply bytes_eqb_eq in E. unfold unnamed. cbn. rewrite <- E, Hk. reflexivity.
Qed.
Lemma filter_unnamed_remove ks k m : In k ks ->
  filter (unnamed ks) (im_remove k m) = filter (unnamed ks) m.
Proof.
  intros Hin. assert (Hk : mem_bytes k ks = true) by now apply mem_bytes_in.
  unfold im_remove. induction m as [|x r IH]; cbn; [reflexivity|].
  destruct (bytes_eqb k (x_name x)) eqn:E; cbn.
  - apply bytes_eqb_eq in E. unfold unnamed at 2. rewrite <- E, Hk. cbn. exact IH.
  - destruct (unnamed ks x); now rewrite IH.
Qed.
Definition xattr_named (s : option (bytes * bytes)) (r : option bytes) : list bytes :=
  olist (option_map fst s) ++ olist r.
Lemma xattr_frame s r e :
  filter (unnamed (xattr_named s r)) (le_xattrs (cmd_xattr s r e))
  = filter (unnamed (xattr_named s r)) (im_collect (le_xattrs e)).
Proof.
  rewrite cmd_xattr_step. unfold xattr_step, xattr_named.
  destruct s as [[n v]|], r as [k|]; cbn [option_map fst olist app].
  - rewrite filter_unnamed_remove by (cbn; auto). apply filter_unnamed_insert. cbn; auto.
  - apply filter_unnamed_insert. cbn; auto.
  - apply filter_unnamed_remove. cbn; auto.
  - reflexivity.
Qed.

(* ---- strip -------------------------------------------------------------------------------------- *)
Lemma filter_idem {A} (f : A -> bool) l : filter f (filter f l) = filter f l.
Proof. induction l as [|a l IH]; cbn; [reflexivity|]. destruct (f a) eqn:E; cbn; rewrite ?E, IH; reflexivity. Qed.

Lemma strip_keeps_exactly o e : le_extras (cmd_strip o e) = filter (kept_by o) (le_extras e).
Proof. reflexivity. Qed.
Lemma strip_attrs o e :
  le_name (cmd_strip o e) = le_name e /\ le_kind (cmd_strip o e) = le_kind e /\
  le_hdr (cmd_strip o e) = le_hdr e /\ le_content (cmd_strip o e) = le_content e /\
  (le_ctime (cmd_strip o e), le_mtime (cmd_strip o e), le_atime (cmd_strip o e))
    = (if keep_time o then (le_ctime e, le_mtime e, le_atime e) else (None, None, None)) /\
  le_perm (cmd_strip o e) = (if keep_perm o then le_perm e else None) /\
  le_xattrs (cmd_strip o e) = (if keep_xattr o then le_xattrs e else []).
Proof. cbn. destruct (keep_time o); repeat split. Qed.
Lemma strip_idem o e : cmd_strip o (cmd_strip o e) = cmd_strip o e.
Proof.
  unfold cmd_strip. cbn. rewrite filter_idem.
  destruct (keep_time o), (keep_perm o), (keep_xattr o); reflexivity.
Qed.

(* ---- chmod / chown idempotence ------------------------------------------------------------------- *)
Lemma chmod_idem m e : cmd_chmod m (cmd_chmod m e) = cmd_chmod m e.
Proof.
  unfold cmd_chmod, with_perm, with_meta. cbn. destruct (le_perm e) as [p|]; cbn; [|reflexivity].
  unfold perm_with_mode. cbn. unfold apply_mode. now rewrite mode_apply_idem.
Qed.
Lemma chown_idem u g e : cmd_chown u g (cmd_chown u g e) = cmd_chown u g e.
Proof.
  unfold cmd_chown, with_perm, with_meta. cbn. destruct (le_perm e) as [p|]; cbn; [|reflexivity].
  destruct u as [[? ?]|], g as [[? ?]|]; reflexivity.
Qed.
Lemma cmd_xattr_eq s r e : cmd_xattr s r e = with_xattrs e (xattr_step s r (im_collect (le_xattrs e))).
Proof. destruct s as [[? ?]|], r; reflexivity. Qed.
Lemma xattr_idem s r e : cmd_xattr s r (cmd_xattr s r e) = cmd_xattr s r e.
Proof.
  rewrite (cmd_xattr_eq s r e). set (X := xattr_step s r (im_collect (le_xattrs e))).
  rewrite cmd_xattr_eq. cbn [le_xattrs with_xattrs].
  assert (HX : xattr_step s r (im_collect X) = X).
  { unfold X. rewrite im_collect_fix by (apply xattr_step_nodup, im_collect_nodup). apply xattr_step_idem. }
  rewrite HX. reflexivity.
Qed.

(* ---- ACL chunks ------------------------------------------------------------------------------------ *)
Lemma filter_none {A} (f : A -> bool) l : (forall x, In x l -> f x = false) -> filter f l = [].
Proof.
  induction l as [|a l IH]; cbn; intros H; [reflexivity|].
  rewrite (H a) by auto. apply IH. intros x Hx. apply H. auto.
Qed.
Lemma facl_refl : bytes_eqb FACL FACL = true.  Proof. vm_compute. reflexivity. Qed.
Lemma face_refl : bytes_eqb FACE FACE = true.  Proof. vm_compute. reflexivity. Qed.
Lemma is_acl_facl d : is_acl_chunk (mk FACL d) = true.
Proof. unfold is_acl_chunk, ty_is, mk. cbv [cty]. now rewrite facl_refl. Qed.
Lemma is_acl_face d : is_acl_chunk (mk FACE d) = true.
Proof. unfold is_acl_chunk, ty_is, mk. cbv [cty]. rewrite face_refl. apply orb_true_r. Qed.
Lemma acl_chunks_in m c : In c (acl_chunks m) -> is_acl_chunk c = true.
Proof.
  unfold acl_chunks. rewrite in_concat. intros (l & Hl & Hc). apply in_map_iff in Hl.
  destruct Hl as ([p aces] & <- & _). cbv beta in Hc. apply in_inv in Hc.
  destruct Hc as [<-|Hc]; [apply is_acl_facl|].
  apply in_map_iff in Hc. destruct Hc as (a & <- & _). apply is_acl_face.
Qed.
Lemma acl_chunks_all_acl m : filter (fun c => negb (is_acl_chunk c)) (acl_chunks m) = [].
Proof. apply filter_none. intros c Hc. now rewrite (acl_chunks_in m c Hc). Qed.
Lemma non_acl_rebuilt m cs : non_acl (acl_chunks m ++ non_acl cs) = non_acl cs.
Proof. unfold non_acl. now rewrite filter_app, acl_chunks_all_acl, filter_idem. Qed.

(* acl set and migrate keep every other attribute, and every extra chunk that is not an ACL chunk,
   in order *)
Lemma acl_attrs md rm e :
  same_but_extras e (cmd_acl md rm e) /\ non_acl (le_extras (cmd_acl md rm e)) = non_acl (le_extras e).
Proof.
  unfold cmd_acl, same_but_extras. destruct (acl_parse (le_extras e)) as [m| |]; try (repeat split; fail).
  destruct (acl_skip md m); [repeat split|]. cbn. repeat split. apply non_acl_rebuilt.
Qed.
Lemma migrate_attrs e e' : cmd_migrate e = Ok e' ->
  same_but_extras e e' /\ non_acl (le_extras e') = non_acl (le_extras e).
Proof.
  unfold cmd_migrate, same_but_extras. destruct (acl_parse (le_extras e)) as [m| |]; try discriminate.
  intros H. inversion H. cbn. repeat split. apply non_acl_rebuilt.
Qed.

Lemma owner_eqb_eq a b : owner_eqb a b = true <-> a = b.
Proof.
  destruct a, b; cbn; try (split; [discriminate|congruence]); try tauto.
  - rewrite bytes_eqb_eq. split; congruence.
  - rewrite bytes_eqb_eq. split; congruence.
Qed.
Lemma spec_match_self s : spec_match s (spec_ace s) = true.
Proof.
  unfold spec_match. apply andb_true_iff. split.
  - unfold spec_ace. cbv [a_flags]. destruct (as_default s); reflexivity.
  - apply owner_eqb_eq. reflexivity.
Qed.
(* replacing the permission field does not change which specs match *)
Definition set_perm (a : ace) (p : N) : ace :=
  {| a_flags := a_flags a; a_owner := a_owner a; a_allow := a_allow a; a_perm := p |}.
Lemma spec_match_set_perm s a p : spec_match s (set_perm a p) = spec_match s a.
Proof. reflexivity. Qed.
Lemma acl_modify_cons s a l :
  acl_modify s (a :: l) = if spec_match s a then set_perm a (a_perm (spec_ace s)) :: l else a :: acl_modify s l.
Proof. reflexivity. Qed.
(* after -m the list holds an entry of the named owner with exactly the named permissions *)
Lemma acl_modify_effect s l :
  exists a, In a (acl_modify s l) /\ spec_match s a = true /\ a_perm a = a_perm (spec_ace s).
Proof.
  induction l as [|a l IH].
  - exists (spec_ace s). split; [left; reflexivity|]. split; [apply spec_match_self|reflexivity].
  - rewrite acl_modify_cons. destruct (spec_match s a) eqn:E.
    + exists (set_perm a (a_perm (spec_ace s))). split; [left; reflexivity|].
      split; [now rewrite spec_match_set_perm|reflexivity].
    + destruct IH as (b & Hin & Hm & Hp). exists b. split; [right; exact Hin|]. split; assumption.
Qed.
(* ... and every entry of another owner is where and what it was *)
Lemma acl_modify_frame s l :
  filter (fun a => negb (spec_match s a)) (acl_modify s l) = filter (fun a => negb (spec_match s a)) l.
Proof.
  induction l as [|a l IH].
  - change (acl_modify s []) with [spec_ace s]. cbn [filter]. now rewrite spec_match_self.
  - rewrite acl_modify_cons. destruct (spec_match s a) eqn:E; cbn [filter].
    + rewrite spec_match_set_perm, E. reflexivity.
    + rewrite E. cbn [negb]. now rewrite IH.
Qed.
Lemma acl_remove_effect r l a : In a (filter (fun a => negb (spec_match r a)) l) -> spec_match r a = false.
Proof. intros H. apply filter_In in H. now apply negb_true_iff. Qed.

(* ---- no command changes a name; only delete drops entries ------------------------------------------- *)
Lemma cmd_entry_name c e e' : cmd_entry c e = Ok (Some e') -> le_name e' = le_name e.
Proof.
  destruct c; cbn [cmd_entry]; intros H.
  - inversion H. reflexivity.
  - inversion H. reflexivity.
  - inversion H. apply (xattr_attrs set remove e).
  - inversion H. apply (acl_attrs modify remove e).
  - inversion H. reflexivity.
  - inv_bind H. inversion Hk; subst. apply (migrate_attrs _ _ Hb).
  - discriminate.
Qed.
Lemma cmd_entry_some c e o : c <> CDelete -> cmd_entry c e = Ok o -> exists e', o = Some e'.
Proof.
  destruct c; cbn [cmd_entry]; intros NE H; try (inversion H; eauto; fail).
  - inv_bind H. inversion Hk. eauto.
  - congruence.
Qed.

Section Selection.
Variable sel : bytes -> bool.          (* GlobPatterns::matches_any on the entry name *)

Definition touched (c : cmd) (e : lentry) : bool := selects_all c || sel (le_name e).
(* what one step of the rewrite does to one entry *)
Definition step_rel (c : cmd) (e e' : lentry) : Prop :=
  if touched c e then cmd_entry c e = Ok (Some e') else e' = e.

Lemma transformer_unfold c e :
  cmd_transformer c sel e = if touched c e then cmd_entry c e else Ok (Some e).
Proof. reflexivity. Qed.

Lemma map_entries_nondelete c : c <> CDelete -> forall es es',
  map_entries (cmd_transformer c sel) es = Ok es' -> Forall2 (step_rel c) es es'.
Proof.
  intros NE. induction es as [|e r IH]; intros es' H.
  - inversion H. constructor.
  - apply map_entries_cons in H. destruct H as (o & r' & Hf & Hr & ->).
    rewrite transformer_unfold in Hf. unfold step_rel at 1.
    destruct (touched c e) eqn:T.
    + destruct (cmd_entry_some c e o NE Hf) as (e' & ->). cbn [olist app].
      constructor; [unfold step_rel; now rewrite T | auto].
    + inversion Hf; subst o. cbn [olist app]. constructor; [unfold step_rel; now rewrite T | auto].
Qed.
Lemma map_entries_delete : forall es es',
  map_entries (cmd_transformer CDelete sel) es = Ok es' ->
  es' = filter (fun e => negb (sel (le_name e))) es.
Proof.
  induction es as [|e r IH]; intros es' H.
  - inversion H. reflexivity.
  - apply map_entries_cons in H. destruct H as (o & r' & Hf & Hr & ->).
    rewrite transformer_unfold in Hf. unfold touched in Hf. cbn [selects_all orb filter] in *.
    destruct (sel (le_name e)); cbn [negb]; inversion Hf; subst o; cbn [olist app]; now rewrite (IH _ Hr).
Qed.
(* the untouched entries are the same sequence before and after, for every command *)
Lemma map_entries_frame c : forall es es',
  map_entries (cmd_transformer c sel) es = Ok es' ->
  filter (fun e => negb (touched c e)) es' = filter (fun e => negb (touched c e)) es.
Proof.
  induction es as [|e r IH]; intros es' H.
  - inversion H. reflexivity.
  - apply map_entries_cons in H. destruct H as (o & r' & Hf & Hr & ->).
    rewrite transformer_unfold in Hf. cbn [filter]. destruct (touched c e) eqn:T; cbn [negb].
    + destruct o as [e'|]; cbn [olist app]; [|auto].
      cbn [filter]. assert (T' : touched c e' = true).
      { unfold touched in *. now rewrite (cmd_entry_name _ _ _ Hf). }
      rewrite T'. cbn [negb]. auto.
    + inversion Hf; subst o. cbn [olist app filter]. rewrite T. cbn [negb]. f_equal. auto.
Qed.

End Selection.

(* the selection the command works with (Transform.eff_sel): the patterns' for every command but strip, for which
   no pattern at all means every entry (4d97c0da) *)
Lemma eff_sel_strip o nf sel n : eff_sel (CStrip o) nf sel n = (nf =? 0) || sel n.
Proof. reflexivity. Qed.
Lemma eff_sel_other c nf sel : (forall o, c <> CStrip o) -> eff_sel c nf sel = sel.
Proof. destruct c; intros H; try reflexivity. contradiction (H o). reflexivity. Qed.
Lemma eff_sel_needs_files c nf sel : needs_files c = true -> eff_sel c nf sel = sel.
Proof. destruct c; intros H; try reflexivity. discriminate H. Qed.
Lemma touched_strip o nf sel e : touched (eff_sel (CStrip o) nf sel) (CStrip o) e = (nf =? 0) || sel (le_name e).
Proof. reflexivity. Qed.

Section Run.
Variable sel : bytes -> bool.          (* GlobPatterns::matches_any on the entry name *)

Lemma run_cmd_cases keep pw c nf a a' : run_cmd keep pw c nf sel a = Ok a' ->
  (needs_files c = true /\ nf = 0 /\ a' = a) \/
  (needs_files c && (nf =? 0) = false /\ transform keep pw (cmd_transformer c (eff_sel c nf sel)) a = Ok a').
Proof.
  unfold run_cmd. destruct (needs_files c && (nf =? 0)) eqn:E; intros H.
  - left. apply andb_true_iff in E. destruct E as [E1 E2]. apply N.eqb_eq in E2. inversion H. auto.
  - right. auto.
Qed.

Lemma Forall2_imp {A B} (R S : A -> B -> Prop) l l' : (forall a b, R a b -> S a b) -> Forall2 R l l' -> Forall2 S l l'.
Proof. intros H F. induction F; constructor; auto. Qed.
Lemma Forall2_refl_on {A} (R : A -> A -> Prop) l : (forall x, In x l -> R x x) -> Forall2 R l l.
Proof. induction l; intros H; constructor; [apply H; left; reflexivity | apply IHl; intros; apply H; right; assumption]. Qed.

(* FRAME: position by position, the name is kept and an entry the patterns do not select is
   returned unchanged in every attribute (c other than delete) *)
Theorem frame_entries keep pw c nf a a' :
  run_cmd keep pw c nf sel a = Ok a' -> c <> CDelete ->
  Forall2 (fun e e' => le_name e' = le_name e /\ (touched (eff_sel c nf sel) c e = false -> e' = e)) (entries a) (entries a').
Proof.
  intros H NE. destruct (run_cmd_cases _ _ _ _ _ _ H) as [(_ & _ & ->)|(_ & Ht)].
  - apply Forall2_refl_on. auto.
  - apply transform_entries in Ht. apply (map_entries_nondelete _ c NE) in Ht.
    eapply Forall2_imp; [|exact Ht]. intros e e' Hs. unfold step_rel in Hs.
    destruct (touched (eff_sel c nf sel) c e); [split; [eapply cmd_entry_name; eauto|discriminate] | subst; auto].
Qed.
(* strip with FILES (4d97c0da): an entry the patterns do not select is returned unchanged in every attribute *)
Corollary frame_strip_patterns keep pw o nf a a' :
  run_cmd keep pw (CStrip o) nf sel a = Ok a' -> nf <> 0 ->
  Forall2 (fun e e' => le_name e' = le_name e /\ (sel (le_name e) = false -> e' = e)) (entries a) (entries a').
Proof.
  intros H NZ. eapply Forall2_imp; [|exact (frame_entries keep pw (CStrip o) nf a a' H ltac:(discriminate))].
  cbv beta. intros e e' [Hn Hu]. split; [exact Hn|]. intros S. apply Hu. rewrite touched_strip, S.
  apply N.eqb_neq in NZ. rewrite NZ. reflexivity.
Qed.
(* FRAME, every command: the entries the command does not touch form the same sequence before
   and after (same relative order, every attribute equal) *)
Theorem frame_untouched keep pw c nf a a' :
  run_cmd keep pw c nf sel a = Ok a' ->
  filter (fun e => negb (touched (eff_sel c nf sel) c e)) (entries a')
  = filter (fun e => negb (touched (eff_sel c nf sel) c e)) (entries a).
Proof.
  intros H. destruct (run_cmd_cases _ _ _ _ _ _ H) as [(_ & _ & ->)|(_ & Ht)]; [reflexivity|].
  apply transform_entries in Ht. now apply map_entries_frame.
Qed.
(* strip with FILES: the entries the patterns do not select are the same sequence before and after *)
Corollary frame_untouched_strip_patterns keep pw o nf a a' :
  run_cmd keep pw (CStrip o) nf sel a = Ok a' -> nf <> 0 ->
  filter (fun e => negb (sel (le_name e))) (entries a') = filter (fun e => negb (sel (le_name e))) (entries a).
Proof.
  intros H NZ. pose proof (frame_untouched keep pw (CStrip o) nf a a' H) as F.
  apply N.eqb_neq in NZ.
  rewrite !(filter_ext (fun e => negb (touched (eff_sel (CStrip o) nf sel) (CStrip o) e)) (fun e => negb (sel (le_name e)))) in F;
    [exact F| |]; intros e; rewrite touched_strip, NZ; reflexivity.
Qed.
(* EFFECT: a selected entry is replaced by the command's transformer applied to it (whose
   attribute-wise meaning is chmod_attrs, chown_attrs, xattr_*, acl_*, strip_*, migrate_attrs).
   An empty pattern list matches nothing (GlobSet::is_match on an empty set). *)
Theorem effect_entries keep pw c nf a a' :
  run_cmd keep pw c nf sel a = Ok a' -> c <> CDelete -> (nf = 0 -> forall n, sel n = false) ->
  Forall2 (step_rel (eff_sel c nf sel) c) (entries a) (entries a').
Proof.
  intros H NE Hempty. destruct (run_cmd_cases _ _ _ _ _ _ H) as [(Hn & Hz & ->)|(_ & Ht)].
  - apply Forall2_refl_on. intros e _. unfold step_rel, touched. rewrite (eff_sel_needs_files c nf sel Hn), (Hempty Hz).
    destruct c; try discriminate; reflexivity.
  - apply transform_entries in Ht. now apply map_entries_nondelete.
Qed.
(* strip: without FILES every entry is stripped, with FILES exactly the selected ones *)
Corollary effect_strip keep pw o nf a a' :
  run_cmd keep pw (CStrip o) nf sel a = Ok a' ->
  Forall2 (fun e e' => e' = if (nf =? 0) || sel (le_name e) then cmd_strip o e else e) (entries a) (entries a').
Proof.
  intros H. destruct (run_cmd_cases _ _ _ _ _ _ H) as [(Hn & _)|(_ & Ht)]; [discriminate|].
  apply transform_entries in Ht. apply (map_entries_nondelete _ (CStrip o) ltac:(discriminate)) in Ht.
  eapply Forall2_imp; [|exact Ht]. cbv beta. intros e e' Hs. unfold step_rel in Hs. rewrite touched_strip in Hs.
  destruct ((nf =? 0) || sel (le_name e)); [cbn [cmd_entry] in Hs; congruence|exact Hs].
Qed.
(* delete: exactly the selected entries disappear; the survivors are unchanged and in order *)
Theorem delete_exact keep pw nf a a' :
  run_cmd keep pw CDelete nf sel a = Ok a' ->
  entries a' = filter (fun e => negb (sel (le_name e))) (entries a).
Proof.
  intros H. destruct (run_cmd_cases _ _ _ _ _ _ H) as [(Hn & _)|(_ & Ht)]; [discriminate|].
  apply transform_entries in Ht. now apply map_entries_delete.
Qed.
End Run.

(* ---- shape: what the two strategies do to the solid structure ------------------------------------------ *)
Definition solid_blocks (a : archive) : list (shdr * list chunk * list lentry) :=
  concat (map (fun it => match it with Solid h x es => [(h, x, es)] | Normal _ => [] end) a).
Lemma solid_blocks_app a b : solid_blocks (a ++ b) = solid_blocks a ++ solid_blocks b.
Proof. unfold solid_blocks. now rewrite map_app, concat_app. Qed.
Lemma solid_blocks_normals es : solid_blocks (map Normal es) = [].
Proof. induction es as [|e r IH]; [reflexivity|exact IH]. Qed.

(* keep-solid: the same solid entries in the same order, each with its header and its own extra
   chunks, holding the transformed inner entries in their order *)
Theorem keep_solid_shape pw f : forall a a', transform true pw f a = Ok a' ->
  Forall2 (fun b b' => fst b' = fst b /\ map_entries f (snd b) = Ok (snd b')) (solid_blocks a) (solid_blocks a').
Proof.
  induction a as [|it a IH]; intros a' H.
  - inversion H. constructor.
  - cbn [transform] in H. inv_bind H. inv_bind Hk. inversion Hk0; subst a'.
    rewrite solid_blocks_app. specialize (IH _ Hb0).
    destruct it as [e|h x es]; cbn [transform_item] in Hb.
    + inv_bind Hb. assert (solid_blocks v = []) as -> by (destruct v1; inversion Hk; reflexivity). exact IH.
    + destruct (negb (sh_cipher h =? 0) && negb pw); [discriminate|]. inv_bind Hb. inversion Hk; subst v.
      change (solid_blocks (Solid h x es :: a)) with ((h, x, es) :: solid_blocks a).
      change (solid_blocks [Solid h x v1]) with [(h, x, v1)]. cbn [app]. constructor; [split; [reflexivity|exact Hb1]|exact IH].
Qed.
(* unsolid: no solid entry is left (their inner entries stand in place, transform_entries) *)
Theorem unsolid_shape pw f : forall a a', transform false pw f a = Ok a' -> solid_blocks a' = [].
Proof.
  induction a as [|it a IH]; intros a' H.
  - inversion H. reflexivity.
  - cbn [transform] in H. inv_bind H. inv_bind Hk. inversion Hk0; subst a'.
    rewrite solid_blocks_app, (IH _ Hb0), app_nil_r.
    destruct it as [e|h x es]; cbn [transform_item] in Hb.
    + inv_bind Hb. destruct v1; inversion Hk; reflexivity.
    + destruct (negb (sh_cipher h =? 0) && negb pw); [discriminate|]. inv_bind Hb. inversion Hk.
      apply solid_blocks_normals.
Qed.

(* ---- idempotence ------------------------------------------------------------------------------------------ *)
(* the command, applied to its own result on one entry, returns that result *)
Definition entry_idem (c : cmd) (e : lentry) : Prop :=
  forall e', cmd_entry c e = Ok (Some e') -> cmd_entry c e' = Ok (Some e').

Lemma entry_idem_chmod m e : entry_idem (CChmod m) e.
Proof. intros e' H. cbn [cmd_entry] in *. inversion H. now rewrite chmod_idem. Qed.
Lemma entry_idem_chown u g e : entry_idem (CChown u g) e.
Proof. intros e' H. cbn [cmd_entry] in *. inversion H. now rewrite chown_idem. Qed.
Lemma entry_idem_xattr s r e : entry_idem (CXattr s r) e.
Proof. intros e' H. cbn [cmd_entry] in *. inversion H. now rewrite xattr_idem. Qed.
Lemma entry_idem_strip o e : entry_idem (CStrip o) e.
Proof. intros e' H. cbn [cmd_entry] in *. inversion H. now rewrite strip_idem. Qed.
Lemma entry_idem_delete e : entry_idem CDelete e.
Proof. intros e' H. discriminate. Qed.

Lemma with_extras_twice e x y : with_extras (with_extras e x) y = with_extras e y.
Proof. reflexivity. Qed.
(* migrate is idempotent on an entry whose regrouped ACL chunks read back as the same map
   (the print/parse round trip of the ACE text codec, C15) *)
Lemma entry_idem_migrate e :
  (forall m, acl_parse (le_extras e) = Ok m -> acl_parse (acl_chunks m ++ non_acl (le_extras e)) = Ok m) ->
  entry_idem CMigrate e.
Proof.
  intros Hrt e' H. cbn [cmd_entry] in *. inv_bind H. inversion Hk; subst v. clear Hk.
  unfold cmd_migrate in Hb. destruct (acl_parse (le_extras e)) as [m| |] eqn:P; try discriminate.
  inversion Hb; subst e'. unfold cmd_migrate. cbn [le_extras with_extras].
  rewrite (Hrt m eq_refl). rewrite non_acl_rebuilt. cbn [bind]. now rewrite with_extras_twice.
Qed.

Lemma acl_has_update p f m : acl_has p (acl_update p f m) = true.
Proof.
  assert (R : forall q, platform_eqb q q = true) by (intros [| | | | |s]; cbn; auto using bytes_eqb_refl).
  unfold acl_has. induction m as [|[q l] m IH]; cbn [acl_update existsb fst].
  - now rewrite R.
  - destruct (platform_eqb p q) eqn:E; cbn [existsb fst]; rewrite ?E; [reflexivity|]. cbn [orb]. exact IH.
Qed.
Lemma acl_update_twice p f g m : acl_update p g (acl_update p f m) = acl_update p (fun l => g (f l)) m.
Proof.
  assert (R : forall q, platform_eqb q q = true) by (intros [| | | | |s]; cbn; auto using bytes_eqb_refl).
  induction m as [|[q l] m IH]; cbn [acl_update].
  - now rewrite R.
  - destruct (platform_eqb p q) eqn:E; cbn [acl_update]; rewrite E; [reflexivity|now rewrite IH].
Qed.
Lemma acl_update_ext p f g m : (forall l, f l = g l) -> acl_update p f m = acl_update p g m.
Proof.
  intros H. induction m as [|[q l] m IH]; cbn [acl_update]; [now rewrite H|].
  destruct (platform_eqb p q); [now rewrite H|now rewrite IH].
Qed.

(* acl set, entry level: idempotent when (i) the rewritten ACL chunks read back as the map that was
   written and (ii) the edit of the general list is itself idempotent *)
Lemma entry_idem_acl md rm e :
  (forall m, acl_parse (le_extras e) = Ok m -> acl_skip md m = false ->
     acl_parse (acl_chunks (acl_update General (acl_edit md rm) m) ++ non_acl (le_extras e))
     = Ok (acl_update General (acl_edit md rm) m)) ->
  (forall l, acl_edit md rm (acl_edit md rm l) = acl_edit md rm l) ->
  entry_idem (CAcl md rm) e.
Proof.
  intros Hrt Hed e' H. cbn [cmd_entry] in *. inversion H; subst e'. clear H. f_equal. f_equal.
  destruct (acl_parse (le_extras e)) as [m| |] eqn:P.
  - destruct (acl_skip md m) eqn:S.
    + assert (E : cmd_acl md rm e = e) by (unfold cmd_acl; now rewrite P, S). now rewrite !E.
    + assert (E : cmd_acl md rm e
                  = with_extras e (acl_chunks (acl_update General (acl_edit md rm) m) ++ non_acl (le_extras e)))
        by (unfold cmd_acl; now rewrite P, S).
      rewrite E. unfold cmd_acl. cbn [le_extras with_extras]. rewrite (Hrt m eq_refl S).
      assert (S2 : acl_skip md (acl_update General (acl_edit md rm) m) = false).
      { unfold acl_skip. destruct md; [reflexivity|]. now rewrite acl_has_update. }
      rewrite S2, non_acl_rebuilt, with_extras_twice, acl_update_twice.
      rewrite (acl_update_ext General (fun l => acl_edit md rm (acl_edit md rm l)) (acl_edit md rm) m Hed). reflexivity.
  - assert (E : cmd_acl md rm e = e) by (unfold cmd_acl; now rewrite P). now rewrite !E.
  - assert (E : cmd_acl md rm e = e) by (unfold cmd_acl; now rewrite P). now rewrite !E.
Qed.

(* (ii) holds for every -m / -x combination *)
Lemma contains_default (d : bool) : contains (if d then 1 else 0) 1 = d.
Proof. destruct d; reflexivity. Qed.
Lemma spec_match_spec r s :
  spec_match r (spec_ace s) = Bool.eqb (as_default r) (as_default s) && owner_eqb (as_owner r) (as_owner s).
Proof. unfold spec_match, spec_ace. cbv [a_flags a_owner]. now rewrite contains_default. Qed.
Lemma eqb_bool_eq a b : Bool.eqb a b = true -> a = b.
Proof. destruct a, b; cbn; congruence. Qed.
Lemma spec_match_same_class r s : spec_match r (spec_ace s) = true -> forall a, spec_match r a = spec_match s a.
Proof.
  rewrite spec_match_spec. intros H a. apply andb_true_iff in H. destruct H as [Hd Ho].
  apply eqb_bool_eq in Hd. apply owner_eqb_eq in Ho. unfold spec_match. now rewrite Hd, Ho.
Qed.
Lemma spec_match_other_class r s a :
  spec_match r (spec_ace s) = false -> spec_match s a = true -> spec_match r a = false.
Proof.
  rewrite spec_match_spec. intros H Hs. destruct (spec_match r a) eqn:Hr; [|reflexivity].
  unfold spec_match in Hs, Hr. apply andb_true_iff in Hs, Hr. destruct Hs as [Sd So], Hr as [Rd Ro].
  apply eqb_bool_eq in Sd, Rd. apply owner_eqb_eq in So, Ro.
  assert (E1 : Bool.eqb (as_default r) (as_default s) = true) by (rewrite Sd, Rd; destruct (contains (a_flags a) 1); reflexivity).
  assert (E2 : owner_eqb (as_owner r) (as_owner s) = true) by (apply owner_eqb_eq; congruence).
  rewrite E1, E2 in H. discriminate.
Qed.
Lemma set_perm_twice a p : set_perm (set_perm a p) p = set_perm a p.
Proof. reflexivity. Qed.
Lemma spec_ace_set_perm s : set_perm (spec_ace s) (a_perm (spec_ace s)) = spec_ace s.
Proof. reflexivity. Qed.
Lemma acl_modify_idem s l : acl_modify s (acl_modify s l) = acl_modify s l.
Proof.
  induction l as [|a l IH].
  - change (acl_modify s []) with [spec_ace s]. rewrite acl_modify_cons, spec_match_self.
    now rewrite spec_ace_set_perm.
  - rewrite acl_modify_cons. destruct (spec_match s a) eqn:E.
    + rewrite acl_modify_cons, spec_match_set_perm, E. cbv [a_perm set_perm]. reflexivity.
    + rewrite acl_modify_cons, E. now rewrite IH.
Qed.
Lemma acl_modify_filter_commute s r l : spec_match r (spec_ace s) = false ->
  filter (fun a => negb (spec_match r a)) (acl_modify s l)
  = acl_modify s (filter (fun a => negb (spec_match r a)) l).
Proof.
  intros C. induction l as [|a l IH].
  - change (acl_modify s []) with [spec_ace s]. cbn [filter]. now rewrite C.
  - rewrite acl_modify_cons. destruct (spec_match s a) eqn:E; cbn [filter].
    + rewrite spec_match_set_perm, (spec_match_other_class r s a C E). cbn [negb].
      now rewrite acl_modify_cons, E.
    + destruct (spec_match r a); cbn [negb]; [exact IH|]. now rewrite acl_modify_cons, E, IH.
Qed.
Lemma filter_ext_eq {A} (f g : A -> bool) l : (forall x, f x = g x) -> filter f l = filter g l.
Proof. intros H. induction l as [|a l IH]; cbn; [reflexivity|]. now rewrite H, IH. Qed.
Lemma acl_edit_idem md rm l : acl_edit md rm (acl_edit md rm l) = acl_edit md rm l.
Proof.
  unfold acl_edit. destruct md as [s|], rm as [r|].
  - destruct (spec_match r (spec_ace s)) eqn:C.
    + assert (X : forall k, filter (fun a => negb (spec_match r a)) k = filter (fun a => negb (spec_match s a)) k).
      { intros k. apply filter_ext_eq. intros a. now rewrite (spec_match_same_class r s C a). }
      rewrite !X. rewrite acl_modify_frame. apply filter_idem.
    + rewrite !(acl_modify_filter_commute s r _ C). rewrite acl_modify_idem. now rewrite filter_idem.
  - apply acl_modify_idem.
  - apply filter_idem.
  - reflexivity.
Qed.

Section Idem.
Variable sel : bytes -> bool.

Lemma map_entries_fix c : forall es es',
  (forall e, In e es -> entry_idem c e) ->
  map_entries (cmd_transformer c sel) es = Ok es' ->
  Forall (fun e' => cmd_transformer c sel e' = Ok (Some e')) es'.
Proof.
  induction es as [|e r IH]; intros es' Hid H.
  - inversion H. constructor.
  - apply map_entries_cons in H. destruct H as (o & r' & Hf & Hr & ->).
    assert (Hr' : Forall (fun e' => cmd_transformer c sel e' = Ok (Some e')) r') by (apply (IH _ (fun e0 H0 => Hid e0 (or_intror H0)) Hr)).
    destruct o as [e'|]; cbn [olist app]; [|exact Hr']. constructor; [|exact Hr'].
    rewrite transformer_unfold in *. destruct (touched sel c e) eqn:T.
    + assert (T' : touched sel c e' = true) by (unfold touched in *; now rewrite (cmd_entry_name _ _ _ Hf)).
      rewrite T'. apply (Hid e (or_introl eq_refl)). exact Hf.
    + inversion Hf; subst e'. now rewrite T.
Qed.
Lemma map_entries_of_fix f es : Forall (fun e => f e = Ok (Some e)) es -> map_entries f es = Ok es.
Proof. induction 1 as [|e r He _ IH]; [reflexivity|]. cbn [map_entries]. now rewrite He, IH. Qed.
Lemma transform_app keep pw f : forall a b a' b',
  transform keep pw f a = Ok a' -> transform keep pw f b = Ok b' -> transform keep pw f (a ++ b) = Ok (a' ++ b').
Proof.
  induction a as [|it a IH]; intros b a' b' Ha Hb.
  - inversion Ha. exact Hb.
  - cbn [transform app] in *. inv_bind Ha. inv_bind Hk. inversion Hk0; subst a'.
    rewrite Hb0. cbn [bind]. rewrite (IH _ _ _ Hb1 Hb). cbn [bind]. now rewrite app_assoc.
Qed.
Lemma transform_normals_fix keep pw f es :
  Forall (fun e => f e = Ok (Some e)) es -> transform keep pw f (map Normal es) = Ok (map Normal es).
Proof.
  induction 1 as [|e r He _ IH]; [reflexivity|]. cbn [map transform transform_item]. rewrite He. cbn [bind].
  now rewrite IH.
Qed.

Theorem transform_idem keep pw c : forall a a',
  (forall e, In e (entries a) -> entry_idem c e) ->
  transform keep pw (cmd_transformer c sel) a = Ok a' ->
  transform keep pw (cmd_transformer c sel) a' = Ok a'.
Proof.
  induction a as [|it a IH]; intros a' Hid H.
  - inversion H. reflexivity.
  - cbn [transform] in H. inv_bind H. inv_bind Hk. inversion Hk0; subst a'. clear Hk0.
    assert (Hida : forall e, In e (entries a) -> entry_idem c e).
    { intros e He. apply Hid. rewrite entries_cons, in_app_iff. auto. }
    assert (Hidi : forall e, In e (item_entries it) -> entry_idem c e).
    { intros e He. apply Hid. rewrite entries_cons, in_app_iff. auto. }
    apply transform_app; [|apply (IH _ Hida Hb0)].
    destruct it as [e|h x es]; cbn [transform_item item_entries] in *.
    + inv_bind Hb.
      assert (Hm : map_entries (cmd_transformer c sel) [e] = Ok (olist v1)).
      { cbn [map_entries]. rewrite Hb1. cbn [bind]. destruct v1; reflexivity. }
      apply (map_entries_fix c _ _ Hidi) in Hm.
      destruct v1 as [e'|]; inversion Hk; [|reflexivity].
      apply Forall_inv in Hm. cbn [transform transform_item]. rewrite Hm. reflexivity.
    + destruct (negb (sh_cipher h =? 0) && negb pw) eqn:C; [discriminate|]. inv_bind Hb.
      pose proof (map_entries_fix c _ _ Hidi Hb1) as Hfix.
      destruct keep; inversion Hk.
      * cbn [transform transform_item]. rewrite C, (map_entries_of_fix _ _ Hfix). reflexivity.
      * now apply transform_normals_fix.
Qed.

End Idem.

(* IDEMPOTENCE: repeating the same edit changes nothing further *)
Theorem idempotent sel keep pw c nf a a' :
  (forall e, In e (entries a) -> entry_idem c e) ->
  run_cmd keep pw c nf sel a = Ok a' -> run_cmd keep pw c nf sel a' = Ok a'.
Proof.
  intros Hid H. destruct (run_cmd_cases sel keep pw c nf a a' H) as [(Hn & Hz & Ha)|(Hn & Ht)]; [subst a'; exact H|].
  unfold run_cmd. rewrite Hn. exact (transform_idem (eff_sel c nf sel) keep pw c a a' Hid Ht).
Qed.

(* chmod, chown, xattr set/remove, strip, delete: unconditionally *)
Definition acl_free (c : cmd) : bool := match c with CAcl _ _ | CMigrate => false | _ => true end.
Lemma entry_idem_acl_free c e : acl_free c = true -> entry_idem c e.
Proof.
  destruct c; cbn; intros H; try discriminate;
    auto using entry_idem_chmod, entry_idem_chown, entry_idem_xattr, entry_idem_strip, entry_idem_delete.
Qed.

(* ---- extra chunks survive ------------------------------------------------------------------------------- *)
(* chmod, chown, xattr, (delete: survivors): the extra chunk list is untouched; acl set / migrate:
   every extra chunk that is not an ACL chunk survives, in order; strip: strip_keeps_exactly *)
Lemma extras_survive_entry c e e' : cmd_entry c e = Ok (Some e') ->
  match c with
  | CChmod _ | CChown _ _ | CXattr _ _ | CDelete => le_extras e' = le_extras e
  | CAcl _ _ | CMigrate => non_acl (le_extras e') = non_acl (le_extras e)
  | CStrip o => le_extras e' = filter (kept_by o) (le_extras e)
  end.
Proof.
  destruct c as [m|u g|s r|md rm|o| |]; cbn [cmd_entry]; intros H.
  - inversion H. reflexivity.
  - inversion H. reflexivity.
  - inversion H. apply (xattr_attrs s r e).
  - inversion H. apply (acl_attrs md rm e).
  - inversion H. reflexivity.
  - inv_bind H. inversion Hk; subst. apply (migrate_attrs _ _ Hb).
  - discriminate.
Qed.

(* ---- idempotence for every command ------------------------------------------------------------------------ *)
(* for acl set / migrate: the regrouped ACL chunks of the entry read back as the map that was
   written (print/parse round trip of the ACE text codec; true for every ACE the CLI prints, C15) *)
Definition acl_reads_back (c : cmd) (e : lentry) : Prop :=
  match c with
  | CMigrate => forall m, acl_parse (le_extras e) = Ok m ->
      acl_parse (acl_chunks m ++ non_acl (le_extras e)) = Ok m
  | CAcl md rm => forall m, acl_parse (le_extras e) = Ok m -> acl_skip md m = false ->
      acl_parse (acl_chunks (acl_update General (acl_edit md rm) m) ++ non_acl (le_extras e))
      = Ok (acl_update General (acl_edit md rm) m)
  | _ => True
  end.
Lemma entry_idem_all c e : acl_reads_back c e -> entry_idem c e.
Proof.
  destruct c as [m|u g|s r|md rm|o| |]; cbn [acl_reads_back]; intros H.
  - apply entry_idem_chmod.
  - apply entry_idem_chown.
  - apply entry_idem_xattr.
  - apply entry_idem_acl; [exact H|apply acl_edit_idem].
  - apply entry_idem_strip.
  - apply entry_idem_migrate. exact H.
  - apply entry_idem_delete.
Qed.
Theorem idempotent_all sel keep pw c nf a a' :
  (forall e, In e (entries a) -> acl_reads_back c e) ->
  run_cmd keep pw c nf sel a = Ok a' -> run_cmd keep pw c nf sel a' = Ok a'.
Proof. intros H. apply idempotent. intros e He. apply entry_idem_all. auto. Qed.
Theorem idempotent_acl_free sel keep pw c nf a a' : acl_free c = true ->
  run_cmd keep pw c nf sel a = Ok a' -> run_cmd keep pw c nf sel a' = Ok a'.
Proof. intros H. apply idempotent. intros e _. now apply entry_idem_acl_free. Qed.

(* the read-back premise cannot be dropped: `acl set -m u:alice:w -x u:alice` on an entry whose
   general group comes first and empties — the emptied group is written as a bare faCl chunk,
   is not seen when the entry is read again, and is re-created at the end (confirmed on the CLI) *)
Definition wit_entry : lentry :=
  {| le_name := lit "f"; le_kind := 0; le_hdr := lit "0:0:0"; le_content := lit "6869";
     le_ctime := None; le_mtime := None; le_atime := None; le_perm := None; le_xattrs := [];
     le_extras := [mk FACL []; mk FACE (lit ":u:alice:allow:r"); mk FACL (lit "linux"); mk FACE (lit ":u:bob:allow:r")] |}.
Definition wit_cmd : cmd :=
  CAcl (Some {| as_default := false; as_owner := User (lit "alice"); as_perms := Some [lit "w"] |})
       (Some {| as_default := false; as_owner := User (lit "alice"); as_perms := None |}).
Lemma idempotent_acl_refuted :
  exists a a', run_cmd true false wit_cmd 1 (fun _ => true) a = Ok a' /\
               run_cmd true false wit_cmd 1 (fun _ => true) a' <> Ok a'.
Proof.
  exists [Normal wit_entry].
  eexists. split; [vm_compute; reflexivity|]. vm_compute. intros H. discriminate H.
Qed.

(* premises are satisfiable: a two-item archive, chmod on one name *)
Definition ex_entry (n : bytes) : lentry :=
  {| le_name := n; le_kind := 0; le_hdr := lit "0:0:0"; le_content := [];
     le_ctime := Some 5; le_mtime := None; le_atime := None;
     le_perm := Some {| p_uid := 1; p_uname := lit "u"; p_gid := 2; p_gname := lit "g"; p_mode := 2541 |};
     le_xattrs := [{| x_name := lit "user.a"; x_value := lit "one" |}]; le_extras := [mk (lit "abCd") (lit "x")] |}.
Definition ex_archive : archive :=
  [Normal (ex_entry (lit "a")); Solid {| sh_codec := 0; sh_cipher := 0; sh_mode := 0 |} [mk (lit "qqQq") []] [ex_entry (lit "b"); ex_entry (lit "c")]].
Example ex_run_ok :
  exists a', run_cmd true false (CChmod (MEqual 2 0)) 1 (fun n => bytes_eqb n (lit "b")) ex_archive = Ok a'
             /\ a' <> ex_archive.
Proof. eexists. split; [vm_compute; reflexivity|]. vm_compute. intros H. discriminate H. Qed.
Example ex_reads_back : acl_reads_back CMigrate wit_entry.
Proof. cbn [acl_reads_back]. intros m H. vm_compute in H. inversion H. vm_compute. reflexivity. Qed.

(* ---- strip as it was before 4d97c0da: FILES were accepted and ignored (every entry was stripped) ------------ *)
Definition selects_all_orig (c : cmd) : bool := match c with CStrip _ | CMigrate => true | _ => false end.
Definition cmd_transformer_orig (c : cmd) (sel : bytes -> bool) : transformer :=
  fun e => if selects_all_orig c || sel (le_name e) then cmd_entry c e else Ok (Some e).
Definition run_cmd_orig (keep pw : bool) (c : cmd) (nfiles : N) (sel : bytes -> bool) (a : archive) : res archive :=
  if needs_files c && N.eqb nfiles 0 then Ok a else transform keep pw (cmd_transformer_orig c sel) a.
(* for every command but strip the old transformer is the repaired one *)
Lemma run_cmd_orig_other keep pw c nf sel a : (forall o, c <> CStrip o) -> run_cmd_orig keep pw c nf sel a = run_cmd keep pw c nf sel a.
Proof. destruct c; intros H; try reflexivity. contradiction (H o). reflexivity. Qed.

Definition strip_all : strip_opts :=
  {| keep_time := false; keep_perm := false; keep_xattr := false; keep_acl := false; keep_private := None |}.
Definition strip_sel (n : bytes) : bool := bytes_eqb n (lit "b").
(* pna strip x.pna b  on the archive [a; solid [b; c]]: the old command strips a and c as well *)
Lemma strip_ignored_patterns_unrepaired :
  exists a', run_cmd_orig true false (CStrip strip_all) 1 strip_sel ex_archive = Ok a' /\
    ~ Forall2 (fun e e' => le_name e' = le_name e /\ (strip_sel (le_name e) = false -> e' = e)) (entries ex_archive) (entries a').
Proof.
  eexists. split; [vm_compute; reflexivity|]. intros F. vm_compute in F.
  inversion F as [|? ? ? ? [_ Hu] _]; subst. specialize (Hu eq_refl). discriminate Hu.
Qed.
(* the repaired command on the same input strips b alone *)
Example strip_patterns_repaired :
  exists a', run_cmd true false (CStrip strip_all) 1 strip_sel ex_archive = Ok a' /\
    entries a' = [ex_entry (lit "a"); cmd_strip strip_all (ex_entry (lit "b")); ex_entry (lit "c")] /\
    cmd_strip strip_all (ex_entry (lit "b")) <> ex_entry (lit "b").
Proof.
  eexists. split; [vm_compute; reflexivity|]. split; [vm_compute; reflexivity|]. vm_compute. intros H. discriminate H.
Qed.
(* and without FILES every entry, as before *)
Example strip_no_patterns :
  exists a', run_cmd true false (CStrip strip_all) 0 (fun _ => false) ex_archive = Ok a' /\
    entries a' = map (cmd_strip strip_all) (entries ex_archive).
Proof. eexists. split; [vm_compute; reflexivity|]. vm_compute. reflexivity. Qed.
