(* PiecesFacts.v — `slice::chunks(cmax)` with the bound kept in N (Model/Chunk.v splitN / pieces), for EVERY bound
   cmax > 0 and every list: the pieces concatenate to the list, none is empty, none is longer than cmax, a list of at
   most cmax elements is its own single piece, the empty list has no piece.  The code's bound is CMAX = u32::MAX. *)
From PNA Require Import Base Chunk BaseFacts.
Require Import ZArith ZifyN ZifyNat ZifyBool Lia.
Open Scope N_scope.

Lemma CMAX_pos : 0 < CMAX.
Proof. reflexivity. Qed.
Lemma CMAX_lt : forall n, n <= CMAX <-> n < 2 ^ 32.
Proof. intro n. unfold CMAX. change (2 ^ 32) with 4294967296. lia. Qed.

Lemma CMAX_bound : 0 < CMAX /\ forall n, n <= CMAX <-> n < 2 ^ 32.
Proof. exact (conj CMAX_pos CMAX_lt). Qed.

Section Pieces.
Context {A : Type}.

Lemma splitN_app (l : list A) : forall k a b, splitN k l = (a, b) -> a ++ b = l.
Proof.
  induction l as [|x r IH]; intros k a b; cbn [splitN]; [intros [= <- <-]; reflexivity|].
  destruct (N.eqb k 0); [intros [= <- <-]; reflexivity|].
  destruct (splitN (N.pred k) r) as [a' b'] eqn:E. intros [= <- <-]. cbn [app]. f_equal. exact (IH _ _ _ E).
Qed.
Lemma splitN_len (l : list A) : forall k a b, splitN k l = (a, b) -> len a = N.min k (len l).
Proof.
  induction l as [|x r IH]; intros k a b; cbn [splitN]; [intros [= <- <-]; unfold len; cbn; lia|].
  destruct (N.eqb_spec k 0) as [->|NZ]; [intros [= <- <-]; unfold len; cbn; lia|].
  destruct (splitN (N.pred k) r) as [a' b'] eqn:E. intros [= <- <-]. rewrite !len_cons, (IH _ _ _ E). lia.
Qed.
Lemma splitN_all (l : list A) : forall k, len l <= k -> splitN k l = (l, []).
Proof.
  induction l as [|x r IH]; intros k H; cbn [splitN]; [reflexivity|]. rewrite len_cons in H.
  destruct (N.eqb_spec k 0) as [->|NZ]; [lia|]. rewrite IH by lia. reflexivity.
Qed.
Lemma splitN_rest (l : list A) k a b : 0 < k -> l <> [] -> splitN k l = (a, b) ->
  a <> [] /\ (length b < length l)%nat /\ len a <= k.
Proof.
  intros K NE E. pose proof (splitN_app _ _ _ _ E) as Ap. pose proof (splitN_len _ _ _ _ E) as Ln.
  assert (a <> []) as Na.
  { intro Z. subst a. destruct l; [contradiction|]. rewrite len_cons in Ln. unfold len in Ln at 1. cbn in Ln. lia. }
  split; [exact Na|]. split; [|lia]. rewrite <- Ap, app_length. destruct a; [contradiction|]. cbn. lia.
Qed.

(* the fuel is enough as soon as it covers the list *)
Lemma pieces_fuel_enough cmax : 0 < cmax -> forall f1 f2 (l : list A),
  (length l <= f1)%nat -> (length l <= f2)%nat -> pieces_fuel f1 cmax l = pieces_fuel f2 cmax l.
Proof.
  intros K. induction f1 as [|f1 IH]; intros f2 l H1 H2.
  - destruct l; [|cbn in H1; lia]. destruct f2; reflexivity.
  - destruct f2 as [|f2]; [destruct l; [reflexivity|cbn in H2; lia]|].
    cbn [pieces_fuel]. destruct l as [|x r]; [reflexivity|].
    destruct (splitN cmax (x :: r)) as [a b] eqn:E.
    destruct (splitN_rest (x :: r) cmax a b K ltac:(discriminate) E) as (_ & Lb & _).
    f_equal. apply IH; lia.
Qed.
Lemma pieces_nil cmax : pieces cmax (@nil A) = [].
Proof. reflexivity. Qed.
(* slice::chunks, one step *)
Lemma pieces_step cmax (l : list A) : 0 < cmax -> l <> [] ->
  pieces cmax l = fst (splitN cmax l) :: pieces cmax (snd (splitN cmax l)).
Proof.
  intros K NE. unfold pieces. destruct l as [|x r]; [contradiction|]. cbn [length pieces_fuel].
  destruct (splitN cmax (x :: r)) as [a b] eqn:E. cbn [fst snd].
  destruct (splitN_rest (x :: r) cmax a b K ltac:(discriminate) E) as (_ & Lb & _).
  f_equal. apply pieces_fuel_enough; [exact K|cbn [length] in Lb; lia|lia].
Qed.
(* a write of at most cmax bytes is itself, as one piece *)
Lemma pieces_small cmax (l : list A) : l <> [] -> len l <= cmax -> pieces cmax l = [l].
Proof.
  intros NE H. assert (K : 0 < cmax) by (destruct l; [contradiction|rewrite len_cons in H; lia]).
  rewrite pieces_step by assumption. rewrite splitN_all by exact H. reflexivity.
Qed.

Lemma pieces_ind cmax (P : list A -> list (list A) -> Prop) : 0 < cmax ->
  P [] [] ->
  (forall l a b, l <> [] -> splitN cmax l = (a, b) -> a <> [] -> len a <= cmax -> a ++ b = l ->
                 P b (pieces cmax b) -> P l (a :: pieces cmax b)) ->
  forall l, P l (pieces cmax l).
Proof.
  intros K P0 PS l. remember (length l) as n eqn:Hn. revert l Hn.
  induction n as [n IH] using lt_wf_ind. intros l Hn.
  destruct l as [|x r]; [exact P0|]. rewrite pieces_step by (exact K || discriminate).
  destruct (splitN cmax (x :: r)) as [a b] eqn:E. cbn [fst snd].
  destruct (splitN_rest (x :: r) cmax a b K ltac:(discriminate) E) as (Na & Lb & La).
  apply (PS (x :: r) a b); [discriminate|exact E|exact Na|exact La|exact (splitN_app _ _ _ _ E)|].
  apply (IH (length b)); [subst n; exact Lb|reflexivity].
Qed.

Theorem pieces_concat cmax (l : list A) : 0 < cmax -> concat (pieces cmax l) = l.
Proof.
  intros K. apply (pieces_ind cmax (fun l ps => concat ps = l) K); [reflexivity|].
  intros l0 a b _ _ _ _ Ap IH. cbn [concat]. rewrite IH. exact Ap.
Qed.
Theorem pieces_bounded cmax (l : list A) : 0 < cmax -> Forall (fun p => p <> [] /\ len p <= cmax) (pieces cmax l).
Proof.
  intros K. apply (pieces_ind cmax (fun _ ps => Forall (fun p => p <> [] /\ len p <= cmax) ps) K); [constructor|].
  intros l0 a b _ _ Na La _ IH. constructor; [split; assumption|exact IH].
Qed.
Lemma pieces_nonnil cmax (l : list A) : 0 < cmax -> l <> [] -> pieces cmax l <> [].
Proof. intros K NE. rewrite pieces_step by assumption. discriminate. Qed.
Lemma pieces_eq_nil cmax (l : list A) : 0 < cmax -> (pieces cmax l = [] <-> l = []).
Proof.
  intros K. split; [|intros ->; reflexivity]. intro H. destruct l as [|x r]; [reflexivity|].
  exfalso. apply (pieces_nonnil cmax (x :: r) K); [discriminate|exact H].
Qed.
(* cutting what has been cut changes nothing *)
Lemma pieces_of_piece cmax (l : list A) : 0 < cmax ->
  Forall (fun p => pieces cmax p = [p]) (pieces cmax l).
Proof.
  intros K. pose proof (pieces_bounded cmax l K) as B. eapply Forall_impl; [|exact B].
  intros p (Np & Lp). apply pieces_small; assumption.
Qed.
End Pieces.

(* lists of payloads *)
Definition cutN (cmax : N) (ds : list bytes) : list bytes := flat_map (pieces cmax) ds.
Definition nonnil (d : bytes) : bool := match d with [] => false | _ => true end.

Lemma cutN_nil cmax : cutN cmax [] = [].
Proof. reflexivity. Qed.
Lemma cutN_cons cmax d ds : cutN cmax (d :: ds) = pieces cmax d ++ cutN cmax ds.
Proof. reflexivity. Qed.
Lemma cutN_app cmax a b : cutN cmax (a ++ b) = cutN cmax a ++ cutN cmax b.
Proof. unfold cutN. apply flat_map_app. Qed.
Theorem cutN_concat cmax ds : 0 < cmax -> concat (cutN cmax ds) = concat ds.
Proof.
  intros K. induction ds as [|d ds IH]; [reflexivity|]. rewrite cutN_cons, concat_app, IH, pieces_concat by exact K. reflexivity.
Qed.
Theorem cutN_bounded cmax ds : 0 < cmax -> Forall (fun p => p <> [] /\ len p <= cmax) (cutN cmax ds).
Proof.
  intros K. induction ds as [|d ds IH]; [constructor|]. rewrite cutN_cons. apply Forall_app. split; [apply pieces_bounded; exact K|exact IH].
Qed.
(* payloads of at most cmax bytes: only the empty ones go *)
Theorem cutN_small cmax ds : Forall (fun d => len d <= cmax) ds -> cutN cmax ds = filter nonnil ds.
Proof.
  induction 1 as [|d ds Hd _ IH]; [reflexivity|]. rewrite cutN_cons, IH. cbn [filter].
  destruct d as [|x r]; [reflexivity|]. rewrite pieces_small by (discriminate || exact Hd). reflexivity.
Qed.
(* payloads that are pieces already stay *)
Lemma cutN_fixed cmax ds : Forall (fun p => p <> [] /\ len p <= cmax) ds -> cutN cmax ds = ds.
Proof.
  induction 1 as [|d ds (Nd & Ld) _ IH]; [reflexivity|]. rewrite cutN_cons, IH, pieces_small by assumption. reflexivity.
Qed.
Lemma cutN_idem cmax ds : 0 < cmax -> cutN cmax (cutN cmax ds) = cutN cmax ds.
Proof.
  intros K. induction ds as [|d ds IH]; [reflexivity|]. rewrite cutN_cons, cutN_app, IH. f_equal.
  pose proof (pieces_of_piece cmax d K) as P. induction P as [|p ps Hp _ IHp]; [reflexivity|].
  rewrite cutN_cons, Hp, IHp. reflexivity.
Qed.
Lemma cutN_filter cmax ds : cutN cmax (filter nonnil ds) = cutN cmax ds.
Proof.
  induction ds as [|d ds IH]; [reflexivity|]. cbn [filter]. destruct d as [|x r]; cbn [nonnil]; [exact IH|].
  rewrite !cutN_cons, IH. reflexivity.
Qed.

Lemma len_concat {A} (l : list (list A)) : len (concat l) = fold_right (fun p n => len p + n) 0 l.
Proof. induction l as [|p l IH]; [reflexivity|]. cbn [concat fold_right]. rewrite len_app, IH. reflexivity. Qed.
Lemma pieces_len {A} cmax (l : list A) : 0 < cmax -> fold_right (fun p n => len p + n) 0 (pieces cmax l) = len l.
Proof. intros K. rewrite <- len_concat, pieces_concat by exact K. reflexivity. Qed.

(* the code's bound is never unfolded by cbn / simpl / unfold: proofs go through CMAX_pos and CMAX_lt, hence hold
   for every positive bound; vm_compute and the extracted code still compute with it *)
Global Opaque CMAX.
