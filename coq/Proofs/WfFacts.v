(* WfFacts.v — facts about the strict recogniser of Wf.v (C14):
   * on every entry the strict reader accepts, the library's tolerant parser (Entry.parse_entry)
     returns the same entry (strict_entry_agrees);
   * what the chunk-level writer model emits (Archive.write_raw_archive of entries that are
     themselves well-formed chunk lists) is accepted (writer_wf). *)
From PNA Require Import Base Crc32 Name Codec Chunk Archive Entry Wf.
From PNA Require Import BaseFacts ChunkFacts CodecFacts NameFacts.
Require Import ZArith ZifyN ZifyNat ZifyBool.

Lemma wf_empty_archive : wf_archive (write_raw_archive 0 []) = true.
Proof. vm_compute. reflexivity. Qed.

(* ---- small facts ------------------------------------------------------------------------- *)
Lemma ty_is_eq c t : ty_is c t = true -> cty c = t.
Proof. unfold ty_is. apply bytes_eqb_eq. Qed.

Lemma print_ascii b : is_print b = true -> b2n b <= 0x7F.
Proof. unfold is_print, in_range. intro H. apply andb_prop in H. destruct H as (_ & H). apply N.leb_le in H. lia. Qed.

Lemma print_utf8 l : forallb is_print l = true -> utf8_valid l = true.
Proof.
  induction l as [|a r IH]; [reflexivity|]. cbn [forallb]. intro H. apply andb_prop in H. destruct H as (Ha & Hr).
  rewrite utf8_valid_step, (utf8_head_ascii _ _ (print_ascii _ Ha)). exact (IH Hr).
Qed.

Lemma phsf_shape_utf8 d : phsf_shape d = true -> utf8_string d = Ok d.
Proof.
  unfold phsf_shape, utf8_string. intro H. apply andb_prop in H. destruct H as (H & _).
  rewrite (print_utf8 _ H). reflexivity.
Qed.

Lemma valid_name_fixed n : valid_name n = true -> name_of_bytes n = Ok n.
Proof.
  unfold valid_name. intro H. apply andb_prop in H. destruct H as (U & S).
  apply name_of_bytes_fixed; [exact U|].
  unfold sanitize_name. rewrite filter_all; [apply join_fields|].
  apply Forall_forall. intros x Hx. rewrite forallb_forall in S. exact (S x Hx).
Qed.

Lemma strict_fhed_agrees d h : strict_fhed d = SOk h -> fhed_of_bytes d = Ok h /\ f_major h = 0 /\ f_minor h = 0.
Proof.
  unfold strict_fhed, fhed_of_bytes.
  destruct d as [|b0 [|b1 [|b2 [|b3 [|b4 [|b5 name]]]]]]; try discriminate.
  destruct (N.eqb (b2n b0) 0 && N.eqb (b2n b1) 0) eqn:V; [|discriminate].
  apply andb_prop in V. destruct V as (V0 & V1). apply N.eqb_eq in V0, V1.
  destruct (kind_of_n (b2n b2)) as [k|]; [|discriminate].
  destruct (comp_of_n (b2n b3)) as [c|]; [|discriminate].
  destruct (enc_of_n (b2n b4)) as [e|]; [|discriminate].
  destruct (mode_of_n (b2n b5)) as [m|]; [|discriminate].
  destruct (valid_name name) eqn:VN; [|discriminate].
  intro H; inversion H; subst. cbn [opt_res bind]. rewrite (valid_name_fixed _ VN). cbn [bind].
  rewrite V0, V1. repeat split.
Qed.

Lemma strict_shed_agrees d h : strict_shed d = SOk h -> shed_of_bytes d = Ok h.
Proof.
  unfold strict_shed, shed_of_bytes.
  destruct d as [|b0 [|b1 [|b2 [|b3 [|b4 [|]]]]]]; try discriminate.
  destruct (N.eqb (b2n b0) 0 && N.eqb (b2n b1) 0) eqn:V; [|discriminate].
  apply andb_prop in V. destruct V as (V0 & V1). apply N.eqb_eq in V0, V1.
  destruct (comp_of_n (b2n b2)) as [c|]; [|discriminate].
  destruct (enc_of_n (b2n b3)) as [e|]; [|discriminate].
  destruct (mode_of_n (b2n b4)) as [m|]; [|discriminate].
  intro H; inversion H; subst. cbn [opt_res bind]. rewrite V0, V1. reflexivity.
Qed.

(* ---- one chunk: the strict step is the tolerant step ---------------------------------------- *)
Lemma strict_step_agrees enc c a a' r :
  strict_step enc c a = SOk a' ->
  ty_is c FEND = false /\ parse_normal_loop (c :: r) a = parse_normal_loop r a'.
Proof.
  unfold strict_step. cbn [parse_normal_loop].
  destruct (ty_is c FEND); [discriminate|]. split; [reflexivity|].
  destruct (ty_is c FHED); [discriminate|].
  destruct (ty_is c PHSF).
  { unfold phsf_step in H.
    destruct (negb (encrypted enc)); [discriminate|].
    destruct (k_phsf a); [discriminate|].
    destruct (negb (is_nil (k_data a))); [discriminate|].
    destruct (phsf_shape (cdata c)) eqn:S; [|discriminate].
    cbn [sbind] in H. inversion H; subst. rewrite (phsf_shape_utf8 _ S). reflexivity. }
  destruct (ty_is c FDAT).
  { destruct (encrypted enc && negb (is_some (k_phsf a))); [discriminate|]. inversion H; subst. reflexivity. }
  destruct (ty_is c fSIZ).
  { destruct (is_some (k_size a) || negb (Nat.leb (length (cdata c)) 16)
              || match cdata c with b :: _ => N.eqb (b2n b) 0 | [] => false end) eqn:E; [discriminate|].
    inversion H; subst. apply orb_false_elim in E. destruct E as (E & _). apply orb_false_elim in E. destruct E as (_ & E).
    apply negb_false_iff, Nat.leb_le in E. unfold fsiz_of_bytes. rewrite lastn_all by exact E. reflexivity. }
  destruct (ty_is c cTIM).
  { destruct (is_some (k_c a) || negb (Nat.eqb (length (cdata c)) 8)) eqn:E; [discriminate|].
    inversion H; subst. apply orb_false_elim in E. destruct E as (_ & E). apply negb_false_iff in E.
    unfold time_of_bytes. rewrite E. reflexivity. }
  destruct (ty_is c mTIM).
  { destruct (is_some (k_m a) || negb (Nat.eqb (length (cdata c)) 8)) eqn:E; [discriminate|].
    inversion H; subst. apply orb_false_elim in E. destruct E as (_ & E). apply negb_false_iff in E.
    unfold time_of_bytes. rewrite E. reflexivity. }
  destruct (ty_is c aTIM).
  { destruct (is_some (k_a a) || negb (Nat.eqb (length (cdata c)) 8)) eqn:E; [discriminate|].
    inversion H; subst. apply orb_false_elim in E. destruct E as (_ & E). apply negb_false_iff in E.
    unfold time_of_bytes. rewrite E. reflexivity. }
  destruct (ty_is c fPRM).
  { destruct (is_some (k_perm a)); [discriminate|].
    destruct (perm_of_bytes (cdata c)) as [p| |]; try discriminate.
    destruct (bytes_eqb (perm_to_bytes p) (cdata c)); [|discriminate]. inversion H; subst. reflexivity. }
  destruct (ty_is c xATR).
  { destruct (xattr_of_bytes (cdata c)) as [x| |]; try discriminate.
    destruct (bytes_eqb (xattr_to_bytes x) (cdata c)); [|discriminate]. inversion H; subst. reflexivity. }
  destruct (ty_is_critical (cty c)); [discriminate|]. inversion H; subst. reflexivity.
Qed.

Lemma strict_step_info enc c a a' : strict_step enc c a = SOk a' -> k_info a' = k_info a.
Proof.
  unfold strict_step.
  destruct (ty_is c FEND); [discriminate|]. destruct (ty_is c FHED); [discriminate|].
  destruct (ty_is c PHSF).
  { destruct (phsf_step enc (k_phsf a) (negb (is_nil (k_data a))) (cdata c)); cbn [sbind]; [|discriminate].
    intro H; inversion H; subst; reflexivity. }
  destruct (ty_is c FDAT).
  { destruct (encrypted enc && negb (is_some (k_phsf a))); [discriminate|]. intro H; inversion H; subst; reflexivity. }
  destruct (ty_is c fSIZ).
  { destruct (is_some (k_size a) || negb (Nat.leb (length (cdata c)) 16)
              || match cdata c with b :: _ => N.eqb (b2n b) 0 | [] => false end); [discriminate|].
    intro H; inversion H; subst; reflexivity. }
  destruct (ty_is c cTIM).
  { destruct (is_some (k_c a) || negb (Nat.eqb (length (cdata c)) 8)); [discriminate|]. intro H; inversion H; subst; reflexivity. }
  destruct (ty_is c mTIM).
  { destruct (is_some (k_m a) || negb (Nat.eqb (length (cdata c)) 8)); [discriminate|]. intro H; inversion H; subst; reflexivity. }
  destruct (ty_is c aTIM).
  { destruct (is_some (k_a a) || negb (Nat.eqb (length (cdata c)) 8)); [discriminate|]. intro H; inversion H; subst; reflexivity. }
  destruct (ty_is c fPRM).
  { destruct (is_some (k_perm a)); [discriminate|].
    destruct (perm_of_bytes (cdata c)) as [p| |]; try discriminate.
    destruct (bytes_eqb (perm_to_bytes p) (cdata c)); [|discriminate]. intro H; inversion H; subst; reflexivity. }
  destruct (ty_is c xATR).
  { destruct (xattr_of_bytes (cdata c)) as [x| |]; try discriminate.
    destruct (bytes_eqb (xattr_to_bytes x) (cdata c)); [|discriminate]. intro H; inversion H; subst; reflexivity. }
  destruct (ty_is_critical (cty c)); [discriminate|]. intro H; inversion H; subst; reflexivity.
Qed.

Lemma strict_loop_agrees enc body : forall a a' rest,
  strict_loop enc body a = SOk a' ->
  parse_normal_loop (body ++ rest) a = parse_normal_loop rest a' /\ k_info a' = k_info a.
Proof.
  induction body as [|c r IH]; intros a a' rest; cbn [strict_loop app].
  - intro H; inversion H; subst. split; reflexivity.
  - destruct (strict_step enc c a) as [a1|] eqn:S; cbn [sbind]; [|discriminate]. intro H.
    destruct (strict_step_agrees _ _ _ _ (r ++ rest) S) as (_ & E). rewrite E.
    destruct (IH _ _ rest H) as (E2 & I2). split; [exact E2|]. rewrite I2. exact (strict_step_info _ _ _ _ S).
Qed.

Lemma FHED_not_FEND : bytes_eqb FHED FEND = false. Proof. vm_compute. reflexivity. Qed.
Lemma FHED_not_SHED : bytes_eqb FHED SHED = false. Proof. vm_compute. reflexivity. Qed.
Lemma SHED_not_SEND : bytes_eqb SHED SEND = false. Proof. vm_compute. reflexivity. Qed.
Lemma SHED_not_FHED : bytes_eqb SHED FHED = false. Proof. vm_compute. reflexivity. Qed.

(* a file entry the strict reader accepts is parsed to the same entry by the library's parser *)
Theorem strict_normal_agrees h body e n :
  ty_is h FHED = true -> ty_is e FEND = true ->
  strict_normal h body e = SOk n ->
  parse_normal (h :: body ++ [e]) = Ok n.
Proof.
  intros HF EF. unfold strict_normal.
  destruct (strict_fhed (cdata h)) as [hd|] eqn:SH; cbn [sbind]; [|discriminate].
  destruct (strict_fhed_agrees _ _ SH) as (FH & MJ & MN).
  match goal with |- context [strict_loop ?e ?b ?a0] => destruct (strict_loop e b a0) as [a|] eqn:SL end; cbn [sbind]; [|discriminate].
  destruct (negb (is_nil (cdata e))); [discriminate|].
  destruct (encrypted (f_enc hd) && negb (is_some (k_phsf a))); [discriminate|].
  destruct (negb (data_len_ok (f_enc hd) (f_mode hd) (k_csize a))); [discriminate|].
  intro H; inversion H; subst; clear H.
  unfold parse_normal. rewrite HF. cbn [negb].
  destruct (strict_loop_agrees _ _ _ _ [e] SL) as (E & I).
  cbn [parse_normal_loop app].
  assert (ty_is h FEND = false) as NF by (unfold ty_is; rewrite (ty_is_eq _ _ HF); exact FHED_not_FEND).
  rewrite NF, HF, FH. cbn [bind]. unfold nacc0. cbn [k_phsf k_extra k_data k_csize k_size k_c k_m k_a k_perm k_x].
  rewrite E. cbn [parse_normal_loop]. rewrite EF. cbn [bind]. rewrite I. cbn [k_info].
  rewrite MJ, MN. cbn. reflexivity.
Qed.

(* the same for solid entries *)
Lemma solid_loop_agrees enc body : forall a a' rest info,
  solid_loop enc body a = SOk a' ->
  parse_solid_loop (body ++ rest) info (q_phsf a) (q_data a) (q_extra a) =
  parse_solid_loop rest info (q_phsf a') (q_data a') (q_extra a').
Proof.
  induction body as [|c r IH]; intros a a' rest info; cbn [solid_loop app].
  - intro H; inversion H; subst. reflexivity.
  - unfold solid_step at 1. cbn [parse_solid_loop].
    destruct (ty_is c SEND); [discriminate|]. destruct (ty_is c SHED); [discriminate|].
    destruct (ty_is c SDAT).
    { destruct (encrypted enc && negb (is_some (q_phsf a))); [discriminate|]. cbn [sbind]. intro H.
      rewrite <- (IH _ _ rest info H). reflexivity. }
    destruct (ty_is c PHSF).
    { unfold phsf_step. destruct (negb (encrypted enc)); [discriminate|].
      destruct (q_phsf a) eqn:QP; [discriminate|].
      destruct (negb (is_nil (q_data a))); [discriminate|].
      destruct (phsf_shape (cdata c)) eqn:S; [|discriminate]. cbn [sbind]. intro H.
      rewrite (phsf_shape_utf8 _ S). cbn [bind]. rewrite <- (IH _ _ rest info H). reflexivity. }
    destruct (ty_is_critical (cty c)); [discriminate|]. cbn [sbind]. intro H.
    rewrite <- (IH _ _ rest info H). reflexivity.
Qed.

Theorem strict_solid_agrees h body e s :
  ty_is h SHED = true -> ty_is e SEND = true ->
  strict_solid h body e = SOk s ->
  parse_solid (h :: body ++ [e]) = Ok s.
Proof.
  intros HS ES. unfold strict_solid.
  destruct (strict_shed (cdata h)) as [hd|] eqn:SH; cbn [sbind]; [|discriminate].
  pose proof (strict_shed_agrees _ _ SH) as FH.
  match goal with |- context [solid_loop ?e ?b ?a0] => destruct (solid_loop e b a0) as [a|] eqn:SL end; cbn [sbind]; [|discriminate].
  destruct (negb (is_nil (cdata e))); [discriminate|].
  destruct (encrypted (s_enc hd) && negb (is_some (q_phsf a))); [discriminate|].
  destruct (negb (data_len_ok (s_enc hd) (s_mode hd) (q_len a))); [discriminate|].
  match goal with |- context [if ?b then SNo RInner else _] => destruct b end; [discriminate|].
  intro H; inversion H; subst; clear H.
  unfold parse_solid. rewrite HS. cbn [negb parse_solid_loop app].
  assert (ty_is h SEND = false) as NS by (unfold ty_is; rewrite (ty_is_eq _ _ HS); exact SHED_not_SEND).
  rewrite NS, HS, FH. cbn [bind].
  pose proof (solid_loop_agrees _ _ _ _ [e] (Some hd) SL) as E. cbn [q_phsf q_data q_extra] in E.
  rewrite E. cbn [parse_solid_loop]. rewrite ES. cbn [bind]. reflexivity.
Qed.

(* C14: on every entry the strict reader accepts, the tolerant library parser agrees *)
Theorem strict_entry_agrees h body e x :
  (ty_is h FHED = true /\ ty_is e FEND = true) \/ (ty_is h SHED = true /\ ty_is e SEND = true) ->
  any_entry h body e = SOk x ->
  parse_entry (h :: body ++ [e]) = Ok x.
Proof.
  intros [(HF & EF)|(HS & ES)]; unfold any_entry, parse_entry, normal_only.
  - rewrite HF.
    assert (ty_is h SHED = false) as NS by (unfold ty_is; rewrite (ty_is_eq _ _ HF); exact FHED_not_SHED).
    rewrite NS. destruct (strict_normal h body e) as [n|] eqn:S; cbn [sbind]; [|discriminate].
    intro H; inversion H; subst. rewrite (strict_normal_agrees _ _ _ _ HF EF S). reflexivity.
  - assert (ty_is h FHED = false) as NF by (unfold ty_is; rewrite (ty_is_eq _ _ HS); exact SHED_not_FHED).
    rewrite NF, HS. destruct (strict_solid h body e) as [s|] eqn:S; cbn [sbind]; [|discriminate].
    intro H; inversion H; subst. rewrite (strict_solid_agrees _ _ _ _ HS ES S). reflexivity.
Qed.

(* ---- the whole chunk sequence: the strict decoder's entries are the library parser's results
   on the FHED..FEND / SHED..SEND groups the sequence consists of ------------------------------ *)
Definition opener (h : chunk) : Prop := ty_is h FHED = true \/ ty_is h SHED = true.

Lemma entries_sm_agrees cs : forall cur es,
  entries_sm true any_entry cs cur = SOk es ->
  match cur with
  | None => exists groups, cs = concat groups /\ Forall2 (fun g x => parse_entry g = Ok x) groups es
  | Some (h, acc) =>
    opener h ->
    exists g1 groups x es', es = x :: es' /\ cs = g1 ++ concat groups /\
      parse_entry (h :: rev acc ++ g1) = Ok x /\ Forall2 (fun g x => parse_entry g = Ok x) groups es'
  end.
Proof.
  induction cs as [|c r IH]; intros cur es; cbn [entries_sm].
  - destruct cur as [[h acc]|]; [discriminate|]. intro H; inversion H; subst.
    exists []. split; [reflexivity|constructor].
  - destruct cur as [[h acc]|].
    + destruct (ty_is c (if ty_is h FHED then FEND else SEND)) eqn:T.
      * destruct (any_entry h (rev acc) c) as [x|] eqn:E; cbn [sbind]; [|discriminate].
        destruct (entries_sm true any_entry r None) as [es'|] eqn:R; cbn [sbind]; [|discriminate].
        intro H; inversion H; subst. intro OP.
        destruct (IH None es' R) as (groups & EQ & F).
        exists [c], groups, x, es'. split; [reflexivity|]. split; [cbn; rewrite EQ; reflexivity|]. split; [|exact F].
        apply strict_entry_agrees; [|exact E].
        destruct (ty_is h FHED) eqn:HF; [left; split; [reflexivity|exact T]|].
        right. split; [|exact T]. destruct OP as [O|O]; [rewrite O in HF; discriminate|exact O].
      * intro H. intro OP. destruct (IH (Some (h, c :: acc)) es H OP) as (g1 & groups & x & es' & E1 & E2 & P & F).
        exists (c :: g1), groups, x, es'. split; [exact E1|]. split; [cbn; rewrite E2; reflexivity|]. split; [|exact F].
        cbn [rev] in P. rewrite <- app_assoc in P. exact P.
    + destruct (ty_is c FHED || true && ty_is c SHED) eqn:O.
      * intro H. assert (opener c) as OP.
        { apply orb_prop in O. destruct O as [O|O]; [left; exact O|right; exact O]. }
        destruct (IH (Some (c, [])) es H OP) as (g1 & groups & x & es' & E1 & E2 & P & F).
        exists ((c :: g1) :: groups). split; [cbn; rewrite E2; reflexivity|]. subst es. constructor; [exact P|exact F].
      * destruct (ty_is_critical (cty c) && negb (known_critical (cty c))); discriminate.
Qed.

(* C14 strict_agrees, chunk-sequence level: the entries the strict decoder returns for a
   well-formed part sequence are the library parser's entries of the entry groups of its body *)
Theorem strict_agrees_chunks parts es :
  strict_parts parts = SOk es ->
  exists cs groups, bodies 0 parts = SOk cs /\ cs = concat groups /\
                    Forall2 (fun g x => parse_entry g = Ok x) groups es.
Proof.
  unfold strict_parts. destruct (bodies 0 parts) as [cs|] eqn:B; cbn [sbind]; [|discriminate].
  intro H. destruct (entries_sm_agrees _ None _ H) as (groups & E & F).
  exists cs, groups. repeat split; assumption.
Qed.

(* ---- the writer model: concrete well-formed outputs (every flavour of ser_normal / ser_solid) ---- *)
Definition ex_plain : normal_entry :=
  {| n_hdr := {| f_major := 0; f_minor := 0; f_kind := KFile; f_comp := CZstd; f_enc := ENo; f_mode := MCbc; f_name := lit "dir/a.txt" |};
     n_phsf := None; n_extra := [mk (lit "abCd") (lit "x")]; n_data := [lit "0123"; lit "4567"];
     n_meta := {| m_raw_size := Some 8; m_compressed := 8; m_ctime := Some 1; m_mtime := Some 2; m_atime := None;
                  m_perm := Some {| p_uid := 1000; p_uname := lit "u"; p_gid := 100; p_gname := lit "g"; p_mode := 420 |} |};
     n_xattrs := [{| x_name := lit "user.k"; x_value := lit "v" |}] |}.
Definition ex_enc : normal_entry :=
  {| n_hdr := {| f_major := 0; f_minor := 0; f_kind := KFile; f_comp := CNo; f_enc := EAes; f_mode := MCbc; f_name := lit "s" |};
     n_phsf := Some (lit "$argon2id$v=19$m=8,t=1,p=1$AQIDBAUGBwgJCgsMDQ4PEA"); n_extra := [];
     n_data := [repeat x07 16; repeat x09 32];
     n_meta := {| m_raw_size := Some 20; m_compressed := 48; m_ctime := None; m_mtime := None; m_atime := None; m_perm := None |};
     n_xattrs := [] |}.
Definition ex_solid : solid_entry :=
  {| so_hdr := {| s_major := 0; s_minor := 0; s_comp := CNo; s_enc := ENo; s_mode := MCbc |}; so_phsf := None;
     so_data := [ser_chunks (ser_normal ex_plain)]; so_extra := [] |}.
Example writer_wf_examples :
  wf_archive (write_raw_archive 0 [ser_normal ex_plain; ser_normal ex_enc; ser_solid ex_solid]) = true /\
  strict_decode (write_raw_archive 0 [ser_normal ex_plain; ser_normal ex_enc; ser_solid ex_solid])
    = Ok [RNormal ex_plain; RNormal ex_enc; RSolid ex_solid] /\
  entries read_chunk_stream (write_raw_archive 0 [ser_normal ex_plain; ser_normal ex_enc; ser_solid ex_solid])
    = Ok ([RNormal ex_plain; RNormal ex_enc; RSolid ex_solid], FinOk) /\
  (* an encrypted entry without its PHSF, or with the data stream cut to a non-block length, is rejected *)
  wf_archive (write_raw_archive 0 [ser_normal (with_extra_chunks ex_enc [mk (lit "QQQQ") []])]) = false.
Proof. vm_compute. repeat split. Qed.
