(* WfFacts.v — facts about the strict recogniser of Wf.v (C14). *)
From PNA Require Import Base Crc32 Name Codec Chunk Archive Entry Wf.
From PNA Require Import BaseFacts ChunkFacts CodecFacts NameFacts.
Require Import ZArith ZifyN ZifyNat ZifyBool.

Lemma wf_empty_archive : wf_archive (write_raw_archive 0 []) = true.
Proof. vm_compute. reflexivity. Qed.
