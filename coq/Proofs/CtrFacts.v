(* CtrFacts.v — facts about Model/Ctr.v: CTR is a position-wise xor with a keystream that does
   not depend on how the data is cut into write or read calls; writer and reader specs; the
   round trip for all write partitions, chunk cuts and buffer sizes (no cipher law needed:
   xor with the same keystream twice is the identity). *)
From PNA Require Import Base Flatten Cbc Ctr BaseFacts FlattenFacts CbcFacts.
Require Import ZArith ZifyN ZifyNat ZifyBool Lia.
Open Scope N_scope.

(* the counter block is u128::to_be_bytes: the shift form used for running = Base.be128 *)
Lemma n2b_land_shiftr x j : n2b (N.land (N.shiftr x j) 255) = n2b (x / 2 ^ j).
Proof.
  unfold n2b. rewrite N.shiftr_div_pow2. change 255 with (N.ones 8). rewrite N.land_ones.
  change (2 ^ 8) with 256. rewrite N.mod_mod by lia. reflexivity.
Qed.
Lemma be128s_eq x : be128s x = be128 x.
Proof.
  unfold be128s, be128. cbn [map be]. rewrite !n2b_land_shiftr. reflexivity.
Qed.

Section CTR.
Variable E : bytes -> bytes -> bytes.

Lemma ks_block_spec k iv i : ks_block E k iv i = E k (be128 ((iv + i) mod 2 ^ 128)).
Proof.
  unfold ks_block. rewrite be128s_eq. change (2 ^ 128 - 1) with (N.ones 128). rewrite N.land_ones. reflexivity.
Qed.

Lemma ctr_xor_app k iv : forall a p b,
  ctr_xor E k iv p (a ++ b) = ctr_xor E k iv p a ++ ctr_xor E k iv (p + len a) b.
Proof.
  induction a as [|x a IH]; intros p b; cbn [app ctr_xor].
  - replace (p + len (@nil byte)) with p by (unfold len; cbn; lia). reflexivity.
  - f_equal. rewrite IH. do 2 f_equal. rewrite len_cons. lia.
Qed.
Lemma ctr_xor_length k iv : forall d p, length (ctr_xor E k iv p d) = length d.
Proof. induction d as [|x d IH]; intros p; cbn; [reflexivity|]. rewrite IH. reflexivity. Qed.
Lemma ctr_xor_len k iv d p : len (ctr_xor E k iv p d) = len d.
Proof. unfold len. rewrite ctr_xor_length. reflexivity. Qed.
(* applying the keystream twice at the same position is the identity *)
Lemma ctr_xor_invol k iv : forall d p, ctr_xor E k iv p (ctr_xor E k iv p d) = d.
Proof. induction d as [|x d IH]; intros p; cbn [ctr_xor]; [reflexivity|]. rewrite xorb_invol, IH. reflexivity. Qed.

(* ---- writer --------------------------------------------------------------------------------------- *)
Theorem ctrw_writes_spec : forall ws s s' calls, ctrw_writes E s ws = (s', calls) ->
  concat (concat (map snd calls)) = ctr_xor E (cw_key s) (cw_iv s) (cw_pos s) (concat ws) /\
  map fst calls = map len ws /\
  map (fun c => map len (snd c)) calls = map (fun w => [len w]) ws /\
  cw_key s' = cw_key s /\ cw_iv s' = cw_iv s /\ cw_pos s' = cw_pos s + len (concat ws).
Proof.
  induction ws as [|d r IH]; intros s s' calls H; cbn [ctrw_writes] in H.
  - inversion H; subst. cbn. repeat split. unfold len. cbn. lia.
  - unfold ctrw_write in H. destruct (ctrw_writes E _ r) as [s2 rest] eqn:E2. inversion H; subst. clear H.
    apply IH in E2. cbn [cw_key cw_iv cw_pos] in E2. destruct E2 as (A & B & C & K & I & P).
    cbn [map fst snd concat app]. rewrite A, ctr_xor_app, B, C, ctr_xor_len, len_app.
    repeat split; try assumption. rewrite P. lia.
Qed.

(* ---- reader --------------------------------------------------------------------------------------- *)
Fixpoint ctrr_read_seq (st : ctrr) (ns : list N) : list bytes :=
  match ns with
  | [] => []
  | n :: r => let (st', out) := ctrr_read E st n in out :: ctrr_read_seq st' r
  end.

(* the CTR reader is the FlattenReader with the keystream applied at the running position *)
Theorem ctrr_seq_spec : forall ns st,
  concat (ctrr_read_seq st ns) = ctr_xor E (cr_key st) (cr_iv st) (cr_pos st) (concat (flat_reads (cr_src st) ns)) /\
  map (@length byte) (ctrr_read_seq st ns) = map (@length byte) (flat_reads (cr_src st) ns).
Proof.
  induction ns as [|n r IH]; intros st; cbn [ctrr_read_seq flat_reads]; [split; reflexivity|].
  unfold ctrr_read. destruct (flat_read (cr_src st) n) as [src' got] eqn:Ef.
  cbn [concat map]. destruct (IH {| cr_key := cr_key st; cr_iv := cr_iv st; cr_pos := cr_pos st + len got; cr_src := src' |}) as [A B].
  cbn [cr_key cr_iv cr_pos cr_src] in *. rewrite A, B, ctr_xor_app, ctr_xor_length. split; reflexivity.
Qed.

Lemma in_nil_map_length {A} : forall (l1 l2 : list (list A)),
  map (@length A) l1 = map (@length A) l2 -> In [] l1 -> In [] l2.
Proof.
  induction l1 as [|a l1 IH]; intros [|b l2] H Hin; cbn in *; try contradiction; try discriminate.
  inversion H. destruct Hin as [->|Hin]; [left; destruct b; [reflexivity|discriminate]|right; eauto].
Qed.

(* ---- (iv) round trip: any write partition, any cut of the ciphertext, any buffer sizes ------------ *)
Theorem ctr_roundtrip : forall key iv ws s0 s' calls chunks ns,
  ctrw_new key iv = Ok s0 -> ctrw_writes E s0 ws = (s', calls) ->
  concat chunks = concat (concat (map snd calls)) ->
  exists st, ctrr_new key iv chunks = Ok st /\
    (exists rest, concat ws = concat (ctrr_read_seq st ns) ++ rest) /\
    Forall2 (fun out n => len out <= n) (ctrr_read_seq st ns) ns /\
    (Forall (fun n => 0 < n) ns -> In [] (ctrr_read_seq st ns) -> concat (ctrr_read_seq st ns) = concat ws).
Proof.
  intros key iv ws s0 s' calls chs ns Hnew Hw Hct. unfold ctrw_new in Hnew. unfold ctrr_new.
  destruct (key_iv_ok key iv); [|discriminate]. inversion Hnew; subst. clear Hnew.
  destruct (ctrw_writes_spec _ _ _ _ Hw) as (Henc & _). cbn [cw_key cw_iv cw_pos] in Henc.
  rewrite Henc in Hct. eexists. split; [reflexivity|].
  set (st := {| cr_key := key; cr_iv := of_be iv; cr_pos := 0; cr_src := chs |}).
  destruct (ctrr_seq_spec ns st) as [A B]. cbn [cr_key cr_iv cr_pos cr_src st] in A, B.
  destruct (flat_reads_prefix ns chs) as ((rest & Hrest) & Hle).
  assert (Hws : concat ws = ctr_xor E key (of_be iv) 0 (concat chs)) by (rewrite Hct, ctr_xor_invol; reflexivity).
  split; [|split].
  - exists (ctr_xor E key (of_be iv) (0 + len (concat (flat_reads chs ns))) rest).
    rewrite A, Hws, Hrest at 1. apply ctr_xor_app.
  - clear -B Hle. revert B Hle. generalize (flat_reads chs ns) as fr. generalize (ctrr_read_seq st ns) as cr.
    intros cr fr B Hle. revert cr B. induction Hle as [|f n fr' ns' Hf _ IH]; intros cr B.
    + destruct cr; [constructor|discriminate].
    + destruct cr as [|c cr]; [discriminate|]. inversion B. constructor; [unfold len in *; lia|apply IH; assumption].
  - intros Hpos Hin. apply (in_nil_map_length _ _ B) in Hin.
    rewrite A, (flat_reads_complete ns chs Hpos Hin). symmetry. exact Hws.
Qed.

End CTR.
