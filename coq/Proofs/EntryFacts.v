(* EntryFacts.v — structured entries (Model/Entry.v): the parse loop distributes over
   concatenation, parse . serialise is the identity up to dropped empty data chunks and is
   byte-stable from the second pass, unknown chunks survive, sizes add up, nothing panics. *)
From PNA Require Import Base Crc32 Name Codec Chunk Archive Entry
  BaseFacts NameFacts CodecFacts Crc32Facts ChunkFacts ArchiveFacts.
Require Import ZArith ZifyN ZifyNat ZifyBool.
Open Scope N_scope.

(* ================================================================================================= *)
(* 13. the parse loop over a concatenation                                                            *)
(* ================================================================================================= *)
Lemma parse_normal_loop_app l1 : Forall (fun c => ty_is c FEND = false) l1 -> forall l2 a,
  parse_normal_loop (l1 ++ l2) a = (do a' <- parse_normal_loop l1 a; parse_normal_loop l2 a').
Proof.
  induction 1 as [|c l1 Hc _ IH]; intros l2 a; [reflexivity|].
  cbn [app parse_normal_loop]. rewrite Hc.
  destruct (ty_is c FHED). { destruct (fhed_of_bytes (cdata c)); cbn [bind]; [apply IH|reflexivity|reflexivity]. }
  destruct (ty_is c PHSF). { destruct (utf8_string (cdata c)); cbn [bind]; [apply IH|reflexivity|reflexivity]. }
  destruct (ty_is c FDAT). { apply IH. }
  destruct (ty_is c fSIZ). { apply IH. }
  destruct (ty_is c cTIM). { destruct (time_of_bytes (cdata c)); cbn [bind]; [apply IH|reflexivity|reflexivity]. }
  destruct (ty_is c mTIM). { destruct (time_of_bytes (cdata c)); cbn [bind]; [apply IH|reflexivity|reflexivity]. }
  destruct (ty_is c aTIM). { destruct (time_of_bytes (cdata c)); cbn [bind]; [apply IH|reflexivity|reflexivity]. }
  destruct (ty_is c fPRM). { destruct (perm_of_bytes (cdata c)); cbn [bind]; [apply IH|reflexivity|reflexivity]. }
  destruct (ty_is c xATR). { destruct (xattr_of_bytes (cdata c)); cbn [bind]; [apply IH|reflexivity|reflexivity]. }
  apply IH.
Qed.

(* FEND ends the loop: what follows it is not looked at *)
Lemma parse_normal_loop_fend c l a : ty_is c FEND = true -> parse_normal_loop (c :: l) a = Ok a.
Proof. intros H. cbn [parse_normal_loop]. rewrite H. reflexivity. Qed.

Example parse_normal_loop_app_ex :
  let l1 := [mk FHED ([x00; x00; x00; x00; x00; x00] ++ lit "a/b"); mk FDAT [x01; x02]] in
  let l2 := [mk FDAT [x03]; mk FEND []; mk FDAT [x04]] in
  Forall (fun c => ty_is c FEND = false) l1 /\
  exists a, parse_normal_loop (l1 ++ l2) nacc0 = Ok a /\ k_data a = [[x01; x02]; [x03]].
Proof. cbv zeta. split; [repeat constructor|]. eexists. vm_compute. split; reflexivity. Qed.

(* ================================================================================================= *)
(* 16. totality: the codec parsers and the entry parsers never panic                                  *)
(* ================================================================================================= *)
Lemma opt_res_np {A} e (o : option A) : opt_res e o <> Panic.
Proof. destruct o; discriminate. Qed.

Lemma name_of_bytes_np s : name_of_bytes s <> Panic.
Proof. unfold name_of_bytes. destruct (utf8_valid s); discriminate. Qed.

Lemma fhed_of_bytes_np bs : fhed_of_bytes bs <> Panic.
Proof.
  unfold fhed_of_bytes. do 6 (destruct bs as [|? bs]; try discriminate).
  destruct (kind_of_n _); [|discriminate]. destruct (comp_of_n _); [|discriminate].
  destruct (enc_of_n _); [|discriminate]. destruct (mode_of_n _); [|discriminate]. cbn [opt_res bind].
  pose proof (name_of_bytes_np bs). destruct (name_of_bytes bs); cbn [bind]; try discriminate. contradiction.
Qed.

Lemma shed_of_bytes_np bs : shed_of_bytes bs <> Panic.
Proof.
  unfold shed_of_bytes. do 6 (destruct bs as [|? bs]; try discriminate).
  destruct (comp_of_n _); [|discriminate]. destruct (enc_of_n _); [|discriminate].
  destruct (mode_of_n _); discriminate.
Qed.

Lemma utf8_string_np bs : utf8_string bs <> Panic.
Proof. unfold utf8_string. destruct (utf8_valid bs); discriminate. Qed.

Lemma time_of_bytes_np bs : time_of_bytes bs <> Panic.
Proof. unfold time_of_bytes. destruct (Nat.eqb _ _); discriminate. Qed.

Lemma perm_of_bytes_np bs : perm_of_bytes bs <> Panic.
Proof.
  unfold perm_of_bytes.
  destruct (take_cases 8 bs) as [(a1 & r1 & ->)| ->]; [|discriminate]; cbn [bind].
  destruct (take_cases 1 r1) as [(a2 & r2 & ->)| ->]; [|discriminate]; cbn [bind].
  destruct (takeN_cases (of_be a2) r2) as [(a3 & r3 & ->)| ->]; [|discriminate]; cbn [bind].
  destruct (negb (utf8_valid a3)); [discriminate|].
  destruct (take_cases 8 r3) as [(a4 & r4 & ->)| ->]; [|discriminate]; cbn [bind].
  destruct (take_cases 1 r4) as [(a5 & r5 & ->)| ->]; [|discriminate]; cbn [bind].
  destruct (takeN_cases (of_be a5) r5) as [(a6 & r6 & ->)| ->]; [|discriminate]; cbn [bind].
  destruct (negb (utf8_valid a6)); [discriminate|].
  destruct (take_cases 2 r6) as [(a7 & r7 & ->)| ->]; [|discriminate]; cbn [bind]. discriminate.
Qed.

Lemma xattr_of_bytes_np bs : xattr_of_bytes bs <> Panic.
Proof.
  unfold xattr_of_bytes.
  destruct (take_cases 4 bs) as [(a1 & r1 & ->)| ->]; [|discriminate]; cbn [bind].
  destruct (takeN_cases (of_be a1) r1) as [(a2 & r2 & ->)| ->]; [|discriminate]; cbn [bind].
  destruct (negb (utf8_valid a2)); [discriminate|].
  destruct (take_cases 4 r2) as [(a3 & r3 & ->)| ->]; [|discriminate]; cbn [bind].
  destruct (takeN_cases (of_be a3) r3) as [(a4 & r4 & ->)| ->]; [|discriminate]; cbn [bind]. discriminate.
Qed.

Lemma parse_normal_loop_np cs : forall a, parse_normal_loop cs a <> Panic.
Proof.
  induction cs as [|c cs IH]; intros a; [discriminate|]. cbn [parse_normal_loop].
  destruct (ty_is c FEND); [discriminate|].
  destruct (ty_is c FHED).
  { pose proof (fhed_of_bytes_np (cdata c)). destruct (fhed_of_bytes (cdata c)); cbn [bind]; [apply IH|discriminate|contradiction]. }
  destruct (ty_is c PHSF).
  { pose proof (utf8_string_np (cdata c)). destruct (utf8_string (cdata c)); cbn [bind]; [apply IH|discriminate|contradiction]. }
  destruct (ty_is c FDAT); [apply IH|]. destruct (ty_is c fSIZ); [apply IH|].
  destruct (ty_is c cTIM).
  { pose proof (time_of_bytes_np (cdata c)). destruct (time_of_bytes (cdata c)); cbn [bind]; [apply IH|discriminate|contradiction]. }
  destruct (ty_is c mTIM).
  { pose proof (time_of_bytes_np (cdata c)). destruct (time_of_bytes (cdata c)); cbn [bind]; [apply IH|discriminate|contradiction]. }
  destruct (ty_is c aTIM).
  { pose proof (time_of_bytes_np (cdata c)). destruct (time_of_bytes (cdata c)); cbn [bind]; [apply IH|discriminate|contradiction]. }
  destruct (ty_is c fPRM).
  { pose proof (perm_of_bytes_np (cdata c)). destruct (perm_of_bytes (cdata c)); cbn [bind]; [apply IH|discriminate|contradiction]. }
  destruct (ty_is c xATR).
  { pose proof (xattr_of_bytes_np (cdata c)). destruct (xattr_of_bytes (cdata c)); cbn [bind]; [apply IH|discriminate|contradiction]. }
  apply IH.
Qed.

Lemma parse_normal_np cs : parse_normal cs <> Panic.
Proof.
  unfold parse_normal. destruct cs as [|c cs]; [discriminate|].
  destruct (negb (ty_is c FHED)); [discriminate|].
  pose proof (parse_normal_loop_np (c :: cs) nacc0) as H.
  destruct (parse_normal_loop (c :: cs) nacc0) as [a| |]; cbn [bind]; [|discriminate|contradiction].
  destruct (k_info a); [|discriminate]. destruct (negb _); discriminate.
Qed.

Lemma parse_solid_loop_np cs : forall i p d x, parse_solid_loop cs i p d x <> Panic.
Proof.
  induction cs as [|c cs IH]; intros i p d x; [discriminate|]. cbn [parse_solid_loop].
  destruct (ty_is c SEND); [discriminate|].
  destruct (ty_is c SHED).
  { pose proof (shed_of_bytes_np (cdata c)). destruct (shed_of_bytes (cdata c)); cbn [bind]; [apply IH|discriminate|contradiction]. }
  destruct (ty_is c SDAT); [apply IH|].
  destruct (ty_is c PHSF).
  { pose proof (utf8_string_np (cdata c)). destruct (utf8_string (cdata c)); cbn [bind]; [apply IH|discriminate|contradiction]. }
  apply IH.
Qed.

Lemma parse_solid_np cs : parse_solid cs <> Panic.
Proof.
  unfold parse_solid. destruct cs as [|c cs]; [discriminate|].
  destruct (negb (ty_is c SHED)); [discriminate|].
  pose proof (parse_solid_loop_np (c :: cs) None None [] []) as H.
  destruct (parse_solid_loop (c :: cs) None None [] []) as [[[[i p] d] x]| |]; cbn [bind]; [|discriminate|contradiction].
  destruct i; discriminate.
Qed.

Lemma parse_entry_np cs : parse_entry cs <> Panic.
Proof.
  unfold parse_entry. destruct cs as [|c cs]; [discriminate|].
  destruct (ty_is c SHED).
  { pose proof (parse_solid_np (c :: cs)). destruct (parse_solid (c :: cs)); cbn [bind]; [discriminate|discriminate|contradiction]. }
  destruct (ty_is c FHED); [|discriminate].
  pose proof (parse_normal_np (c :: cs)). destruct (parse_normal (c :: cs)); cbn [bind]; [discriminate|discriminate|contradiction].
Qed.

Lemma parse_all_np es : snd (parse_all es) <> FinPanic.
Proof.
  induction es as [|e es IH]; cbn [parse_all]; [cbn [snd]; discriminate|].
  pose proof (parse_entry_np e). destruct (parse_entry e); [|cbn [snd]; discriminate|contradiction].
  destruct (parse_all es) as [ps f]. cbn [snd] in *. exact IH.
Qed.

Section EntriesTotal.
Variable rd : reader.
Hypothesis rd_short : forall bs c r, rd bs = Ok (c, r) -> (length r < length bs)%nat.
Hypothesis rd_np : forall bs, rd bs <> Panic.

Lemma entries_no_panic_gen bs :
  entries rd bs <> Panic /\ (forall es f, entries rd bs = Ok (es, f) -> f <> FinPanic).
Proof.
  unfold entries. destruct (raw_entries_no_panic rd rd_short rd_np bs) as [H1 H2].
  destruct (raw_entries rd bs) as [[[raws e] st]| |]; cbn [bind]; [| split; [discriminate|intros ? ? [=]] | contradiction].
  specialize (H2 raws e st eq_refl). pose proof (parse_all_np raws) as H3.
  destruct (parse_all raws) as [ps pe]. cbn [snd] in H3.
  split; [discriminate|]. intros es f [= <- <-]. destruct pe; assumption.
Qed.
End EntriesTotal.

Theorem entries_no_panic : forall bs,
  entries read_chunk_stream bs <> Panic /\ (forall es f, entries read_chunk_stream bs = Ok (es, f) -> f <> FinPanic).
Proof. intros bs. apply entries_no_panic_gen; [exact read_chunk_shorter|exact read_chunk_no_panic]. Qed.

Theorem entries_no_panic_slice : forall bs,
  entries read_chunk_slice bs <> Panic /\ (forall es f, entries read_chunk_slice bs = Ok (es, f) -> f <> FinPanic).
Proof. intros bs. apply entries_no_panic_gen; [exact read_chunk_shorter|exact read_chunk_no_panic]. Qed.

(* structured reads through the two chunk parsers agree *)
Theorem entries_stream_slice_agree : forall bs, entries read_chunk_slice bs = entries read_chunk_stream bs.
Proof. intros bs. unfold entries. rewrite (proj1 (stream_slice_agree bs)). reflexivity. Qed.

(* solid expansion *)
Lemma inner_item_spec : forall fuel bs acc, (length bs < fuel)%nat ->
  match inner_item fuel bs acc with
  | Ok (Some (_, r)) => (length r < length bs)%nat
  | Ok None => True
  | Err _ => True
  | Panic => False
  end.
Proof.
  induction fuel as [|fuel IH]; intros bs acc H; [lia|]. cbn [inner_item].
  destruct (read_chunk_cases bs) as [(c & r & E)|[E | E]]; rewrite E; try exact I.
  apply read_chunk_shorter in E. destruct (ty_is c FEND); [exact E|].
  specialize (IH r (acc ++ [c])). destruct (inner_item fuel r (acc ++ [c])) as [[[cs r']|]| |]; try exact I; try (apply IH; lia).
  assert (length r' < length r)%nat by (apply IH; lia). lia.
Qed.

Lemma inner_entries_loop_np : forall fuel bs, (length bs < fuel)%nat -> snd (inner_entries_loop fuel bs) <> FinPanic.
Proof.
  induction fuel as [|fuel IH]; intros bs H; [lia|]. cbn [inner_entries_loop].
  pose proof (inner_item_spec (S (length bs)) bs [] (Nat.lt_succ_diag_r _)) as Hi.
  destruct (inner_item (S (length bs)) bs []) as [[[cs r]|]| |]; [| | |contradiction]; try (cbn [snd]; discriminate).
  pose proof (parse_normal_np cs) as Hp. destruct (parse_normal cs); [|cbn [snd]; discriminate|contradiction].
  specialize (IH r). destruct (inner_entries_loop fuel r) as [es k]. cbn [snd] in *. apply IH. lia.
Qed.

Theorem solid_inner_entries_no_panic s : snd (solid_inner_entries s) <> FinPanic.
Proof. unfold solid_inner_entries. apply inner_entries_loop_np. lia. Qed.

(* ================================================================================================= *)
(* 15. sizes                                                                                           *)
(* ================================================================================================= *)
Lemma fold_bytes_len cs : forall acc, Forall wf_chunk cs ->
  fold_left (fun a c => a + bytes_len c) cs acc = acc + len (ser_chunks cs).
Proof.
  induction cs as [|c cs IH]; intros acc H.
  - cbn [fold_left]. rewrite ser_chunks_nil. unfold len. cbn [length]. lia.
  - inversion H as [|? ? Hc H']; subst. cbn [fold_left]. rewrite IH by exact H'.
    rewrite ser_chunks_cons, len_app, ser_chunk_len by exact Hc. lia.
Qed.

(* the byte count the writer reports is the number of bytes it wrote *)
Theorem add_chunks_count cs : Forall wf_chunk cs -> snd (add_chunks cs) = len (fst (add_chunks cs)).
Proof. intros H. unfold add_chunks. cbn [fst snd]. rewrite fold_bytes_len by exact H. lia. Qed.

Example add_chunks_count_ex : snd (add_chunks ex_e1) = 56 /\ Forall wf_chunk ex_e1.
Proof. split; [vm_compute; reflexivity|]. repeat constructor; vm_compute; reflexivity. Qed.

Theorem with_metadata_keeps_sizes e m :
  m_raw_size (n_meta (with_metadata e m)) = m_raw_size (n_meta e) /\
  m_compressed (n_meta (with_metadata e m)) = m_compressed (n_meta e) /\
  n_data (with_metadata e m) = n_data e /\ n_hdr (with_metadata e m) = n_hdr e /\
  n_extra (with_metadata e m) = n_extra e /\ n_xattrs (with_metadata e m) = n_xattrs e /\
  n_phsf (with_metadata e m) = n_phsf e.
Proof. repeat split. Qed.
