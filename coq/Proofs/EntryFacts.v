(* EntryFacts.v — structured entries (Model/Entry.v): the parse loop distributes over
   concatenation, parse . serialise is the identity up to dropped empty data chunks and is
   byte-stable from the second pass, unknown chunks survive, sizes add up, nothing panics. *)
From PNA Require Import Base Crc32 Name Codec Chunk Archive Entry PiecesFacts
  BaseFacts NameFacts CodecFacts Crc32Facts ChunkFacts ArchiveFacts.
Require Import ZArith ZifyN ZifyNat ZifyBool.
Open Scope N_scope.

(* ================================================================================================= *)
(* 13. the parse loop over a concatenation                                                            *)
(* ================================================================================================= *)
Lemma parse_normal_loop_app l1 : Forall (fun c => ty_is c FEND = false) l1 -> forall l2 a,
  parse_normal_loop (l1 ++ l2) a = (do a' <- parse_normal_loop l1 a; parse_normal_loop l2 a').
Proof.
  induction 1 as [|c l1 Hc _ IH]; intros l2 a; [reflexivity|].
  cbn [app parse_normal_loop]. rewrite Hc.
  destruct (ty_is c FHED). { destruct (fhed_of_bytes (cdata c)); cbn [bind]; [apply IH|reflexivity|reflexivity]. }
  destruct (ty_is c PHSF). { destruct (utf8_string (cdata c)); cbn [bind]; [apply IH|reflexivity|reflexivity]. }
  destruct (ty_is c FDAT). { apply IH. }
  destruct (ty_is c fSIZ). { apply IH. }
  destruct (ty_is c cTIM). { destruct (time_of_bytes (cdata c)); cbn [bind]; [apply IH|reflexivity|reflexivity]. }
  destruct (ty_is c mTIM). { destruct (time_of_bytes (cdata c)); cbn [bind]; [apply IH|reflexivity|reflexivity]. }
  destruct (ty_is c aTIM). { destruct (time_of_bytes (cdata c)); cbn [bind]; [apply IH|reflexivity|reflexivity]. }
  destruct (ty_is c fPRM). { destruct (perm_of_bytes (cdata c)); cbn [bind]; [apply IH|reflexivity|reflexivity]. }
  destruct (ty_is c xATR). { destruct (xattr_of_bytes (cdata c)); cbn [bind]; [apply IH|reflexivity|reflexivity]. }
  apply IH.
Qed.

(* FEND ends the loop: what follows it is not looked at *)
Lemma parse_normal_loop_fend c l a : ty_is c FEND = true -> parse_normal_loop (c :: l) a = Ok a.
Proof. intros H. cbn [parse_normal_loop]. rewrite H. reflexivity. Qed.

Example parse_normal_loop_app_ex :
  let l1 := [mk FHED ([x00; x00; x00; x00; x00; x00] ++ lit "a/b"); mk FDAT [x01; x02]] in
  let l2 := [mk FDAT [x03]; mk FEND []; mk FDAT [x04]] in
  Forall (fun c => ty_is c FEND = false) l1 /\
  exists a, parse_normal_loop (l1 ++ l2) nacc0 = Ok a /\ k_data a = [[x01; x02]; [x03]].
Proof. cbv zeta. split; [repeat constructor|]. eexists. vm_compute. split; reflexivity. Qed.

(* ================================================================================================= *)
(* 16. totality: the codec parsers and the entry parsers never panic                                  *)
(* ================================================================================================= *)
Lemma opt_res_np {A} e (o : option A) : opt_res e o <> Panic.
Proof. destruct o; discriminate. Qed.

Lemma name_of_bytes_np s : name_of_bytes s <> Panic.
Proof. unfold name_of_bytes. destruct (utf8_valid s); discriminate. Qed.

Lemma fhed_of_bytes_np bs : fhed_of_bytes bs <> Panic.
Proof.
  unfold fhed_of_bytes. do 6 (destruct bs as [|? bs]; try discriminate).
  destruct (kind_of_n _); [|discriminate]. destruct (comp_of_n _); [|discriminate].
  destruct (enc_of_n _); [|discriminate]. destruct (mode_of_n _); [|discriminate]. cbn [opt_res bind].
  pose proof (name_of_bytes_np bs). destruct (name_of_bytes bs); cbn [bind]; try discriminate. contradiction.
Qed.

Lemma shed_of_bytes_np bs : shed_of_bytes bs <> Panic.
Proof.
  unfold shed_of_bytes. do 6 (destruct bs as [|? bs]; try discriminate).
  destruct (comp_of_n _); [|discriminate]. destruct (enc_of_n _); [|discriminate].
  destruct (mode_of_n _); discriminate.
Qed.

Lemma utf8_string_np bs : utf8_string bs <> Panic.
Proof. unfold utf8_string. destruct (utf8_valid bs); discriminate. Qed.

Lemma time_of_bytes_np bs : time_of_bytes bs <> Panic.
Proof. unfold time_of_bytes. destruct (Nat.eqb _ _); discriminate. Qed.

Lemma perm_of_bytes_np bs : perm_of_bytes bs <> Panic.
Proof.
  unfold perm_of_bytes.
  destruct (take_cases 8 bs) as [(a1 & r1 & ->)| ->]; [|discriminate]; cbn [bind].
  destruct (take_cases 1 r1) as [(a2 & r2 & ->)| ->]; [|discriminate]; cbn [bind].
  destruct (takeN_cases (of_be a2) r2) as [(a3 & r3 & ->)| ->]; [|discriminate]; cbn [bind].
  destruct (negb (utf8_valid a3)); [discriminate|].
  destruct (take_cases 8 r3) as [(a4 & r4 & ->)| ->]; [|discriminate]; cbn [bind].
  destruct (take_cases 1 r4) as [(a5 & r5 & ->)| ->]; [|discriminate]; cbn [bind].
  destruct (takeN_cases (of_be a5) r5) as [(a6 & r6 & ->)| ->]; [|discriminate]; cbn [bind].
  destruct (negb (utf8_valid a6)); [discriminate|].
  destruct (take_cases 2 r6) as [(a7 & r7 & ->)| ->]; [|discriminate]; cbn [bind]. discriminate.
Qed.

Lemma xattr_of_bytes_np bs : xattr_of_bytes bs <> Panic.
Proof.
  unfold xattr_of_bytes.
  destruct (take_cases 4 bs) as [(a1 & r1 & ->)| ->]; [|discriminate]; cbn [bind].
  destruct (takeN_cases (of_be a1) r1) as [(a2 & r2 & ->)| ->]; [|discriminate]; cbn [bind].
  destruct (negb (utf8_valid a2)); [discriminate|].
  destruct (take_cases 4 r2) as [(a3 & r3 & ->)| ->]; [|discriminate]; cbn [bind].
  destruct (takeN_cases (of_be a3) r3) as [(a4 & r4 & ->)| ->]; [|discriminate]; cbn [bind]. discriminate.
Qed.

Lemma parse_normal_loop_np cs : forall a, parse_normal_loop cs a <> Panic.
Proof.
  induction cs as [|c cs IH]; intros a; [discriminate|]. cbn [parse_normal_loop].
  destruct (ty_is c FEND); [discriminate|].
  destruct (ty_is c FHED).
  { pose proof (fhed_of_bytes_np (cdata c)). destruct (fhed_of_bytes (cdata c)); cbn [bind]; [apply IH|discriminate|contradiction]. }
  destruct (ty_is c PHSF).
  { pose proof (utf8_string_np (cdata c)). destruct (utf8_string (cdata c)); cbn [bind]; [apply IH|discriminate|contradiction]. }
  destruct (ty_is c FDAT); [apply IH|]. destruct (ty_is c fSIZ); [apply IH|].
  destruct (ty_is c cTIM).
  { pose proof (time_of_bytes_np (cdata c)). destruct (time_of_bytes (cdata c)); cbn [bind]; [apply IH|discriminate|contradiction]. }
  destruct (ty_is c mTIM).
  { pose proof (time_of_bytes_np (cdata c)). destruct (time_of_bytes (cdata c)); cbn [bind]; [apply IH|discriminate|contradiction]. }
  destruct (ty_is c aTIM).
  { pose proof (time_of_bytes_np (cdata c)). destruct (time_of_bytes (cdata c)); cbn [bind]; [apply IH|discriminate|contradiction]. }
  destruct (ty_is c fPRM).
  { pose proof (perm_of_bytes_np (cdata c)). destruct (perm_of_bytes (cdata c)); cbn [bind]; [apply IH|discriminate|contradiction]. }
  destruct (ty_is c xATR).
  { pose proof (xattr_of_bytes_np (cdata c)). destruct (xattr_of_bytes (cdata c)); cbn [bind]; [apply IH|discriminate|contradiction]. }
  apply IH.
Qed.

Lemma parse_normal_np cs : parse_normal cs <> Panic.
Proof.
  unfold parse_normal. destruct cs as [|c cs]; [discriminate|].
  destruct (negb (ty_is c FHED)); [discriminate|].
  pose proof (parse_normal_loop_np (c :: cs) nacc0) as H.
  destruct (parse_normal_loop (c :: cs) nacc0) as [a| |]; cbn [bind]; [|discriminate|contradiction].
  destruct (k_info a); [|discriminate]. destruct (negb _); discriminate.
Qed.

Lemma parse_solid_loop_np cs : forall i p d x, parse_solid_loop cs i p d x <> Panic.
Proof.
  induction cs as [|c cs IH]; intros i p d x; [discriminate|]. cbn [parse_solid_loop].
  destruct (ty_is c SEND); [discriminate|].
  destruct (ty_is c SHED).
  { pose proof (shed_of_bytes_np (cdata c)). destruct (shed_of_bytes (cdata c)); cbn [bind]; [apply IH|discriminate|contradiction]. }
  destruct (ty_is c SDAT); [apply IH|].
  destruct (ty_is c PHSF).
  { pose proof (utf8_string_np (cdata c)). destruct (utf8_string (cdata c)); cbn [bind]; [apply IH|discriminate|contradiction]. }
  apply IH.
Qed.

Lemma parse_solid_np cs : parse_solid cs <> Panic.
Proof.
  unfold parse_solid. destruct cs as [|c cs]; [discriminate|].
  destruct (negb (ty_is c SHED)); [discriminate|].
  pose proof (parse_solid_loop_np (c :: cs) None None [] []) as H.
  destruct (parse_solid_loop (c :: cs) None None [] []) as [[[[i p] d] x]| |]; cbn [bind]; [|discriminate|contradiction].
  destruct i; discriminate.
Qed.

Lemma parse_entry_np cs : parse_entry cs <> Panic.
Proof.
  unfold parse_entry. destruct cs as [|c cs]; [discriminate|].
  destruct (ty_is c SHED).
  { pose proof (parse_solid_np (c :: cs)). destruct (parse_solid (c :: cs)); cbn [bind]; [discriminate|discriminate|contradiction]. }
  destruct (ty_is c FHED); [|discriminate].
  pose proof (parse_normal_np (c :: cs)). destruct (parse_normal (c :: cs)); cbn [bind]; [discriminate|discriminate|contradiction].
Qed.

Lemma parse_all_np es : snd (parse_all es) <> FinPanic.
Proof.
  induction es as [|e es IH]; cbn [parse_all]; [cbn [snd]; discriminate|].
  pose proof (parse_entry_np e). destruct (parse_entry e); [|cbn [snd]; discriminate|contradiction].
  destruct (parse_all es) as [ps f]. cbn [snd] in *. exact IH.
Qed.

Section EntriesTotal.
Variable rd : reader.
Hypothesis rd_short : forall bs c r, rd bs = Ok (c, r) -> (length r < length bs)%nat.
Hypothesis rd_np : forall bs, rd bs <> Panic.

Lemma entries_no_panic_gen bs :
  entries rd bs <> Panic /\ (forall es f, entries rd bs = Ok (es, f) -> f <> FinPanic).
Proof.
  unfold entries. destruct (raw_entries_no_panic rd rd_short rd_np bs) as [H1 H2].
  destruct (raw_entries rd bs) as [[[raws e] st]| |]; cbn [bind]; [| split; [discriminate|intros ? ? [=]] | contradiction].
  specialize (H2 raws e st eq_refl). pose proof (parse_all_np raws) as H3.
  destruct (parse_all raws) as [ps pe]. cbn [snd] in H3.
  split; [discriminate|]. intros es f [= <- <-]. destruct pe; assumption.
Qed.
End EntriesTotal.

Theorem entries_no_panic : forall bs,
  entries read_chunk_stream bs <> Panic /\ (forall es f, entries read_chunk_stream bs = Ok (es, f) -> f <> FinPanic).
Proof. intros bs. apply entries_no_panic_gen; [exact read_chunk_shorter|exact read_chunk_no_panic]. Qed.

Theorem entries_no_panic_slice : forall bs,
  entries read_chunk_slice bs <> Panic /\ (forall es f, entries read_chunk_slice bs = Ok (es, f) -> f <> FinPanic).
Proof. intros bs. apply entries_no_panic_gen; [exact read_chunk_shorter|exact read_chunk_no_panic]. Qed.

(* structured reads through the two chunk parsers agree *)
Theorem entries_stream_slice_agree : forall bs, entries read_chunk_slice bs = entries read_chunk_stream bs.
Proof. intros bs. unfold entries. rewrite (proj1 (stream_slice_agree bs)). reflexivity. Qed.

(* solid expansion *)
Lemma inner_item_spec : forall fuel bs acc, (length bs < fuel)%nat ->
  match inner_item fuel bs acc with
  | Ok (Some (_, r)) => (length r < length bs)%nat
  | Ok None => True
  | Err _ => True
  | Panic => False
  end.
Proof.
  induction fuel as [|fuel IH]; intros bs acc H; [lia|]. cbn [inner_item].
  destruct (read_chunk_cases bs) as [(c & r & E)|[E | E]]; rewrite E; try exact I;
    [|destruct acc; [destruct bs|]; exact I].
  apply read_chunk_shorter in E. destruct (ty_is c FEND); [exact E|].
  specialize (IH r (acc ++ [c])). destruct (inner_item fuel r (acc ++ [c])) as [[[cs r']|]| |]; try exact I; try (apply IH; lia).
  assert (length r' < length r)%nat by (apply IH; lia). lia.
Qed.

Lemma inner_entries_loop_np : forall fuel bs, (length bs < fuel)%nat -> snd (inner_entries_loop fuel bs) <> FinPanic.
Proof.
  induction fuel as [|fuel IH]; intros bs H; [lia|]. cbn [inner_entries_loop].
  pose proof (inner_item_spec (S (length bs)) bs [] (Nat.lt_succ_diag_r _)) as Hi.
  destruct (inner_item (S (length bs)) bs []) as [[[cs r]|]| |]; [| | |contradiction]; try (cbn [snd]; discriminate).
  pose proof (parse_normal_np cs) as Hp. destruct (parse_normal cs); [|cbn [snd]; discriminate|contradiction].
  specialize (IH r). destruct (inner_entries_loop fuel r) as [es k]. cbn [snd] in *. apply IH. lia.
Qed.

Theorem solid_inner_entries_no_panic s : snd (solid_inner_entries s) <> FinPanic.
Proof. unfold solid_inner_entries. apply inner_entries_loop_np. lia. Qed.

(* ================================================================================================= *)
(* 15. sizes                                                                                           *)
(* ================================================================================================= *)
Lemma fold_bytes_len cs : forall acc, Forall wf_chunk cs ->
  fold_left (fun a c => a + bytes_len c) cs acc = acc + len (ser_chunks cs).
Proof.
  induction cs as [|c cs IH]; intros acc H.
  - cbn [fold_left]. rewrite ser_chunks_nil. unfold len. cbn [length]. lia.
  - inversion H as [|? ? Hc H']; subst. cbn [fold_left]. rewrite IH by exact H'.
    rewrite ser_chunks_cons, len_app, ser_chunk_len by exact Hc. lia.
Qed.

(* the byte count the writer reports is the number of bytes it wrote *)
Theorem add_chunks_count cs : Forall wf_chunk cs -> snd (add_chunks cs) = len (fst (add_chunks cs)).
Proof. intros H. unfold add_chunks. cbn [fst snd]. rewrite fold_bytes_len by exact H. lia. Qed.

Example add_chunks_count_ex : snd (add_chunks ex_e1) = 56 /\ Forall wf_chunk ex_e1.
Proof. split; [vm_compute; reflexivity|]. repeat constructor; vm_compute; reflexivity. Qed.

Theorem with_metadata_keeps_sizes e m :
  m_raw_size (n_meta (with_metadata e m)) = m_raw_size (n_meta e) /\
  m_compressed (n_meta (with_metadata e m)) = m_compressed (n_meta e) /\
  n_data (with_metadata e m) = n_data e /\ n_hdr (with_metadata e m) = n_hdr e /\
  n_extra (with_metadata e m) = n_extra e /\ n_xattrs (with_metadata e m) = n_xattrs e /\
  n_phsf (with_metadata e m) = n_phsf e.
Proof. repeat split. Qed.

(* ================================================================================================= *)
(* 14. parse . serialise for normal entries                                                            *)
(* ================================================================================================= *)
Definition sum_len (l : list bytes) : N := fold_left N.add (map len l) 0.
Definition nonempty (d : bytes) : bool := match d with [] => false | _ => true end.
(* re-serialising cuts every FDAT payload into pieces of at most u32::MAX bytes (`chunks(u32::MAX)`): an empty
   payload yields nothing, a payload of at most u32::MAX bytes itself (normalize_small: then only the empty
   payloads go); everything else is kept *)
Definition cut_data (ds : list bytes) : list bytes := cutN CMAX ds.
Definition normalize (e : normal_entry) : normal_entry :=
  {| n_hdr := n_hdr e; n_phsf := n_phsf e; n_extra := n_extra e; n_data := cut_data (n_data e);
     n_meta := n_meta e; n_xattrs := n_xattrs e |}.
Lemma cut_data_small ds : Forall (fun d => len d < 2 ^ 32) ds -> cut_data ds = filter nonempty ds.
Proof.
  intros H. unfold cut_data. rewrite cutN_small; [reflexivity|]. eapply Forall_impl; [|exact H]. intros d. apply CMAX_lt.
Qed.
Lemma normalize_small e : Forall (fun d => len d < 2 ^ 32) (n_data e) ->
  normalize e = {| n_hdr := n_hdr e; n_phsf := n_phsf e; n_extra := n_extra e; n_data := filter nonempty (n_data e);
                   n_meta := n_meta e; n_xattrs := n_xattrs e |}.
Proof. intros H. unfold normalize. rewrite cut_data_small by exact H. reflexivity. Qed.

Lemma fold_add_acc l : forall acc, fold_left N.add l acc = acc + fold_left N.add l 0.
Proof.
  induction l as [|x l IH]; intros acc; cbn [fold_left]; [lia|]. rewrite IH, (IH (0 + x)). lia.
Qed.
Lemma sum_len_nil : sum_len [] = 0.
Proof. reflexivity. Qed.
Lemma sum_len_cons d l : sum_len (d :: l) = len d + sum_len l.
Proof. unfold sum_len. cbn [map fold_left]. rewrite fold_add_acc. lia. Qed.
Lemma sum_len_app a b : sum_len (a ++ b) = sum_len a + sum_len b.
Proof. induction a as [|d a IH]; cbn [app]; rewrite ?sum_len_cons, ?sum_len_nil, ?IH; lia. Qed.
Lemma sum_len_fold l : sum_len l = fold_right (fun p n => len p + n) 0 l.
Proof. induction l as [|d l IH]; [reflexivity|]. rewrite sum_len_cons, IH. reflexivity. Qed.
Lemma sum_len_concat l : sum_len l = len (concat l).
Proof. rewrite sum_len_fold, len_concat. reflexivity. Qed.
Lemma sum_len_cut cmax l : 0 < cmax -> sum_len (cutN cmax l) = sum_len l.
Proof. intros K. rewrite !sum_len_concat, cutN_concat by exact K. reflexivity. Qed.
Lemma sum_len_cut_data l : sum_len (cut_data l) = sum_len l.
Proof. apply sum_len_cut, CMAX_pos. Qed.
Lemma sum_len_filter l : sum_len (filter nonempty l) = sum_len l.
Proof.
  induction l as [|d l IH]; [reflexivity|]. cbn [filter]. destruct d as [|b d]; cbn [nonempty].
  - rewrite sum_len_cons, IH. unfold len. cbn [length]. lia.
  - rewrite !sum_len_cons, IH. reflexivity.
Qed.

(* the data chunks of a list of payloads: one chunk per piece *)
Lemma data_chunks_cut t ds : concat (map (data_chunks t) ds) = map (mk t) (cut_data ds).
Proof.
  unfold cut_data, cutN, data_chunks, data_chunks_at. induction ds as [|d ds IH]; [reflexivity|].
  cbn [map concat flat_map]. rewrite IH, map_app. reflexivity.
Qed.
Lemma data_chunks_nil t : data_chunks t [] = [].
Proof. reflexivity. Qed.
Lemma data_chunks_small t d : d <> [] -> len d < 2 ^ 32 -> data_chunks t d = [mk t d].
Proof. intros NE H. unfold data_chunks, data_chunks_at. rewrite pieces_small; [reflexivity|exact NE|apply CMAX_lt; exact H]. Qed.

(* the chunk types the normal-entry parser recognises; all others are kept in n_extra *)
Definition is_known (c : chunk) : bool :=
  ty_is c FEND || ty_is c FHED || ty_is c PHSF || ty_is c FDAT || ty_is c fSIZ || ty_is c cTIM ||
  ty_is c mTIM || ty_is c aTIM || ty_is c fPRM || ty_is c xATR.

Lemma is_known_false c : is_known c = false ->
  ty_is c FEND = false /\ ty_is c FHED = false /\ ty_is c PHSF = false /\ ty_is c FDAT = false /\
  ty_is c fSIZ = false /\ ty_is c cTIM = false /\ ty_is c mTIM = false /\ ty_is c aTIM = false /\
  ty_is c fPRM = false /\ ty_is c xATR = false.
Proof. unfold is_known. rewrite !orb_false_iff. tauto. Qed.

Definition opt_all {A} (P : A -> Prop) (o : option A) : Prop := match o with Some v => P v | None => True end.
Definition fhed_ok (h : fhed) : Prop :=
  f_minor h < 256 /\ utf8_valid (f_name h) = true /\ sanitize_name (f_name h) = f_name h.

(* what the parser establishes about its accumulator *)
Definition wf_acc (a : nacc) : Prop :=
  opt_all fhed_ok (k_info a) /\ opt_all (fun s => utf8_valid s = true) (k_phsf a) /\
  Forall (fun c => is_known c = false) (k_extra a) /\ k_csize a = sum_len (k_data a) /\
  opt_all (fun n => n < 2 ^ 128) (k_size a) /\
  opt_all (fun t => t < 2 ^ 64) (k_c a) /\ opt_all (fun t => t < 2 ^ 64) (k_m a) /\
  opt_all (fun t => t < 2 ^ 64) (k_a a) /\
  opt_all wf_perm (k_perm a) /\ Forall wf_xattr (k_x a).

Lemma time_dec_lt bs t : time_of_bytes bs = Ok t -> t < 2 ^ 64.
Proof.
  unfold time_of_bytes. destruct (Nat.eqb_spec (length bs) 8) as [E|]; [|discriminate]. intros [= <-].
  pose proof (of_be_lt_len _ _ E) as H. exact H.
Qed.

Lemma utf8_string_ok bs s : utf8_string bs = Ok s -> s = bs /\ utf8_valid s = true.
Proof. unfold utf8_string. destruct (utf8_valid bs) eqn:E; [|discriminate]. intros [= <-]. auto. Qed.

Ltac split_n n := match n with O => try assumption | S ?k => split; [try assumption | split_n k] end.
Ltac finish_wf :=
  unfold wf_acc; cbn [k_info k_phsf k_extra k_data k_csize k_size k_c k_m k_a k_perm k_x opt_all];
  split_n 9%nat.

Lemma parse_normal_loop_wf cs : forall a a', wf_acc a -> parse_normal_loop cs a = Ok a' -> wf_acc a'.
Proof.
  induction cs as [|c cs IH]; intros a a' Hw; cbn [parse_normal_loop]; [intros [= <-]; exact Hw|].
  destruct (ty_is c FEND) eqn:T0; [intros [= <-]; exact Hw|].
  destruct Hw as (W1 & W2 & W3 & W4 & W5 & W6 & W7 & W8 & W9 & W10).
  destruct (ty_is c FHED) eqn:T1.
  { destruct (fhed_of_bytes (cdata c)) as [h| |] eqn:E; cbn [bind]; try discriminate.
    apply IH. finish_wf. exact (proj2 (fhed_dec_wf _ _ E)). }
  destruct (ty_is c PHSF) eqn:T2.
  { destruct (utf8_string (cdata c)) as [s| |] eqn:E; cbn [bind]; try discriminate.
    apply IH. finish_wf. apply (utf8_string_ok _ _ E). }
  destruct (ty_is c FDAT) eqn:T3.
  { apply IH. finish_wf. rewrite W4, sum_len_app, sum_len_cons, sum_len_nil. lia. }
  destruct (ty_is c fSIZ) eqn:T4.
  { apply IH. finish_wf. apply fsiz_of_bytes_lt. }
  destruct (ty_is c cTIM) eqn:T5.
  { destruct (time_of_bytes (cdata c)) as [t| |] eqn:E; cbn [bind]; try discriminate.
    apply IH. finish_wf. apply (time_dec_lt _ _ E). }
  destruct (ty_is c mTIM) eqn:T6.
  { destruct (time_of_bytes (cdata c)) as [t| |] eqn:E; cbn [bind]; try discriminate.
    apply IH. finish_wf. apply (time_dec_lt _ _ E). }
  destruct (ty_is c aTIM) eqn:T7.
  { destruct (time_of_bytes (cdata c)) as [t| |] eqn:E; cbn [bind]; try discriminate.
    apply IH. finish_wf. apply (time_dec_lt _ _ E). }
  destruct (ty_is c fPRM) eqn:T8.
  { destruct (perm_of_bytes (cdata c)) as [p| |] eqn:E; cbn [bind]; try discriminate.
    apply IH. finish_wf. apply (perm_dec_wf _ _ E). }
  destruct (ty_is c xATR) eqn:T9.
  { destruct (xattr_of_bytes (cdata c)) as [x| |] eqn:E; cbn [bind]; try discriminate.
    apply IH. finish_wf. apply Forall_app. split; [exact W10|]. constructor; [|constructor]. apply (xattr_dec_wf _ _ E). }
  apply IH. finish_wf. apply Forall_app. split; [exact W3|]. constructor; [|constructor].
  unfold is_known. rewrite T0, T1, T2, T3, T4, T5, T6, T7, T8, T9. reflexivity.
Qed.

Lemma wf_acc0 : wf_acc nacc0.
Proof. unfold wf_acc, nacc0; cbn. repeat split; constructor. Qed.

(* a parsed normal entry *)
Definition wf_normal (e : normal_entry) : Prop :=
  wf_fhed (n_hdr e) /\ f_major (n_hdr e) = 0 /\ f_minor (n_hdr e) = 0 /\
  opt_all (fun s => utf8_valid s = true) (n_phsf e) /\
  Forall (fun c => is_known c = false) (n_extra e) /\
  m_compressed (n_meta e) = sum_len (n_data e) /\
  opt_all (fun n => n < 2 ^ 128) (m_raw_size (n_meta e)) /\
  opt_all (fun t => t < 2 ^ 64) (m_ctime (n_meta e)) /\ opt_all (fun t => t < 2 ^ 64) (m_mtime (n_meta e)) /\
  opt_all (fun t => t < 2 ^ 64) (m_atime (n_meta e)) /\
  opt_all wf_perm (m_perm (n_meta e)) /\ Forall wf_xattr (n_xattrs e).

Lemma parse_normal_wf cs e : parse_normal cs = Ok e -> wf_normal e.
Proof.
  unfold parse_normal. destruct cs as [|c cs]; [discriminate|].
  destruct (negb (ty_is c FHED)); [discriminate|].
  destruct (parse_normal_loop (c :: cs) nacc0) as [a| |] eqn:E; cbn [bind]; try discriminate.
  apply (parse_normal_loop_wf _ _ _ wf_acc0) in E.
  destruct E as (W1 & W2 & W3 & W4 & W5 & W6 & W7 & W8 & W9 & W10).
  destruct (k_info a) as [h|]; [|discriminate].
  destruct (N.eqb_spec (f_major h) 0) as [M1|]; [|discriminate].
  destruct (N.eqb_spec (f_minor h) 0) as [M2|]; [|discriminate].
  cbn [andb negb]. intros [= <-]. cbn [opt_all] in W1. destruct W1 as (F1 & F2 & F3).
  unfold wf_normal, wf_fhed; cbn [n_hdr n_phsf n_extra n_data n_meta n_xattrs m_raw_size m_compressed m_ctime m_mtime m_atime m_perm].
  repeat split; try assumption. congruence.
Qed.

(* 15: the recorded compressed size is the sum of the data payload lengths *)
Theorem compressed_size_sum cs e : parse_normal cs = Ok e ->
  m_compressed (n_meta e) = fold_left N.add (map len (n_data e)) 0.
Proof. intros H. apply parse_normal_wf in H. apply H. Qed.

(* ---- the accumulator after each group of chunks that ser_normal writes ---------------------------- *)
Definition upd_info h a := {| k_info := Some h; k_phsf := k_phsf a; k_extra := k_extra a; k_data := k_data a;
  k_csize := k_csize a; k_size := k_size a; k_c := k_c a; k_m := k_m a; k_a := k_a a; k_perm := k_perm a; k_x := k_x a |}.
Definition upd_phsf s a := {| k_info := k_info a; k_phsf := Some s; k_extra := k_extra a; k_data := k_data a;
  k_csize := k_csize a; k_size := k_size a; k_c := k_c a; k_m := k_m a; k_a := k_a a; k_perm := k_perm a; k_x := k_x a |}.
Definition upd_extra cs a := {| k_info := k_info a; k_phsf := k_phsf a; k_extra := k_extra a ++ cs; k_data := k_data a;
  k_csize := k_csize a; k_size := k_size a; k_c := k_c a; k_m := k_m a; k_a := k_a a; k_perm := k_perm a; k_x := k_x a |}.
Definition upd_data ds a := {| k_info := k_info a; k_phsf := k_phsf a; k_extra := k_extra a; k_data := k_data a ++ ds;
  k_csize := k_csize a + sum_len ds; k_size := k_size a; k_c := k_c a; k_m := k_m a; k_a := k_a a; k_perm := k_perm a; k_x := k_x a |}.
Definition upd_size n a := {| k_info := k_info a; k_phsf := k_phsf a; k_extra := k_extra a; k_data := k_data a;
  k_csize := k_csize a; k_size := Some n; k_c := k_c a; k_m := k_m a; k_a := k_a a; k_perm := k_perm a; k_x := k_x a |}.
Definition upd_c t a := {| k_info := k_info a; k_phsf := k_phsf a; k_extra := k_extra a; k_data := k_data a;
  k_csize := k_csize a; k_size := k_size a; k_c := Some t; k_m := k_m a; k_a := k_a a; k_perm := k_perm a; k_x := k_x a |}.
Definition upd_m t a := {| k_info := k_info a; k_phsf := k_phsf a; k_extra := k_extra a; k_data := k_data a;
  k_csize := k_csize a; k_size := k_size a; k_c := k_c a; k_m := Some t; k_a := k_a a; k_perm := k_perm a; k_x := k_x a |}.
Definition upd_a t a := {| k_info := k_info a; k_phsf := k_phsf a; k_extra := k_extra a; k_data := k_data a;
  k_csize := k_csize a; k_size := k_size a; k_c := k_c a; k_m := k_m a; k_a := Some t; k_perm := k_perm a; k_x := k_x a |}.
Definition upd_perm p a := {| k_info := k_info a; k_phsf := k_phsf a; k_extra := k_extra a; k_data := k_data a;
  k_csize := k_csize a; k_size := k_size a; k_c := k_c a; k_m := k_m a; k_a := k_a a; k_perm := Some p; k_x := k_x a |}.
Definition upd_x xs a := {| k_info := k_info a; k_phsf := k_phsf a; k_extra := k_extra a; k_data := k_data a;
  k_csize := k_csize a; k_size := k_size a; k_c := k_c a; k_m := k_m a; k_a := k_a a; k_perm := k_perm a; k_x := k_x a ++ xs |}.
Definition opt_upd {A} (f : A -> nacc -> nacc) (o : option A) (a : nacc) : nacc :=
  match o with Some v => f v a | None => a end.

(* ty_is on a chunk built with a literal type, against a literal type: decide by evaluation *)
Ltac tysimp :=
  repeat match goal with
  | |- context [ty_is (mk ?t ?d) ?u] =>
      let b := eval vm_compute in (bytes_eqb t u) in change (ty_is (mk t d) u) with b
  end; cbv iota.

Section Segments.
Variable rest : list chunk.

Lemma seg_fhed h a : fhed_of_bytes (fhed_to_bytes h) = Ok h ->
  parse_normal_loop (mk FHED (fhed_to_bytes h) :: rest) a = parse_normal_loop rest (upd_info h a).
Proof. intros H. cbn [parse_normal_loop]. tysimp. cbn [cdata mk]. rewrite H. reflexivity. Qed.

Lemma upd_extra_nil a : upd_extra [] a = a.
Proof. destruct a. unfold upd_extra. cbn. rewrite app_nil_r. reflexivity. Qed.

Lemma seg_extra ex : Forall (fun c => is_known c = false) ex -> forall a,
  parse_normal_loop (ex ++ rest) a = parse_normal_loop rest (upd_extra ex a).
Proof.
  induction 1 as [|c ex Hc _ IH]; intros a; [rewrite upd_extra_nil; reflexivity|].
  cbn [app parse_normal_loop].
  destruct (is_known_false c Hc) as (-> & -> & -> & -> & -> & -> & -> & -> & -> & ->).
  rewrite IH. f_equal. unfold upd_extra. cbn [k_info k_phsf k_extra k_data k_csize k_size k_c k_m k_a k_perm k_x].
  rewrite <- app_assoc. reflexivity.
Qed.

Lemma seg_size o a : opt_all (fun n => n < 2 ^ 128) o ->
  parse_normal_loop (opt_chunk fSIZ fsiz_to_bytes o ++ rest) a = parse_normal_loop rest (opt_upd upd_size o a).
Proof.
  destruct o as [n|]; cbn [opt_all opt_chunk app opt_upd]; [|reflexivity]. intros H.
  cbn [parse_normal_loop]. tysimp. cbn [cdata mk]. rewrite fsiz_inv by exact H. reflexivity.
Qed.

Lemma seg_phsf o a : opt_all (fun s => utf8_valid s = true) o ->
  parse_normal_loop (opt_chunk PHSF (fun s => s) o ++ rest) a = parse_normal_loop rest (opt_upd upd_phsf o a).
Proof.
  destruct o as [s|]; cbn [opt_all opt_chunk app opt_upd]; [|reflexivity]. intros H.
  cbn [parse_normal_loop]. tysimp. cbn [cdata mk]. unfold utf8_string. rewrite H. reflexivity.
Qed.

Lemma upd_data_nil a : upd_data [] a = a.
Proof.
  destruct a as [a1 a2 a3 a4 a5 a6 a7 a8 a9 a10 a11]. unfold upd_data. cbn [k_info k_phsf k_extra k_data k_csize k_size k_c k_m k_a k_perm k_x].
  rewrite app_nil_r, sum_len_nil, N.add_0_r. reflexivity.
Qed.

(* FDAT chunks, whatever their payloads *)
Lemma seg_fdat_list ds : forall a,
  parse_normal_loop (map (mk FDAT) ds ++ rest) a = parse_normal_loop rest (upd_data ds a).
Proof.
  induction ds as [|d ds IH]; intros a; [rewrite upd_data_nil; reflexivity|].
  cbn [map app parse_normal_loop]. tysimp. cbn [cdata mk]. rewrite IH. f_equal.
  unfold upd_data. cbn [k_info k_phsf k_extra k_data k_csize k_size k_c k_m k_a k_perm k_x].
  rewrite <- app_assoc, sum_len_cons, N.add_assoc. reflexivity.
Qed.
Lemma seg_data ds : forall a,
  parse_normal_loop (concat (map (data_chunks FDAT) ds) ++ rest) a =
  parse_normal_loop rest (upd_data (cut_data ds) a).
Proof. intros a. rewrite data_chunks_cut. apply seg_fdat_list. Qed.

Lemma seg_ctime o a : opt_all (fun t => t < 2 ^ 64) o ->
  parse_normal_loop (opt_chunk cTIM time_to_bytes o ++ rest) a = parse_normal_loop rest (opt_upd upd_c o a).
Proof.
  destruct o as [t|]; cbn [opt_all opt_chunk app opt_upd]; [|reflexivity]. intros H.
  cbn [parse_normal_loop]. tysimp. cbn [cdata mk]. rewrite time_inv by exact H. reflexivity.
Qed.
Lemma seg_mtime o a : opt_all (fun t => t < 2 ^ 64) o ->
  parse_normal_loop (opt_chunk mTIM time_to_bytes o ++ rest) a = parse_normal_loop rest (opt_upd upd_m o a).
Proof.
  destruct o as [t|]; cbn [opt_all opt_chunk app opt_upd]; [|reflexivity]. intros H.
  cbn [parse_normal_loop]. tysimp. cbn [cdata mk]. rewrite time_inv by exact H. reflexivity.
Qed.
Lemma seg_atime o a : opt_all (fun t => t < 2 ^ 64) o ->
  parse_normal_loop (opt_chunk aTIM time_to_bytes o ++ rest) a = parse_normal_loop rest (opt_upd upd_a o a).
Proof.
  destruct o as [t|]; cbn [opt_all opt_chunk app opt_upd]; [|reflexivity]. intros H.
  cbn [parse_normal_loop]. tysimp. cbn [cdata mk]. rewrite time_inv by exact H. reflexivity.
Qed.
Lemma seg_perm o a : opt_all wf_perm o ->
  parse_normal_loop (opt_chunk fPRM perm_to_bytes o ++ rest) a = parse_normal_loop rest (opt_upd upd_perm o a).
Proof.
  destruct o as [p|]; cbn [opt_all opt_chunk app opt_upd]; [|reflexivity]. intros H.
  cbn [parse_normal_loop]. tysimp. cbn [cdata mk]. rewrite perm_inv by exact H. reflexivity.
Qed.

Lemma upd_x_nil a : upd_x [] a = a.
Proof. destruct a. unfold upd_x. cbn. rewrite app_nil_r. reflexivity. Qed.

Lemma seg_xattrs xs : Forall wf_xattr xs -> forall a,
  parse_normal_loop (map (fun x => mk xATR (xattr_to_bytes x)) xs ++ rest) a = parse_normal_loop rest (upd_x xs a).
Proof.
  induction 1 as [|x xs Hx _ IH]; intros a; [rewrite upd_x_nil; reflexivity|].
  cbn [map app parse_normal_loop]. tysimp. cbn [cdata mk]. rewrite xattr_inv by exact Hx. cbn [bind].
  rewrite IH. f_equal. unfold upd_x. cbn [k_info k_phsf k_extra k_data k_csize k_size k_c k_m k_a k_perm k_x].
  rewrite <- app_assoc. reflexivity.
Qed.
End Segments.

Lemma seg_fend a : parse_normal_loop [mk FEND []] a = Ok a.
Proof. cbn [parse_normal_loop]. tysimp. reflexivity. Qed.

(* parse . serialise on an entry with the parser's invariant *)
Lemma parse_ser_wf e : wf_normal e -> parse_normal (ser_normal e) = Ok (normalize e).
Proof.
  intros (H1 & H2 & H3 & H4 & H5 & H6 & H7 & H8 & H9 & H10 & H11 & H12).
  destruct e as [h ph ex ds [sz cz tc tm ta pm] xs].
  cbn [n_hdr n_phsf n_extra n_data n_meta n_xattrs m_raw_size m_compressed m_ctime m_mtime m_atime m_perm] in *.
  unfold parse_normal, ser_normal.
  cbn [n_hdr n_phsf n_extra n_data n_meta n_xattrs m_raw_size m_compressed m_ctime m_mtime m_atime m_perm].
  cbv zeta. cbn [app]. tysimp. cbn [negb].
  rewrite seg_fhed by (apply fhed_inv; exact H1).
  rewrite seg_extra by exact H5. rewrite seg_size by exact H7. rewrite seg_phsf by exact H4.
  rewrite seg_data. rewrite seg_ctime by exact H8. rewrite seg_mtime by exact H9. rewrite seg_atime by exact H10.
  rewrite seg_perm by exact H11. rewrite seg_xattrs by exact H12. rewrite seg_fend. cbn [bind].
  unfold normalize. cbn [n_hdr n_phsf n_extra n_data n_meta n_xattrs].
  destruct sz, ph, tc, tm, ta, pm;
    cbn [opt_upd upd_info upd_phsf upd_extra upd_data upd_size upd_c upd_m upd_a upd_perm upd_x
         k_info k_phsf k_extra k_data k_csize k_size k_c k_m k_a k_perm k_x nacc0 app];
    rewrite H2, H3; cbn [N.eqb andb negb]; change (0 =? 0) with true; cbn [andb negb];
    rewrite N.add_0_l, sum_len_cut_data, <- H6; reflexivity.
Qed.

(* 14a: re-parsing the serialisation of a parsed entry gives the entry back, up to dropped empty payloads *)
Theorem parse_ser_normal cs e : parse_normal cs = Ok e ->
  exists e', parse_normal (ser_normal e) = Ok e' /\ e' = normalize e.
Proof. intros H. exists (normalize e). split; [apply parse_ser_wf, (parse_normal_wf _ _ H)|reflexivity]. Qed.

Lemma cut_data_idem ds : cut_data (cut_data ds) = cut_data ds.
Proof. apply cutN_idem, CMAX_pos. Qed.
Lemma data_chunks_filter t ds :
  concat (map (data_chunks t) (filter nonempty ds)) = concat (map (data_chunks t) ds).
Proof. rewrite !data_chunks_cut. unfold cut_data. change nonempty with nonnil. rewrite cutN_filter. reflexivity. Qed.

Lemma ser_normalize e : ser_normal (normalize e) = ser_normal e.
Proof.
  unfold ser_normal, normalize. cbn [n_hdr n_phsf n_extra n_data n_meta n_xattrs].
  rewrite !data_chunks_cut, cut_data_idem. reflexivity.
Qed.

(* 14b: byte-stable from the second pass *)
Theorem ser_stable cs e e' : parse_normal cs = Ok e -> parse_normal (ser_normal e) = Ok e' ->
  ser_normal e' = ser_normal e.
Proof.
  intros H H'. destruct (parse_ser_normal _ _ H) as (e2 & E2 & ->). rewrite E2 in H'. injection H' as <-.
  apply ser_normalize.
Qed.

(* 14c: chunks of unknown type survive, in order *)
Theorem extras_survive cs e e' : parse_normal cs = Ok e -> parse_normal (ser_normal e) = Ok e' ->
  n_extra e' = n_extra e.
Proof.
  intros H H'. destruct (parse_ser_normal _ _ H) as (e2 & E2 & ->). rewrite E2 in H'. injection H' as <-. reflexivity.
Qed.

Lemma normalize_idem e : normalize (normalize e) = normalize e.
Proof.
  unfold normalize. cbn [n_hdr n_phsf n_extra n_data n_meta n_xattrs]. f_equal. apply cut_data_idem.
Qed.

Lemma wf_normal_normalize e : wf_normal e -> wf_normal (normalize e).
Proof.
  intros (H1 & H2 & H3 & H4 & H5 & H6 & H7 & H8 & H9 & H10 & H11 & H12).
  unfold wf_normal, normalize. cbn [n_hdr n_phsf n_extra n_data n_meta n_xattrs]. rewrite sum_len_cut_data.
  repeat (split; [assumption|]). assumption.
Qed.

(* the second pass is a fixed point *)
Theorem parse_ser_fixed cs e : parse_normal cs = Ok e ->
  parse_normal (ser_normal (normalize e)) = Ok (normalize e).
Proof.
  intros H. rewrite <- (normalize_idem e) at 2. apply parse_ser_wf, wf_normal_normalize, (parse_normal_wf _ _ H).
Qed.

(* what was parsed is what is written, for the metadata too *)
Corollary parse_ser_meta cs e e' : parse_normal cs = Ok e -> parse_normal (ser_normal e) = Ok e' ->
  n_hdr e' = n_hdr e /\ n_meta e' = n_meta e /\ n_xattrs e' = n_xattrs e /\ n_phsf e' = n_phsf e /\
  n_data e' = cut_data (n_data e).
Proof.
  intros H H'. destruct (parse_ser_normal _ _ H) as (e2 & E2 & ->). rewrite E2 in H'. injection H' as <-.
  repeat split.
Qed.

Definition ex_normal_chunks : list chunk :=
  [mk FHED ([x00; x00; x00; x01; x00; x00] ++ lit "/dir/./file");
   mk (T "zzZz") [x01; x02]; mk FDAT [xaa]; mk FDAT []; mk mTIM (be64 1700000000);
   mk fPRM (be64 1000 ++ [x01] ++ lit "u" ++ be64 100 ++ [x01] ++ lit "g" ++ be16 420);
   mk xATR (be32 6 ++ lit "user.k" ++ be32 1 ++ [xff]); mk fSIZ [x00; x01; x00]; mk FDAT [xbb; xcc];
   mk FEND []].

Example parse_ser_normal_ex : exists e e',
  parse_normal ex_normal_chunks = Ok e /\ n_data e = [[xaa]; []; [xbb; xcc]] /\ f_name (n_hdr e) = lit "dir/file" /\
  parse_normal (ser_normal e) = Ok e' /\ n_data e' = [[xaa]; [xbb; xcc]] /\
  n_extra e' = [mk (T "zzZz") [x01; x02]] /\ m_raw_size (n_meta e') = Some 256 /\
  ser_normal e' = ser_normal e /\ ser_normal e <> ex_normal_chunks.
Proof.
  eexists. eexists. split; [vm_compute; reflexivity|]. split; [reflexivity|]. split; [reflexivity|].
  split; [vm_compute; reflexivity|]. repeat split; try (vm_compute; reflexivity). vm_compute. discriminate.
Qed.

(* ================================================================================================= *)
(* 14 (solid entries): data is kept as it is, so parse . serialise is the identity                    *)
(* ================================================================================================= *)
Definition is_known_solid (c : chunk) : bool := ty_is c SEND || ty_is c SHED || ty_is c SDAT || ty_is c PHSF.
Definition shed_ok (h : shed) : Prop := s_major h < 256 /\ s_minor h < 256.
Definition wf_solid (e : solid_entry) : Prop :=
  shed_ok (so_hdr e) /\ opt_all (fun s => utf8_valid s = true) (so_phsf e) /\
  Forall (fun c => is_known_solid c = false) (so_extra e).

Lemma shed_dec_wf bs h : shed_of_bytes bs = Ok h -> shed_ok h.
Proof.
  unfold shed_of_bytes. do 6 (destruct bs as [|? bs]; try discriminate).
  destruct (comp_of_n _); [|discriminate]. destruct (enc_of_n _); [|discriminate].
  destruct (mode_of_n _); [|discriminate]. cbn [opt_res bind]. intros [= <-].
  split; cbn [s_major s_minor]; apply b2n_lt.
Qed.

Lemma is_known_solid_false c : is_known_solid c = false ->
  ty_is c SEND = false /\ ty_is c SHED = false /\ ty_is c SDAT = false /\ ty_is c PHSF = false.
Proof. unfold is_known_solid. rewrite !orb_false_iff. tauto. Qed.

Lemma parse_solid_loop_wf cs : forall i p d x i' p' d' x',
  opt_all shed_ok i -> opt_all (fun s => utf8_valid s = true) p -> Forall (fun c => is_known_solid c = false) x ->
  parse_solid_loop cs i p d x = Ok (i', p', d', x') ->
  opt_all shed_ok i' /\ opt_all (fun s => utf8_valid s = true) p' /\ Forall (fun c => is_known_solid c = false) x'.
Proof.
  induction cs as [|c cs IH]; intros i p d x i' p' d' x' Hi Hp Hx; cbn [parse_solid_loop];
    [intros [= <- <- <- <-]; auto|].
  destruct (ty_is c SEND) eqn:T0; [intros [= <- <- <- <-]; auto|].
  destruct (ty_is c SHED) eqn:T1.
  { destruct (shed_of_bytes (cdata c)) as [h| |] eqn:E; cbn [bind]; try discriminate.
    apply IH; try assumption. cbn [opt_all]. apply (shed_dec_wf _ _ E). }
  destruct (ty_is c SDAT) eqn:T2; [apply IH; assumption|].
  destruct (ty_is c PHSF) eqn:T3.
  { destruct (utf8_string (cdata c)) as [s| |] eqn:E; cbn [bind]; try discriminate.
    apply IH; try assumption. cbn [opt_all]. apply (utf8_string_ok _ _ E). }
  apply IH; try assumption. apply Forall_app. split; [exact Hx|]. constructor; [|constructor].
  unfold is_known_solid. rewrite T0, T1, T2, T3. reflexivity.
Qed.

Lemma parse_solid_wf cs e : parse_solid cs = Ok e -> wf_solid e.
Proof.
  unfold parse_solid. destruct cs as [|c cs]; [discriminate|].
  destruct (negb (ty_is c SHED)); [discriminate|].
  destruct (parse_solid_loop (c :: cs) None None [] []) as [[[[i p] d] x]| |] eqn:E; cbn [bind]; try discriminate.
  apply parse_solid_loop_wf in E; try exact I; [|constructor]. destruct E as (Hi & Hp & Hx).
  destruct i as [h|]; [|discriminate]. intros [= <-]. unfold wf_solid. cbn [so_hdr so_phsf so_extra]. auto.
Qed.

Section SolidSegments.
Variable rest : list chunk.

Lemma sseg_shed h i p d x : shed_ok h ->
  parse_solid_loop (mk SHED (shed_to_bytes h) :: rest) i p d x = parse_solid_loop rest (Some h) p d x.
Proof.
  intros [H1 H2]. cbn [parse_solid_loop]. tysimp. cbn [cdata mk]. rewrite shed_inv by assumption. reflexivity.
Qed.

Lemma sseg_extra ex : Forall (fun c => is_known_solid c = false) ex -> forall i p d x,
  parse_solid_loop (ex ++ rest) i p d x = parse_solid_loop rest i p d (x ++ ex).
Proof.
  induction 1 as [|c ex Hc _ IH]; intros i p d x; [rewrite app_nil_r; reflexivity|].
  cbn [app parse_solid_loop]. destruct (is_known_solid_false c Hc) as (-> & -> & -> & ->).
  rewrite IH, <- app_assoc. reflexivity.
Qed.

Lemma sseg_phsf o i p d x : opt_all (fun s => utf8_valid s = true) o ->
  parse_solid_loop (opt_chunk PHSF (fun s => s) o ++ rest) i p d x =
  parse_solid_loop rest i (match o with Some s => Some s | None => p end) d x.
Proof.
  destruct o as [s|]; cbn [opt_all opt_chunk app]; [|reflexivity]. intros H.
  cbn [parse_solid_loop]. tysimp. cbn [cdata mk]. unfold utf8_string. rewrite H. reflexivity.
Qed.

Lemma sseg_data ds : forall i p d x,
  parse_solid_loop (map (mk SDAT) ds ++ rest) i p d x = parse_solid_loop rest i p (d ++ ds) x.
Proof.
  induction ds as [|y ds IH]; intros i p d x; [rewrite app_nil_r; reflexivity|].
  cbn [map app parse_solid_loop]. tysimp. cbn [cdata mk]. rewrite IH, <- app_assoc. reflexivity.
Qed.
End SolidSegments.

Lemma sseg_send i p d x : parse_solid_loop [mk SEND []] i p d x = Ok (i, p, d, x).
Proof. cbn [parse_solid_loop]. tysimp. reflexivity. Qed.

Lemma parse_ser_solid_wf e : wf_solid e -> parse_solid (ser_solid e) = Ok e.
Proof.
  intros (H1 & H2 & H3). destruct e as [h ph ds ex]. cbn [so_hdr so_phsf so_extra] in *.
  unfold parse_solid, ser_solid. cbn [so_hdr so_phsf so_data so_extra app]. tysimp. cbn [negb].
  rewrite sseg_shed by exact H1. rewrite sseg_extra by exact H3. rewrite sseg_phsf by exact H2.
  rewrite sseg_data, sseg_send. cbn [bind app]. destruct ph; reflexivity.
Qed.

Theorem parse_ser_solid cs e : parse_solid cs = Ok e ->
  exists e', parse_solid (ser_solid e) = Ok e' /\ e' = e.
Proof. intros H. exists e. split; [apply parse_ser_solid_wf, (parse_solid_wf _ _ H)|reflexivity]. Qed.

Theorem ser_stable_solid cs e e' : parse_solid cs = Ok e -> parse_solid (ser_solid e) = Ok e' ->
  ser_solid e' = ser_solid e.
Proof. intros H H'. destruct (parse_ser_solid _ _ H) as (e2 & E2 & ->). rewrite E2 in H'. injection H' as <-. reflexivity. Qed.

Theorem extras_survive_solid cs e e' : parse_solid cs = Ok e -> parse_solid (ser_solid e) = Ok e' ->
  so_extra e' = so_extra e /\ so_data e' = so_data e.
Proof. intros H H'. destruct (parse_ser_solid _ _ H) as (e2 & E2 & ->). rewrite E2 in H'. injection H' as <-. auto. Qed.

Example parse_ser_solid_ex : exists e,
  parse_solid [mk SHED [x00; x00; x00; x00; x00]; mk (T "abCd") [x07]; mk SDAT []; mk SDAT [x01]; mk SEND []; mk SDAT [x02]] = Ok e /\
  so_data e = [[]; [x01]] /\ so_extra e = [mk (T "abCd") [x07]] /\ parse_solid (ser_solid e) = Ok e.
Proof. eexists. split; [vm_compute; reflexivity|]. repeat split. Qed.

(* ---- parse_entry / ser_entry ------------------------------------------------------------------------ *)
Definition normalize_entry (e : read_entry) : read_entry :=
  match e with RNormal n => RNormal (normalize n) | RSolid s => RSolid s end.

Lemma ser_normal_head n : exists tl, ser_normal n = mk FHED (fhed_to_bytes (n_hdr n)) :: tl.
Proof. unfold ser_normal. cbv zeta. cbn [app]. eexists. reflexivity. Qed.
Lemma ser_solid_head s : exists tl, ser_solid s = mk SHED (shed_to_bytes (so_hdr s)) :: tl.
Proof. unfold ser_solid. cbn [app]. eexists. reflexivity. Qed.

Theorem parse_ser_entry cs e : parse_entry cs = Ok e ->
  exists e', parse_entry (ser_entry e) = Ok e' /\ e' = normalize_entry e.
Proof.
  unfold parse_entry at 1. destruct cs as [|c cs]; [discriminate|].
  destruct (ty_is c SHED).
  - destruct (parse_solid (c :: cs)) as [s| |] eqn:E; cbn [bind]; try discriminate. intros [= <-].
    exists (RSolid s). split; [|reflexivity]. cbn [ser_entry].
    destruct (ser_solid_head s) as [tl Etl]. unfold parse_entry. rewrite Etl. tysimp. rewrite <- Etl.
    rewrite (parse_ser_solid_wf s (parse_solid_wf _ _ E)). reflexivity.
  - destruct (ty_is c FHED); [|discriminate].
    destruct (parse_normal (c :: cs)) as [n| |] eqn:E; cbn [bind]; try discriminate. intros [= <-].
    exists (RNormal (normalize n)). split; [|reflexivity]. cbn [ser_entry].
    destruct (ser_normal_head n) as [tl Etl]. unfold parse_entry. rewrite Etl. tysimp. rewrite <- Etl.
    rewrite (parse_ser_wf n (parse_normal_wf _ _ E)). reflexivity.
Qed.

Lemma ser_normalize_entry e : ser_entry (normalize_entry e) = ser_entry e.
Proof. destruct e; cbn [normalize_entry ser_entry]; [apply ser_normalize|reflexivity]. Qed.

Theorem ser_stable_entry cs e e' : parse_entry cs = Ok e -> parse_entry (ser_entry e) = Ok e' ->
  ser_entry e' = ser_entry e.
Proof.
  intros H H'. destruct (parse_ser_entry _ _ H) as (e2 & E2 & ->). rewrite E2 in H'. injection H' as <-.
  apply ser_normalize_entry.
Qed.

Definition extra_of (e : read_entry) : list chunk :=
  match e with RNormal n => n_extra n | RSolid s => so_extra s end.

Theorem extras_survive_entry cs e e' : parse_entry cs = Ok e -> parse_entry (ser_entry e) = Ok e' ->
  extra_of e' = extra_of e.
Proof.
  intros H H'. destruct (parse_ser_entry _ _ H) as (e2 & E2 & ->). rewrite E2 in H'. injection H' as <-.
  destruct e; reflexivity.
Qed.

Example parse_ser_entry_ex : exists e e',
  parse_entry ex_normal_chunks = Ok e /\ parse_entry (ser_entry e) = Ok e' /\
  ser_entry e' = ser_entry e /\ extra_of e' = [mk (T "zzZz") [x01; x02]].
Proof. eexists. eexists. split; [vm_compute; reflexivity|]. split; [vm_compute; reflexivity|]. split; vm_compute; reflexivity. Qed.

Example compressed_size_sum_ex : exists e,
  parse_normal ex_normal_chunks = Ok e /\ m_compressed (n_meta e) = 3 /\ n_data e = [[xaa]; []; [xbb; xcc]].
Proof. eexists. split; [vm_compute; reflexivity|]. split; reflexivity. Qed.

(* a whole archive: written raw, read structured *)
Example entries_ex : exists n s,
  entries read_chunk_stream (write_raw_archive 0 [ex_normal_chunks; [mk SHED [x00; x00; x00; x00; x00]; mk SDAT []; mk SEND []]])
    = Ok ([RNormal n; RSolid s], FinOk) /\
  f_name (n_hdr n) = lit "dir/file" /\ so_data s = [[]].
Proof. eexists. eexists. split; [vm_compute; reflexivity|]. split; reflexivity. Qed.

(* ================================================================================================= *)
(* the solid stream ends cleanly only between two entries with nothing left (fix 66ed01cc)            *)
Lemma inner_item_none : forall fuel bs acc, inner_item fuel bs acc = Ok None -> bs = [] /\ acc = [].
Proof.
  induction fuel as [|fuel IH]; intros bs acc H; cbn [inner_item] in H; [discriminate|].
  destruct (read_chunk_stream bs) as [[c r]|k|] eqn:E; [| |discriminate].
  - destruct (ty_is c FEND); [discriminate|]. apply IH in H. destruct H as [_ H]. destruct acc; discriminate.
  - destruct k; try discriminate. destruct acc; [destruct bs|]; try discriminate. split; reflexivity.
Qed.

(* ... hence a read that ends with FinOk has consumed its whole input: nothing is silently left unread *)
Lemma inner_item_some_suffix : forall fuel bs acc cs r, inner_item fuel bs acc = Ok (Some (cs, r)) ->
  exists used, bs = used ++ r /\ used <> [].
Proof.
  induction fuel as [|fuel IH]; intros bs acc cs r H; cbn [inner_item] in H; [discriminate|].
  destruct (read_chunk_stream bs) as [[c r0]|k|] eqn:E; [| |discriminate].
  - pose proof (read_chunk_ok_inv _ _ _ E) as (_ & Hb).
    destruct (ty_is c FEND).
    + injection H as _ Hr. subst r0. exists (ser_chunk c). split; [exact Hb|]. unfold ser_chunk. destruct (be32 (len (cdata c))) eqn:Eb; [|discriminate].
      pose proof (be32_length (len (cdata c))) as Hl. rewrite Eb in Hl. discriminate.
    + apply IH in H. destruct H as (used & Hu & _). exists (ser_chunk c ++ used). split; [rewrite Hb, Hu, app_assoc; reflexivity|].
      unfold ser_chunk. destruct (be32 (len (cdata c))) eqn:Eb; [|discriminate].
      pose proof (be32_length (len (cdata c))) as Hl. rewrite Eb in Hl. discriminate.
  - destruct k; try discriminate. destruct acc; [destruct bs|]; discriminate.
Qed.

(* before the fix: a stream cut in the middle of an entry is taken for its clean end *)
Lemma inner_item_orig_silent :
  exists bs, bs <> [] /\ inner_item_orig (S (length bs)) bs [] = Ok None /\ inner_item (S (length bs)) bs [] = Err UnexpectedEof.
Proof. exists [x00; x00; x00]. split; [discriminate|]. vm_compute. split; reflexivity. Qed.

(* a clean end certifies the whole stream: if the solid iterator yields its entries and ends without error, the
   stream it read is, byte for byte, a sequence of well-formed chunks whose CRCs all matched (ser_chunk recomputes
   the CRC), grouped into entries closed by FEND.  What a wrong key leaves of a stored CTR stream is read as a clean
   sequence of entries only if the garbage happens to be such a sequence. *)
Lemma inner_item_shape : forall fuel bs acc cs r, inner_item fuel bs acc = Ok (Some (cs, r)) ->
  exists new, cs = acc ++ new /\ bs = ser_chunks new ++ r /\ Forall wf_chunk new /\ new <> [].
Proof.
  induction fuel as [|fuel IH]; intros bs acc cs r H; cbn [inner_item] in H; [discriminate|].
  destruct (read_chunk_stream bs) as [[c r0]|k|] eqn:E; [| |discriminate].
  - pose proof (read_chunk_ok_inv _ _ _ E) as (Hw & Hb).
    destruct (ty_is c FEND).
    + injection H as Hc Hr. subst r0 cs. exists [c]. repeat split; [|constructor; [exact Hw|constructor]|discriminate].
      rewrite Hb. unfold ser_chunks. cbn [map concat]. rewrite app_nil_r. reflexivity.
    + apply IH in H. destruct H as (new & Hc & Hu & Hf & _). exists (c :: new). repeat split.
      * rewrite Hc, <- app_assoc. reflexivity.
      * rewrite Hb, Hu, ser_chunks_cons, app_assoc. reflexivity.
      * constructor; assumption.
      * discriminate.
  - destruct k; try discriminate. destruct acc; [destruct bs|]; discriminate.
Qed.

Theorem inner_loop_ok_shape : forall fuel bs es, inner_entries_loop fuel bs = (es, FinOk) ->
  exists cs, bs = ser_chunks cs /\ Forall wf_chunk cs.
Proof.
  induction fuel as [|fuel IH]; intros bs es H; cbn [inner_entries_loop] in H; [discriminate|].
  destruct (inner_item (S (length bs)) bs []) as [[[cs r]|]|k|] eqn:E.
  - destruct (parse_normal cs) as [e|k|]; [|discriminate|discriminate].
    destruct (inner_entries_loop fuel r) as [es' k] eqn:El. injection H as _ Hk. subst k.
    apply IH in El. destruct El as (cs2 & Hr & Hf2).
    apply inner_item_shape in E. destruct E as (new & _ & Hb & Hf & _).
    exists (new ++ cs2). split; [rewrite ser_chunks_app, Hb, Hr; reflexivity|apply Forall_app; split; assumption].
  - apply inner_item_none in E. destruct E as [Hb _]. subst bs. exists []. split; [reflexivity|constructor].
  - discriminate.
  - discriminate.
Qed.
