(* WfAgreeFacts.v — C14 strict_agrees at byte level: on every part chain the strict recogniser of
   Wf.v accepts, the library's tolerant byte-level readers (Archive.raw_entries / Entry.entries with
   their fuel, the slice reader, and the part-chaining reader Archive.read_parts) end with FinOk and
   deliver exactly the entries the strict decoder returns. *)
From PNA Require Import Base Crc32 Name Codec Chunk Archive Entry Wf.
From PNA Require Import BaseFacts NameFacts CodecFacts Crc32Facts ChunkFacts ArchiveFacts EntryFacts WfFacts WfWriterFacts.
Require Import ZArith ZifyN ZifyNat ZifyBool.
Open Scope N_scope.

(* ================================================================================================= *)
(* 1. what phase 1 of the recogniser establishes about the bytes of a part                            *)
(* ================================================================================================= *)
Lemma part_chunks_loop_inv : forall fuel bs cs, part_chunks_loop fuel bs = SOk cs ->
  exists init e, cs = init ++ [e] /\ ty_is e AEND = true /\ Forall (fun c => ty_is c AEND = false) init /\
                 Forall strict_chunk cs /\ bs = ser_chunks cs.
Proof.
  induction fuel as [|fuel IH]; intros bs cs; cbn [part_chunks_loop]; [discriminate|].
  destruct (read_strict_chunk bs) as [[c r]|] eqn:R; cbn [sbind]; [|discriminate].
  destruct (read_strict_inv _ _ _ R) as (SC & ->).
  destruct (ty_is c AEND) eqn:A.
  - destruct r; cbn [is_nil]; [|discriminate]. intro H; inversion H; subst.
    exists [], c. split; [reflexivity|]. split; [exact A|]. split; [constructor|]. split; [constructor; [exact SC|constructor]|].
    rewrite ser_chunks_cons, ser_chunks_nil. reflexivity.
  - destruct (part_chunks_loop fuel r) as [cs'|] eqn:P; cbn [sbind]; [|discriminate]. intro H; inversion H; subst.
    destruct (IH _ _ P) as (init & e & -> & AE & NI & SCs & ->).
    exists (c :: init), e. split; [reflexivity|]. split; [exact AE|]. split; [constructor; assumption|].
    split; [constructor; assumption|]. rewrite ser_chunks_cons. reflexivity.
Qed.

Lemma part_chunks_inv bs cs : part_chunks bs = SOk cs ->
  exists init e, cs = init ++ [e] /\ ty_is e AEND = true /\ Forall (fun c => ty_is c AEND = false) init /\
                 Forall strict_chunk cs /\ bs = sig ++ ser_chunks cs.
Proof.
  unfold part_chunks. destruct (take 8 bs) as [[h r]|k|] eqn:T; try discriminate.
  destruct (bytes_eqb h sig) eqn:S; [|discriminate]. apply bytes_eqb_eq in S. subst h.
  apply take_ok in T. destruct T as (-> & _). intro H.
  destruct (part_chunks_loop_inv _ _ _ H) as (init & e & E & AE & NI & SC & ->).
  exists init, e. repeat split; assumption.
Qed.

Lemma body_scan_inv : forall cs b n, body_scan cs = SOk (b, n) ->
  Forall (fun c => ty_is c AHED = false /\ ty_is c ANXT = false) b /\
  ((n = false /\ exists e, cs = b ++ [e]) \/
   (n = true /\ exists x e, cs = b ++ [x; e] /\ ty_is x ANXT = true)).
Proof.
  induction cs as [|c rest IH]; intros b n; cbn [body_scan]; [discriminate|].
  destruct rest as [|e rest'].
  - destruct (is_nil (cdata c)); [|discriminate]. intros H; inversion H; subst. split; [constructor|].
    left. split; [reflexivity|]. exists c. reflexivity.
  - destruct (ty_is c AHED) eqn:HA; [discriminate|]. destruct (ty_is c ANXT) eqn:HX.
    + destruct rest' as [|y rest']; cbn [is_nil negb]; [|discriminate].
      destruct (negb (is_nil (cdata c))); [discriminate|]. destruct (negb (is_nil (cdata e))); [discriminate|].
      intros H; inversion H; subst. split; [constructor|]. right. split; [reflexivity|].
      exists c, e. split; [reflexivity|exact HX].
    + destruct (body_scan (e :: rest')) as [[b' n']|] eqn:BS; cbn [sbind]; [|discriminate].
      intros H; inversion H; subst. destruct (IH _ _ eq_refl) as (F & D).
      split; [constructor; [split; assumption|exact F]|].
      destruct D as [(-> & e' & E)|(-> & x & e' & E & X)].
      * left. split; [reflexivity|]. exists e'. cbn [app]. rewrite E. reflexivity.
      * right. split; [reflexivity|]. exists x, e'. split; [cbn [app]; rewrite E; reflexivity|exact X].
Qed.

(* the closing chunks of a part: AEND alone, or ANXT AEND *)
Definition part_tail (n : bool) (t : list chunk) : Prop :=
  if n then exists x e, t = [x; e] /\ wf_chunk x /\ wf_chunk e /\ ty_is x ANXT = true /\ ty_is e AEND = true
  else exists e, t = [e] /\ wf_chunk e /\ ty_is e AEND = true.

Lemma part_body_inv idx bs b n : part_body idx bs = SOk (b, n) ->
  exists h t,
    bs = sig ++ ser_chunk h ++ ser_chunks b ++ ser_chunks t /\
    wf_chunk h /\ ahed_ok h = true /\ of_be (skipn 4 (cdata h)) = idx /\
    Forall strict_chunk b /\ Forall (fun c => ty_is c ANXT = false /\ ty_is c AEND = false) b /\
    part_tail n t.
Proof.
  unfold part_body. destruct (part_chunks bs) as [cs|] eqn:PC; cbn [sbind]; [|discriminate].
  destruct (part_chunks_inv _ _ PC) as (init & e0 & E & AE & NI & SC & ->).
  destruct cs as [|h rest]; [discriminate|].
  destruct (negb (ahed_ok h)) eqn:AO; [discriminate|]. apply negb_false_iff in AO.
  destruct (negb (of_be (skipn 4 (cdata h)) =? idx)) eqn:NB; [discriminate|].
  apply negb_false_iff, N.eqb_eq in NB. intro BS.
  destruct (body_scan_inv _ _ _ BS) as (F & D).
  inversion SC as [|? ? SCh SCr]; subst.
  destruct D as [(-> & e & ->)|(-> & x & e & -> & X)].
  - change (h :: b ++ [e]) with ((h :: b) ++ [e]) in E. apply app_inj_tail in E. destruct E as (<- & <-).
    apply Forall_app in SCr. destruct SCr as (SCb & SCe). inversion SCe; subst.
    inversion NI; subst.
    exists h, [e]. split; [rewrite ser_chunks_cons, ser_chunks_app; reflexivity|].
    split; [apply SCh|]. split; [exact AO|]. split; [reflexivity|]. split; [exact SCb|]. split.
    + apply Forall_forall. intros c Hc. rewrite Forall_forall in F, H4. split; [apply (F c Hc)|apply (H4 c Hc)].
    + exists e. split; [reflexivity|]. split; [apply H1|exact AE].
  - replace (h :: b ++ [x; e]) with ((h :: b ++ [x]) ++ [e]) in E by (cbn [app]; rewrite <- app_assoc; reflexivity).
    apply app_inj_tail in E. destruct E as (<- & <-).
    apply Forall_app in SCr. destruct SCr as (SCb & SCe). inversion SCe as [|? ? SCx SCe']; subst. inversion SCe'; subst.
    inversion NI as [|? ? _ NI']; subst. apply Forall_app in NI'. destruct NI' as (NIb & _).
    exists h, [x; e]. split; [rewrite ser_chunks_cons, ser_chunks_app; reflexivity|].
    split; [apply SCh|]. split; [exact AO|]. split; [reflexivity|]. split; [exact SCb|]. split.
    + apply Forall_forall. intros c Hc. rewrite Forall_forall in F, NIb. split; [apply (F c Hc)|apply (NIb c Hc)].
    + exists x, e. split; [reflexivity|]. split; [apply SCx|]. split; [apply H1|]. split; [exact X|exact AE].
Qed.

(* ================================================================================================= *)
(* 2. the tolerant raw-entry loop over serialised chunks                                              *)
(* ================================================================================================= *)
Definition st (rest : bytes) (buf : list chunk) (nxt : bool) (h : ahed) : rstate :=
  {| r_rest := rest; r_buf := buf; r_next := nxt; r_hdr := h |}.

(* cut a chunk sequence after each FEND/SEND: (raw entries, chunks of the open entry) *)
Fixpoint cut (buf cs : list chunk) : list (list chunk) * list chunk :=
  match cs with
  | [] => ([], buf)
  | c :: r => if is_end c then let (es, b) := cut [] r in ((buf ++ [c]) :: es, b) else cut (buf ++ [c]) r
  end.

Lemma cut_app : forall a buf b,
  cut buf (a ++ b) = (fst (cut buf a) ++ fst (cut (snd (cut buf a)) b), snd (cut (snd (cut buf a)) b)).
Proof.
  induction a as [|c a IH]; intros buf b; cbn [app cut fst snd].
  - destruct (cut buf b); reflexivity.
  - destruct (is_end c).
    + rewrite (IH [] b). destruct (cut [] a) as [es l]. cbn [fst snd app]. reflexivity.
    + apply IH.
Qed.

Lemma item_fuel c R : (length R < length (ser_chunk c ++ R))%nat.
Proof. rewrite app_length. pose proof (ser_chunk_length_ge c). lia. Qed.

Lemma nri_plain c R acc nxt h : wf_chunk c -> is_term c = false ->
  next_raw_item rds (st (ser_chunk c ++ R) acc nxt h) = next_raw_item rds (st R (acc ++ [c]) nxt h).
Proof.
  intros W T. unfold next_raw_item, st. cbn [r_rest r_buf r_next r_hdr next_item_loop].
  rewrite read_chunk_ser by exact W. cbn [bind]. destruct (is_term_false c T) as (-> & -> & ->).
  rewrite (next_item_loop_fuel rds read_chunk_shorter read_chunk_no_panic (length (ser_chunk c ++ R)) (S (length R)))
    by (try apply item_fuel; lia).
  reflexivity.
Qed.

Lemma anxt_not_end c : ty_is c ANXT = true -> ty_is c FEND || ty_is c SEND = false.
Proof. intro H. apply ty_is_eq in H. unfold ty_is. rewrite H. reflexivity. Qed.
Lemma aend_not_end c : ty_is c AEND = true -> ty_is c FEND || ty_is c SEND = false /\ ty_is c ANXT = false.
Proof. intro H. apply ty_is_eq in H. unfold ty_is. rewrite H. split; reflexivity. Qed.

Lemma nri_anxt c R acc nxt h : wf_chunk c -> ty_is c ANXT = true ->
  next_raw_item rds (st (ser_chunk c ++ R) acc nxt h) = next_raw_item rds (st R acc true h).
Proof.
  intros W T. unfold next_raw_item, st. cbn [r_rest r_buf r_next r_hdr next_item_loop].
  rewrite read_chunk_ser by exact W. cbn [bind]. rewrite (anxt_not_end c T), T.
  rewrite (next_item_loop_fuel rds read_chunk_shorter read_chunk_no_panic (length (ser_chunk c ++ R)) (S (length R)))
    by (try apply item_fuel; lia).
  reflexivity.
Qed.

Lemma nri_end c R acc nxt h : wf_chunk c -> is_end c = true ->
  next_raw_item rds (st (ser_chunk c ++ R) acc nxt h) = Ok (Some (acc ++ [c]), st R [] nxt h).
Proof.
  intros W T. unfold next_raw_item, st. cbn [r_rest r_buf r_next r_hdr next_item_loop].
  rewrite read_chunk_ser by exact W. cbn [bind]. unfold is_end in T. rewrite T. reflexivity.
Qed.

Lemma nri_aend c R acc nxt h : wf_chunk c -> ty_is c AEND = true ->
  next_raw_item rds (st (ser_chunk c ++ R) acc nxt h) = Ok (None, st R acc nxt h).
Proof.
  intros W T. unfold next_raw_item, st. cbn [r_rest r_buf r_next r_hdr next_item_loop].
  rewrite read_chunk_ser by exact W. cbn [bind]. destruct (aend_not_end c T) as (-> & ->). rewrite T. reflexivity.
Qed.

Lemma rel_unfold f s : raw_entries_loop rds (S f) s =
  match next_raw_item rds s with
  | Ok (Some e, s') => let '(es, e', s'') := raw_entries_loop rds f s' in (e :: es, e', s'')
  | Ok (None, s') => ([], FinOk, s')
  | Err e => ([], FinErr e, s)
  | Panic => ([], FinPanic, s)
  end.
Proof. reflexivity. Qed.

(* the closing chunks end the loop; ANXT sets the flag *)
Lemma rel_tail n t R : part_tail n t -> forall f acc h,
  raw_entries_loop rds (S f) (st (ser_chunks t ++ R) acc false h) = ([], FinOk, st R acc n h).
Proof.
  destruct n; cbn [part_tail].
  - intros (x & e & -> & Wx & We & X & E) f acc h.
    rewrite !ser_chunks_cons, ser_chunks_nil, app_nil_r, <- app_assoc. rewrite rel_unfold.
    rewrite nri_anxt by assumption. rewrite nri_aend by assumption. reflexivity.
  - intros (e & -> & We & E) f acc h.
    rewrite !ser_chunks_cons, ser_chunks_nil, app_nil_r. rewrite rel_unfold.
    rewrite nri_aend by assumption. reflexivity.
Qed.

Lemma rel_body n t R : part_tail n t -> forall b f acc h,
  Forall wf_chunk b -> Forall (fun c => ty_is c ANXT = false /\ ty_is c AEND = false) b -> (length b <= f)%nat ->
  raw_entries_loop rds (S f) (st (ser_chunks b ++ ser_chunks t ++ R) acc false h) =
  (fst (cut acc b), FinOk, st R (snd (cut acc b)) n h).
Proof.
  intros PT. induction b as [|c b IH]; intros f acc h W NM L.
  - rewrite ser_chunks_nil. cbn [app cut fst snd]. apply rel_tail. exact PT.
  - inversion W as [|? ? Wc Wb]; subst. inversion NM as [|? ? (NX & NA) NMb]; subst.
    rewrite ser_chunks_cons, <- app_assoc. cbn [cut]. destruct (is_end c) eqn:E.
    + destruct f as [|f]; [cbn [length] in L; lia|]. rewrite rel_unfold.
      rewrite nri_end by assumption. rewrite IH by (try assumption; cbn [length] in L; lia).
      destruct (cut [] b) as [es l]. reflexivity.
    + assert (is_term c = false) as T by (unfold is_term; unfold is_end in E; rewrite E, NX, NA; reflexivity).
      rewrite rel_unfold. rewrite nri_plain by assumption.
      specialize (IH f (acc ++ [c]) h Wb NMb). cbn [length] in L.
      assert (length b <= f)%nat as L' by lia. specialize (IH L'). rewrite rel_unfold in IH.
      destruct (next_raw_item rds (st (ser_chunks b ++ ser_chunks t ++ R) (acc ++ [c]) false h)) as [[[e|] s']|k|];
        try exact IH; discriminate IH.
Qed.

Lemma open_part buf h rest : wf_chunk h -> ahed_ok h = true ->
  open_archive rds buf (sig ++ ser_chunk h ++ rest) =
  Ok (st rest buf false {| a_major := 0; a_minor := 0; a_number := of_be (skipn 4 (cdata h)) |}) /\
  of_be (skipn 4 (cdata h)) < 2 ^ 32.
Proof.
  intros W A. unfold ahed_ok in A. apply andb_prop in A. destruct A as (T & Z).
  unfold open_archive, read_header. rewrite read_sig_app. cbn [bind]. rewrite read_chunk_ser by exact W. cbn [bind].
  rewrite T. cbn [negb].
  destruct (cdata h) as [|a [|b [|r1 [|r2 [|b4 [|b5 [|b6 [|b7 [|]]]]]]]]]; try discriminate.
  apply andb_prop in Z. destruct Z as (Z & _). apply andb_prop in Z. destruct Z as (Z & _).
  apply andb_prop in Z. destruct Z as (Z0 & Z1). apply N.eqb_eq in Z0, Z1.
  unfold ahed_of_bytes. cbn [bind skipn]. rewrite Z0, Z1. split; [reflexivity|].
  apply (of_be_lt_len [b4; b5; b6; b7] 4). reflexivity.
Qed.

(* ================================================================================================= *)
(* 3. what phase 2 establishes: the body is a sequence of delimited entries                           *)
(* ================================================================================================= *)
Definition group_of (g : list chunk) (x : read_entry) : Prop :=
  exists h body e, g = h :: body ++ [e] /\ opener h /\ ty_is e (closer h) = true /\ any_entry h body e = SOk x.

Lemma entries_sm_groups cs : forall cur es,
  entries_sm true any_entry cs cur = SOk es ->
  match cur with
  | None => exists groups, cs = concat groups /\ Forall2 group_of groups es
  | Some (h, acc) =>
    opener h ->
    exists body e groups x es', cs = body ++ e :: concat groups /\ es = x :: es' /\
      ty_is e (closer h) = true /\ any_entry h (rev acc ++ body) e = SOk x /\ Forall2 group_of groups es'
  end.
Proof.
  induction cs as [|c r IH]; intros cur es; cbn [entries_sm].
  - destruct cur as [[h acc]|]; [discriminate|]. intro H; inversion H; subst.
    exists []. split; [reflexivity|constructor].
  - destruct cur as [[h acc]|].
    + destruct (ty_is c (if ty_is h FHED then FEND else SEND)) eqn:T.
      * destruct (any_entry h (rev acc) c) as [x|] eqn:E; cbn [sbind]; [|discriminate].
        destruct (entries_sm true any_entry r None) as [es'|] eqn:R; cbn [sbind]; [|discriminate].
        intro H; inversion H; subst. intro OP.
        destruct (IH None es' R) as (groups & EQ & F).
        exists [], c, groups, x, es'. rewrite app_nil_r. repeat split; try assumption. cbn [app]. rewrite EQ. reflexivity.
      * intro H. intro OP. destruct (IH (Some (h, c :: acc)) es H OP) as (body & e & groups & x & es' & E1 & E2 & TE & P & F).
        exists (c :: body), e, groups, x, es'. split; [cbn [app]; rewrite E1; reflexivity|]. split; [exact E2|].
        split; [exact TE|]. split; [|exact F]. cbn [rev] in P. rewrite <- app_assoc in P. exact P.
    + destruct (ty_is c FHED || true && ty_is c SHED) eqn:O.
      * intro H. assert (opener c) as OP.
        { apply orb_prop in O. destruct O as [O|O]; [left; exact O|right; exact O]. }
        destruct (IH (Some (c, [])) es H OP) as (body & e & groups & x & es' & E1 & E2 & TE & P & F).
        exists ((c :: body ++ [e]) :: groups). split.
        { cbn [concat app]. rewrite E1, <- app_assoc. reflexivity. }
        subst es. constructor; [|exact F]. exists c, body, e. repeat split; assumption.
      * destruct (ty_is_critical (cty c) && negb (known_critical (cty c))); discriminate.
Qed.

(* an accepted entry body holds neither FEND nor SEND *)
Ltac ty_consts t :=
  repeat match goal with
  | |- context [bytes_eqb t ?u] => let b := eval vm_compute in (bytes_eqb t u) in change (bytes_eqb t u) with b
  end.

Lemma strict_step_not_end enc c a a' : strict_step enc c a = SOk a' -> is_end c = false.
Proof.
  intro H. unfold is_end. destruct (ty_is c FEND) eqn:F.
  { unfold strict_step in H. rewrite F in H. discriminate. }
  destruct (ty_is c SEND) eqn:S; [|reflexivity]. exfalso. apply ty_is_eq in S.
  revert H. unfold strict_step, ty_is. rewrite S. ty_consts SEND. change (ty_is_critical SEND) with true. cbv iota.
  discriminate.
Qed.

Lemma strict_loop_no_end enc body : forall a a', strict_loop enc body a = SOk a' -> Forall (fun c => is_end c = false) body.
Proof.
  induction body as [|c body IH]; intros a a'; [constructor|]. cbn [strict_loop].
  destruct (strict_step enc c a) as [a1|] eqn:S; cbn [sbind]; [|discriminate]. intro H.
  constructor; [exact (strict_step_not_end _ _ _ _ S)|exact (IH _ _ H)].
Qed.

Lemma solid_step_not_end enc c a a' : solid_step enc c a = SOk a' -> is_end c = false.
Proof.
  intro H. unfold is_end. destruct (ty_is c SEND) eqn:S.
  { unfold solid_step in H. rewrite S in H. discriminate. }
  destruct (ty_is c FEND) eqn:F; [|reflexivity]. exfalso. apply ty_is_eq in F.
  revert H. unfold solid_step, ty_is. rewrite F. ty_consts FEND. change (ty_is_critical FEND) with true. cbv iota.
  discriminate.
Qed.

Lemma solid_loop_no_end enc body : forall a a', solid_loop enc body a = SOk a' -> Forall (fun c => is_end c = false) body.
Proof.
  induction body as [|c body IH]; intros a a'; [constructor|]. cbn [solid_loop].
  destruct (solid_step enc c a) as [a1|] eqn:S; cbn [sbind]; [|discriminate]. intro H.
  constructor; [exact (solid_step_not_end _ _ _ _ S)|exact (IH _ _ H)].
Qed.

Lemma any_entry_no_end h body e x : any_entry h body e = SOk x -> Forall (fun c => is_end c = false) body.
Proof.
  unfold any_entry. destruct (ty_is h FHED).
  - unfold normal_only, strict_normal. destruct (strict_fhed (cdata h)) as [hd|]; cbn [sbind]; [|discriminate].
    match goal with |- context [strict_loop ?en ?b ?a0] => destruct (strict_loop en b a0) as [a|] eqn:SL end; cbn [sbind]; [|discriminate].
    intros _. exact (strict_loop_no_end _ _ _ _ SL).
  - unfold strict_solid. destruct (strict_shed (cdata h)) as [hd|]; cbn [sbind]; [|discriminate].
    match goal with |- context [solid_loop ?en ?b ?a0] => destruct (solid_loop en b a0) as [a|] eqn:SL end; cbn [sbind]; [|discriminate].
    intros _. exact (solid_loop_no_end _ _ _ _ SL).
Qed.

Lemma opener_not_end h : opener h -> is_end h = false.
Proof. intros [H|H]; apply ty_is_eq in H; unfold is_end, ty_is; rewrite H; reflexivity. Qed.

Lemma closer_is_end h e : ty_is e (closer h) = true -> is_end e = true.
Proof. unfold closer, is_end. destruct (ty_is h FHED); intros ->; [reflexivity|apply orb_true_r]. Qed.

Lemma opener_closer h e : opener h -> ty_is e (closer h) = true ->
  (ty_is h FHED = true /\ ty_is e FEND = true) \/ (ty_is h SHED = true /\ ty_is e SEND = true).
Proof.
  unfold closer. intros [H|H] C.
  - rewrite H in C. left. split; assumption.
  - assert (ty_is h FHED = false) as NF by (unfold ty_is; rewrite (ty_is_eq _ _ H); exact SHED_not_FHED).
    rewrite NF in C. right. split; assumption.
Qed.

Lemma group_parse g x : group_of g x -> parse_entry g = Ok x.
Proof. intros (h & body & e & -> & OP & C & A). apply strict_entry_agrees; [apply opener_closer; assumption|exact A]. Qed.

Lemma cut_no_end pre : forall buf e rest, Forall (fun c => is_end c = false) pre -> is_end e = true ->
  cut buf (pre ++ e :: rest) = ((buf ++ pre ++ [e]) :: fst (cut [] rest), snd (cut [] rest)).
Proof.
  induction pre as [|c pre IH]; intros buf e rest F E; cbn [app cut].
  - rewrite E. destruct (cut [] rest); reflexivity.
  - inversion F; subst. rewrite H1. rewrite IH by assumption. rewrite <- app_assoc. reflexivity.
Qed.

Lemma cut_groups groups : forall es, Forall2 group_of groups es -> cut [] (concat groups) = (groups, []).
Proof.
  induction groups as [|g groups IH]; intros es F; [reflexivity|]. inversion F as [|? x ? es' G F']; subst.
  destruct G as (h & body & e & -> & OP & C & A). cbn [concat].
  change (h :: body ++ [e]) with ((h :: body) ++ [e]). rewrite <- app_assoc. cbn [app].
  change (h :: body ++ e :: concat groups) with ((h :: body) ++ e :: concat groups).
  rewrite cut_no_end.
  - rewrite (IH _ F'). reflexivity.
  - constructor; [apply opener_not_end; exact OP|exact (any_entry_no_end _ _ _ _ A)].
  - exact (closer_is_end _ _ C).
Qed.

Lemma parse_all_ok groups : forall es, Forall2 (fun g x => parse_entry g = Ok x) groups es -> parse_all groups = (es, FinOk).
Proof.
  induction groups as [|g groups IH]; intros es F; inversion F; subst; [reflexivity|].
  cbn [parse_all]. rewrite H1, (IH _ H3). reflexivity.
Qed.

Lemma entries_of_cut cs es : entries_of cs = SOk es ->
  exists groups, cut [] cs = (groups, []) /\ parse_all groups = (es, FinOk).
Proof.
  intro H. destruct (entries_sm_groups cs None es H) as (groups & -> & F).
  exists groups. split; [exact (cut_groups _ _ F)|]. apply parse_all_ok.
  clear H. induction F; constructor; [apply group_parse; assumption|assumption].
Qed.

(* ================================================================================================= *)
(* 4. the part chain                                                                                  *)
(* ================================================================================================= *)
Lemma bodies_cons idx p ps : bodies idx (p :: ps) =
  sdo (b, n) <- part_body idx p;
  match ps with
  | [] => if n then SNo RParts else SOk b
  | _ => if n then (sdo r <- bodies (idx + 1) ps; SOk (b ++ r)) else SNo RParts
  end.
Proof. reflexivity. Qed.

Lemma chain_agree : forall parts p idx cs buf,
  bodies idx (p :: parts) = SOk cs ->
  exists s, open_archive rds buf p = Ok s /\ a_number (r_hdr s) = idx /\ idx < 2 ^ 32 /\
            read_parts_loop rds s (fun b => S (length b)) parts (S (length p)) = (fst (cut buf cs), FinOk).
Proof.
  induction parts as [|p2 parts IH]; intros p idx cs buf; rewrite bodies_cons.
  - destruct (part_body idx p) as [[b n]|] eqn:PB; cbn [sbind]; [|discriminate].
    destruct n; [discriminate|]. intro H; inversion H; subst.
    destruct (part_body_inv _ _ _ _ PB) as (h & t & -> & Wh & AO & NB & SC & NM & PT).
    destruct (open_part buf h (ser_chunks cs ++ ser_chunks t) Wh AO) as (OA & LT).
    eexists. split; [exact OA|]. split; [exact NB|]. split; [rewrite <- NB; exact LT|].
    cbn [read_parts_loop]. rewrite <- (app_nil_r (ser_chunks t)).
    rewrite (rel_body false t [] PT).
    + reflexivity.
    + eapply Forall_impl; [|exact SC]. intros c Hc. apply Hc.
    + exact NM.
    + rewrite !app_length. pose proof (length_ser_chunks_ge cs). lia.
  - destruct (part_body idx p) as [[b n]|] eqn:PB; cbn [sbind]; [|discriminate].
    destruct n; [|discriminate].
    destruct (bodies (idx + 1) (p2 :: parts)) as [r|] eqn:BR; cbn [sbind]; [|discriminate].
    intro H; inversion H; subst.
    destruct (part_body_inv _ _ _ _ PB) as (h & t & -> & Wh & AO & NB & SC & NM & PT).
    destruct (open_part buf h (ser_chunks b ++ ser_chunks t) Wh AO) as (OA & LT).
    eexists. split; [exact OA|]. split; [exact NB|]. split; [rewrite <- NB; exact LT|].
    destruct (IH p2 (idx + 1) r (snd (cut buf b)) BR) as (s2 & O2 & N2 & L2 & RP).
    cbn [read_parts_loop]. rewrite <- (app_nil_r (ser_chunks t)).
    rewrite (rel_body true t [] PT).
    2:{ eapply Forall_impl; [|exact SC]. intros c Hc. apply Hc. }
    2:{ exact NM. }
    2:{ rewrite !app_length. pose proof (length_ser_chunks_ge b). lia. }
    unfold read_next_archive, st. cbn [r_next r_buf r_hdr a_number]. rewrite O2. cbn [bind].
    rewrite N2, NB. rewrite N.eqb_refl. apply N.ltb_lt in L2. rewrite L2. cbn [andb].
    rewrite RP. rewrite cut_app. reflexivity.
Qed.

(* C14 strict_agrees, part chains: the part-chaining tolerant reader ends with FinOk and its raw
   entries parse to exactly the strict decoder's entries *)
Theorem strict_agrees_parts parts es : strict_parts parts = SOk es ->
  exists raws, read_parts rds parts = Ok (raws, FinOk) /\ parse_all raws = (es, FinOk).
Proof.
  unfold strict_parts. destruct (bodies 0 parts) as [cs|] eqn:B; cbn [sbind]; [|discriminate]. intro E.
  destruct (entries_of_cut _ _ E) as (groups & C & P).
  destruct parts as [|p parts]; [discriminate|].
  destruct (chain_agree parts p 0 cs [] B) as (s & OA & _ & _ & RP).
  exists groups. split; [|exact P]. unfold read_parts. rewrite OA. cbn [bind]. rewrite RP, C. reflexivity.
Qed.

(* C14 strict_agrees, one archive file, byte level *)
Theorem strict_agrees bs es : strict_decode bs = Ok es -> entries rds bs = Ok (es, FinOk).
Proof.
  unfold strict_decode. destruct (strict_parts [bs]) as [es'|] eqn:S; [|discriminate]. intro H; inversion H; subst.
  unfold strict_parts in S. destruct (bodies 0 [bs]) as [cs|] eqn:B; cbn [sbind] in S; [|discriminate].
  destruct (entries_of_cut _ _ S) as (groups & C & P).
  cbn [bodies] in B. destruct (part_body 0 bs) as [[b n]|] eqn:PB; cbn [sbind] in B; [|discriminate].
  destruct n; [discriminate|]. inversion B; subst.
  destruct (part_body_inv _ _ _ _ PB) as (h & t & -> & Wh & AO & NB & SC & NM & PT).
  destruct (open_part [] h (ser_chunks cs ++ ser_chunks t) Wh AO) as (OA & LT).
  unfold entries, raw_entries. rewrite OA. cbn [bind]. rewrite <- (app_nil_r (ser_chunks t)).
  rewrite (rel_body false t [] PT).
  - rewrite C. cbn [fst]. rewrite P. reflexivity.
  - eapply Forall_impl; [|exact SC]. intros c Hc. apply Hc.
  - exact NM.
  - rewrite !app_length. pose proof (length_ser_chunks_ge cs). lia.
Qed.

Corollary strict_agrees_slice bs es : strict_decode bs = Ok es -> entries read_chunk_slice bs = Ok (es, FinOk).
Proof. intro H. rewrite entries_stream_slice_agree. exact (strict_agrees _ _ H). Qed.

Corollary strict_agrees_parts_slice parts es : strict_parts parts = SOk es ->
  exists raws, read_parts read_chunk_slice parts = Ok (raws, FinOk) /\ parse_all raws = (es, FinOk).
Proof. intro H. rewrite stream_slice_agree_parts. exact (strict_agrees_parts _ _ H). Qed.

(* the recogniser's verdict alone is enough *)
Theorem wf_archive_read bs : wf_archive bs = true ->
  exists es, strict_decode bs = Ok es /\ entries rds bs = Ok (es, FinOk) /\ entries read_chunk_slice bs = Ok (es, FinOk).
Proof.
  unfold wf_archive, wf_parts. destruct (strict_parts [bs]) as [es|] eqn:S; [|discriminate]. intros _.
  assert (strict_decode bs = Ok es) as D by (unfold strict_decode; rewrite S; reflexivity).
  exists es. split; [exact D|]. split; [exact (strict_agrees _ _ D)|exact (strict_agrees_slice _ _ D)].
Qed.

Theorem wf_parts_read parts : wf_parts parts = true ->
  exists es raws, strict_parts parts = SOk es /\ read_parts rds parts = Ok (raws, FinOk) /\ parse_all raws = (es, FinOk).
Proof.
  unfold wf_parts. destruct (strict_parts parts) as [es|] eqn:S; [|discriminate]. intros _.
  destruct (strict_agrees_parts _ _ S) as (raws & R & P). exists es, raws. repeat split; assumption.
Qed.

(* together with writer_wf: what the chunk-level writer emits for writable entries is read back by
   the tolerant byte-level readers *)
Corollary written_read_back es : Forall writable es ->
  entries rds (write_raw_archive 0 (map ser_entry es)) = Ok (map normalize_entry es, FinOk) /\
  entries read_chunk_slice (write_raw_archive 0 (map ser_entry es)) = Ok (map normalize_entry es, FinOk).
Proof.
  intro W. destruct (writer_wf es W) as (_ & D). split; [exact (strict_agrees _ _ D)|exact (strict_agrees_slice _ _ D)].
Qed.
