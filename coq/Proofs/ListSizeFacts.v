(* ListSizeFacts.v — C18 for what `pna list` prints: the two size columns of a listed row.

   cli/src/command/list.rs builds one TableRow per entry (TryFrom<(&NormalEntry, password, Option<&SolidHeader>)>):
       raw_size:        metadata.raw_file_size()      Option<u128>   (the fSIZ chunk; None when absent)
       compressed_size: metadata.compressed_size()    usize          (the sum the parser kept while reading FDAT)
   for an inner entry of a solid block (`--solid`) the SAME two getters of the INNER entry's metadata are used; the
   solid header only changes the encryption / compression columns.  Without `--solid` a solid block gives no row
   (a warning is logged, the block is not opened).  Any error while collecting (solid.entries(password) fails, an
   inner entry fails to parse) ends the command before anything is printed (`?` in the closure, print_entries
   comes after run_read_entries).
   Printers:   table / -l   "Raw Size" = the number in decimal, "-" when fSIZ is absent; "Compressed Size" = decimal
               JSON lines   "raw_size" = the number, 0 when fSIZ is absent (unwrap_or_default); "size" = compressed size
               plain, tree  neither field is shown.

   Model/ListCmd.v's `row` holds what the C17 comparison needs (name, kind, fSIZ, content length, target): its
   r_size is the raw-size field; it has no compressed-size field.  `trow` below is that row plus the
   compressed-size field, `row_of` the constructor above, `list_trows` run_list_archive + the filter of
   print_entries over the entries the reader delivers.  `map t_row` of the result is ListCmd.list_rows of the
   archive's rows (list_trows_rows), so everything C17 says about WHICH rows are shown applies.

     1. rows_stand_for / listed_sizes_exact / listed_sizes_of_archive   every row, every archive, every selection
     2. built_row_sizes / listed_built_archive                          entries built by the C01 pipeline
     3. listed_solid_archive                                            rows of the inner entries of solid blocks
   stdlib only, no axioms. *)
From PNA Require Import Base Crc32 Name Codec Chunk Archive Entry Cbc Pipeline ListCmd
  BaseFacts ChunkFacts ArchiveFacts EntryFacts OffsetFacts CbcFacts PipelineFacts ListCmdFacts.
Require Import ZArith ZifyN ZifyNat ZifyBool Lia.
Open Scope N_scope.

(* ================================================================================================= *)
(* 0. the row constructor and run_list_archive                                                         *)
(* ================================================================================================= *)
Record trow := { t_row : row; t_csize : N }.

Definition kind_code (k : data_kind) : N :=
  match k with KFile => 0 | KDir => 1 | KSymlink => 2 | KHardlink => 3 end.

Section Rows.
(* entry.reader(ReadOptions::with_password(password)) read to the end (the link target; C17's content length) *)
Variable rd : normal_entry -> res bytes.
(* solid.entries(password) collected; the first error it yields is the error of the command *)
Variable expand : solid_entry -> res (list normal_entry).

Definition row_of (e : normal_entry) : trow :=
  {| t_row := {| r_name := f_name (n_hdr e);
                 r_kind := kind_code (f_kind (n_hdr e));
                 r_size := m_raw_size (n_meta e);
                 r_clen := match rd e with Ok c => len c | _ => 0 end;
                 r_target := match f_kind (n_hdr e) with
                             | KSymlink | KHardlink => match rd e with Ok c => c | _ => lit "-" end
                             | _ => []
                             end |};
     t_csize := m_compressed (n_meta e) |}.

(* the entries that get a row, in order: run_list_archive's closure over the reader's items *)
Fixpoint shown (solid : bool) (es : list read_entry) : res (list normal_entry) :=
  match es with
  | [] => Ok []
  | RNormal e :: r => do t <- shown solid r; Ok (e :: t)
  | RSolid s :: r => if solid then do inner <- expand s; do t <- shown solid r; Ok (inner ++ t)
                     else shown solid r
  end.

Definition sel_entry (nf : N) (sel : bytes -> bool) (e : normal_entry) : bool :=
  N.eqb nf 0 || sel (f_name (n_hdr e)).

(* run_list_archive, then the glob filter of print_entries *)
Definition list_trows (solid : bool) (nf : N) (sel : bytes -> bool) (es : list read_entry) : res (list trow) :=
  do ns <- shown solid es;
  Ok (filter (fun t => selected nf sel (t_row t)) (map row_of ns)).

(* the archive as Model/ListCmd.v sees it *)
Definition litem_of (x : read_entry) : litem :=
  match x with
  | RNormal e => LNormal (t_row (row_of e))
  | RSolid s => LSolid (match expand s with Ok inner => map (fun e => t_row (row_of e)) inner | _ => [] end)
  end.

(* ---- what the printers show of the two fields ------------------------------------------------------ *)
Definition size_cell (o : option N) : bytes := match o with Some n => dec n | None => lit "-" end.
(* detail_list_entries: columns "Raw Size", "Compressed Size" *)
Definition table_size_cells (t : trow) : bytes * bytes := (size_cell (r_size (t_row t)), dec (t_csize t)).
(* json_line_entries: fields "raw_size", "size" *)
(* raw_size is an Option since repo 09617fb8 (list.rs FileInfo.raw_size: Option): `null` when the entry records no size (it used to print 0 there,
   kept as jsonl_size_fields_orig) *)
Definition jsonl_size_fields (t : trow) : option N * N := (r_size (t_row t), t_csize t).
Definition jsonl_size_fields_orig (t : trow) : N * N :=
  (match r_size (t_row t) with Some n => n | None => 0 end, t_csize t).

(* ================================================================================================= *)
(* 1. every row stands for one shown entry; its size fields are that entry's metadata                  *)
(* ================================================================================================= *)
Lemma filter_map_rows nf sel ns :
  filter (fun t => selected nf sel (t_row t)) (map row_of ns) = map row_of (filter (sel_entry nf sel) ns).
Proof.
  induction ns as [|e ns IH]; [reflexivity|]. cbn [map filter]. rewrite IH.
  change (selected nf sel (t_row (row_of e))) with (sel_entry nf sel e). destruct (sel_entry nf sel e); reflexivity.
Qed.

(* the k-th row is row_of the k-th selected entry of `shown` *)
Theorem rows_stand_for solid nf sel es rows : list_trows solid nf sel es = Ok rows ->
  exists ns, shown solid es = Ok ns /\ rows = map row_of (filter (sel_entry nf sel) ns).
Proof.
  unfold list_trows. destruct (shown solid es) as [ns| |]; cbn [bind]; try discriminate.
  intros [= <-]. exists ns. split; [reflexivity|apply filter_map_rows].
Qed.

Lemma shown_collected solid : forall es ns, shown solid es = Ok ns ->
  map (fun e => t_row (row_of e)) ns = collected solid (map litem_of es).
Proof.
  induction es as [|x es IH]; intros ns H; cbn [shown] in H.
  - injection H as <-. reflexivity.
  - unfold collected in *. cbn [map concat]. destruct x as [e|s].
    + destruct (shown solid es) as [t| |]; cbn [bind] in H; try discriminate H. injection H as <-.
      cbn [map litem_of app]. rewrite (IH t eq_refl). reflexivity.
    + cbn [litem_of]. destruct solid.
      * destruct (expand s) as [inner| |]; cbn [bind] in H; try discriminate H.
        destruct (shown true es) as [t| |]; cbn [bind] in H; try discriminate H. injection H as <-.
        rewrite map_app, (IH t eq_refl). reflexivity.
      * cbn [app]. exact (IH ns H).
Qed.

(* the rows are those of Model/ListCmd.v: C17 applies to them *)
Theorem list_trows_rows solid nf sel es rows : list_trows solid nf sel es = Ok rows ->
  map t_row rows = list_rows solid nf sel (map litem_of es).
Proof.
  intros H. destruct (rows_stand_for _ _ _ _ _ H) as (ns & Hs & ->).
  unfold list_rows. rewrite <- (shown_collected solid es ns Hs). rewrite map_map. clear H Hs.
  induction ns as [|e ns IH]; [reflexivity|]. cbn [filter map].
  change (selected nf sel (t_row (row_of e))) with (sel_entry nf sel e).
  destruct (sel_entry nf sel e); cbn [map]; rewrite IH; reflexivity.
Qed.

(* without --solid no solid block is opened: the listing does not depend on `expand` succeeding *)
Lemma shown_nosolid : forall es, shown false es = Ok (concat (map (fun x => match x with RNormal e => [e] | RSolid _ => [] end) es)).
Proof.
  induction es as [|x es IH]; [reflexivity|]. cbn [shown map concat]. destruct x as [e|s]; [|exact IH].
  rewrite IH. reflexivity.
Qed.

(* ---- the data chunks of a raw entry -------------------------------------------------------------------- *)
(* the payloads of the FDAT chunks in front of the first FEND (where the parser stops) *)
Fixpoint fdat_payloads (cs : list chunk) : list bytes :=
  match cs with
  | [] => []
  | c :: r => if ty_is c FEND then [] else if ty_is c FDAT then cdata c :: fdat_payloads r else fdat_payloads r
  end.

Lemma parse_normal_loop_data cs : forall a a', parse_normal_loop cs a = Ok a' ->
  k_data a' = k_data a ++ fdat_payloads cs.
Proof.
  induction cs as [|c cs IH]; intros a a'; cbn [parse_normal_loop fdat_payloads]; [intros [= <-]; now rewrite app_nil_r|].
  destruct (ty_is c FEND) eqn:T0; [intros [= <-]; now rewrite app_nil_r|].
  assert (K : forall b, parse_normal_loop cs b = Ok a' -> k_data b = k_data a -> ty_is c FDAT = false ->
              k_data a' = k_data a ++ (if ty_is c FDAT then cdata c :: fdat_payloads cs else fdat_payloads cs)).
  { intros b Hb Hd Hf. rewrite Hf, (IH b a' Hb), Hd. reflexivity. }
  destruct (ty_is c FHED) eqn:T1.
  { destruct (fhed_of_bytes (cdata c)) as [h| |]; cbn [bind]; try discriminate.
    intros H. apply (K _ H); try reflexivity. apply (ty_eq_neq c FHED FDAT T1). reflexivity. }
  destruct (ty_is c PHSF) eqn:T2.
  { destruct (utf8_string (cdata c)) as [s| |]; cbn [bind]; try discriminate.
    intros H. apply (K _ H); try reflexivity. apply (ty_eq_neq c PHSF FDAT T2). reflexivity. }
  destruct (ty_is c FDAT) eqn:T3.
  { intros H. rewrite (IH _ a' H). cbn [k_data]. rewrite <- app_assoc. reflexivity. }
  destruct (ty_is c fSIZ) eqn:T4.
  { intros H. exact (IH _ a' H). }
  destruct (ty_is c cTIM) eqn:T5.
  { destruct (time_of_bytes (cdata c)) as [t| |]; cbn [bind]; try discriminate. intros H. exact (IH _ a' H). }
  destruct (ty_is c mTIM) eqn:T6.
  { destruct (time_of_bytes (cdata c)) as [t| |]; cbn [bind]; try discriminate. intros H. exact (IH _ a' H). }
  destruct (ty_is c aTIM) eqn:T7.
  { destruct (time_of_bytes (cdata c)) as [t| |]; cbn [bind]; try discriminate. intros H. exact (IH _ a' H). }
  destruct (ty_is c fPRM) eqn:T8.
  { destruct (perm_of_bytes (cdata c)) as [p| |]; cbn [bind]; try discriminate. intros H. exact (IH _ a' H). }
  destruct (ty_is c xATR) eqn:T9.
  { destruct (xattr_of_bytes (cdata c)) as [x| |]; cbn [bind]; try discriminate. intros H. exact (IH _ a' H). }
  intros H. exact (IH _ a' H).
Qed.

Lemma parse_normal_data cs e : parse_normal cs = Ok e -> n_data e = fdat_payloads cs.
Proof.
  unfold parse_normal. destruct cs as [|c cs]; [discriminate|].
  destruct (negb (ty_is c FHED)); [discriminate|].
  destruct (parse_normal_loop (c :: cs) nacc0) as [a| |] eqn:E; cbn [bind]; try discriminate.
  apply parse_normal_loop_data in E.
  destruct (k_info a) as [h|]; [|discriminate].
  destruct (negb _); [discriminate|]. intros [= <-]. cbn [n_data]. exact E.
Qed.

Lemma sum_len_sumN l : sum_len l = sumN (map len l).
Proof. induction l as [|d l IH]; [reflexivity|]. rewrite sum_len_cons, IH. reflexivity. Qed.

(* an entry that came out of the parser: TryFrom<RawEntry> for NormalEntry on the chunks cs *)
Definition parsed (e : normal_entry) : Prop := exists cs, parse_normal cs = Ok e.
Definition parsed_item (x : read_entry) : Prop := match x with RNormal e => parsed e | RSolid _ => True end.

(* the size fields of the row of a parsed entry: compressed = total length of its data chunks (as kept in the
   entry and as they stand in the raw chunk list), raw = the last fSIZ chunk, None (shown "-" / 0) without one *)
Definition sizes_exact (t : trow) (e : normal_entry) : Prop :=
  t_csize t = sumN (map len (n_data e)) /\ r_size (t_row t) = m_raw_size (n_meta e) /\
  forall cs, parse_normal cs = Ok e ->
    t_csize t = sumN (map len (fdat_payloads cs)) /\ r_size (t_row t) = last_fsiz cs.

Lemma row_of_sizes e : parsed e -> sizes_exact (row_of e) e.
Proof.
  intros (cs0 & P0). unfold sizes_exact. cbn [row_of t_csize t_row r_size].
  pose proof (compressed_size_sum _ _ P0) as C. fold (sum_len (n_data e)) in C. rewrite sum_len_sumN in C.
  split; [exact C|]. split; [reflexivity|]. intros cs P.
  rewrite <- (parse_normal_data _ _ P). split; [exact C|exact (raw_size_last_fsiz _ _ P)].
Qed.

Hypothesis expand_parsed : forall s ns, expand s = Ok ns -> Forall parsed ns.

Lemma shown_parsed solid : forall es ns, Forall parsed_item es -> shown solid es = Ok ns -> Forall parsed ns.
Proof.
  induction es as [|x es IH]; intros ns Hp H; cbn [shown] in H.
  - injection H as <-. constructor.
  - inversion Hp as [|? ? Hx Hes]; subst. destruct x as [e|s].
    + destruct (shown solid es) as [t| |]; cbn [bind] in H; try discriminate H. injection H as <-.
      constructor; [exact Hx|exact (IH t Hes eq_refl)].
    + destruct solid; [|exact (IH ns Hes H)].
      destruct (expand s) as [inner| |] eqn:Ex; cbn [bind] in H; try discriminate H.
      destruct (shown true es) as [t| |]; cbn [bind] in H; try discriminate H. injection H as <-.
      apply Forall_app. split; [exact (expand_parsed s inner Ex)|exact (IH t Hes eq_refl)].
Qed.

(* 1. every row of every listing *)
Theorem listed_sizes_exact solid nf sel es rows :
  Forall parsed_item es -> list_trows solid nf sel es = Ok rows ->
  exists ns, shown solid es = Ok ns /\
    Forall2 sizes_exact rows (filter (sel_entry nf sel) ns) /\
    map t_row rows = list_rows solid nf sel (map litem_of es).
Proof.
  intros Hp H. destruct (rows_stand_for _ _ _ _ _ H) as (ns & Hs & Hr). exists ns. split; [exact Hs|].
  split; [|exact (list_trows_rows _ _ _ _ _ H)]. subst rows.
  pose proof (shown_parsed solid es ns Hp Hs) as Hn.
  assert (Hf : Forall parsed (filter (sel_entry nf sel) ns)).
  { apply Forall_forall. intros e He. apply filter_In in He. rewrite Forall_forall in Hn. apply Hn, He. }
  clear H. induction Hf as [|e l He _ IH]; cbn [map]; constructor; [exact (row_of_sizes e He)|exact IH].
Qed.
End Rows.

(* what Archive::entries() delivers are parsed entries *)
Lemma parse_all_parsed : forall raws ps f, parse_all raws = (ps, f) -> Forall parsed_item ps.
Proof.
  induction raws as [|cs raws IH]; intros ps f H; cbn [parse_all] in H.
  - injection H as <- _. constructor.
  - destruct (parse_entry cs) as [p| |] eqn:E; try (injection H as <- _; constructor).
    destruct (parse_all raws) as [ps' f'] eqn:E'. injection H as <- _.
    constructor; [|exact (IH ps' f' eq_refl)].
    unfold parse_entry in E. destruct cs as [|c cs']; [discriminate|].
    destruct (ty_is c SHED).
    + destruct (parse_solid (c :: cs')); cbn [bind] in E; try discriminate E. injection E as <-. exact I.
    + destruct (ty_is c FHED); [|discriminate].
      destruct (parse_normal (c :: cs')) as [e| |] eqn:P; cbn [bind] in E; try discriminate E. injection E as <-.
      exists (c :: cs'). exact P.
Qed.

Lemma read_archive_parsed b es : read_archive b = Ok es -> Forall parsed_item es.
Proof.
  unfold read_archive, entries.
  destruct (raw_entries read_chunk_stream b) as [[[raws e] st]| |]; cbn [bind]; try discriminate.
  destruct (parse_all raws) as [ps pe] eqn:E. cbn [bind].
  intros H. assert (ps = es) as <- by (destruct pe, e; congruence). exact (parse_all_parsed _ _ _ E).
Qed.

(* the iterator over a solid stream yields parsed entries *)
Lemma inner_loop_parsed : forall fuel bs ns f, inner_entries_loop fuel bs = (ns, f) -> Forall parsed ns.
Proof.
  induction fuel as [|fuel IH]; intros bs ns f H; cbn [inner_entries_loop] in H; [injection H as <- _; constructor|].
  destruct (inner_item (S (length bs)) bs []) as [[[cs r]|]| |]; try (injection H as <- _; constructor).
  destruct (parse_normal cs) as [e| |] eqn:P; try (injection H as <- _; constructor).
  destruct (inner_entries_loop fuel r) as [es k] eqn:El. injection H as <- _.
  constructor; [exists cs; exact P|exact (IH r es k El)].
Qed.

Section Pipe.
Variables E D : encryption -> bytes -> bytes -> bytes.
Variable compress : compression -> N -> list bytes -> list bytes.
Variable decompress : compression -> bytes -> res bytes.
Variable verify : bytes -> bytes -> res bytes.
Variable pw : bytes.
Variable srb : solid_entry -> list N.

(* s.entries(password) run to its end: SolidEntry::entries, any yielded error is the result *)
Definition expand_p (s : solid_entry) : res (list normal_entry) :=
  do (ns, f) <- decode_solid E D decompress verify s pw (srb s);
  match f with FinOk => Ok ns | FinErr k => Err k | FinPanic => Panic end.

Lemma expand_p_parsed s ns : expand_p s = Ok ns -> Forall parsed ns.
Proof.
  unfold expand_p, decode_solid.
  destruct (decode_stream _ _ _ _ _ _ _ _ _ _ _) as [st| |]; cbn [bind]; try discriminate.
  destruct (inner_entries_loop (S (length st)) st) as [ns' f] eqn:El. destruct f; try discriminate.
  intros [= <-]. exact (inner_loop_parsed _ _ _ _ El).
Qed.

(* 1, on the bytes of an archive file: whatever the file, the password, the selection and --solid *)
Theorem listed_sizes_of_archive rd solid nf sel b es rows :
  read_archive b = Ok es -> list_trows rd expand_p solid nf sel es = Ok rows ->
  exists ns, shown expand_p solid es = Ok ns /\
    Forall2 sizes_exact rows (filter (sel_entry nf sel) ns) /\
    map t_row rows = list_rows solid nf sel (map (litem_of rd expand_p) es).
Proof.
  intros R H. exact (listed_sizes_exact rd expand_p expand_p_parsed solid nf sel es rows (read_archive_parsed _ _ R) H).
Qed.

(* ================================================================================================= *)
(* 2. entries built by the C01 pipeline                                                                *)
(* ================================================================================================= *)
Hypothesis D_len : forall a k c, len16 c -> len16 (D a k c).
Hypothesis DE : forall a k b, len16 b -> D a k (E a k b) = b.
Hypothesis E_len : forall a k b, len16 b -> len16 (E a k b).
Hypothesis compress_law : forall c lvl ws, decompress c (concat (compress c lvl ws)) = Ok (concat ws).
Hypothesis compress_det : forall c lvl (ws ws' : list bytes), concat ws = concat ws' ->
  concat (compress c lvl ws) = concat (compress c lvl ws').

Notation build_normal := (build_normal E compress).
Notation build_job := (build_job E compress).
Notation wf_job := (wf_job E compress verify).
Notation wf_ctx := (wf_ctx verify).

(* the bytes an entry stores: the 16-byte IV in front when it is encrypted, then everything the cipher (or, without
   encryption, the compressor; without both, the caller) handed to the chunk writer *)
Definition stored_bytes (cfg : config) (ctx : cctx) (wcuts : list bytes) : N :=
  (if encrypted cfg then 16 else 0) + len (concat (data_pieces E compress cfg ctx wcuts)).

Lemma build_data_stored cfg ctx wcuts : wf_ctx ctx pw ->
  sumN (map len (build_data E compress cfg ctx wcuts)) = stored_bytes cfg ctx wcuts.
Proof.
  intros Hc. rewrite <- sum_len_sumN. unfold build_data, stored_bytes, iv_part. rewrite sum_len_app.
  f_equal.
  - destruct (encrypted cfg); [|reflexivity]. unfold sum_len. cbn [map fold_left].
    pose proof (iv_len E D verify D_len DE E_len ctx pw Hc) as L. unfold len. rewrite L. reflexivity.
  - unfold sum_len. rewrite sum_len_concat, flat_sink_concat. reflexivity.
Qed.

(* the row of a built entry: raw size = length of the content for a file, absent otherwise (directories and
   links have no fSIZ: "-" in the table, 0 in JSON lines); compressed size = the stored bytes INCLUDING the
   16-byte IV of an encrypted entry (links and directories are stored with WriteOptions::store(): eff_cfg) *)
Theorem built_row_sizes rd cfg ctx sp wcuts :
  wf_spec sp -> wf_ctx ctx pw -> concat (eff_wcuts (sp_kind sp) wcuts) = sp_content sp ->
  let t := row_of rd (build_normal cfg ctx sp wcuts) in
  r_size (t_row t) = (match sp_kind sp with KFile => Some (len (sp_content sp)) | _ => None end) /\
  t_csize t = stored_bytes (eff_cfg cfg (sp_kind sp)) ctx (eff_wcuts (sp_kind sp) wcuts) /\
  t_csize t = sumN (map len (n_data (build_normal cfg ctx sp wcuts))) /\
  r_name (t_row t) = sp_name sp /\ r_kind (t_row t) = kind_code (sp_kind sp).
Proof.
  intros Hs Hc Hw t.
  destruct (metadata_roundtrip E D compress verify D_len DE E_len cfg ctx pw sp wcuts Hs Hc Hw)
    as (_ & _ & _ & _ & _ & _ & _ & _ & _ & _ & Hr & Hz).
  subst t. cbn [row_of t_row t_csize r_size r_name r_kind]. split; [exact Hr|].
  assert (Hz' : m_compressed (n_meta (build_normal cfg ctx sp wcuts)) = sumN (map len (n_data (build_normal cfg ctx sp wcuts)))).
  { rewrite Hz. fold (sum_len (n_data (build_normal cfg ctx sp wcuts))). apply sum_len_sumN. }
  split; [|split; [exact Hz'|split; reflexivity]].
  rewrite Hz'. unfold Pipeline.build_normal. cbv zeta. cbn [n_data]. apply build_data_stored. exact Hc.
Qed.

Definition job_row rd (j : job) : trow := row_of rd (build_job j).
Definition job_sizes_exact (t : trow) (j : job) : Prop :=
  r_size (t_row t) = (match sp_kind (j_spec j) with KFile => Some (len (sp_content (j_spec j))) | _ => None end) /\
  t_csize t = stored_bytes (eff_cfg (j_cfg j) (sp_kind (j_spec j))) (j_ctx j) (eff_wcuts (sp_kind (j_spec j)) (j_wcuts j)) /\
  r_name (t_row t) = sp_name (j_spec j) /\ r_kind (t_row t) = kind_code (sp_kind (j_spec j)).

Lemma job_row_sizes rd j : wf_job pw j -> job_sizes_exact (job_row rd j) j.
Proof.
  intros (Hs & Hc & Hw & _). destruct (built_row_sizes rd (j_cfg j) (j_ctx j) (j_spec j) (j_wcuts j) Hs Hc Hw) as (A & B & _ & C & D').
  unfold job_sizes_exact, job_row, PipelineFacts.build_job. auto.
Qed.

Definition sel_job (nf : N) (sel : bytes -> bool) (j : job) : bool := N.eqb nf 0 || sel (sp_name (j_spec j)).

Lemma filter_jobs nf sel jobs :
  filter (sel_entry nf sel) (map build_job jobs) = map build_job (filter (sel_job nf sel) jobs).
Proof. induction jobs as [|j jobs IH]; [reflexivity|]. cbn [map filter]. rewrite IH. unfold sel_entry, sel_job. cbn. destruct (_ || _); reflexivity. Qed.

Lemma Forall2_job_rows rd jobs : Forall (wf_job pw) jobs -> Forall2 job_sizes_exact (map (job_row rd) jobs) jobs.
Proof. induction 1 as [|j l Hj _ IH]; cbn [map]; constructor; [exact (job_row_sizes rd j Hj)|exact IH]. Qed.

(* 2. create (any codec, cipher, mode, slicing of the writes), write, read back, list: one row per selected job, in
   order, with exact sizes — with and without --solid (there is no solid block) *)
Theorem listed_built_archive rd expand solid nf sel jobs : Forall (wf_job pw) jobs ->
  exists es, read_archive (write_archive (map build_job jobs)) = Ok es /\
    list_trows rd expand solid nf sel es = Ok (map (job_row rd) (filter (sel_job nf sel) jobs)) /\
    Forall2 job_sizes_exact (map (job_row rd) (filter (sel_job nf sel) jobs)) (filter (sel_job nf sel) jobs).
Proof.
  intros Hj. eexists. split; [exact (archive_roundtrip E D compress decompress verify D_len DE E_len compress_law compress_det pw jobs Hj)|].
  split.
  - unfold list_trows.
    assert (S : shown expand solid (map (fun j => RNormal (build_job j)) jobs) = Ok (map build_job jobs)).
    { clear Hj. induction jobs as [|j l IH]; [reflexivity|]. cbn [map shown]. rewrite IH. reflexivity. }
    rewrite S. cbn [bind]. rewrite filter_map_rows, filter_jobs, map_map. reflexivity.
  - apply Forall2_job_rows. apply Forall_forall. intros j Hin. apply filter_In in Hin. rewrite Forall_forall in Hj. apply Hj, Hin.
Qed.

(* ================================================================================================= *)
(* 3. rows of the inner entries of solid blocks (--solid)                                              *)
(* ================================================================================================= *)
(* an archive made of entries built with EntryBuilder and of solid blocks built with SolidEntryBuilder from such
   entries (any block configuration; swcuts: how the inner entries' bytes reached the block's pipeline) *)
Inductive aitem :=
| ANormal (j : job)
| ASolid (cfg : config) (ctx : cctx) (extra : list chunk) (jobs : list job) (swcuts : list bytes).

Definition item_entry (it : aitem) : read_entry :=
  match it with
  | ANormal j => RNormal (build_job j)
  | ASolid cfg ctx extra _ swcuts => RSolid (build_solid E compress cfg ctx extra swcuts)
  end.
Definition item_jobs (solid : bool) (it : aitem) : list job :=
  match it with ANormal j => [j] | ASolid _ _ _ jobs _ => if solid then jobs else [] end.
Definition wf_item (it : aitem) : Prop :=
  match it with
  | ANormal j => wf_job pw j
  | ASolid cfg ctx extra jobs swcuts =>
    wf_ctx ctx pw /\ Forall (wf_job pw) jobs /\ concat swcuts = solid_plain_stream (map build_job jobs) /\
    Forall (fun n => 0 < n) (srb (build_solid E compress cfg ctx extra swcuts)) /\
    covers compress cfg swcuts (srb (build_solid E compress cfg ctx extra swcuts))
  end.

Lemma expand_built cfg ctx extra jobs swcuts : wf_item (ASolid cfg ctx extra jobs swcuts) ->
  expand_p (build_solid E compress cfg ctx extra swcuts) = Ok (map build_job jobs).
Proof.
  intros (Hc & Hj & Hs & Hp & Hcov). unfold expand_p.
  destruct (solid_roundtrip_jobs E D compress decompress verify D_len DE E_len compress_law compress_det
              cfg ctx pw extra jobs swcuts _ Hc Hj Hs Hp Hcov) as [-> _]. reflexivity.
Qed.

Lemma shown_items solid : forall items, Forall wf_item items ->
  shown expand_p solid (map item_entry items) = Ok (map build_job (concat (map (item_jobs solid) items))).
Proof.
  induction 1 as [|it items Hi _ IH]; [reflexivity|]. cbn [map shown concat]. rewrite map_app. destruct it as [j|cfg ctx extra jobs swcuts].
  - cbn [item_entry]. rewrite IH. reflexivity.
  - cbn [item_entry item_jobs]. destruct solid.
    + rewrite (expand_built _ _ _ _ _ Hi). cbn [bind]. rewrite IH. reflexivity.
    + exact IH.
Qed.

Lemma wf_item_jobs solid items : Forall wf_item items -> Forall (wf_job pw) (concat (map (item_jobs solid) items)).
Proof.
  induction 1 as [|it items Hi _ IH]; [constructor|]. cbn [map concat]. apply Forall_app. split; [|exact IH].
  destruct it as [j|cfg ctx extra jobs swcuts]; cbn [item_jobs]; [constructor; [exact Hi|constructor]|].
  destruct solid; [apply Hi|constructor].
Qed.

(* 3. with --solid every inner entry of every block gets a row, in order, between the rows of its neighbours, and
   its two size fields are exact for the INNER entry (its own content length, its own stored bytes incl. its own
   IV when the inner entry itself is encrypted); without --solid the blocks give no row *)
Theorem listed_solid_archive rd solid nf sel items : Forall wf_item items ->
  let js := filter (sel_job nf sel) (concat (map (item_jobs solid) items)) in
  list_trows rd expand_p solid nf sel (map item_entry items) = Ok (map (job_row rd) js) /\
  Forall2 job_sizes_exact (map (job_row rd) js) js.
Proof.
  intros Hi js. split.
  - unfold list_trows. rewrite (shown_items solid items Hi). cbn [bind].
    rewrite filter_map_rows, filter_jobs, map_map. reflexivity.
  - apply Forall2_job_rows. apply Forall_forall. intros j Hin. apply filter_In in Hin.
    pose proof (wf_item_jobs solid items Hi) as Hj. rewrite Forall_forall in Hj. apply Hj, Hin.
Qed.

(* ... and such an archive, written with add_entry and read back with entries(), is that list of items *)
Definition item_writable (it : aitem) : Prop :=
  match it with
  | ANormal _ => True
  | ASolid cfg ctx extra _ swcuts =>
    Forall (fun c => is_known_solid c = false) extra /\ Forall (fun c => is_term c = false) extra /\
    Forall wf_chunk (ser_solid (build_solid E compress cfg ctx extra swcuts))
  end.

Lemma parse_item it : wf_item it -> item_writable it -> parse_entry (ser_entry (item_entry it)) = Ok (item_entry it).
Proof.
  destruct it as [j|cfg ctx extra jobs swcuts]; cbn [item_entry ser_entry wf_item item_writable].
  - intros (Hs & Hc & Hwc & Hf) _. unfold PipelineFacts.build_job.
    rewrite (parse_entry_ser_normal _ (build_wf_normal E compress verify _ _ pw _ _ Hs Hc Hwc)).
    rewrite (normalize_build E D compress verify D_len DE E_len _ _ pw _ _ Hc). reflexivity.
  - intros (Hc & _) (Hk & Ht & Hw). unfold parse_entry.
    destruct (ser_solid_head (build_solid E compress cfg ctx extra swcuts)) as [tl Etl]. rewrite Etl. tysimp. rewrite <- Etl.
    rewrite (parse_ser_solid_wf _ (build_solid_wf E D compress verify D_len DE E_len cfg ctx pw extra swcuts Hc Hk)). reflexivity.
Qed.

Lemma item_wf_entry it : wf_item it -> item_writable it -> wf_entry (ser_entry (item_entry it)).
Proof.
  destruct it as [j|cfg ctx extra jobs swcuts]; cbn [item_entry ser_entry wf_item item_writable].
  - intros (Hs & Hc & Hwc & Hf) _.
    exact (ser_normal_wf_entry compress decompress compress_law compress_det _ (build_wf_normal E compress verify _ _ pw _ _ Hs Hc Hwc) Hf).
  - intros _ (Hk & Ht & Hw). exact (ser_solid_wf_entry _ Hw Ht).
Qed.

Theorem items_archive_roundtrip items : Forall wf_item items -> Forall item_writable items ->
  read_archive (write_archive_entries (map item_entry items)) = Ok (map item_entry items).
Proof.
  intros Hi Hw. unfold read_archive, write_archive_entries, entries.
  assert (HH : Forall (fun it => wf_item it /\ item_writable it) items).
  { apply Forall_forall. intros it Hin. rewrite Forall_forall in Hi, Hw. split; [apply Hi|apply Hw]; exact Hin. }
  clear Hi Hw.
  rewrite read_written; [|lia|].
  - cbn [bind].
    assert (P : parse_all (map ser_entry (map item_entry items)) = (map item_entry items, FinOk)).
    { induction HH as [|it items [H1 H2] _ IH]; [reflexivity|]. cbn [map parse_all].
      rewrite (parse_item it H1 H2), IH. reflexivity. }
    rewrite P. reflexivity.
  - rewrite map_map. apply Forall_forall. intros cs Hcs. apply in_map_iff in Hcs. destruct Hcs as (it & <- & Hin).
    rewrite Forall_forall in HH. destruct (HH it Hin) as [H1 H2]. exact (item_wf_entry it H1 H2).
Qed.

(* 2 + 3 on the bytes of the archive file: written with add_entry, read back with entries(), listed *)
Theorem listed_items_archive rd solid nf sel items : Forall wf_item items -> Forall item_writable items ->
  let js := filter (sel_job nf sel) (concat (map (item_jobs solid) items)) in
  exists es, read_archive (write_archive_entries (map item_entry items)) = Ok es /\
    list_trows rd expand_p solid nf sel es = Ok (map (job_row rd) js) /\
    Forall2 job_sizes_exact (map (job_row rd) js) js.
Proof.
  intros Hi Hw js. exists (map item_entry items). split; [exact (items_archive_roundtrip items Hi Hw)|].
  exact (listed_solid_archive rd solid nf sel items Hi).
Qed.
End Pipe.

(* ================================================================================================= *)
(* 4. evaluated in the kernel (toy block cipher, storing "compressor")                                 *)
(* ================================================================================================= *)
Definition ls_pw : bytes := lit "pw".
Definition ls_ctx : cctx :=
  {| c_key := firstn 32 (ls_pw ++ repeat x00 32);
     c_iv := map n2b [16; 17; 18; 19; 20; 21; 22; 23; 24; 25; 26; 27; 28; 29; 30; 31]; c_phsf := hex ls_pw |}.
Definition ls_spec (k : data_kind) (nm ct : bytes) : spec :=
  {| sp_kind := k; sp_name := nm; sp_content := ct; sp_ctime := None; sp_mtime := None; sp_atime := None;
     sp_perm := None; sp_xattrs := []; sp_extra := [] |}.
Definition ls_cbc : config := {| g_comp := CNo; g_level := 0; g_enc := EAes; g_mode := MCbc |}.
Definition ls_ctr : config := {| g_comp := CNo; g_level := 0; g_enc := EAes; g_mode := MCtr |}.
(* a stored file of 10 bytes written as 4 + 6; a CBC-encrypted file of 20 bytes (16 IV + 32 ciphertext = 48 stored);
   a symbolic link (no fSIZ; its 5-byte target is its data); a directory; inside a CTR-encrypted solid block a stored
   file of 7 bytes and a CTR-encrypted file of 5 bytes (16 IV + 5 = 21 stored, counted for the inner entry) *)
Definition ls_j1 : job := {| j_cfg := store_file_cfg; j_ctx := ls_ctx; j_spec := ls_spec KFile (lit "a.txt") (lit "0123456789");
                             j_wcuts := [lit "0123"; lit "456789"] |}.
Definition ls_j2 : job := {| j_cfg := ls_cbc; j_ctx := ls_ctx; j_spec := ls_spec KFile (lit "b.bin") (lit "twenty bytes of data");
                             j_wcuts := [lit "twenty bytes of data"] |}.
Definition ls_j3 : job := {| j_cfg := ls_cbc; j_ctx := ls_ctx; j_spec := ls_spec KSymlink (lit "l") (lit "a.txt"); j_wcuts := [lit "a.txt"] |}.
Definition ls_j4 : job := {| j_cfg := ls_cbc; j_ctx := ls_ctx; j_spec := ls_spec KDir (lit "d") []; j_wcuts := [] |}.
Definition ls_i1 : job := {| j_cfg := store_file_cfg; j_ctx := ls_ctx; j_spec := ls_spec KFile (lit "s/in") (lit "seven b"); j_wcuts := [lit "seven b"] |}.
Definition ls_i2 : job := {| j_cfg := ls_ctr; j_ctx := ls_ctx; j_spec := ls_spec KFile (lit "s/enc") (lit "five!"); j_wcuts := [lit "five!"] |}.
Definition ls_build := build_job toy_E_of id_compress.
Definition ls_block : solid_entry := build_solid toy_E_of id_compress ls_ctr ls_ctx [] (solid_writes (map ls_build [ls_i1; ls_i2])).
Definition ls_arch : bytes :=
  write_archive_entries [RNormal (ls_build ls_j1); RSolid ls_block; RNormal (ls_build ls_j2); RNormal (ls_build ls_j3); RNormal (ls_build ls_j4)].
Definition ls_rd (e : normal_entry) : res bytes := decode_normal toy_E_of toy_D_of id_decompress toy_verify e ls_pw (repeat 64 100).
Definition ls_expand (p : bytes) := expand_p toy_E_of toy_D_of id_decompress toy_verify p (fun _ => repeat 64 1000).
Definition ls_list (p : bytes) (solid : bool) : res (list (bytes * (option N * N) * (bytes * bytes))) :=
  do es <- read_archive ls_arch;
  do rows <- list_trows ls_rd (ls_expand p) solid 0 (fun _ => false) es;
  Ok (map (fun t => (r_name (t_row t), jsonl_size_fields t, table_size_cells t)) rows).
(* name, (raw_size, size) of the JSON line, ("Raw Size", "Compressed Size") cells of the table.
   --solid with the right password: the two inner entries appear between their neighbours, each with its own sizes;
   without --solid they are absent and the password is irrelevant; --solid with a wrong password: the block cannot
   be opened, the command fails, nothing is printed *)
Example ls_listing :
  ls_list ls_pw true = Ok
    [(lit "a.txt", (Some 10, 10), (lit "10", lit "10")); (lit "s/in", (Some 7, 7), (lit "7", lit "7"));
     (lit "s/enc", (Some 5, 21), (lit "5", lit "21")); (lit "b.bin", (Some 20, 48), (lit "20", lit "48"));
     (lit "l", (None, 5), (lit "-", lit "5")); (lit "d", (None, 0), (lit "-", lit "0"))] /\
  ls_list ls_pw false = Ok
    [(lit "a.txt", (Some 10, 10), (lit "10", lit "10")); (lit "b.bin", (Some 20, 48), (lit "20", lit "48"));
     (lit "l", (None, 5), (lit "-", lit "5")); (lit "d", (None, 0), (lit "-", lit "0"))] /\
  ls_list (lit "no") false = ls_list ls_pw false /\
  ls_list (lit "no") true = Err InvalidData.
Proof. vm_compute. repeat split. Qed.

(* the premises of listed_items_archive hold for this archive *)
Definition ls_items : list aitem :=
  [ANormal ls_j1; ASolid ls_ctr ls_ctx [] [ls_i1; ls_i2] (solid_writes (map ls_build [ls_i1; ls_i2]));
   ANormal ls_j2; ANormal ls_j3; ANormal ls_j4].
Ltac ls_forall := match goal with |- Forall ?P ?l =>
  let l' := eval vm_compute in l in change (Forall P l'); repeat (apply Forall_cons; [vm_compute; reflexivity|]); apply Forall_nil end.
Ltac ls_atom := first [ exact I | ls_forall | (timeout 20 (vm_compute; reflexivity)) ].
Lemma ls_job_wf j : In j [ls_j1; ls_j2; ls_j3; ls_j4; ls_i1; ls_i2] -> wf_job toy_E_of id_compress toy_verify ls_pw j.
Proof.
  intros H. repeat (destruct H as [<-|H]; [unfold wf_job, wf_spec, wf_ctx, fits; repeat split; ls_atom|]). destruct H.
Qed.
Example ls_items_wf :
  map (item_entry toy_E_of id_compress) ls_items =
    [RNormal (ls_build ls_j1); RSolid ls_block; RNormal (ls_build ls_j2); RNormal (ls_build ls_j3); RNormal (ls_build ls_j4)] /\
  Forall (wf_item toy_E_of id_compress toy_verify ls_pw (fun _ => repeat 64 1000)) ls_items /\
  Forall (item_writable toy_E_of id_compress) ls_items.
Proof.
  split; [reflexivity|]. split.
  - unfold ls_items. repeat (apply Forall_cons; [try (apply ls_job_wf; cbn; tauto)|]); [|apply Forall_nil].
    cbn [wf_item]. split; [unfold wf_ctx; repeat split; ls_atom|].
    split; [repeat (apply Forall_cons; [apply ls_job_wf; cbn; tauto|]); apply Forall_nil|].
    split; [apply solid_writes_concat|].
    split; [apply Forall_forall; intros n Hn; apply repeat_spec in Hn; subst n; lia|].
    vm_compute. reflexivity.
  - unfold ls_items. repeat (apply Forall_cons; [try exact I|]); [|apply Forall_nil].
    cbn [item_writable]. split; [apply Forall_nil|]. split; [apply Forall_nil|].
    match goal with |- Forall ?P ?l =>
      let l' := eval vm_compute in l in assert (El : l = l') by (vm_compute; reflexivity); rewrite El; clear El end.
    repeat (apply Forall_cons; [split; vm_compute; reflexivity|]). apply Forall_nil.
Qed.
