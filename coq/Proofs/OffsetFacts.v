(* OffsetFacts.v — every size and offset the archive layer reports is exact (C18), for ALL inputs:
   1. `pna experimental chunk list` (Archive.chunk_list / offsets_from): every listed offset is the
      byte position at which exactly that chunk is read back; offsets are 8 + the sizes before.
   2. seek_to_end (Archive.seek_loop): on every input that the chunk iterator accepts it stops at
      the listed offset of the first AEND chunk; on an archive the writer produced that is
      `len - 12`, and writing there reproduces the archive with one more entry (core of append).
   3. byte counts returned by add_entry / add_entry_part for every entry representation, and the
      size of a whole archive.
   4. the raw size of a parsed entry is the value of its last fSIZ chunk.
   stdlib only, no axioms. *)
From PNA Require Import Base Crc32 Name Codec Chunk Archive Entry
  BaseFacts Crc32Facts CodecFacts ChunkFacts ArchiveFacts EntryFacts.
Require Import ZArith ZifyN ZifyNat ZifyBool.
Open Scope N_scope.

Notation rds := read_chunk_stream.

(* ---- sums ------------------------------------------------------------------------------------------ *)
Definition sumN (l : list N) : N := fold_right N.add 0 l.

Lemma sumN_cons x l : sumN (x :: l) = x + sumN l.
Proof. reflexivity. Qed.

Lemma sumN_nil : sumN [] = 0.
Proof. reflexivity. Qed.

Lemma sumN_app a b : sumN (a ++ b) = sumN a + sumN b.
Proof. induction a as [|x a IH]; cbn [app]; rewrite ?sumN_cons, ?sumN_nil; lia. Qed.

(* the serialised length of a chunk sequence needs only 4-byte types (the length field is be32 whatever
   the payload length is) *)
Definition ty4 (c : chunk) : Prop := length (cty c) = 4%nat.

Lemma wf_chunk_ty4 c : wf_chunk c -> ty4 c.
Proof. intros [H _]. exact H. Qed.

Lemma Forall_wf_ty4 cs : Forall wf_chunk cs -> Forall ty4 cs.
Proof. intros H. eapply Forall_impl; [|exact H]. exact wf_chunk_ty4. Qed.

Lemma ser_chunk_len_ty4 c : ty4 c -> len (ser_chunk c) = bytes_len c.
Proof. intros H. unfold bytes_len, len. rewrite ser_chunk_length by exact H. lia. Qed.

Lemma ser_chunks_len cs : Forall ty4 cs -> len (ser_chunks cs) = sumN (map bytes_len cs).
Proof.
  induction 1 as [|c cs Hc _ IH]; [reflexivity|].
  rewrite ser_chunks_cons, len_app, ser_chunk_len_ty4, IH by exact Hc. reflexivity.
Qed.

Lemma len_nat {A} (l : list A) : N.to_nat (len l) = length l.
Proof. unfold len. apply Nat2N.id. Qed.

Lemma chunks_le_bytes cs : (length cs <= length (ser_chunks cs))%nat.
Proof.
  induction cs as [|c cs IH]; [cbn; lia|]. rewrite ser_chunks_cons, app_length.
  pose proof (ser_chunk_length_ge c). cbn [length]. lia.
Qed.

(* ================================================================================================= *)
(* 1. what the chunk iterator accepted                                                                 *)
(* ================================================================================================= *)
(* a successful iteration has read a run of well-formed chunks: the first AEND is the last one *)
Lemma chunks_iter_ok_inv : forall fuel bs cs, chunks_iter rds fuel bs = (cs, FinOk) ->
  exists init a rest, cs = init ++ [a] /\ ty_is a AEND = true /\
    Forall (fun c => ty_is c AEND = false) init /\ Forall wf_chunk cs /\ bs = ser_chunks cs ++ rest.
Proof.
  induction fuel as [|fuel IH]; intros bs cs H; [discriminate H|]. cbn [chunks_iter] in H.
  destruct (rds bs) as [[c r]|e|] eqn:E; try discriminate H.
  apply read_chunk_ok_inv in E. destruct E as [Hc ->].
  destruct (ty_is c AEND) eqn:Ea.
  - injection H as <-. exists [], c, r. repeat split; auto.
    rewrite ser_chunks_cons, ser_chunks_nil, app_nil_r. reflexivity.
  - destruct (chunks_iter rds fuel r) as [cs' e'] eqn:E'. injection H as <- ->.
    destruct (IH r cs' E') as (init & a & rest & -> & Ha & Hi & Hw & ->).
    exists (c :: init), a, rest. repeat split; auto.
    rewrite ser_chunks_cons, <- app_assoc. reflexivity.
Qed.

(* and conversely the iterator accepts every such run *)
Lemma chunks_iter_run : forall init a rest fuel, Forall wf_chunk init -> wf_chunk a ->
  Forall (fun c => ty_is c AEND = false) init -> ty_is a AEND = true -> (length init < fuel)%nat ->
  chunks_iter rds fuel (ser_chunks (init ++ [a]) ++ rest) = (init ++ [a], FinOk).
Proof.
  induction init as [|c init IH]; intros a rest fuel Hw Ha Hn Ht Hf; (destruct fuel as [|fuel]; [cbn [length] in Hf; lia|]);
    cbn [chunks_iter app].
  - rewrite ser_chunks_cons, ser_chunks_nil, app_nil_r, read_chunk_ser by exact Ha. rewrite Ht. reflexivity.
  - inversion Hw as [|? ? Hc Hw']; subst. inversion Hn as [|? ? Hc' Hn']; subst.
    rewrite ser_chunks_cons, <- app_assoc, read_chunk_ser by exact Hc. rewrite Hc'.
    rewrite IH by (try assumption; cbn [length] in Hf; lia). reflexivity.
Qed.

(* ---- offsets_from ------------------------------------------------------------------------------------- *)
Lemma offsets_from_fst : forall cs off, map fst (offsets_from off cs) = cs.
Proof. induction cs as [|c cs IH]; intros off; cbn [offsets_from map fst]; [reflexivity|]. rewrite IH. reflexivity. Qed.

Lemma offsets_from_length cs : forall off, length (offsets_from off cs) = length cs.
Proof. induction cs as [|c cs IH]; intros off; cbn [offsets_from length]; [reflexivity|]. rewrite IH. reflexivity. Qed.

Lemma offsets_from_nth : forall cs off k c o, nth_error (offsets_from off cs) k = Some (c, o) ->
  nth_error cs k = Some c /\ o = off + sumN (map bytes_len (firstn k cs)).
Proof.
  induction cs as [|x cs IH]; intros off k c o H; [destruct k; discriminate H|].
  destruct k as [|k]; cbn [offsets_from nth_error firstn map] in *.
  - injection H as <- <-. split; [reflexivity|]. cbn. lia.
  - apply IH in H. destruct H as [H ->]. split; [exact H|]. rewrite sumN_cons. unfold bytes_len. lia.
Qed.

Lemma offsets_from_app a b off :
  offsets_from off (a ++ b) = offsets_from off a ++ offsets_from (off + sumN (map bytes_len a)) b.
Proof.
  revert off. induction a as [|x a IH]; intros off; cbn [app offsets_from map].
  - replace (off + sumN []) with off by (cbn; lia). reflexivity.
  - rewrite IH. rewrite sumN_cons. unfold bytes_len at 2. do 3 f_equal. lia.
Qed.

(* position arithmetic on a serialised run *)
Lemma nth_error_split {A} (l : list A) k x : nth_error l k = Some x ->
  l = firstn k l ++ x :: skipn (S k) l.
Proof.
  revert k. induction l as [|y l IH]; intros [|k] H; try discriminate H; cbn [nth_error firstn skipn app] in *.
  - injection H as ->. reflexivity.
  - f_equal. apply IH. exact H.
Qed.

Lemma firstn_le_split {A} (l : list A) i j : (i <= j)%nat ->
  firstn j l = firstn i l ++ firstn (j - i) (skipn i l).
Proof.
  intros H. rewrite <- (firstn_skipn i (firstn j l)). rewrite firstn_firstn, Nat.min_l by exact H.
  rewrite firstn_skipn_comm. replace (i + (j - i))%nat with j by lia. reflexivity.
Qed.

Lemma firstn_S_nth {A} (l : list A) i x : nth_error l i = Some x -> firstn (S i) l = firstn i l ++ [x].
Proof.
  revert i. induction l as [|y l IH]; intros [|i] H; try discriminate H; cbn [nth_error firstn app] in *.
  - injection H as ->. reflexivity.
  - f_equal. apply IH. exact H.
Qed.

Lemma skipn_app_exact {A} (a b : list A) n : n = length a -> skipn n (a ++ b) = b.
Proof. intros ->. rewrite skipn_app, skipn_all, Nat.sub_diag. reflexivity. Qed.

(* ---- chunk_list ----------------------------------------------------------------------------------------- *)
(* the shape of every input on which `chunk list` succeeds, and of what it prints *)
Theorem chunk_list_shape bs l : chunk_list bs = Ok l ->
  exists init a rest,
    bs = sig ++ ser_chunks (init ++ [a]) ++ rest /\ l = offsets_from 8 (init ++ [a]) /\
    Forall wf_chunk (init ++ [a]) /\ ty_is a AEND = true /\ Forall (fun c => ty_is c AEND = false) init.
Proof.
  unfold chunk_list, chunks_stream, read_chunks.
  destruct (read_sig_cases bs) as [-> | [-> | (r & -> & ->)]]; cbn [bind]; try discriminate.
  destruct (chunks_iter rds (S (length r)) r) as [cs f] eqn:E. destruct f; try discriminate.
  intros [= <-]. apply chunks_iter_ok_inv in E.
  destruct E as (init & a & rest & -> & Ha & Hi & Hw & ->).
  exists init, a, rest. repeat split; assumption.
Qed.

(* `offsets`: entry k of the listing carries the offset 8 + (sizes of the chunks listed before it); the
   chunk lies inside the file there, and reading at that offset returns exactly that chunk and leaves
   the reader at offset + size *)
Theorem chunk_list_exact bs l : chunk_list bs = Ok l ->
  forall k c off, nth_error l k = Some (c, off) ->
    off = 8 + sumN (map bytes_len (firstn k (map fst l))) /\
    off + bytes_len c <= len bs /\
    rds (skipn (N.to_nat off) bs) = Ok (c, skipn (N.to_nat (off + bytes_len c)) bs).
Proof.
  intros H k c off Hk. apply chunk_list_shape in H.
  destruct H as (init & a & rest & -> & -> & Hw & _ & _).
  set (cs := init ++ [a]) in *. rewrite offsets_from_fst.
  apply offsets_from_nth in Hk. destruct Hk as [Hk ->].
  pose proof (nth_error_split _ _ _ Hk) as Hs.
  assert (Hpre : Forall wf_chunk (firstn k cs)).
  { rewrite Hs in Hw. apply Forall_app in Hw. apply Hw. }
  assert (Hc : wf_chunk c).
  { rewrite Hs in Hw. apply Forall_app in Hw. destruct Hw as [_ Hw]. inversion Hw; assumption. }
  pose proof (ser_chunks_len _ (Forall_wf_ty4 _ Hpre)) as Lpre.
  set (P := sumN (map bytes_len (firstn k cs))) in *.
  assert (Hbs : sig ++ ser_chunks cs ++ rest =
                (sig ++ ser_chunks (firstn k cs)) ++ ser_chunk c ++ ser_chunks (skipn (S k) cs) ++ rest).
  { rewrite Hs at 1. rewrite ser_chunks_app, ser_chunks_cons, <- !app_assoc. reflexivity. }
  assert (Lhead : length (sig ++ ser_chunks (firstn k cs)) = N.to_nat (8 + P)).
  { rewrite app_length. change (length sig) with 8%nat. unfold len in Lpre. lia. }
  split; [reflexivity|]. split.
  - assert (Lh : len (sig ++ ser_chunks (firstn k cs)) = 8 + P) by (unfold len; rewrite Lhead; lia).
    rewrite Hbs, len_app, Lh, len_app, ser_chunk_len by exact Hc. lia.
  - rewrite Hbs. rewrite skipn_app_exact by (symmetry; exact Lhead).
    rewrite read_chunk_ser by exact Hc. f_equal. f_equal.
    rewrite app_assoc. symmetry. apply skipn_app_exact.
    rewrite app_length, Lhead. pose proof (ser_chunk_len c Hc) as Lc. unfold len in Lc. lia.
Qed.

(* the first offset is 8 (behind the signature), the offsets increase strictly (by at least 12), and the
   last line is the AEND chunk, which lies wholly inside the file; no earlier line is an AEND *)
Theorem chunk_list_order bs l : chunk_list bs = Ok l ->
  (exists c tl, l = (c, 8) :: tl) /\
  (forall i j ci oi cj oj, (i < j)%nat -> nth_error l i = Some (ci, oi) -> nth_error l j = Some (cj, oj) ->
     oi + bytes_len ci <= oj) /\
  (exists init a off, l = init ++ [(a, off)] /\ ty_is a AEND = true /\ off + 12 <= len bs /\
     Forall (fun p => ty_is (fst p) AEND = false) init).
Proof.
  intros H. pose proof (chunk_list_exact bs l H) as Hex. apply chunk_list_shape in H.
  destruct H as (init & a & rest & Hbs & Hl & Hw & Ha & Hi). split; [|split].
  - rewrite Hl. destruct init as [|c init]; cbn [app offsets_from]; eauto.
  - intros i j ci oi cj oj Hij Hi' Hj'.
    destruct (Hex i ci oi Hi') as (-> & _ & _). destruct (Hex j cj oj Hj') as (-> & _ & _).
    rewrite Hl, offsets_from_fst in *. apply offsets_from_nth in Hi'. destruct Hi' as [Hi' _].
    set (cs := init ++ [a]) in *.
    rewrite (firstn_le_split cs (S i) j) by lia. rewrite (firstn_S_nth _ _ _ Hi').
    rewrite !map_app, !sumN_app. cbn [map]. rewrite sumN_cons, sumN_nil. lia.
  - exists (offsets_from 8 init), a, (8 + sumN (map bytes_len init)). rewrite Hl, offsets_from_app. cbn [offsets_from].
    split; [reflexivity|]. split; [exact Ha|]. split.
    + rewrite Hbs. rewrite ser_chunks_app, ser_chunks_cons, ser_chunks_nil, app_nil_r, !len_app.
      apply Forall_app in Hw. destruct Hw as [Hw1 Hw2]. inversion Hw2 as [|? ? Hwa _]; subst.
      rewrite ser_chunks_len by (apply Forall_wf_ty4; exact Hw1). rewrite ser_chunk_len by exact Hwa.
      unfold bytes_len. change (len sig) with 8. lia.
    + clear -Hi. generalize 8. induction Hi as [|c init Hc _ IH]; intros off; cbn [offsets_from]; constructor; auto.
Qed.

(* non-vacuity, and completeness on the writer's side: for every archive the writer produces, the listing
   is the header chunk, every chunk of every entry, and AEND, each with its offset *)
Lemma is_end_not_aend c : is_end c = true -> ty_is c AEND = false.
Proof.
  unfold is_end, ty_is. rewrite orb_true_iff. intros [H|H]; apply bytes_eqb_eq in H; rewrite H; reflexivity.
Qed.

Lemma is_term_not_aend c : is_term c = false -> ty_is c AEND = false.
Proof. intros H. apply is_term_false in H. apply H. Qed.

Lemma wf_entry_chunks e : wf_entry e -> Forall wf_chunk e /\ Forall (fun c => ty_is c AEND = false) e.
Proof.
  intros He. apply wf_entry_inv in He. destruct He as (body & last & -> & He & Hw & Hl & Hn).
  split; apply Forall_app; split; auto.
  - eapply Forall_impl; [|exact Hn]. exact is_term_not_aend.
  - constructor; [|constructor]. apply is_end_not_aend. exact He.
Qed.

Lemma wf_entries_chunks es : Forall wf_entry es ->
  Forall wf_chunk (concat es) /\ Forall (fun c => ty_is c AEND = false) (concat es).
Proof.
  induction 1 as [|e es He _ [IH1 IH2]]; cbn [concat]; [split; constructor|].
  apply wf_entry_chunks in He. destruct He. split; apply Forall_app; split; assumption.
Qed.

Theorem chunk_list_written num es : Forall wf_entry es ->
  chunk_list (write_raw_archive num es) = Ok (offsets_from 8 (archive_chunks num es)).
Proof.
  intros Hw. apply wf_entries_chunks in Hw. destruct Hw as [Hw Hn].
  unfold chunk_list, chunks_stream, read_chunks. rewrite write_raw_archive_chunks, read_sig_app. cbn [bind].
  unfold archive_chunks. rewrite app_comm_cons.
  rewrite <- (app_nil_r (ser_chunks _)).
  rewrite chunks_iter_run; [reflexivity| | | | |].
  - constructor; [apply wf_chunk_hdr|exact Hw].
  - exact wf_chunk_aend.
  - constructor; [reflexivity|exact Hn].
  - reflexivity.
  - rewrite app_nil_r. pose proof (chunks_le_bytes ((hdr_chunk num :: concat es) ++ [mk AEND []])) as L.
    rewrite app_length in L. cbn [length] in L |- *. lia.
Qed.

(* ================================================================================================= *)
(* 2. seek_to_end                                                                                      *)
(* ================================================================================================= *)
Definition has_anxt (cs : list chunk) : bool := existsb (fun c => ty_is c ANXT) cs.

Lemma skipn_len_app {A} (a b : list A) k : k = len a -> skipn (N.to_nat k) (a ++ b) = b.
Proof. intros ->. apply skipn_app_exact. apply len_nat. Qed.

(* one step over a well-formed chunk that is not AEND *)
Lemma seek_step c rest fuel off nxt : wf_chunk c -> ty_is c AEND = false ->
  seek_loop (S fuel) (ser_chunk c ++ rest) off nxt =
  seek_loop fuel rest (off + bytes_len c) (nxt || ty_is c ANXT).
Proof.
  intros [Ht Hd] Ha. cbn [seek_loop]. rewrite ser_chunk_app.
  rewrite take_app by apply be32_length. cbn [bind]. rewrite take_app by exact Ht. cbn [bind]. cbv zeta.
  unfold ty_is in Ha. rewrite Ha. rewrite of_be_be32 by exact Hd.
  assert (L : len (cdata c) + 4 = len (cdata c ++ be32 (chunk_crc c))) by (rewrite len_app, len_be32; reflexivity).
  destruct (N.leb_spec (len (cdata c) + 4) (len (cdata c ++ be32 (chunk_crc c) ++ rest))) as [_|Hlt].
  - rewrite (app_assoc (cdata c)). rewrite skipn_len_app by exact L.
    unfold bytes_len, ty_is. f_equal. lia.
  - rewrite app_assoc, len_app in Hlt. lia.
Qed.

Lemma seek_stop a rest fuel off nxt : ty4 a -> ty_is a AEND = true ->
  seek_loop (S fuel) (ser_chunk a ++ rest) off nxt = Ok (off, nxt).
Proof.
  intros Ht Ha. cbn [seek_loop]. rewrite ser_chunk_app.
  rewrite take_app by apply be32_length. cbn [bind]. rewrite take_app by exact Ht. cbn [bind]. cbv zeta.
  unfold ty_is in Ha. rewrite Ha. reflexivity.
Qed.

(* seek over a run of well-formed chunks up to its first AEND: the offset grows by the sizes of the chunks
   skipped, the flag records an ANXT among them *)
Lemma seek_loop_run : forall init a rest fuel off nxt, Forall wf_chunk init -> ty4 a ->
  Forall (fun c => ty_is c AEND = false) init -> ty_is a AEND = true -> (length init < fuel)%nat ->
  seek_loop fuel (ser_chunks init ++ ser_chunk a ++ rest) off nxt =
  Ok (off + sumN (map bytes_len init), nxt || has_anxt init).
Proof.
  induction init as [|c init IH]; intros a rest fuel off nxt Hw Ha Hn Ht Hf;
    (destruct fuel as [|fuel]; [cbn [length] in Hf; lia|]).
  - rewrite ser_chunks_nil. cbn [app]. rewrite seek_stop by assumption.
    cbn [map has_anxt existsb]. rewrite sumN_nil, orb_false_r. f_equal. f_equal. lia.
  - inversion Hw as [|? ? Hc Hw']; subst. inversion Hn as [|? ? Hc' Hn']; subst.
    rewrite ser_chunks_cons, <- app_assoc. rewrite seek_step by assumption.
    rewrite IH by (try assumption; cbn [length] in Hf; lia).
    cbn [map has_anxt existsb]. rewrite sumN_cons. fold (has_anxt init). rewrite orb_assoc. f_equal. f_equal. lia.
Qed.

(* a header that was read is 28 bytes long: signature and an AHED chunk with 8 bytes of data *)
Lemma ahed_of_bytes_len bs h : ahed_of_bytes bs = Ok h -> length bs = 8%nat.
Proof. unfold ahed_of_bytes. do 9 (destruct bs as [|? bs]; try discriminate). reflexivity. Qed.

Lemma read_header_ok_inv bs h r : read_header rds bs = Ok (h, r) ->
  exists c, bs = sig ++ ser_chunk c ++ r /\ wf_chunk c /\ ty_is c AHED = true /\
            ahed_of_bytes (cdata c) = Ok h /\ length bs = (28 + length r)%nat.
Proof.
  unfold read_header.
  destruct (read_sig_cases bs) as [-> | [-> | (r0 & -> & ->)]]; cbn [bind]; try discriminate.
  destruct (rds r0) as [[c r1]|e|] eqn:E; cbn [bind]; try discriminate.
  destruct (ty_is c AHED) eqn:Et; cbn [negb]; [|discriminate].
  destruct (ahed_of_bytes (cdata c)) as [h'| |] eqn:Eh; cbn [bind]; try discriminate.
  intros [= <- <-]. apply read_chunk_ok_inv in E. destruct E as [Hc ->].
  exists c. split; [reflexivity|]. split; [exact Hc|]. split; [exact Et|]. split; [exact Eh|].
  rewrite !app_length, ser_chunk_length by apply Hc. apply ahed_of_bytes_len in Eh. rewrite Eh.
  change (length sig) with 8%nat. lia.
Qed.

Lemma ty_eq_neq c t u : ty_is c t = true -> bytes_eqb t u = false -> ty_is c u = false.
Proof. unfold ty_is. intros H Hn. apply bytes_eqb_eq in H. rewrite H. exact Hn. Qed.

(* `seek`: on every input that `chunk list` accepts and whose first chunk is a valid archive header,
   seek_to_end stops exactly at the listed offset of the AEND chunk (offsets of seek_loop count from the
   end of the 28-byte header), and reports a successor iff an ANXT chunk is listed *)
Theorem seek_exact bs l h r : chunk_list bs = Ok l -> read_header rds bs = Ok (h, r) ->
  exists init a off, l = init ++ [(a, off)] /\ ty_is a AEND = true /\ 28 <= off /\
    length bs = (28 + length r)%nat /\
    seek_loop (S (length r)) r 0 false = Ok (off - 28, existsb (fun p => ty_is (fst p) ANXT) init).
Proof.
  intros Hl Hh. apply chunk_list_shape in Hl.
  destruct Hl as (init & a & rest & Hbs & -> & Hw & Ha & Hi).
  apply read_header_ok_inv in Hh. destruct Hh as (c & Hbs' & Hc & Hct & Hcd & Hlen).
  rewrite Hbs in Hbs'. apply app_inv_head in Hbs'.
  destruct init as [|c0 init].
  { (* the only chunk is AEND: it cannot be the AHED chunk the header reader found *)
    exfalso. cbn [app] in Hbs'. rewrite ser_chunks_cons, ser_chunks_nil, app_nil_r in Hbs'.
    assert (E : rds (ser_chunk a ++ rest) = rds (ser_chunk c ++ r)) by (rewrite Hbs'; reflexivity).
    inversion Hw as [|? ? Hwa _]; subst. rewrite !read_chunk_ser in E by assumption. injection E as -> _.
    rewrite (ty_eq_neq c AHED AEND Hct) in Ha by reflexivity. discriminate Ha. }
  cbn [app] in Hbs', Hw. rewrite ser_chunks_cons, <- app_assoc in Hbs'.
  inversion Hw as [|? ? Hw0 Hw']; subst. inversion Hi as [|? ? Hi0 Hi']; subst.
  assert (E : rds (ser_chunk c0 ++ ser_chunks (init ++ [a]) ++ rest) = rds (ser_chunk c ++ r)) by (rewrite Hbs'; reflexivity).
  rewrite !read_chunk_ser in E by assumption. injection E as -> Hr.
  apply Forall_app in Hw'. destruct Hw' as [Hwi Hwa]. inversion Hwa as [|? ? Hwa' _]; subst.
  exists (offsets_from 8 [c] ++ offsets_from (8 + bytes_len c) init), a, (8 + bytes_len c + sumN (map bytes_len init)).
  assert (B : bytes_len c = 20).
  { unfold bytes_len, len. apply ahed_of_bytes_len in Hcd. rewrite Hcd. reflexivity. }
  split; [|split; [exact Ha|split; [lia|split; [exact Hlen|]]]].
  - change (c :: init ++ [a]) with ([c] ++ init ++ [a]). rewrite !offsets_from_app. cbn [offsets_from app map].
    rewrite sumN_cons. unfold bytes_len at 2. replace (8 + (len (cdata c) + 12)) with (8 + (12 + len (cdata c))) by lia.
    do 4 f_equal. unfold bytes_len. lia.
  - rewrite ser_chunks_app, ser_chunks_cons, ser_chunks_nil, app_nil_r, <- app_assoc.
    rewrite seek_loop_run; try assumption; try (apply wf_chunk_ty4; assumption).
    + f_equal. f_equal; [lia|].
      rewrite existsb_app. cbn [offsets_from existsb fst]. rewrite (ty_eq_neq c AHED ANXT Hct) by reflexivity.
      cbn [orb]. unfold has_anxt. clear. generalize (8 + bytes_len c).
      induction init as [|x init IH]; intros o; cbn [offsets_from existsb fst]; [reflexivity|]. rewrite <- IH. reflexivity.
    + pose proof (chunks_le_bytes init). rewrite !app_length. lia.
Qed.

(* on an archive the writer produced: the position found is the start of the AEND chunk = length - 12 *)
Lemma wf_entries_no_anxt es : Forall wf_entry es -> has_anxt (concat es) = false.
Proof.
  induction 1 as [|e es He _ IH]; [reflexivity|]. cbn [concat]. unfold has_anxt in *. rewrite existsb_app, IH, orb_false_r.
  apply wf_entry_inv in He. destruct He as (body & last & -> & He & _ & _ & Hn).
  rewrite existsb_app. cbn [existsb]. rewrite orb_false_r.
  replace (ty_is last ANXT) with false.
  - rewrite orb_false_r. induction Hn as [|c body Hc _ IHb]; [reflexivity|]. cbn [existsb]. rewrite IHb, orb_false_r.
    apply is_term_false in Hc. apply Hc.
  - symmetry. unfold is_end in He. apply orb_true_iff in He. destruct He as [He|He];
      [apply (ty_eq_neq last FEND ANXT He)|apply (ty_eq_neq last SEND ANXT He)]; reflexivity.
Qed.

Lemma write_raw_archive_len num es :
  len (write_raw_archive num es) = 28 + len (ser_entries es) + 12.
Proof.
  rewrite write_raw_archive_eq, !len_app. unfold len at 1. rewrite write_header_length.
  unfold finalize. rewrite ser_chunk_len by exact wf_chunk_aend. unfold bytes_len. cbn [mk cdata]. change (len []) with 0. lia.
Qed.

Theorem seek_written num es : num < 2 ^ 32 -> Forall wf_entry es ->
  let a := write_raw_archive num es in
  exists r, read_header rds a = Ok ({| a_major := 0; a_minor := 0; a_number := num |}, r) /\
            len a = 28 + len r /\
            seek_loop (S (length r)) r 0 false = Ok (len a - 12 - 28, false).
Proof.
  intros Hn Hw. cbv zeta. exists (ser_entries es ++ finalize).
  assert (Ho := open_written num [] (ser_entries es ++ finalize) Hn). unfold open_archive in Ho.
  rewrite <- write_raw_archive_eq in Ho.
  destruct (read_header rds (write_raw_archive num es)) as [[h r]| |] eqn:E; cbn [bind] in Ho; try discriminate Ho.
  injection Ho as -> ->. split; [reflexivity|].
  rewrite write_raw_archive_len. split.
  - rewrite len_app. unfold finalize. rewrite ser_chunk_len by exact wf_chunk_aend. unfold bytes_len. cbn [mk cdata]. change (len []) with 0. lia.
  - rewrite ser_entries_concat. unfold finalize. rewrite <- (app_nil_r (ser_chunk (mk AEND []))).
    pose proof (wf_entries_chunks es Hw) as [Hwc Hna].
    rewrite seek_loop_run; try assumption; try reflexivity.
    + rewrite (wf_entries_no_anxt es Hw). rewrite <- ser_chunks_len by (apply Forall_wf_ty4; exact Hwc). f_equal. f_equal. lia.
    + pose proof (chunks_le_bytes (concat es)). rewrite !app_length. lia.
Qed.

(* the byte-level core of append: cutting the archive at the position seek_to_end found and writing the
   new entry and a fresh end marker there gives exactly the archive of the extended entry list *)
Theorem append_at_seek num es new : num < 2 ^ 32 -> Forall wf_entry es ->
  let a := write_raw_archive num es in
  exists r off nxt, read_header rds a = Ok ({| a_major := 0; a_minor := 0; a_number := num |}, r) /\
    seek_loop (S (length r)) r 0 false = Ok (off, nxt) /\ nxt = false /\
    28 + off = len a - 12 /\
    firstn (N.to_nat (28 + off)) a ++ fst (add_chunks new) ++ finalize = write_raw_archive num (es ++ [new]).
Proof.
  intros Hn Hw. cbv zeta. destruct (seek_written num es Hn Hw) as (r & Hh & Hl & Hs).
  exists r, (len (write_raw_archive num es) - 12 - 28), false.
  pose proof (write_raw_archive_len num es) as L.
  split; [exact Hh|]. split; [exact Hs|]. split; [reflexivity|]. split; [lia|].
  replace (28 + (len (write_raw_archive num es) - 12 - 28)) with (len (write_header num ++ ser_entries es))
    by (rewrite len_app; unfold len at 1; rewrite write_header_length; lia).
  rewrite len_nat, !write_raw_archive_eq. rewrite (app_assoc (write_header num)).
  rewrite firstn_app_l by (apply Nat.le_refl). rewrite firstn_all.
  rewrite add_chunks_fst. unfold ser_entries. rewrite map_app, concat_app. cbn [map concat]. rewrite app_nil_r, <- !app_assoc. reflexivity.
Qed.

Example seek_written_ex : exists r, read_header rds ex_arch = Ok ({| a_major := 0; a_minor := 0; a_number := 7 |}, r) /\
  seek_loop (S (length r)) r 0 false = Ok (96, false) /\ len ex_arch = 136.
Proof. eexists. vm_compute. repeat split. Qed.

(* ================================================================================================= *)
(* 3. byte counts returned by add_entry / add_entry_part                                               *)
(* ================================================================================================= *)
Definition payload_total (cs : list chunk) : N := sumN (map (fun c => len (cdata c)) cs).

Lemma fold_bytes_len_sum cs : forall acc,
  fold_left (fun a c => a + bytes_len c) cs acc = acc + sumN (map bytes_len cs).
Proof.
  induction cs as [|c cs IH]; intros acc; cbn [fold_left map]; [rewrite sumN_nil; lia|].
  rewrite IH, sumN_cons. lia.
Qed.

Lemma sum_bytes_len cs : sumN (map bytes_len cs) = 12 * len cs + payload_total cs.
Proof.
  unfold payload_total. induction cs as [|c cs IH]; [reflexivity|].
  cbn [map]. rewrite !sumN_cons, IH, len_cons. unfold bytes_len. lia.
Qed.

(* the count returned: 12 bytes of framing per chunk plus the payloads — for every chunk list *)
Theorem add_chunks_count_formula cs : snd (add_chunks cs) = 12 * len cs + payload_total cs.
Proof. unfold add_chunks. cbn [snd]. rewrite fold_bytes_len_sum, sum_bytes_len. lia. Qed.

(* and it is the number of bytes written, as soon as the chunk types are 4 bytes long *)
Theorem add_chunks_count_ty4 cs : Forall ty4 cs -> snd (add_chunks cs) = len (fst (add_chunks cs)).
Proof. intros H. unfold add_chunks. cbn [fst snd]. rewrite fold_bytes_len_sum, ser_chunks_len by exact H. lia. Qed.

Lemma ty4_mk t d : length t = 4%nat -> ty4 (mk t d).
Proof. intros H. exact H. Qed.

Lemma ty4_opt_chunk {A} t (f : A -> bytes) o : length t = 4%nat -> Forall ty4 (opt_chunk t f o).
Proof. intros H. destruct o; cbn [opt_chunk]; repeat constructor. exact H. Qed.

Lemma ty4_data_chunks t ds : length t = 4%nat -> Forall ty4 (concat (map (data_chunks t) ds)).
Proof.
  intros H. induction ds as [|d ds IH]; cbn [map concat]; [constructor|].
  apply Forall_app. split; [|exact IH]. unfold data_chunks, data_chunks_at.
  apply Forall_forall. intros c Hc. apply in_map_iff in Hc. destruct Hc as (p & <- & _). exact H.
Qed.

Lemma ty4_map {A} t (f : A -> bytes) l : length t = 4%nat -> Forall ty4 (map (fun x => mk t (f x)) l).
Proof. intros H. induction l as [|x l IH]; cbn [map]; constructor; [exact H|exact IH]. Qed.

Lemma ty4_ser_normal e : Forall ty4 (n_extra e) -> Forall ty4 (ser_normal e).
Proof.
  intros H. unfold ser_normal. cbv zeta.
  repeat (apply Forall_app; split); try (apply ty4_opt_chunk; reflexivity); try exact H.
  - repeat constructor.
  - apply ty4_data_chunks. reflexivity.
  - apply (ty4_map xATR xattr_to_bytes). reflexivity.
  - repeat constructor.
Qed.

Lemma ty4_ser_solid e : Forall ty4 (so_extra e) -> Forall ty4 (ser_solid e).
Proof.
  intros H. unfold ser_solid.
  repeat (apply Forall_app; split); try (apply ty4_opt_chunk; reflexivity); try exact H.
  - repeat constructor.
  - apply (ty4_map SDAT (fun d => d)). reflexivity.
  - repeat constructor.
Qed.

Definition extras_of (x : read_entry) : list chunk :=
  match x with RNormal n => n_extra n | RSolid s => so_extra s end.

Lemma ty4_ser_entry x : Forall ty4 (extras_of x) -> Forall ty4 (ser_entry x).
Proof. destruct x; cbn [extras_of ser_entry]; [apply ty4_ser_normal|apply ty4_ser_solid]. Qed.

(* add_entry of a structured entry, every representation: the count returned is the number of bytes
   appended and equals 12 per chunk plus the payloads *)
Theorem add_entry_count_normal e : Forall ty4 (n_extra e) ->
  snd (add_chunks (ser_normal e)) = len (fst (add_chunks (ser_normal e))) /\
  snd (add_chunks (ser_normal e)) = 12 * len (ser_normal e) + payload_total (ser_normal e).
Proof. intros H. split; [apply add_chunks_count_ty4, ty4_ser_normal, H|apply add_chunks_count_formula]. Qed.

Theorem add_entry_count_solid s : Forall ty4 (so_extra s) ->
  snd (add_chunks (ser_solid s)) = len (fst (add_chunks (ser_solid s))) /\
  snd (add_chunks (ser_solid s)) = 12 * len (ser_solid s) + payload_total (ser_solid s).
Proof. intros H. split; [apply add_chunks_count_ty4, ty4_ser_solid, H|apply add_chunks_count_formula]. Qed.

Theorem add_entry_count_entry x : Forall ty4 (extras_of x) ->
  snd (add_chunks (ser_entry x)) = len (fst (add_chunks (ser_entry x))) /\
  snd (add_chunks (ser_entry x)) = 12 * len (ser_entry x) + payload_total (ser_entry x).
Proof. intros H. split; [apply add_chunks_count_ty4, ty4_ser_entry, H|apply add_chunks_count_formula]. Qed.

(* a whole archive: signature 8 + header chunk 20 + the counts returned for the entries + end marker 12 *)
Theorem archive_len_counts num es : Forall (Forall ty4) es ->
  len (write_raw_archive num es) = 8 + 20 + sumN (map (fun e => snd (add_chunks e)) es) + 12.
Proof.
  intros H. rewrite write_raw_archive_len. f_equal.
  replace (len (ser_entries es)) with (sumN (map (fun e => snd (add_chunks e)) es)); [lia|].
  induction H as [|e es He _ IH]; [reflexivity|].
  rewrite ser_entries_cons, len_app. cbn [map]. rewrite sumN_cons, IH, add_chunks_count_ty4 by exact He. reflexivity.
Qed.

(* ================================================================================================= *)
(* 4. sizes of a parsed entry                                                                          *)
(* ================================================================================================= *)
(* the value of the last fSIZ chunk before the first FEND (the parser stops at FEND) *)
Fixpoint last_fsiz_from (o : option N) (cs : list chunk) : option N :=
  match cs with
  | [] => o
  | c :: r => if ty_is c FEND then o
              else if ty_is c fSIZ then last_fsiz_from (Some (fsiz_of_bytes (cdata c))) r
              else last_fsiz_from o r
  end.
Definition last_fsiz (cs : list chunk) : option N := last_fsiz_from None cs.

(* one pass over the parser's big match: the size field follows the fSIZ chunks, the extra chunks are
   chunks of the input *)
Lemma parse_normal_loop_size_extra cs : forall a a', parse_normal_loop cs a = Ok a' ->
  k_size a' = last_fsiz_from (k_size a) cs /\
  (forall P : chunk -> Prop, Forall P cs -> Forall P (k_extra a) -> Forall P (k_extra a')).
Proof.
  induction cs as [|c cs IH]; intros a a'; cbn [parse_normal_loop last_fsiz_from]; [intros [= <-]; auto|].
  destruct (ty_is c FEND) eqn:T0; [intros [= <-]; auto|].
  assert (K : forall b, parse_normal_loop cs b = Ok a' -> k_size b = k_size a -> k_extra b = k_extra a ->
              ty_is c fSIZ = false ->
              k_size a' = (if ty_is c fSIZ then last_fsiz_from (Some (fsiz_of_bytes (cdata c))) cs else last_fsiz_from (k_size a) cs) /\
              (forall P : chunk -> Prop, Forall P (c :: cs) -> Forall P (k_extra a) -> Forall P (k_extra a'))).
  { intros b Hb Hs He Hf. rewrite Hf. destruct (IH b a' Hb) as [I1 I2]. rewrite Hs in I1. split; [exact I1|].
    intros P HP Ha. inversion HP; subst. apply I2; [assumption|]. rewrite He. exact Ha. }
  destruct (ty_is c FHED) eqn:T1.
  { destruct (fhed_of_bytes (cdata c)) as [h| |]; cbn [bind]; try discriminate.
    intros H. apply (K _ H); try reflexivity. apply (ty_eq_neq c FHED fSIZ T1). reflexivity. }
  destruct (ty_is c PHSF) eqn:T2.
  { destruct (utf8_string (cdata c)) as [s| |]; cbn [bind]; try discriminate.
    intros H. apply (K _ H); try reflexivity. apply (ty_eq_neq c PHSF fSIZ T2). reflexivity. }
  destruct (ty_is c FDAT) eqn:T3.
  { intros H. apply (K _ H); try reflexivity. apply (ty_eq_neq c FDAT fSIZ T3). reflexivity. }
  destruct (ty_is c fSIZ) eqn:T4.
  { intros H. destruct (IH _ a' H) as [I1 I2]. cbn [k_size k_extra] in I1, I2. split; [exact I1|].
    intros P HP Ha. inversion HP; subst. apply I2; assumption. }
  destruct (ty_is c cTIM) eqn:T5.
  { destruct (time_of_bytes (cdata c)) as [t| |]; cbn [bind]; try discriminate.
    intros H. exact (K _ H eq_refl eq_refl eq_refl). }
  destruct (ty_is c mTIM) eqn:T6.
  { destruct (time_of_bytes (cdata c)) as [t| |]; cbn [bind]; try discriminate.
    intros H. exact (K _ H eq_refl eq_refl eq_refl). }
  destruct (ty_is c aTIM) eqn:T7.
  { destruct (time_of_bytes (cdata c)) as [t| |]; cbn [bind]; try discriminate.
    intros H. exact (K _ H eq_refl eq_refl eq_refl). }
  destruct (ty_is c fPRM) eqn:T8.
  { destruct (perm_of_bytes (cdata c)) as [p| |]; cbn [bind]; try discriminate.
    intros H. exact (K _ H eq_refl eq_refl eq_refl). }
  destruct (ty_is c xATR) eqn:T9.
  { destruct (xattr_of_bytes (cdata c)) as [x| |]; cbn [bind]; try discriminate.
    intros H. exact (K _ H eq_refl eq_refl eq_refl). }
  intros H. destruct (IH _ a' H) as [I1 I2]. cbn [k_size k_extra] in I1, I2. split; [exact I1|].
  intros P HP Ha. inversion HP; subst. apply I2; [assumption|]. apply Forall_app. split; [exact Ha|]. constructor; [assumption|constructor].
Qed.

(* `raw_size`, parsed: the recorded raw size of a parsed entry is the value of its last fSIZ chunk
   (u128 from the last 16 bytes), None if there is none *)
Theorem raw_size_last_fsiz cs e : parse_normal cs = Ok e -> m_raw_size (n_meta e) = last_fsiz cs.
Proof.
  unfold parse_normal. destruct cs as [|c cs]; [discriminate|].
  destruct (negb (ty_is c FHED)); [discriminate|].
  destruct (parse_normal_loop (c :: cs) nacc0) as [a| |] eqn:E; cbn [bind]; try discriminate.
  apply parse_normal_loop_size_extra in E. destruct E as [E _].
  destruct (k_info a) as [h|]; [|discriminate].
  destruct (negb _); [discriminate|]. intros [= <-]. cbn [n_meta m_raw_size]. exact E.
Qed.

(* the extra chunks of a parsed entry are chunks of the input, so the premise of the count theorems holds
   for everything the reader delivers *)
Lemma parse_normal_extras cs e (P : chunk -> Prop) : parse_normal cs = Ok e -> Forall P cs -> Forall P (n_extra e).
Proof.
  unfold parse_normal. destruct cs as [|c cs]; [discriminate|].
  destruct (negb (ty_is c FHED)); [discriminate|].
  destruct (parse_normal_loop (c :: cs) nacc0) as [a| |] eqn:E; cbn [bind]; try discriminate.
  apply parse_normal_loop_size_extra in E. destruct E as [_ E].
  destruct (k_info a) as [h|]; [|discriminate].
  destruct (negb _); [discriminate|]. intros [= <-] HP. cbn [n_extra]. apply E; [exact HP|constructor].
Qed.

Lemma parse_solid_loop_extras (P : chunk -> Prop) cs : forall i p d x i' p' d' x',
  parse_solid_loop cs i p d x = Ok (i', p', d', x') -> Forall P cs -> Forall P x -> Forall P x'.
Proof.
  induction cs as [|c cs IH]; intros i p d x i' p' d' x'; cbn [parse_solid_loop]; [intros [= <- <- <- <-]; auto|].
  destruct (ty_is c SEND); [intros [= <- <- <- <-]; auto|].
  intros H HP Hx. inversion HP; subst.
  destruct (ty_is c SHED).
  { destruct (shed_of_bytes (cdata c)); cbn [bind] in H; try discriminate. eapply IH; eassumption. }
  destruct (ty_is c SDAT); [eapply IH; eassumption|].
  destruct (ty_is c PHSF).
  { destruct (utf8_string (cdata c)); cbn [bind] in H; try discriminate. eapply IH; eassumption. }
  eapply IH; [exact H|assumption|]. apply Forall_app. split; [exact Hx|]. constructor; [assumption|constructor].
Qed.

Lemma parse_entry_extras cs x (P : chunk -> Prop) : parse_entry cs = Ok x -> Forall P cs -> Forall P (extras_of x).
Proof.
  unfold parse_entry. destruct cs as [|c cs]; [discriminate|].
  destruct (ty_is c SHED).
  - destruct (parse_solid (c :: cs)) as [s| |] eqn:E; cbn [bind]; try discriminate. intros [= <-] HP.
    cbn [extras_of]. unfold parse_solid in E. destruct (negb _); [discriminate|].
    destruct (parse_solid_loop (c :: cs) None None [] []) as [[[[i p] d] x]| |] eqn:E'; cbn [bind] in E; try discriminate.
    destruct i; [|discriminate]. injection E as <-. cbn [so_extra].
    eapply parse_solid_loop_extras; [exact E'|exact HP|constructor].
  - destruct (ty_is c FHED); [|discriminate].
    destruct (parse_normal (c :: cs)) as [n| |] eqn:E; cbn [bind]; try discriminate. intros [= <-] HP.
    cbn [extras_of]. eapply parse_normal_extras; eassumption.
Qed.

(* add_entry of an entry that was read from an archive (raw chunks parsed into a structured entry):
   count = bytes appended, no premise beyond the chunks having come through the chunk reader *)
Theorem add_entry_count_parsed cs x : Forall wf_chunk cs -> parse_entry cs = Ok x ->
  snd (add_chunks (ser_entry x)) = len (fst (add_chunks (ser_entry x))).
Proof.
  intros Hw Hp. apply add_entry_count_entry. apply (parse_entry_extras cs x ty4 Hp). apply Forall_wf_ty4. exact Hw.
Qed.

Example last_fsiz_ex : last_fsiz [mk FHED []; mk fSIZ [x01; x00]; mk FDAT [xaa]; mk fSIZ [x07]; mk FEND []; mk fSIZ [x09]] = Some 7.
Proof. vm_compute. reflexivity. Qed.

(* ================================================================================================= *)
(* 5. entry parts (Model/Split.v: EntryPart::bytes_len, EntryPart::split)                              *)
(* ================================================================================================= *)
From PNA Require Split SplitFacts.

(* a chunk of the split model (type, payload) as a chunk of the archive layer *)
Definition chunk_of (c : Split.chunk) : chunk := mk (fst c) (snd c).

Lemma split_bytes_len_sum p : Split.bytes_len p = sumN (map bytes_len (map chunk_of p)).
Proof.
  induction p as [|c p IH]; [reflexivity|]. cbn [Split.bytes_len map]. rewrite sumN_cons, IH.
  unfold Split.chunk_len, Split.MIN_CHUNK, bytes_len, chunk_of. cbn [mk cdata]. reflexivity.
Qed.

(* `part_bytes_len`: EntryPart::bytes_len is the number of bytes add_entry_part writes for the part, and
   the count add_entry_part returns *)
Theorem part_bytes_len p : Forall (fun c : Split.chunk => length (fst c) = 4%nat) p ->
  Split.bytes_len p = len (ser_chunks (map chunk_of p)) /\
  Split.bytes_len p = snd (add_chunks (map chunk_of p)).
Proof.
  intros H. assert (H4 : Forall ty4 (map chunk_of p)).
  { induction H as [|c p Hc _ IH]; cbn [map]; constructor; [exact Hc|exact IH]. }
  split.
  - rewrite ser_chunks_len by exact H4. apply split_bytes_len_sum.
  - unfold add_chunks. cbn [snd]. rewrite fold_bytes_len_sum, <- split_bytes_len_sum. lia.
Qed.

(* the loop of EntryPart::split, exactly: either the part is divided between two chunks (nothing is added),
   or one stream chunk is cut in two, which costs one more 12-byte frame, and then the first half fills the
   budget to the byte *)
Lemma split_loop_exact max : forall p total f rest, total <= max -> Split.split_loop max total p = (f, rest) ->
  (f ++ rest = p /\ Split.bytes_len f + Split.bytes_len rest = Split.bytes_len p) \/
  (exists a t d1 d2 b, p = a ++ (t, d1 ++ d2) :: b /\ f = a ++ [(t, d1)] /\ rest = (t, d2) :: b /\
     Split.is_stream (t, d1 ++ d2) = true /\ d1 <> [] /\ d2 <> [] /\
     total + Split.bytes_len f = max /\
     Split.bytes_len f + Split.bytes_len rest = Split.bytes_len p + 12).
Proof.
  induction p as [|c r IH]; intros total f rest Ht H; cbn [Split.split_loop] in H.
  - injection H as <- <-. left. split; reflexivity.
  - destruct (N.ltb max (total + Split.chunk_len c)) eqn:E1.
    + destruct (Split.is_stream c && N.ltb (total + Split.MIN_CHUNK) max) eqn:E2.
      * injection H as <- <-. apply andb_true_iff in E2 as [Es E2].
        apply N.ltb_lt in E1, E2. unfold Split.chunk_len, Split.MIN_CHUNK in *.
        destruct c as [t d]. cbn [fst snd] in *. right.
        set (idx := N.to_nat (max - total - 12)).
        assert (Hi : (0 < idx < length d)%nat) by (unfold idx, len in *; lia).
        exists [], t, (firstn idx d), (skipn idx d), r. rewrite firstn_skipn. cbn [app].
        split; [reflexivity|]. split; [reflexivity|]. split; [reflexivity|]. split; [exact Es|].
        split; [intros X; apply (f_equal (@length _)) in X; rewrite firstn_length in X; cbn [length] in X; lia|].
        split; [intros X; apply (f_equal (@length _)) in X; rewrite skipn_length in X; cbn [length] in X; lia|].
        cbn [Split.bytes_len]. unfold Split.chunk_len, Split.MIN_CHUNK. cbn [snd].
        unfold len. rewrite firstn_length, skipn_length. unfold idx in *. split; lia.
      * injection H as <- <-. left. split; [reflexivity|]. cbn [Split.bytes_len]. lia.
    + destruct (Split.split_loop max (total + Split.chunk_len c) r) as [f' rest'] eqn:E.
      injection H as <- <-. apply N.ltb_ge in E1.
      destruct (IH _ _ _ E1 E) as [[A B]|(a & t & d1 & d2 & b & -> & -> & -> & Hs & N1 & N2 & Hm & Hb)].
      * left. split; [cbn [app]; rewrite A; reflexivity|]. cbn [Split.bytes_len]. lia.
      * right. exists (c :: a), t, d1, d2, b. repeat split; try assumption.
        -- cbn [app Split.bytes_len] in *. lia.
        -- cbn [app Split.bytes_len] in *. lia.
Qed.

(* `add_part_count` for the two halves of EntryPart::split: the sizes reported for the halves add up to the
   size of the original, plus exactly 12 when a stream chunk was cut; in that case the first half has
   exactly the requested size *)
Theorem split_sizes_exact m p w o : Split.split m p = (w, o) ->
  match o with
  | None => w = p /\ Split.bytes_len p <= m
  | Some rest =>
    m < Split.bytes_len p /\
    ((w ++ rest = p /\ Split.bytes_len w + Split.bytes_len rest = Split.bytes_len p /\ Split.bytes_len w <= m) \/
     (exists a t d1 d2 b, p = a ++ (t, d1 ++ d2) :: b /\ w = a ++ [(t, d1)] /\ rest = (t, d2) :: b /\
        Split.is_stream (t, d1 ++ d2) = true /\ d1 <> [] /\ d2 <> [] /\
        Split.bytes_len w = m /\ Split.bytes_len w + Split.bytes_len rest = Split.bytes_len p + 12))
  end.
Proof.
  destruct o as [rest|]; intros H.
  - pose proof (SplitFacts.split_some_spec _ _ _ _ H) as (B1 & B2 & _).
    apply SplitFacts.split_some in H. destruct H as [Hm L]. split; [exact Hm|].
    destruct (split_loop_exact m p 0 w rest ltac:(lia) L) as [[A B]|(a & t & d1 & d2 & b & E1 & E2 & E3 & Hs & N1 & N2 & Hx & Hb)].
    + left. auto.
    + right. exists a, t, d1, d2, b. repeat split; try assumption; lia.
  - apply SplitFacts.split_none in H. exact H.
Qed.

Example split_sizes_ex :
  Split.split 30 [(Split.FDAT, [x01; x02; x03; x04; x05; x06; x07; x08; x09; x0a; x0b; x0c; x0d; x0e; x0f; x10; x11; x12; x13; x14])] =
  ([(Split.FDAT, [x01; x02; x03; x04; x05; x06; x07; x08; x09; x0a; x0b; x0c; x0d; x0e; x0f; x10; x11; x12])],
   Some [(Split.FDAT, [x13; x14])]).
Proof. vm_compute. reflexivity. Qed.

(* ================================================================================================= *)
(* 6. append as the code does it (ArchiveRun.append_raw: open, seek_to_end, add entries, finalize; the  *)
(*    file is written in place)                                                                          *)
(* ================================================================================================= *)
From PNA Require ArchiveRun.

Lemma overwrite_tail bs pos w : (length bs <= pos + length w)%nat ->
  ArchiveRun.overwrite bs pos w = firstn pos bs ++ w.
Proof. intros H. unfold ArchiveRun.overwrite. rewrite skipn_all2 by exact H. rewrite app_nil_r. reflexivity. Qed.

(* appending the entries of one written archive to another gives exactly the archive of the concatenated
   entry lists: nothing of the old end marker survives, no entry is lost, duplicated or reordered *)
Theorem append_raw_written num es dn new : num < 2 ^ 32 -> dn < 2 ^ 32 -> Forall wf_entry es -> Forall wf_entry new ->
  ArchiveRun.append_raw (write_raw_archive num es) (write_raw_archive dn new) =
  Ok (write_raw_archive num (es ++ new), false).
Proof.
  intros Hn Hd Hw Hw'. unfold ArchiveRun.append_raw.
  destruct (seek_written num es Hn Hw) as (r & Hh & Hl & Hs). cbv zeta in Hh, Hl, Hs.
  rewrite Hh. cbn [bind]. rewrite Hs. cbn [bind]. rewrite read_written by assumption. cbn [bind].
  f_equal. f_equal.
  change (map (fun e => fst (add_chunks e)) new) with (map ser_chunks new). fold (ser_entries new).
  pose proof (write_raw_archive_len num es) as L.
  assert (P : (28 + N.to_nat (len (write_raw_archive num es) - 12 - 28))%nat = length (write_header num ++ ser_entries es)).
  { rewrite app_length, write_header_length. unfold len in L |- *. lia. }
  rewrite P. rewrite overwrite_tail.
  - rewrite !write_raw_archive_eq. rewrite (app_assoc (write_header num)).
    rewrite firstn_app_l by (apply Nat.le_refl). rewrite firstn_all.
    unfold ser_entries. rewrite map_app, concat_app, <- !app_assoc. reflexivity.
  - rewrite write_raw_archive_eq at 1. rewrite !app_length.
    assert (length finalize = 12%nat) by (vm_compute; reflexivity). lia.
Qed.

Example append_raw_ex : ArchiveRun.append_raw ex_arch (write_raw_archive 0 [ex_e2]) = Ok (write_raw_archive 7 [ex_e1; ex_e2; ex_e2], false).
Proof. vm_compute. reflexivity. Qed.
