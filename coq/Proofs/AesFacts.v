(* AesFacts.v — the AES-256 model of Model/Aes.v is a length-preserving permutation of blocks:
   aes_dec k (aes_enc k b) = b for every key and block (no length premise: Aes.v is written so that the
   degenerate cases cancel too).  This discharges the block-cipher premise of the C01 theorems for AES.
   SubBytes/InvSubBytes: 256-value check; ShiftRows: structural; MixColumns/InvMixColumns: GF(2)-linearity of
   the multiplications by constants (checked on all pairs of bytes), the 4x4 interchange of a balanced xor tree,
   and sixteen one-byte identities (the entries of InvM x M = I). *)
From PNA Require Import Base Flatten Aes BaseFacts CodecFacts CbcFacts.
Require Import ZArith ZifyN ZifyNat ZifyBool.
Open Scope N_scope.

(* ---- checks over all bytes -------------------------------------------------------------------------- *)
Lemma byte_fun_eq (F G : byte -> byte) :
  forallb (fun b => Byte.eqb (F b) (G b)) all_bytes = true -> forall b, F b = G b.
Proof.
  intros H b. apply Byte.byte_dec_bl. revert b. apply (byte_forall (fun b => Byte.eqb (F b) (G b))). exact H.
Qed.
Lemma byte_fun_eq2 (F G : byte -> byte -> byte) :
  forallb (fun a => forallb (fun b => Byte.eqb (F a b) (G a b)) all_bytes) all_bytes = true -> forall a b, F a b = G a b.
Proof.
  intros H a b. apply Byte.byte_dec_bl. revert b.
  apply (byte_forall (fun b => Byte.eqb (F a b) (G a b))). revert a.
  apply (byte_forall (fun a => forallb (fun b => Byte.eqb (F a b) (G a b)) all_bytes)). exact H.
Qed.
(* goal  L = R  with x the only byte variable that matters: check all 256 values *)
Ltac byte_check x :=
  revert x; match goal with |- forall x, @?F x = @?G x => apply (byte_fun_eq F G); vm_compute; reflexivity end.

(* ---- xor on bytes ---------------------------------------------------------------------------------------- *)
Lemma bx_invol : forall a b, bx (bx a b) b = a.
Proof. apply (byte_fun_eq2 (fun a b => bx (bx a b) b) (fun a _ => a)). vm_compute. reflexivity. Qed.

Lemma to_N_lt b : Byte.to_N b < 256.
Proof. pose proof (Byte.to_N_bounded b). lia. Qed.
Lemma to_N_bx a b : Byte.to_N (bx a b) = N.lxor (Byte.to_N a) (Byte.to_N b).
Proof.
  unfold bx. pose proof (lxor_lt_256 _ _ (to_N_lt a) (to_N_lt b)) as H.
  destruct (Byte.of_N (N.lxor (Byte.to_N a) (Byte.to_N b))) as [c|] eqn:E.
  - apply Byte.to_of_N. exact E.
  - apply Byte.of_N_None_iff in E. lia.
Qed.
Lemma to_N_inj a b : Byte.to_N a = Byte.to_N b -> a = b.
Proof. intros H. pose proof (Byte.of_to_N a) as A. rewrite H, Byte.of_to_N in A. injection A as ->. reflexivity. Qed.
Lemma bx_comm a b : bx a b = bx b a.
Proof. apply to_N_inj. rewrite !to_N_bx. apply N.lxor_comm. Qed.
Lemma bx_assoc a b c : bx (bx a b) c = bx a (bx b c).
Proof. apply to_N_inj. rewrite !to_N_bx. apply N.lxor_assoc. Qed.
(* the interchange law of a balanced tree, and the 4x4 version: rows then columns = columns then rows *)
Lemma bx_medial a b c d : bx (bx a b) (bx c d) = bx (bx a c) (bx b d).
Proof. rewrite bx_assoc, <- (bx_assoc b c d), (bx_comm b c), (bx_assoc c b d), <- bx_assoc. reflexivity. Qed.
Definition t4 (a b c d : byte) : byte := bx (bx a b) (bx c d).
Lemma grid16 a1 a2 a3 a4 b1 b2 b3 b4 c1 c2 c3 c4 d1 d2 d3 d4 :
  t4 (t4 a1 a2 a3 a4) (t4 b1 b2 b3 b4) (t4 c1 c2 c3 c4) (t4 d1 d2 d3 d4) =
  t4 (t4 a1 b1 c1 d1) (t4 a2 b2 c2 d2) (t4 a3 b3 c3 d3) (t4 a4 b4 c4 d4).
Proof.
  unfold t4.
  rewrite (bx_medial (bx a1 a2) (bx a3 a4) (bx b1 b2) (bx b3 b4)).
  rewrite (bx_medial a1 a2 b1 b2), (bx_medial a3 a4 b3 b4).
  rewrite (bx_medial (bx c1 c2) (bx c3 c4) (bx d1 d2) (bx d3 d4)).
  rewrite (bx_medial c1 c2 d1 d2), (bx_medial c3 c4 d3 d4).
  rewrite (bx_medial (bx (bx a1 b1) (bx a2 b2)) (bx (bx a3 b3) (bx a4 b4)) (bx (bx c1 d1) (bx c2 d2)) (bx (bx c3 d3) (bx c4 d4))).
  rewrite (bx_medial (bx a1 b1) (bx a2 b2) (bx c1 d1) (bx c2 d2)).
  rewrite (bx_medial (bx a3 b3) (bx a4 b4) (bx c3 d3) (bx c4 d4)).
  reflexivity.
Qed.

Lemma bxs_invol : forall s k, bxs (bxs s k) k = s.
Proof.
  induction s as [|x s IH]; intros [|y k]; try reflexivity.
  cbn [bxs]. rewrite bx_invol, IH. reflexivity.
Qed.
Lemma bxs_length : forall s k, length (bxs s k) = length s.
Proof. induction s as [|x s IH]; intros [|y k]; try reflexivity. cbn [bxs length]. rewrite IH. reflexivity. Qed.

(* ---- SubBytes, ShiftRows ---------------------------------------------------------------------------------- *)
Lemma inv_sbox_sbox b : inv_sbox (sbox b) = b.
Proof. byte_check b. Qed.
Lemma inv_sub_sub s : inv_sub_bytes (sub_bytes s) = s.
Proof.
  unfold inv_sub_bytes, sub_bytes. rewrite map_map. induction s as [|b s IH]; [reflexivity|].
  cbn [map]. rewrite inv_sbox_sbox, IH. reflexivity.
Qed.
Ltac split17 s := do 17 (destruct s as [|? s]; [reflexivity|]).
Lemma inv_shift_shift s : inv_shift_rows (shift_rows s) = s.
Proof. split17 s. reflexivity. Qed.
Lemma shift_rows_length s : length (shift_rows s) = length s.
Proof. split17 s. reflexivity. Qed.
Lemma inv_shift_rows_length s : length (inv_shift_rows s) = length s.
Proof. split17 s. reflexivity. Qed.

(* ---- MixColumns --------------------------------------------------------------------------------------------- *)
(* the multiplications by constants are additive *)
Definition additive (f : byte -> byte) : Prop := forall a b, f (bx a b) = bx (f a) (f b).
Ltac additive_check f :=
  unfold additive; apply (byte_fun_eq2 (fun a b => f (bx a b)) (fun a b => bx (f a) (f b))); vm_compute; reflexivity.
Lemma m9_add : additive m9. Proof. additive_check m9. Qed.
Lemma mb_add : additive mb. Proof. additive_check mb. Qed.
Lemma md_add : additive md. Proof. additive_check md. Qed.
Lemma me_add : additive me. Proof. additive_check me. Qed.
Lemma add_t4 f : additive f -> forall a b c d, f (t4 a b c d) = t4 (f a) (f b) (f c) (f d).
Proof. intros H a b c d. unfold t4. rewrite !H. reflexivity. Qed.

(* one output byte of InvMixColumns o MixColumns: after distributing and interchanging, every column of the grid
   is a function of one input byte, equal to that byte or to zero *)
Ltac column c v := first [ replace c with v by (symmetry; byte_check v) | replace c with x00 by (symmetry; byte_check v) ].
Lemma mix_col_t4 a b c d :
  mix_col a b c d = [t4 (xt a) (m3 b) c d; t4 a (xt b) (m3 c) d; t4 a b (xt c) (m3 d); t4 (m3 a) b c (xt d)].
Proof. reflexivity. Qed.
Lemma inv_mix_col_t4 p q r s :
  inv_mix_col p q r s = [t4 (me p) (mb q) (md r) (m9 s); t4 (m9 p) (me q) (mb r) (md s);
                         t4 (md p) (m9 q) (me r) (mb s); t4 (mb p) (md q) (m9 r) (me s)].
Proof. reflexivity. Qed.
Local Opaque t4.

Lemma inv_mix_col_mix_col a b c d :
  match mix_col a b c d with
  | [p; q; r; s] => inv_mix_col p q r s
  | _ => []
  end = [a; b; c; d].
Proof.
  rewrite mix_col_t4. cbv beta iota. rewrite inv_mix_col_t4.
  rewrite !(add_t4 _ me_add), !(add_t4 _ mb_add), !(add_t4 _ md_add), !(add_t4 _ m9_add).
  repeat f_equal; rewrite grid16;
    match goal with
    | |- t4 ?c1 ?c2 ?c3 ?c4 = ?v => column c1 a; column c2 b; column c3 c; column c4 d; byte_check v
    end.
Qed.

Lemma inv_mix_mix s : inv_mix_columns (mix_columns s) = s.
Proof.
  do 16 (destruct s as [|? s]; [reflexivity|]). destruct s as [|? s]; [|reflexivity].
  unfold mix_columns.
  repeat match goal with
  | |- context [mix_col ?a ?b ?c ?d] =>
      let H := fresh "H" in
      pose proof (inv_mix_col_mix_col a b c d) as H;
      let p := fresh "p" in
      destruct (mix_col a b c d) as [|p [|? [|? [|? [|? ?]]]]] eqn:?; try discriminate H
  end.
  cbn [app inv_mix_columns]. rewrite H, H0, H1, H2. reflexivity.
Qed.
Lemma mix_columns_length s : length (mix_columns s) = length s.
Proof. do 16 (destruct s as [|? s]; [reflexivity|]). destruct s as [|? s]; reflexivity. Qed.
Lemma inv_mix_columns_length s : length (inv_mix_columns s) = length s.
Proof. do 16 (destruct s as [|? s]; [reflexivity|]). destruct s as [|? s]; reflexivity. Qed.

(* ---- rounds ------------------------------------------------------------------------------------------------- *)
Lemma inv_round_round s rk : inv_round (round s rk) rk = s.
Proof. unfold inv_round, round. rewrite bxs_invol, inv_mix_mix, inv_shift_shift, inv_sub_sub. reflexivity. Qed.
Lemma inv_final_final s rk : inv_final_round (final_round s rk) rk = s.
Proof. unfold inv_final_round, final_round. rewrite bxs_invol, inv_shift_shift, inv_sub_sub. reflexivity. Qed.
Lemma inv_rounds_rounds : forall mid s, fold_left inv_round mid (fold_left round (rev mid) s) = s.
Proof.
  induction mid as [|rk mid IH]; intros s; [reflexivity|].
  cbn [rev]. rewrite fold_left_app. cbn [fold_left]. rewrite inv_round_round. apply IH.
Qed.

Theorem aes_dec_enc k b : aes_dec k (aes_enc k b) = b.
Proof.
  unfold aes_dec, aes_enc. destruct (round_keys k) as [|rk0 r]; [reflexivity|].
  destruct (rev r) as [|rkl mid]; [apply bxs_invol|].
  rewrite inv_final_final, inv_rounds_rounds. apply bxs_invol.
Qed.

(* ---- lengths -------------------------------------------------------------------------------------------------- *)
Lemma round_length s rk : length (round s rk) = length s.
Proof. unfold round, sub_bytes. rewrite bxs_length, mix_columns_length, shift_rows_length, map_length. reflexivity. Qed.
Lemma inv_round_length s rk : length (inv_round s rk) = length s.
Proof. unfold inv_round, inv_sub_bytes. rewrite map_length, inv_shift_rows_length, inv_mix_columns_length, bxs_length. reflexivity. Qed.
Lemma fold_round_length : forall ks s, length (fold_left round ks s) = length s.
Proof. induction ks as [|k ks IH]; intros s; [reflexivity|]. cbn [fold_left]. rewrite IH. apply round_length. Qed.
Lemma fold_inv_round_length : forall ks s, length (fold_left inv_round ks s) = length s.
Proof. induction ks as [|k ks IH]; intros s; [reflexivity|]. cbn [fold_left]. rewrite IH. apply inv_round_length. Qed.

Theorem aes_enc_length k b : length (aes_enc k b) = length b.
Proof.
  unfold aes_enc. destruct (round_keys k) as [|rk0 r]; [reflexivity|].
  destruct (rev r) as [|rkl mid]; [apply bxs_length|].
  unfold final_round, sub_bytes. rewrite bxs_length, shift_rows_length, map_length, fold_round_length. apply bxs_length.
Qed.
Theorem aes_dec_length k c : length (aes_dec k c) = length c.
Proof.
  unfold aes_dec. destruct (round_keys k) as [|rk0 r]; [reflexivity|].
  destruct (rev r) as [|rkl mid]; [apply bxs_length|].
  rewrite bxs_length, fold_inv_round_length. unfold inv_final_round, inv_sub_bytes.
  rewrite map_length, inv_shift_rows_length. apply bxs_length.
Qed.
