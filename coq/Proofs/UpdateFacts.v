(* UpdateFacts.v — facts about Model/Update.v: the effect scripts of the commands that write to
   an existing archive path (C12) and the ordered-list equations of append / update / delete (C11). *)
From PNA Require Import Base Name Update BaseFacts.
Require Import ZArith ZifyN ZifyNat ZifyBool.
Open Scope N_scope.

Lemma bytes_eqb_refl a : bytes_eqb a a = true.
Proof. apply bytes_eqb_eq. reflexivity. Qed.
Lemma bytes_eqb_neq a b : a <> b -> bytes_eqb a b = false.
Proof. intro H. destruct (bytes_eqb a b) eqn:E; auto. apply bytes_eqb_eq in E. contradiction. Qed.
Lemma bytes_eqb_false a b : bytes_eqb a b = false -> a <> b.
Proof. intros E H. subst. rewrite bytes_eqb_refl in E. discriminate. Qed.
Lemma bytes_eqb_sym a b : bytes_eqb a b = bytes_eqb b a.
Proof.
  destruct (bytes_eqb a b) eqn:E.
  - apply bytes_eqb_eq in E. subst. symmetry. apply bytes_eqb_refl.
  - symmetry. apply bytes_eqb_neq. intro. subst. rewrite bytes_eqb_refl in E. discriminate.
Qed.
Lemma mem_In x l : mem x l = true <-> In x l.
Proof.
  induction l as [|y l IH]; cbn; [split; [discriminate|tauto]|].
  rewrite orb_true_iff, IH, bytes_eqb_eq. split; intros [H|H]; auto.
Qed.
Lemma mem_nIn x l : mem x l = false <-> ~ In x l.
Proof. rewrite <- mem_In. destruct (mem x l); split; intro H; auto; try discriminate. exfalso. auto. Qed.

(* ================================================================= C12 *)
Section Atomic.
Variable target : bytes.

Lemma file_remove_other fs p q : p <> q -> file (remove fs q) p = file fs p.
Proof.
  intro H. induction fs as [|[r f] fs IH]; cbn; auto.
  destruct (bytes_eqb q r) eqn:E.
  - apply bytes_eqb_eq in E. subst r. rewrite IH. rewrite bytes_eqb_neq; auto.
  - cbn. rewrite IH. reflexivity.
Qed.
Lemma file_remove_same fs p : file (remove fs p) p = None.
Proof.
  induction fs as [|[r f] fs IH]; cbn; auto.
  destruct (bytes_eqb p r) eqn:E; auto. cbn. rewrite E. exact IH.
Qed.
Lemma file_put_same fs p f : file (put fs p f) p = Some f.
Proof. unfold put. cbn. rewrite bytes_eqb_refl. reflexivity. Qed.
Lemma file_put_other fs p q f : p <> q -> file (put fs q f) p = file fs p.
Proof. intro H. unfold put. cbn. rewrite bytes_eqb_neq by auto. apply file_remove_other; auto. Qed.

(* the paths an effect writes *)
Definition touches (x : eff) (p : bytes) : Prop :=
  match x with
  | EItem _ => False
  | ECreate q | EAdd q _ | EFinalize q => q = p
  | EMv s d => s = p \/ d = p
  end.

Lemma apply_untouched fs x p : ~ touches x p -> file (apply fs x) p = file fs p.
Proof.
  destruct x as [k|q|q e|q|s d]; cbn; intro H; auto.
  - apply file_put_other. auto.
  - destruct (file fs q); auto. apply file_put_other. auto.
  - destruct (file fs q); auto. apply file_put_other. auto.
  - destruct (file fs s); auto. rewrite file_put_other by (intro; apply H; auto).
    apply file_remove_other. intro; apply H; auto.
Qed.

Lemma run_untouched fail s p : (forall x, In x s -> ~ touches x p) ->
  forall fs, file (fst (run_script fail s fs)) p = file fs p.
Proof.
  induction s as [|x s IH]; intros H fs; cbn; auto.
  destruct x as [k|q|q e|q|s0 d];
    try (rewrite IH by (intros; apply H; right; auto); apply apply_untouched; apply H; left; auto).
  destruct (fail k); cbn; auto. apply IH. intros; apply H; right; auto.
Qed.

Lemma run_app_fail fail s1 s2 : forall fs fs1,
  run_script fail s1 fs = (fs1, false) -> run_script fail (s1 ++ s2) fs = (fs1, false).
Proof.
  induction s1 as [|x s1 IH]; intros fs fs1; cbn; [discriminate|].
  destruct x as [k|q|q e|q|s0 d]; try apply IH.
  destruct (fail k); auto.
Qed.
Lemma run_app_ok fail s1 s2 : forall fs fs1,
  run_script fail s1 fs = (fs1, true) -> run_script fail (s1 ++ s2) fs = run_script fail s2 fs1.
Proof.
  induction s1 as [|x s1 IH]; intros fs fs1; cbn.
  - intro H. inversion H. reflexivity.
  - destruct x as [k|q|q e|q|s0 d]; try apply IH.
    destruct (fail k); [discriminate|apply IH].
Qed.

Lemma run_fails k s : In (EItem k) s -> forall fs, snd (run_script (Nat.eqb k) s fs) = false.
Proof.
  induction s as [|x s IH]; cbn; [tauto|]. intros [H|H] fs.
  - subst x. rewrite Nat.eqb_refl. reflexivity.
  - destruct x as [j|q|q e|q|s0 d]; try (apply IH; auto).
    destruct (Nat.eqb k j); auto.
Qed.

(* a script all of whose effects before the last one leave the target alone, failing at an item *)
Lemma atomic_prefix s last k fs :
  (forall x, In x s -> ~ touches x target) -> In (EItem k) s ->
  file (run_failing (s ++ [last]) fs k) target = file fs target.
Proof.
  intros Hs Hk. unfold run_failing.
  pose proof (run_fails k s Hk fs) as Hf.
  destruct (run_script (Nat.eqb k) s fs) as [fs1 b] eqn:E. cbn in Hf. subst b.
  rewrite (run_app_fail _ _ _ _ _ E). cbn.
  change fs1 with (fst (fs1, false)). rewrite <- E. apply run_untouched. exact Hs.
Qed.

Lemma In_rewrite_body tmp tr a : forall k x, In x (rewrite_body tmp tr a k) -> ~ touches x target \/ tmp = target.
Proof.
  induction a as [|e a IH]; cbn; [tauto|]. intros k x [H|H].
  - subst x. left. cbn. tauto.
  - apply in_app_or in H. destruct H as [H|H]; [|eapply IH; eauto].
    destruct (tr e); cbn in H; [|tauto]. destruct H as [H|[]]. subst x. cbn.
    destruct (list_eq_dec Byte.byte_eq_dec tmp target); auto.
Qed.

Theorem rewrite_atomic tmp tr a k fs : tmp <> target ->
  fails_at (rewrite_script tmp target tr a) k ->
  file (run_failing (rewrite_script tmp target tr a) fs k) target = file fs target.
Proof.
  intros Hne Hk. unfold rewrite_script in *.
  replace (ECreate tmp :: rewrite_body tmp tr a 0 ++ [EFinalize tmp; EMv tmp target])
    with ((ECreate tmp :: rewrite_body tmp tr a 0 ++ [EFinalize tmp]) ++ [EMv tmp target]) in *
    by (cbn; rewrite <- app_assoc; reflexivity).
  apply atomic_prefix.
  - intros x [H|H]; [subst x; cbn; auto|].
    apply in_app_or in H. destruct H as [H|[H|[]]].
    + destruct (In_rewrite_body _ _ _ _ _ H); auto; try contradiction.
    + subst x. cbn. auto.
  - unfold fails_at in Hk. apply in_app_or in Hk. destruct Hk as [Hk|[Hk|[]]]; [exact Hk|discriminate].
Qed.

Lemma In_pass_body tmp a : forall kept k x, In x (pass_body tmp a kept k) -> x = EItem (match x with EItem j => j | _ => O end) \/ exists e, x = EAdd tmp e.
Proof.
  induction a as [|e a IH]; intros [|b kept] k x; cbn; try tauto. intros [H|H].
  - subst x. left. reflexivity.
  - apply in_app_or in H. destruct H as [H|H]; [|eapply IH; eauto].
    destruct b; cbn in H; [|tauto]. destruct H as [H|[]]. right. eauto.
Qed.
Lemma In_new_body p new : forall k x, In x (new_body p new k) -> x = EItem (match x with EItem j => j | _ => O end) \/ exists e, x = EAdd p e.
Proof.
  induction new as [|e new IH]; cbn; [tauto|]. intros k x [H|[H|H]].
  - subst x. left. reflexivity.
  - right. eauto.
  - eapply IH; eauto.
Qed.

Theorem update_atomic tmp a kept new k fs : tmp <> target ->
  fails_at (update_script tmp target a kept new) k ->
  file (run_failing (update_script tmp target a kept new) fs k) target = file fs target.
Proof.
  intros Hne Hk. unfold update_script in *.
  replace (ECreate tmp :: pass_body tmp a kept 0 ++ new_body tmp new (length a) ++ [EFinalize tmp; EMv tmp target])
    with ((ECreate tmp :: pass_body tmp a kept 0 ++ new_body tmp new (length a) ++ [EFinalize tmp]) ++ [EMv tmp target]) in *
    by (cbn; rewrite <- !app_assoc; reflexivity).
  apply atomic_prefix.
  - intros x [H|H]; [subst x; cbn; auto|].
    apply in_app_or in H. destruct H as [H|H].
    + destruct (In_pass_body _ _ _ _ _ H) as [E|[e E]]; rewrite E; cbn; auto.
    + apply in_app_or in H. destruct H as [H|[H|[]]].
      * destruct (In_new_body _ _ _ _ H) as [E|[e E]]; rewrite E; cbn; auto.
      * subst x. cbn. auto.
  - unfold fails_at in Hk. apply in_app_or in Hk. destruct Hk as [Hk|[Hk|[]]]; [exact Hk|discriminate].
Qed.

(* the repaired append: nothing at all is written before every item has been built *)
Lemma run_items_fail k : forall n j fs, In (EItem k) (items_from j n) ->
  run_script (Nat.eqb k) (items_from j n) fs = (fs, false).
Proof.
  induction n as [|n IH]; cbn; [tauto|]. intros j fs [H|H].
  - inversion H. subst. rewrite Nat.eqb_refl. reflexivity.
  - destruct (Nat.eqb k j); auto.
Qed.
Theorem append_atomic new k fs :
  fails_at (append_script target new) k -> run_failing (append_script target new) fs k = fs.
Proof.
  unfold fails_at, append_script, run_failing. intro H.
  assert (Hi : In (EItem k) (items_from 0 (length new))).
  { apply in_app_or in H. destruct H as [H|H]; auto.
    apply in_app_or in H. destruct H as [H|[H|[]]]; [|discriminate].
    unfold adds in H. apply in_map_iff in H. destruct H as [e [E _]]. discriminate. }
  rewrite (run_app_fail _ _ _ _ _ (run_items_fail k _ _ fs Hi)). reflexivity.
Qed.

(* ---- success: what is at the target path when no item fails ---- *)
Definition nofail : nat -> bool := fun _ => false.

Lemma apply_add fs p e acc b : file fs p = Some (mkF acc b) ->
  apply fs (EAdd p e) = put fs p (mkF (acc ++ [e]) false).
Proof. intro H. unfold apply. rewrite H. reflexivity. Qed.

Lemma apply_finalize fs p acc b : file fs p = Some (mkF acc b) ->
  apply fs (EFinalize p) = put fs p (mkF acc true).
Proof. intro H. unfold apply. rewrite H. reflexivity. Qed.
Lemma apply_mv fs s d f : file fs s = Some f -> apply fs (EMv s d) = put (remove fs s) d f.
Proof. intro H. unfold apply. rewrite H. reflexivity. Qed.

Lemma run_rewrite_body tmp tr a : forall k fs acc,
  file fs tmp = Some (mkF acc false) ->
  exists fs', run_script nofail (rewrite_body tmp tr a k) fs = (fs', true)
              /\ file fs' tmp = Some (mkF (acc ++ transformed tr a) false)
              /\ (forall p, p <> tmp -> file fs' p = file fs p).
Proof.
  induction a as [|e a IH]; intros k fs acc H; cbn -[apply].
  - exists fs. rewrite app_nil_r. auto.
  - destruct (tr e) as [e'|]; cbn -[apply].
    + rewrite (apply_add _ _ _ _ _ H). destruct (IH (S k) (put fs tmp (mkF (acc ++ [e']) false)) (acc ++ [e'])) as [fs' [R [F O]]].
      { apply file_put_same. }
      exists fs'. rewrite R. split; auto. split.
      * rewrite F. rewrite <- app_assoc. reflexivity.
      * intros p Hp. rewrite O by auto. apply file_put_other. auto.
    + destruct (IH (S k) fs acc H) as [fs' [R [F O]]]. exists fs'. auto.
Qed.

Theorem rewrite_success tmp tr a fs : tmp <> target ->
  let fs' := run_ok (rewrite_script tmp target tr a) fs in
  file fs' target = Some (mkF (transformed tr a) true) /\ file fs' tmp = None.
Proof.
  intros Hne. cbn zeta. unfold run_ok, rewrite_script. fold nofail.
  change (run_script nofail (ECreate tmp :: rewrite_body tmp tr a 0 ++ [EFinalize tmp; EMv tmp target]) fs)
    with (run_script nofail (rewrite_body tmp tr a 0 ++ [EFinalize tmp; EMv tmp target]) (put fs tmp (mkF [] false))).
  destruct (run_rewrite_body tmp tr a 0 (put fs tmp (mkF [] false)) []) as [fs1 [R [F O]]].
  { apply file_put_same. }
  rewrite (run_app_ok _ _ _ _ _ R). cbn -[apply].
  rewrite (apply_finalize _ _ _ _ F). rewrite (apply_mv _ _ _ _ (file_put_same _ _ _)). split.
  - apply file_put_same.
  - rewrite file_put_other by auto. apply file_remove_same.
Qed.

Lemma run_adds p new : forall fs acc b,
  file fs p = Some (mkF acc b) ->
  exists fs', run_script nofail (adds p new) fs = (fs', true)
              /\ file fs' p = Some (mkF (acc ++ new) (match new with [] => b | _ => false end))
              /\ (forall q, q <> p -> file fs' q = file fs q).
Proof.
  induction new as [|e new IH]; intros fs acc b H; cbn -[apply].
  - exists fs. rewrite app_nil_r. auto.
  - rewrite (apply_add _ _ _ _ _ H). destruct (IH (put fs p (mkF (acc ++ [e]) false)) (acc ++ [e]) false) as [fs' [R [F O]]].
    { apply file_put_same. }
    exists fs'. split; auto. split.
    + rewrite F, <- app_assoc. cbn. destruct new; reflexivity.
    + intros q Hq. rewrite O by auto. apply file_put_other. auto.
Qed.
Lemma run_items_ok : forall n j fs, run_script nofail (items_from j n) fs = (fs, true).
Proof. induction n; cbn; auto. Qed.

Theorem append_success a new fs :
  file fs target = Some (mkF a true) ->
  file (run_ok (append_script target new) fs) target = Some (mkF (append a new) true).
Proof.
  intro H. unfold run_ok, append_script. fold nofail.
  rewrite (run_app_ok _ _ _ _ _ (run_items_ok _ _ fs)).
  destruct (run_adds target new fs a true H) as [fs' [R [F O]]].
  rewrite (run_app_ok _ _ _ _ _ R). cbn -[apply].
  rewrite (apply_finalize _ _ _ _ F). apply file_put_same.
Qed.

(* update: the entries written as they are, then the re-created and the new ones *)
Fixpoint select (a : archive) (flags : list bool) : archive :=
  match a, flags with
  | e :: r, b :: br => (if b then [e] else []) ++ select r br
  | _, _ => []
  end.

Lemma run_pass_body tmp a : forall kept k fs acc,
  file fs tmp = Some (mkF acc false) ->
  exists fs', run_script nofail (pass_body tmp a kept k) fs = (fs', true)
              /\ file fs' tmp = Some (mkF (acc ++ select a kept) false).
Proof.
  induction a as [|e a IH]; intros [|b kept] k fs acc H; cbn;
    try (exists fs; rewrite app_nil_r; auto; fail).
  destruct b; cbn -[apply].
  - rewrite (apply_add _ _ _ _ _ H). destruct (IH kept (S k) (put fs tmp (mkF (acc ++ [e]) false)) (acc ++ [e])) as [fs' [R F]].
    { apply file_put_same. }
    exists fs'. split; auto. rewrite F, <- app_assoc. reflexivity.
  - apply IH. exact H.
Qed.
Lemma run_new_body tmp new : forall k fs acc,
  file fs tmp = Some (mkF acc false) ->
  exists fs', run_script nofail (new_body tmp new k) fs = (fs', true)
              /\ file fs' tmp = Some (mkF (acc ++ new) false).
Proof.
  induction new as [|e new IH]; intros k fs acc H; cbn -[apply].
  - exists fs. rewrite app_nil_r. auto.
  - rewrite (apply_add _ _ _ _ _ H). destruct (IH (S k) (put fs tmp (mkF (acc ++ [e]) false)) (acc ++ [e])) as [fs' [R F]].
    { apply file_put_same. }
    exists fs'. split; auto. rewrite F, <- app_assoc. reflexivity.
Qed.

Theorem update_success tmp a kept new fs : tmp <> target ->
  let fs' := run_ok (update_script tmp target a kept new) fs in
  file fs' target = Some (mkF (select a kept ++ new) true) /\ file fs' tmp = None.
Proof.
  intros Hne. cbn zeta. unfold run_ok, update_script. fold nofail.
  change (run_script nofail (ECreate tmp :: pass_body tmp a kept 0 ++ new_body tmp new (length a) ++ [EFinalize tmp; EMv tmp target]) fs)
    with (run_script nofail (pass_body tmp a kept 0 ++ new_body tmp new (length a) ++ [EFinalize tmp; EMv tmp target]) (put fs tmp (mkF [] false))).
  destruct (run_pass_body tmp a kept 0 (put fs tmp (mkF [] false)) []) as [fs1 [R1 F1]].
  { apply file_put_same. }
  rewrite (run_app_ok _ _ _ _ _ R1).
  destruct (run_new_body tmp new (length a) fs1 _ F1) as [fs2 [R2 F2]].
  rewrite (run_app_ok _ _ _ _ _ R2). cbn -[apply].
  rewrite (apply_finalize _ _ _ _ F2). rewrite (apply_mv _ _ _ _ (file_put_same _ _ _)). split.
  - apply file_put_same.
  - rewrite file_put_other by auto. apply file_remove_same.
Qed.
End Atomic.

(* the flags of the pass select exactly the entries the pass keeps *)
Lemma select_pass_flags excl cond a : forall targets refreshed,
  select a (pass_flags excl cond a targets refreshed) = fst (fst (update_pass excl cond a targets refreshed)).
Proof.
  induction a as [|e a IH]; intros targets refreshed; cbn; auto.
  destruct (find (names_entry e) targets) as [n|].
  - destruct (negb (mem (e_path e) excl) && cond_holds cond e n); cbn; rewrite IH;
      destruct (update_pass excl cond a _ _) as [[k j] t]; reflexivity.
  - destruct (mem (e_path e) refreshed); cbn; rewrite IH; [reflexivity|].
    destruct (update_pass excl cond a _ _) as [[k j] t]; reflexivity.
Qed.

(* D14 as it was: the k-th input (k > 0) fails after earlier entries have overwritten the end marker *)
Definition d14_a : archive := [mkE (lit "d/a") 0 (lit "one") None].
Definition d14_new : list entry := [mkE (lit "d/b") 0 (lit "two") None; mkE (lit "d/fifo") 0 [] None].
Lemma append_unrepaired_breaks :
  exists a new k, fails_at (append_script_orig (lit "x.pna") new) k /\
    result_file (mkF a true) (run_failing (append_script_orig (lit "x.pna") new) [(lit "x.pna", mkF a true)] k) (lit "x.pna") = Broken.
Proof.
  exists d14_a, d14_new, 1%nat. split.
  - unfold fails_at. cbn. auto.
  - vm_compute. reflexivity.
Qed.
