(* UpdateFacts.v — facts about Model/Update.v: the effect scripts of the commands that write to
   an existing archive path (C12) and the ordered-list equations of append / update / delete (C11). *)
From PNA Require Import Base Name Update BaseFacts.
Require Import ZArith ZifyN ZifyNat ZifyBool.
Open Scope N_scope.

Lemma bytes_eqb_refl a : bytes_eqb a a = true.
Proof. apply bytes_eqb_eq. reflexivity. Qed.
Lemma bytes_eqb_neq a b : a <> b -> bytes_eqb a b = false.
Proof. intro H. destruct (bytes_eqb a b) eqn:E; auto. apply bytes_eqb_eq in E. contradiction. Qed.
Lemma bytes_eqb_false a b : bytes_eqb a b = false -> a <> b.
Proof. intros E H. subst. rewrite bytes_eqb_refl in E. discriminate. Qed.
Lemma bytes_eqb_sym a b : bytes_eqb a b = bytes_eqb b a.
Proof.
  destruct (bytes_eqb a b) eqn:E.
  - apply bytes_eqb_eq in E. subst. symmetry. apply bytes_eqb_refl.
  - symmetry. apply bytes_eqb_neq. intro. subst. rewrite bytes_eqb_refl in E. discriminate.
Qed.
Lemma mem_In x l : mem x l = true <-> In x l.
Proof.
  induction l as [|y l IH]; cbn; [split; [discriminate|tauto]|].
  rewrite orb_true_iff, IH, bytes_eqb_eq. split; intros [H|H]; auto.
Qed.
Lemma mem_nIn x l : mem x l = false <-> ~ In x l.
Proof. rewrite <- mem_In. destruct (mem x l); split; intro H; auto; try discriminate. exfalso. auto. Qed.

(* ================================================================= C12 *)
Section Atomic.
Variable target : bytes.

Lemma file_remove_other fs p q : p <> q -> file (remove fs q) p = file fs p.
Proof.
  intro H. induction fs as [|[r f] fs IH]; cbn; auto.
  destruct (bytes_eqb q r) eqn:E.
  - apply bytes_eqb_eq in E. subst r. rewrite IH. rewrite bytes_eqb_neq; auto.
  - cbn. rewrite IH. reflexivity.
Qed.
Lemma file_remove_same fs p : file (remove fs p) p = None.
Proof.
  induction fs as [|[r f] fs IH]; cbn; auto.
  destruct (bytes_eqb p r) eqn:E; auto. cbn. rewrite E. exact IH.
Qed.
Lemma file_put_same fs p f : file (put fs p f) p = Some f.
Proof. unfold put. cbn. rewrite bytes_eqb_refl. reflexivity. Qed.
Lemma file_put_other fs p q f : p <> q -> file (put fs q f) p = file fs p.
Proof. intro H. unfold put. cbn. rewrite bytes_eqb_neq by auto. apply file_remove_other; auto. Qed.

(* the paths an effect writes *)
Definition touches (x : eff) (p : bytes) : Prop :=
  match x with
  | EItem _ => False
  | ECreate q | EAdd q _ | EFinalize q => q = p
  | EMv s d => s = p \/ d = p
  end.

Lemma apply_untouched fs x p : ~ touches x p -> file (apply fs x) p = file fs p.
Proof.
  destruct x as [k|q|q e|q|s d]; cbn; intro H; auto.
  - apply file_put_other. auto.
  - destruct (file fs q); auto. apply file_put_other. auto.
  - destruct (file fs q); auto. apply file_put_other. auto.
  - destruct (file fs s); auto. rewrite file_put_other by (intro; apply H; auto).
    apply file_remove_other. intro; apply H; auto.
Qed.

Lemma run_untouched fail s p : (forall x, In x s -> ~ touches x p) ->
  forall fs, file (fst (run_script fail s fs)) p = file fs p.
Proof.
  induction s as [|x s IH]; intros H fs; cbn; auto.
  destruct x as [k|q|q e|q|s0 d];
    try (rewrite IH by (intros; apply H; right; auto); apply apply_untouched; apply H; left; auto).
  destruct (fail k); cbn; auto. apply IH. intros; apply H; right; auto.
Qed.

Lemma run_app_fail fail s1 s2 : forall fs fs1,
  run_script fail s1 fs = (fs1, false) -> run_script fail (s1 ++ s2) fs = (fs1, false).
Proof.
  induction s1 as [|x s1 IH]; intros fs fs1; cbn; [discriminate|].
  destruct x as [k|q|q e|q|s0 d]; try apply IH.
  destruct (fail k); auto.
Qed.
Lemma run_app_ok fail s1 s2 : forall fs fs1,
  run_script fail s1 fs = (fs1, true) -> run_script fail (s1 ++ s2) fs = run_script fail s2 fs1.
Proof.
  induction s1 as [|x s1 IH]; intros fs fs1; cbn.
  - intro H. inversion H. reflexivity.
  - destruct x as [k|q|q e|q|s0 d]; try apply IH.
    destruct (fail k); [discriminate|apply IH].
Qed.

Lemma run_fails k s : In (EItem k) s -> forall fs, snd (run_script (Nat.eqb k) s fs) = false.
Proof.
  induction s as [|x s IH]; cbn; [tauto|]. intros [H|H] fs.
  - subst x. rewrite Nat.eqb_refl. reflexivity.
  - destruct x as [j|q|q e|q|s0 d]; try (apply IH; auto).
    destruct (Nat.eqb k j); auto.
Qed.

(* a script all of whose effects before the last one leave the target alone, failing at an item *)
Lemma atomic_prefix s last k fs :
  (forall x, In x s -> ~ touches x target) -> In (EItem k) s ->
  file (run_failing (s ++ [last]) fs k) target = file fs target.
Proof.
  intros Hs Hk. unfold run_failing.
  pose proof (run_fails k s Hk fs) as Hf.
  destruct (run_script (Nat.eqb k) s fs) as [fs1 b] eqn:E. cbn in Hf. subst b.
  rewrite (run_app_fail _ _ _ _ _ E). cbn.
  change fs1 with (fst (fs1, false)). rewrite <- E. apply run_untouched. exact Hs.
Qed.

Lemma In_rewrite_body tmp tr a : forall k x, In x (rewrite_body tmp tr a k) -> ~ touches x target \/ tmp = target.
Proof.
  induction a as [|e a IH]; cbn; [tauto|]. intros k x [H|H].
  - subst x. left. cbn. tauto.
  - apply in_app_or in H. destruct H as [H|H]; [|eapply IH; eauto].
    destruct (tr e); cbn in H; [|tauto]. destruct H as [H|[]]. subst x. cbn.
    destruct (list_eq_dec Byte.byte_eq_dec tmp target); auto.
Qed.

Theorem rewrite_atomic tmp tr a k fs : tmp <> target ->
  fails_at (rewrite_script tmp target tr a) k ->
  file (run_failing (rewrite_script tmp target tr a) fs k) target = file fs target.
Proof.
  intros Hne Hk. unfold rewrite_script in *.
  replace (ECreate tmp :: rewrite_body tmp tr a 0 ++ [EFinalize tmp; EMv tmp target])
    with ((ECreate tmp :: rewrite_body tmp tr a 0 ++ [EFinalize tmp]) ++ [EMv tmp target]) in *
    by (cbn; rewrite <- app_assoc; reflexivity).
  apply atomic_prefix.
  - intros x [H|H]; [subst x; cbn; auto|].
    apply in_app_or in H. destruct H as [H|[H|[]]].
    + destruct (In_rewrite_body _ _ _ _ _ H); auto; try contradiction.
    + subst x. cbn. auto.
  - unfold fails_at in Hk. apply in_app_or in Hk. destruct Hk as [Hk|[Hk|[]]]; [exact Hk|discriminate].
Qed.

Lemma In_pass_body tmp a : forall kept k x, In x (pass_body tmp a kept k) -> x = EItem (match x with EItem j => j | _ => O end) \/ exists e, x = EAdd tmp e.
Proof.
  induction a as [|e a IH]; intros [|b kept] k x; cbn; try tauto. intros [H|H].
  - subst x. left. reflexivity.
  - apply in_app_or in H. destruct H as [H|H]; [|eapply IH; eauto].
    destruct b; cbn in H; [|tauto]. destruct H as [H|[]]. right. eauto.
Qed.
Lemma In_new_body p new : forall k x, In x (new_body p new k) -> x = EItem (match x with EItem j => j | _ => O end) \/ exists e, x = EAdd p e.
Proof.
  induction new as [|e new IH]; cbn; [tauto|]. intros k x [H|[H|H]].
  - subst x. left. reflexivity.
  - right. eauto.
  - eapply IH; eauto.
Qed.

Theorem update_atomic tmp a kept new k fs : tmp <> target ->
  fails_at (update_script tmp target a kept new) k ->
  file (run_failing (update_script tmp target a kept new) fs k) target = file fs target.
Proof.
  intros Hne Hk. unfold update_script in *.
  replace (ECreate tmp :: pass_body tmp a kept 0 ++ new_body tmp new (length a) ++ [EFinalize tmp; EMv tmp target])
    with ((ECreate tmp :: pass_body tmp a kept 0 ++ new_body tmp new (length a) ++ [EFinalize tmp]) ++ [EMv tmp target]) in *
    by (cbn; rewrite <- !app_assoc; reflexivity).
  apply atomic_prefix.
  - intros x [H|H]; [subst x; cbn; auto|].
    apply in_app_or in H. destruct H as [H|H].
    + destruct (In_pass_body _ _ _ _ _ H) as [E|[e E]]; rewrite E; cbn; auto.
    + apply in_app_or in H. destruct H as [H|[H|[]]].
      * destruct (In_new_body _ _ _ _ H) as [E|[e E]]; rewrite E; cbn; auto.
      * subst x. cbn. auto.
  - unfold fails_at in Hk. apply in_app_or in Hk. destruct Hk as [Hk|[Hk|[]]]; [exact Hk|discriminate].
Qed.

(* the repaired append: nothing at all is written before every item has been built *)
Lemma run_items_fail k : forall n j fs, In (EItem k) (items_from j n) ->
  run_script (Nat.eqb k) (items_from j n) fs = (fs, false).
Proof.
  induction n as [|n IH]; cbn; [tauto|]. intros j fs [H|H].
  - inversion H. subst. rewrite Nat.eqb_refl. reflexivity.
  - destruct (Nat.eqb k j); auto.
Qed.
Theorem append_atomic new k fs :
  fails_at (append_script target new) k -> run_failing (append_script target new) fs k = fs.
Proof.
  unfold fails_at, append_script, run_failing. intro H.
  assert (Hi : In (EItem k) (items_from 0 (length new))).
  { apply in_app_or in H. destruct H as [H|H]; auto.
    apply in_app_or in H. destruct H as [H|[H|[]]]; [|discriminate].
    unfold adds in H. apply in_map_iff in H. destruct H as [e [E _]]. discriminate. }
  rewrite (run_app_fail _ _ _ _ _ (run_items_fail k _ _ fs Hi)). reflexivity.
Qed.

(* ---- success: what is at the target path when no item fails ---- *)
Definition nofail : nat -> bool := fun _ => false.

Lemma apply_add fs p e acc b : file fs p = Some (mkF acc b) ->
  apply fs (EAdd p e) = put fs p (mkF (acc ++ [e]) false).
Proof. intro H. unfold apply. rewrite H. reflexivity. Qed.

Lemma apply_finalize fs p acc b : file fs p = Some (mkF acc b) ->
  apply fs (EFinalize p) = put fs p (mkF acc true).
Proof. intro H. unfold apply. rewrite H. reflexivity. Qed.
Lemma apply_mv fs s d f : file fs s = Some f -> apply fs (EMv s d) = put (remove fs s) d f.
Proof. intro H. unfold apply. rewrite H. reflexivity. Qed.

Lemma run_rewrite_body tmp tr a : forall k fs acc,
  file fs tmp = Some (mkF acc false) ->
  exists fs', run_script nofail (rewrite_body tmp tr a k) fs = (fs', true)
              /\ file fs' tmp = Some (mkF (acc ++ transformed tr a) false)
              /\ (forall p, p <> tmp -> file fs' p = file fs p).
Proof.
  induction a as [|e a IH]; intros k fs acc H; cbn -[apply].
  - exists fs. rewrite app_nil_r. auto.
  - destruct (tr e) as [e'|]; cbn -[apply].
    + rewrite (apply_add _ _ _ _ _ H). destruct (IH (S k) (put fs tmp (mkF (acc ++ [e']) false)) (acc ++ [e'])) as [fs' [R [F O]]].
      { apply file_put_same. }
      exists fs'. rewrite R. split; auto. split.
      * rewrite F. rewrite <- app_assoc. reflexivity.
      * intros p Hp. rewrite O by auto. apply file_put_other. auto.
    + destruct (IH (S k) fs acc H) as [fs' [R [F O]]]. exists fs'. auto.
Qed.

Theorem rewrite_success tmp tr a fs : tmp <> target ->
  let fs' := run_ok (rewrite_script tmp target tr a) fs in
  file fs' target = Some (mkF (transformed tr a) true) /\ file fs' tmp = None.
Proof.
  intros Hne. cbn zeta. unfold run_ok, rewrite_script. fold nofail.
  change (run_script nofail (ECreate tmp :: rewrite_body tmp tr a 0 ++ [EFinalize tmp; EMv tmp target]) fs)
    with (run_script nofail (rewrite_body tmp tr a 0 ++ [EFinalize tmp; EMv tmp target]) (put fs tmp (mkF [] false))).
  destruct (run_rewrite_body tmp tr a 0 (put fs tmp (mkF [] false)) []) as [fs1 [R [F O]]].
  { apply file_put_same. }
  rewrite (run_app_ok _ _ _ _ _ R). cbn -[apply].
  rewrite (apply_finalize _ _ _ _ F). rewrite (apply_mv _ _ _ _ (file_put_same _ _ _)). split.
  - apply file_put_same.
  - rewrite file_put_other by auto. apply file_remove_same.
Qed.

Lemma run_adds p new : forall fs acc b,
  file fs p = Some (mkF acc b) ->
  exists fs', run_script nofail (adds p new) fs = (fs', true)
              /\ file fs' p = Some (mkF (acc ++ new) (match new with [] => b | _ => false end))
              /\ (forall q, q <> p -> file fs' q = file fs q).
Proof.
  induction new as [|e new IH]; intros fs acc b H; cbn -[apply].
  - exists fs. rewrite app_nil_r. auto.
  - rewrite (apply_add _ _ _ _ _ H). destruct (IH (put fs p (mkF (acc ++ [e]) false)) (acc ++ [e]) false) as [fs' [R [F O]]].
    { apply file_put_same. }
    exists fs'. split; auto. split.
    + rewrite F, <- app_assoc. cbn. destruct new; reflexivity.
    + intros q Hq. rewrite O by auto. apply file_put_other. auto.
Qed.
Lemma run_items_ok : forall n j fs, run_script nofail (items_from j n) fs = (fs, true).
Proof. induction n; cbn; auto. Qed.

Theorem append_success a new fs :
  file fs target = Some (mkF a true) ->
  file (run_ok (append_script target new) fs) target = Some (mkF (append a new) true).
Proof.
  intro H. unfold run_ok, append_script. fold nofail.
  rewrite (run_app_ok _ _ _ _ _ (run_items_ok _ _ fs)).
  destruct (run_adds target new fs a true H) as [fs' [R [F O]]].
  rewrite (run_app_ok _ _ _ _ _ R). cbn -[apply].
  rewrite (apply_finalize _ _ _ _ F). apply file_put_same.
Qed.

(* update: the entries written as they are, then the re-created and the new ones *)
Fixpoint select (a : archive) (flags : list bool) : archive :=
  match a, flags with
  | e :: r, b :: br => (if b then [e] else []) ++ select r br
  | _, _ => []
  end.

Lemma run_pass_body tmp a : forall kept k fs acc,
  file fs tmp = Some (mkF acc false) ->
  exists fs', run_script nofail (pass_body tmp a kept k) fs = (fs', true)
              /\ file fs' tmp = Some (mkF (acc ++ select a kept) false).
Proof.
  induction a as [|e a IH]; intros [|b kept] k fs acc H; cbn;
    try (exists fs; rewrite app_nil_r; auto; fail).
  destruct b; cbn -[apply].
  - rewrite (apply_add _ _ _ _ _ H). destruct (IH kept (S k) (put fs tmp (mkF (acc ++ [e]) false)) (acc ++ [e])) as [fs' [R F]].
    { apply file_put_same. }
    exists fs'. split; auto. rewrite F, <- app_assoc. reflexivity.
  - apply IH. exact H.
Qed.
Lemma run_new_body tmp new : forall k fs acc,
  file fs tmp = Some (mkF acc false) ->
  exists fs', run_script nofail (new_body tmp new k) fs = (fs', true)
              /\ file fs' tmp = Some (mkF (acc ++ new) false).
Proof.
  induction new as [|e new IH]; intros k fs acc H; cbn -[apply].
  - exists fs. rewrite app_nil_r. auto.
  - rewrite (apply_add _ _ _ _ _ H). destruct (IH (S k) (put fs tmp (mkF (acc ++ [e]) false)) (acc ++ [e])) as [fs' [R F]].
    { apply file_put_same. }
    exists fs'. split; auto. rewrite F, <- app_assoc. reflexivity.
Qed.

Theorem update_success tmp a kept new fs : tmp <> target ->
  let fs' := run_ok (update_script tmp target a kept new) fs in
  file fs' target = Some (mkF (select a kept ++ new) true) /\ file fs' tmp = None.
Proof.
  intros Hne. cbn zeta. unfold run_ok, update_script. fold nofail.
  change (run_script nofail (ECreate tmp :: pass_body tmp a kept 0 ++ new_body tmp new (length a) ++ [EFinalize tmp; EMv tmp target]) fs)
    with (run_script nofail (pass_body tmp a kept 0 ++ new_body tmp new (length a) ++ [EFinalize tmp; EMv tmp target]) (put fs tmp (mkF [] false))).
  destruct (run_pass_body tmp a kept 0 (put fs tmp (mkF [] false)) []) as [fs1 [R1 F1]].
  { apply file_put_same. }
  rewrite (run_app_ok _ _ _ _ _ R1).
  destruct (run_new_body tmp new (length a) fs1 _ F1) as [fs2 [R2 F2]].
  rewrite (run_app_ok _ _ _ _ _ R2). cbn -[apply].
  rewrite (apply_finalize _ _ _ _ F2). rewrite (apply_mv _ _ _ _ (file_put_same _ _ _)). split.
  - apply file_put_same.
  - rewrite file_put_other by auto. apply file_remove_same.
Qed.
End Atomic.

(* the flags of the pass select exactly the entries the pass keeps *)
Lemma select_pass_flags excl cond a : forall targets refreshed,
  select a (pass_flags excl cond a targets refreshed) = fst (fst (update_pass excl cond a targets refreshed)).
Proof.
  induction a as [|e a IH]; intros targets refreshed; cbn; auto.
  destruct (find (names_entry e) targets) as [n|].
  - destruct (negb (mem (e_path e) excl) && cond_holds cond e n); cbn; rewrite IH;
      destruct (update_pass excl cond a _ _) as [[k j] t]; reflexivity.
  - destruct (mem (e_path e) refreshed); cbn; rewrite IH; [reflexivity|].
    destruct (update_pass excl cond a _ _) as [[k j] t]; reflexivity.
Qed.

(* D14 as it was: the k-th input (k > 0) fails after earlier entries have overwritten the end marker *)
Definition d14_a : archive := [mkE (lit "d/a") 0 (lit "one") None].
Definition d14_new : list entry := [mkE (lit "d/b") 0 (lit "two") None; mkE (lit "d/fifo") 0 [] None].
Lemma append_unrepaired_breaks :
  exists a new k, fails_at (append_script_orig (lit "x.pna") new) k /\
    result_file (mkF a true) (run_failing (append_script_orig (lit "x.pna") new) [(lit "x.pna", mkF a true)] k) (lit "x.pna") = Broken.
Proof.
  exists d14_a, d14_new, 1%nat. split.
  - unfold fails_at. cbn. auto.
  - vm_compute. reflexivity.
Qed.

(* ================================================================= C11 *)
Lemma append_spec a new : append a new = a ++ new.
Proof. reflexivity. Qed.

(* collect_items since 4cfc8ff5: the items are the walked paths that pass, one per entry name *)
Lemma collect_ok kd walk items : collect kd walk = Ok items -> items = update_targets kd walk.
Proof. unfold collect. destruct (existsb missing walk); intro H; inversion H. reflexivity. Qed.
Lemma collect_orig_ok kd walk items : collect_orig kd walk = Ok items -> items = filter (wanted kd) walk.
Proof. unfold collect_orig. destruct (existsb missing walk); intro H; inversion H. reflexivity. Qed.
Lemma build_ok kt ns es : build kt ns = Ok es -> es = map (fresh kt) ns.
Proof. unfold build. destruct (forallb creatable ns); intro H; inversion H. reflexivity. Qed.

Theorem create_cmd_spec kd kt walk a' :
  create_cmd kd kt walk = Ok a' -> a' = map (fresh kt) (update_targets kd walk).
Proof.
  unfold create_cmd. destruct (collect kd walk) as [items| |] eqn:C; cbn; try discriminate.
  intro B. apply collect_ok in C. apply build_ok in B. subst. reflexivity.
Qed.
Theorem append_cmd_spec kd kt a walk a' :
  append_cmd kd kt a walk = Ok a' -> a' = a ++ map (fresh kt) (update_targets kd walk).
Proof.
  unfold append_cmd. destruct (collect kd walk) as [items| |] eqn:C; cbn; try discriminate.
  destruct (build kt items) as [new| |] eqn:B; cbn; try discriminate.
  intro H. inversion H. apply collect_ok in C. apply build_ok in B. subst. reflexivity.
Qed.

Lemma find_names e targets n : find (names_entry e) targets = Some n -> In n targets /\ node_name n = e_path e.
Proof. intro H. apply find_some in H. destruct H as [H1 H2]. split; auto. apply bytes_eqb_eq. exact H2. Qed.
Lemma find_none_names e targets : find (names_entry e) targets = None -> ~ In (e_path e) (map node_name targets).
Proof.
  intros H Hin. apply in_map_iff in Hin. destruct Hin as [m [E Hm]].
  pose proof (find_none _ _ H m Hm) as F. unfold names_entry in F. rewrite E, bytes_eqb_refl in F. discriminate.
Qed.
Lemma filter_nil {A} (f : A -> bool) l : (forall x, In x l -> f x = false) -> filter f l = [].
Proof. induction l as [|x l IH]; cbn; auto. intro H. rewrite (H x) by auto. apply IH. intros; apply H; auto. Qed.
Lemma cond0 e n : cond_holds 0 e n = true.
Proof. reflexivity. Qed.

(* ---- entries that are not named stay, unchanged and in order (no hypothesis on the archive) ---- *)
Definition unnamed (targets : list node) (e : entry) : bool := negb (mem (e_path e) (map node_name targets)).

Lemma pass_unnamed excl cond T0 : forall a targets refreshed,
  incl targets T0 -> (forall q, In q refreshed -> In q (map node_name T0)) ->
  let r := update_pass excl cond a targets refreshed in
  filter (unnamed T0) (fst (fst r)) = filter (unnamed T0) a /\ incl (snd (fst r)) T0 /\ incl (snd r) T0.
Proof.
  induction a as [|e a IH]; intros targets refreshed Hi Hr; cbn [update_pass].
  - cbn. auto using incl_nil_l.
  - assert (Hf : incl (filter (fun m => negb (names_entry e m)) targets) T0).
    { intros m Hm. apply filter_In in Hm. apply Hi. tauto. }
    destruct (find (names_entry e) targets) as [n|] eqn:F.
    + destruct (find_names _ _ _ F) as [Hn En].
      assert (Ue : unnamed T0 e = false).
      { unfold unnamed. apply negb_false_iff. apply mem_In. rewrite <- En. apply in_map. auto. }
      destruct (negb (mem (e_path e) excl) && cond_holds cond e n).
      * specialize (IH _ (e_path e :: refreshed) Hf).
        destruct (update_pass excl cond a _ (e_path e :: refreshed)) as [[k j] t]. cbn in *. rewrite Ue.
        destruct IH as [I1 [I2 I3]].
        { intros q [Hq|Hq]; auto. subst q. rewrite <- En. apply in_map. auto. }
        repeat split; auto. intros m [Hm|Hm]; auto. subst. auto.
      * specialize (IH _ refreshed Hf Hr).
        destruct (update_pass excl cond a _ refreshed) as [[k j] t]. cbn in *. rewrite Ue. exact IH.
    + destruct (mem (e_path e) refreshed) eqn:M.
      * assert (Ue : unnamed T0 e = false).
        { unfold unnamed. apply negb_false_iff. apply mem_In. apply Hr. apply mem_In. exact M. }
        specialize (IH _ refreshed Hi Hr). cbn. rewrite Ue. exact IH.
      * specialize (IH _ refreshed Hi Hr).
        destruct (update_pass excl cond a targets refreshed) as [[k j] t]. cbn in *.
        destruct IH as [I1 [I2 I3]]. rewrite I1. auto.
Qed.

(* ---- the de-duplication of the walked paths (a048f63a) ---- *)
Lemma dedup_seen_names : forall l seen q,
  In q (map node_name (dedup_seen seen l)) <-> In q (map node_name l) /\ ~ In q seen.
Proof.
  induction l as [|n r IH]; intros seen q; cbn [dedup_seen map].
  - cbn. tauto.
  - destruct (mem (node_name n) seen) eqn:M.
    + rewrite IH. cbn [In]. split; intros [H1 H2]; split; auto.
      destruct H1 as [H1|H1]; auto. subst q. apply mem_In in M. contradiction.
    + apply mem_nIn in M. cbn [map In]. rewrite IH. cbn [In]. split.
      * intros [H|[H1 H2]]; [subst q; auto|]. split; auto.
      * intros [[H|H] H2]; [left; exact H|].
        destruct (list_eq_dec Byte.byte_eq_dec (node_name n) q) as [E|NE]; [left; exact E|right].
        split; auto. intros [E|E]; auto.
Qed.
Lemma dedup_seen_nodup : forall l seen, NoDup (map node_name (dedup_seen seen l)).
Proof.
  induction l as [|n r IH]; intros seen; cbn [dedup_seen map]; [constructor|].
  destruct (mem (node_name n) seen); [apply IH|]. cbn [map]. constructor; [|apply IH].
  intro H. apply dedup_seen_names in H. destruct H as [_ H]. apply H. left. reflexivity.
Qed.
Lemma dedup_seen_incl : forall l seen, incl (dedup_seen seen l) l.
Proof.
  induction l as [|n r IH]; intros seen; cbn [dedup_seen]; [apply incl_refl|].
  destruct (mem (node_name n) seen).
  - apply incl_tl. apply IH.
  - apply incl_cons; [left; reflexivity|]. apply incl_tl. apply IH.
Qed.
Lemma dedup_names_nodup l : NoDup (map node_name (dedup_names l)).
Proof. apply dedup_seen_nodup. Qed.
Lemma dedup_names_names l q : In q (map node_name (dedup_names l)) <-> In q (map node_name l).
Proof. unfold dedup_names. rewrite dedup_seen_names. cbn. tauto. Qed.
Lemma dedup_names_incl l : incl (dedup_names l) l.
Proof. apply dedup_seen_incl. Qed.
(* nothing to do when the walked paths name distinct entries: the command is then the one of before a048f63a *)
Lemma dedup_seen_id : forall l seen, NoDup (map node_name l) -> (forall q, In q seen -> ~ In q (map node_name l)) ->
  dedup_seen seen l = l.
Proof.
  induction l as [|n r IH]; intros seen ND Hs; cbn [dedup_seen]; auto.
  inversion ND; subst.
  replace (mem (node_name n) seen) with false.
  - f_equal. apply IH; auto. intros q [Hq|Hq]; [subst q; auto|]. intro Hin. apply (Hs q Hq). right. exact Hin.
  - symmetry. apply mem_nIn. intro Hin. apply (Hs _ Hin). left. reflexivity.
Qed.
Lemma dedup_names_id l : NoDup (map node_name l) -> dedup_names l = l.
Proof. intro ND. apply dedup_seen_id; [exact ND|intros q []]. Qed.
Lemma update_targets_nodup kd walk : NoDup (map node_name (update_targets kd walk)).
Proof. apply dedup_names_nodup. Qed.
Lemma mem_ext x l1 l2 : (forall q, In q l1 <-> In q l2) -> mem x l1 = mem x l2.
Proof.
  intro H. destruct (mem x l2) eqn:M.
  - apply mem_In. apply H. apply mem_In. exact M.
  - apply mem_nIn. intro Hin. apply mem_nIn in M. apply M. apply H. exact Hin.
Qed.
Lemma unnamed_dedup l e : unnamed (dedup_names l) e = unnamed l e.
Proof. unfold unnamed. f_equal. apply mem_ext. intro q. apply dedup_names_names. Qed.
(* update.rs applies the rule of collect_items a second time: nothing changes *)
Lemma dedup_names_idem l : dedup_names (dedup_names l) = dedup_names l.
Proof. apply dedup_names_id. apply dedup_names_nodup. Qed.

Lemma update_cmd_ok kd kt excl cond a walk a' :
  update_cmd kd kt excl cond a walk = Ok a' ->
  let r := update_pass excl cond a (update_targets kd walk) [] in
  a' = fst (fst r) ++ map (fresh kt) (snd (fst r) ++ snd r).
Proof.
  unfold update_cmd. destruct (collect kd walk) as [items| |] eqn:C; cbn; try discriminate.
  apply collect_ok in C. subst items. unfold update_targets at 1. rewrite dedup_names_idem. fold (update_targets kd walk).
  destruct (update_pass excl cond a (update_targets kd walk) []) as [[k j] t]. cbn.
  destruct (build kt (j ++ t)) as [new| |] eqn:B; cbn; try discriminate.
  intro H. inversion H. apply build_ok in B. subst. reflexivity.
Qed.

Theorem update_keeps_others_targets kd kt excl cond a walk a' :
  update_cmd kd kt excl cond a walk = Ok a' ->
  filter (unnamed (update_targets kd walk)) a' = filter (unnamed (update_targets kd walk)) a.
Proof.
  intro H. apply update_cmd_ok in H. cbn zeta in H. subst a'.
  set (T := update_targets kd walk).
  destruct (pass_unnamed excl cond T a T [] (incl_refl _)) as [I1 [I2 I3]]; [intros q []|].
  rewrite filter_app, I1. rewrite (filter_nil (unnamed T) (map (fresh kt) _)); [apply app_nil_r|].
  intros x Hx. apply in_map_iff in Hx. destruct Hx as [m [E Hm]]. subst x.
  unfold unnamed. apply negb_false_iff. apply mem_In. cbn. apply in_map.
  apply in_app_or in Hm. destruct Hm; auto.
Qed.
(* the same, read against everything the walker yields: a path named twice is named *)
Theorem update_keeps_others kd kt excl cond a walk a' :
  update_cmd kd kt excl cond a walk = Ok a' ->
  filter (unnamed (filter (wanted kd) walk)) a' = filter (unnamed (filter (wanted kd) walk)) a.
Proof.
  intro H. apply update_keeps_others_targets in H. unfold update_targets in H.
  rewrite !(filter_ext _ _ (unnamed_dedup (filter (wanted kd) walk))) in H. exact H.
Qed.

(* ---- every named path on disk occurs exactly once, with the disk's content ---- *)
Section Once.
Variable p : bytes.
Definition at_p (e : entry) : bool := bytes_eqb (e_path e) p.
Definition named_p (m : node) : bool := bytes_eqb (node_name m) p.

Lemma named_absent l : ~ In p (map node_name l) -> filter named_p l = [].
Proof.
  intro H. apply filter_nil. intros m Hm. unfold named_p. apply bytes_eqb_neq. intro E. apply H. rewrite <- E. apply in_map. auto.
Qed.
Lemma NoDup_map_filter {A B} (f : A -> B) g l : NoDup (map f l) -> NoDup (map f (filter g l)).
Proof.
  induction l as [|x l IH]; cbn; auto. intro H. inversion H; subst.
  destruct (g x); cbn; auto. constructor; auto. intro Hin. apply H2.
  apply in_map_iff in Hin. destruct Hin as [y [E Hy]]. apply filter_In in Hy. rewrite <- E. apply in_map. tauto.
Qed.
Lemma In_map_filter {A B} (f : A -> B) g l q : In q (map f (filter g l)) -> In q (map f l).
Proof. intro H. apply in_map_iff in H. destruct H as [y [E Hy]]. apply filter_In in Hy. rewrite <- E. apply in_map. tauto. Qed.

Lemma named_filter_other e targets : p <> e_path e ->
  filter named_p (filter (fun m => negb (names_entry e m)) targets) = filter named_p targets.
Proof.
  intro H. induction targets as [|m l IH]; cbn; auto.
  destruct (names_entry e m) eqn:N; cbn.
  - unfold names_entry in N. apply bytes_eqb_eq in N.
    unfold named_p at 2. rewrite N. rewrite bytes_eqb_neq by auto. exact IH.
  - destruct (named_p m); rewrite IH; reflexivity.
Qed.
Lemma named_first e targets m : NoDup (map node_name targets) ->
  find (names_entry e) targets = Some m -> p = e_path e -> filter named_p targets = [m].
Proof.
  intros ND F E. induction targets as [|h l IH]; cbn in *; [discriminate|].
  inversion ND; subst.
  destruct (names_entry e h) eqn:N.
  - inversion F. subst h. unfold names_entry in N. apply bytes_eqb_eq in N.
    unfold named_p at 1. rewrite N, <- E, bytes_eqb_refl. f_equal. apply named_absent. rewrite E, <- N. auto.
  - unfold named_p at 1. unfold names_entry in N.
    replace (bytes_eqb (node_name h) p) with false by (rewrite E; symmetry; exact N). apply IH; auto.
Qed.

Lemma pass_once : forall a targets refreshed,
  NoDup (map node_name targets) ->
  (forall q, In q refreshed -> ~ In q (map node_name targets)) ->
  let r := update_pass [] 0 a targets refreshed in
  (In p (map node_name targets) ->
     filter at_p (fst (fst r)) = [] /\ filter named_p (snd (fst r) ++ snd r) = filter named_p targets)
  /\ (In p refreshed -> filter at_p (fst (fst r)) = [] /\ filter named_p (snd (fst r) ++ snd r) = []).
Proof.
  induction a as [|e a IH]; intros targets refreshed ND Hr; cbn [update_pass].
  - cbn. split; intro H; split; auto. apply named_absent. auto.
  - destruct (find (names_entry e) targets) as [n|] eqn:F.
    + destruct (find_names _ _ _ F) as [Hn En].
      change (negb (mem (e_path e) []) && cond_holds 0 e n) with true. cbn iota.
      set (targets' := filter (fun m => negb (names_entry e m)) targets).
      assert (ND' : NoDup (map node_name targets')) by (apply NoDup_map_filter; auto).
      assert (Hr' : forall q, In q (e_path e :: refreshed) -> ~ In q (map node_name targets')).
      { intros q [Hq|Hq] Hin.
        - subst q. apply in_map_iff in Hin. destruct Hin as [m [E Hm]]. apply filter_In in Hm.
          destruct Hm as [_ Hm]. unfold names_entry in Hm. rewrite E, bytes_eqb_refl in Hm. discriminate.
        - apply (Hr q Hq). eapply In_map_filter; eauto. }
      specialize (IH targets' (e_path e :: refreshed) ND' Hr').
      destruct (update_pass [] 0 a targets' (e_path e :: refreshed)) as [[k j] t]. cbn in *.
      destruct IH as [IA IB]. split.
      * intro Hp. destruct (list_eq_dec Byte.byte_eq_dec p (e_path e)) as [E|NE].
        -- destruct (IB (or_introl (eq_sym E))) as [B1 B2]. split; auto.
           unfold named_p at 1. rewrite En, <- E, bytes_eqb_refl. rewrite B2.
           symmetry. eapply named_first; eauto.
        -- assert (Hp' : In p (map node_name targets')).
           { apply in_map_iff in Hp. destruct Hp as [m [E Hm]]. apply in_map_iff. exists m. split; auto.
             apply filter_In. split; auto. unfold names_entry. rewrite E. rewrite bytes_eqb_neq; auto. }
           destruct (IA Hp') as [A1 A2]. split; auto.
           unfold named_p at 1. rewrite En. rewrite bytes_eqb_neq by auto. rewrite A2.
           apply named_filter_other. auto.
      * intro Hp. destruct (IB (or_intror Hp)) as [B1 B2]. split; auto.
        unfold named_p at 1. rewrite En. rewrite bytes_eqb_neq; auto.
        intro E. apply (Hr p Hp). rewrite <- E, <- En. apply in_map. auto.
    + pose proof (find_none_names _ _ F) as Hnone.
      destruct (mem (e_path e) refreshed) eqn:M.
      * apply IH; auto.
      * specialize (IH targets refreshed ND Hr).
        destruct (update_pass [] 0 a targets refreshed) as [[k j] t]. cbn in *.
        destruct IH as [IA IB]. apply mem_nIn in M. split; intro Hp.
        -- destruct (IA Hp) as [A1 A2]. split; auto. unfold at_p at 1.
           rewrite bytes_eqb_neq; auto. intro E. apply Hnone. rewrite E. exact Hp.
        -- destruct (IB Hp) as [B1 B2]. split; auto. unfold at_p at 1.
           rewrite bytes_eqb_neq; auto. intro E. apply M. rewrite E. exact Hp.
Qed.
End Once.

Lemma named_unique l n : NoDup (map node_name l) -> In n l -> filter (named_p (node_name n)) l = [n].
Proof.
  induction l as [|h l IH]; cbn; [tauto|]. intros ND [H|H]; inversion ND; subst.
  - unfold named_p at 1. rewrite bytes_eqb_refl. f_equal. apply named_absent. auto.
  - unfold named_p at 1. rewrite bytes_eqb_neq; auto. intro E. apply H2. rewrite E. apply in_map. auto.
Qed.
Lemma filter_map_fresh kt p l : filter (at_p p) (map (fresh kt) l) = map (fresh kt) (filter (named_p p) l).
Proof.
  induction l as [|m l IH]; cbn [map filter]; auto.
  replace (at_p p (fresh kt m)) with (named_p p m) by reflexivity.
  destruct (named_p p m); cbn [map]; rewrite IH; reflexivity.
Qed.

(* every target (the first walked path of an entry name) is held exactly once, with the disk's content *)
Theorem update_exactly_once_targets kd kt a walk a' n :
  update_cmd kd kt [] 0 a walk = Ok a' ->
  In n (update_targets kd walk) ->
  filter (fun e => bytes_eqb (e_path e) (node_name n)) a' = [fresh kt n].
Proof.
  intros H Hn. apply update_cmd_ok in H. cbn zeta in H. subst a'.
  pose proof (update_targets_nodup kd walk) as ND.
  set (T := update_targets kd walk) in *.
  destruct (pass_once (node_name n) a T [] ND) as [IA _]; [intros q []|].
  destruct IA as [A1 A2]; [apply in_map; auto|].
  change (fun e => bytes_eqb (e_path e) (node_name n)) with (at_p (node_name n)).
  rewrite filter_app, A1, filter_map_fresh, A2, named_unique; auto.
Qed.

(* the first walked path of a name is a target *)
Lemma find_dedup_seen q : forall l seen n', ~ In q seen ->
  find (named_p q) l = Some n' -> In n' (dedup_seen seen l).
Proof.
  induction l as [|m r IH]; intros seen n' Hs F; cbn [find] in F; [discriminate|]. cbn [dedup_seen].
  destruct (named_p q m) eqn:E.
  - injection F as <-. unfold named_p in E. apply bytes_eqb_eq in E.
    replace (mem (node_name m) seen) with false by (symmetry; apply mem_nIn; rewrite E; exact Hs). left. reflexivity.
  - destruct (mem (node_name m) seen); [apply IH; auto|]. right. apply IH; auto.
    intros [H|H]; auto. unfold named_p in E. rewrite H, bytes_eqb_refl in E. discriminate.
Qed.
Lemma find_named_in l n : In n l -> exists n', find (named_p (node_name n)) l = Some n'.
Proof.
  intro H. destruct (find (named_p (node_name n)) l) as [n'|] eqn:F; [eauto|].
  pose proof (find_none _ _ F n H) as E. unfold named_p in E. rewrite bytes_eqb_refl in E. discriminate.
Qed.

(* every path the walker yields — overlapping file arguments or not — is held exactly once, as the entry
   built from the first walked path of that name *)
Theorem update_exactly_once kd kt a walk a' n :
  update_cmd kd kt [] 0 a walk = Ok a' ->
  In n (filter (wanted kd) walk) ->
  exists n', find (fun m => bytes_eqb (node_name m) (node_name n)) (filter (wanted kd) walk) = Some n' /\
    node_name n' = node_name n /\
    filter (fun e => bytes_eqb (e_path e) (node_name n)) a' = [fresh kt n'].
Proof.
  intros H Hn. destruct (find_named_in _ _ Hn) as [n' F]. exists n'.
  change (fun m => bytes_eqb (node_name m) (node_name n)) with (named_p (node_name n)).
  split; [exact F|].
  assert (E : node_name n' = node_name n).
  { apply find_some in F. destruct F as [_ F]. unfold named_p in F. apply bytes_eqb_eq in F. exact F. }
  split; [exact E|]. rewrite <- E.
  apply (update_exactly_once_targets kd kt a walk a' n' H).
  unfold update_targets, dedup_names. apply (find_dedup_seen (node_name n)); auto.
Qed.
(* in particular: exactly one entry of that name *)
Corollary update_exactly_one kd kt a walk a' n :
  update_cmd kd kt [] 0 a walk = Ok a' -> In n (filter (wanted kd) walk) ->
  length (filter (fun e => bytes_eqb (e_path e) (node_name n)) a') = 1%nat.
Proof.
  intros H Hn. destruct (update_exactly_once kd kt a walk a' n H Hn) as (n' & _ & _ & E). rewrite E. reflexivity.
Qed.

(* ---- the ordered-list equation of the pass, for archives without duplicate names ---- *)
Section Spec.
Variable excl : list bytes.
Variable cond : N.

Definition refresh_of (targets : list node) (e : entry) : option node :=
  match find (names_entry e) targets with
  | Some n => if negb (mem (e_path e) excl) && cond_holds cond e n then Some n else None
  | None => None
  end.
Definition stays (targets : list node) (e : entry) : bool :=
  match refresh_of targets e with Some _ => false | None => true end.
Definition job (targets : list node) (e : entry) : list node :=
  match refresh_of targets e with Some n => [n] | None => [] end.
Definition not_in (a : archive) (n : node) : bool := negb (mem (node_name n) (names a)).

Lemma find_filter_other e e2 targets : e_path e2 <> e_path e ->
  find (names_entry e2) (filter (fun m => negb (names_entry e m)) targets) = find (names_entry e2) targets.
Proof.
  intro H. induction targets as [|m l IH]; cbn; auto.
  destruct (names_entry e m) eqn:N; cbn.
  - unfold names_entry in *. apply bytes_eqb_eq in N. rewrite N. rewrite bytes_eqb_neq by auto. exact IH.
  - destruct (names_entry e2 m); auto.
Qed.
Lemma flat_map_ext_in {A B} (f g : A -> list B) l : (forall x, In x l -> f x = g x) -> flat_map f l = flat_map g l.
Proof. induction l as [|x l IH]; cbn; auto. intro H. rewrite (H x), IH; auto. Qed.
Lemma not_in_cons_filter e a targets :
  filter (not_in a) (filter (fun m => negb (names_entry e m)) targets) = filter (not_in (e :: a)) targets.
Proof.
  induction targets as [|m l IH]; [reflexivity|].
  cbn [filter].
  assert (E : not_in (e :: a) m = negb (names_entry e m) && not_in a m).
  { unfold not_in, names_entry, names. cbn [map mem]. rewrite negb_orb. reflexivity. }
  rewrite E. destruct (names_entry e m); cbn [negb andb filter]; [exact IH|].
  destruct (not_in a m); rewrite IH; reflexivity.
Qed.
Lemma not_in_cons_none e a targets : find (names_entry e) targets = None ->
  filter (not_in (e :: a)) targets = filter (not_in a) targets.
Proof.
  intro F. apply filter_ext_in. intros m Hm. unfold not_in. cbn.
  pose proof (find_none _ _ F m Hm) as N. unfold names_entry in N. rewrite N. reflexivity.
Qed.

Lemma pass_spec : forall a targets refreshed,
  NoDup (names a) -> (forall q, In q refreshed -> ~ In q (names a)) ->
  update_pass excl cond a targets refreshed
  = (filter (stays targets) a, flat_map (job targets) a, filter (not_in a) targets).
Proof.
  induction a as [|e a IH]; intros targets refreshed ND Hr; cbn [update_pass].
  - cbn. f_equal. induction targets as [|m l IHl]; cbn; auto. f_equal. exact IHl.
  - inversion ND as [|x l Hx ND']; subst.
    destruct (find (names_entry e) targets) as [n|] eqn:F.
    + set (targets' := filter (fun m => negb (names_entry e m)) targets).
      assert (Hs : forall e2, In e2 a -> refresh_of targets' e2 = refresh_of targets e2).
      { intros e2 H2. unfold refresh_of, targets'. rewrite find_filter_other; auto.
        intro E. apply Hx. rewrite <- E. apply in_map. auto. }
      assert (S1 : filter (stays targets') a = filter (stays targets) a).
      { apply filter_ext_in. intros e2 H2. unfold stays. rewrite Hs; auto. }
      assert (S2 : flat_map (job targets') a = flat_map (job targets) a).
      { apply flat_map_ext_in. intros e2 H2. unfold job. rewrite Hs; auto. }
      destruct (negb (mem (e_path e) excl) && cond_holds cond e n) eqn:C.
      * rewrite (IH targets' (e_path e :: refreshed) ND').
        2:{ intros q [Hq|Hq]; [subst; auto|]. intro Hin. apply (Hr q Hq). right. auto. }
        assert (St : stays targets e = false) by (unfold stays, refresh_of; rewrite F, C; reflexivity).
        assert (Jb : job targets e = [n]) by (unfold job, refresh_of; rewrite F, C; reflexivity).
        cbv beta iota zeta. cbn [filter flat_map]. rewrite St, Jb. cbn [app].
        rewrite S1, S2. unfold targets'. rewrite not_in_cons_filter. reflexivity.
      * rewrite (IH targets' refreshed ND').
        2:{ intros q Hq Hin. apply (Hr q Hq). right. auto. }
        assert (St : stays targets e = true) by (unfold stays, refresh_of; rewrite F, C; reflexivity).
        assert (Jb : job targets e = []) by (unfold job, refresh_of; rewrite F, C; reflexivity).
        cbv beta iota zeta. cbn [filter flat_map]. rewrite St, Jb. cbn [app].
        rewrite S1, S2. unfold targets'. rewrite not_in_cons_filter. reflexivity.
    + assert (M : mem (e_path e) refreshed = false).
      { apply mem_nIn. intro H. apply (Hr _ H). left. reflexivity. }
      rewrite M. rewrite (IH targets refreshed ND').
      2:{ intros q Hq Hin. apply (Hr q Hq). right. auto. }
      assert (St : stays targets e = true) by (unfold stays, refresh_of; rewrite F; reflexivity).
      assert (Jb : job targets e = []) by (unfold job, refresh_of; rewrite F; reflexivity).
      cbv beta iota zeta. cbn [filter flat_map]. rewrite St, Jb. cbn [app].
      rewrite not_in_cons_none by auto. reflexivity.
Qed.
End Spec.

Theorem update_spec kd kt excl cond a walk a' :
  NoDup (names a) -> update_cmd kd kt excl cond a walk = Ok a' ->
  let targets := update_targets kd walk in
  a' = filter (stays excl cond targets) a
       ++ map (fresh kt) (flat_map (job excl cond targets) a)
       ++ map (fresh kt) (filter (not_in a) targets).
Proof.
  intros ND H. apply update_cmd_ok in H. cbn zeta in *.
  rewrite pass_spec in H by (auto; intros q []). cbn in H. rewrite map_app in H. exact H.
Qed.

(* ---- histories keep names unique ---- *)
Lemma nodup_app {A} (a b : list A) : NoDup a -> NoDup b -> (forall x, In x a -> ~ In x b) -> NoDup (a ++ b).
Proof.
  induction a as [|x a IH]; cbn; auto. intros Ha Hb H. inversion Ha; subst. constructor.
  - intro Hin. apply in_app_or in Hin. destruct Hin as [Hin|Hin]; [auto|]. apply (H x); auto.
  - apply IH; auto.
Qed.
Lemma names_fresh kt l : names (map (fresh kt) l) = map node_name l.
Proof. unfold names. rewrite map_map. reflexivity. Qed.

Lemma job_names excl cond targets a : map node_name (flat_map (job excl cond targets) a)
  = names (filter (fun e => negb (stays excl cond targets e)) a).
Proof.
  induction a as [|e a IH]; cbn; auto. unfold job at 1, stays at 1, refresh_of.
  destruct (find (names_entry e) targets) as [n|] eqn:F; cbn; auto.
  destruct (negb (mem (e_path e) excl) && cond_holds cond e n); cbn; auto.
  destruct (find_names _ _ _ F) as [_ En]. rewrite En, IH. reflexivity.
Qed.
Lemma nodup_partition {A B} (f : A -> B) g l : NoDup (map f l) ->
  NoDup (map f (filter g l) ++ map f (filter (fun x => negb (g x)) l)).
Proof.
  intro ND. apply nodup_app; try (apply NoDup_map_filter; auto).
  induction l as [|x l IH]; cbn; [tauto|]. inversion ND; subst.
  intros y Hy Hn. destruct (g x) eqn:G; cbn in *.
  - destruct Hy as [Hy|Hy].
    + subst y. apply H1. eapply In_map_filter; eauto.
    + eapply IH; eauto.
  - destruct Hn as [Hn|Hn].
    + subst y. apply H1. eapply In_map_filter; eauto.
    + eapply IH; eauto.
Qed.

Theorem update_nodup kd kt excl cond a walk a' :
  NoDup (names a) ->
  update_cmd kd kt excl cond a walk = Ok a' -> NoDup (names a').
Proof.
  intros ND H. apply (update_spec _ _ _ _ _ _ _ ND) in H. cbn zeta in H. subst a'.
  pose proof (update_targets_nodup kd walk) as NT.
  set (T := update_targets kd walk) in *.
  unfold names. rewrite !map_app. fold (names (map (fresh kt) (flat_map (job excl cond T) a))).
  fold (names (map (fresh kt) (filter (not_in a) T))). rewrite !names_fresh, job_names.
  rewrite app_assoc. apply nodup_app.
  - apply (nodup_partition e_path (stays excl cond T) a ND).
  - apply NoDup_map_filter. exact NT.
  - intros x Hx Hn. apply in_map_iff in Hn. destruct Hn as [m [E Hm]]. apply filter_In in Hm.
    destruct Hm as [_ Hm]. unfold not_in in Hm. apply negb_true_iff, mem_nIn in Hm. apply Hm. rewrite E.
    apply in_app_or in Hx. destruct Hx as [Hx|Hx]; eapply In_map_filter; eauto.
Qed.

(* ---- create / append: one entry per entry name among the walked paths (4cfc8ff5) ---- *)
(* walking left to right, a path is an item iff no earlier path has its entry name *)
Lemma dedup_seen_snoc : forall l seen n,
  dedup_seen seen (l ++ [n]) = dedup_seen seen l ++ (if mem (node_name n) (seen ++ map node_name l) then [] else [n]).
Proof.
  induction l as [|m r IH]; intros seen n; cbn [app dedup_seen map].
  - rewrite app_nil_r. destruct (mem (node_name n) seen); reflexivity.
  - destruct (mem (node_name m) seen) eqn:M.
    + rewrite IH. f_equal.
      rewrite (mem_ext (node_name n) (seen ++ map node_name r) (seen ++ node_name m :: map node_name r)); [reflexivity|].
      intro q. rewrite !in_app_iff. cbn [In].
      split; [tauto|]. intros [H|[H|H]]; auto. subst q. left. apply mem_In. exact M.
    + rewrite IH. cbn [app]. f_equal. f_equal.
      rewrite (mem_ext (node_name n) (node_name m :: seen ++ map node_name r) (seen ++ node_name m :: map node_name r)); [reflexivity|].
      intro q. cbn [In]. rewrite !in_app_iff. cbn [In]. tauto.
Qed.
Lemma dedup_names_snoc l n :
  dedup_names (l ++ [n]) = dedup_names l ++ (if mem (node_name n) (map node_name l) then [] else [n]).
Proof. unfold dedup_names. rewrite dedup_seen_snoc. reflexivity. Qed.
Lemma update_targets_nil kd : update_targets kd [] = [].
Proof. reflexivity. Qed.
Lemma update_targets_snoc kd walk n :
  update_targets kd (walk ++ [n])
  = update_targets kd walk ++ (if wanted kd n && negb (mem (node_name n) (map node_name (filter (wanted kd) walk))) then [n] else []).
Proof.
  unfold update_targets. rewrite filter_app. cbn [filter]. destruct (wanted kd n); cbn [andb].
  - rewrite dedup_names_snoc. destruct (mem _ _); reflexivity.
  - rewrite !app_nil_r. reflexivity.
Qed.
(* an item is the first walked path of its entry name, and the first walked path of every name is an item *)
Lemma dedup_names_first l n : In n (dedup_names l) <-> find (named_p (node_name n)) l = Some n.
Proof.
  split.
  - intro Hn. destruct (find_named_in l n (dedup_names_incl l n Hn)) as [n' F]. rewrite F. f_equal.
    assert (Hn' : In n' (dedup_names l)) by (apply (find_dedup_seen (node_name n)); auto).
    assert (E : node_name n' = node_name n).
    { apply find_some in F. destruct F as [_ F]. unfold named_p in F. apply bytes_eqb_eq in F. exact F. }
    pose proof (named_unique _ _ (dedup_names_nodup l) Hn) as U.
    assert (In n' (filter (named_p (node_name n)) (dedup_names l))) as Hf.
    { apply filter_In. split; auto. unfold named_p. rewrite E. apply bytes_eqb_refl. }
    rewrite U in Hf. destruct Hf as [Hf|[]]. auto.
  - intro F. apply (find_dedup_seen (node_name n)); auto.
Qed.
Theorem update_targets_spec kd walk :
  NoDup (map node_name (update_targets kd walk)) /\
  (forall q, In q (map node_name (update_targets kd walk)) <-> In q (map node_name (filter (wanted kd) walk))) /\
  (forall n, In n (update_targets kd walk) <-> find (named_p (node_name n)) (filter (wanted kd) walk) = Some n) /\
  (NoDup (map node_name (filter (wanted kd) walk)) -> update_targets kd walk = filter (wanted kd) walk).
Proof.
  split; [apply update_targets_nodup|]. split; [intro q; apply dedup_names_names|].
  split; [intro n; apply dedup_names_first|]. apply dedup_names_id.
Qed.

Theorem create_nodup kd kt walk a' : create_cmd kd kt walk = Ok a' -> NoDup (names a').
Proof. intro H. apply create_cmd_spec in H. subst a'. rewrite names_fresh. apply update_targets_nodup. Qed.

(* every path the walker yields and collect_items lets pass is held exactly once by the created archive, as the
   entry built from the first walked path of that name *)
Theorem create_exactly_once kd kt walk a' n :
  create_cmd kd kt walk = Ok a' ->
  In n (filter (wanted kd) walk) ->
  exists n', find (fun m => bytes_eqb (node_name m) (node_name n)) (filter (wanted kd) walk) = Some n' /\
    node_name n' = node_name n /\
    filter (fun e => bytes_eqb (e_path e) (node_name n)) a' = [fresh kt n'].
Proof.
  intros H Hn. apply create_cmd_spec in H. subst a'. destruct (find_named_in _ _ Hn) as [n' F]. exists n'.
  change (fun m => bytes_eqb (node_name m) (node_name n)) with (named_p (node_name n)).
  split; [exact F|].
  assert (E : node_name n' = node_name n).
  { apply find_some in F. destruct F as [_ F]. unfold named_p in F. apply bytes_eqb_eq in F. exact F. }
  split; [exact E|]. rewrite <- E.
  change (fun e => bytes_eqb (e_path e) (node_name n')) with (at_p (node_name n')).
  rewrite filter_map_fresh, named_unique; auto; [apply update_targets_nodup|].
  unfold update_targets, dedup_names. apply (find_dedup_seen (node_name n)); auto.
Qed.
(* the entries append adds: the same, after the archive's own entries *)
Theorem append_new_exactly_once kd kt a walk a' n :
  append_cmd kd kt a walk = Ok a' ->
  In n (filter (wanted kd) walk) ->
  exists n' new, a' = a ++ new /\
    find (fun m => bytes_eqb (node_name m) (node_name n)) (filter (wanted kd) walk) = Some n' /\
    node_name n' = node_name n /\
    filter (fun e => bytes_eqb (e_path e) (node_name n)) new = [fresh kt n'].
Proof.
  intros H Hn. apply append_cmd_spec in H. subst a'. destruct (find_named_in _ _ Hn) as [n' F].
  exists n', (map (fresh kt) (update_targets kd walk)). split; [reflexivity|].
  change (fun m => bytes_eqb (node_name m) (node_name n)) with (named_p (node_name n)).
  split; [exact F|].
  assert (E : node_name n' = node_name n).
  { apply find_some in F. destruct F as [_ F]. unfold named_p in F. apply bytes_eqb_eq in F. exact F. }
  split; [exact E|]. rewrite <- E.
  change (fun e => bytes_eqb (e_path e) (node_name n')) with (at_p (node_name n')).
  rewrite filter_map_fresh, named_unique; auto; [apply update_targets_nodup|].
  unfold update_targets, dedup_names. apply (find_dedup_seen (node_name n)); auto.
Qed.

(* what a step of a history must satisfy for names to stay unique: nothing for create (4cfc8ff5), update (a048f63a),
   delete and re-split; append never reads the names the archive holds (append.rs: seek to the end, write), so a
   walked path whose name is archived already is archived again: that clause stays (append_existing_name_twice) *)
Definition op_ok (a : archive) (o : op) : Prop :=
  match o with
  | OAppend kd _ w => forall n, In n (filter (wanted kd) w) -> ~ In (node_name n) (names a)
  | OCreate _ _ _ | OUpdate _ _ _ _ _ | ODelete _ | ONop => True
  end.
Lemma op_ok_create a kd kt walk : op_ok a (OCreate kd kt walk) <-> True.
Proof. cbn. tauto. Qed.
Lemma op_ok_update a kd kt excl cond walk : op_ok a (OUpdate kd kt excl cond walk) <-> True.
Proof. cbn. tauto. Qed.
Lemma op_ok_append a kd kt walk :
  op_ok a (OAppend kd kt walk) <-> (forall n, In n (filter (wanted kd) walk) -> ~ In (node_name n) (names a)).
Proof. cbn. tauto. Qed.
Fixpoint hist_ok (a : archive) (ops : list op) : Prop :=
  match ops with
  | [] => True
  | o :: r => op_ok a o /\ hist_ok (after a o) r
  end.

Lemma step_nodup a o : NoDup (names a) -> op_ok a o -> NoDup (names (after a o)).
Proof.
  intros ND OK. unfold after. destruct (step a o) as [a'| |] eqn:S; auto.
  destruct o as [kd kt w|kd kt w|kd kt ex c w|m|]; cbn in *.
  - eapply create_nodup; eauto.
  - apply append_cmd_spec in S. subst a'. unfold names. rewrite map_app.
    fold (names (map (fresh kt) (update_targets kd w))). rewrite names_fresh.
    apply nodup_app; auto; [apply update_targets_nodup|].
    intros x Hx Hn. apply in_map_iff in Hn. destruct Hn as [n [E Hn]].
    apply (OK n (dedup_names_incl _ _ Hn)). rewrite E. exact Hx.
  - eapply update_nodup; eauto.
  - inversion S. subst. unfold delete, delete_by. apply NoDup_map_filter. exact ND.
  - inversion S. subst. exact ND.
Qed.

Theorem history_invariant : forall ops a, NoDup (names a) -> hist_ok a ops -> NoDup (names (final a ops)).
Proof.
  induction ops as [|o r IH]; intros a ND H; cbn in *; auto.
  destruct H as [H1 H2]. apply IH; auto. apply step_nodup; auto.
Qed.

(* a history without append asks nothing at all *)
Fixpoint no_append (ops : list op) : Prop :=
  match ops with
  | [] => True
  | OAppend _ _ _ :: _ => False
  | _ :: r => no_append r
  end.
Lemma no_append_hist_ok : forall ops a, no_append ops -> hist_ok a ops.
Proof.
  induction ops as [|o r IH]; intros a H; cbn; auto. destruct o; cbn in *; try tauto; split; auto.
Qed.
Theorem history_invariant_no_append ops a : NoDup (names a) -> no_append ops -> NoDup (names (final a ops)).
Proof. intros ND H. apply history_invariant; auto. apply no_append_hist_ok. exact H. Qed.

Lemma delete_spec matched a :
  delete matched a = filter (fun e => negb (mem (e_path e) matched)) a.
Proof. reflexivity. Qed.

(* ---- the pass as it was before ff5cb171 (D13), kept for the record ---- *)
Fixpoint update_pass_orig (excl : list bytes) (cond : N) (a : archive) (targets : list node)
  : list entry * list node * list node :=
  match a with
  | [] => ([], [], targets)
  | e :: a' =>
    match find (fun n => bytes_eqb (n_path n) (e_path e)) targets with     (* target_items.contains(&normalized_path) *)
    | Some n =>
      let targets' := filter (fun m => bytes_eqb (n_path m) (e_path e)) targets in   (* retain(|p| p.normalize() == normalized_path) *)
      if negb (mem (e_path e) excl) && cond_holds cond e n then
        let '(k, j, t) := update_pass_orig excl cond a' targets' in (k, n :: j, t)
      else
        let '(k, j, t) := update_pass_orig excl cond a' targets' in (e :: k, j, t)
    | None => update_pass_orig excl cond a' targets                         (* Ok(None): the entry is dropped *)
    end
  end.
Definition update_orig (kt : bool) (excl : list bytes) (cond : N) (a : archive) (targets : list node) : archive :=
  let '(k, j, t) := update_pass_orig excl cond a targets in k ++ map (fresh kt) (j ++ t).

Definition d13_a : archive :=
  [mkE (lit "d/a") 0 (lit "one") None; mkE (lit "d/b") 0 (lit "two") None; mkE (lit "d/c") 0 (lit "three") None].
Definition d13_targets : list node := [mkN (lit "d/a") 0 (lit "ONE2") 1700000000000000000].

Lemma update_unrepaired_loses :
  exists a targets e, In e a /\ ~ In (e_path e) (map node_name targets)
    /\ ~ In (e_path e) (names (update_orig false [] 0 a targets))
    /\ names (update_orig false [] 0 a targets) = [lit "d/a"; lit "d/a"].
Proof.
  exists d13_a, d13_targets, (mkE (lit "d/b") 0 (lit "two") None). repeat split.
  - cbn. auto.
  - apply mem_nIn. vm_compute. reflexivity.
  - apply mem_nIn. vm_compute. reflexivity.
Qed.
(* the repaired pass on the same input keeps d/b and d/c and holds d/a once, with the new content *)
Lemma update_repaired_witness :
  update_cmd false false [] 0 d13_a d13_targets
  = Ok [mkE (lit "d/b") 0 (lit "two") None; mkE (lit "d/c") 0 (lit "three") None; mkE (lit "d/a") 0 (lit "ONE2") None].
Proof. vm_compute. reflexivity. Qed.

(* ---- the command as it was before a048f63a (overlapping file arguments), kept for the record ---- *)
Definition ov_a : archive := [mkE (lit "t/a") 0 (lit "one") None].
(* pna experimental update x.pna t/b ./t/b  (or -r t t/b): the walker yields t/b twice *)
Definition ov_walk : list node := [mkN (lit "t/b") 0 (lit "two") 1700000000000000000; mkN (lit "./t/b") 0 (lit "two") 1700000000000000000].
Lemma update_overlap_unrepaired :
  exists a walk a', NoDup (names a) /\ update_cmd_orig false false [] 0 a walk = Ok a' /\
    names a' = [lit "t/a"; lit "t/b"; lit "t/b"] /\ ~ NoDup (names a').
Proof.
  exists ov_a, ov_walk, [mkE (lit "t/a") 0 (lit "one") None; mkE (lit "t/b") 0 (lit "two") None; mkE (lit "t/b") 0 (lit "two") None].
  split; [repeat constructor; cbn; tauto|]. split; [vm_compute; reflexivity|]. split; [vm_compute; reflexivity|].
  intro ND. inversion ND as [|x l _ ND1]; subst. inversion ND1 as [|x l H _]; subst. apply H. left. reflexivity.
Qed.
(* the repaired command on the same input archives t/b once *)
Lemma update_overlap_repaired_witness :
  update_cmd false false [] 0 ov_a ov_walk
  = Ok [mkE (lit "t/a") 0 (lit "one") None; mkE (lit "t/b") 0 (lit "two") None].
Proof. vm_compute. reflexivity. Qed.

(* ---- create / append as they were before 4cfc8ff5 (overlapping file arguments), kept for the record ---- *)
(* pna create x.pna t/a t/a  (or -r t t/a, ./t/a t/a): the walker yields t/a twice *)
Definition ovc_walk : list node := [mkN (lit "t/a") 0 (lit "one") 1700000000000000000; mkN (lit "./t/a") 0 (lit "one") 1700000000000000000].
Lemma create_overlap_unrepaired :
  exists walk a', create_cmd_orig false false walk = Ok a' /\
    names a' = [lit "t/a"; lit "t/a"] /\ ~ NoDup (names a').
Proof.
  exists ovc_walk, [mkE (lit "t/a") 0 (lit "one") None; mkE (lit "t/a") 0 (lit "one") None].
  split; [vm_compute; reflexivity|]. split; [vm_compute; reflexivity|].
  intro ND. inversion ND as [|x l H _]; subst. apply H. left. reflexivity.
Qed.
Lemma create_overlap_repaired_witness :
  create_cmd false false ovc_walk = Ok [mkE (lit "t/a") 0 (lit "one") None].
Proof. vm_compute. reflexivity. Qed.
Lemma append_overlap_unrepaired :
  exists a walk a', NoDup (names a) /\ (forall n, In n (filter (wanted false) walk) -> ~ In (node_name n) (names a)) /\
    append_cmd_orig false false a walk = Ok a' /\
    names a' = [lit "t/a"; lit "t/b"; lit "t/b"] /\ ~ NoDup (names a').
Proof.
  exists ov_a, ov_walk, [mkE (lit "t/a") 0 (lit "one") None; mkE (lit "t/b") 0 (lit "two") None; mkE (lit "t/b") 0 (lit "two") None].
  split; [repeat constructor; cbn; tauto|]. split.
  { intros n Hn Hin. cbn in Hn. destruct Hn as [<-|[<-|[]]]; vm_compute in Hin; destruct Hin as [Hin|[]]; discriminate. }
  split; [vm_compute; reflexivity|]. split; [vm_compute; reflexivity|].
  intro ND. inversion ND as [|x l _ ND1]; subst. inversion ND1 as [|x l H _]; subst. apply H. left. reflexivity.
Qed.
Lemma append_overlap_repaired_witness :
  append_cmd false false ov_a ov_walk
  = Ok [mkE (lit "t/a") 0 (lit "one") None; mkE (lit "t/b") 0 (lit "two") None].
Proof. vm_compute. reflexivity. Qed.
(* the clause op_ok keeps for append is needed: append does not look at the names the archive holds *)
Lemma append_existing_name_twice :
  exists a walk a', NoDup (names a) /\ append_cmd false false a walk = Ok a' /\
    names a' = [lit "t/a"; lit "t/a"] /\ ~ NoDup (names a').
Proof.
  exists ov_a, [mkN (lit "t/a") 0 (lit "new") 1700000000000000000],
         [mkE (lit "t/a") 0 (lit "one") None; mkE (lit "t/a") 0 (lit "new") None].
  split; [repeat constructor; cbn; tauto|]. split; [vm_compute; reflexivity|]. split; [vm_compute; reflexivity|].
  intro ND. inversion ND as [|x l H _]; subst. apply H. left. reflexivity.
Qed.
