(* Crc32Facts.v — CRC-32 detects every single altered byte (C05's central lemma). *)
From PNA Require Import Base Crc32 BaseFacts.
Require Import ZArith ZifyN ZifyNat ZifyBool.
Open Scope N_scope.

Definition w32 (c : N) : Prop := c < 2 ^ 32.

Lemma w32_testbit c : w32 c <-> forall i, 32 <= i -> N.testbit c i = false.
Proof.
  unfold w32. split.
  - intros H i Hi. destruct (N.eq_dec c 0) as [->|Hc]; [apply N.bits_0|].
    apply N.bits_above_log2. apply N.log2_lt_pow2 in H; lia.
  - intros H. destruct (N.eq_dec c 0) as [->|Hc]; [reflexivity|].
    apply N.log2_lt_pow2; [lia|].
    destruct (N.lt_ge_cases (N.log2 c) 32) as [|Hge]; [assumption|].
    specialize (H (N.log2 c) Hge). rewrite N.bit_log2 in H by assumption. discriminate.
Qed.
Lemma poly_bit31 : N.testbit poly 31 = true. Proof. reflexivity. Qed.
Lemma poly_w32 : w32 poly. Proof. unfold w32, poly. lia. Qed.
Lemma step1_w32 c : w32 c -> w32 (step1 c).
Proof.
  intros H. apply w32_testbit. intros i Hi. unfold step1.
  assert (Hs: N.testbit (N.shiftr c 1) i = false).
  { rewrite N.shiftr_spec by lia. apply (proj1 (w32_testbit c) H). lia. }
  destruct (N.odd c); [rewrite N.lxor_spec, Hs, (proj1 (w32_testbit poly) poly_w32 i Hi); reflexivity | exact Hs].
Qed.
Lemma step1_bit31 c : w32 c -> N.testbit (step1 c) 31 = N.odd c.
Proof.
  intros H. unfold step1.
  assert (Hs: N.testbit (N.shiftr c 1) 31 = false).
  { rewrite N.shiftr_spec by lia. apply (proj1 (w32_testbit c) H). lia. }
  destruct (N.odd c); [rewrite N.lxor_spec, Hs, poly_bit31; reflexivity | exact Hs].
Qed.
Lemma step1_inj c d : w32 c -> w32 d -> step1 c = step1 d -> c = d.
Proof.
  intros Hc Hd E.
  assert (Hodd : N.odd c = N.odd d).
  { rewrite <- (step1_bit31 c Hc), <- (step1_bit31 d Hd), E. reflexivity. }
  unfold step1 in E. rewrite <- Hodd in E.
  assert (Hsh : N.shiftr c 1 = N.shiftr d 1).
  { destruct (N.odd c); [|exact E].
    apply (f_equal (fun x => N.lxor x poly)) in E.
    rewrite !N.lxor_assoc, N.lxor_nilpotent, !N.lxor_0_r in E. exact E. }
  apply N.bits_inj. intros i. destruct (N.eq_dec i 0) as [->|Hi].
  - rewrite !N.bit0_odd. exact Hodd.
  - replace i with (N.pred i + 1) by lia. rewrite <- !N.shiftr_spec by lia. rewrite Hsh. reflexivity.
Qed.
Lemma lxor_w32 c b : w32 c -> w32 b -> w32 (N.lxor c b).
Proof. intros Hc Hb. apply w32_testbit. intros i Hi. rewrite N.lxor_spec,
  (proj1 (w32_testbit c) Hc i Hi), (proj1 (w32_testbit b) Hb i Hi). reflexivity. Qed.
Lemma byte_w32 b : w32 (b2n b).
Proof. unfold w32. pose proof (b2n_lt b). lia. Qed.
Lemma upd_w32 c b : w32 c -> w32 (upd c b).
Proof. intros Hc. unfold upd. pose proof (lxor_w32 c (b2n b) Hc (byte_w32 b)). repeat apply step1_w32. assumption. Qed.
Lemma upd_inj_state c d b : w32 c -> w32 d -> upd c b = upd d b -> c = d.
Proof.
  intros Hc Hd E. unfold upd in E.
  pose proof (lxor_w32 c (b2n b) Hc (byte_w32 b)) as H1. pose proof (lxor_w32 d (b2n b) Hd (byte_w32 b)) as H2.
  do 8 (apply step1_inj in E; [| repeat apply step1_w32; assumption | repeat apply step1_w32; assumption]).
  apply (f_equal (fun x => N.lxor x (b2n b))) in E.
  rewrite !N.lxor_assoc, N.lxor_nilpotent, !N.lxor_0_r in E. exact E.
Qed.
Lemma upd_inj_byte c b b' : w32 c -> upd c b = upd c b' -> b = b'.
Proof.
  intros Hc E. unfold upd in E.
  pose proof (lxor_w32 c (b2n b) Hc (byte_w32 b)) as H1. pose proof (lxor_w32 c (b2n b') Hc (byte_w32 b')) as H2.
  do 8 (apply step1_inj in E; [| repeat apply step1_w32; assumption | repeat apply step1_w32; assumption]).
  apply (f_equal (fun x => N.lxor c x)) in E.
  rewrite <- !N.lxor_assoc, N.lxor_nilpotent, !N.lxor_0_l in E. apply b2n_inj. exact E.
Qed.
Lemma fold_upd_w32 l : forall c, w32 c -> w32 (fold_left upd l c).
Proof. induction l as [|b l IH]; intros c Hc; cbn [fold_left]; [exact Hc|]. apply IH, upd_w32, Hc. Qed.
Lemma fold_upd_inj l : forall c d, w32 c -> w32 d -> fold_left upd l c = fold_left upd l d -> c = d.
Proof.
  induction l as [|b l IH]; intros c d Hc Hd E; cbn [fold_left] in E; [exact E|].
  apply IH in E; [| apply upd_w32; assumption | apply upd_w32; assumption].
  eapply upd_inj_state; eassumption.
Qed.
Lemma crc_init_w32 : w32 crc_init. Proof. unfold w32, crc_init. lia. Qed.
Lemma crc_state_w32 l : w32 (crc_state l).
Proof. apply fold_upd_w32, crc_init_w32. Qed.
Lemma crc32_w32 l : crc32 l < 2 ^ 32.
Proof. unfold crc32. apply (lxor_w32 (crc_state l) 0xFFFFFFFF (crc_state_w32 l)). unfold w32. lia. Qed.

(* any single altered byte changes the checksum *)
Theorem crc32_single_byte p b b' q : b <> b' -> crc32 (p ++ b :: q) <> crc32 (p ++ b' :: q).
Proof.
  intros Hne E. unfold crc32, crc_state in E.
  apply (f_equal (fun x => N.lxor x 0xFFFFFFFF)) in E.
  rewrite !N.lxor_assoc, N.lxor_nilpotent, !N.lxor_0_r in E.
  rewrite !fold_left_app in E. cbn [fold_left] in E.
  assert (Hs : w32 (fold_left upd p crc_init)) by apply fold_upd_w32, crc_init_w32.
  apply fold_upd_inj in E; [| apply upd_w32; assumption | apply upd_w32; assumption].
  apply upd_inj_byte in E; [contradiction | assumption].
Qed.

(* the checksum is injective in the state it starts from: two different prefixes states stay different *)
Lemma crc_suffix_inj p p' q : crc32 (p ++ q) = crc32 (p' ++ q) -> crc_state p = crc_state p'.
Proof.
  unfold crc32, crc_state. intros E.
  apply (f_equal (fun x => N.lxor x 0xFFFFFFFF)) in E.
  rewrite !N.lxor_assoc, N.lxor_nilpotent, !N.lxor_0_r in E.
  rewrite !fold_left_app in E.
  apply fold_upd_inj in E; [exact E | apply fold_upd_w32, crc_init_w32 | apply fold_upd_w32, crc_init_w32].
Qed.

Example crc32_doc_value :
  crc32 (lit "FDAT" ++ [xaa; xbb; xcc; xdd]) = 1207118608.
Proof. vm_compute. reflexivity. Qed.
