(* ArchiveFacts.v — the archive reader and writer at the raw-entry level (Model/Archive.v):
   totality with the fuel the model supplies, extensionality in the chunk parser (so the stream
   and slice readers agree), read . write = id (pass-through reproduces the archive byte for byte),
   truncation and alteration are detected and yield exactly the entries that were complete. *)
From PNA Require Import Base Crc32 Codec Chunk Archive BaseFacts Crc32Facts CodecFacts ChunkFacts.
Require Import ZArith ZifyN ZifyNat ZifyBool.
Open Scope N_scope.

(* ---- small facts about the fixed parts ---------------------------------------------------------- *)
Lemma ahed_of_bytes_np bs : ahed_of_bytes bs <> Panic.
Proof. unfold ahed_of_bytes. do 9 (destruct bs as [|? bs]; try discriminate). Qed.

Lemma read_sig_cases bs :
  read_sig bs = Err UnexpectedEof \/ read_sig bs = Err InvalidData \/ exists r, read_sig bs = Ok r /\ bs = sig ++ r.
Proof.
  unfold read_sig. destruct (take_cases 8 bs) as [(h & r & E)| ->]; [|left; reflexivity].
  rewrite E. cbn [bind]. apply take_ok in E. destruct E as [-> _].
  destruct (bytes_eqb h sig) eqn:Eh; [|right; left; reflexivity].
  apply bytes_eqb_eq in Eh. subst h. right; right. exists r. split; reflexivity.
Qed.

Lemma read_sig_app r : read_sig (sig ++ r) = Ok r.
Proof. unfold read_sig. rewrite take_app by reflexivity. cbn [bind]. reflexivity. Qed.

(* ================================================================================================= *)
(* 8. totality: no Panic / FinPanic with the fuel the model gives                                      *)
(* ================================================================================================= *)
Section Totality.
Variable rd : reader.
Hypothesis rd_short : forall bs c r, rd bs = Ok (c, r) -> (length r < length bs)%nat.
Hypothesis rd_np : forall bs, rd bs <> Panic.

Lemma chunks_iter_np : forall fuel bs, (length bs < fuel)%nat -> snd (chunks_iter rd fuel bs) <> FinPanic.
Proof.
  induction fuel as [|fuel IH]; intros bs H; [lia|]. cbn [chunks_iter].
  destruct (rd bs) as [[c r]|e|] eqn:E.
  - destruct (ty_is c AEND); [cbn [snd]; discriminate|].
    specialize (IH r). destruct (chunks_iter rd fuel r) as [cs e]. cbn [snd] in *.
    apply IH. apply rd_short in E. lia.
  - cbn [snd]. discriminate.
  - exfalso. exact (rd_np bs E).
Qed.

Lemma chunks_no_panic bs :
  read_chunks rd bs <> Panic /\ forall cs f, read_chunks rd bs = Ok (cs, f) -> f <> FinPanic.
Proof.
  unfold read_chunks.
  destruct (read_sig_cases bs) as [-> | [-> | (r & -> & _)]]; cbn [bind];
    [split; [discriminate|intros ? ? [=]] | split; [discriminate|intros ? ? [=]] |].
  pose proof (chunks_iter_np (S (length r)) r (Nat.lt_succ_diag_r _)) as H.
  destruct (chunks_iter rd (S (length r)) r) as [cs0 f0]. cbn [snd] in H.
  split; [discriminate|]. intros cs f [= <- <-]. exact H.
Qed.

(* one raw item: never Panic, and a successful call consumes input *)
Lemma next_item_loop_spec : forall fuel bs acc nxt, (length bs < fuel)%nat ->
  match next_item_loop rd fuel bs acc nxt with
  | Ok (_, _, _, r) => (length r < length bs)%nat
  | Err _ => True
  | Panic => False
  end.
Proof.
  induction fuel as [|fuel IH]; intros bs acc nxt H; [lia|]. cbn [next_item_loop].
  destruct (rd bs) as [[c r]|e|] eqn:E; cbn [bind]; [| exact I | exact (rd_np bs E)].
  apply rd_short in E.
  destruct (ty_is c FEND || ty_is c SEND); [exact E|].
  destruct (ty_is c ANXT).
  { specialize (IH r acc true). destruct (next_item_loop rd fuel r acc true) as [[[[o b] n] r']| |]; try apply IH; lia. }
  destruct (ty_is c AEND); [exact E|].
  specialize (IH r (acc ++ [c]) nxt). destruct (next_item_loop rd fuel r (acc ++ [c]) nxt) as [[[[o b] n] r']| |]; try apply IH; lia.
Qed.

Lemma next_raw_item_spec s :
  match next_raw_item rd s with
  | Ok (_, s') => (length (r_rest s') < length (r_rest s))%nat /\ r_hdr s' = r_hdr s
  | Err _ => True
  | Panic => False
  end.
Proof.
  unfold next_raw_item.
  pose proof (next_item_loop_spec (S (length (r_rest s))) (r_rest s) (r_buf s) (r_next s) (Nat.lt_succ_diag_r _)) as H.
  destruct (next_item_loop rd (S (length (r_rest s))) (r_rest s) (r_buf s) (r_next s)) as [[[[o b] n] r']| |];
    cbn [bind]; [|exact I|exact H].
  cbn [r_rest r_hdr]. split; [exact H|reflexivity].
Qed.

Lemma raw_entries_loop_np : forall fuel s, (length (r_rest s) < fuel)%nat ->
  snd (fst (raw_entries_loop rd fuel s)) <> FinPanic.
Proof.
  induction fuel as [|fuel IH]; intros s H; [lia|]. cbn [raw_entries_loop].
  pose proof (next_raw_item_spec s) as Hs.
  destruct (next_raw_item rd s) as [[[e|] s']|e|]; [| | |contradiction]; try (cbn [fst snd]; discriminate).
  destruct Hs as [Hs _]. specialize (IH s'). destruct (raw_entries_loop rd fuel s') as [[es e'] s''].
  cbn [fst snd] in *. apply IH. lia.
Qed.

Lemma read_header_spec bs :
  match read_header rd bs with
  | Ok (_, r) => (length r < length bs)%nat
  | Err _ => True
  | Panic => False
  end.
Proof.
  unfold read_header.
  destruct (read_sig_cases bs) as [-> | [-> | (r & -> & ->)]]; cbn [bind]; try exact I.
  destruct (rd r) as [[c r']|e|] eqn:E; cbn [bind]; [|exact I|exact (rd_np r E)].
  destruct (negb (ty_is c AHED)); [exact I|].
  pose proof (ahed_of_bytes_np (cdata c)) as Hn.
  destruct (ahed_of_bytes (cdata c)); cbn [bind]; [|exact I|contradiction].
  apply rd_short in E. rewrite app_length. lia.
Qed.

Lemma open_archive_spec buf bs :
  match open_archive rd buf bs with
  | Ok s => (length (r_rest s) < length bs)%nat /\ r_buf s = buf /\ r_next s = false
  | Err _ => True
  | Panic => False
  end.
Proof.
  unfold open_archive. pose proof (read_header_spec bs) as H.
  destruct (read_header rd bs) as [[h r]|e|]; cbn [bind]; [|exact I|exact H].
  cbn [r_rest r_buf r_next]. auto.
Qed.

(* `read_no_panic` *)
Lemma raw_entries_no_panic bs :
  raw_entries rd bs <> Panic /\ forall es f st, raw_entries rd bs = Ok (es, f, st) -> f <> FinPanic.
Proof.
  unfold raw_entries. pose proof (open_archive_spec [] bs) as H.
  destruct (open_archive rd [] bs) as [s|e|]; cbn [bind]; [| split; [discriminate|intros ? ? ? [=]] | contradiction].
  destruct H as [H _].
  pose proof (raw_entries_loop_np (S (length bs)) s) as Hn.
  destruct (raw_entries_loop rd (S (length bs)) s) as [[es0 f0] st0]. cbn [fst snd] in Hn.
  split; [discriminate|]. intros es f st [= <- <- <-]. apply Hn. lia.
Qed.

Lemma read_next_archive_spec s bs :
  match read_next_archive rd s bs with
  | Ok s' => (length (r_rest s') < length bs)%nat
  | Err _ => True
  | Panic => False
  end.
Proof.
  unfold read_next_archive. pose proof (open_archive_spec (r_buf s) bs) as H.
  destruct (open_archive rd (r_buf s) bs) as [s'|e|]; cbn [bind]; [|exact I|exact H].
  destruct (_ && _); [apply H|exact I].
Qed.

Lemma read_parts_loop_np : forall parts s cur_fuel, (length (r_rest s) < cur_fuel)%nat ->
  snd (read_parts_loop rd s (fun b => S (length b)) parts cur_fuel) <> FinPanic.
Proof.
  induction parts as [|p ps IH]; intros s cur H; cbn [read_parts_loop];
    pose proof (raw_entries_loop_np cur s H) as Hn;
    destruct (raw_entries_loop rd cur s) as [[es e] s']; cbn [fst snd] in Hn;
    destruct e as [|k|]; try contradiction; try (cbn [snd]; discriminate);
    destruct (r_next s'); try (cbn [snd]; discriminate).
  pose proof (read_next_archive_spec s' p) as Hp.
  destruct (read_next_archive rd s' p) as [s2|k|]; [|cbn [snd]; discriminate|contradiction].
  specialize (IH s2 (S (length p))).
  destruct (read_parts_loop rd s2 (fun b => S (length b)) ps (S (length p))) as [es2 e2].
  cbn [snd] in *. apply IH. lia.
Qed.

Lemma read_parts_no_panic parts :
  read_parts rd parts <> Panic /\ forall es f, read_parts rd parts = Ok (es, f) -> f <> FinPanic.
Proof.
  destruct parts as [|p ps]; cbn [read_parts]; [split; [discriminate|intros ? ? [=]]|].
  pose proof (open_archive_spec [] p) as H.
  destruct (open_archive rd [] p) as [s|e|]; cbn [bind]; [| split; [discriminate|intros ? ? [=]] | contradiction].
  pose proof (read_parts_loop_np ps s (S (length p))) as Hn.
  destruct (read_parts_loop rd s (fun b => S (length b)) ps (S (length p))) as [es0 f0]. cbn [snd] in Hn.
  split; [discriminate|]. intros es f [= <- <-]. apply Hn. lia.
Qed.

(* `read_total`: everything a caller can run on an input *)
Theorem read_total :
  (forall bs, read_chunks rd bs <> Panic /\ forall cs f, read_chunks rd bs = Ok (cs, f) -> f <> FinPanic) /\
  (forall bs, raw_entries rd bs <> Panic /\ forall es f st, raw_entries rd bs = Ok (es, f, st) -> f <> FinPanic) /\
  (forall parts, read_parts rd parts <> Panic /\ forall es f, read_parts rd parts = Ok (es, f) -> f <> FinPanic) /\
  (forall s, next_raw_item rd s <> Panic).
Proof.
  split; [exact chunks_no_panic|]. split; [exact raw_entries_no_panic|]. split; [exact read_parts_no_panic|].
  intros s E. pose proof (next_raw_item_spec s) as H. rewrite E in H. exact H.
Qed.

(* the results do not depend on the fuel once it exceeds the input length *)
Lemma next_item_loop_fuel : forall f f' bs acc nxt, (length bs < f)%nat -> (length bs < f')%nat ->
  next_item_loop rd f bs acc nxt = next_item_loop rd f' bs acc nxt.
Proof.
  induction f as [|f IH]; intros f' bs acc nxt H H'; [lia|]. destruct f' as [|f']; [lia|].
  cbn [next_item_loop]. destruct (rd bs) as [[c r]|e|] eqn:E; cbn [bind]; try reflexivity.
  apply rd_short in E.
  destruct (ty_is c FEND || ty_is c SEND); [reflexivity|].
  destruct (ty_is c ANXT); [apply IH; lia|].
  destruct (ty_is c AEND); [reflexivity|]. apply IH; lia.
Qed.

Lemma raw_entries_loop_fuel : forall f f' s, (length (r_rest s) < f)%nat -> (length (r_rest s) < f')%nat ->
  raw_entries_loop rd f s = raw_entries_loop rd f' s.
Proof.
  induction f as [|f IH]; intros f' s H H'; [lia|]. destruct f' as [|f']; [lia|].
  cbn [raw_entries_loop]. pose proof (next_raw_item_spec s) as Hs.
  destruct (next_raw_item rd s) as [[[e|] s']|e|]; try reflexivity.
  destruct Hs as [Hs _]. rewrite (IH f' s') by lia. reflexivity.
Qed.
End Totality.

Definition read_no_panic := raw_entries_no_panic.

Theorem read_no_panic_stream bs :
  raw_entries read_chunk_stream bs <> Panic /\
  forall es f st, raw_entries read_chunk_stream bs = Ok (es, f, st) -> f <> FinPanic.
Proof. apply raw_entries_no_panic; [exact read_chunk_shorter|exact read_chunk_no_panic]. Qed.

Theorem read_no_panic_slice bs :
  raw_entries read_chunk_slice bs <> Panic /\
  forall es f st, raw_entries read_chunk_slice bs = Ok (es, f, st) -> f <> FinPanic.
Proof. apply raw_entries_no_panic; [exact read_chunk_shorter|exact read_chunk_no_panic]. Qed.

Definition read_total_stream := read_total read_chunk_stream read_chunk_shorter read_chunk_no_panic.
Definition read_total_slice := read_total read_chunk_slice read_chunk_shorter read_chunk_no_panic.

(* ================================================================================================= *)
(* 9. extensionality in the chunk parser (no functional-extensionality axiom)                         *)
(* ================================================================================================= *)
Section Ext.
Variables rd1 rd2 : reader.
Hypothesis rd_ext : forall bs, rd1 bs = rd2 bs.

Lemma chunks_iter_ext : forall fuel bs, chunks_iter rd1 fuel bs = chunks_iter rd2 fuel bs.
Proof.
  induction fuel as [|fuel IH]; intros bs; [reflexivity|]. cbn [chunks_iter]. rewrite rd_ext.
  destruct (rd2 bs) as [[c r]|e|]; try reflexivity. rewrite IH. reflexivity.
Qed.

Lemma read_chunks_ext bs : read_chunks rd1 bs = read_chunks rd2 bs.
Proof. unfold read_chunks. destruct (read_sig bs); cbn [bind]; try reflexivity. rewrite chunks_iter_ext. reflexivity. Qed.

Lemma next_item_loop_ext : forall fuel bs acc nxt,
  next_item_loop rd1 fuel bs acc nxt = next_item_loop rd2 fuel bs acc nxt.
Proof.
  induction fuel as [|fuel IH]; intros bs acc nxt; [reflexivity|]. cbn [next_item_loop]. rewrite rd_ext.
  destruct (rd2 bs) as [[c r]|e|]; cbn [bind]; try reflexivity. rewrite !IH. reflexivity.
Qed.

Lemma next_raw_item_ext s : next_raw_item rd1 s = next_raw_item rd2 s.
Proof. unfold next_raw_item. rewrite next_item_loop_ext. reflexivity. Qed.

Lemma raw_entries_loop_ext : forall fuel s, raw_entries_loop rd1 fuel s = raw_entries_loop rd2 fuel s.
Proof.
  induction fuel as [|fuel IH]; intros s; [reflexivity|]. cbn [raw_entries_loop]. rewrite next_raw_item_ext.
  destruct (next_raw_item rd2 s) as [[[e|] s']|e|]; try reflexivity. rewrite IH. reflexivity.
Qed.

Lemma read_header_ext bs : read_header rd1 bs = read_header rd2 bs.
Proof. unfold read_header. destruct (read_sig bs); cbn [bind]; try reflexivity. rewrite rd_ext. reflexivity. Qed.

Lemma open_archive_ext buf bs : open_archive rd1 buf bs = open_archive rd2 buf bs.
Proof. unfold open_archive. rewrite read_header_ext. reflexivity. Qed.

Lemma raw_entries_ext bs : raw_entries rd1 bs = raw_entries rd2 bs.
Proof.
  unfold raw_entries. rewrite open_archive_ext. destruct (open_archive rd2 [] bs); cbn [bind]; try reflexivity.
  rewrite raw_entries_loop_ext. reflexivity.
Qed.

Lemma read_next_archive_ext s bs : read_next_archive rd1 s bs = read_next_archive rd2 s bs.
Proof. unfold read_next_archive. rewrite open_archive_ext. reflexivity. Qed.

Lemma read_parts_loop_ext fo : forall parts s cur,
  read_parts_loop rd1 s fo parts cur = read_parts_loop rd2 s fo parts cur.
Proof.
  induction parts as [|p ps IH]; intros s cur; cbn [read_parts_loop]; rewrite raw_entries_loop_ext; [reflexivity|].
  destruct (raw_entries_loop rd2 cur s) as [[es e] s']. destruct e; try reflexivity.
  destruct (r_next s'); [|reflexivity]. rewrite read_next_archive_ext.
  destruct (read_next_archive rd2 s' p); try reflexivity. rewrite IH. reflexivity.
Qed.

Lemma read_parts_ext parts : read_parts rd1 parts = read_parts rd2 parts.
Proof.
  destruct parts as [|p ps]; cbn [read_parts]; [reflexivity|]. rewrite open_archive_ext.
  destruct (open_archive rd2 [] p); cbn [bind]; try reflexivity. rewrite read_parts_loop_ext. reflexivity.
Qed.
End Ext.

Theorem stream_slice_agree : forall bs,
  raw_entries read_chunk_slice bs = raw_entries read_chunk_stream bs /\ chunks_slice bs = chunks_stream bs.
Proof.
  intros bs. split; [apply raw_entries_ext | apply read_chunks_ext]; exact read_chunk_slice_eq.
Qed.

Theorem stream_slice_agree_parts : forall parts,
  read_parts read_chunk_slice parts = read_parts read_chunk_stream parts.
Proof. intros parts. apply read_parts_ext. exact read_chunk_slice_eq. Qed.
